/-
  Soundness, over the reals, of the checkers of `IbexModel/Optim.lean` that the driver runs on the
  results of the real global optimizer (C07, optimizer half of C18).
-/
import IbexModel.Optim
import IbexProofs.RatFun
import IbexProofs.Props.C02
import IbexProofs.Props.C05

namespace Ibex.Optim
open Ibex Ibex.Eval List

/-! ## real-number meaning of a problem -/

/-- the scalar expression `f` is defined at `ρ` with value `v` (real semantics `Alg.real` of C02) -/
def RealVal (f : Fn) (ρ : List ℝ) (v : ℝ) : Prop :=
  ∃ m, root Alg.real ρ (buildCalls Alg.real f.1) f.2 = some m ∧ m.d = [v]

theorem RealVal.unique {f : Fn} {ρ : List ℝ} {v w : ℝ} (h₁ : RealVal f ρ v) (h₂ : RealVal f ρ w) : v = w := by
  obtain ⟨m, hm, hd⟩ := h₁
  obtain ⟨m', hm', hd'⟩ := h₂
  rw [hm] at hm'
  cases hm'
  rw [hd] at hd'
  simpa using hd'

/-- `v spec 0`, equalities relaxed to `|v| ≤ epsH` -/
def SpecHolds (epsH : ℝ) (spec : String) (v : ℝ) : Prop :=
  (spec = "leq" ∧ v ≤ 0) ∨ (spec = "lt" ∧ v < 0) ∨ (spec = "geq" ∧ 0 ≤ v) ∨ (spec = "gt" ∧ 0 < v) ∨
    (spec = "eq" ∧ |v| ≤ epsH)

/-- `ρ` is a feasible point of the eps_h-relaxed problem: in the box, every constraint defined and satisfied -/
def Feasible (P : Problem) (ρ : List ℝ) : Prop :=
  Box.Mem ρ P.box ∧ ∀ c ∈ P.ctrs, ∃ v, RealVal c.1 ρ v ∧ SpecHolds (P.epsH : ℝ) c.2 v

/-- the cast of a rational point -/
def castPt (p : List ℚ) : List ℝ := p.map (Rat.cast : ℚ → ℝ)

/-! ## exact evaluation -/

theorem evalQ_real {f : Fn} {p : List ℚ} {v : ℚ} (h : evalQ f p = some v) : RealVal f (castPt p) (v : ℝ) := by
  unfold evalQ at h
  split at h
  · rename_i m hm
    split at h
    · rename_i w hd
      simp only [Option.some.injEq] at h
      subst h
      obtain ⟨z, hz, -, -, hrel⟩ := C02.rat_root_real hm
      refine ⟨z, hz, ?_⟩
      rw [hd, forall₂_cons_left_iff] at hrel
      obtain ⟨x, xs, hx, hxs, hzd⟩ := hrel
      rw [forall₂_nil_left_iff] at hxs
      subst hxs
      rw [hzd, hx]
    · cases h
  · cases h

theorem specSat_sound {e : ℚ} {spec : String} {v : ℚ} (h : specSat e spec v = true) :
    SpecHolds (e : ℝ) spec (v : ℝ) := by
  unfold specSat at h
  split_ifs at h with h1 h2 h3 h4 h5
  · exact Or.inl ⟨h1, by exact_mod_cast of_decide_eq_true h⟩
  · exact Or.inr (Or.inl ⟨h2, by exact_mod_cast of_decide_eq_true h⟩)
  · exact Or.inr (Or.inr (Or.inl ⟨h3, by exact_mod_cast of_decide_eq_true h⟩))
  · exact Or.inr (Or.inr (Or.inr (Or.inl ⟨h4, by exact_mod_cast of_decide_eq_true h⟩)))
  · simp only [Bool.and_eq_true, decide_eq_true_eq] at h
    refine Or.inr (Or.inr (Or.inr (Or.inr ⟨h5, ?_⟩)))
    rw [abs_le]
    exact ⟨by exact_mod_cast h.1, by exact_mod_cast h.2⟩

theorem containsExt_fin' {I : Itv} {q : ℚ} (h : Itv.containsExt I (.fin q) = true) : (q : ℝ) ∈ I := by
  cases I with
  | empty => simp [Itv.containsExt] at h
  | mk a b =>
    simp only [Itv.containsExt, Bool.and_eq_true, Ext.le_iff, Ext.toE_fin] at h
    exact h

theorem inBoxQ_sound : ∀ {p : List ℚ} {b : Box}, inBoxQ p b = true → Box.Mem (castPt p) b
  | [], [], _ => Box.mem_nil
  | q :: ps, I :: bs, h => by
    simp only [inBoxQ, Bool.and_eq_true] at h
    simp only [castPt, List.map_cons]
    exact Box.mem_cons.2 ⟨containsExt_fin' h.1, inBoxQ_sound h.2⟩
  | [], _ :: _, h => by simp [inBoxQ] at h
  | _ :: _, [], h => by simp [inBoxQ] at h

theorem ctrSatQ_sound {e : ℚ} {c : Fn × String} {p : List ℚ} (h : ctrSatQ e c p = true) :
    ∃ v, RealVal c.1 (castPt p) v ∧ SpecHolds (e : ℝ) c.2 v := by
  unfold ctrSatQ at h
  split at h
  · rename_i v hv
    exact ⟨(v : ℝ), evalQ_real hv, specSat_sound h⟩
  · cases h

/-- **an exactly feasible rational point is a feasible real point** -/
theorem feasQ_sound {P : Problem} {p : List ℚ} (h : feasQ P p = true) : Feasible P (castPt p) := by
  simp only [feasQ, Bool.and_eq_true, List.all_eq_true] at h
  exact ⟨inBoxQ_sound h.1, fun c hc => ctrSatQ_sound (h.2 c hc)⟩

/-! ## bounds on the checked points -/

theorem lowerOk_sound {P : Problem} {uplo : Ext} {pts : List (List ℚ)} (h : lowerOk P uplo pts = true)
    {p : List ℚ} (hp : p ∈ pts) (hf : feasQ P p = true) {v : ℚ} (hv : evalQ P.obj p = some v) :
    uplo.toE ≤ (((v : ℚ) : ℝ) : EReal) := by
  have := List.all_eq_true.1 h p hp
  simp only [lowerOkAt, hf, Bool.not_true, Bool.false_or, hv] at this
  simpa using (Ext.le_iff _ _).1 this

/-! ## the loup point -/

theorem pointOf_mem : ∀ {b : Box} {p : List ℚ}, pointOf b = some p → Box.Mem (castPt p) b
  | [], p, h => by
    simp only [pointOf, Option.some.injEq] at h
    subst h
    exact Box.mem_nil
  | .mk (.fin a) (.fin c) :: bs, p, h => by
    simp only [pointOf] at h
    split_ifs at h with hac
    simp only [Option.map_eq_some_iff] at h
    obtain ⟨ps, hps, rfl⟩ := h
    simp only [castPt, List.map_cons]
    refine Box.mem_cons.2 ⟨?_, pointOf_mem hps⟩
    rw [Itv.mem_mk]
    subst hac
    simp
  | .empty :: _, _, h => by simp [pointOf] at h
  | .mk .ninf _ :: _, _, h => by simp [pointOf] at h
  | .mk .pinf _ :: _, _, h => by simp [pointOf] at h
  | .mk (.fin _) .ninf :: _, _, h => by simp [pointOf] at h
  | .mk (.fin _) .pinf :: _, _, h => by simp [pointOf] at h

/-- exact witness: feasible, objective defined and `≤ loup` -/
theorem witExact_sound {P : Problem} {loup : Ext} {p : List ℚ} (h : witExact P loup p = true) :
    Feasible P (castPt p) ∧ ∃ v, RealVal P.obj (castPt p) v ∧ ((v : ℝ) : EReal) ≤ loup.toE := by
  simp only [witExact, Bool.and_eq_true] at h
  refine ⟨feasQ_sound h.1, ?_⟩
  have h2 := h.2
  split at h2
  · rename_i v hv
    exact ⟨(v : ℝ), evalQ_real hv, by simpa using (Ext.le_iff _ _).1 h2⟩
  · cases h2

theorem itvVal_encl {f : Fn} {b : Box} {z : Itv} (h : itvVal f b = some z) {ρ : List ℝ} (hρ : Box.Mem ρ b)
    {v : ℝ} (hv : RealVal f ρ v) : v ∈ z := by
  unfold itvVal at h
  split at h
  · rename_i m hm
    split at h
    · rename_i z' hd
      simp only [Option.some.injEq] at h
      subst h
      obtain ⟨mr, hmr, hdr⟩ := hv
      obtain ⟨-, -, hrel⟩ := C02.root_encl hρ hmr hm
      rw [hdr, hd] at hrel
      cases hrel with
      | cons hx _ => exact hx
    · cases h
  · cases h

theorem specProved_sound {e : ℚ} {spec : String} {z : Itv} (h : specProved e spec z = true) {v : ℝ}
    (hv : v ∈ z) : SpecHolds (e : ℝ) spec v := by
  unfold specProved at h
  split_ifs at h with heq
  · simp only [Bool.and_eq_true] at h
    have := Itv.mem_of_subset h.1 hv
    rw [Itv.mem_mk] at this
    refine Or.inr (Or.inr (Or.inr (Or.inr ⟨heq, ?_⟩)))
    rw [abs_le]
    simp only [Ext.toE_fin, EReal.coe_le_coe_iff, Rat.cast_neg] at this
    exact this
  · rcases C05.signProved_sound h hv with h1 | h1 | h1 | h1
    · exact Or.inl h1
    · exact Or.inr (Or.inl h1)
    · exact Or.inr (Or.inr (Or.inl h1))
    · exact Or.inr (Or.inr (Or.inr (Or.inl h1)))

/-- what an interval witness means: at EVERY real point of the box `b`, the point is in the initial box,
    every constraint holds wherever it is defined, and the objective is `≤ loup` wherever it is defined -/
def WitOn (P : Problem) (loup : Ext) (ρ : List ℝ) : Prop :=
  Box.Mem ρ P.box ∧ (∀ c ∈ P.ctrs, ∀ v, RealVal c.1 ρ v → SpecHolds (P.epsH : ℝ) c.2 v) ∧
    ∀ v, RealVal P.obj ρ v → ((v : ℝ) : EReal) ≤ loup.toE

theorem witItv_sound {P : Problem} {loup : Ext} {b : Box} (h : witItv P loup b = true) {ρ : List ℝ}
    (hρ : Box.Mem ρ b) : WitOn P loup ρ := by
  simp only [witItv, Bool.and_eq_true, List.all_eq_true] at h
  obtain ⟨⟨⟨-, hsub⟩, hc⟩, ho⟩ := h
  refine ⟨Box.subset_sound hsub hρ, fun c hcm v hv => ?_, fun v hv => ?_⟩
  · have := hc c hcm
    split at this
    · rename_i z hz
      exact specProved_sound this (itvVal_encl hz hρ hv)
    · cases this
  · split at ho
    · rename_i lo hi hz
      have hm := itvVal_encl hz hρ hv
      exact le_trans hm.2 ((Ext.le_iff _ _).1 ho)
    · cases ho

/-- rigor mode, decidable part: every real point of the thin box is in the initial box and has `f ≤ loup` -/
theorem witRigor_sound {P : Problem} {loup : Ext} {b : Box} (h : witRigor P loup b = true) {ρ : List ℝ}
    (hρ : Box.Mem ρ b) : Box.Mem ρ P.box ∧ ∀ v, RealVal P.obj ρ v → ((v : ℝ) : EReal) ≤ loup.toE := by
  simp only [witRigor, Bool.and_eq_true] at h
  obtain ⟨⟨-, hsub⟩, ho⟩ := h
  refine ⟨Box.subset_sound hsub hρ, fun v hv => ?_⟩
  split at ho
  · rename_i lo hi hz
    exact le_trans (itvVal_encl hz hρ hv).2 ((Ext.le_iff _ _).1 ho)
  · cases ho

/-! ## the refuting checkers -/

/-- the enclosure `z` of the values refutes `v spec 0` (equalities: `|v| ≤ epsH`, exactly `v = 0` in rigor mode) -/
theorem specRefuted_sound {e : ℚ} {rigor : Bool} {spec : String} {z : Itv}
    (h : specRefuted e rigor spec z = true) {v : ℝ} (hv : v ∈ z) :
    ¬ SpecHolds (if rigor then (0 : ℝ) else (e : ℝ)) spec v := by
  cases z with
  | empty => simp [specRefuted] at h
  | mk lo hi =>
    rw [Itv.mem_mk] at hv
    obtain ⟨hlo, hhi⟩ := hv
    simp only [specRefuted] at h
    split_ifs at h with h1 h2 h3 h4 h5
    · -- leq : 0 < lo
      subst h1
      have h0 : (0 : ℝ) < v := by
        have := lt_of_lt_of_le ((Ext.lt_iff _ _).1 h) hlo
        simpa using this
      rintro (⟨-, hs⟩ | ⟨hne, -⟩ | ⟨hne, -⟩ | ⟨hne, -⟩ | ⟨hne, -⟩)
      · linarith
      all_goals exact absurd hne (by decide)
    · -- lt : 0 ≤ lo
      subst h2
      have h0 : (0 : ℝ) ≤ v := by
        have := le_trans ((Ext.le_iff _ _).1 h) hlo
        simpa using this
      rintro (⟨hne, -⟩ | ⟨-, hs⟩ | ⟨hne, -⟩ | ⟨hne, -⟩ | ⟨hne, -⟩)
      · exact absurd hne (by decide)
      · linarith
      all_goals exact absurd hne (by decide)
    · -- geq : hi < 0
      subst h3
      have h0 : v < (0 : ℝ) := by
        have := lt_of_le_of_lt hhi ((Ext.lt_iff _ _).1 h)
        simpa using this
      rintro (⟨hne, -⟩ | ⟨hne, -⟩ | ⟨-, hs⟩ | ⟨hne, -⟩ | ⟨hne, -⟩)
      · exact absurd hne (by decide)
      · exact absurd hne (by decide)
      · linarith
      all_goals exact absurd hne (by decide)
    · -- gt : hi ≤ 0
      subst h4
      have h0 : v ≤ (0 : ℝ) := by
        have := le_trans hhi ((Ext.le_iff _ _).1 h)
        simpa using this
      rintro (⟨hne, -⟩ | ⟨hne, -⟩ | ⟨hne, -⟩ | ⟨-, hs⟩ | ⟨hne, -⟩)
      · exact absurd hne (by decide)
      · exact absurd hne (by decide)
      · exact absurd hne (by decide)
      · linarith
      · exact absurd hne (by decide)
    · -- eq, rigor : 0 < lo or hi < 0
      subst h5
      rename_i hr
      subst hr
      simp only [Bool.or_eq_true] at h
      rintro (⟨hne, -⟩ | ⟨hne, -⟩ | ⟨hne, -⟩ | ⟨hne, -⟩ | ⟨-, hs⟩)
      · exact absurd hne (by decide)
      · exact absurd hne (by decide)
      · exact absurd hne (by decide)
      · exact absurd hne (by decide)
      · simp only [if_true] at hs
        rw [abs_le] at hs
        rcases h with h | h
        · have := lt_of_lt_of_le ((Ext.lt_iff _ _).1 h) hlo
          have h0 : (0 : ℝ) < v := by simpa using this
          linarith [hs.2]
        · have := lt_of_le_of_lt hhi ((Ext.lt_iff _ _).1 h)
          have h0 : v < (0 : ℝ) := by simpa using this
          linarith [hs.1]
    · -- eq, no rigor : epsH < lo or hi < -epsH
      subst h5
      rename_i hr
      have hr' : rigor = false := by simpa using hr
      subst hr'
      simp only [Bool.or_eq_true] at h
      rintro (⟨hne, -⟩ | ⟨hne, -⟩ | ⟨hne, -⟩ | ⟨hne, -⟩ | ⟨-, hs⟩)
      · exact absurd hne (by decide)
      · exact absurd hne (by decide)
      · exact absurd hne (by decide)
      · exact absurd hne (by decide)
      · simp only [Bool.false_eq_true, if_false] at hs
        rw [abs_le] at hs
        rcases h with h | h
        · have := lt_of_lt_of_le ((Ext.lt_iff _ _).1 h) hlo
          have h0 : (e : ℝ) < v := by simpa using this
          linarith [hs.2]
        · have := lt_of_le_of_lt hhi ((Ext.lt_iff _ _).1 h)
          rw [Ext.toE_fin, Rat.cast_neg] at this
          have h0 : v < -(e : ℝ) := by exact_mod_cast this
          linarith [hs.1]

/-- what a refuted box means: it is empty, or it leaves the initial box, or some constraint is violated at EVERY real
    point of the box at which it is defined (equalities: exactly in rigor mode, beyond `eps_h` otherwise), or the
    model's enclosure of the objective on the box exceeds `loup` -/
theorem witBoxRefuted_sound {P : Problem} {rigor : Bool} {loup : Ext} {b : Box}
    (h : witBoxRefuted P rigor loup b = true) :
    Box.isEmpty b = true ∨ Box.subset b P.box = false ∨
    (∃ c ∈ P.ctrs, ∀ ρ, Box.Mem ρ b → ∀ v, RealVal c.1 ρ v →
      ¬ SpecHolds (if rigor then (0 : ℝ) else (P.epsH : ℝ)) c.2 v) ∨
    (∃ lo hi, itvVal P.obj b = some (.mk lo hi) ∧ Ext.le hi loup = false) := by
  simp only [witBoxRefuted, Bool.or_eq_true, Bool.not_eq_true', List.any_eq_true] at h
  rcases h with ((h | h) | ⟨c, hc, h⟩) | h
  · exact Or.inl h
  · exact Or.inr (Or.inl h)
  · refine Or.inr (Or.inr (Or.inl ⟨c, hc, fun ρ hρ v hv => ?_⟩))
    split at h
    · rename_i z hz
      exact specRefuted_sound h (itvVal_encl hz hρ hv)
    · cases h
  · refine Or.inr (Or.inr (Or.inr ?_))
    split at h
    · rename_i lo hi hz
      exact ⟨lo, hi, hz, by simpa using h⟩
    · cases h

theorem specSat_complete {e : ℚ} {spec : String} {v : ℚ} (h : specSat e spec v = false) :
    ¬ SpecHolds (e : ℝ) spec (v : ℝ) := by
  unfold specSat at h
  rintro (⟨hs, hv⟩ | ⟨hs, hv⟩ | ⟨hs, hv⟩ | ⟨hs, hv⟩ | ⟨hs, hv⟩) <;> subst hs
  · simp only [if_true, decide_eq_false_iff_not] at h
    exact h (by exact_mod_cast hv)
  · simp only [show ¬ ("lt" = "leq") by decide, if_false, if_true, decide_eq_false_iff_not] at h
    exact h (by exact_mod_cast hv)
  · simp only [show ¬ ("geq" = "leq") by decide, show ¬ ("geq" = "lt") by decide, if_false, if_true,
      decide_eq_false_iff_not] at h
    exact h (by exact_mod_cast hv)
  · simp only [show ¬ ("gt" = "leq") by decide, show ¬ ("gt" = "lt") by decide, show ¬ ("gt" = "geq") by decide,
      if_false, if_true, decide_eq_false_iff_not] at h
    exact h (by exact_mod_cast hv)
  · simp only [show ¬ ("eq" = "leq") by decide, show ¬ ("eq" = "lt") by decide, show ¬ ("eq" = "geq") by decide,
      show ¬ ("eq" = "gt") by decide, if_false, if_true, Bool.and_eq_false_iff, decide_eq_false_iff_not] at h
    rw [abs_le] at hv
    rcases h with h | h
    · exact h (by exact_mod_cast hv.1)
    · exact h (by exact_mod_cast hv.2)

theorem containsExt_fin_complete {I : Itv} {q : ℚ} (h : Itv.containsExt I (.fin q) = false) : ¬ (q : ℝ) ∈ I := by
  cases I with
  | empty => exact Itv.not_mem_empty _
  | mk a b =>
    intro hm
    rw [Itv.mem_mk] at hm
    have : Itv.containsExt (.mk a b) (.fin q) = true := by
      simp only [Itv.containsExt, Bool.and_eq_true, Ext.le_iff, Ext.toE_fin]
      exact hm
    rw [h] at this
    cases this

theorem inBoxQ_complete : ∀ {p : List ℚ} {b : Box}, inBoxQ p b = false → ¬ Box.Mem (castPt p) b
  | [], [], h => by simp [inBoxQ] at h
  | q :: ps, I :: bs, h => by
    simp only [inBoxQ, Bool.and_eq_false_iff] at h
    simp only [castPt, List.map_cons]
    intro hm
    obtain ⟨h1, h2⟩ := Box.mem_cons.1 hm
    rcases h with h | h
    · exact containsExt_fin_complete h h1
    · exact inBoxQ_complete h h2
  | [], _ :: _, _ => fun hm => by simpa [castPt] using hm.length_eq
  | _ :: _, [], _ => fun hm => by simpa [castPt] using hm.length_eq

/-- **a point refuted exactly is not a feasible real point**: it lies outside the box, or some constraint is defined
    at it (hence has THE value computed exactly) and violated -/
theorem infeasQ_sound {P : Problem} {p : List ℚ} (h : infeasQ P p = true) : ¬ Feasible P (castPt p) := by
  simp only [infeasQ, Bool.or_eq_true, Bool.not_eq_true', List.any_eq_true] at h
  rintro ⟨hbox, hctr⟩
  rcases h with h | ⟨c, hc, h⟩
  · exact inBoxQ_complete h hbox
  · obtain ⟨w, hw, hs⟩ := hctr c hc
    split at h
    · rename_i v hv
      have : w = (v : ℝ) := RealVal.unique hw (evalQ_real hv)
      subst this
      exact specSat_complete (by simpa using h) hs
    · cases h

/-- a refuted point witness is not a witness: not feasible, or its objective value (the real one) is above `loup` -/
theorem witRefuted_sound {P : Problem} {loup : Ext} {p : List ℚ} (h : witRefuted P loup p = true) :
    ¬ (Feasible P (castPt p) ∧ ∃ v, RealVal P.obj (castPt p) v ∧ ((v : ℝ) : EReal) ≤ loup.toE) := by
  simp only [witRefuted, Bool.or_eq_true] at h
  rintro ⟨hf, w, hw, hle⟩
  rcases h with h | h
  · exact infeasQ_sound h hf
  · split at h
    · rename_i v hv
      have : w = (v : ℝ) := RealVal.unique hw (evalQ_real hv)
      subst this
      have h' : Ext.le (.fin v) loup = false := by simpa using h
      have : Ext.le (.fin v) loup = true := (Ext.le_iff _ _).2 (by simpa using hle)
      rw [h'] at this
      cases this
    · cases h

/-! ## status -/

/-- the precision test of the optimizer, on the exact values of the doubles -/
def Precision (relEps absEps : ℝ) (uplo loup : Ext) : Prop :=
  ∃ u l : ℚ, uplo = .fin u ∧ loup = .fin l ∧
    ((l : ℝ) - u ≤ absEps ∨ (l = 0 ∧ (0 : ℝ) ≤ u) ∨ (l ≠ 0 ∧ u ≠ 0 ∧ (l : ℝ) - u ≤ relEps * |(u : ℝ)|))

theorem precOk_sound {rel abs : ℚ} {uplo loup : Ext} (h : precOk rel abs uplo loup = true) :
    Precision (rel : ℝ) (abs : ℝ) uplo loup := by
  unfold precOk at h
  split at h
  · rename_i u l
    refine ⟨u, l, rfl, rfl, ?_⟩
    simp only [Bool.or_eq_true, decide_eq_true_eq] at h
    rcases h with h | h
    · exact Or.inl (by exact_mod_cast h)
    · by_cases hl : l = 0
      · rw [if_pos hl] at h
        exact Or.inr (Or.inl ⟨hl, by exact_mod_cast of_decide_eq_true h⟩)
      · rw [if_neg hl] at h
        simp only [Bool.and_eq_true, decide_eq_true_eq] at h
        refine Or.inr (Or.inr ⟨hl, h.1, ?_⟩)
        have h2 : ((l - u : ℚ) : ℝ) ≤ ((rel * (if u < 0 then -u else u) : ℚ) : ℝ) := by exact_mod_cast h.2
        have habs : ((if u < 0 then -u else u : ℚ) : ℝ) = |(u : ℝ)| := by
          by_cases hu : u < 0
          · rw [if_pos hu, abs_of_neg (by exact_mod_cast hu)]; push_cast; ring
          · rw [if_neg hu, abs_of_nonneg (by exact_mod_cast not_lt.1 hu)]
        rw [Rat.cast_mul, habs] at h2
        push_cast at h2
        exact h2
  · cases h

theorem statusOk_success {R : Run} {res : Result} (h : statusOk R res = true) (hs : res.status = "SUCCESS") :
    Precision (R.relEps : ℝ) (R.absEps : ℝ) res.uplo res.loup ∧ res.loup.toE < R.initLoup.toE := by
  simp only [statusOk, hs, if_true, Bool.and_eq_true] at h
  exact ⟨precOk_sound h.1, (Ext.lt_iff _ _).1 h.2⟩

theorem statusOk_nofeasible {R : Run} {res : Result} (h : statusOk R res = true)
    (hs : res.status = "INFEASIBLE" ∨ res.status = "NO_FEASIBLE_FOUND") : res.loup = R.initLoup := by
  unfold statusOk at h
  rcases hs with hs | hs <;> simpa [hs] using h

theorem statusOk_cases {R : Run} {res : Result} (h : statusOk R res = true) :
    res.status = "SUCCESS" ∨ res.status = "INFEASIBLE" ∨ res.status = "NO_FEASIBLE_FOUND" ∨
      res.status = "UNBOUNDED_OBJ" ∨ res.status = "TIME_OUT" ∨ res.status = "UNREACHED_PREC" := by
  unfold statusOk at h
  split_ifs at h with h1 h2
  · exact Or.inl h1
  · rcases h2 with h2 | h2
    · exact Or.inr (Or.inl h2)
    · exact Or.inr (Or.inr (Or.inl h2))
  · have := of_decide_eq_true h
    rcases this with h3 | h3 | h3
    · exact Or.inr (Or.inr (Or.inr (Or.inl h3)))
    · exact Or.inr (Or.inr (Or.inr (Or.inr (Or.inl h3))))
    · exact Or.inr (Or.inr (Or.inr (Or.inr (Or.inr h3))))

/-- INFEASIBLE accepted ⇒ no checked point is feasible with a defined objective value below the initial loup
    (`initLoup = +∞` when none was given: then the conclusion `⊤ ≤ v` is absurd, i.e. there is no such point) -/
theorem infeasOk_sound {P : Problem} {R : Run} {res : Result} {pts : List (List ℚ)}
    (h : infeasOk P R res pts = true) (hs : res.status = "INFEASIBLE") {p : List ℚ} (hp : p ∈ pts)
    (hf : feasQ P p = true) {v : ℚ} (hv : evalQ P.obj p = some v) :
    R.initLoup.toE ≤ (((v : ℚ) : ℝ) : EReal) := by
  simp only [infeasOk, hs, beq_self_eq_true, Bool.not_true, Bool.false_or, List.all_eq_true] at h
  have := h p hp
  simp only [refutesInfeasible, hf, Bool.true_and, hv, Bool.not_eq_true'] at this
  have h2 : ¬ (Ext.lt (.fin v) R.initLoup = true) := by simp [this]
  rw [Ext.lt_iff] at h2
  simpa using not_lt.1 h2

/-! ## lower-bound certificates -/

theorem polyOf_sound {B n : ℕ} {f : Fn} {q : Poly} (h : polyOf B f n = some q) {ρ : List ℝ}
    (hρ : ρ.length = n) {v : ℝ} (hv : RealVal f ρ v) : v = Poly.ev q (valOf ρ) := by
  unfold polyOf at h
  split at h
  · rename_i m hm
    split at h
    · rename_i F hd
      split_ifs at h with hden
      simp only [Option.some.injEq] at h
      subst h
      obtain ⟨mr, hmr, hdr⟩ := hv
      obtain ⟨-, -, hrel⟩ := nf_real hρ hm hmr
      rw [hdr, hd] at hrel
      cases hrel with
      | cons hx _ =>
        obtain ⟨-, hx⟩ := hx
        rw [hx, hden, Poly.ev_one, div_one]
    · cases h
  · cases h

theorem valOf_mem {ρ : List ℝ} {b : Box} (hρ : Box.Mem ρ b) {k : ℕ} {I : Itv} (hI : b[k]? = some I) :
    valOf ρ k ∈ I := by
  obtain ⟨hl, h⟩ := Box.mem_iff.1 hρ
  have hk : k < b.length := (List.getElem?_eq_some_iff.1 hI).1
  have hk' : k < ρ.length := hl ▸ hk
  have : ρ[k]? = some ρ[k] := List.getElem?_eq_getElem hk'
  rw [valOf_getElem? this]
  exact h k _ _ this hI

theorem spec_leq_lt {e v : ℝ} {s : String} (hs : s = "leq" ∨ s = "lt") (h : SpecHolds e s v) : v ≤ 0 := by
  rcases hs with rfl | rfl <;> rcases h with ⟨_, h⟩ | ⟨h1, h⟩ | ⟨h1, _⟩ | ⟨h1, _⟩ | ⟨h1, _⟩ <;>
    first | exact h | exact le_of_lt h | exact absurd h1 (by decide)

theorem spec_geq_gt {e v : ℝ} {s : String} (hs : s = "geq" ∨ s = "gt") (h : SpecHolds e s v) : 0 ≤ v := by
  rcases hs with rfl | rfl <;> rcases h with ⟨h1, _⟩ | ⟨h1, _⟩ | ⟨h1, h⟩ | ⟨h1, h⟩ | ⟨h1, _⟩ <;>
    first | exact h | exact le_of_lt h | exact absurd h1 (by decide)

theorem spec_eq {e v : ℝ} {s : String} (hs : s = "eq") (h : SpecHolds e s v) : |v| ≤ e := by
  subst hs
  rcases h with ⟨h1, _⟩ | ⟨h1, _⟩ | ⟨h1, _⟩ | ⟨h1, _⟩ | ⟨_, h⟩ <;>
    first | exact h | exact absurd h1 (by decide)

/-- every slack is non-negative at a feasible point -/
theorem slackPoly_nonneg {B : ℕ} {P : Problem} {s : Slack} {sp : Poly}
    (h : slackPoly B P P.box.length s = some sp) {ρ : List ℝ} (hf : Feasible P ρ) :
    0 ≤ Poly.ev sp (valOf ρ) := by
  have hlen : ρ.length = P.box.length := hf.1.length_eq
  cases s with
  | lo k =>
    simp only [slackPoly] at h
    split at h
    · rename_i l hi hI
      simp only [Option.some.injEq] at h
      subst h
      have := (valOf_mem hf.1 hI).1
      simp only [Ext.toE_fin, EReal.coe_le_coe_iff] at this
      rw [Poly.ev_sub, Poly.ev_var, Poly.ev_const]
      linarith
    · cases h
  | hi k =>
    simp only [slackPoly] at h
    split at h
    · rename_i lo u hI
      simp only [Option.some.injEq] at h
      subst h
      have := (valOf_mem hf.1 hI).2
      simp only [Ext.toE_fin, EReal.coe_le_coe_iff] at this
      rw [Poly.ev_sub, Poly.ev_var, Poly.ev_const]
      linarith
    · cases h
  | ctr j =>
    simp only [slackPoly] at h
    split at h
    · rename_i c hc
      obtain ⟨v, hv, hs⟩ := hf.2 c (List.mem_of_getElem? hc)
      split_ifs at h with h1 h2
      · simp only [Option.map_eq_some_iff] at h
        obtain ⟨q, hq, rfl⟩ := h
        rw [Poly.ev_neg, ← polyOf_sound hq hlen hv]
        linarith [spec_leq_lt h1 hs]
      · rw [← polyOf_sound h hlen hv]
        exact spec_geq_gt h2 hs
    · cases h
  | eqP j =>
    simp only [slackPoly] at h
    split at h
    · rename_i c hc
      obtain ⟨v, hv, hs⟩ := hf.2 c (List.mem_of_getElem? hc)
      split_ifs at h with h1
      simp only [Option.map_eq_some_iff] at h
      obtain ⟨q, hq, rfl⟩ := h
      rw [Poly.ev_sub, Poly.ev_const, ← polyOf_sound hq hlen hv]
      linarith [(abs_le.1 (spec_eq h1 hs)).2]
    · cases h
  | eqM j =>
    simp only [slackPoly] at h
    split at h
    · rename_i c hc
      obtain ⟨v, hv, hs⟩ := hf.2 c (List.mem_of_getElem? hc)
      split_ifs at h with h1
      simp only [Option.map_eq_some_iff] at h
      obtain ⟨q, hq, rfl⟩ := h
      rw [Poly.ev_add, Poly.ev_const, ← polyOf_sound hq hlen hv]
      linarith [(abs_le.1 (spec_eq h1 hs)).1]
    · cases h

theorem sosPoly_nonneg {B n : ℕ} (val : ℕ → ℝ) : ∀ {l : List (ℚ × Fn)} {s : Poly},
    sosPoly B n l = some s → 0 ≤ Poly.ev s val
  | [], s, h => by
    simp only [sosPoly, Option.some.injEq] at h
    subst h
    simp [Poly.ev]
  | (w, q) :: rest, s, h => by
    simp only [sosPoly] at h
    split_ifs at h with hw
    split at h
    · rename_i qp r hq hr
      simp only [Option.some.injEq] at h
      subst h
      rw [Poly.ev_add, Poly.ev_mul, Poly.ev_mul, Poly.ev_const]
      have h1 : (0 : ℝ) ≤ (w : ℝ) := by exact_mod_cast not_lt.1 hw
      have h2 := sosPoly_nonneg val hr
      have h3 := mul_self_nonneg (Poly.ev qp val)
      positivity
    · cases h

theorem linPoly_nonneg {B : ℕ} {P : Problem} {ρ : List ℝ} (hf : Feasible P ρ) :
    ∀ {l : List (ℚ × Slack)} {s : Poly}, linPoly B P P.box.length l = some s → 0 ≤ Poly.ev s (valOf ρ)
  | [], s, h => by
    simp only [linPoly, Option.some.injEq] at h
    subst h
    simp [Poly.ev]
  | (w, sl) :: rest, s, h => by
    simp only [linPoly] at h
    split_ifs at h with hw
    split at h
    · rename_i sp r hs hr
      simp only [Option.some.injEq] at h
      subst h
      rw [Poly.ev_add, Poly.ev_mul, Poly.ev_const]
      have h1 : (0 : ℝ) ≤ (w : ℝ) := by exact_mod_cast not_lt.1 hw
      have h2 := linPoly_nonneg hf hr
      have h3 := slackPoly_nonneg hs hf
      positivity
    · cases h

/-- **Soundness of the lower-bound certificate.**  If the checker accepts `f ≡ c + Σ w q² + Σ λ s` then at EVERY
    feasible real point of the box at which the objective is defined, its value is at least `c`. -/
theorem Cert.okB_sound {B : ℕ} {P : Problem} {C : Cert} (h : C.okB B P = true) {ρ : List ℝ}
    (hf : Feasible P ρ) {v : ℝ} (hv : RealVal P.obj ρ v) : (C.c : ℝ) ≤ v := by
  have hlen : ρ.length = P.box.length := hf.1.length_eq
  unfold Cert.okB at h
  split at h
  · rename_i t m ht hm
    split at h
    · rename_i F hd
      simp only [beq_iff_eq] at h
      obtain ⟨mr, hmr, hdr⟩ := hv
      obtain ⟨-, -, hrel⟩ := nf_real hlen hm hmr
      rw [hdr, hd] at hrel
      have hF : RF.Rep (valOf ρ) v F := by
        cases hrel with
        | cons hx _ => exact hx
      have ht' : RF.Rep (valOf ρ) (Poly.ev t (valOf ρ)) ⟨t, Poly.one⟩ := by
        refine ⟨by simp [Poly.ev_one], by simp [Poly.ev_one]⟩
      rw [RF.eqv_sound h hF ht']
      unfold Cert.poly at ht
      split at ht
      · rename_i s l hs hl
        simp only [Option.some.injEq] at ht
        subst ht
        rw [Poly.ev_add, Poly.ev_add, Poly.ev_const]
        have := sosPoly_nonneg (valOf ρ) hs
        have := linPoly_nonneg hf hl
        linarith
      · cases ht
    · cases h
  · cases h

theorem Cert.ok_sound {P : Problem} {C : Cert} (h : C.ok P = true) {ρ : List ℝ}
    (hf : Feasible P ρ) {v : ℝ} (hv : RealVal P.obj ρ v) : (C.c : ℝ) ≤ v := Cert.okB_sound h hf hv

/-! ## resumed searches -/

theorem carriedOk_last : ∀ {saved : List Saved} {res : Result}, carriedOk saved res = true →
    ∀ s, saved.getLast? = some s → res.loup.toE ≤ s.loup.toE ∧ (res.loup = s.loup → res.lp = s.lp)
  | [], _, _, s, hs => by simp at hs
  | [s0], res, h, s, hs => by
    simp only [List.getLast?_singleton, Option.some.injEq] at hs
    subst hs
    simp only [carriedOk, Bool.and_eq_true, Bool.or_eq_true, Bool.not_eq_true', beq_eq_false_iff_ne,
      beq_iff_eq] at h
    exact ⟨(Ext.le_iff _ _).1 h.1, fun e => h.2.resolve_left (fun hne => hne e)⟩
  | s0 :: t :: rest, res, h, s, hs => by
    simp only [carriedOk, Bool.and_eq_true] at h
    rw [List.getLast?_cons_cons] at hs
    exact carriedOk_last h.2 s hs

/-- the loup never increases along the chain of saved states and up to the final result -/
theorem carriedOk_all : ∀ {saved : List Saved} {res : Result}, carriedOk saved res = true →
    ∀ s ∈ saved, res.loup.toE ≤ s.loup.toE
  | [], _, _, s, hs => by cases hs
  | [s0], res, h, s, hs => by
    simp only [List.mem_singleton] at hs
    subst hs
    simp only [carriedOk, Bool.and_eq_true] at h
    exact (Ext.le_iff _ _).1 h.1
  | s0 :: t :: rest, res, h, s, hs => by
    simp only [carriedOk, Bool.and_eq_true] at h
    have ih := carriedOk_all h.2
    rcases List.mem_cons.1 hs with rfl | hs
    · exact le_trans (ih t (List.mem_cons_self ..)) ((Ext.le_iff _ _).1 h.1.1)
    · exact ih s hs

end Ibex.Optim
