/-
  C13 — real-number semantics of systems of constraints (definitions shared by the proofs).

  `A : Alg ℝ` is the real algebra: `Alg.real` (thick interval constants have no value) or
  `Alg.realWith ch` (a thick constant `I` denotes the selected member `ch I`); all theorems are
  stated for every algebra that is `RealLike` (exact subtraction and opposite, degenerate
  constants denote their value).
-/
import IbexProofs.EvalCert
import IbexProofs.EvalWF
import IbexModel.Sys

namespace Ibex
namespace Sys
open Ibex Ibex.Eval

/-- what the proofs need from the real algebra -/
structure RealLike (A : Alg ℝ) : Prop where
  sub : ∀ a b : ℝ, A.sub a b = some (a - b)
  neg : A.un "minus" = some (fun a => some (-a))
  pt : ∀ q : ℚ, A.ofItv (Itv.point q) = some (q : ℝ)

theorem realLike_real : RealLike Alg.real where
  sub := fun _ _ => rfl
  neg := rfl
  pt := fun q => by simp [Alg.real, realOfItv, Itv.point]

theorem realLike_realWith {ch : Itv → Option ℝ} (h : ∀ q : ℚ, ch (Itv.point q) = some (q : ℝ)) :
    RealLike (Alg.realWith ch) where
  sub := fun _ _ => rfl
  neg := rfl
  pt := h

/-- `x op 0` -/
def Cmp.holds : Cmp → ℝ → Prop
  | .lt, x => x < 0
  | .leq, x => x ≤ 0
  | .eq, x => x = 0
  | .geq, x => 0 ≤ x
  | .gt, x => 0 < x

/-- real value of an expression at the point `ρ` (flattened variables) -/
noncomputable def evalR (A : Alg ℝ) (f : Prog) (ρ : List ℝ) : Option (Mat ℝ) :=
  root A ρ (buildCalls A f.funs) f.main

/-- the constraint `f(x) op 0` holds at `ρ`: `f` is defined there and every entry satisfies `op` -/
def Ctr.Sat (A : Alg ℝ) (c : Ctr) (ρ : List ℝ) : Prop :=
  ∃ v, evalR A c.f ρ = some v ∧ ∀ x ∈ v.d, c.op.holds x

/-- every entry of `f(x)` is within `eps` of 0 -/
def Ctr.SatEps (A : Alg ℝ) (eps : ℝ) (c : Ctr) (ρ : List ℝ) : Prop :=
  ∃ v, evalR A c.f ρ = some v ∧ ∀ x ∈ v.d, |x| ≤ eps

def SatAll (A : Alg ℝ) (cs : List Ctr) (ρ : List ℝ) : Prop := ∀ c ∈ cs, c.Sat A ρ

/-- every constraint function has a value at `ρ` -/
def Defined (A : Alg ℝ) (cs : List Ctr) (ρ : List ℝ) : Prop := ∀ c ∈ cs, ∃ v, evalR A c.f ρ = some v

/-- satisfaction through the vector-valued function `f_ctrs` and the array `ops` -/
def SatF (A : Alg ℝ) (f : Prog) (ops : List Cmp) (ρ : List ℝ) : Prop :=
  ∃ v, evalR A f ρ = some v ∧ List.Forall₂ (fun x op => Cmp.holds op x) v.d ops

end Sys
end Ibex
