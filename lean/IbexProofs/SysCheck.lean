/-
  C13 — building blocks of the soundness of the checkers run on the dumps of the real derived
  systems (`matchAll` of `IbexModel/Sys.lean`: lists of (normal form, operator) equal up to a
  permutation have the same solutions), and the round trip of `write_ext_box` / `read_ext_box`.
  The checkers themselves are proved sound in `IbexProofs/SysT.lean`.
-/
import IbexProofs.SysSem
import IbexProofs.RatFun

namespace Ibex
namespace Sys
open Ibex Ibex.Eval List

theorem optAnd_true {a b : Option Bool} (h : optAnd a b = some true) : a = some true ∧ b = some true := by
  cases a with
  | none => cases b with
    | none => simp [optAnd] at h
    | some y => cases y <;> simp [optAnd] at h
  | some x => cases x with
    | false => simp [optAnd] at h
    | true => cases b with
      | none => simp [optAnd] at h
      | some y => cases y <;> simp [optAnd] at h ⊢

/-! ### `f_ctrs` / `ops[]` against the constraints -/

/-- a real value with its operator is represented by a normal form with the same operator -/
def RelNF (ρ : ℕ → ℝ) (p : ℝ × Cmp) (e : RF × Cmp) : Prop := RF.Rep ρ p.1 e.1 ∧ p.2 = e.2

def AllHold (L : List (ℝ × Cmp)) : Prop := ∀ p ∈ L, Cmp.holds p.2 p.1

theorem allHold_cons (p : ℝ × Cmp) (L : List (ℝ × Cmp)) :
    AllHold (p :: L) ↔ Cmp.holds p.2 p.1 ∧ AllHold L := by
  simp [AllHold]

theorem allHold_append (L₁ L₂ : List (ℝ × Cmp)) : AllHold (L₁ ++ L₂) ↔ AllHold L₁ ∧ AllHold L₂ := by
  simp only [AllHold, mem_append]
  constructor
  · intro h
    exact ⟨fun p hp => h p (Or.inl hp), fun p hp => h p (Or.inr hp)⟩
  · rintro ⟨h1, h2⟩ p (hp | hp)
    · exact h1 p hp
    · exact h2 p hp

theorem removeMatch_sound {B : ℕ} {ρ : ℕ → ℝ} {a : RF × Cmp} {x : ℝ} (hx : RF.Rep ρ x a.1) :
    ∀ {bs rest : List (RF × Cmp)} {ys : List (ℝ × Cmp)}, removeMatch B a bs = some (some rest) →
      Forall₂ (RelNF ρ) ys bs →
      ∃ ys', Forall₂ (RelNF ρ) ys' rest ∧ (AllHold ys ↔ (Cmp.holds a.2 x ∧ AllHold ys'))
  | [], _, _, h, _ => by simp [removeMatch] at h
  | b :: bs, rest, ys, h, hys => by
    rw [forall₂_cons_right_iff] at hys
    obtain ⟨y, ys₀, hyb, hys₀, rfl⟩ := hys
    -- the recursive call, when it succeeds
    have hrec : ∀ r, removeMatch B a bs = some (some r) → rest = b :: r →
        ∃ ys', Forall₂ (RelNF ρ) ys' rest ∧ (AllHold (y :: ys₀) ↔ (Cmp.holds a.2 x ∧ AllHold ys')) := by
      intro r hr hrest
      obtain ⟨ys', hys', hiff⟩ := removeMatch_sound hx hr hys₀
      refine ⟨y :: ys', by rw [hrest]; exact Forall₂.cons hyb hys', ?_⟩
      rw [allHold_cons, allHold_cons, hiff]
      tauto
    simp only [removeMatch] at h
    split_ifs at h with hop
    · split at h
      · -- matched here
        rename_i he
        simp only [Option.some.injEq] at h
        subst h
        have hxy : x = y.1 := RF.eqv_sound he hx hyb.1
        refine ⟨ys₀, hys₀, ?_⟩
        rw [allHold_cons, hyb.2, ← hop, ← hxy]
      · split at h
        · rename_i r hr
          simp only [Option.some.injEq] at h
          exact hrec r hr h.symm
        · split_ifs at h
          exact absurd h (by simp)
        · exact absurd h (by simp)
    · split at h
      · rename_i r hr
        simp only [Option.some.injEq] at h
        exact hrec r hr h.symm
      · rename_i o hne
        rw [h] at hne
        exact absurd rfl (hne rest)

theorem matchAll_sound {B : ℕ} {ρ : ℕ → ℝ} :
    ∀ {as bs : List (RF × Cmp)} {xs ys : List (ℝ × Cmp)}, matchAll B as bs = some true →
      Forall₂ (RelNF ρ) xs as → Forall₂ (RelNF ρ) ys bs → (AllHold xs ↔ AllHold ys)
  | [], [], _, _, _, hx, hy => by
    rw [forall₂_nil_right_iff] at hx hy
    rw [hx, hy]
  | [], _ :: _, _, _, h, _, _ => by simp [matchAll] at h
  | a :: as, bs, xs, ys, h, hx, hy => by
    rw [forall₂_cons_right_iff] at hx
    obtain ⟨x, xs₀, hxa, hxs₀, rfl⟩ := hx
    simp only [matchAll] at h
    split at h
    · exact absurd h (by simp)
    · exact absurd h (by simp)
    · rename_i rest hr
      obtain ⟨ys', hys', hiff⟩ := removeMatch_sound hxa.1 hr hy
      rw [allHold_cons, hiff, hxa.2, matchAll_sound h hxs₀ hys']

theorem forall₂_zip_ops {ρ : ℕ → ℝ} : ∀ {ws : List ℝ} {Fs : List RF} {ops : List Cmp},
    Forall₂ (RF.Rep ρ) ws Fs → Fs.length = ops.length →
      Forall₂ (RelNF ρ) (zip ws ops) (zip Fs ops) ∧
      (AllHold (zip ws ops) ↔ Forall₂ (fun x op => Cmp.holds op x) ws ops)
  | [], [], [], _, _ => ⟨Forall₂.nil, by simp [AllHold]⟩
  | [], [], _ :: _, _, hl => by simp at hl
  | _ :: _, [], _, h, _ => by cases h
  | [], _ :: _, _, h, _ => by cases h
  | _ :: _, _ :: _, [], _, hl => by simp at hl
  | w :: ws, F :: Fs, op :: ops, h, hl => by
    rw [forall₂_cons] at h
    obtain ⟨ih1, ih2⟩ := forall₂_zip_ops h.2 (by simpa using hl)
    refine ⟨?_, ?_⟩
    · simp only [zip_cons_cons]
      exact Forall₂.cons ⟨h.1, rfl⟩ ih1
    · simp only [zip_cons_cons, allHold_cons, forall₂_cons, ih2]

/-! ### extended boxes -/

/-- reading back an extended box written by `write_ext_box` returns the box -/
theorem readExt_writeExt {α : Type} (gv : ℕ) (box ext : List α) (hg : gv ≤ box.length)
    (he : gv < ext.length) : readExt gv (writeExt gv box ext) = box := by
  unfold readExt writeExt
  have ht : (box.take gv).length = gv := by rw [length_take]; omega
  obtain ⟨e, hx⟩ : ∃ e, (ext.drop gv).take 1 = [e] := by
    cases h : ext.drop gv with
    | nil =>
      have := congrArg length h
      rw [length_drop] at this
      simp at this
      omega
    | cons e l => exact ⟨e, by simp⟩
  rw [hx, append_assoc]
  have h1 : take gv (take gv box ++ ([e] ++ drop gv box)) = take gv box := by
    rw [take_append_of_le_length (by omega), take_take, min_self]
  have h2 : drop (gv + 1) (take gv box ++ ([e] ++ drop gv box)) = drop gv box := by
    rw [drop_append, ht, drop_eq_nil_of_le (by omega)]
    simp
  rw [h1, h2, take_append_drop]

end Sys
end Ibex
