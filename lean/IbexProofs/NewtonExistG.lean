/-
  Rounding-generic existence certificate `Newton.existCertVarsG r` (IbexModel/Newton.lean): the tools.
  The analogue of `NewtonExist.lean`, for every sound rounding pair `r`:

  1. enclosure lemmas for the interval computations of the certificate (`dotQG`, `dotIG`, `iterMatG`);
  2. `exist_unpackG` : what `existCertVarsG r … = true` provides.

  Everything that does not depend on the interval operators (`krawczyk_fixed`, `rowSum_sound`,
  `boundsQ_some`, `nodupB_iff`, `leftInvOk_sound`, `midBox_*`) is reused from `NewtonExist.lean`.
  The soundness theorem is in `Props/C09exact.lean`.
-/
import IbexProofs.NewtonExist
import IbexProofs.NewtonCertG

namespace Ibex
open Ibex List Filter Topology

variable {r : Rnd}

theorem dotQG_fold_encl (hr : r.Sound) :
    ∀ (xs : List Itv) (crow : List ℚ) (acc : Itv) (s : ℝ) (a : ℕ → ℝ), s ∈ acc →
      (∀ k (hk : k < xs.length), a k ∈ xs[k]) →
      s + ∑ k ∈ Finset.range xs.length, ((crow.getD k 0 : ℚ) : ℝ) * a k ∈
        (List.zip crow xs).foldl (fun acc (q : ℚ × Itv) =>
          Itv.addG r acc (Itv.mulG r (Itv.point q.1) q.2)) acc := by
  intro xs
  induction xs with
  | nil =>
    intro crow acc s a hs _
    simpa using hs
  | cons r0 rs ih =>
    intro crow acc s a hs ha
    cases crow with
    | nil => simpa using hs
    | cons c cs =>
      simp only [List.zip_cons_cons, List.foldl_cons, List.length_cons]
      have h0 : a 0 ∈ r0 := by
        have := ha 0 (by simp)
        simpa using this
      have := ih cs (Itv.addG r acc (Itv.mulG r (Itv.point c) r0)) (s + (c : ℝ) * a 0)
        (fun k => a (k + 1)) (Itv.addG_encl hr hs (Itv.mulG_encl hr (mem_point_cast c) h0))
        (fun k hk => by
          have := ha (k + 1) (by simp; omega)
          simpa using this)
      rw [Finset.sum_range_succ']
      simp only [List.getD_cons_succ, List.getD_cons_zero]
      convert this using 1
      ring

/-- `Σ_k c_k a_k ∈ dotQG r c [x]` when `a_k ∈ [x_k]` -/
theorem dotQG_encl (hr : r.Sound) {crow : List ℚ} {xs : List Itv} {m : ℕ} (hx : xs.length = m) (a : Fin m → ℝ)
    (ha : ∀ k : Fin m, a k ∈ xs.getD k .empty) :
    ∑ k : Fin m, ((crow.getD k 0 : ℚ) : ℝ) * a k ∈ Newton.dotQG r crow xs := by
  let a' : ℕ → ℝ := fun k => if h : k < m then a ⟨k, h⟩ else 0
  have h := dotQG_fold_encl hr xs crow (Itv.point 0) 0 a' (by simpa using mem_point_cast 0) (by
    intro k hk
    have hkm : k < m := hx ▸ hk
    have := ha ⟨k, hkm⟩
    rw [getD_eq_getElem' hk] at this
    simpa only [a', dif_pos hkm] using this)
  rw [zero_add, hx, ← Fin.sum_univ_eq_sum_range (fun k => ((crow.getD k 0 : ℚ) : ℝ) * a' k) m] at h
  have e : ∀ k : Fin m, a' k = a k := fun k => by simp [a', k.2]
  simp only [e] at h
  exact h

theorem dotIG_fold_encl (hr : r.Sound) :
    ∀ (as bs : List Itv) (acc : Itv) (s : ℝ) (u v : ℕ → ℝ), as.length = bs.length → s ∈ acc →
      (∀ k (hk : k < as.length), u k ∈ as[k]) → (∀ k (hk : k < bs.length), v k ∈ bs[k]) →
      s + ∑ k ∈ Finset.range as.length, u k * v k ∈
        (List.zip as bs).foldl (fun acc (q : Itv × Itv) => Itv.addG r acc (Itv.mulG r q.1 q.2)) acc := by
  intro as
  induction as with
  | nil =>
    intro bs acc s u v _ hs _ _
    simpa using hs
  | cons r0 rs ih =>
    intro bs acc s u v hl hs hu hv
    cases bs with
    | nil => simp at hl
    | cons b bs =>
      simp only [List.zip_cons_cons, List.foldl_cons, List.length_cons]
      have h0 : u 0 ∈ r0 := by
        have := hu 0 (by simp)
        simpa using this
      have h0' : v 0 ∈ b := by
        have := hv 0 (by simp)
        simpa using this
      have := ih bs (Itv.addG r acc (Itv.mulG r r0 b)) (s + u 0 * v 0)
        (fun k => u (k + 1)) (fun k => v (k + 1)) (by simpa using hl)
        (Itv.addG_encl hr hs (Itv.mulG_encl hr h0 h0'))
        (fun k hk => by
          have := hu (k + 1) (by simp; omega)
          simpa using this)
        (fun k hk => by
          have := hv (k + 1) (by simp; omega)
          simpa using this)
      rw [Finset.sum_range_succ']
      convert this using 1
      ring

/-- `Σ_k u_k v_k ∈ dotIG r [a] [b]` when `u_k ∈ [a_k]`, `v_k ∈ [b_k]` -/
theorem dotIG_encl (hr : r.Sound) {as bs : List Itv} {m : ℕ} (ha : as.length = m) (hb : bs.length = m)
    (u v : Fin m → ℝ)
    (hu : ∀ k : Fin m, u k ∈ as.getD k .empty) (hv : ∀ k : Fin m, v k ∈ bs.getD k .empty) :
    ∑ k : Fin m, u k * v k ∈ Newton.dotIG r as bs := by
  let u' : ℕ → ℝ := fun k => if h : k < m then u ⟨k, h⟩ else 0
  let v' : ℕ → ℝ := fun k => if h : k < m then v ⟨k, h⟩ else 0
  have h := dotIG_fold_encl hr as bs (Itv.point 0) 0 u' v' (ha.trans hb.symm)
    (by simpa using mem_point_cast 0)
    (by
      intro k hk
      have hkm : k < m := ha ▸ hk
      have := hu ⟨k, hkm⟩
      rw [getD_eq_getElem' hk] at this
      simpa only [u', dif_pos hkm] using this)
    (by
      intro k hk
      have hkm : k < m := hb ▸ hk
      have := hv ⟨k, hkm⟩
      rw [getD_eq_getElem' hk] at this
      simpa only [v', dif_pos hkm] using this)
  rw [zero_add, ha, ← Fin.sum_univ_eq_sum_range (fun k => u' k * v' k) m] at h
  have e : ∀ k : Fin m, u' k = u k := fun k => by simp [u', k.2]
  have e' : ∀ k : Fin m, v' k = v k := fun k => by simp [v', k.2]
  simp only [e, e'] at h
  exact h

theorem precondG_length (c : List (List ℚ)) (j : List (List Itv)) :
    (Newton.precondG r c j).length = c.length := by
  simp [Newton.precondG]

theorem precondG_row_length {c : List (List ℚ)} {j : List (List Itv)} {i : ℕ} (hi : i < c.length) :
    ((Newton.precondG r c j).getD i []).length = j.length := by
  simp [Newton.precondG, List.getD_eq_getElem?_getD, List.getElem?_map, List.getElem?_eq_getElem hi]

theorem iterMatG_length (c : List (List ℚ)) (j : List (List Itv)) :
    (Newton.iterMatG r c j).length = c.length := by
  simp [Newton.iterMatG, precondG_length]

theorem iterMatG_getD {c : List (List ℚ)} {j : List (List Itv)} {i k : ℕ} (hi : i < c.length)
    (hk : k < j.length) :
    ((Newton.iterMatG r c j).getD i []).getD k .empty =
      Itv.subG r (Itv.point (if k == i then 1 else 0)) (((Newton.precondG r c j).getD i []).getD k .empty) := by
  have hi' : i < (Newton.precondG r c j).length := by rw [precondG_length]; exact hi
  have hk' : k < ((Newton.precondG r c j)[i]).length := by
    have := precondG_row_length (r := r) (j := j) hi
    rw [getD_eq_getElem' hi'] at this
    rw [this]; exact hk
  unfold Newton.iterMatG
  simp only [List.getD_eq_getElem?_getD, List.getElem?_map, List.getElem?_zipIdx,
    List.getElem?_eq_getElem hi', Option.map_some, Option.getD_some, Nat.zero_add,
    List.getElem?_eq_getElem hk']

theorem iterMatG_row_length {c : List (List ℚ)} {j : List (List Itv)} {i : ℕ} (hi : i < c.length) :
    ((Newton.iterMatG r c j).getD i []).length = j.length := by
  have hi' : i < (Newton.precondG r c j).length := by rw [precondG_length]; exact hi
  have := precondG_row_length (r := r) (j := j) hi
  rw [getD_eq_getElem' hi'] at this
  unfold Newton.iterMatG
  simp only [List.getD_eq_getElem?_getD, List.getElem?_map, List.getElem?_zipIdx,
    List.getElem?_eq_getElem hi', Option.map_some, Option.getD_some, List.length_map, List.length_zipIdx]
  exact this

/-- what `existCertVarsG r … = true` provides -/
theorem exist_unpackG {progs : List (List Dag × Dag)} {h : Box} {vars : List ℕ}
    (hcert : Newton.existCertVarsG r progs h vars = true) :
    progs.length = vars.length ∧ (∀ v ∈ vars, v < h.length) ∧ vars.Nodup ∧
    ∃ (jfull : List (List Itv)) (mid c : List (List ℚ)) (bnds : List (ℚ × ℚ)) (fm : List Itv),
      Newton.jacobianG r progs h = some jfull ∧ c.length = jfull.length ∧
      Newton.leftInvOk mid c vars.length = true ∧
      vars.mapM (fun v => Newton.boundsQ (h.getD v .empty)) = some bnds ∧
      progs.mapM (fun p => Newton.evalItv1G r p
        (Newton.midBox h vars (bnds.map fun (ab : ℚ × ℚ) => (ab.1 + ab.2) / 2))) = some fm ∧
      (Newton.iterMatG r c (jfull.map fun row => vars.map fun v => row.getD v .empty)).all
        Newton.rowSumLt1 = true ∧
      ∀ i < vars.length, Itv.subset
        (Itv.addG r (Itv.subG r (Itv.point ((bnds.map fun (ab : ℚ × ℚ) => (ab.1 + ab.2) / 2).getD i 0))
            (Newton.dotQG r (c.getD i []) fm))
          (Newton.dotIG r
            ((Newton.iterMatG r c (jfull.map fun row => vars.map fun v => row.getD v .empty)).getD i [])
            (List.zipWith (fun v x => Itv.subG r (h.getD v .empty) (Itv.point x)) vars
              (bnds.map fun (ab : ℚ × ℚ) => (ab.1 + ab.2) / 2))))
        (h.getD (vars.getD i 0) .empty) = true := by
  unfold Newton.existCertVarsG at hcert
  simp only [Bool.and_eq_true, beq_iff_eq, List.all_eq_true, decide_eq_true_eq] at hcert
  obtain ⟨⟨⟨⟨hlen, _⟩, hvars⟩, hnd⟩, hmatch⟩ := hcert
  refine ⟨hlen, hvars, (nodupB_iff vars).1 hnd, ?_⟩
  split at hmatch
  · exact absurd hmatch (by simp)
  · rename_i jfull hJ
    split at hmatch
    · exact absurd hmatch (by simp)
    · rename_i mid hmid
      split at hmatch
      · exact absurd hmatch (by simp)
      · rename_i c hc
        simp only [Bool.and_eq_true] at hmatch
        obtain ⟨hL, hmatch⟩ := hmatch
        split at hmatch
        · exact absurd hmatch (by simp)
        · rename_i bnds hb
          split at hmatch
          · exact absurd hmatch (by simp)
          · rename_i fm hfm
            simp only [Bool.and_eq_true, List.all_eq_true, List.mem_range] at hmatch
            refine ⟨jfull, mid, c, bnds, fm, hJ, ?_, hL, hb, hfm, ?_, hmatch.2⟩
            · rw [inverse_length hc, ← (C08.mapM_forall₂ hmid).length_eq, List.length_map]
            · rw [List.all_eq_true]
              exact hmatch.1

end Ibex
