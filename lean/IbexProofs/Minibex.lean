/-
  C10 — proofs about the model `IbexModel/Minibex.lean`.

  1. `EvalG.run_nodes`       : every node value of a generic evaluation is the node semantics applied
                               to the values of its arguments.
  2. `TreeCert.check_sound`  : an accepted classification ⇒ nodes of the same class have the same value,
                               for every node semantics (two semantics that agree where both are defined).
  3. `Eval.run_eq_runG`      : `Eval.run A env call` is the generic evaluator for `semOf A env call`.
  4. `checkFlat_sound`       : flattened normal-form comparison, sound at every real point.
  5. hexadecimal constants   : `readHex_printHex`, `readDbl_printDbl`.
-/
import IbexModel.Minibex
import IbexProofs.RatFun
import Mathlib.Data.List.Forall2

namespace Ibex
open List

/-! ## 0. small facts on `mapM` in `Option` -/

theorem mapM_some_iff {ι β : Type} {f : ι → Option β} :
    ∀ {l : List ι} {ms : List β}, l.mapM f = some ms ↔ l.map f = ms.map some
  | [], ms => by
    cases ms <;> simp
  | a :: l, ms => by
    cases ms with
    | nil =>
      simp only [List.mapM_cons, bind, Option.bind_eq_some_iff, List.map_cons, List.map_nil]
      constructor
      · rintro ⟨b, _, bs, _, h⟩
        simp [pure] at h
      · intro h
        simp at h
    | cons m ms =>
      simp only [List.mapM_cons, bind, Option.bind_eq_some_iff, List.map_cons, List.cons.injEq]
      constructor
      · rintro ⟨b, hb, bs, hbs, h⟩
        simp only [pure, Option.some.injEq, List.cons.injEq] at h
        obtain ⟨rfl, rfl⟩ := h
        exact ⟨hb, mapM_some_iff.1 hbs⟩
      · rintro ⟨hb, hl⟩
        exact ⟨m, hb, ms, mapM_some_iff.2 hl, rfl⟩

theorem map_some_injective {β : Type} {xs ys : List β} (h : xs.map some = ys.map some) : xs = ys :=
  List.map_injective_iff.2 (Option.some_injective β) h

theorem map_eq_map_iff_forall₂ {ι κ β : Type} {f : ι → β} {g : κ → β} {l : List ι} {u : List κ} :
    l.map f = u.map g ↔ Forall₂ (fun a b => f a = g b) l u := by
  rw [← forall₂_eq_eq_eq, forall₂_map_left_iff, forall₂_map_right_iff]

theorem forall₂_join {ι κ γ : Type} {R : ι → γ → Prop} {S : κ → γ → Prop} :
    ∀ {as : List ι} {bs : List κ} {cs : List γ}, Forall₂ R as cs → Forall₂ S bs cs →
      Forall₂ (fun a b => ∃ c, R a c ∧ S b c) as bs
  | _, _, _, .nil, h => by
    cases h
    exact .nil
  | _, _, _, .cons hr hrs, h => by
    cases h with
    | cons hs hss => exact .cons ⟨_, hr, hs⟩ (forall₂_join hrs hss)

theorem forall₂_of_all_left {ι κ : Type} {R : ι → κ → Prop} {p : ι → Prop} :
    ∀ {l : List ι} {u : List κ}, Forall₂ R l u → (∀ a ∈ l, p a) → Forall₂ (fun a b => p a ∧ R a b) l u
  | _, _, .nil, _ => .nil
  | _, _, .cons h hs, hp =>
    .cons ⟨hp _ (by simp), h⟩ (forall₂_of_all_left hs fun a ha => hp a (by simp [ha]))

theorem forall₂_of_all_right {ι κ : Type} {R : ι → κ → Prop} {p : κ → Prop} :
    ∀ {l : List ι} {u : List κ}, Forall₂ R l u → (∀ b ∈ u, p b) → Forall₂ (fun a b => p b ∧ R a b) l u
  | _, _, .nil, _ => .nil
  | _, _, .cons h hs, hp =>
    .cons ⟨hp _ (by simp), h⟩ (forall₂_of_all_right hs fun a ha => hp a (by simp [ha]))

/-! ## 1. the generic evaluator -/
namespace EvalG
variable {α : Type} {sem : Node → List (Mat α) → Option (Mat α)}

theorem step_eq_some {vals w : Array (Mat α)} {n : Node} (h : step sem vals n = some w) :
    ∃ ms x, (n.k.args.mapM fun i => vals[i]?) = some ms ∧ sem n.shape ms = some x ∧ w = vals.push x := by
  unfold step at h
  simp only [Option.bind_eq_some_iff, Option.map_eq_some_iff] at h
  obtain ⟨ms, hms, x, hx, rfl⟩ := h
  exact ⟨ms, x, hms, hx, rfl⟩

theorem mapM_lookup_mono {v r : Array (Mat α)} (h : ∀ (j : Nat) (x : Mat α), v[j]? = some x → r[j]? = some x)
    {as : List Nat} {ms : List (Mat α)} (hm : (as.mapM fun i => v[i]?) = some ms) :
    (as.mapM fun i => r[i]?) = some ms := by
  rw [mapM_some_iff] at hm ⊢
  rw [map_eq_map_iff_forall₂] at hm ⊢
  exact hm.imp fun a b hab => h _ _ hab

/-- the fold: sizes, earlier entries kept, and every processed node has the value given by `sem`
    on the (final) values of its arguments -/
theorem fold_inv : ∀ (ns : List Node) {v r : Array (Mat α)}, ns.foldlM (step sem) v = some r →
    r.size = v.size + ns.length ∧ (∀ (j : Nat) (x : Mat α), v[j]? = some x → r[j]? = some x) ∧
    ∀ (i : Nat) (hi : i < ns.length), ∃ ms x, ((ns[i]).k.args.mapM fun a => r[a]?) = some ms ∧
      sem (ns[i]).shape ms = some x ∧ r[v.size + i]? = some x := by
  intro ns
  induction ns with
  | nil =>
    intro v r h
    simp only [List.foldlM_nil, pure, Option.some.injEq] at h
    subst h
    exact ⟨by simp, fun _ _ h => h, fun i hi => absurd hi (by simp)⟩
  | cons n ns ih =>
    intro v r h
    simp only [List.foldlM_cons, bind, Option.bind_eq_some_iff] at h
    obtain ⟨w, hw, h⟩ := h
    obtain ⟨ms, x, hms, hx, rfl⟩ := step_eq_some hw
    obtain ⟨h1, h2, h3⟩ := ih h
    have hvw : ∀ (j : Nat) (y : Mat α), v[j]? = some y → (v.push x)[j]? = some y := by
      intro j y hj
      have hlt : j < v.size := by
        by_contra hge
        rw [Array.getElem?_eq_none (by omega)] at hj
        exact absurd hj (by simp)
      rw [Array.getElem?_push, if_neg (by omega)]
      exact hj
    refine ⟨by rw [h1]; simp; omega, fun j y hj => h2 j y (hvw j y hj), ?_⟩
    intro i hi
    cases i with
    | zero =>
      refine ⟨ms, x, ?_, hx, ?_⟩
      · exact mapM_lookup_mono h2 (mapM_lookup_mono hvw hms)
      · exact h2 _ _ (by simp)
    | succ i =>
      obtain ⟨ms', x', hm', hx', hr'⟩ := h3 i (by simpa using hi)
      refine ⟨ms', x', hm', hx', ?_⟩
      have : v.size + (i + 1) = (v.push x).size + i := by simp; omega
      rw [this]
      exact hr'

/-- **every node value is the node semantics applied to the values of its arguments** -/
theorem run_nodes {dag : Dag} {r : Array (Mat α)} (h : run sem dag = some r) :
    r.size = dag.size ∧ ∀ (i : Nat) (n : Node), dag[i]? = some n → ∃ ms x, (n.k.args.mapM fun a => r[a]?) = some ms ∧
      sem n.shape ms = some x ∧ r[i]? = some x := by
  unfold run at h
  obtain ⟨h1, _, h3⟩ := fold_inv dag.toList h
  refine ⟨by simpa using h1, ?_⟩
  intro i n hn
  have hi : i < dag.toList.length := by
    by_contra hge
    rw [Array.getElem?_eq_none (by simpa using hge)] at hn
    exact absurd hn (by simp)
  obtain ⟨ms, x, hm, hx, hr⟩ := h3 i hi
  have hn' : dag.toList[i] = n := by
    have : dag[i]? = some dag.toList[i] := by
      simp only [Array.length_toList] at hi
      simp [hi]
    rw [this] at hn
    exact Option.some.inj hn
  rw [hn'] at hm hx
  exact ⟨ms, x, hm, hx, by simpa using hr⟩

end EvalG

/-! ## 2. the structural comparison -/
namespace TreeCert
variable {α : Type}

theorem nodeOk_spec {d : Dag} {c : Array Nat} {rep : Array (Node × List Nat)} {i : Nat}
    (h : nodeOk d c rep i = true) :
    ∃ n k sh cc, d[i]? = some n ∧ c[i]? = some k ∧ rep[k]? = some (sh, cc) ∧ n.shape = sh ∧
      (n.k.args.map fun a => c[a]?) = cc.map some ∧ (∀ a ∈ n.k.args, a < i) ∧ ∀ q ∈ cc, q < k := by
  unfold nodeOk at h
  split at h
  · rename_i n k hn hk
    split at h
    · rename_i sh cc hrep
      simp only [Bool.and_eq_true, decide_eq_true_eq, List.all_eq_true] at h
      obtain ⟨⟨⟨h1, h2⟩, h3⟩, h4⟩ := h
      exact ⟨n, k, sh, cc, hn, hk, hrep, h1, h2, h3, h4⟩
    · exact absurd h (by simp)
  · exact absurd h (by simp)

/-- nodes of the same class have the same value -/
theorem classes_sound {sem₁ sem₂ : Node → List (Mat α) → Option (Mat α)}
    (hsem : ∀ sh ms x y, sem₁ sh ms = some x → sem₂ sh ms = some y → x = y)
    {d1 d2 : Dag} {c1 c2 : Array Nat} {rep : Array (Node × List Nat)}
    (h1 : ∀ i, i < d1.size → nodeOk d1 c1 rep i = true)
    (h2 : ∀ j, j < d2.size → nodeOk d2 c2 rep j = true)
    {r1 r2 : Array (Mat α)} (hr1 : EvalG.run sem₁ d1 = some r1) (hr2 : EvalG.run sem₂ d2 = some r2) :
    ∀ (k i j : Nat), i < d1.size → j < d2.size → c1[i]? = some k → c2[j]? = some k → r1[i]? = r2[j]? := by
  obtain ⟨_, hn1⟩ := EvalG.run_nodes hr1
  obtain ⟨_, hn2⟩ := EvalG.run_nodes hr2
  intro k
  induction k using Nat.strong_induction_on with
  | _ k ih =>
    intro i j hi hj hci hcj
    obtain ⟨n1, k1, sh1, cc1, hd1, hk1, hrep1, hsh1, hcl1, hlt1, hq1⟩ := nodeOk_spec (h1 i hi)
    obtain ⟨n2, k2, sh2, cc2, hd2, hk2, hrep2, hsh2, hcl2, hlt2, hq2⟩ := nodeOk_spec (h2 j hj)
    rw [hci] at hk1
    rw [hcj] at hk2
    simp only [Option.some.injEq] at hk1 hk2
    subst hk1; subst hk2
    rw [hrep1] at hrep2
    simp only [Option.some.injEq, Prod.mk.injEq] at hrep2
    obtain ⟨rfl, rfl⟩ := hrep2
    obtain ⟨ms1, x1, hm1, hx1, hv1⟩ := hn1 i n1 hd1
    obtain ⟨ms2, x2, hm2, hx2, hv2⟩ := hn2 j n2 hd2
    -- the argument values coincide
    have hms : ms1 = ms2 := by
      apply map_some_injective
      rw [← mapM_some_iff.1 hm1, ← mapM_some_iff.1 hm2, map_eq_map_iff_forall₂]
      have f1 := forall₂_of_all_right (forall₂_of_all_left (map_eq_map_iff_forall₂.1 hcl1) hlt1) hq1
      have f2 := forall₂_of_all_left (map_eq_map_iff_forall₂.1 hcl2) hlt2
      refine (forall₂_join f1 f2).imp ?_
      rintro a b ⟨q, ⟨hqk, hai, haq⟩, hbj, hbq⟩
      exact ih q hqk a b (by omega) (by omega) haq hbq
    subst hms
    rw [hv1, hv2, hsem _ _ _ _ hx1 (hsh1 ▸ hsh2 ▸ hx2)]

theorem check_sound {sem₁ sem₂ : Node → List (Mat α) → Option (Mat α)}
    (hsem : ∀ sh ms x y, sem₁ sh ms = some x → sem₂ sh ms = some y → x = y)
    {d1 d2 : Dag} {t : TreeCert} (h : check d1 d2 t = true) {v1 v2 : Mat α}
    (hv1 : EvalG.root sem₁ d1 = some v1) (hv2 : EvalG.root sem₂ d2 = some v2) : v1 = v2 := by
  unfold check at h
  simp only [Bool.and_eq_true, List.all_eq_true, List.mem_range, decide_eq_true_eq] at h
  obtain ⟨⟨⟨⟨h1, h2⟩, hs1⟩, hs2⟩, hroot⟩ := h
  unfold EvalG.root at hv1 hv2
  simp only [Option.bind_eq_some_iff] at hv1 hv2
  obtain ⟨r1, hr1, hb1⟩ := hv1
  obtain ⟨r2, hr2, hb2⟩ := hv2
  obtain ⟨hz1, _⟩ := EvalG.run_nodes hr1
  obtain ⟨hz2, _⟩ := EvalG.run_nodes hr2
  rw [Array.back?_eq_getElem?, hz1] at hb1
  rw [Array.back?_eq_getElem?, hz2] at hb2
  split at hroot
  · rename_i a b ha hb
    have hab : a = b := by simpa using hroot
    subst hab
    have := classes_sound hsem h1 h2 hr1 hr2 a (d1.size - 1) (d2.size - 1) (by omega) (by omega) ha hb
    rw [hb1, hb2] at this
    exact Option.some.inj this
  · exact absurd hroot (by simp)

end TreeCert

/-- **`sameTree` is sound for every node semantics** (hence for every operator, known or not):
    two DAGs accepted by `Dag.sameTree` have the same value whenever both values are defined —
    even under two different semantics, as long as these agree where both are defined. -/
theorem Dag.sameTree_sound_gen {α : Type} {sem₁ sem₂ : Node → List (Mat α) → Option (Mat α)}
    (hsem : ∀ sh ms x y, sem₁ sh ms = some x → sem₂ sh ms = some y → x = y)
    {d1 d2 : Dag} (h : Dag.sameTree d1 d2 = true) {v1 v2 : Mat α}
    (hv1 : EvalG.root sem₁ d1 = some v1) (hv2 : EvalG.root sem₂ d2 = some v2) : v1 = v2 :=
  TreeCert.check_sound hsem h hv1 hv2

end Ibex

/-! ## 3. `Eval.run` is an instance of the generic evaluator -/
namespace Ibex
namespace EvalG
variable {α : Type} (A : Alg α) (env : List α) (call : Nat → List (Mat α) → Option (Mat α))

theorem dimOk_map {sh : Node} {vals : Array (Mat α)} (o : Option (Mat α)) :
    ((o.bind (dimOk sh)).map vals.push) =
      o.bind fun v => if v.r == sh.r && v.c == sh.c then some (vals.push v) else none := by
  cases o with
  | none => rfl
  | some v =>
    simp only [Option.bind_some, dimOk]
    split <;> rfl

theorem step_eq (vals : Array (Mat α)) (n : Node) :
    Eval.step A env call vals n = step (semOf A env call) vals n := by
  obtain ⟨k, r, c⟩ := n
  unfold Eval.step step semOf
  cases k with
  | var off =>
    simp only [NodeK.args, List.mapM_nil, pure, Option.bind_some, Node.shape, NodeK.withArgs,
      dimOk_map, bind, Eval.nodeVal]
    rfl
  | const vs =>
    simp only [NodeK.args, List.mapM_nil, pure, Option.bind_some, Node.shape, NodeK.withArgs,
      dimOk_map, bind, Eval.nodeVal]
    rfl
  | un op a =>
    simp only [NodeK.args, List.mapM_cons, List.mapM_nil, pure, bind, Node.shape, NodeK.withArgs,
      List.map_cons, List.map_nil, dimOk_map, Eval.nodeVal]
    cases vals[a]? <;> simp
  | bin op a b =>
    simp only [NodeK.args, List.mapM_cons, List.mapM_nil, pure, bind, Node.shape, NodeK.withArgs,
      List.map_cons, List.map_nil, dimOk_map, Eval.nodeVal]
    cases vals[a]? <;> cases vals[b]? <;> simp
  | pow a e =>
    simp only [NodeK.args, List.mapM_cons, List.mapM_nil, pure, bind, Node.shape, NodeK.withArgs,
      List.map_cons, List.map_nil, dimOk_map, Eval.nodeVal]
    cases vals[a]? <;> simp
  | idx a r1 r2 c1 c2 =>
    simp only [NodeK.args, List.mapM_cons, List.mapM_nil, pure, bind, Node.shape, NodeK.withArgs,
      List.map_cons, List.map_nil, dimOk_map, Eval.nodeVal]
    cases vals[a]? <;> simp
  | vec row as =>
    simp only [NodeK.args, pure, bind, Node.shape, NodeK.withArgs, dimOk_map, Eval.nodeVal]
    cases (as.mapM fun i => vals[i]?) <;> simp
  | chi a b c' =>
    simp only [NodeK.args, List.mapM_cons, List.mapM_nil, pure, bind, Node.shape, NodeK.withArgs,
      List.map_cons, List.map_nil, dimOk_map, Eval.nodeVal]
    cases vals[a]? <;> cases vals[b]? <;> cases vals[c']? <;> simp
  | apply f as =>
    simp only [NodeK.args, pure, bind, Node.shape, NodeK.withArgs, dimOk_map, Eval.nodeVal]
    cases (as.mapM fun i => vals[i]?) <;> simp

theorem run_eq_runG (dag : Dag) : Eval.run A env call dag = run (semOf A env call) dag := by
  rw [Eval.run_eq]
  unfold run
  congr 1
  funext vals n
  exact step_eq A env call vals n

theorem root_eq_rootG (dag : Dag) : Eval.root A env call dag = root (semOf A env call) dag := by
  unfold Eval.root root
  rw [run_eq_runG]

end EvalG

/-- **Soundness of the structural comparison for the evaluators of the project**: two DAGs accepted
    by `Dag.sameTree` have the same value in EVERY number algebra `A` (reals, rationals, intervals,
    dual numbers, rational functions …), every environment and every table of applied functions,
    whenever both are defined. -/
theorem Dag.sameTree_sound {α : Type} {d1 d2 : Dag} (h : Dag.sameTree d1 d2 = true) (A : Alg α)
    (env : List α) (call : Nat → List (Mat α) → Option (Mat α)) {v1 v2 : Mat α}
    (hv1 : Eval.root A env call d1 = some v1) (hv2 : Eval.root A env call d2 = some v2) : v1 = v2 := by
  rw [EvalG.root_eq_rootG] at hv1 hv2
  exact Dag.sameTree_sound_gen (fun _ _ x y hx hy => by rw [hx] at hy; exact Option.some.inj hy) h hv1 hv2

end Ibex

/-! ## 4. flattened normal-form comparison -/
namespace Ibex
namespace Minibex
open List

/-- `p` evaluates to `v` at the real point `ρ` -/
def EvalsTo (ρ : List ℝ) (p : Prog) (v : Mat ℝ) : Prop :=
  Eval.root Alg.real ρ (Eval.buildCalls Alg.real p.1) p.2 = some v

theorem nfFlat_real {B n : ℕ} {ps : List Prog} {fs : List RF} {ρ : List ℝ} {vs : List (Mat ℝ)}
    (hρ : ρ.length = n) (hF : nfFlat B ps n = some fs) (hv : Forall₂ (EvalsTo ρ) ps vs) :
    Forall₂ (RF.Rep (valOf ρ)) (vs.flatMap (·.d)) fs := by
  unfold nfFlat at hF
  simp only [Option.map_eq_some_iff] at hF
  obtain ⟨Fs, hFs, rfl⟩ := hF
  rw [mapM_some_iff, map_eq_map_iff_forall₂] at hFs
  have h := forall₂_join hv.flip hFs.flip
  refine forall₂_flatMap (fun v F hvF => ?_) h
  obtain ⟨p, hp, hF⟩ := hvF
  exact (nf_real hρ hF hp).2.2

/-- **Soundness of the flattened comparison**: when `checkFlat` accepts two lists of expressions,
    then at every real point where all of them are defined the concatenations of their entries
    (row-major) are the same list of reals. -/
theorem checkFlatB_sound {B n : ℕ} {as bs : List Prog} (h : checkFlatB B as bs n = some true)
    {ρ : List ℝ} (hρ : ρ.length = n) {va vb : List (Mat ℝ)}
    (ha : Forall₂ (EvalsTo ρ) as va) (hb : Forall₂ (EvalsTo ρ) bs vb) :
    va.flatMap (·.d) = vb.flatMap (·.d) := by
  unfold checkFlatB at h
  simp only [bind, Option.bind_eq_some_iff] at h
  obtain ⟨x, hx, y, hy, h⟩ := h
  exact eqvList_sound h (nfFlat_real hρ hx ha) (nfFlat_real hρ hy hb)

/-! ## 5. hexadecimal constants -/

theorem hexVal_hexChar : ∀ d : Fin 16, hexVal (hexChar d.1) = some d.1 := by decide

theorem hexNat_map_hexChar : ∀ (ds : List ℕ) (acc : ℕ), (∀ d ∈ ds, d < 16) →
    (ds.map hexChar).foldlM (fun acc c => (hexVal c).map fun d => acc * 16 + d) acc =
      some (ds.foldl (fun a d => a * 16 + d) acc)
  | [], acc, _ => rfl
  | d :: ds, acc, h => by
    have hd : d < 16 := h d (by simp)
    have := hexVal_hexChar ⟨d, hd⟩
    simp only at this
    simp only [List.map_cons, List.foldlM_cons, this, Option.map_some, bind, Option.bind_some,
      List.foldl_cons]
    exact hexNat_map_hexChar ds _ fun d' hd' => h d' (by simp [hd'])

theorem hexRev_spec : ∀ (f n : ℕ), n < 16 ^ f →
    (∀ d ∈ hexRev f n, d < 16) ∧ (hexRev f n).foldr (fun d a => a * 16 + d) 0 = n
  | 0, n, h => by
    have : n = 0 := by simpa using h
    subst this
    simp [hexRev]
  | f + 1, n, h => by
    unfold hexRev
    split
    · rename_i hn
      simp [hn]
    · rename_i hn
      have hq : n / 16 < 16 ^ f := by
        apply Nat.div_lt_of_lt_mul
        rw [pow_succ] at h
        omega
      obtain ⟨h1, h2⟩ := hexRev_spec f (n / 16) hq
      refine ⟨?_, ?_⟩
      · intro d hd
        simp only [List.mem_cons] at hd
        rcases hd with rfl | hd
        · exact Nat.mod_lt _ (by norm_num)
        · exact h1 d hd
      · simp only [List.foldr_cons, h2]
        omega

/-- reading back the digits printed by `std::hex` gives the number (any 64-bit pattern) -/
theorem hexNat_printHex {u : ℕ} (hu : u < 2 ^ 64) : hexNat (printHex u) = some u := by
  have h16 : u < 16 ^ 16 := by norm_num at hu ⊢; exact hu
  obtain ⟨h1, h2⟩ := hexRev_spec 16 u h16
  unfold hexNat printHex
  rw [hexNat_map_hexChar _ _ (by simpa using h1), List.foldl_reverse]
  simp only [h2]

/-- **`#hex` round trip at the level of 64-bit patterns**: the lexer reads back the pattern printed
    by the serialiser — for every pattern with `strtoull`, for the patterns below 2^63 with
    `strtoll` (which saturates at 2^63-1 above). -/
theorem readHex_printHex (r : HexReader) {u : ℕ} (hu : u < 2 ^ 64) (h : r = .strtoull ∨ u < 2 ^ 63) :
    readHex r (printHex u) = some u := by
  unfold readHex
  rw [hexNat_printHex hu]
  cases r with
  | strtoll =>
    rcases h with h | h
    · exact absurd h (by simp)
    · simp only [Option.map_some, Option.some.injEq]
      rw [if_neg (by omega)]
  | strtoull =>
    simp only [Option.map_some, Option.some.injEq]
    rw [if_neg (by omega)]

theorem strtoll_saturates : readHex .strtoll (printHex (2 ^ 63)) = some (2 ^ 63 - 1) := by decide +kernel

end Minibex
end Ibex

namespace Ibex
namespace Minibex

theorem printHex_ne_nil (u : ℕ) : printHex u ≠ [] := by
  unfold printHex hexRev
  split <;> simp

/-- **`#hex` round trip at the level of doubles** (`signNeg = false`, `r = strtoll` is the pinned
    tree): every non-NaN binary64 `b` printed by `print_dbl` (sign printed apart, `+oo`/`-oo` for the
    infinities) is read back by the lexer + unary minus as `b` itself — with ONE exception on the
    pinned tree: `-0.0` passes the test `x >= 0`, is printed `#8000000000000000` and is read by
    `strtoll` as the NaN pattern `7fffffffffffffff`. -/
theorem readDbl_printDbl (signNeg : Bool) (r : HexReader) {b : ℕ} (hb : notNaN b = true) :
    readDbl r (printDbl signNeg b) = some b ∨ (r = .strtoll ∧ signNeg = false ∧ b = negZeroBits) := by
  unfold notNaN at hb
  simp only [Bool.and_eq_true, decide_eq_true_eq] at hb
  obtain ⟨hlt, hnan⟩ := hb
  unfold printDbl
  split
  · rename_i h
    have : b = negInfBits := by simpa using h
    subst this
    left; rfl
  · rename_i hni
    split
    · rename_i h
      have : b = posInfBits := by simpa using h
      subst this
      left; rfl
    · rename_i hpi
      split
      · rename_i hnn
        -- '#' :: printHex b
        have hread : readDbl r ('#' :: printHex b) = readHex r (printHex b) := by
          unfold readDbl
          rfl
        rw [hread]
        unfold nonNegative at hnn
        by_cases hs : b < 2 ^ 63
        · left; exact readHex_printHex r hlt (.inr hs)
        · cases r with
          | strtoull => left; exact readHex_printHex _ hlt (.inl rfl)
          | strtoll =>
            right
            cases signNeg with
            | true =>
              simp at hnn
              omega
            | false =>
              refine ⟨rfl, rfl, ?_⟩
              simp at hnn
              rcases hnn with h | h
              · omega
              · exact h
      · rename_i hnn
        have hs : 2 ^ 63 ≤ b := by
          unfold nonNegative at hnn
          by_contra hlt'
          have : b < 2 ^ 63 := by omega
          cases signNeg <;> simp at hnn <;> omega
        have hread : readDbl r ('-' :: '#' :: printHex (b - 2 ^ 63)) =
            (readHex r (printHex (b - 2 ^ 63))).map negBits := by
          unfold readDbl
          rfl
        left
        rw [hread, readHex_printHex r (by omega) (.inr (by omega))]
        simp only [Option.map_some, Option.some.injEq, negBits]
        rw [if_pos (by omega)]
        omega

/-- the exception is real on the pinned tree -/
theorem negZero_misread :
    readDbl .strtoll (printDbl false negZeroBits) = some 0x7fffffffffffffff := by decide +kernel

/-- with `std::signbit` in the printer or `strtoull` in the lexer there is no exception -/
theorem readDbl_printDbl_repaired {signNeg : Bool} {r : HexReader} (h : signNeg = true ∨ r = .strtoull)
    {b : ℕ} (hb : notNaN b = true) : readDbl r (printDbl signNeg b) = some b := by
  rcases readDbl_printDbl signNeg r hb with h' | ⟨h1, h2, _⟩
  · exact h'
  · rcases h with h | h
    · rw [h] at h2; exact absurd h2 (by simp)
    · rw [h] at h1; exact absurd h1 (by simp)

end Minibex
end Ibex
