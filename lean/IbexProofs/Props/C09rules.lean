/-
  C09 — the run-time rules applied to the real Newton procedures (driver ops `newtonctc`, `newtoninfl`,
  `hansenfeas`; harness `h_newton.cpp`) and what each verdict means, for all real points.

  * contracting Newton (`newton`, `CtcNewton`, square or on a subset of variables): a contraction `i ↦ o` is
    REFUTED by an exactly known zero of `i` that is not in `o` (`lostZero_sound`); it is CERTIFIED to keep ALL
    the zeros of `i` when the uniqueness certificate holds on `i` and the (exactly known) zero is still in `o`
    (`keptAllBy_sound`), or when `i` provably contains no zero at all (`noZero_sound`: interval evaluation on a
    verified subdivision);
  * inflating Newton success: the claim is `C06.SolClaim` (certified / refuted by the rules of C06 with the
    existence and uniqueness certificates `C06.claim_of_certifiedBy`, `C06.refuted_sound`);
  * feasibility claims (`PdcHansenFeasibility` = YES with a solution box `s`): REFUTED by `noZero` on `s`
    (`noZero_sound`), CERTIFIED by a known zero in `s` or by the Krawczyk certificate on a sub-box
    (`hasZeroBy_sound`).
-/
import IbexProofs.Props.C06

namespace Ibex.C09
open Ibex Ibex.Verdict Ibex.C06

/-- interval evaluation that excludes 0 proves that no point of the box is a zero -/
theorem exclZero_sound {eqs : List (List Dag × Dag)} {b : Box} (h : exclZero eqs b = true)
    {p : List ℝ} (hp : Box.Mem p b) : ¬ Zero eqs p := by
  intro hz
  simp only [exclZero, List.any_eq_true] at h
  obtain ⟨q, hq, hq'⟩ := h
  obtain ⟨m, hm, hd⟩ := hz q hq
  split at hq'
  · rename_i v hv
    obtain ⟨-, -, hmem⟩ := C02.root_encl hp hm hv
    rw [hd] at hmem
    generalize v.d = vd at hmem hq'
    cases hmem with
    | cons h1 h2 =>
      cases h2
      simp only [List.any_cons, List.any_nil, Bool.or_false, Bool.not_eq_true'] at hq'
      have : Itv.containsExt _ (.fin 0) = true := containsExt_fin.2 (by simpa using h1)
      rw [this] at hq'
      cases hq'
  · cases hq'

/-- **no zero in the box**: interval evaluation on a verified subdivision, any depth -/
theorem noZero_sound {eqs : List (List Dag × Dag)} : ∀ (d : ℕ) {b : Box}, noZero eqs d b = true →
    ∀ p, Box.Mem p b → ¬ Zero eqs p
  | 0, b, h, p, hp => exclZero_sound (by simpa [noZero] using h) hp
  | d + 1, b, h, p, hp => by
    simp only [noZero, Bool.or_eq_true] at h
    rcases h with h | h
    · exact exclZero_sound h hp
    · split at h
      · rename_i l r _
        simp only [Bool.and_eq_true] at h
        rcases Cover.split2Ok_sound h.1.1 hp with hl | hr
        · exact noZero_sound d h.1.2 p hl
        · exact noZero_sound d h.2 p hr
      · cases h

/-- **a lost zero**: the rule `lostZero` exhibits a real zero of the input box that is not in the output box -/
theorem lostZero_sound {eqs : List (List Dag × Dag)} {i o : Box} {z : List ℚ}
    (h : lostZero eqs i o z = true) : ∃ p, Zero eqs p ∧ Box.Mem p i ∧ ¬ Box.Mem p o := by
  simp only [lostZero, Bool.and_eq_true, Bool.not_eq_true'] at h
  refine ⟨castL z, ratZero_sound h.1.1, ratIn_iff.1 h.1.2, fun hm => ?_⟩
  rw [ratIn_iff.2 hm] at h
  exact absurd h.2 (by simp)

/-- **all the zeros kept** (square system): with the uniqueness certificate on the input box and its zero known
    exactly and still in the output box, EVERY real zero of the input box is in the output box -/
theorem keptAllBy_sound {eqs : List (List Dag × Dag)} {i o : Box} {z : List ℚ}
    (h : keptAllBy eqs i o z = true) : ∀ p, Box.Mem p i → Zero eqs p → Box.Mem p o := by
  simp only [keptAllBy, Bool.and_eq_true] at h
  obtain ⟨⟨⟨hu, hz⟩, hzi⟩, hzo⟩ := h
  intro p hp hp0
  have := unique_zero_square hu hp (ratIn_iff.1 hzi) hp0 (ratZero_sound hz)
  rw [this]
  exact ratIn_iff.1 hzo

/-- a box that provably contains no zero: any contraction of it keeps all its zeros -/
theorem keptAll_of_noZero {eqs : List (List Dag × Dag)} {d : ℕ} {i o : Box} (h : noZero eqs d i = true) :
    ∀ p, Box.Mem p i → Zero eqs p → Box.Mem p o :=
  fun p hp hz => absurd hz (noZero_sound d h p hp)

/-- **a feasibility claim certified**: the box `s` contains a real zero of the system -/
theorem hasZeroBy_sound {eqs : List (List Dag × Dag)} {s x : Box} {vars : List ℕ} {w : List ℚ}
    (h : hasZeroBy eqs s x vars w = true) : ∃ p, Box.Mem p s ∧ Zero eqs p := by
  simp only [hasZeroBy, Bool.and_eq_true] at h
  obtain ⟨⟨⟨hpc, hsub⟩, hex⟩, hw⟩ := h
  have hm := ratIn_iff.1 hw
  obtain ⟨z, hz, -, hz0⟩ := exists_zero_of_cert ((pointConsts_eq eqs).symm.trans hpc) hex (castL w)
    hm.length_eq (fun i t I _ ht hI => (forall₂_iff_getElem?.1 hm).2 i t I ht hI)
  exact ⟨z, Box.subset_sound hsub hz, hz0⟩

/-- … or by an exactly known zero -/
theorem hasZero_of_known {eqs : List (List Dag × Dag)} {s : Box} {z : List ℚ}
    (hz : ratZero eqs z = true) (hs : ratIn z s = true) : ∃ p, Box.Mem p s ∧ Zero eqs p :=
  ⟨castL z, ratIn_iff.1 hs, ratZero_sound hz⟩

/-- **a feasibility claim refuted** -/
theorem feasibility_refuted {eqs : List (List Dag × Dag)} {d : ℕ} {s : Box} (h : noZero eqs d s = true) :
    ¬ ∃ p, Box.Mem p s ∧ Zero eqs p := fun ⟨p, hp, hz⟩ => noZero_sound d h p hp hz


/-- the slice of a box at the parameters of `w` contains every point of the box with these parameters -/
theorem mem_slice {e : Box} {vars : List ℕ} {w : List ℚ} {z : List ℝ} (hz : Box.Mem z e)
    (hp : SameParams vars z (castL w)) (hl : w.length = e.length) : Box.Mem z (slice e vars w) := by
  rw [Box.Mem, forall₂_iff_getElem?]
  obtain ⟨hlen, hall⟩ := forall₂_iff_getElem?.1 hz
  refine ⟨by simp [slice, hlen], fun i a b ha hb => ?_⟩
  simp only [slice, List.getElem?_map, List.getElem?_zipIdx, Option.map_eq_some_iff] at hb
  obtain ⟨q, ⟨I, hI, rfl⟩, rfl⟩ := hb
  simp only [Nat.zero_add]
  by_cases hv : vars.contains i = true
  · rw [if_pos hv]; exact hall i a I ha hI
  · rw [if_neg hv]
    have hi : i ∉ vars := fun h => hv (List.contains_iff_mem.2 h)
    have hlt : i < w.length := by
      have := (List.getElem?_eq_some_iff.1 hI).1
      omega
    have hw : w[i]? = some w[i] := List.getElem?_eq_getElem hlt
    rw [hw]
    have := hp i hi
    rw [ha, getElem?_castL, hw] at this
    simp only [Option.map_some, Option.some.injEq] at this
    rw [this]
    exact mem_point_cast _

/-- **a claim refuted on one parameter value**: the existence box contains no zero with the parameters of `w` -/
theorem refutedSlice_sound {eqs : List (List Dag × Dag)} {e u : Box} {vars : List ℕ} {w : List ℚ} {d : ℕ}
    (h : refutedSlice eqs e vars w d = true) : ¬ SolClaim eqs e u vars := by
  simp only [refutedSlice, Bool.and_eq_true] at h
  intro hc
  have hpar := ratParamsIn_sound h.1
  obtain ⟨z, hze, hzp, hz0, -, -⟩ := hc (castL w) hpar
  have hl : w.length = e.length := by simpa [castL] using hpar.1
  exact noZero_sound d h.2 z (mem_slice hze hzp hl) hz0

/-! ### non-vacuity -/

section Examples
open Ibex.C06 (sq4)

/-- `x² + 1` (nodes: x, x², 1, x²+1) has no zero on `[−2, 2]`: proved at depth 0 -/
def sqp1 : Dag :=
  #[⟨.var 0, 1, 1⟩, ⟨.un "sqr" 0, 1, 1⟩, ⟨.const [Itv.point 1], 1, 1⟩, ⟨.bin "add" 1 2, 1, 1⟩]
example : noZero [([], sqp1)] 0 [I (-2) 2] = true := by decide +kernel
/-- `x² − 4` has no zero on `[−1, 1.5]` (depth 0) nor on `[2.5, 9]`; it cannot be excluded on `[1, 3]` -/
example : noZero [([], sq4)] 0 [I (-1) (3/2)] = true := by decide +kernel
example : noZero [([], sq4)] 3 [I 1 3] = false := by decide +kernel
/-- `x·x − 4` written with a product needs a subdivision on `[−1, 3/2]`... depth 2 suffices -/
def mul4 : Dag :=
  #[⟨.var 0, 1, 1⟩, ⟨.bin "mul" 0 0, 1, 1⟩, ⟨.const [Itv.point 4], 1, 1⟩, ⟨.bin "sub" 1 2, 1, 1⟩]
example : noZero [([], mul4)] 0 [I (-3) (3/2)] = false := by decide +kernel
example : noZero [([], mul4)] 2 [I (-3/2) (3/2)] = true := by decide +kernel
/-- a contraction `[1,3] ↦ [1, 3/2]` of `x² − 4 = 0` loses the zero 2; `[1,3] ↦ [15/8, 17/8]` keeps all zeros -/
example : lostZero [([], sq4)] [I 1 3] [I 1 (3/2)] [2] = true := by decide +kernel
example : keptAllBy [([], sq4)] [I 1 3] [I (15/8) (17/8)] [2] = true := by decide +kernel
/-- the box `[1, 3]` contains a zero of `x² − 4` (Krawczyk on the sub-box `[15/8, 17/8]`) -/
example : hasZeroBy [([], sq4)] [I 1 3] [I (15/8) (17/8)] [0] [2] = true := by decide +kernel

end Examples

/-! ### the rules evaluated with exact rational interval arithmetic -/

/-- **all the zeros kept** (square system), exact uniqueness certificate on the input box: EVERY real zero of
    the input box is in the output box -/
theorem keptAllByX_sound {eqs : List (List Dag × Dag)} {i o : Box} {z : List ℚ}
    (h : keptAllByX eqs i o z = true) : ∀ p, Box.Mem p i → Zero eqs p → Box.Mem p o := by
  simp only [keptAllByX, Bool.and_eq_true] at h
  obtain ⟨⟨⟨hu, hz⟩, hzi⟩, hzo⟩ := h
  intro p hp hp0
  have := unique_zero_squareX hu hp (ratIn_iff.1 hzi) hp0 (ratZero_sound hz)
  rw [this]
  exact ratIn_iff.1 hzo

/-- **a feasibility claim certified** with the exact Krawczyk certificate: the box `s` contains a real zero -/
theorem hasZeroByX_sound {eqs : List (List Dag × Dag)} {s x : Box} {vars : List ℕ} {w : List ℚ}
    (h : hasZeroByX eqs s x vars w = true) : ∃ p, Box.Mem p s ∧ Zero eqs p := by
  simp only [hasZeroByX, Bool.and_eq_true] at h
  obtain ⟨⟨⟨hpc, hsub⟩, hex⟩, hw⟩ := h
  have hm := ratIn_iff.1 hw
  obtain ⟨z, hz, -, hz0⟩ := exists_zero_of_certX ((pointConsts_eq eqs).symm.trans hpc) hex (castL w)
    hm.length_eq (fun i t I _ ht hI => (forall₂_iff_getElem?.1 hm).2 i t I ht hI)
  exact ⟨z, Box.subset_sound hsub hz, hz0⟩

section ExamplesX
open Ibex.C06 (sq4)

/-- the box `[1, 2]` contains a zero of `x² − 2`: exact Krawczyk on the sub-box of 2 ulps around
    `1.4142135623730951` (`w` = its midpoint); the rounded rule does not decide -/
example : hasZeroByX [([], sqDag)] [I 1 2] [B52 6369051672525772 6369051672525774] [0]
    [6369051672525773 / (2 ^ 52 : ℕ)] = true := by decide +kernel
example : hasZeroBy [([], sqDag)] [I 1 2] [B52 6369051672525772 6369051672525774] [0]
    [6369051672525773 / (2 ^ 52 : ℕ)] = false := by decide +kernel
example : ∃ p, Box.Mem p [I 1 2] ∧ Zero [([], sqDag)] p :=
  hasZeroByX_sound (x := [B52 6369051672525772 6369051672525774]) (vars := [0])
    (w := [6369051672525773 / (2 ^ 52 : ℕ)]) (by decide +kernel)
example : hasZeroByX [([], sq4)] [I 1 3] [I (15/8) (17/8)] [0] [2] = true := by decide +kernel
/-- a contraction `[1,3] ↦ [15/8, 17/8]` of `x² − 4 = 0` keeps all zeros; `[−3,3]` has two zeros: not certified -/
example : keptAllByX [([], sq4)] [I 1 3] [I (15/8) (17/8)] [2] = true := by decide +kernel
example : keptAllByX [([], sq4)] [I (-3) 3] [I (15/8) (17/8)] [2] = false := by decide +kernel

end ExamplesX

end Ibex.C09
