/-
  C12 (symbolic form) — the expression produced by symbolic differentiation denotes the partial
  derivatives of the original expression.

  The driver op `diffnf` runs `Equiv.checkDiff funs₁ f funs₂ df n` (`IbexModel/RatFun.lean`):
  both DAGs are normalised to matrices of rational functions (`Alg.rf`, as for C11), the formal
  partial derivatives `RF.deriv j` (quotient rule on canonical polynomials) of every entry of `f`
  w.r.t. every variable `x₀ … x_{n-1}` are laid out row-major (rows = entries of `f`, columns =
  variables: a gradient is the list of partials, a Jacobian has one row per component), and that
  list is compared with the flattened entries of `df` by cross-multiplication.

  `checkDiff_sound`: if the checker answers `some true`, then at every real point `ρ` such that
    * the real evaluation (`Alg.real`) of `f` is defined at `ρ + t·eⱼ` for all `t` in a
      neighbourhood of `0`, its entry `i` being `φ t`  (for the rational fragment: wherever no
      denominator vanishes), and
    * the real evaluation of `df` is defined at `ρ`,
  entry `i·n + j` of `df`'s value exists and is the derivative of `φ` at `0`, i.e. the partial
  derivative `∂fᵢ/∂xⱼ (ρ)` (`HasDerivAt`).

  Same fragment and same caveats as C11: `none` ⇒ nothing claimed (operator outside the fragment,
  or a size guard `RF.guard` / `RF.derivOK` / `RF.eqv` tripped); `some false` is a diagnosis.
-/
import IbexProofs.RatFun

namespace Ibex.C12
open Ibex Ibex.Eval List Filter Topology

theorem checkDiffB_sound {B : ℕ} {funs₁ funs₂ : List Dag} {dag₁ dag₂ : Dag} {n : ℕ}
    (h : Equiv.checkDiffB B funs₁ dag₁ funs₂ dag₂ n = some true)
    {ρ : List ℝ} (hρ : ρ.length = n) {w : Mat ℝ}
    (hdf : root Alg.real ρ (buildCalls Alg.real funs₂) dag₂ = some w)
    (i j : ℕ) (hj : j < n) (φ : ℝ → ℝ)
    (hf : ∀ᶠ t in 𝓝 (0 : ℝ), ∃ v, root Alg.real (ρ.set j (ρ.getD j 0 + t)) (buildCalls Alg.real funs₁) dag₁
      = some v ∧ v.d[i]? = some (φ t)) :
    ∃ d, w.d[i * n + j]? = some d ∧ HasDerivAt φ d 0 := by
  unfold Equiv.checkDiffB at h
  simp only [Bind.bind, Option.bind_eq_some_iff] at h
  obtain ⟨F, hF, G, hG, h⟩ := h
  split_ifs at h
  have hjρ : j < ρ.length := hρ ▸ hj
  set ρ' := valOf ρ with hρ'
  have hxj : ρ.getD j 0 = ρ' j := rfl
  -- the valuation along the line
  have hline : ∀ t, valOf (ρ.set j (ρ.getD j 0 + t)) = Function.update ρ' j (ρ' j + t) :=
    fun t => valOf_set ρ hjρ _
  -- entry `i` of the normal form of `f`
  have hfi : ∃ fi, F.d[i]? = some fi := by
    obtain ⟨v, hv, hvi⟩ := hf.self_of_nhds
    obtain ⟨_, _, hd⟩ := nf_real (by simpa using hρ) hF hv
    rcases forall₂_getElem? hd i with ⟨hn, _⟩ | ⟨_, fi, _, hfi, _⟩
    · rw [hvi] at hn
      exact absurd hn (by simp)
    · exact ⟨fi, hfi⟩
  obtain ⟨fi, hfi⟩ := hfi
  -- `φ` is, near 0, the value of `fi` along the line, whose denominator does not vanish
  have hφ : ∀ᶠ t in 𝓝 (0 : ℝ), RF.Rep (Function.update ρ' j (ρ' j + t)) (φ t) fi := by
    filter_upwards [hf] with t ht
    obtain ⟨v, hv, hvi⟩ := ht
    obtain ⟨_, _, hd⟩ := nf_real (by simpa using hρ) hF hv
    rcases forall₂_getElem? hd i with ⟨hn, _⟩ | ⟨x, fi', hx, hfi', hxf⟩
    · rw [hvi] at hn
      exact absurd hn (by simp)
    · rw [hfi] at hfi'
      rw [hvi] at hx
      simp only [Option.some.injEq] at hfi' hx
      subst hfi'; subst hx
      rw [← hline]
      exact hxf
  have hupd0 : Function.update ρ' j (ρ' j + 0) = ρ' := by simp
  have hden : Poly.ev fi.den ρ' ≠ 0 := by
    have := hφ.self_of_nhds
    rw [hupd0] at this
    exact this.1
  -- the corresponding entry of `df`
  obtain ⟨g, hg, hgeq⟩ := eqvList_getElem? (i * n + j) h (jac_getElem? n F.d i j hfi hj)
  obtain ⟨_, _, hdw⟩ := nf_real hρ hG hdf
  rcases forall₂_getElem? hdw (i * n + j) with ⟨_, hn⟩ | ⟨d, g', hd, hg', hdg⟩
  · rw [hg] at hn
    exact absurd hn (by simp)
  rw [hg] at hg'
  simp only [Option.some.injEq] at hg'
  subst hg'
  refine ⟨d, hd, ?_⟩
  -- value of the formal derivative at ρ
  have hD : RF.Rep ρ' (Poly.ev (RF.deriv j fi).num ρ' / Poly.ev (RF.deriv j fi).den ρ') (RF.deriv j fi) :=
    ⟨RF.deriv_den_ne fi j hden, rfl⟩
  rw [← RF.eqv_sound hgeq hD hdg]
  -- quotient rule along the line
  have hq := RF.hasDerivAt fi j ρ' (ρ' j + 0) (by rw [hupd0]; exact hden)
  rw [hupd0] at hq
  have hq' := hq.comp_const_add (ρ' j) 0
  refine hq'.congr_of_eventuallyEq ?_
  filter_upwards [hφ] with t ht
  exact ht.2

/-- **C12 (soundness of the symbolic derivative check).**  In an accepted pair `(f, df)`, entry
    `i·n + j` of `df` is the partial derivative of entry `i` of `f` w.r.t. variable `j`, at every
    real point where `df` is defined and around which `f` is defined along coordinate `j`. -/
theorem checkDiff_sound {funs₁ funs₂ : List Dag} {dag₁ dag₂ : Dag} {n : ℕ}
    (h : Equiv.checkDiff funs₁ dag₁ funs₂ dag₂ n = some true)
    {ρ : List ℝ} (hρ : ρ.length = n) {w : Mat ℝ}
    (hdf : root Alg.real ρ (buildCalls Alg.real funs₂) dag₂ = some w)
    (i j : ℕ) (hj : j < n) (φ : ℝ → ℝ)
    (hf : ∀ᶠ t in 𝓝 (0 : ℝ), ∃ v, root Alg.real (ρ.set j (ρ.getD j 0 + t)) (buildCalls Alg.real funs₁) dag₁
      = some v ∧ v.d[i]? = some (φ t)) :
    ∃ d, w.d[i * n + j]? = some d ∧ HasDerivAt φ d 0 :=
  checkDiffB_sound h hρ hdf i j hj φ hf

/-! ### non-vacuity -/

def v (i : Nat) : Node := ⟨.var i, 1, 1⟩
def k (q : Rat) : Node := ⟨.const [Itv.point q], 1, 1⟩

/-- `f(x,y) = x²·y` -/
def f : Dag := #[v 0, v 1, ⟨.un "sqr" 0, 1, 1⟩, ⟨.bin "mul" 2 1, 1, 1⟩]
/-- `(2xy, x²)` as a row vector -/
def df : Dag := #[v 0, v 1, k 2, ⟨.bin "mul" 2 0, 1, 1⟩, ⟨.bin "mul" 3 1, 1, 1⟩, ⟨.pow 0 2, 1, 1⟩,
  ⟨.vec true [4, 5], 1, 2⟩]
/-- `(x², x²)`: wrong -/
def dfBad : Dag := #[v 0, ⟨.pow 0 2, 1, 1⟩, ⟨.vec true [1, 1], 1, 2⟩]

example : Equiv.checkDiff [] f [] df 2 = some true := by decide +kernel
example : Equiv.checkDiff [] f [] dfBad 2 = some false := by decide +kernel

/-- `g(x) = 1/x`, `g' = -1/x²` (quotient rule; the normal forms are `0·x − 1·1 / x·x` and `-1/x²`) -/
def g : Dag := #[v 0, k 1, ⟨.bin "div" 1 0, 1, 1⟩]
def dg : Dag := #[v 0, ⟨.pow 0 (-2), 1, 1⟩, ⟨.un "minus" 1, 1, 1⟩]
example : Equiv.checkDiff [] g [] dg 1 = some true := by decide +kernel
example : Equiv.checkDiff [] g [] g 1 = some false := by decide +kernel

/-- the Jacobian of `(x·y, x + y)` is `[[y, x], [1, 1]]` (rows = components) -/
def F2 : Dag := #[v 0, v 1, ⟨.bin "mul" 0 1, 1, 1⟩, ⟨.bin "add" 0 1, 1, 1⟩, ⟨.vec false [2, 3], 2, 1⟩]
def J2 : Dag := #[v 0, v 1, k 1, ⟨.vec true [1, 0], 1, 2⟩, ⟨.vec true [2, 2], 1, 2⟩,
  ⟨.vec false [3, 4], 2, 2⟩]
example : Equiv.checkDiff [] F2 [] J2 2 = some true := by decide +kernel

/-- the hypotheses of `checkDiff_sound` are satisfiable and its conclusion is the expected one:
    `d/dx (x²·y) = 2xy` at every real `(a, b)` -/
theorem f_root (a b : ℝ) : root Alg.real [a, b] (buildCalls Alg.real []) f =
    some (Mat.scalar (a * a * b)) := by
  unfold root
  rw [run_eq]
  simp [f, v, step, nodeVal, binVal, unVal, mulVal, Mat.isScalar, Mat.mapM?, Alg.real, Mat.scalar]

theorem df_root (a b : ℝ) : root Alg.real [a, b] (buildCalls Alg.real []) df =
    some ⟨1, 2, [2 * a * b, a ^ 2]⟩ := by
  unfold root
  rw [run_eq]
  simp [df, v, k, step, nodeVal, binVal, mulVal, vecVal, Mat.row, Mat.isScalar, Mat.mapM?, Alg.real,
    realOfItv, Itv.point]

example (a b : ℝ) : HasDerivAt (fun t => (a + t) * (a + t) * b) (2 * a * b) 0 := by
  obtain ⟨d, hd, hD⟩ := checkDiff_sound (funs₁ := []) (funs₂ := []) (dag₁ := f) (dag₂ := df) (n := 2)
    (by decide +kernel) (ρ := [a, b]) rfl (df_root a b) 0 0 (by norm_num)
    (fun t => (a + t) * (a + t) * b)
    (Filter.Eventually.of_forall fun t => ⟨_, by simpa using f_root (a + t) b, by simp [Mat.scalar]⟩)
  simp at hd
  rw [hd]
  exact hD

end Ibex.C12
