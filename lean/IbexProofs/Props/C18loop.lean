/-
  C18 — a search resumed from a saved paving, on the MODEL of the search loop (`IbexModel/SearchLoop.lean`).

  `St.resume prev` is `Solver::start(const CovSolverData&)`: the validated boxes of the previous paving (inner, solution,
  boundary) are carried over, every other box (unknown, pending) is pushed into the buffer; `run P fuel` then continues the
  search with FRESH components (policy `P`).  `resumedItems prev s` is the paving of the resumed run.

  * `resumed_stage_accepted`: for EVERY previous paving, policy and number of iterations, the stage certificate
    `Cover.stageOk` that judges the real resumed runs (carry-over rule + accepted log with several roots) accepts the resumed
    run of the model — the certificate raises no alarm on a correct `start(data)`, whatever the components are.
  With `C18resume.resume_sound` (what an accepted stage means) and `C05loop.chain_covers` (direct invariant over any chain of
  runs) this closes the loop between the model of the algorithm and the certificates that judge the real code.
-/
import IbexProofs.SearchLoop
import IbexProofs.Props.C18resume
import IbexProofs.Props.C05loop

namespace Ibex.C18loop
open Ibex Ibex.Cover Ibex.SearchLoop

/-- **The stage certificate accepts every resumed run of the modelled loop.** -/
theorem resumed_stage_accepted (cert : Box → Box × Box × List Nat → Bool) (P : Policy) (prev : List Item) (fuel : Nat)
    (hne : ∀ b ∈ requeued prev, Box.isEmpty b = false)
    (hsub : ∀ x, Box.subset (P.ctc x) x = true)
    (hact : ∀ o, Box.isEmpty o = false → actOk o (P.act o) = true) :
    Cover.stageOk cert prev (resumedItems prev (run P fuel (St.resume prev))) (run P fuel (St.resume prev)).log = true :=
  resume_stage prev fuel hne hsub hact

/-! ### the hypotheses are satisfiable: a paving with one validated and two pending boxes, resumed by the toy policy -/

def prev0 : List Item :=
  [⟨"I", [C05loop.iv 0 1], [C05loop.iv 0 1], [], false⟩, ⟨"D", [C05loop.iv 1 3], [C05loop.iv 1 3], [], false⟩,
   ⟨"U", [C05loop.iv 5 8], [C05loop.iv 5 8], [], false⟩]

example : Cover.stageOk (fun _ _ => false) prev0 (resumedItems prev0 (run C05loop.toy 50 (St.resume prev0)))
    (run C05loop.toy 50 (St.resume prev0)).log = true := by decide +kernel
/-- the inner box is still there, the pending box has been split into two stored boxes, the unknown box has been emptied
    by the contractor (`x ≤ 3`) -/
example : (resumedItems prev0 (run C05loop.toy 50 (St.resume prev0))).map (·.box) =
    [[C05loop.iv 0 1], [C05loop.iv 1 2], [C05loop.iv 2 3]] := by decide +kernel
/-- a resumed run that forgets the pending box is rejected by the stage certificate -/
example : Cover.stageOk (fun _ _ => false) prev0 [⟨"I", [C05loop.iv 0 1], [C05loop.iv 0 1], [], false⟩]
    [.push [C05loop.iv 5 8], .top [C05loop.iv 5 8], .ctc [C05loop.iv 5 8] [.empty], .pop [.empty]] = false := by
  decide +kernel

end Ibex.C18loop
