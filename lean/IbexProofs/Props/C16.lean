/-
  C16 — box set-algebra and bisection obey set theory.

  The driver compares the implementation `=` with the model functions below on every generated
  input (inter, hull, predicates, diff, complementary, cart_prod) and runs the certificate
  checkers `Box.bisectOk`, `Box.boxBisectOk`, `Box.bscOk` on the implementation's bisections.
  The theorems say what the model functions / accepted certificates mean over real points —
  for every interval and every box of any dimension (no bound).
-/
import IbexProofs.SetAlg

namespace Ibex.C16
open Ibex

/-! ### intervals -/
theorem mem_inter {x : ℝ} {X Y : Itv} : x ∈ Itv.inter X Y ↔ x ∈ X ∧ x ∈ Y := Itv.mem_inter
theorem mem_hull_left {x : ℝ} {X Y : Itv} (h : x ∈ X) : x ∈ Itv.hull X Y := Itv.mem_hull_left h
theorem mem_hull_right {x : ℝ} {X Y : Itv} (h : x ∈ Y) : x ∈ Itv.hull X Y := Itv.mem_hull_right h
theorem hull_least {X Y Z : Itv} (hX : Itv.subset X Z = true) (hY : Itv.subset Y Z = true) :
    Itv.subset (Itv.hull X Y) Z = true := Itv.hull_least hX hY
theorem subset_iff {X Y : Itv} (hX : X.WF = true) :
    Itv.subset X Y = true ↔ ∀ x : ℝ, x ∈ X → x ∈ Y := Itv.subset_iff hX
theorem strictSubset_iff {X Y : Itv} (hX : X.WF = true) (hY : Y.WF = true) :
    Itv.strictSubset X Y = true ↔ (∀ x : ℝ, x ∈ X → x ∈ Y) ∧ ∃ y : ℝ, y ∈ Y ∧ ¬ y ∈ X :=
  Itv.strictSubset_iff hX hY
theorem interiorSubset_iff {X Y : Itv} (hX : X.WF = true) :
    Itv.interiorSubset X Y = true ↔ ∀ x : ℝ, x ∈ X → ∃ ε > 0, ∀ t : ℝ, |t - x| < ε → t ∈ Y :=
  Itv.interiorSubset_iff hX
theorem intersects_iff {X Y : Itv} (hX : X.WF = true) (hY : Y.WF = true) :
    Itv.intersects X Y = true ↔ ∃ x : ℝ, x ∈ X ∧ x ∈ Y := Itv.intersects_iff hX hY
theorem isDisjoint_iff {X Y : Itv} (hX : X.WF = true) (hY : Y.WF = true) :
    Itv.isDisjoint X Y = true ↔ ¬ ∃ x : ℝ, x ∈ X ∧ x ∈ Y := Itv.isDisjoint_iff hX hY
/-- `overlaps`: documented as "some interior point (of this or x) belongs to the intersection" -/
theorem overlaps_iff {X Y : Itv} (hX : X.WF = true) (hY : Y.WF = true) :
    Itv.overlaps X Y = true ↔ ∃ p : ℝ, p ∈ X ∧ p ∈ Y ∧ (Itv.InteriorMem p X ∨ Itv.InteriorMem p Y) :=
  Itv.overlaps_iff_interior hX hY
/-- complement: the pieces cover every point outside X and none of them overlaps X -/
theorem compl_cover {x : ℝ} {X : Itv} (hx : ¬ x ∈ X) : ∃ c ∈ Itv.complementary X, x ∈ c := Itv.compl_cover hx
theorem compl_no_overlap {c X : Itv} (hc : c ∈ Itv.complementary X) : Itv.overlaps c X = false :=
  Itv.compl_no_overlap hc
/-- difference: pieces are inside X, cover X \ Y, and share no segment with Y -/
theorem diff_subset {x : ℝ} {c X Y : Itv} (hc : c ∈ Itv.diff X Y) (hx : x ∈ c) : x ∈ X := Itv.diff_subset hc hx
theorem diff_cover {x : ℝ} {X Y : Itv} (hx : x ∈ X) (hy : ¬ x ∈ Y) : ∃ c ∈ Itv.diff X Y, x ∈ c :=
  Itv.diff_cover hx hy
theorem diff_no_common_segment {c X Y : Itv} (hc : c ∈ Itv.diff X Y) {u v : ℝ} (huv : u < v)
    (h : ∀ t : ℝ, u ≤ t → t ≤ v → t ∈ c ∧ t ∈ Y) : False := Itv.diff_no_common_segment hc huv h
/-- an accepted bisection: the halves cover X, meet in exactly one point, and are strictly smaller -/
theorem bisect_accepted {X L R : Itv} (h : Box.bisectOk X L R = true) :
    (∀ x : ℝ, x ∈ X ↔ (x ∈ L ∨ x ∈ R)) ∧ (∃ p : ℝ, ∀ x : ℝ, (x ∈ L ∧ x ∈ R) ↔ x = p) ∧
    Itv.strictSubset L X = true ∧ Itv.strictSubset R X = true := Itv.bisectOk_sound h

/-! ### boxes (points are lists of reals, any dimension) -/
theorem box_mem_inter {p : List ℝ} {x y : Box} (hl : x.length = y.length) :
    Box.Mem p (Box.inter x y) ↔ Box.Mem p x ∧ Box.Mem p y := Box.mem_inter hl
theorem box_subset_sound {p : List ℝ} {x y : Box} (h : Box.subset x y = true) (hp : Box.Mem p x) :
    Box.Mem p y := Box.subset_sound h hp
theorem box_intersects_of_common_point {p : List ℝ} {x y : Box} (hx : Box.Mem p x) (hy : Box.Mem p y) :
    Box.intersects x y = true := Box.intersects_of_common_point hx hy
theorem box_diff_subset {p : List ℝ} {x y b : Box} (hb : b ∈ Box.diff x y) (hm : Box.Mem p b) :
    Box.Mem p x := Box.diff_subset hb hm
theorem box_diff_cover {p : List ℝ} {x y : Box} (hl : x.length = y.length) (hx : Box.Mem p x)
    (hy : ¬ Box.Mem p y) : ∃ b ∈ Box.diff x y, Box.Mem p b := Box.diff_cover hl hx hy
/-- no piece of the difference shares a box of positive volume with y -/
theorem box_diff_no_common_box {x y b : Box} (hb : b ∈ Box.diff x y) {u v : List ℝ}
    (huv : List.Forall₂ (· < ·) u v)
    (H : ∀ t, List.Forall₂ (· ≤ ·) u t → List.Forall₂ (· ≤ ·) t v → Box.Mem t b ∧ Box.Mem t y) : False :=
  Box.diff_no_common_box hb huv H
theorem box_compl_cover {p : List ℝ} {y : Box} (hl : p.length = y.length) (hy : ¬ Box.Mem p y) :
    ∃ b ∈ Box.complementary y, Box.Mem p b := Box.compl_cover hl hy
theorem box_compl_no_common_box {y b : Box} (hb : b ∈ Box.complementary y) {u v : List ℝ}
    (huv : List.Forall₂ (· < ·) u v)
    (H : ∀ t, List.Forall₂ (· ≤ ·) u t → List.Forall₂ (· ≤ ·) t v → Box.Mem t b ∧ Box.Mem t y) : False :=
  Box.compl_no_common_box hb huv H
/-- two boxes sharing a sub-box of positive volume overlap -/
theorem box_overlaps_complete {x y : Box}
    (h : ∃ u v : List ℝ, List.Forall₂ (· < ·) u v ∧
      ∀ t, List.Forall₂ (· ≤ ·) u t → List.Forall₂ (· ≤ ·) t v → Box.Mem t x ∧ Box.Mem t y) :
    Box.overlaps x y = true := Box.overlaps_complete h
theorem box_bisect_accepted {x l r : Box} {i : Nat} (h : Box.boxBisectOk x i l r = true) :
    ∀ p, Box.Mem p x ↔ (Box.Mem p l ∨ Box.Mem p r) := Box.boxBisectOk_sound h

/-- an accepted bisector answer: the chosen variable is at least as wide as its precision and
    bisectable; "none" is accepted only when every variable is too small. -/
theorem bsc_accepted_var {x : Box} {prec : List Ext} {i : Nat} (h : Box.bscOk x prec (some i) = true) :
    ∃ xi p, x[i]? = some xi ∧ prec[i]? = some p ∧ Box.tooSmall xi p = false := by
  unfold Box.bscOk at h
  cases hx : x[i]? with
  | none => simp [hx] at h
  | some xi =>
    cases hp : prec[i]? with
    | none => simp [hx, hp] at h
    | some p => exact ⟨xi, p, rfl, rfl, by simpa [hx, hp] using h⟩
theorem bsc_accepted_none {x : Box} {prec : List Ext} (h : Box.bscOk x prec none = true) :
    ∀ t ∈ List.zipWith Box.tooSmall x prec, t = true := by
  unfold Box.bscOk at h
  simpa using h

/-! non-vacuity -/
example : Box.bisectOk (.mk (.fin 0) (.fin 4)) (.mk (.fin 0) (.fin 1)) (.mk (.fin 1) (.fin 4)) = true := by decide +kernel
example : Box.diff [.mk (.fin 0) (.fin 4), .mk (.fin 0) (.fin 4)] [.mk (.fin 1) (.fin 2), .mk (.fin 1) (.fin 5)]
    = [[.mk (.fin 0) (.fin 1), .mk (.fin 0) (.fin 4)], [.mk (.fin 2) (.fin 4), .mk (.fin 0) (.fin 4)],
       [.mk (.fin 1) (.fin 2), .mk (.fin 0) (.fin 1)]] := by decide +kernel

end Ibex.C16
