/-
  C08 — interval gradients / Jacobians enclose the true derivatives; Hansen matrices are slope
  matrices.

  What is checked at run time (Driver/OpsSym.lean): at a rational point `p` of the box where the
  dual-number evaluation `Deriv.dualEval` is defined,
  * `gradpt` / `jacrows` / `jaccol`: the exact gradients computed by the dual numbers belong
    entrywise to the interval gradient / Jacobian rows / Jacobian column returned by the library
    (`Deriv.rowsIn`, `Deriv.colIn`);
  * `hansenpt`: `f(x) − f(x0) ∈ H·(x − x0)` with exact rational evaluation of `f` and exact
    interval arithmetic (`Deriv.hansenOk`).
  Theorems here:
  * `accepted_gradient`, `accepted_jacrows`, `accepted_jaccol`: an accepted line means that the
    TRUE partial derivatives at `p` of the real denotation of the DAG belong to the intervals
    (via `IbexProofs/DualCorrect.lean`);
  * `accepted_hansen`: an accepted line means `f_i(x) − f_i(x0) ∈ hansenRow (H.row i) (x − x0)` for
    the real denotation; `hansenRow_encl`: the interval `hansenRow h dx` contains `Σ_j s_j·dx_j`
    for all reals `s_j ∈ h_j`, so that a rejected line means that `H` is NOT a slope matrix
    (`rejected_hansen`);
  * `hansen_slope_1d`, `hansen_slope`: the mean value theorem (one variable, and telescoped over
    the coordinates) that justifies the test: a matrix enclosing the partial derivatives on the
    (Hansen-style) sub-boxes between `x0` and `x` is a slope matrix.
-/
import IbexProofs.Props.C12
import IbexProofs.Bwd
import Mathlib.Analysis.Calculus.Deriv.MeanValue

namespace Ibex.C08
open Ibex List Filter Topology

theorem ratIn_iff {q : ℚ} {X : Itv} : Deriv.ratIn q X = true ↔ (q : ℝ) ∈ X := Bwd.containsExt_fin

/-! ### enclosure of gradients -/

theorem zip_all {α β : Type} {f : α × β → Bool} {l : List α} {z : List β} (h : (List.zip l z).all f = true)
    {k : ℕ} {a : α} {b : β} (ha : l[k]? = some a) (hb : z[k]? = some b) : f (a, b) = true := by
  rw [List.all_eq_true] at h
  apply h
  rw [List.mem_iff_getElem?]
  exact ⟨k, by rw [List.getElem?_zip_eq_some]; exact ⟨ha, hb⟩⟩

/-- what `Deriv.rowsIn` establishes (for a well-formed matrix `z`, as produced by the parser) -/
theorem rowsIn_sound {g : List (List ℚ)} {z : Mat Itv} {n : ℕ} (h : Deriv.rowsIn g z = true)
    (hwf : z.d.length = z.r * z.c) (hn : ∀ row ∈ g, row.length = n) (k : ℕ) (hk : k < g.length)
    (j : ℕ) (hj : j < n) :
    ∃ Z, z.d[k * n + j]? = some Z ∧ ((g[k].getD j 0 : ℚ) : ℝ) ∈ Z := by
  unfold Deriv.rowsIn at h
  simp only [Bool.and_eq_true, beq_iff_eq, List.all_eq_true] at h
  obtain ⟨⟨hr, hc⟩, hall⟩ := h
  have hgk : g[k].length = n := hn _ (List.getElem_mem hk)
  have hzc : z.c = n := by rw [← hc _ (List.getElem_mem hk), hgk]
  have hflat : g.flatten[k * n + j]? = some (g[k].getD j 0) := by
    rw [C12.getElem?_flatten_uniform g hn k j hj]
    simp [List.getElem?_eq_getElem hk, List.getD_eq_getElem?_getD,
      List.getElem?_eq_getElem (by omega : j < g[k].length)]
  have hlt : k * n + j < z.d.length := by
    rw [hwf, ← hr, hzc]
    calc k * n + j < (k + 1) * n := by rw [Nat.succ_mul]; omega
      _ ≤ g.length * n := Nat.mul_le_mul_right n hk
  refine ⟨z.d[k * n + j], List.getElem?_eq_getElem hlt, ?_⟩
  have := zip_all (f := fun q => Deriv.ratIn q.1 q.2)
    (List.all_eq_true.2 hall) hflat (List.getElem?_eq_getElem hlt)
  exact ratIn_iff.1 this

/-- **Accepted `gradpt` line (verdict `derivative-enclosed`).**  `z` is the interval gradient
    (scalar function) or Jacobian (vector function) returned by the library for a box containing
    `p`; the driver found the rows of exact gradients inside it.  Then for every output component
    `i` and variable `j`, the TRUE partial derivative `∂f_i/∂x_j (p)` of the real denotation exists
    and belongs to the entry `(i, j)` of `z`. -/
theorem accepted_gradient (funs : List Dag) (main : Dag) (p : List ℚ) {v : Mat Dual} {z : Mat Itv}
    (hv : Deriv.dualEval funs main p = some v) (hwf : z.d.length = z.r * z.c)
    (h : Deriv.rowsIn (v.d.map (·.g)) z = true) (i : ℕ) (hi : i < v.d.length) (j : Fin p.length) :
    ∃ (Z : Itv) (D : ℝ), z.d[i * p.length + j]? = some Z ∧ D ∈ Z ∧
      HasDerivAt (fun t => realEntry funs main i (Function.update (ptR p) j t)) D (ptR p j) := by
  have hrows : ∀ row ∈ v.d.map (·.g), row.length = p.length := by
    intro x hx
    simp only [List.mem_map] at hx
    obtain ⟨d, hd, rfl⟩ := hx
    obtain ⟨k, hk, rfl⟩ := List.getElem_of_mem hd
    exact (C12.dual_gradient_correct funs main p hv k hk).1
  obtain ⟨Z, hZ, hmem⟩ := rowsIn_sound h hwf hrows i (by simpa using hi) j j.2
  refine ⟨Z, _, hZ, ?_, (C12.dual_gradient_correct funs main p hv i hi).2.2.2 j⟩
  simpa using hmem

theorem mapM_forall₂ {α β : Type} {f : α → Option β} :
    ∀ {l : List α} {o : List β}, l.mapM f = some o → Forall₂ (fun a b => f a = some b) l o := by
  intro l
  induction l with
  | nil => intro o h; simp at h; subst h; exact .nil
  | cons a l ih =>
    intro o h
    simp only [List.mapM_cons, Bind.bind, Pure.pure, Option.bind_eq_some_iff] at h
    obtain ⟨y, hy, ys, hys, h⟩ := h
    simp at h
    subst h
    exact .cons hy (ih hys)

/-- **Accepted `jacrows` line.**  `sel` selects output components; row `k` of `z` encloses the true
    gradient of component `sel[k]`. -/
theorem accepted_jacrows (funs : List Dag) (main : Dag) (p : List ℚ) {v : Mat Dual} {z : Mat Itv}
    {sel : List ℕ} {rows : List (List ℚ)}
    (hv : Deriv.dualEval funs main p = some v) (hwf : z.d.length = z.r * z.c)
    (hrows : sel.mapM (fun i => (v.d[i]?).map (·.g)) = some rows)
    (h : Deriv.rowsIn rows z = true) (k : ℕ) (hk : k < sel.length) (j : Fin p.length) :
    ∃ (Z : Itv) (D : ℝ), z.d[k * p.length + j]? = some Z ∧ D ∈ Z ∧
      HasDerivAt (fun t => realEntry funs main sel[k] (Function.update (ptR p) j t)) D (ptR p j) := by
  have hf := mapM_forall₂ hrows
  have hlen : ∀ row ∈ rows, row.length = p.length := by
    intro row hrow
    obtain ⟨m, hm, rfl⟩ := List.getElem_of_mem hrow
    have hm' : m < sel.length := hf.length_eq ▸ hm
    obtain ⟨_, hrel⟩ := forall₂_getElem hf hm'
    simp only [Option.map_eq_some_iff] at hrel
    obtain ⟨d, hd, hdg⟩ := hrel
    obtain ⟨hi, rfl⟩ := List.getElem?_eq_some_iff.1 hd
    rw [← hdg]
    exact (C12.dual_gradient_correct funs main p hv _ hi).1
  obtain ⟨hk', hrel⟩ := forall₂_getElem hf hk
  simp only [Option.map_eq_some_iff] at hrel
  obtain ⟨d, hd, hdg⟩ := hrel
  obtain ⟨hi, rfl⟩ := List.getElem?_eq_some_iff.1 hd
  obtain ⟨Z, hZ, hmem⟩ := rowsIn_sound h hwf hlen k hk' j j.2
  refine ⟨Z, _, hZ, ?_, (C12.dual_gradient_correct funs main p hv _ hi).2.2.2 j⟩
  rw [← hdg] at hmem
  exact hmem

/-- **Accepted `jaccol` line.**  Entry `i` of the interval column `z` encloses the true partial
    derivative of component `i` with respect to the variable `vv`. -/
theorem accepted_jaccol (funs : List Dag) (main : Dag) (p : List ℚ) {v : Mat Dual} {z : Mat Itv}
    {vv : ℕ} {col : List ℚ} (hv : Deriv.dualEval funs main p = some v)
    (hcol : v.d.mapM (fun d => d.g[vv]?) = some col) (h : Deriv.colIn col z = true)
    (i : ℕ) (hi : i < v.d.length) :
    ∃ (hvv : vv < p.length) (Z : Itv) (D : ℝ), z.d[i]? = some Z ∧ D ∈ Z ∧
      HasDerivAt (fun t => realEntry funs main i (Function.update (ptR p) ⟨vv, hvv⟩ t)) D (ptR p ⟨vv, hvv⟩) := by
  have hf := mapM_forall₂ hcol
  obtain ⟨hi', hrel⟩ := forall₂_getElem hf hi
  obtain ⟨hg, hpart⟩ : v.d[i].g.length = p.length ∧ _ :=
    ⟨(C12.dual_gradient_correct funs main p hv i hi).1, (C12.dual_gradient_correct funs main p hv i hi).2.2.2⟩
  obtain ⟨hvv', hq⟩ := List.getElem?_eq_some_iff.1 hrel
  have hvv : vv < p.length := hg ▸ hvv'
  unfold Deriv.colIn at h
  simp only [Bool.and_eq_true, beq_iff_eq] at h
  have hlt : i < z.d.length := h.1 ▸ hi'
  have := zip_all (f := fun q => Deriv.ratIn q.1 q.2) h.2 (List.getElem?_eq_getElem hi')
    (List.getElem?_eq_getElem hlt)
  refine ⟨hvv, z.d[i], _, List.getElem?_eq_getElem hlt, ?_, hpart ⟨vv, hvv⟩⟩
  have e : v.d[i].g.getD vv 0 = col[i] := by
    rw [List.getD_eq_getElem?_getD, hrel]; rfl
  simp only [e]
  exact ratIn_iff.1 this

/-! ### Hansen matrices -/

/-- `Σ_j s_j·dx_j` over the common prefix of the two lists -/
def dotR (s : List ℝ) (dx : List ℚ) : ℝ := ((List.zip s dx).map fun q => q.1 * (q.2 : ℝ)).sum

theorem hansen_fold_encl :
    ∀ {s : List ℝ} {h : List Itv}, Forall₂ (fun (x : ℝ) (X : Itv) => x ∈ X) s h → ∀ (dx : List ℚ) {acc : ℝ} {A : Itv},
      acc ∈ A →
      acc + dotR s dx ∈ (List.zip h dx).foldl (fun acc (q : Itv × ℚ) =>
        Itv.addG Rnd.exact acc (Itv.mulG Rnd.exact q.1 (Itv.point q.2))) A := by
  intro s h hs
  induction hs with
  | nil => intro dx acc A hacc; simpa [dotR] using hacc
  | cons hx _ ih =>
    intro dx acc A hacc
    cases dx with
    | nil => simpa [dotR] using hacc
    | cons d dx =>
      simp only [List.zip_cons_cons, List.foldl_cons]
      have hstep := Itv.addG_encl Rnd.exact_sound hacc
        (Itv.mulG_encl Rnd.exact_sound hx (Bwd.mem_point.2 (rfl : ((d : ℚ) : ℝ) = d)))
      have := ih dx hstep
      simp only [dotR, List.zip_cons_cons, List.map_cons, List.sum_cons] at this ⊢
      rw [← add_assoc]
      exact this

/-- the exact interval product-sum encloses every real product-sum with slopes in the intervals -/
theorem hansenRow_encl {s : List ℝ} {h : List Itv} (hs : Forall₂ (fun (x : ℝ) (X : Itv) => x ∈ X) s h)
    (dx : List ℚ) : dotR s dx ∈ Deriv.hansenRow h dx := by
  have := hansen_fold_encl hs dx (acc := 0) (A := Itv.point 0) (Bwd.mem_point_zero.2 rfl)
  simpa [Deriv.hansenRow] using this

/-- **Accepted `hansenpt` line.**  `v`, `v0` are the exact values of the DAG at the rational points
    `x`, `x0`.  If `Deriv.hansenOk` accepts then, for every row `i` of `H`, the real denotation
    satisfies `f_i(x) − f_i(x0) ∈ Σ_j H[i][j]·(x_j − x0_j)` (exact interval product-sum). -/
theorem accepted_hansen (funs : List Dag) (main : Dag) (x x0 : List ℚ) {v v0 : Mat ℚ} {H : Mat Itv}
    (hv : Eval.root Alg.rat x (Eval.buildCalls Alg.rat funs) main = some v)
    (hv0 : Eval.root Alg.rat x0 (Eval.buildCalls Alg.rat funs) main = some v0)
    (h : Deriv.hansenOk H v v0 (List.zipWith (· - ·) x x0) = true) (i : ℕ) (hi : i < H.r) :
    realEntry funs main i (ptR x) - realEntry funs main i (ptR x0) ∈
      Deriv.hansenRow (H.row i) (List.zipWith (· - ·) x x0) := by
  unfold Deriv.hansenOk at h
  rw [List.all_eq_true] at h
  have := h i (List.mem_range.2 hi)
  split at this
  · rename_i a b ha hb
    rw [realEntry_of_rat funs main x hv ha, realEntry_of_rat funs main x0 hv0 hb]
    have := ratIn_iff.1 this
    push_cast at this
    exact this
  · exact absurd this (by simp)

/-- **Rejected `hansenpt` line**: if the check fails at row `i` (and the values exist), then `H` is
    not a slope matrix between `x0` and `x`: there are no reals `s_j ∈ H[i][j]` with
    `f_i(x) − f_i(x0) = Σ_j s_j·(x_j − x0_j)`. -/
theorem rejected_hansen (funs : List Dag) (main : Dag) (x x0 : List ℚ) {v v0 : Mat ℚ} {H : Mat Itv}
    (hv : Eval.root Alg.rat x (Eval.buildCalls Alg.rat funs) main = some v)
    (hv0 : Eval.root Alg.rat x0 (Eval.buildCalls Alg.rat funs) main = some v0)
    {i : ℕ} {a b : ℚ} (ha : v.d[i]? = some a) (hb : v0.d[i]? = some b)
    (hrej : Deriv.ratIn (a - b) (Deriv.hansenRow (H.row i) (List.zipWith (· - ·) x x0)) = false) :
    ¬ ∃ s : List ℝ, Forall₂ (fun (t : ℝ) (X : Itv) => t ∈ X) s (H.row i) ∧
      realEntry funs main i (ptR x) - realEntry funs main i (ptR x0) = dotR s (List.zipWith (· - ·) x x0) := by
  rintro ⟨s, hs, heq⟩
  have hmem := hansenRow_encl hs (List.zipWith (· - ·) x x0)
  rw [← heq, realEntry_of_rat funs main x hv ha, realEntry_of_rat funs main x0 hv0 hb] at hmem
  have : Deriv.ratIn (a - b) (Deriv.hansenRow (H.row i) (List.zipWith (· - ·) x x0)) = true := by
    rw [ratIn_iff]; push_cast; exact hmem
  rw [hrej] at this
  exact absurd this (by simp)

/-! ### why a matrix of derivative enclosures is a slope matrix: the mean value theorem -/

/-- **Mean value theorem, interval form.**  If `f` is differentiable on the segment between `x0` and
    `x` and its derivative stays in the interval `L` there, then `f x − f x0 = s·(x − x0)` for some
    `s ∈ L`. -/
theorem hansen_slope_1d {f f' : ℝ → ℝ} {x0 x : ℝ} {L : Itv}
    (hd : ∀ t ∈ Set.uIcc x0 x, HasDerivAt f (f' t) t) (hL : ∀ t ∈ Set.uIcc x0 x, f' t ∈ L) :
    ∃ s : ℝ, s ∈ L ∧ f x - f x0 = s * (x - x0) := by
  rcases lt_trichotomy x0 x with hlt | heq | hgt
  · rw [Set.uIcc_of_le hlt.le] at hd hL
    obtain ⟨c, hc, hslope⟩ := exists_hasDerivAt_eq_slope f f' hlt
      (fun t ht => (hd t ht).continuousAt.continuousWithinAt)
      (fun t ht => hd t (Set.Ioo_subset_Icc_self ht))
    refine ⟨f' c, hL c (Set.Ioo_subset_Icc_self hc), ?_⟩
    have : x - x0 ≠ 0 := sub_ne_zero.2 hlt.ne'
    rw [hslope]
    field_simp
  · subst heq
    exact ⟨f' x0, hL x0 Set.left_mem_uIcc, by simp⟩
  · rw [Set.uIcc_of_ge hgt.le] at hd hL
    obtain ⟨c, hc, hslope⟩ := exists_hasDerivAt_eq_slope f f' hgt
      (fun t ht => (hd t ht).continuousAt.continuousWithinAt)
      (fun t ht => hd t (Set.Ioo_subset_Icc_self ht))
    refine ⟨f' c, hL c (Set.Ioo_subset_Icc_self hc), ?_⟩
    have : x0 - x ≠ 0 := sub_ne_zero.2 hgt.ne'
    rw [hslope]
    field_simp
    ring

/-- the point whose coordinates of index `< k` come from `x` and the others from `x0` -/
def mix {n : ℕ} (x0 x : Fin n → ℝ) (k : ℕ) : Fin n → ℝ := fun i => if i.1 < k then x i else x0 i

theorem mix_zero {n : ℕ} (x0 x : Fin n → ℝ) : mix x0 x 0 = x0 := by
  funext i; simp [mix]

theorem mix_last {n : ℕ} (x0 x : Fin n → ℝ) : mix x0 x n = x := by
  funext i; simp [mix, i.2]

theorem mix_update_left {n : ℕ} (x0 x : Fin n → ℝ) (k : Fin n) :
    Function.update (mix x0 x k) k (x0 k) = mix x0 x k := by
  funext i
  by_cases h : i = k
  · subst h; simp [mix]
  · simp [Function.update_of_ne h]

theorem mix_update_right {n : ℕ} (x0 x : Fin n → ℝ) (k : Fin n) :
    Function.update (mix x0 x k) k (x k) = mix x0 x (k + 1) := by
  funext i
  by_cases h : i = k
  · subst h; simp [mix]
  · have h' : (i : ℕ) ≠ k := fun e => h (Fin.ext e)
    simp only [Function.update_of_ne h, mix]
    by_cases hlt : (i : ℕ) < k
    · rw [if_pos hlt, if_pos (by omega)]
    · rw [if_neg hlt, if_neg (by omega)]

/-- **Mean value theorem telescoped over the coordinates (Hansen's scheme).**  Column `k` of the
    matrix encloses the partial derivative `∂f/∂x_k` on the segment where the coordinates before
    `k` are those of `x`, the coordinates after `k` those of `x0`, and coordinate `k` runs between
    `x0_k` and `x_k` (a subset of any box containing `x0` and `x`).  Then
    `f x − f x0 = Σ_k s_k·(x_k − x0_k)` with slopes `s_k ∈ H_k`. -/
theorem hansen_slope {n : ℕ} {f : (Fin n → ℝ) → ℝ} {f' : Fin n → ℝ → ℝ} {x0 x : Fin n → ℝ}
    {H : Fin n → Itv}
    (hd : ∀ (k : Fin n), ∀ t ∈ Set.uIcc (x0 k) (x k),
      HasDerivAt (fun t => f (Function.update (mix x0 x k) k t)) (f' k t) t ∧ f' k t ∈ H k) :
    ∃ s : Fin n → ℝ, (∀ k, s k ∈ H k) ∧ f x - f x0 = ∑ k, s k * (x k - x0 k) := by
  choose s hs using fun (k : Fin n) => hansen_slope_1d (f := fun t => f (Function.update (mix x0 x k) k t))
    (f' := f' k) (L := H k) (fun t ht => (hd k t ht).1) (fun t ht => (hd k t ht).2)
  refine ⟨s, fun k => (hs k).1, ?_⟩
  have hstep : ∀ k : Fin n, s k * (x k - x0 k) = f (mix x0 x (k + 1)) - f (mix x0 x k) := by
    intro k
    have := (hs k).2
    simp only [mix_update_left, mix_update_right] at this
    exact this.symm
  rw [Finset.sum_congr rfl fun k _ => hstep k,
    Fin.sum_univ_eq_sum_range (fun i => f (mix x0 x (i + 1)) - f (mix x0 x i)) n,
    Finset.sum_range_sub (fun i => f (mix x0 x i)) n, mix_zero, mix_last]

theorem dotR_ofFn {n : ℕ} (s : Fin n → ℝ) {dx : List ℚ} (hdx : dx.length = n) :
    dotR (List.ofFn s) dx = ∑ k : Fin n, s k * ((dx[k.1]'(hdx ▸ k.2) : ℚ) : ℝ) := by
  unfold dotR
  rw [← List.sum_ofFn]
  congr 1
  apply List.ext_getElem
  · simp [hdx]
  · intro i h1 h2
    simp

open Classical in
/-- **The Hansen test never rejects a correct matrix.**  If row `h` (one interval per variable)
    encloses the partial derivatives of `f` on the Hansen segments between `x0` and `x`, then
    `f x − f x0` belongs to the exact interval product-sum `hansenRow h (x − x0)` that the driver
    computes: a rejected `hansenpt` line proves that some entry of the library's matrix does not
    enclose the corresponding partial derivative. -/
theorem hansen_slope_row {n : ℕ} {f : (Fin n → ℝ) → ℝ} {x0 x : Fin n → ℝ} {h : List Itv}
    (hlen : h.length = n) {dx : List ℚ} (hdx : dx.length = n)
    (hdxv : ∀ k : Fin n, ((dx[k.1]'(hdx ▸ k.2) : ℚ) : ℝ) = x k - x0 k)
    (hd : ∀ (k : Fin n), ∀ t ∈ Set.uIcc (x0 k) (x k), ∃ D : ℝ,
      HasDerivAt (fun t => f (Function.update (mix x0 x k) k t)) D t ∧ D ∈ h[k.1]'(hlen ▸ k.2)) :
    f x - f x0 ∈ Deriv.hansenRow h dx := by
  let f' : Fin n → ℝ → ℝ := fun k t =>
    if ht : t ∈ Set.uIcc (x0 k) (x k) then Classical.choose (hd k t ht) else 0
  have hf' : ∀ (k : Fin n), ∀ t ∈ Set.uIcc (x0 k) (x k),
      HasDerivAt (fun t => f (Function.update (mix x0 x k) k t)) (f' k t) t ∧
        f' k t ∈ (fun k : Fin n => h[k.1]'(hlen ▸ k.2)) k := by
    intro k t ht
    simp only [f', dif_pos ht]
    exact Classical.choose_spec (hd k t ht)
  obtain ⟨s, hs, heq⟩ := hansen_slope (H := fun k : Fin n => h[k.1]'(hlen ▸ k.2)) hf'
  have hmem : Forall₂ (fun (t : ℝ) (X : Itv) => t ∈ X) (List.ofFn s) h := by
    rw [List.forall₂_iff_get]
    refine ⟨by simp [hlen], fun i h1 h2 => ?_⟩
    have hi : i < n := by simpa using h1
    simpa using hs ⟨i, hi⟩
  have := hansenRow_encl hmem dx
  rw [dotR_ofFn s hdx] at this
  rw [heq]
  simpa only [hdxv] using this

end Ibex.C08
