/-
  C20 — linearisations relax (or restrict) the nonlinear system on the box.

  What is checked at run time (Driver/OpsLin.lean) on the rows RECORDED from the real linearizers
  (`LinearizerXTaylor`, `LinearizerCompo`, `LinearizerFixed`, `LinearizerDuality`; hook H1):
  * `linpt` (the property itself on sampled points, decided in exact rational arithmetic): RELAX — an exactly feasible
    point of the box satisfies every recorded row and the return value is not −1; RESTRICT — a point of the (LP) box
    satisfying every recorded row exactly is feasible;
  * `lincert` / `lindualcert` (verified certificate checkers `Lin.relaxCert`, `Lin.restrictCert`, `Lin.dualCert`): every
    recorded row follows by a first-order expansion from a slope matrix (Hansen matrix / Jacobian) and a value enclosure
    that the library's own public functions return for the box; a return value −1 (RELAX) is backed by an expansion row
    that no point of the box satisfies; in RESTRICT mode every constraint is covered by a row, by a redundant model row
    or by the evaluation over the box;
  * `linfixed`: the rows of `LinearizerFixed` are the given ones.

  Theorems here (all reals, all dimensions, any expansion point — hence every corner policy —, any slope enclosure):
  * `relax_row_valid`, `restrict_row_valid`: the two first-order row theorems (sign cases on `x_j − c_j`);
  * `model_row_relax_valid`, `model_row_restrict_valid`: the model's `XTaylor.row` (`Lin.modelRowRelax/Restrict`: bound of
    the slope chosen by the side of the corner and the mode) is such a row, for ANY corner;
  * `unsat_only_if_infeasible`, `dropped_row_redundant`: the quick `a·[x]` tests;
  * `relax_call_sound`, `restrict_call_sound`, `duality_call_sound`: an accepted certificate line implies the property
    for ALL real points of the box, given the contracts of C02 (value enclosures) and C08 (slope enclosures);
  * `slopeEncl_of_derivatives`: the slope hypothesis follows from enclosures of the partial derivatives on the
    Hansen segments (mean value theorem, `C08.hansen_slope`);
  * `compo_relax`, `compo_restrict`, `fixed_rows`: compositions and fixed rows;
  * `block_row_iff_flat_row`: the block reading of the duality rows is the recorded flat row.
-/
import IbexProofs.LinearizeMVT
import IbexProofs.Bwd

namespace Ibex.C20
open Ibex Ibex.Lin List

/-! ### the two row theorems -/

/-- **RELAX row.**  `G` encloses slopes of `g` between the expansion point `c` and every point of the box, `v ∋ g(c)`.
    If each coefficient `a_j` is below `G_j` when `x_j − c_j` can be positive on the box and above `G_j` when it can be
    negative (`coefRelax`; at a corner only one case occurs), and `b ≥ a·c − lb v`, then every point of the box with
    `g x ≤ 0` satisfies `a·x ≤ b`. -/
theorem relax_row_valid {g : List ℝ → ℝ} {box : Box} {c a : List ℚ} {v : Itv} {G : List Itv} {b : Ext} {x : List ℝ}
    (hv : SlopeEncl g box c v G) (hco : coefsAll coefRelax box c a G = true) (hr : rhsRelax a c v b = true)
    (hx : BoxMem x box) (hg : g x ≤ 0) : ((dotR (castL a) x : ℝ) : EReal) ≤ b.toE :=
  Lin.relax_row_valid hv hco hr hx hg

/-- **RESTRICT row.**  With the coefficients on the other side of the slopes and `b ≤ a·c − ub v`, every point of the
    box with `a·x ≤ b` satisfies `g x ≤ 0`. -/
theorem restrict_row_valid {g : List ℝ → ℝ} {box : Box} {c a : List ℚ} {v : Itv} {G : List Itv} {b : Ext} {x : List ℝ}
    (hv : SlopeEncl g box c v G) (hco : coefsAll coefRestrict box c a G = true) (hr : rhsRestrict a c v b = true)
    (hx : BoxMem x box) (hrow : ((dotR (castL a) x : ℝ) : EReal) ≤ b.toE) : g x ≤ 0 :=
  Lin.restrict_row_valid hv hco hr hx hrow

/-- **The model row (`XTaylor.row`, RELAX) is valid for ANY expansion point** (any corner policy, forced flips
    included): coefficient = lower bound of the slope where the box lies above `c_j`, upper bound where it lies below,
    right-hand side `a·c − lb g(c)`. -/
theorem model_row_relax_valid {sys : NLSys} {box : Box} {E : Expansion} (hE : E.Valid sys box) {k : ℕ} {neg : Bool} {r : LeRow}
    (h : modelRowRelax box E k neg = some r) {i : ℕ} {g : List ℝ → ℝ} {op : Cmp} (hi : E.act[k]? = some i)
    (hg : sys[i]? = some (g, op)) {x : List ℝ} (hx : BoxMem x box) (hgx : sg neg (g x) ≤ 0) : r.SatR x :=
  modelRowRelax_valid hE h hi hg hx hgx

/-- **The model row (RESTRICT) is valid for ANY expansion point.** -/
theorem model_row_restrict_valid {sys : NLSys} {box : Box} {E : Expansion} (hE : E.Valid sys box) {k : ℕ} {neg : Bool}
    {r : LeRow} (h : modelRowRestrict box E k neg = some r) {i : ℕ} {g : List ℝ → ℝ} {op : Cmp}
    (hi : E.act[k]? = some i) (hg : sys[i]? = some (g, op)) {x : List ℝ} (hx : BoxMem x box) (hr : r.SatR x) :
    sg neg (g x) ≤ 0 :=
  modelRowRestrict_valid hE h hi hg hx hr

/-- **Quick test, infeasible side**: if the exact minimum of `a·x` over the box exceeds `b` for a model row, no point of
    the box satisfies the (signed) constraint. -/
theorem unsat_only_if_infeasible {sys : NLSys} {box : Box} {E : Expansion} (hE : E.Valid sys box) {k : ℕ} {neg : Bool}
    {r : LeRow} (h : modelRowRelax box E k neg = some r) (hu : rowUnsat box r = true) {i : ℕ} {g : List ℝ → ℝ} {op : Cmp}
    (hi : E.act[k]? = some i) (hg : sys[i]? = some (g, op)) {x : List ℝ} (hx : BoxMem x box) : 0 < sg neg (g x) := by
  by_contra hcon
  exact rowUnsat_sound hu hx (modelRowRelax_valid hE h hi hg hx (not_lt.1 hcon))

/-- **Quick test, redundant side** (RESTRICT): a model row that holds on the whole box (exact maximum of `a·x` at most
    `b`) may be dropped: the constraint holds on the whole box. -/
theorem dropped_row_redundant {sys : NLSys} {box : Box} {E : Expansion} (hE : E.Valid sys box) {k : ℕ} {neg : Bool}
    {r : LeRow} (h : modelRowRestrict box E k neg = some r) (hu : rowRedundant box r = true) {i : ℕ} {g : List ℝ → ℝ}
    {op : Cmp} (hi : E.act[k]? = some i) (hg : sys[i]? = some (g, op)) {x : List ℝ} (hx : BoxMem x box) :
    sg neg (g x) ≤ 0 :=
  modelRowRestrict_valid hE h hi hg hx (rowRedundant_sound hu hx)

/-! ### accepted certificate lines -/

/-- **Accepted `lincert RELAX` line.**  `Es` = the expansions computed by the library's public functions (valid by
    C02/C08), `fixed` = linear rows that belong to the system.  Then for EVERY real point of the box that is feasible
    for the nonlinear system (and the fixed rows): the return value is not −1 and every recorded row holds. -/
theorem relax_call_sound {sys : NLSys} {box : Box} {Es : List Expansion} {fixed : List LeRow} {rows : List Row} {ret : ℤ}
    (hE : ∀ E ∈ Es, E.Valid sys box) (h : relaxCert box (opsOf sys) Es fixed rows ret = true) {x : List ℝ}
    (hx : BoxMem x box) (hfeas : Feasible sys x) (hf : ∀ f ∈ fixed, f.SatR x) :
    ret ≠ -1 ∧ ∀ r ∈ rows, r.SatR x :=
  relaxCert_sound hE h hx hfeas hf

/-- **Accepted `lincert RESTRICT` line** (return value ≠ −1): EVERY real point of the box satisfying all recorded rows
    satisfies every constraint (`<`, `>` read as `≤`, `≥`) and every fixed row. -/
theorem restrict_call_sound {sys : NLSys} {box : Box} {Es : List Expansion} {fixed : List LeRow} {rows : List Row}
    {evalbox : List Itv} (hE : ∀ E ∈ Es, E.Valid sys box) (hev : EvalValid sys box evalbox)
    (h : restrictCert box (opsOf sys) Es fixed rows evalbox = true) {x : List ℝ} (hx : BoxMem x box)
    (hrows : ∀ r ∈ rows, r.SatR x) : WeakFeasible sys x ∧ ∀ f ∈ fixed, f.SatR x :=
  restrictCert_sound hE hev h hx hrows

/-- **Accepted `lindualcert` line** (return value ≠ −1): at EVERY point `(x, z_0, …, z_{m−1})` with `x` in the box and all
    auxiliary variables `≤ 0` (the bounds LoupFinderDuality gives to the LP) that satisfies all recorded rows, `x`
    satisfies every constraint. -/
theorem duality_call_sound {sys : NLSys} {n : ℕ} {box : Box} {E : Option Expansion} (hE : ∀ E' ∈ E, E'.Valid sys box)
    {rows : List DRow} {evalbox : List Itv} (hev : EvalValid sys box evalbox)
    (h : dualCert n box (opsOf sys) E rows evalbox = true) {x : List ℝ} (hx : BoxMem x box) {zs : List (List ℝ)}
    (hzs : zs.length = sys.length) (hzlen : ∀ z ∈ zs, z.length = box.length) (hzneg : ∀ z ∈ zs, ∀ t ∈ z, t ≤ 0)
    (hrows : ∀ r ∈ rows, r.SatR x zs) : WeakFeasible sys x :=
  dualCert_sound hE hev h hx hzs hzlen hzneg hrows

/-- the block reading used by `dualCert` is the recorded (flat) row -/
theorem block_row_iff_flat_row {n m : ℕ} {r : LeRow} (hr : r.a.length = n + m * n) {x : List ℝ} (hx : x.length = n)
    {zs : List (List ℝ)} (hz : zs.length = m) (hzn : ∀ z ∈ zs, z.length = n) :
    (toDRow n m r).SatR x zs ↔ r.SatR (x ++ zs.flatten) :=
  toDRow_sat hr hx hz hzn

/-! ### compositions and fixed rows -/

/-- `LinearizerCompo` in RELAX mode: if both components relax at `x` (not −1, rows hold) then so does the composition:
    its return value (`compoRet`) is not −1 and all the rows of both hold -/
theorem compo_relax {rows1 rows2 : List Row} {ret1 ret2 : ℤ} {x : List ℝ} (hr1 : -1 ≤ ret1) (hr2 : -1 ≤ ret2)
    (h1 : ret1 ≠ -1 ∧ ∀ r ∈ rows1, r.SatR x) (h2 : ret2 ≠ -1 ∧ ∀ r ∈ rows2, r.SatR x) :
    compoRet ret1 ret2 ≠ -1 ∧ ∀ r ∈ rows1 ++ rows2, r.SatR x := by
  refine ⟨?_, fun r hr => ?_⟩
  · unfold compoRet
    have e1 : (ret1 == -1) = false := by simpa using h1.1
    have e2 : (ret2 == -1) = false := by simpa using h2.1
    simp only [e1, e2, Bool.false_eq_true, if_false]
    have : 0 ≤ ret1 := by have := h1.1; omega
    have : 0 ≤ ret2 := by have := h2.1; omega
    omega
  · rcases mem_append.1 hr with hr | hr
    · exact h1.2 r hr
    · exact h2.2 r hr

/-- `LinearizerCompo` in RESTRICT mode: a point satisfying the rows of both satisfies what each one guarantees -/
theorem compo_restrict {rows1 rows2 : List Row} {P1 P2 : Prop} {x : List ℝ}
    (h1 : (∀ r ∈ rows1, r.SatR x) → P1) (h2 : (∀ r ∈ rows2, r.SatR x) → P2)
    (h : ∀ r ∈ rows1 ++ rows2, r.SatR x) : P1 ∧ P2 :=
  ⟨h1 fun r hr => h r (mem_append.2 (Or.inl hr)), h2 fun r hr => h r (mem_append.2 (Or.inr hr))⟩

/-- `LinearizerFixed`: when the recorded rows are the given ones (`linfixed` accepted: `e = r`), a point satisfies the
    recorded rows iff it satisfies the given system `A x ≤ b` -/
theorem fixed_rows {given recorded : List Row} (h : decide (given = recorded) = true) (x : List ℝ) :
    (∀ r ∈ recorded, r.SatR x) ↔ (∀ r ∈ given, r.SatR x) := by
  rw [of_decide_eq_true h]

/-! ### where slope enclosures come from: the mean value theorem (C08) -/

/-- **Slope enclosure from derivative enclosures.**  If `v ∋ g(c)` and, for every point `x` of the box, `G_k` encloses
    the partial derivative `∂g/∂x_k` on the Hansen segment (coordinates before `k` from `x`, after `k` from `c`,
    coordinate `k` between `c_k` and `x_k`) — which is what the Hansen matrix and, a fortiori, the Jacobian over the
    box provide (C08) — then `SlopeEncl g box c v G`: the hypothesis of all the theorems above. -/
theorem slopeEncl_of_derivatives {n : ℕ} (g : List ℝ → ℝ) (box : Box) (c : List ℚ) (v : Itv) (G : List Itv)
    (hc : c.length = n) (hG : G.length = n) (hbox : box.length = n) (hval : g (castL c) ∈ v)
    (hder : ∀ x : Fin n → ℝ, BoxMem (ofFn x) box → ∀ (k : Fin n), ∀ t ∈ Set.uIcc ((c.getD k 0 : ℚ) : ℝ) (x k), ∃ D : ℝ,
      HasDerivAt (fun t => g (ofFn (Function.update (C08.mix (fun i : Fin n => ((c.getD i 0 : ℚ) : ℝ)) x k) k t))) D t ∧
        D ∈ G.getD k Itv.empty) :
    SlopeEncl g box c v G :=
  slopeEncl_of_derivatives' g box c v G hc hG hbox hval hder

/-! ### non-vacuity: concrete instances accepted by the checkers -/

/-- `g(x,y) = x² + y² − 1 ≤ 0` on `[−2,2]²`, expansion at the corner `(−2,−2)`: `g(c) = 7`, slopes `[−4,4]²`;
    the recorded row `−4x − 4y ≤ 9` (the one `LinearizerXTaylor` produces, INF corner) is certified, the wrong row
    `−4x − 4y ≤ 8` is not. -/
def exBox : Box := [.mk (.fin (-2)) (.fin 2), .mk (.fin (-2)) (.fin 2)]
def exE : Expansion := ⟨[-2, -2], [0], [Itv.point 7], some [[.mk (.fin (-4)) (.fin 4), .mk (.fin (-4)) (.fin 4)]]⟩

example : relaxCert exBox [.leq] [exE] [] [⟨.ninf, .fin 9, [-4, -4]⟩] 1 = true := by decide +kernel
example : relaxCert exBox [.leq] [exE] [] [⟨.ninf, .fin 8, [-4, -4]⟩] 1 = false := by decide +kernel
/-- a coefficient taken on the wrong side of the slope interval is rejected -/
example : relaxCert exBox [.leq] [exE] [] [⟨.ninf, .fin 25, [4, -4]⟩] 1 = false := by decide +kernel
/-- −1 is not justified on this box (the unit disc meets it) … -/
example : relaxCert exBox [.leq] [exE] [] [] (-1) = false := by decide +kernel
/-- … but it is on `[−2,−1.5]²`: `g(c) = 7`, slopes `[−4,−3]²`, model row `−4x − 4y ≤ 9` while `−4x − 4y ≥ 12` on the box -/
example : relaxCert [.mk (.fin (-2)) (.fin (-3/2)), .mk (.fin (-2)) (.fin (-3/2))] [.leq]
    [⟨[-2, -2], [0], [Itv.point 7], some [[.mk (.fin (-4)) (.fin (-3)), .mk (.fin (-4)) (.fin (-3))]]⟩] [] [] (-1) = true := by
  decide +kernel
/-- RESTRICT on `[0,1/4]²` from the corner `(0,0)`: `g(c) = −1`, slopes `[0,1/2]²`; the row `x/2 + y/2 ≤ 1` restricts
    (here it would even be dropped: the model row is redundant on the box, second example) -/
example : restrictCert [.mk (.fin 0) (.fin (1/4)), .mk (.fin 0) (.fin (1/4))] [.leq]
    [⟨[0, 0], [0], [Itv.point (-1)], some [[.mk (.fin 0) (.fin (1/2)), .mk (.fin 0) (.fin (1/2))]]⟩] []
    [⟨.ninf, .fin 1, [1/2, 1/2]⟩] [.mk (.fin (-1)) (.fin (-7/8))] = true := by decide +kernel
example : restrictCert [.mk (.fin 0) (.fin (1/4)), .mk (.fin 0) (.fin (1/4))] [.leq]
    [⟨[0, 0], [0], [Itv.point (-1)], some [[.mk (.fin 0) (.fin (1/2)), .mk (.fin 0) (.fin (1/2))]]⟩] []
    [] [.mk (.fin (-1)) (.fin 1)] = true := by decide +kernel
/-- a row that does not restrict (coefficient below the slopes) is rejected when nothing else covers the constraint -/
example : restrictCert exBox [.leq] [exE] [] [⟨.ninf, .fin 0, [-4, -4]⟩] [.mk (.fin (-1)) (.fin 7)] = false := by decide +kernel
/-- duality: `g(x) = x² − 1 ≤ 0` on `[−2,2]`, point `0`, `g(0) = −1`, slopes `[−4,4]`: rows `x + z ≤ 0`, `−4x − 8z ≤ 1`;
    with the auxiliary coefficient 7 (< 4 − (−4)) the certificate is rejected -/
example : dualCert 1 [.mk (.fin (-2)) (.fin 2)] [.leq]
    (some ⟨[0], [0], [Itv.point (-1)], some [[.mk (.fin (-4)) (.fin 4)]]⟩)
    [⟨[1], [[1]], .fin 0⟩, ⟨[-4], [[-8]], .fin 1⟩] [.mk (.fin (-1)) (.fin 3)] = true := by decide +kernel
example : dualCert 1 [.mk (.fin (-2)) (.fin 2)] [.leq]
    (some ⟨[0], [0], [Itv.point (-1)], some [[.mk (.fin (-4)) (.fin 4)]]⟩)
    [⟨[1], [[1]], .fin 0⟩, ⟨[-4], [[-7]], .fin 1⟩] [.mk (.fin (-1)) (.fin 3)] = false := by decide +kernel

/-- the slope hypothesis is satisfiable on a concrete function: `g(x) = x² − 1` on `[−2,2]`, expansion point `−2`,
    `g(−2) = 3`, slopes `x − 2 ∈ [−4,0] ⊆ [−4,4]` -/
example : SlopeEncl (fun l => l.headD 0 ^ 2 - 1) [.mk (.fin (-2)) (.fin 2)] [-2] (Itv.point 3) [.mk (.fin (-4)) (.fin 4)] := by
  refine ⟨?_, fun x hx => ?_⟩
  · rw [Bwd.mem_point]; simp [castL]; norm_num
  · cases hx with
    | cons h1 ht =>
      cases ht
      rename_i t
      have hlo : (-2 : ℝ) ≤ t := by
        have := h1.1; simp only [Ext.toE_fin, EReal.coe_le_coe_iff] at this; exact_mod_cast this
      have hhi : t ≤ (2 : ℝ) := by
        have := h1.2; simp only [Ext.toE_fin, EReal.coe_le_coe_iff] at this; exact_mod_cast this
      refine ⟨[t - 2], Forall₂.cons ?_ Forall₂.nil, ?_⟩
      · constructor
        · simp only [Ext.toE_fin, EReal.coe_le_coe_iff]; push_cast; linarith
        · simp only [Ext.toE_fin, EReal.coe_le_coe_iff]; push_cast; linarith
      · simp [castL, subR, dotR]
        ring

end Ibex.C20
