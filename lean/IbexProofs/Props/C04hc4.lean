/-
  C04 (model half) — the HC4Revise model `HC4.revise` is a contractor for the constraint
  `root(dag) ∈ rhs`, over the reals, for every scalar DAG of the supported fragment
  (var const add sub mul div max min minus sqr sqrt abs sign pow1 pow2; any size, any sharing of
  sub-expressions, aliased arguments such as x*x included), every box, every right-hand side:

  * `hc4_sub`    the returned box is inside the input box;
  * `hc4_keeps`  a point of the box whose node values put the root in `rhs` is never lost
                 (the answer is not `empty`, and a returned box contains the point).

  Together with the run-time check `HC4.reviseOk` (the output `out` of the real contractor contains
  the model's box and is inside the input) this gives `accepted_hc4_keeps`: an accepted output of
  the library keeps every feasible point.  Proofs: IbexProofs/HC4.lean.
-/
import IbexProofs.HC4
import IbexProofs.CtcAbstract

namespace Ibex.C04
open Ibex Ibex.Ctc

/-- contraction: the box computed by the model is inside the input box -/
theorem hc4_sub {dag : Dag} {rhs : Itv} {box b : List Itv} (h : HC4.revise dag rhs box = .box b) :
    ∀ p, Box.Mem p b → Box.Mem p box :=
  HC4.revise_sub h

/-- no feasible point is lost: `p ∈ box`, `vals` = real values of the nodes at `p`, root value in
    `rhs` ⇒ the model does not answer `empty` and its box contains `p` -/
theorem hc4_keeps {dag : Dag} {rhs : Itv} {box : List Itv} {p : List ℝ} {vals : Array ℝ} {t : ℝ}
    (hp : Box.Mem p box) (hs : HC4.Sem dag p vals) (hroot : vals.back? = some t) (ht : t ∈ rhs) :
    HC4.revise dag rhs box ≠ .empty ∧ ∀ b, HC4.revise dag rhs box = .box b → Box.Mem p b :=
  HC4.revise_keeps hp hs hroot ht

/-- the feasible set of the constraint `root(dag) ∈ rhs` -/
def Feasible (dag : Dag) (rhs : Itv) : Set Pt :=
  {p | ∃ (vals : Array ℝ) (t : ℝ), HC4.Sem dag p vals ∧ vals.back? = some t ∧ t ∈ rhs}

/-- an accepted `hc4` line of the driver (`reviseOk`: the library's output contains the model's box)
    on a supported DAG: the library's output keeps every feasible point of the input box -/
theorem accepted_hc4_keeps {dag : Dag} {rhs : Itv} {x out : Box}
    (h : HC4.reviseOk dag rhs x out = true) (hsup : HC4.revise dag rhs x ≠ .unsupported)
    {p : List ℝ} (hp : Box.Mem p x) (hf : p ∈ Feasible dag rhs) : Box.Mem p out := by
  obtain ⟨vals, t, hs, hroot, ht⟩ := hf
  obtain ⟨hne, hk⟩ := hc4_keeps (rhs := rhs) hp hs hroot ht
  unfold HC4.reviseOk at h
  simp only [Bool.and_eq_true] at h
  cases hr : HC4.revise dag rhs x with
  | unsupported => exact absurd hr hsup
  | empty => exact absurd hr hne
  | box m =>
    rw [hr] at h
    exact Box.subset_sound h.2 (hk m hr)

/-- the model as a function on boxes (`empty` ↦ a box of empty components, `unsupported` ↦ identity) -/
def reviseCtc (dag : Dag) (rhs : Itv) (x : Box) : Box :=
  match HC4.revise dag rhs x with
  | .box b => b
  | .empty => x.map fun _ => Itv.empty
  | .unsupported => x

theorem reviseCtc_sound (dag : Dag) (rhs : Itv) : Sound (reviseCtc dag rhs) (Feasible dag rhs) := by
  intro x p hp hf
  obtain ⟨vals, t, hs, hroot, ht⟩ := hf
  obtain ⟨hne, hk⟩ := hc4_keeps (rhs := rhs) hp hs hroot ht
  unfold reviseCtc
  cases hr : HC4.revise dag rhs x with
  | unsupported => exact hp
  | empty => exact absurd hr hne
  | box m => exact hk m hr

theorem reviseCtc_contracting (dag : Dag) (rhs : Itv) : Contracting (reviseCtc dag rhs) := by
  intro x p hp
  unfold reviseCtc at hp
  cases hr : HC4.revise dag rhs x with
  | unsupported => rw [hr] at hp; exact hp
  | empty =>
    rw [hr] at hp
    simp only [] at hp
    cases x with
    | nil => exact hp
    | cons I xs =>
      cases p with
      | nil => cases hp
      | cons t ps => exact absurd (Box.mem_cons.1 hp).1 (Itv.not_mem_empty t)
  | box m => rw [hr] at hp; exact hc4_sub hr p hp

/-! ### non-vacuity -/

private def I (a b : Rat) : Itv := .mk (.fin a) (.fin b)
private def sc (k : NodeK) : Node := ⟨k, 1, 1⟩

/-- x + y -/
private def exDag : Dag := #[sc (.var 0), sc (.var 1), sc (.bin "add" 0 1)]

-- x + y = 1 on [0,2]² is contracted to [0,1]²
example : (HC4.revise exDag (I 1 1) [I 0 2, I 0 2] == .box [I 0 1, I 0 1]) = true := by decide +kernel
-- x + y = 5 on [0,2]² has no solution
example : (HC4.revise exDag (I 5 5) [I 0 2, I 0 2] == .empty) = true := by decide +kernel

/-- the node values of x + y at the point (1/4, 3/4) -/
private theorem exSem : HC4.Sem exDag [1/4, 3/4] #[1/4, 3/4, 1] := by
  refine ⟨rfl, fun i h => ?_⟩
  have h3 : i < 3 := h
  rcases i with _ | _ | _ | i
  · simp [exDag, sc, HC4.NodeSem]
  · simp [exDag, sc, HC4.NodeSem]
  · simp only [exDag, sc, HC4.NodeSem]
    norm_num
  · omega

/-- so the theorem applies: the feasible point (1/4, 3/4) is in whatever box the model returns -/
example : ∀ b, HC4.revise exDag (I 1 1) [I 0 2, I 0 2] = .box b → Box.Mem [1/4, 3/4] b := by
  have hp : Box.Mem [1/4, 3/4] [I 0 2, I 0 2] := by
    refine Box.mem_cons.2 ⟨?_, Box.mem_cons.2 ⟨?_, Box.mem_nil⟩⟩ <;>
      simp only [I, Itv.mem_mk, Ext.toE_fin, EReal.coe_le_coe_iff] <;> norm_num
  have ht : (1 : ℝ) ∈ I 1 1 := by
    simp only [I, Itv.mem_mk, Ext.toE_fin, EReal.coe_le_coe_iff]; norm_num
  exact (hc4_keeps hp exSem (t := 1) (by simp) ht).2

/-- shared sub-expression with an aliased argument: x*x − y (node 2 = mul 0 0) -/
private def exDag2 : Dag := #[sc (.var 0), sc (.var 1), sc (.bin "mul" 0 0), sc (.bin "sub" 2 1)]

example : (HC4.revise exDag2 (I 0 0) [I 1 2, I 0 2] == .box [I 1 2, I 1 2]) = true := by decide +kernel
example : (HC4.revise exDag2 (I 0 0) [I 3 4, I 0 2] == .empty) = true := by decide +kernel

/-- max(√(x/y), |x|) ∈ [1,2] on [−4,4]×[1,2]: division, square root, absolute value, max -/
private def exDag3 : Dag :=
  #[sc (.var 0), sc (.var 1), sc (.bin "div" 0 1), sc (.un "sqrt" 2), sc (.un "abs" 0), sc (.bin "max" 3 4)]

example : (HC4.revise exDag3 (I 1 2) [I (-4) 4, I 1 2] == .box [I 0 2, I 1 2]) = true := by decide +kernel

end Ibex.C04
