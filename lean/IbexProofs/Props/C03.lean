/-
  C03 — backward (projection) operators: an output accepted by the exact checker is a sound
  contraction.

  The driver runs the Boolean checkers `Bwd.addOk … Bwd.powOk`, `Bwd.sampleOk` of
  `IbexModel/Bwd.lean` on the outputs (x₁', x₂', flag) of the implementation's `bwd_*`
  functions.  The theorems say what acceptance means over the reals, for all intervals (any
  extended bounds, empty included) and all real tuples:

  * contraction      : every point of x' is a point of x;
  * no loss          : every consistent tuple (vᵢ ∈ xᵢ with op(v₁,v₂) ∈ y) is in x₁' × x₂';
  * honest flag      : `flag = false` only if there is no consistent tuple.

  A checker that accepted a lossy output would make the "no loss" clause false, so these theorems
  are exactly the statement that no checker is too lax.  (That the checkers are not too strict,
  i.e. that the projections are the tightest closed hulls, is not claimed here; it is exercised
  by the run-time agreement with the implementation.)
-/
import IbexProofs.Bwd

namespace Ibex.C03
open Ibex

/-! ### binary operators -/

theorem add_sound {y x1 x2 x1' x2' : Itv} {flag : Bool} (h : Bwd.addOk y x1 x2 x1' x2' flag = true) :
    (∀ v : ℝ, v ∈ x1' → v ∈ x1) ∧ (∀ v : ℝ, v ∈ x2' → v ∈ x2) ∧
    (∀ v1 v2 : ℝ, v1 ∈ x1 → v2 ∈ x2 → v1 + v2 ∈ y → v1 ∈ x1' ∧ v2 ∈ x2') ∧
    (flag = false → ¬ ∃ v1 v2 : ℝ, v1 ∈ x1 ∧ v2 ∈ x2 ∧ v1 + v2 ∈ y) := Bwd.add_sound h

theorem sub_sound {y x1 x2 x1' x2' : Itv} {flag : Bool} (h : Bwd.subOk y x1 x2 x1' x2' flag = true) :
    (∀ v : ℝ, v ∈ x1' → v ∈ x1) ∧ (∀ v : ℝ, v ∈ x2' → v ∈ x2) ∧
    (∀ v1 v2 : ℝ, v1 ∈ x1 → v2 ∈ x2 → v1 - v2 ∈ y → v1 ∈ x1' ∧ v2 ∈ x2') ∧
    (flag = false → ¬ ∃ v1 v2 : ℝ, v1 ∈ x1 ∧ v2 ∈ x2 ∧ v1 - v2 ∈ y) := Bwd.sub_sound h

theorem mul_sound {y x1 x2 x1' x2' : Itv} {flag : Bool} (h : Bwd.mulOk y x1 x2 x1' x2' flag = true) :
    (∀ v : ℝ, v ∈ x1' → v ∈ x1) ∧ (∀ v : ℝ, v ∈ x2' → v ∈ x2) ∧
    (∀ v1 v2 : ℝ, v1 ∈ x1 → v2 ∈ x2 → v1 * v2 ∈ y → v1 ∈ x1' ∧ v2 ∈ x2') ∧
    (flag = false → ¬ ∃ v1 v2 : ℝ, v1 ∈ x1 ∧ v2 ∈ x2 ∧ v1 * v2 ∈ y) := Bwd.mul_sound h

/-- y = x₁ / x₂ : a tuple is consistent when v₂ ≠ 0 and v₁ / v₂ ∈ y -/
theorem div_sound {y x1 x2 x1' x2' : Itv} {flag : Bool} (h : Bwd.divOk y x1 x2 x1' x2' flag = true) :
    (∀ v : ℝ, v ∈ x1' → v ∈ x1) ∧ (∀ v : ℝ, v ∈ x2' → v ∈ x2) ∧
    (∀ v1 v2 : ℝ, v1 ∈ x1 → v2 ∈ x2 → v2 ≠ 0 → v1 / v2 ∈ y → v1 ∈ x1' ∧ v2 ∈ x2') ∧
    (flag = false → ¬ ∃ v1 v2 : ℝ, v1 ∈ x1 ∧ v2 ∈ x2 ∧ v2 ≠ 0 ∧ v1 / v2 ∈ y) := by
  obtain ⟨a, b, c, d⟩ := Bwd.div_sound h
  exact ⟨a, b, fun v1 v2 m1 m2 h0 hy => c v1 v2 m1 m2 ⟨h0, hy⟩, d⟩

theorem max_sound {y x1 x2 x1' x2' : Itv} {flag : Bool} (h : Bwd.maxOk y x1 x2 x1' x2' flag = true) :
    (∀ v : ℝ, v ∈ x1' → v ∈ x1) ∧ (∀ v : ℝ, v ∈ x2' → v ∈ x2) ∧
    (∀ v1 v2 : ℝ, v1 ∈ x1 → v2 ∈ x2 → Max.max v1 v2 ∈ y → v1 ∈ x1' ∧ v2 ∈ x2') ∧
    (flag = false → ¬ ∃ v1 v2 : ℝ, v1 ∈ x1 ∧ v2 ∈ x2 ∧ Max.max v1 v2 ∈ y) := Bwd.max_sound h

theorem min_sound {y x1 x2 x1' x2' : Itv} {flag : Bool} (h : Bwd.minOk y x1 x2 x1' x2' flag = true) :
    (∀ v : ℝ, v ∈ x1' → v ∈ x1) ∧ (∀ v : ℝ, v ∈ x2' → v ∈ x2) ∧
    (∀ v1 v2 : ℝ, v1 ∈ x1 → v2 ∈ x2 → Min.min v1 v2 ∈ y → v1 ∈ x1' ∧ v2 ∈ x2') ∧
    (flag = false → ¬ ∃ v1 v2 : ℝ, v1 ∈ x1 ∧ v2 ∈ x2 ∧ Min.min v1 v2 ∈ y) := Bwd.min_sound h

/-! ### unary operators -/

/-- y = √x : a value is consistent when 0 ≤ v and √v ∈ y -/
theorem sqrt_sound {y x x' : Itv} {flag : Bool} (h : Bwd.sqrtOk y x x' flag = true) :
    (∀ v : ℝ, v ∈ x' → v ∈ x) ∧
    (∀ v : ℝ, v ∈ x → 0 ≤ v → Real.sqrt v ∈ y → v ∈ x') ∧
    (flag = false → ¬ ∃ v : ℝ, v ∈ x ∧ 0 ≤ v ∧ Real.sqrt v ∈ y) := by
  obtain ⟨a, b, c⟩ := Bwd.sqrt_sound h
  exact ⟨a, fun v m h0 hy => b v m ⟨h0, hy⟩, c⟩

theorem abs_sound {y x x' : Itv} {flag : Bool} (h : Bwd.absOk y x x' flag = true) :
    (∀ v : ℝ, v ∈ x' → v ∈ x) ∧ (∀ v : ℝ, v ∈ x → |v| ∈ y → v ∈ x') ∧
    (flag = false → ¬ ∃ v : ℝ, v ∈ x ∧ |v| ∈ y) := Bwd.abs_sound h

theorem sign_sound {y x x' : Itv} {flag : Bool} (h : Bwd.signOk y x x' flag = true) :
    (∀ v : ℝ, v ∈ x' → v ∈ x) ∧ (∀ v : ℝ, v ∈ x → (SignType.sign v : ℝ) ∈ y → v ∈ x') ∧
    (flag = false → ¬ ∃ v : ℝ, v ∈ x ∧ (SignType.sign v : ℝ) ∈ y) := Bwd.sign_sound h

theorem floor_sound {y x x' : Itv} {flag : Bool} (h : Bwd.floorOk y x x' flag = true) :
    (∀ v : ℝ, v ∈ x' → v ∈ x) ∧ (∀ v : ℝ, v ∈ x → ((⌊v⌋ : ℤ) : ℝ) ∈ y → v ∈ x') ∧
    (flag = false → ¬ ∃ v : ℝ, v ∈ x ∧ ((⌊v⌋ : ℤ) : ℝ) ∈ y) := Bwd.floor_sound h

theorem ceil_sound {y x x' : Itv} {flag : Bool} (h : Bwd.ceilOk y x x' flag = true) :
    (∀ v : ℝ, v ∈ x' → v ∈ x) ∧ (∀ v : ℝ, v ∈ x → ((⌈v⌉ : ℤ) : ℝ) ∈ y → v ∈ x') ∧
    (flag = false → ¬ ∃ v : ℝ, v ∈ x ∧ ((⌈v⌉ : ℤ) : ℝ) ∈ y) := Bwd.ceil_sound h

/-- y = xⁿ for every n ≥ 1 (even and odd) -/
theorem pow_sound {n : ℕ} (hn : 1 ≤ n) {y x x' : Itv} {flag : Bool}
    (h : Bwd.powOk n y x x' flag = true) :
    (∀ v : ℝ, v ∈ x' → v ∈ x) ∧ (∀ v : ℝ, v ∈ x → v ^ n ∈ y → v ∈ x') ∧
    (flag = false → ¬ ∃ v : ℝ, v ∈ x ∧ v ^ n ∈ y) := Bwd.pow_sound hn h

/-! ### point-sample rule (operators decided by an external point oracle) -/

/-- a rational sample `q` whose image enclosure `fv` is non-empty and inside `y` must be in `x'` -/
theorem sampleOk_sound {y fv x' : Itv} {q : Rat} (h : Bwd.sampleOk y fv (.fin q) x' = true)
    (hsub : Itv.subset fv y = true) (hne : fv ≠ .empty) : (q : ℝ) ∈ x' :=
  Bwd.sampleOk_sound h hsub hne

/-- semantic form: if `fq` (the image of `q`) lies in `fv` and `fv ⊆ y`, then `q` is consistent
    (`fq ∈ y`) and an accepted `x'` contains it -/
theorem sampleOk_sound' {y fv x' : Itv} {q : Rat} {fq : ℝ} (h : Bwd.sampleOk y fv (.fin q) x' = true)
    (hsub : Itv.subset fv y = true) (hfq : fq ∈ fv) : fq ∈ y ∧ (q : ℝ) ∈ x' :=
  Bwd.sampleOk_sound' h hsub hfq

/-! ### the enclosures the proofs rest on: generic operators under any sound rounding -/

theorem dbl_sound : Rnd.dbl.Sound := Rnd.dbl_sound
theorem exact_sound : Rnd.exact.Sound := Rnd.exact_sound
theorem addG_encl {r : Rnd} (hr : r.Sound) {X Y : Itv} {x y : ℝ} (hx : x ∈ X) (hy : y ∈ Y) :
    x + y ∈ Itv.addG r X Y := Itv.addG_encl hr hx hy
theorem subG_encl {r : Rnd} (hr : r.Sound) {X Y : Itv} {x y : ℝ} (hx : x ∈ X) (hy : y ∈ Y) :
    x - y ∈ Itv.subG r X Y := Itv.subG_encl hr hx hy
theorem mulG_encl {r : Rnd} (hr : r.Sound) {X Y : Itv} {x y : ℝ} (hx : x ∈ X) (hy : y ∈ Y) :
    x * y ∈ Itv.mulG r X Y := Itv.mulG_encl hr hx hy
theorem divG_encl {r : Rnd} (hr : r.Sound) {X Y : Itv} {x y : ℝ} (hx : x ∈ X) (hy : y ∈ Y)
    (hy0 : y ≠ 0) : x / y ∈ Itv.divG r X Y := Itv.divG_encl hr hx hy hy0
theorem sqrG_encl {r : Rnd} (hr : r.Sound) {X : Itv} {x : ℝ} (hx : x ∈ X) :
    x * x ∈ Itv.sqrG r X := Itv.sqrG_encl hr hx
theorem powNatG_encl {r : Rnd} (hr : r.Sound) {X : Itv} {x : ℝ} (n : ℕ) (hx : x ∈ X) :
    x ^ n ∈ Itv.powNatG r X n := Itv.powNatG_encl hr n hx

/-! ### non-vacuity: each checker accepts a correct contraction and rejects a lossy one -/

/-- [a,b] with rational bounds -/
private def I (a b : Rat) : Itv := .mk (.fin a) (.fin b)

-- add: y=[3,4], x1=[0,10], x2=[1,2]  ⇒  x1 ∈ [1,3]
example : Bwd.addOk (I 3 4) (I 0 10) (I 1 2) (I 1 3) (I 1 2) true = true := by decide +kernel
example : Bwd.addOk (I 3 4) (I 0 10) (I 1 2) (I 2 3) (I 1 2) true = false := by decide +kernel
example : Bwd.addOk (I 3 4) (I 0 10) (I 1 2) (I 1 3) (I 1 2) false = false := by decide +kernel
example : Bwd.addOk (I 100 200) (I 0 1) (I 0 1) .empty .empty false = true := by decide +kernel
-- sub: y=[0,1], x1=[0,10], x2=[2,3]  ⇒  x1 ∈ [2,4]
example : Bwd.subOk (I 0 1) (I 0 10) (I 2 3) (I 2 4) (I 2 3) true = true := by decide +kernel
example : Bwd.subOk (I 0 1) (I 0 10) (I 2 3) (I 2 3) (I 2 3) true = false := by decide +kernel
-- mul: y=[1,2], x1=[-10,10], x2=[0,1]  ⇒  x1 ∈ [1,10], x2 ∈ [1/10,1]
example : Bwd.mulOk (I 1 2) (I (-10) 10) (I 0 1) (I 1 10) (I (1/10) 1) true = true := by decide +kernel
example : Bwd.mulOk (I 1 2) (I (-10) 10) (I 0 1) (I 1 10) (I (1/5) 1) true = false := by decide +kernel
-- mul: 0 is only a non-attained limit of y/x2 (x2 unbounded): x1=[-5,0] has no consistent value
example : Bwd.mulOk (I 1 2) (I (-5) 0) (.mk (.fin 0) .pinf) .empty .empty false = true := by decide +kernel
-- mul: 0 ∈ y and 0 ∈ x2: nothing can be removed from x1
example : Bwd.mulOk (I 0 2) (I (-5) 5) (I 0 1) (I (-5) 5) (I 0 1) true = true := by decide +kernel
example : Bwd.mulOk (I 0 2) (I (-5) 5) (I 0 1) (I 0 5) (I 0 1) true = false := by decide +kernel
-- div: y=[1,2], x1=[2,4], x2=[-10,10]  ⇒  x2 ∈ [1,4]
example : Bwd.divOk (I 1 2) (I 2 4) (I (-10) 10) (I 2 4) (I 1 4) true = true := by decide +kernel
example : Bwd.divOk (I 1 2) (I 2 4) (I (-10) 10) (I 2 4) (I 2 4) true = false := by decide +kernel
example : Bwd.divOk (I 1 2) (I 2 4) (I 0 0) .empty .empty false = true := by decide +kernel
-- sqrt: y=[1,2], x=[0,10]  ⇒  x ∈ [1,4]
example : Bwd.sqrtOk (I 1 2) (I 0 10) (I 1 4) true = true := by decide +kernel
example : Bwd.sqrtOk (I 1 2) (I 0 10) (I 1 3) true = false := by decide +kernel
-- abs: y=[1,2], x=[-5,3/2]  ⇒  x ∈ [-2,3/2]
example : Bwd.absOk (I 1 2) (I (-5) (3/2)) (I (-2) (3/2)) true = true := by decide +kernel
example : Bwd.absOk (I 1 2) (I (-5) (3/2)) (I (-1) (3/2)) true = false := by decide +kernel
-- max: y=[3,4], x1=[0,10], x2=[0,1]  ⇒  x1 ∈ [3,4]
example : Bwd.maxOk (I 3 4) (I 0 10) (I 0 1) (I 3 4) (I 0 1) true = true := by decide +kernel
example : Bwd.maxOk (I 3 4) (I 0 10) (I 0 1) (I (7/2) 4) (I 0 1) true = false := by decide +kernel
-- min: y=[3,4], x1=[0,10], x2=[5,6]  ⇒  x1 ∈ [3,4]
example : Bwd.minOk (I 3 4) (I 0 10) (I 5 6) (I 3 4) (I 5 6) true = true := by decide +kernel
example : Bwd.minOk (I 3 4) (I 0 10) (I 5 6) (I 3 (7/2)) (I 5 6) true = false := by decide +kernel
-- sign: y={1}, x=[-2,3]  ⇒  x ∈ [0,3] (closed hull of (0,3])
example : Bwd.signOk (I 1 1) (I (-2) 3) (I 0 3) true = true := by decide +kernel
example : Bwd.signOk (I 1 1) (I (-2) 3) (I 1 3) true = false := by decide +kernel
-- floor: y=[1,2], x=[-5,5]  ⇒  x ∈ [1,3];  ceil: x ∈ [0,2]
example : Bwd.floorOk (I 1 2) (I (-5) 5) (I 1 3) true = true := by decide +kernel
example : Bwd.floorOk (I 1 2) (I (-5) 5) (I 1 2) true = false := by decide +kernel
example : Bwd.ceilOk (I 1 2) (I (-5) 5) (I 0 2) true = true := by decide +kernel
example : Bwd.ceilOk (I 1 2) (I (-5) 5) (I 1 2) true = false := by decide +kernel
-- pow: x² ∈ [4,9], x ∈ [-10,10]  ⇒  the hull [-3,3] must be kept;  x³ ∈ [8,27]  ⇒  [2,3]
example : Bwd.powOk 2 (I 4 9) (I (-10) 10) (I (-3) 3) true = true := by decide +kernel
example : Bwd.powOk 2 (I 4 9) (I (-10) 10) (I (-3) 2) true = false := by decide +kernel
example : Bwd.powOk 2 (I 4 9) (I (-10) 10) (I (-2) 3) true = false := by decide +kernel
example : Bwd.powOk 2 (I (-2) (-1)) (I (-10) 10) .empty false = true := by decide +kernel
example : Bwd.powOk 2 (I 4 9) (I (-10) 10) (I (-3) 3) false = false := by decide +kernel
example : Bwd.powOk 3 (I 8 27) (I (-10) 10) (I 2 3) true = true := by decide +kernel
example : Bwd.powOk 3 (I 8 27) (I (-10) 10) (I (5/2) 3) true = false := by decide +kernel
example : Bwd.powOk 3 (I (-27) (-8)) (.mk .ninf .pinf) (I (-3) (-2)) true = true := by decide +kernel
-- sample rule: f(2) ∈ [1/5,3/10] ⊆ y=[0,1]: the sample 2 must be kept
example : Bwd.sampleOk (I 0 1) (I (1/5) (3/10)) (.fin 2) (I 1 3) = true := by decide +kernel
example : Bwd.sampleOk (I 0 1) (I (1/5) (3/10)) (.fin 2) (I (5/2) 3) = false := by decide +kernel

end Ibex.C03
