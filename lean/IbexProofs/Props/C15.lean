/-
  C15 — interval linear algebra encloses every real instance; certificates are sound.

  Real vectors / matrices are lists (`List ℝ`, rows); `VMem x X`, `MMem a A`: component-wise
  membership in an interval vector / matrix; `Solves a b x`: `a·x = b` row by row.
  The models and checkers are those of `IbexModel/LinAlg.lean`, run by the driver on the outputs of the
  C++ routines of `ibex_Linear.cpp` (see `Driver/OpsLinAlg.lean`).

  (a) linear systems
      * `gs_row_sound`, `gauss_seidel_sound` : the model of ibex's Gauss–Seidel (row loop, `r % n` rule for
        rectangular systems, relational division, tightest outward rounding) keeps every solution, for any
        number of sweeps, any shape, any intervals (unbounded, zero-straddling pivots, …);
      * `gs_accept`   : an implementation result that contains the model's result keeps every solution of
        every real instance `(a, b)` of `([A],[b])` lying in the starting box;
      * `inflating_gs_sound` : same for the inflating variant (no intersection), any number of sweeps;
      * `precond_sound` : multiplying by ANY real matrix keeps the solutions; `precond_accept` : acceptance
        of a preconditioned pair `(A',b')`;
      * `planted_violation`, `sigma_reject_sound` : the point rules used on planted instances are exact.
  (b) certificates
      * `diag_dominant_sound`, `diag_dominant_regular`;
      * `det_vertices_regular` : regularity of every instance from the vertex determinants;
      * `strong_regularity_certificate`, `full_rank_by_minor_vertices`, `full_rank_by_minor_beta` : regularity /
        full rank of every instance from `‖I − C[A]‖∞ < 1` or from a square sub-matrix;
      * `posdef_certificate` : positive definiteness of every instance from an exact `L D Lᵀ` certificate;
      * `kernel_certificate`, `quad_certificate` : witnesses shown with a FAIL verdict are genuine.
  (c) enclosures
      * `detQ_eq_det` : the executable determinant is `Matrix.det`;
      * `det_vertices_sound` : an interval containing all vertex determinants contains the determinant of
        every real instance (the determinant is affine in each entry);
      * `inverse_certificate` : the inverse compared with the implementation's enclosure is the inverse.
-/
import IbexProofs.LinAlg
import IbexProofs.LinDet

namespace Ibex.C15
open Ibex Ibex.LinAlg Matrix

/-! ### (a) Gauss–Seidel -/

/-- one row projection `x_i ← x_i ∩ (b_r − Σ_{j≠i} A_rj·x_j) ⊘ A_ri` keeps every solution -/
theorem gs_row_sound {row : IVec} {br : Itv} {X : IVec} {a : RVec} {b : ℝ} {x : RVec} (i : Nat)
    (ha : VMem a row) (hb : b ∈ br) (hx : VMem x X) (heq : dotR a x = b) :
    VMem x (rowStep row br X i) := rowStep_sound i ha hb hx heq

/-- any number of sweeps over all the rows (square or rectangular system) keeps every solution -/
theorem gauss_seidel_sound {A : IMat} {B X : IVec} {a : RMat} {b x : RVec} (fuel : Nat)
    (ha : MMem a A) (hb : VMem b B) (hx : VMem x X) (hs : Solves a b x) :
    VMem x (gsIter fuel A B X).1 := gsIter_sound ha hb hs fuel hx

/-- acceptance: the implementation's box `impl` contains the model's box ⇒ for ALL real instances
    `a ∈ [A]`, `b ∈ [b]` and all `x ∈ [x]` with `a·x = b`: `x ∈ impl`. -/
theorem gs_accept {fuel : Nat} {A : IMat} {B X impl : IVec} (h : gsOk fuel A B X impl = true)
    {a : RMat} {b x : RVec} (ha : MMem a A) (hb : VMem b B) (hx : VMem x X) (hs : Solves a b x) :
    VMem x impl := (gsIter_sound ha hb hs fuel hx).of_subset h

/-- the inflating variant: solutions contained in the starting box stay in every iterate -/
theorem inflating_gs_sound {A : IMat} {B X : IVec} {a : RMat} {b x : RVec} (k : Nat)
    (ha : MMem a A) (hb : VMem b B) (hx : VMem x X) (hs : Solves a b x) :
    VMem x (inflIter k A B X) := inflIter_sound ha hb hs k hx

/-- acceptance for the inflating variant: the implementation's box contains the model's iterate after
    some number of sweeps ⇒ it contains every solution (of every real instance) of the starting box -/
theorem inflating_gs_accept {fuel : Nat} {A : IMat} {B X impl : IVec} (h : inflOk fuel A B X impl = true)
    {a : RMat} {b x : RVec} (ha : MMem a A) (hb : VMem b B) (hx : VMem x X) (hs : Solves a b x) :
    VMem x impl := inflOk_sound ha hb hs fuel hx h

/-! ### (a) preconditioning -/

/-- for ANY real matrix `C` (no regularity needed): `a·x = b ⇒ (C·a)·x = C·b` -/
theorem precond_sound (n : Nat) (C : List (List ℝ)) {a : RMat} {b x : RVec} (hn : ∀ r ∈ a, r.length = n)
    (h : Solves a b x) : Solves (mulRR n C a) (mulRV C b) x := precond_real n C hn h

/-- acceptance of the implementation's `(A', b')` against the model products `C·[A]`, `C·[b]` -/
theorem precond_accept {n : Nat} {C : QMat} {A A' : IMat} {B B' : IVec} (hn : ∀ R ∈ A, R.length = n)
    (hok : precondOk n C A B A' B' = true) {a : RMat} {b x : RVec}
    (ha : MMem a A) (hb : VMem b B) (hs : Solves a b x) :
    ∃ a' b', MMem a' A' ∧ VMem b' B' ∧ Solves a' b' x := precondOk_sound hn hok ha hb hs

/-! ### (a) point rules on planted instances -/

/-- a planted instance accepted by the driver (`A_k ∈ [A]`, `A_k x_k ∈ [b]`, `x_k ∈ [x]`) whose point
    is not in the returned box IS a violation: a real instance with a solution outside the result. -/
theorem planted_violation {A : IMat} {B X X' : IVec} {Ak : QMat} {xk : QVec}
    (hA : matIn Ak A = true) (hb : vecIn (mulVecQ Ak xk) B = true) (hx : vecIn xk X = true)
    (hout : vecIn xk X' = false) :
    ∃ (a : RMat) (b x : RVec), MMem a A ∧ VMem b B ∧ VMem x X ∧ Solves a b x ∧ ¬ VMem x X' :=
  ⟨castM Ak, castV (mulVecQ Ak xk), castV xk, matIn_iff.1 hA, vecIn_iff.1 hb, vecIn_iff.1 hx,
    solves_mulVecQ Ak xk, fun h => by rw [vecIn_iff.2 h] at hout; exact absurd hout (by simp)⟩

/-- a point rejected by the exact Oettli–Prager test solves no instance of `([A'],[b'])` -/
theorem sigma_reject_sound {A : IMat} {B : IVec} {x : QVec} (h : sigmaMem A B x = false) :
    ¬ ∃ (a : RMat) (b : RVec), MMem a A ∧ VMem b B ∧ Solves a b (castV x) := by
  rintro ⟨a, b, ha, hb, hs⟩
  rw [sigmaMem_of_solution ha hb hs] at h
  exact absurd h (by simp)

/-! ### (b) certificates -/

/-- `is_diagonal_dominant` may answer `true` only when the exact test holds; then every real matrix of
    `[A]` is strictly diagonally dominant by rows -/
theorem diag_dominant_sound {A : IMat} (h : ddOk A = true) {a : RMat} (ha : MMem a A) : SDDRows 0 a :=
  ddRows_sound ha 0 h

/-- … and regular (Gershgorin) -/
theorem diag_dominant_regular {n : Nat} {A : IMat} (h : ddOk A = true) (hlen : A.length = n)
    (hrow : ∀ R ∈ A, R.length = n) {a : RMat} (ha : MMem a A) : (toMat n n a).det ≠ 0 := by
  apply sdd_det_ne_zero
  · rw [← hlen]; exact List.Forall₂.length_eq ha
  · intro r hr; exact le_of_eq (ha.row_length hrow r hr)
  · exact diag_dominant_sound h ha

/-- regularity of EVERY real instance from the exact determinants of the vertex matrices -/
theorem det_vertices_regular {n : Nat} {A : IMat} {vs : List QMat}
    (hvs : matVertices A = some vs) (hchk : detVerticesSameSign n vs = true)
    {a : RMat} (ha : MMem a A) : (toMat n n a).det ≠ 0 := LinAlg.det_vertices_regular hvs hchk ha

/-- regularity of EVERY real instance from the exact test `‖I − C·[A]‖∞ < 1` (any rational `C`) -/
theorem strong_regularity_certificate {n : Nat} {C : QMat} {A : IMat} (hok : betaOk n C A = true)
    {a : RMat} (ha : MMem a A) (hlen : a.length = n) : (toMat n n a).det ≠ 0 := betaOk_sound hok ha hlen

/-- rectangular matrices: a square sub-matrix (rows `rs`, columns `cs`) whose vertex determinants have the
    same strict sign is regular in EVERY real instance, i.e. every instance has a non-zero minor of
    order `k` (full rank when `k = min m n`) -/
theorem full_rank_by_minor_vertices {k : Nat} {A : IMat} {rs cs : List Nat} {vs : List QMat}
    (hvs : matVertices (subI rs cs A) = some vs) (hchk : detVerticesSameSign k vs = true)
    {a : RMat} (ha : MMem a A) : (toMat k k (subR rs cs a)).det ≠ 0 :=
  LinAlg.det_vertices_regular hvs hchk (ha.sub rs cs)

/-- same with the strong-regularity test on the sub-matrix -/
theorem full_rank_by_minor_beta {A : IMat} {rs cs : List Nat} {C : QMat}
    (hok : betaOk rs.length C (subI rs cs A) = true) {a : RMat} (ha : MMem a A) :
    (toMat rs.length rs.length (subR rs cs a)).det ≠ 0 :=
  betaOk_sound hok (ha.sub rs cs) (by simp [subR])

/-- a witness printed with `FAIL rank-deficient-instance`: a non-zero vector of the kernel -/
theorem kernel_certificate {m n : Nat} {A : QMat} {v : QVec} (hm : A.length = m) (h : isNullVec n A v = true) :
    toVec n v ≠ 0 ∧ (toMat m n A).mulVec (toVec n v) = 0 := isNullVec_sound hm h

/-- for a square matrix the kernel witness means `det = 0` -/
theorem kernel_certificate_det {n : Nat} {A : QMat} {v : QVec} (hm : A.length = n) (h : isNullVec n A v = true) :
    (toMat n n A).det = 0 := by
  obtain ⟨h1, h2⟩ := isNullVec_sound hm h
  exact Matrix.exists_mulVec_eq_zero_iff.1 ⟨_, h1, h2⟩

/-- positive definiteness of EVERY real instance (`xᵀ a x > 0` for all `x ≠ 0`) from the exact certificate
    `A_c − (μ+ε)I = L·D·Lᵀ`, `D ≥ 0`, `μ ≥` every row and column sum of the radius matrix, `ε > 0` -/
theorem posdef_certificate {n : Nat} {A : IMat} {L : QMat} {d : List ℚ} {mu eps : ℚ}
    (hok : pdCertOk n A L d mu eps = true) {a : RMat} (ha : MMem a A) (x : Fin n → ℝ) (hx : x ≠ 0) :
    0 < ∑ i, ∑ j, x i * toMat n n a i j * x j := pdCertOk_sound hok ha x hx

/-- the certificate search of the driver only answers `true` with a verified certificate -/
theorem posdef_certificate_found {n : Nat} {A : IMat} (hok : pdCertFind n A = true) {a : RMat} (ha : MMem a A)
    (x : Fin n → ℝ) (hx : x ≠ 0) : 0 < ∑ i, ∑ j, x i * toMat n n a i j * x j := pdCertFind_sound hok ha x hx

/-- a witness printed with `FAIL instance-not-positive-definite`: `vᵀ A v ≤ 0` with `v ≠ 0` -/
theorem quad_certificate {n : Nat} {A : QMat} {v : QVec} (hA : A.length = n) (hv : v.length = n)
    (hq : quadQ A v ≤ 0) : toVec n v ⬝ᵥ (toMat n n A).mulVec (toVec n v) ≤ 0 := by
  rw [← quadQ_eq hA hv]; exact hq

/-! ### (c) determinant and inverse -/

/-- the executable Laplace expansion is the determinant (all sizes) -/
theorem detQ_eq_det (n : Nat) (A : List (List ℚ)) : detQ n A = (toMat n n A).det := LinAlg.detQ_eq_det n A

/-- `det([A])` accepted by vertex enumeration encloses the determinant of EVERY real instance -/
theorem det_vertices_sound {n : Nat} {A : IMat} {vs : List QMat} {lo hi : Ext}
    (hvs : matVertices A = some vs) (hchk : detVerticesIn n vs (.mk lo hi) = true)
    {a : RMat} (ha : MMem a A) : (toMat n n a).det ∈ Itv.mk lo hi := LinAlg.det_vertices_sound hvs hchk ha

/-- the matrix `B` compared with the returned enclosure satisfies `A·B = 1` -/
theorem inverse_certificate {n : Nat} {A B : QMat} (h : isInverse n A B = true) :
    toMat n n A * toMat n n B = 1 := isInverse_sound h

/-! ### non-vacuity -/

private def I (a b : Rat) : Itv := .mk (.fin a) (.fin b)
private def P (a : Rat) : Itv := .mk (.fin a) (.fin a)

-- 2x + [−1,1]y = [3,5], y = 1 on x ∈ [0,10], y ∈ [0,2]: Gauss–Seidel gives x ∈ [1/2, 5/2], y = 1
example : (gsIter 10 [[P 2, I (-1) 1], [P 0, P 1]] [I 3 5, P 1] [I 0 10, I 0 2]).1 = [I 1 3, P 1] := by
  decide +kernel
example : gsOk 10 [[P 2, I (-1) 1], [P 0, P 1]] [I 3 5, P 1] [I 0 10, I 0 2] [I 1 3, I 1 1] = true := by
  decide +kernel
-- a result that drops x = 3 (instance 2x − y = 5) is rejected
example : gsOk 10 [[P 2, I (-1) 1], [P 0, P 1]] [I 3 5, P 1] [I 0 10, I 0 2] [I 1 (5/2), I 1 1] = false := by
  decide +kernel
-- rectangular 3×2 system: rows 0 and 2 project on x₀ (r % n)
example : (gsSweep [[P 1, P 0], [P 0, P 1], [P 2, P 0]] [I 0 4, I 1 2, I 2 6] [I (-8) 8, I (-8) 8]) = [I 1 3, I 1 2] := by
  decide +kernel
-- preconditioning by C = diag(1/2, 1)
example : precondOk 2 [[1/2, 0], [0, 1]] [[I 2 4, I 0 2], [P 0, P 1]] [I 2 4, P 1]
    [[I 1 2, I 0 1], [P 0, P 1]] [I 1 2, P 1] = true := by decide +kernel
example : precondOk 2 [[1/2, 0], [0, 1]] [[I 2 4, I 0 2], [P 0, P 1]] [I 2 4, P 1]
    [[I 1 2, I 0 (1/2)], [P 0, P 1]] [I 1 2, P 1] = false := by decide +kernel
-- Oettli–Prager: (1,1) solves [1,2]x + y = 3 (a = 2), (3,1) does not
example : sigmaMem [[I 1 2, P 1]] [P 3] [1, 1] = true := by decide +kernel
example : sigmaMem [[I 1 2, P 1]] [P 3] [3, 1] = false := by decide +kernel
-- diagonal dominance
example : ddOk [[I 3 4, I (-1) 1, P 1], [P 0, I (-5) (-3), I 1 2], [P 1, P 1, I 3 3]] = true := by decide +kernel
example : ddOk [[I 2 4, I (-1) 1, P 1], [P 0, I (-5) (-3), I 1 2], [P 1, P 1, I 3 3]] = false := by decide +kernel
-- determinant of [[ [1,2], 1 ], [ 1, [3,4] ]] ranges over [2, 7]
example : matVertices [[I 1 2, P 1], [P 1, I 3 4]] = some [[[1, 1], [1, 3]], [[1, 1], [1, 4]], [[2, 1], [1, 3]], [[2, 1], [1, 4]]] := by
  decide +kernel
example : detVerticesIn 2 [[[1, 1], [1, 3]], [[1, 1], [1, 4]], [[2, 1], [1, 3]], [[2, 1], [1, 4]]] (I 2 7) = true := by decide +kernel
example : detVerticesIn 2 [[[1, 1], [1, 3]], [[1, 1], [1, 4]], [[2, 1], [1, 3]], [[2, 1], [1, 4]]] (I 2 6) = false := by decide +kernel
example : detVerticesSameSign 2 [[[1, 1], [1, 3]], [[1, 1], [1, 4]], [[2, 1], [1, 3]], [[2, 1], [1, 4]]] = true := by decide +kernel
example : (detQ 3 [[2, 0, 1], [1, 3, 2], [1, 1, 2]] == 6) = true := by decide +kernel
example : inverseQ 2 [[2, 1], [1, 1]] = some [[1, -1], [-1, 2]] := by decide +kernel
example : isInverse 2 [[2, 1], [1, 1]] [[1, -1], [-1, 2]] = true := by decide +kernel
example : isNullVec 2 [[1, 2], [2, 4]] [2, -1] = true := by decide +kernel
-- [[ [3,4], [−1,1] ], [ [−1,1], [3,4] ]]: centre diag(7/2), radii rows sum to 3/2; 7/2 − (3/2 + 1) = 1 = L D Lᵀ with L = I, D = I
example : pdCertOk 2 [[I 3 4, I (-1) 1], [I (-1) 1, I 3 4]] [[1, 0], [0, 1]] [1, 1] (3/2) 1 = true := by decide +kernel
example : pdCertOk 2 [[I 1 4, I (-1) 1], [I (-1) 1, I 3 4]] [[1, 0], [0, 1]] [1, 1] (3/2) 1 = false := by decide +kernel
example : betaOk 2 [[1/2, 0], [0, 1/4]] [[I (3/2) (5/2), I (-1/2) (1/2)], [I (-1) 1, I 3 5]] = true := by decide +kernel
example : betaOk 2 [[1/2, 0], [0, 1/4]] [[I 1 3, I (-1) 1], [I (-1) 1, I 3 5]] = false := by decide +kernel
example : notPDWitness 2 [[1, 2], [2, 1]] = some [-2, 1] := by decide +kernel

end Ibex.C15
