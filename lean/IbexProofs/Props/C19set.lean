/-
  C19, last sentence — "set pavings label a leaf inside/outside only if all its points are".

  Vocabulary (IbexModel/SetPaving.lean, IbexProofs/SetPaving.lean):
    `SE`                expression tree denoting a thick set [lo, hi] over exact leaves (unions of boxes with binary64
                        bounds; polynomial constraints; inverse images) through not / inter / union / thick / meet;
    `e.Lo p`, `e.Hi p`  the real point `p : List ℝ` is certainly in / possibly in the set (`SE.sem`);
    `Between e S`       `S` is one of the sets denoted by `e`:  lo ⊆ S ⊆ hi;
    `Box.Mem p b`       `p` belongs to the (closed) box `b`;  `SMem p b`: to its interior;  `NonFlat b`: no degenerate component;
    `seg t p m`         the point `p + t (m - p)`;
    `pavingOk iset e n leaves`   the executable checker run by the driver on the leaves printed by the real
                        `ibex::Set` / `ibex::SetInterval` (walked with a `SetVisitor`).

  Boundary convention.  The leaves of a paving are CLOSED boxes sharing faces, and the library computes differences of boxes
  up to closure (a degenerate piece is dropped): a label is a claim "up to the boundary", as for closed sets.
     YES leaf b :  (B) every point of b is possibly in the set            (b ⊆ hi; for a closed set: b ⊆ S)
                   (R) every point of b is the end of a segment, lying strictly inside b, of points certainly in the set
                       (b ⊆ closure(lo ∩ interior b))
     NO  leaf b :  (B) no point of b is certainly in the set              (b ∩ lo = ∅; for a closed set: b ∩ interior S = ∅)
                   (R) every point of b is the end of a segment, strictly inside b, of points certainly NOT in the set
     MAYBE leaf :  no claim.
  (B) is not required from i-sets (`SetInterval(box, MAYBE)` puts NO leaves in contact with the box).

  Part 1: what an accepted paving implies (all real points, any dimension, any number of leaves, any tree of set
          operations over exact leaves).   Part 2: the refuting rules (any expression).   Part 3: is_superset, Sep::separate,
          consistency of i-sets.   Part 4: the expression forms denote the operations they name.   Part 5: non-vacuity.
-/
import IbexProofs.SetPaving

namespace Ibex.C19.SetProps
open Ibex Ibex.SetPaving

/-- `S` is one of the sets denoted by the expression: every point certainly in is in `S`, every point of `S` is possibly in -/
def Between (e : SE) (S : Set Pt) : Prop := (∀ p, e.Lo p → p ∈ S) ∧ (∀ p, p ∈ S → e.Hi p)

/-- `T` contains the end point `p` of every segment whose other points `p + t (m - p)`, `0 < t ≤ 1`, are in `T`
    (true of every topologically closed set) -/
def SegClosed (T : Set Pt) : Prop :=
  ∀ (p : Pt) (m : RPt), m.length = p.length → (∀ t : ℝ, 0 < t → t ≤ 1 → seg t p m ∈ T) → p ∈ T

/-! ## Part 1 — accepted pavings -/

/-- the leaves cover the whole space (the bounding box a `Set` represents is ℝⁿ) -/
theorem leaves_cover {iset : Bool} {e : SE} {n : Nat} {leaves : List Leaf} (h : pavingOk iset e n leaves = true)
    (p : Pt) (hp : p.length = n) : ∃ L ∈ leaves, Box.Mem p L.box := (paving_sound h).1 p hp

/-- (B) for sets: every real point of a YES leaf is possibly in the set -/
theorem yes_leaf_possibly_in {e : SE} {n : Nat} {leaves : List Leaf} (h : pavingOk false e n leaves = true)
    {L : Leaf} (hL : L ∈ leaves) (hst : L.st = .yes) (p : Pt) (hp : Box.Mem p L.box) : e.Hi p := by
  have := ((paving_sound h).2 L hL).1 rfl p hp
  rwa [hst] at this

/-- (B) for sets: no real point of a NO leaf is certainly in the set -/
theorem no_leaf_not_certainly_in {e : SE} {n : Nat} {leaves : List Leaf} (h : pavingOk false e n leaves = true)
    {L : Leaf} (hL : L ∈ leaves) (hst : L.st = .no) (p : Pt) (hp : Box.Mem p L.box) : ¬ e.Lo p := by
  have := ((paving_sound h).2 L hL).1 rfl p hp
  rwa [hst] at this

/-- (R) sets and i-sets: every real point of a (non flat) YES leaf is the end of a segment lying strictly inside the leaf
    whose points are certainly in the set -/
theorem yes_leaf_limit {iset : Bool} {e : SE} {n : Nat} {leaves : List Leaf} (h : pavingOk iset e n leaves = true)
    {L : Leaf} (hL : L ∈ leaves) (hst : L.st = .yes) (hnf : NonFlat L.box) (p : Pt) (hp : Box.Mem p L.box) :
    ∃ m : RPt, m.length = p.length ∧ ∀ t : ℝ, 0 < t → t ≤ 1 → SMem (seg t p m) L.box ∧ e.Lo (seg t p m) := by
  have := ((paving_sound h).2 L hL).2 hnf p hp
  rwa [hst] at this

/-- (R) every real point of a (non flat) NO leaf is the end of a segment lying strictly inside the leaf whose points are
    certainly not in the set -/
theorem no_leaf_limit {iset : Bool} {e : SE} {n : Nat} {leaves : List Leaf} (h : pavingOk iset e n leaves = true)
    {L : Leaf} (hL : L ∈ leaves) (hst : L.st = .no) (hnf : NonFlat L.box) (p : Pt) (hp : Box.Mem p L.box) :
    ∃ m : RPt, m.length = p.length ∧ ∀ t : ℝ, 0 < t → t ≤ 1 → SMem (seg t p m) L.box ∧ ¬ e.Hi (seg t p m) := by
  have := ((paving_sound h).2 L hL).2 hnf p hp
  rwa [hst] at this

/-- YES leaf, any set `S` denoted by the expression that is closed along segments: EVERY real point of the leaf is in `S` -/
theorem yes_leaf_subset {iset : Bool} {e : SE} {n : Nat} {leaves : List Leaf} (h : pavingOk iset e n leaves = true)
    {S : Set Pt} (hS : Between e S) (hcl : SegClosed S)
    {L : Leaf} (hL : L ∈ leaves) (hst : L.st = .yes) (hnf : NonFlat L.box) (p : Pt) (hp : Box.Mem p L.box) : p ∈ S := by
  obtain ⟨m, hlen, hm⟩ := yes_leaf_limit h hL hst hnf p hp
  exact hcl p m hlen (fun t h0 h1 => hS.1 _ (hm t h0 h1).2)

/-- NO leaf, any set `S` denoted by the expression whose complement is closed along segments (`S` open): NO real point of
    the leaf is in `S`.  For any `S`: every point of the leaf is a limit of points outside `S` (`no_leaf_limit`), i.e. the
    leaf is disjoint from the interior of `S` -/
theorem no_leaf_disjoint {iset : Bool} {e : SE} {n : Nat} {leaves : List Leaf} (h : pavingOk iset e n leaves = true)
    {S : Set Pt} (hS : Between e S) (hop : SegClosed Sᶜ)
    {L : Leaf} (hL : L ∈ leaves) (hst : L.st = .no) (hnf : NonFlat L.box) (p : Pt) (hp : Box.Mem p L.box) : p ∉ S := by
  obtain ⟨m, hlen, hm⟩ := no_leaf_limit h hL hst hnf p hp
  exact hcl_compl hop p m hlen (fun t h0 h1 hin => (hm t h0 h1).2 (hS.2 _ hin))
where hcl_compl {T : Set Pt} (h : SegClosed Tᶜ) (p : Pt) (m : RPt) (hl : m.length = p.length)
    (hseg : ∀ t : ℝ, 0 < t → t ≤ 1 → seg t p m ∉ T) : p ∉ T := h p m hl hseg

/-- the points strictly inside a YES (NO) leaf reached by the segments are in (out of) EVERY set denoted by the expression -/
theorem leaf_limit_every_set {iset : Bool} {e : SE} {n : Nat} {leaves : List Leaf} (h : pavingOk iset e n leaves = true)
    {S : Set Pt} (hS : Between e S) {L : Leaf} (hL : L ∈ leaves) (hnf : NonFlat L.box) (p : Pt) (hp : Box.Mem p L.box) :
    (L.st = .yes → ∃ m : RPt, m.length = p.length ∧ ∀ t : ℝ, 0 < t → t ≤ 1 → SMem (seg t p m) L.box ∧ seg t p m ∈ S) ∧
    (L.st = .no → ∃ m : RPt, m.length = p.length ∧ ∀ t : ℝ, 0 < t → t ≤ 1 → SMem (seg t p m) L.box ∧ seg t p m ∉ S) := by
  refine ⟨fun hst => ?_, fun hst => ?_⟩
  · obtain ⟨m, hlen, hm⟩ := yes_leaf_limit h hL hst hnf p hp
    exact ⟨m, hlen, fun t h0 h1 => ⟨(hm t h0 h1).1, hS.1 _ (hm t h0 h1).2⟩⟩
  · obtain ⟨m, hlen, hm⟩ := no_leaf_limit h hL hst hnf p hp
    exact ⟨m, hlen, fun t h0 h1 => ⟨(hm t h0 h1).1, fun hin => (hm t h0 h1).2 (hS.2 _ hin)⟩⟩

/-- closed boxes are closed along segments (the hypothesis `SegClosed` of `yes_leaf_subset` is satisfiable) -/
theorem segClosed_itv {I : Itv} {x : ℝ} {q : Rat} (h : ∀ t : ℝ, 0 < t → t ≤ 1 → (x + t * ((q : ℝ) - x)) ∈ I) : x ∈ I := by
  cases I with
  | empty => exact absurd (h 1 one_pos le_rfl) (Itv.not_mem_empty _)
  | mk a b =>
    have h1 := (Itv.mem_mk _ _ _).1 (h 1 one_pos le_rfl)
    have hK : 0 < |(q : ℝ) - x| + 1 := by positivity
    -- a small parameter for a given margin d
    have small : ∀ d : ℝ, 0 < d → ∃ t : ℝ, 0 < t ∧ t ≤ 1 ∧ t * |(q : ℝ) - x| < d := by
      intro d hd
      refine ⟨min 1 (d / (2 * (|(q : ℝ) - x| + 1))), lt_min one_pos (by positivity), min_le_left _ _, ?_⟩
      have ht : min 1 (d / (2 * (|(q : ℝ) - x| + 1))) ≤ d / (2 * (|(q : ℝ) - x| + 1)) := min_le_right _ _
      have hpos : 0 ≤ min 1 (d / (2 * (|(q : ℝ) - x| + 1))) := le_of_lt (lt_min one_pos (by positivity))
      calc min 1 (d / (2 * (|(q : ℝ) - x| + 1))) * |(q : ℝ) - x|
          ≤ min 1 (d / (2 * (|(q : ℝ) - x| + 1))) * (|(q : ℝ) - x| + 1) := by
            exact mul_le_mul_of_nonneg_left (by linarith) hpos
        _ ≤ d / (2 * (|(q : ℝ) - x| + 1)) * (|(q : ℝ) - x| + 1) := mul_le_mul_of_nonneg_right ht hK.le
        _ = d / 2 := by field_simp
        _ < d := by linarith
    refine (Itv.mem_mk _ _ _).2 ⟨?_, ?_⟩
    · cases a with
      | ninf => exact bot_le
      | pinf => exact absurd h1.1 (by simp)
      | fin aa =>
        simp only [Ext.toE_fin, EReal.coe_le_coe_iff]
        by_contra hlt
        obtain ⟨t, h0, ht1, hsm⟩ := small (aa - x) (by linarith [not_le.1 hlt])
        have := ((Itv.mem_mk _ _ _).1 (h t h0 ht1)).1
        simp only [Ext.toE_fin, EReal.coe_le_coe_iff] at this
        have : t * ((q : ℝ) - x) ≤ t * |(q : ℝ) - x| := mul_le_mul_of_nonneg_left (le_abs_self _) h0.le
        linarith
    · cases b with
      | pinf => exact le_top
      | ninf => exact absurd h1.2 (by simp)
      | fin bb =>
        simp only [Ext.toE_fin, EReal.coe_le_coe_iff]
        by_contra hlt
        obtain ⟨t, h0, ht1, hsm⟩ := small (x - bb) (by linarith [not_le.1 hlt])
        have := ((Itv.mem_mk _ _ _).1 (h t h0 ht1)).2
        simp only [Ext.toE_fin, EReal.coe_le_coe_iff] at this
        have : -(t * |(q : ℝ) - x|) ≤ t * ((q : ℝ) - x) := by
          have := mul_le_mul_of_nonneg_left (neg_abs_le ((q : ℝ) - x)) h0.le
          linarith
        linarith

theorem segClosed_box (b : Box) : SegClosed {p | Box.Mem p b} := by
  intro p
  induction p generalizing b with
  | nil =>
    intro m hl h
    cases m with
    | nil => simpa [seg] using h 1 one_pos le_rfl
    | cons q m => simp at hl
  | cons x p ih =>
    intro m hl h
    cases m with
    | nil => simp at hl
    | cons q m =>
      have h1 := h 1 one_pos le_rfl
      simp only [seg, Set.mem_setOf_eq] at h1 h
      cases b with
      | nil => cases h1
      | cons I b =>
        refine Box.mem_cons.2 ⟨segClosed_itv (fun t h0 ht1 => (Box.mem_cons.1 (h t h0 ht1)).1), ?_⟩
        exact ih b m (by simpa using hl) (fun t h0 ht1 => (Box.mem_cons.1 (h t h0 ht1)).2)

/-! ## Part 2 — the refuting rules (every expression, also polynomial constraints and inverse images) -/

/-- a YES leaf refuted at the exact point `r`: the real point `r` is in the leaf (in its interior for an i-set) and is in
    NO set denoted by the expression (it is certainly outside: e.g. it violates the constraint) -/
theorem refuted_yes {iset : Bool} {e : SE} {L : Leaf} {pts : List RPt} {r : RPt}
    (h : leafRefuted iset e L pts = some r) (hst : L.st = .yes) {S : Set Pt} (hS : Between e S) :
    (if iset = true then SMem (castPt r) L.box else Box.Mem (castPt r) L.box) ∧ castPt r ∉ S := by
  obtain ⟨h1, h2⟩ := leafRefuted_sound h
  refine ⟨h1, fun hin => ?_⟩
  rcases h2 with ⟨_, hn⟩ | ⟨hno, _⟩
  · exact hn (hS.2 _ hin)
  · rw [hst] at hno; cases hno

/-- a NO leaf refuted at the exact point `r`: the real point `r` is in the leaf and is in EVERY set denoted by the
    expression (it is certainly inside: e.g. it satisfies the constraint strictly) -/
theorem refuted_no {iset : Bool} {e : SE} {L : Leaf} {pts : List RPt} {r : RPt}
    (h : leafRefuted iset e L pts = some r) (hst : L.st = .no) {S : Set Pt} (hS : Between e S) :
    (if iset = true then SMem (castPt r) L.box else Box.Mem (castPt r) L.box) ∧ castPt r ∈ S := by
  obtain ⟨h1, h2⟩ := leafRefuted_sound h
  refine ⟨h1, ?_⟩
  rcases h2 with ⟨hy, _⟩ | ⟨_, hlo⟩
  · rw [hst] at hy; cases hy
  · exact hS.1 _ hlo

/-- exact rational evaluation is the real semantics (polynomials included) -/
theorem exact_point (e : SE) (r : RPt) : (e.Lo (castPt r) ↔ e.lo r = true) ∧ (e.Hi (castPt r) ↔ e.hi r = true) :=
  ⟨lo_cast e r, hi_cast e r⟩

/-! ## Part 3 — is_superset, Sep::separate, i-sets -/

/-- `is_superset(B) = YES` accepted by the driver: every real point of `B` is possibly in the set and (B not flat) is the
    end of a segment of points of `B` certainly in the set; hence `B ⊆ S` for every closed `S` denoted by the expression -/
theorem is_superset_yes {e : SE} {n : Nat} {B : Box} (h : supOk e n B = true) :
    (∀ p, Box.Mem p B → e.Hi p) ∧
    ∀ S : Set Pt, Between e S → SegClosed S → NonFlat B → ∀ p, Box.Mem p B → p ∈ S := by
  obtain ⟨h1, h2⟩ := supOk_sound h
  refine ⟨h1, fun S hS hcl hnf p hp => ?_⟩
  obtain ⟨m, hlen, hm⟩ := h2 hnf p hp
  exact hcl p m hlen (fun t h0 ht1 => hS.1 _ (hm t h0 ht1).2)

/-- `Sep::separate` on an output accepted by `sepOk` (SepBoundaryCtc and the separator combinators over exact leaves):
    each real point removed from the inner box is in every set denoted by the expression, each real point removed from
    the outer box is in none -/
theorem separate_contract {e : SE} {x xin xout : Box} (h : sepOk e x xin xout = true) {S : Set Pt} (hS : Between e S)
    (p : Pt) (hp : Box.Mem p x) : (¬ Box.Mem p xin → p ∈ S) ∧ (¬ Box.Mem p xout → p ∉ S) := by
  obtain ⟨h1, h2⟩ := sepOk_sound h p hp
  exact ⟨fun hn => hS.1 _ (h1 hn), fun hn hin => h2 hn (hS.2 _ hin)⟩

/-- an i-set whose information passes `consistentOk` contains a set: `lo` itself -/
theorem iset_consistent {e : SE} {n : Nat} (hb : e.boxy = true) (h : consistentOk e n = true) (p : Pt)
    (hp : p.length = n) : e.Lo p → e.Hi p := consistentOk_sound hb h p hp

/-! ## Part 4 — the expression forms denote the set operations they name -/

/-- separator leaf over the pair (U,V) of C19: certainly in = outside V, possibly in = inside U -/
theorem leaf_sets (U V : List Box) (p : Pt) :
    ((SE.leaf U V).Lo p ↔ ¬ InAny p V) ∧ ((SE.leaf U V).Hi p ↔ InAny p U) := ⟨lo_leaf U V p, hi_leaf U V p⟩

theorem inter_sets (l : List SE) (p : Pt) :
    ((SE.interL l).Lo p ↔ ∀ s ∈ l, s.Lo p) ∧ ((SE.interL l).Hi p ↔ ∀ s ∈ l, s.Hi p) := ⟨lo_interL p l, hi_interL p l⟩

theorem union_sets (l : List SE) (p : Pt) :
    ((SE.unionL l).Lo p ↔ ∃ s ∈ l, s.Lo p) ∧ ((SE.unionL l).Hi p ↔ ∃ s ∈ l, s.Hi p) := ⟨lo_unionL p l, hi_unionL p l⟩

theorem complement_sets (s : SE) (p : Pt) : ((SE.not s).Lo p ↔ ¬ s.Hi p) ∧ ((SE.not s).Hi p ↔ ¬ s.Lo p) := ⟨Iff.rfl, Iff.rfl⟩

/-- `SepQInter(list, q)` is translated into `atLeast (list.length - q) list`: the points of all the sets of a sub-list
    of that length -/
theorem qinter_sets (l : List SE) (k : Nat) (p : Pt) :
    ((SE.atLeast k l).Lo p ↔ ∃ sub : List SE, sub.Sublist l ∧ sub.length = k ∧ ∀ s ∈ sub, s.Lo p) ∧
    ((SE.atLeast k l).Hi p ↔ ∃ sub : List SE, sub.Sublist l ∧ sub.length = k ∧ ∀ s ∈ sub, s.Hi p) :=
  ⟨lo_atLeast p l k, hi_atLeast p l k⟩

/-- i-set contraction: the information of both -/
theorem meet_sets (a b : SE) (p : Pt) :
    ((SE.meet a b).Lo p ↔ a.Lo p ∨ b.Lo p) ∧ ((SE.meet a b).Hi p ↔ a.Hi p ∧ b.Hi p) := ⟨Iff.rfl, Iff.rfl⟩

/-- the thick set of a consistent pair is between: for a separator leaf whose pair covers the space, the closed union `U`
    is one of the denoted sets (the set used by the separator theorems of C19, `synSets`) -/
theorem leaf_between (U V : List Box) (hcov : ∀ p : Pt, ¬ InAny p V → InAny p U) :
    Between (SE.leaf U V) {p | InAny p U} :=
  ⟨fun p h => hcov p ((lo_leaf U V p).1 h), fun p h => (hi_leaf U V p).2 h⟩

/-! ## Part 5 — non-vacuity: a concrete paving accepted, the same paving with a wrong label rejected -/

namespace Example
def I (a b : Int) : Itv := .mk (.fin a) (.fin b)
def lowerThan (a : Int) : Itv := .mk .ninf (.fin a)
def greaterThan (a : Int) : Itv := .mk (.fin a) .pinf

/-- the box [0,4]x[0,2] as a separator leaf (certainly in: its interior), intersected with the half plane x >= 1 given by
    the thick leaf U = {x >= 1}, V = {x <= 2} (certainly in: x > 2; undetermined: 1 <= x <= 2) -/
def e : SE :=
  .inter (SE.leaf [[I 0 4, I 0 2]] [[lowerThan 0, Itv.all], [greaterThan 4, Itv.all], [Itv.all, lowerThan 0], [Itv.all, greaterThan 2]])
         (SE.leaf [[greaterThan 1, Itv.all]] [[lowerThan 2, Itv.all]])

def paving : List Leaf :=
  [⟨[lowerThan 0, Itv.all], .no⟩, ⟨[I 0 1, Itv.all], .no⟩, ⟨[I 1 2, Itv.all], .maybe⟩,
   ⟨[I 2 4, lowerThan 0], .no⟩, ⟨[I 2 4, I 0 2], .yes⟩, ⟨[I 2 4, greaterThan 2], .no⟩, ⟨[greaterThan 4, Itv.all], .no⟩]

/-- accepted (set and i-set rules) -/
example : pavingOk false e 2 paving = true := by decide +kernel
example : pavingOk true e 2 paving = true := by decide +kernel

/-- the MAYBE strip labelled YES: rejected (its points with x < 2 are not certainly in) -/
example : pavingOk false e 2
    [⟨[lowerThan 0, Itv.all], .no⟩, ⟨[I 0 1, Itv.all], .no⟩, ⟨[I 1 2, I 0 2], .yes⟩, ⟨[I 1 2, lowerThan 0], .no⟩, ⟨[I 1 2, greaterThan 2], .no⟩,
     ⟨[I 2 4, lowerThan 0], .no⟩, ⟨[I 2 4, I 0 2], .yes⟩, ⟨[I 2 4, greaterThan 2], .no⟩, ⟨[greaterThan 4, Itv.all], .no⟩] = false := by
  decide +kernel

/-- a leaf removed: the leaves do not cover the plane any more -/
example : pavingOk false e 2 (paving.drop 1) = false := by decide +kernel

/-- a NO leaf touching the closed box [0,4]x[0,2] given as an EXACT closed set is rejected by (B) (this is why
    `Set::Set(box, YES)` inserts a one-float MAYBE ring), and accepted once the contact is a MAYBE leaf -/
example : pavingOk false (.cl [[I 0 4]]) 1 [⟨[lowerThan 0], .no⟩, ⟨[I 0 4], .yes⟩, ⟨[greaterThan 4], .no⟩] = false := by decide +kernel
example : pavingOk false (.cl [[I 0 4]]) 1
    [⟨[lowerThan (-1)], .no⟩, ⟨[I (-1) 0], .maybe⟩, ⟨[I 0 4], .yes⟩, ⟨[I 4 5], .maybe⟩, ⟨[greaterThan 5], .no⟩] = true := by decide +kernel

/-- the hypotheses of the theorems are satisfiable: the YES leaf is a leaf of the accepted paving and is not flat -/
example : (⟨[I 2 4, I 0 2], .yes⟩ : Leaf) ∈ paving := by simp [paving]
example : NonFlat [I 2 4, I 0 2] := by
  intro J hJ
  simp only [List.mem_cons, List.not_mem_nil, or_false] at hJ
  rcases hJ with rfl | rfl <;> decide

/-- refutation by an exact point, polynomial constraint x² + y² - 1 <= 0: the leaf [0,1]x[0,1] labelled YES is refuted
    at the corner (1,1); the leaf [0,1/2]x[0,1/2] is not refuted at its corners -/
def disc : SE := .cmp .le [⟨1, [2, 0]⟩, ⟨1, [0, 2]⟩, ⟨-1, [0, 0]⟩]
example : leafRefuted false disc ⟨[I 0 1, I 0 1], .yes⟩ [[0, 0], [1, 0], [1, 1]] = some [1, 1] := by decide +kernel
example : leafRefuted false disc ⟨[.mk (.fin 0) (.fin (1/2)), .mk (.fin 0) (.fin (1/2))], .yes⟩ [[0, 0], [1/2, 0], [1/2, 1/2]] = none := by
  decide +kernel
/-- a NO leaf containing the centre (strictly inside the disc) is refuted -/
example : leafRefuted false disc ⟨[I (-1) 1, I (-1) 1], .no⟩ [[1, 1], [0, 0]] = some [0, 0] := by decide +kernel

/-- separator contract on concrete outputs: x = [0,3]x[0,1] separated by the second leaf into x_in = [0,2]x[0,1] (the
    points with x > 2 are certainly in) and x_out = [1,3]x[0,1]; a too small inner box is rejected -/
def halfPlane : SE := SE.leaf [[greaterThan 1, Itv.all]] [[lowerThan 2, Itv.all]]
example : sepOk halfPlane [I 0 3, I 0 1] [I 0 2, I 0 1] [I 1 3, I 0 1] = true := by decide +kernel
example : sepOk halfPlane [I 0 3, I 0 1] [I 0 1, I 0 1] [I 1 3, I 0 1] = false := by decide +kernel

/-- is_superset: [2,3]x[0,1] accepted, [1,3]x[0,1] rejected -/
example : supOk e 2 [I 2 3, I 0 1] = true := by decide +kernel
example : supOk e 2 [I 1 3, I 0 1] = false := by decide +kernel
end Example

end Ibex.C19.SetProps
