/-
  C12 — symbolic differentiation: the value of the library's derivative DAG at a sample point is the
  TRUE derivative.

  What is checked at run time (Driver/OpsSym.lean, `diffpt`): at a rational point `p` where the
  dual-number evaluation `Deriv.dualEval` of the ORIGINAL DAG is defined, the exact rational value
  of the library's DERIVATIVE DAG equals the gradients computed by the dual numbers
  (`Deriv.diffEq`, verdict `derivative-equal`).
  Theorems here:
  * `dual_gradient_correct`: the entries of `dualEval … p` are the values and the partial
    derivatives (all variables `j`) of the real denotation of the DAG at `p`; the real denotation
    is defined in a neighbourhood of `p` and Fréchet-differentiable at `p`
    (from `IbexProofs/DualCorrect.lean`: every operator, vectors/matrices, sharing, applied
    functions);
  * `accepted_derivative_equal`: the acceptance rule — when the verdict is `derivative-equal`, the
    real semantics of the derivative DAG at `p` is defined and its entry `(i, j)` is the true
    partial derivative `∂f_i/∂x_j (p)`.
  Not covered here: the fallback verdict `derivative-in-set-value` (derivative DAGs with thick
  interval constants, checked with `Alg.itvX`).
-/
import IbexProofs.DualCorrect

namespace Ibex.C12
open Ibex List Filter Topology

/-- the real denotation of the DAG is defined near `p`, with the shape of the dual value -/
theorem real_defined_near (funs : List Dag) (main : Dag) (p : List ℚ) {v : Mat Dual}
    (h : Deriv.dualEval funs main p = some v) :
    ∀ᶠ x in 𝓝 (ptR p), ∃ y, Eval.root Alg.real (List.ofFn x) (Eval.buildCalls Alg.real funs) main = some y ∧
      y.r = v.r ∧ y.c = v.c ∧ y.d.length = v.d.length :=
  (dual_entry_correct funs main p h).1

/-- **The dual numbers compute the true derivatives.**  For every output component `i` of
    `v = dualEval funs main p` and the real denotation `f_i = realEntry funs main i`:
    the gradient list has one entry per variable, `f_i(p) = v.d[i].v`, `f_i` is
    Fréchet-differentiable at `p` with derivative `u ↦ Σ_k g_k·u_k` (`g = v.d[i].g`), and for every
    variable `j` the partial derivative `∂f_i/∂x_j (p)` exists and is `g_j`. -/
theorem dual_gradient_correct (funs : List Dag) (main : Dag) (p : List ℚ) {v : Mat Dual}
    (h : Deriv.dualEval funs main p = some v) (i : ℕ) (hi : i < v.d.length) :
    v.d[i].g.length = p.length ∧
    realEntry funs main i (ptR p) = (v.d[i].v : ℝ) ∧
    HasFDerivAt (realEntry funs main i) (gradMap p.length v.d[i].g) (ptR p) ∧
    ∀ j : Fin p.length,
      HasDerivAt (fun t => realEntry funs main i (Function.update (ptR p) j t))
        ((v.d[i].g.getD j 0 : ℚ) : ℝ) (ptR p j) := by
  have hrel := (dual_entry_correct funs main p h).2 i hi
  exact ⟨hrel.1, hrel.2.1, hrel.2.2, fun j => hrel.partial j⟩

/-- the same, along the line `t ↦ p + t·e_j` at `t = 0` -/
theorem dual_gradient_correct_line (funs : List Dag) (main : Dag) (p : List ℚ) {v : Mat Dual}
    (h : Deriv.dualEval funs main p = some v) (i : ℕ) (hi : i < v.d.length) (j : Fin p.length) :
    HasDerivAt (fun t => realEntry funs main i (Function.update (ptR p) j (ptR p j + t)))
      ((v.d[i].g.getD j 0 : ℚ) : ℝ) 0 :=
  ((dual_entry_correct funs main p h).2 i hi).partial_line j

/-! ### the acceptance rule of `diffpt` -/

/-- entry `i*n + j` of the concatenation of rows of length `n` is entry `j` of row `i` -/
theorem getElem?_flatten_uniform {α : Type} {n : ℕ} :
    ∀ (l : List (List α)), (∀ x ∈ l, x.length = n) → ∀ (i j : ℕ), j < n →
      l.flatten[i * n + j]? = (l[i]?).bind (·[j]?) := by
  intro l
  induction l with
  | nil => intro _ i j _; simp
  | cons x l ih =>
    intro hl i j hj
    have hx : x.length = n := hl x (by simp)
    cases i with
    | zero =>
      simp only [List.flatten_cons, Nat.zero_mul, Nat.zero_add, List.getElem?_cons_zero, Option.bind_some]
      rw [List.getElem?_append_left (by omega)]
    | succ i =>
      simp only [List.flatten_cons, List.getElem?_cons_succ]
      rw [List.getElem?_append_right (by rw [hx, Nat.succ_mul]; omega)]
      have : (i + 1) * n + j - x.length = i * n + j := by rw [hx, Nat.succ_mul]; omega
      rw [this]
      exact ih (fun y hy => hl y (by simp [hy])) i j hj

/-- **Accepted `diffpt` line (verdict `derivative-equal`).**  `v` is the dual value of the original
    DAG at `p`, `dv` the exact rational value of the library's derivative DAG at `p`, and the driver
    found them equal (`Deriv.diffEq`).  Then the derivative DAG has a real value `y` at `p`, and
    for every output component `i` and every variable `j`, the entry `i*n + j` of `y` is the TRUE
    partial derivative `∂f_i/∂x_j (p)` of the real denotation `f_i` of the original DAG. -/
theorem accepted_derivative_equal (funs dfuns : List Dag) (main dmain : Dag) (p : List ℚ)
    {v : Mat Dual} {dv : Mat ℚ} (hv : Deriv.dualEval funs main p = some v)
    (hdv : Eval.root Alg.rat p (Eval.buildCalls Alg.rat dfuns) dmain = some dv)
    (heq : Deriv.diffEq v dv = true) :
    ∃ y : Mat ℝ, Eval.root Alg.real (List.ofFn (ptR p)) (Eval.buildCalls Alg.real dfuns) dmain = some y ∧
      ∀ (i : ℕ), i < v.d.length → ∀ j : Fin p.length, ∃ D : ℝ, y.d[i * p.length + j]? = some D ∧
        HasDerivAt (fun t => realEntry funs main i (Function.update (ptR p) j t)) D (ptR p j) := by
  obtain ⟨y, hy, hrel⟩ := rat_root_real dfuns dmain p hdv
  refine ⟨y, hy, fun i hi j => ?_⟩
  obtain ⟨hlen, _, _, hpart⟩ := dual_gradient_correct funs main p hv i hi
  refine ⟨_, ?_, hpart j⟩
  -- locate the entry in the flattened Jacobian
  have hflat : dv.d = (v.d.map (·.g)).flatten := by
    unfold Deriv.diffEq at heq
    exact (eq_of_beq heq).symm
  have hrows : ∀ x ∈ v.d.map (·.g), x.length = p.length := by
    intro x hx
    simp only [List.mem_map] at hx
    obtain ⟨d, hd, rfl⟩ := hx
    obtain ⟨k, hk, rfl⟩ := List.getElem_of_mem hd
    exact (dual_gradient_correct funs main p hv k hk).1
  have hentry : dv.d[i * p.length + j]? = some (v.d[i].g.getD j 0) := by
    rw [hflat, getElem?_flatten_uniform _ hrows i j j.2]
    simp [List.getElem?_eq_getElem hi, List.getD_eq_getElem?_getD,
      List.getElem?_eq_getElem (by omega : (j : ℕ) < v.d[i].g.length)]
  rcases forall₂_getElem? hrel.2.2 (i * p.length + j) with ⟨h1, _⟩ | ⟨a, b, h1, h2, hab⟩
  · rw [hentry] at h1; exact absurd h1 (by simp)
  · rw [hentry] at h1
    simp only [Option.some.injEq] at h1
    subst h1
    rw [h2, hab]

end Ibex.C12
