/-
  C18, PART 2 — an interrupted search can be resumed without loss.

  What runs at run time (workload `c18r` of `harness/h_solver.cpp`): the real `Solver` is interrupted by its cell
  limit at EVERY possible point k (and by the time limit), its data are saved to a COV file, loaded back,
  and a fresh solver is started from them (`Solver::solve(const CovSolverData&)`), possibly interrupted and
  resumed again (chains).  Each run is observed through the logging wrappers of C05; for each resumed run the
  driver evaluates `Cover.stageOk cert prev new log`:
    * `resumeOk`: every validated box (inner, solution with its unicity box and variables, boundary) of the
      loaded paving `prev` is in the new paving `new`, identical; every unknown / pending box of `prev` is one
      of the cells pushed at the very beginning of the log of the resumed run (or is kept as a box of `new`);
    * the log of the resumed run is accepted by the cover certificate `Cover.check` (C05) w.r.t. `new`.

  `resume_sound`: if the paving the run starts from covers every solution of the initial box, so does the paving
  of the resumed run; `resume_carry`: validated boxes are carried over unchanged.  `chain_sound` / `chain_carry`:
  the same for ANY number of successive interruptions (induction over the chain; no bound on the number of
  runs, events, cells or dimensions).  The first run of a chain is an ordinary (interrupted) search: its paving
  covers the solutions of the initial box by C05 `cover_sound` (cells left in the buffer at the interruption
  must be pending boxes of the paving).

  The verdict guarantees after a resumption (inner boxes proved, unknown boxes small, status agreeing with the
  output) are the rules of C05/C06 (`innerOk_sound`, `unknownSmall_iff`, `statusOk_*`), evaluated on the final
  data of the resumed run.
-/
import IbexProofs.Props.C05

namespace Ibex.C18
open Ibex Ibex.Cover

/-- the point is in a box of the paving -/
def Covered (items : List Item) (p : List ℝ) : Prop := ∃ it ∈ items, Box.Mem p it.box

theorem inPaving_pavingOf {items : List Item} {p : List ℝ} :
    InPaving (pavingOf items) p ↔ Covered items p := by
  simp only [InPaving, pavingOf, Covered, List.mem_map]
  constructor
  · rintro ⟨b, ⟨it, hit, rfl⟩, hp⟩; exact ⟨it, hit, hp⟩
  · rintro ⟨it, hit, hp⟩; exact ⟨it.box, ⟨it, hit, rfl⟩, hp⟩

/-- run-time facts that the cover certificate relies on, for one run (they are properties C04 and C06/C09
    of the contractor calls and of the certified solutions; checked on their own):
    the logged contractions keep the solutions, the replacement certificate is sound, a solution inside a
    unicity box is inside the existence box -/
structure RunHyp (Sol : Set (List ℝ)) (cert : Box → Box × Box × List Nat → Bool) (items : List Item)
    (log : List Ev) : Prop where
  leaf : ∀ i o, Ev.ctc i o ∈ log → ∀ p ∈ Sol, Box.Mem p i → Box.Mem p o
  cert : ∀ c eu, cert c eu = true → eu ∈ (pavingOf items).unicity → ∀ p ∈ Sol, Box.Mem p c → Box.Mem p eu.1
  uni : ∀ eu ∈ (pavingOf items).unicity, ∀ p ∈ Sol, Box.Mem p eu.2.1 → Box.Mem p eu.1

theorem hyp_of_runHyp {Sol : Set (List ℝ)} {cert : Box → Box × Box × List Nat → Bool} {items : List Item}
    {log : List Ev} (h : RunHyp Sol cert items log) : Cover.Hyp Sol cert (pavingOf items) where
  cert := h.cert
  uni := h.uni
  ex := by
    intro eu heu
    simp only [pavingOf, List.mem_filterMap] at heu
    obtain ⟨it, hit, h2⟩ := heu
    split at h2
    · injection h2 with h2
      subst h2
      exact List.mem_map.2 ⟨it, hit, rfl⟩
    · cases h2

/-- **validated boxes are carried over unchanged** by a resumed run -/
theorem resume_carry {cert : Box → Box × Box × List Nat → Bool} {prev new : List Item} {log : List Ev}
    (hok : stageOk cert prev new log = true) :
    ∀ it ∈ prev, it.validated = true → it ∈ new := by
  intro it hit hv
  simp only [stageOk, Bool.and_eq_true, resumeOk, List.all_eq_true] at hok
  have := hok.1 it hit
  rw [if_pos hv] at this
  exact of_decide_eq_true this

/-- **a resumed run loses no solution**: if the paving `prev` it starts from covers every solution of the
    initial box `root`, so does its own paving `new` -/
theorem resume_sound {Sol : Set (List ℝ)} {cert : Box → Box × Box × List Nat → Bool} {prev new : List Item}
    {log : List Ev} {root : Box}
    (hok : stageOk cert prev new log = true) (H : RunHyp Sol cert new log)
    (hprev : ∀ p ∈ Sol, Box.Mem p root → Covered prev p) :
    ∀ p ∈ Sol, Box.Mem p root → Covered new p := by
  intro p hs hp
  obtain ⟨it, hit, hpit⟩ := hprev p hs hp
  have hok' := hok
  simp only [stageOk, Bool.and_eq_true, resumeOk, List.all_eq_true] at hok'
  obtain ⟨hres, hchk⟩ := hok'
  have h1 := hres it hit
  by_cases hv : it.validated = true
  · rw [if_pos hv] at h1
    exact ⟨it, of_decide_eq_true h1, hpit⟩
  · rw [if_neg hv] at h1
    rcases Bool.or_eq_true_iff.1 h1 with h1 | h1
    · have hroot : it.box ∈ leadingPushes log := of_decide_eq_true h1
      split at hchk
      · rename_i k hk
        exact inPaving_pavingOf.1
          (Cover.check_sound_roots (hyp_of_runHyp H) hk H.leaf it.box hroot p hs hpit)
      · cases hchk
    · obtain ⟨j, hj, hjb⟩ := List.mem_map.1 (of_decide_eq_true h1)
      exact ⟨j, hj, hjb ▸ hpit⟩

/-- the paving at the end of a chain of resumed runs -/
def lastItems : List Item → List (List Item × List Ev) → List Item
  | prev, [] => prev
  | _, (new, _) :: rest => lastItems new rest

/-- **any number of interruptions**: every solution of the initial box covered by the paving of the first
    (interrupted) run is covered by the paving of the last run of the chain -/
theorem chain_sound {Sol : Set (List ℝ)} {cert : Box → Box × Box × List Nat → Bool} {root : Box} :
    ∀ (stages : List (List Item × List Ev)) (first : List Item),
      chainOk cert first stages = true →
      (∀ st ∈ stages, RunHyp Sol cert st.1 st.2) →
      (∀ p ∈ Sol, Box.Mem p root → Covered first p) →
      ∀ p ∈ Sol, Box.Mem p root → Covered (lastItems first stages) p
  | [], _, _, _, hfirst => hfirst
  | (new, log) :: rest, first, hc, hH, hfirst => by
    simp only [chainOk, Bool.and_eq_true] at hc
    exact chain_sound rest new hc.2 (fun st hst => hH st (List.mem_cons_of_mem _ hst))
      (resume_sound hc.1 (hH (new, log) (List.mem_cons_self ..)) hfirst)

/-- **validated boxes survive any number of interruptions**, unchanged -/
theorem chain_carry {cert : Box → Box × Box × List Nat → Bool} :
    ∀ (stages : List (List Item × List Ev)) (first : List Item),
      chainOk cert first stages = true →
      ∀ it ∈ first, it.validated = true → it ∈ lastItems first stages
  | [], _, _, _, hit, _ => hit
  | (new, log) :: rest, first, hc, it, hit, hv => by
    simp only [chainOk, Bool.and_eq_true] at hc
    exact chain_carry rest new hc.2 it (resume_carry hc.1 it hit hv) hv

/-! ### non-vacuity -/

section Examples
open Ibex.C05 (iv noCert)

def item (k : String) (a b : Int) : Item := ⟨k, [iv a b], [iv a b], [], false⟩

/-- first run on `[0,4]`, interrupted after one bisection: `[2,3]` validated (inner), `[1,2]` pending -/
def prev1 : List Item := [item "I" 2 3, item "D" 1 2]
/-- the resumed run starts from `[1,2]`, which the contractor empties -/
def new1 : List Item := [item "I" 2 3]
def logR : List Ev := [.push [iv 1 2], .top [iv 1 2], .ctc [iv 1 2] [.empty], .pop [.empty]]

example : stageOk noCert prev1 new1 logR = true := by decide +kernel
/-- forgetting the pending box (the resumed run starts from nothing) is rejected -/
example : stageOk noCert prev1 new1 [] = false := by decide +kernel
/-- changing a validated box is rejected -/
example : stageOk noCert prev1 [item "I" 2 4] logR = false := by decide +kernel
/-- changing its verdict is rejected -/
example : stageOk noCert prev1 [item "B" 2 3] logR = false := by decide +kernel
/-- copying the pending box to the output as `unknown` without re-queuing it loses nothing: accepted
    (the status rule then demands a status that admits unknown boxes) -/
example : stageOk noCert prev1 [item "I" 2 3, item "U" 1 2] [] = true := by decide +kernel
/-- a chain of two resumed runs (the second one has nothing left to do) -/
example : chainOk noCert prev1 [(new1, logR), (new1, [])] = true := by decide +kernel

end Examples

end Ibex.C18
