/-
  C09 (exact / rounding-generic certificates) — soundness of the rounding-generic certificates
  `Newton.uniqueCertVarsG r`, `Newton.existCertVarsG r`, `Newton.existUniqueCertVarsG r`,
  `Newton.replaceCertG r` of IbexModel/Newton.lean, for EVERY sound rounding pair `r`
  (`Rnd.Sound r`), in particular for `Rnd.exact` (exact rational interval arithmetic: the certificates
  `…X`) and for `Rnd.dbl` (outward-rounded binary64).

  Why: the certificates of `Props/C09.lean` / `Props/C09exist.lean` evaluate the Krawczyk test with
  outward-rounded binary64 interval arithmetic; on an existence box that is only a few ulps wide (what
  the library reports) the rounding errors of the test are as large as the box, and the true claim is
  not certified.  With exact rational interval arithmetic the test is sharp (see the examples at the
  end: a box of 2 ulps, and even of 1 ulp, around √2 is accepted by `existCertVarsX` and rejected by
  `existCertVars`).

  * `unique_of_cert_selG`, `unique_of_certG`, `unique_zero_G`, `unique_zero_squareG`
  * `exists_zero_of_cert_selG`, `exists_zero_of_certG`, `exists_zero_squareG`
  * `exists_unique_zero_selG`, `exists_unique_zero_G`
  * `replaceCertG_sound_sel`, `replaceCertG_sound`, `replaceCertG_sound'`
  * the instances `…X` for `Rnd.exact`.

  The proofs are those of `Props/C09.lean` and `Props/C09exist.lean` with the enclosure lemmas of
  the rounded operators replaced by those of the generic operators (`NewtonCertG.lean`,
  `NewtonExistG.lean`).
-/
import IbexProofs.Props.C09exist
import IbexProofs.NewtonExistG

namespace Ibex.C09
open Ibex List Filter Topology

variable {r : Rnd}

/-! ### uniqueness -/

/-- what `uniqueCertVarsG r … = true` provides -/
theorem cert_unpackG {progs : List (List Dag × Dag)} {h : Box} {vars : List ℕ}
    (hcert : Newton.uniqueCertVarsG r progs h vars = true) :
    progs.length = vars.length ∧ (∀ v ∈ vars, v < h.length) ∧
    ∃ (jfull : List (List Itv)) (c : List (List ℚ)), Newton.jacobianG r progs h = some jfull ∧
      c.length = jfull.length ∧
      Newton.diagDominant (Newton.precondG r c
        (jfull.map fun row => vars.map fun v => row.getD v .empty)) = true := by
  unfold Newton.uniqueCertVarsG at hcert
  simp only [Bool.and_eq_true, beq_iff_eq, List.all_eq_true, decide_eq_true_eq] at hcert
  obtain ⟨⟨⟨hlen, _⟩, hvars⟩, hmatch⟩ := hcert
  refine ⟨hlen, hvars, ?_⟩
  split at hmatch
  · exact absurd hmatch (by simp)
  · rename_i jfull hJ
    split at hmatch
    · exact absurd hmatch (by simp)
    · rename_i mid hmid
      split at hmatch
      · exact absurd hmatch (by simp)
      · rename_i c hc
        refine ⟨jfull, c, hJ, ?_, hmatch⟩
        rw [inverse_length hc, ← (C08.mapM_forall₂ hmid).length_eq, List.length_map]

/-- **Soundness of the uniqueness certificate** (thick constants selected by `ch`).
    If `uniqueCertVarsG r progs h vars = true` for a sound rounding pair `r`, then two points `x y` of the box `h` that have the same
    coordinates outside `vars` (same parameters) and the same image under the system `progs` are
    equal.  (The system is defined on the whole box, see `jacobian_encl`.) -/
theorem unique_of_cert_selG (hr : r.Sound) {ch : Itv → Option ℝ} (hch : Sel ch) {progs : List (List Dag × Dag)} {h : Box}
    {vars : List ℕ} (hcert : Newton.uniqueCertVarsG r progs h vars = true) {x y : List ℝ}
    (hx : Box.Mem x h) (hy : Box.Mem y h) (hpar : ∀ k, k ∉ vars → x[k]? = y[k]?)
    (hf : ∀ q ∈ progs, (rootW ch q x).map (·.d) = (rootW ch q y).map (·.d)) : x = y := by
  obtain ⟨hlen, hvars, jfull, c, hJ, hc, hdd⟩ := cert_unpackG hcert
  have hJl := jacobianG_length hJ
  have hencl := jacobianG_encl hr hch hJ
  -- notation
  have hxl : x.length = h.length := hx.length_eq
  have hyl : y.length = h.length := hy.length_eq
  let x' : Fin h.length → ℝ := fun k => x[(k : ℕ)]'(by rw [hxl]; exact k.2)
  let y' : Fin h.length → ℝ := fun k => y[(k : ℕ)]'(by rw [hyl]; exact k.2)
  have hx' : List.ofFn x' = x := ofFn_getElem hxl
  have hy' : List.ofFn y' = y := ofFn_getElem hyl
  let m := vars.length
  let e : Fin m → Fin h.length := fun c => ⟨vars[(c : ℕ)], hvars _ (List.getElem_mem c.2)⟩
  -- the slope matrix, one row per function
  have hrows : ∀ i : Fin m, ∃ s : Fin h.length → ℝ,
      (∀ k : Fin h.length, s k ∈ ((jfull.getD i []).getD k .empty)) ∧ ∑ k, s k * (x' k - y' k) = 0 := by
    intro i
    have hi : (i : ℕ) < progs.length := hlen ▸ i.2
    obtain ⟨hi', hrow, hq⟩ := forall₂_getElem hencl hi
    have hval : valW ch progs[(i : ℕ)] x' = valW ch progs[(i : ℕ)] y' := by
      rw [valW_eq, valW_eq, hx', hy', hf _ (List.getElem_mem hi)]
    obtain ⟨s, hs, hsum⟩ := slope_row (h := h) rfl (f := valW ch progs[(i : ℕ)]) (row := jfull[(i : ℕ)])
      (fun p hp => (hq p hp).2) (x := x') (y := y') (hx' ▸ hx) (hy' ▸ hy)
    refine ⟨s, fun k => ?_, ?_⟩
    · rw [List.getD_eq_getElem?_getD (l := jfull), List.getElem?_eq_getElem hi']
      exact hs k
    · rw [← hsum, hval, sub_self]
  choose s hs hsum using hrows
  let A : Fin m → Fin m → ℝ := fun i c => s i (e c)
  have hjl : (jfull.map fun row => vars.map fun v => row.getD v Itv.empty).length = m := by
    rw [List.length_map, hJl, hlen]
  have hA : ∀ i k : Fin m, A i k ∈
      ((jfull.map fun row => vars.map fun v => row.getD v Itv.empty).getD i []).getD k .empty := by
    intro i k
    have hi : (i : ℕ) < jfull.length := by rw [hJl, hlen]; exact i.2
    have := hs i (e k)
    simp only [List.getD_eq_getElem?_getD, List.getElem?_map, List.getElem?_eq_getElem hi,
      List.getElem?_eq_getElem k.2, Option.map_some, Option.getD_some] at this ⊢
    exact this
  have hreg := regular_of_certG hr hjl (by rw [hc, hJl, hlen]) hdd A hA
  -- the variables are pairwise distinct
  have hinj : Function.Injective e := by
    intro c1 c2 h12
    by_contra hne
    have := hreg (Pi.single c1 1 - Pi.single c2 1) (fun i => by
      simp only [Pi.sub_apply, mul_sub, Finset.sum_sub_distrib, Pi.single_apply, mul_ite, mul_one,
        mul_zero, Finset.sum_ite_eq', Finset.mem_univ, if_true, A, h12, sub_self])
    have h1 := congrFun this c1
    simp [Ne.symm hne] at h1
  -- `Ã (x − y)|vars = 0`
  have hzero := hreg (fun c => x' (e c) - y' (e c)) (fun i => by
    rw [← hsum i]
    refine Finset.sum_of_injOn e (fun a _ b _ hab => hinj hab) (fun _ _ => Finset.mem_coe.2 (Finset.mem_univ _))
      (fun k _ hk => ?_) (fun c _ => rfl)
    have hkv : (k : ℕ) ∉ vars := by
      intro hmem
      obtain ⟨c, hc, hck⟩ := List.getElem_of_mem hmem
      exact hk ⟨⟨c, hc⟩, Finset.mem_coe.2 (Finset.mem_univ _), Fin.ext hck⟩
    have := hpar k hkv
    rw [List.getElem?_eq_getElem (by rw [hxl]; exact k.2), List.getElem?_eq_getElem (by rw [hyl]; exact k.2)] at this
    simp only [Option.some.injEq] at this
    simp only [x', y', this, sub_self, mul_zero])
  -- conclusion
  apply List.ext_getElem (by rw [hxl, hyl])
  intro k h1 h2
  have hk : k < h.length := hxl ▸ h1
  by_cases hkv : k ∈ vars
  · obtain ⟨c, hc, hck⟩ := List.getElem_of_mem hkv
    have := congrFun hzero ⟨c, hc⟩
    simp only [Pi.zero_apply, sub_eq_zero, x', y', e, hck] at this
    exact this
  · have := hpar k hkv
    rw [List.getElem?_eq_getElem h1, List.getElem?_eq_getElem h2] at this
    simpa using this

/-- **Soundness of the uniqueness certificate, real semantics, generic rounding.** -/
theorem unique_of_certG (hr : r.Sound) {progs : List (List Dag × Dag)} {h : Box} {vars : List ℕ}
    (hcert : Newton.uniqueCertVarsG r progs h vars = true) {x y : List ℝ}
    (hx : Box.Mem x h) (hy : Box.Mem y h) (hpar : ∀ k, k ∉ vars → x[k]? = y[k]?)
    (hf : ∀ q ∈ progs, ∃ mx my, rootR q x = some mx ∧ rootR q y = some my ∧ mx.d = my.d) : x = y := by
  refine unique_of_cert_selG hr chReal_sel hcert hx hy hpar fun q hq => ?_
  obtain ⟨mx, my, h1, h2, h3⟩ := hf q hq
  rw [rootW_of_rootR h1, rootW_of_rootR h2]
  simp [h3]

/-- **At most one zero** in the box for each value of the parameters (generic rounding): if
    `uniqueCertVarsG r progs h vars = true` for a sound rounding pair `r`, two zeros of the system in the
    box `h` with the same parameters (coordinates outside `vars`) are equal. -/
theorem unique_zero_G (hr : r.Sound) {progs : List (List Dag × Dag)} {h : Box} {vars : List ℕ}
    (hcert : Newton.uniqueCertVarsG r progs h vars = true) {x y : List ℝ}
    (hx : Box.Mem x h) (hy : Box.Mem y h) (hpar : ∀ k, k ∉ vars → x[k]? = y[k]?)
    (hzx : Zero progs x) (hzy : Zero progs y) : x = y :=
  unique_of_certG hr hcert hx hy hpar fun q hq => by
    obtain ⟨mx, h1, h2⟩ := hzx q hq
    obtain ⟨my, h3, h4⟩ := hzy q hq
    exact ⟨mx, my, h1, h3, h2.trans h4.symm⟩

/-- square case -/
theorem unique_zero_squareG (hr : r.Sound) {progs : List (List Dag × Dag)} {h : Box}
    (hcert : Newton.uniqueCertVarsG r progs h (List.range h.length) = true) {x y : List ℝ}
    (hx : Box.Mem x h) (hy : Box.Mem y h) (hzx : Zero progs x) (hzy : Zero progs y) : x = y := by
  refine unique_zero_G hr hcert hx hy (fun k hk => ?_) hzx hzy
  have hk' : ¬ k < h.length := by simpa using hk
  rw [List.getElem?_eq_none (by rw [hx.length_eq]; omega), List.getElem?_eq_none (by rw [hy.length_eq]; omega)]

/-! ### replacement of a cell by an existence box -/

/-- **Soundness of the replacement certificate** (thick constants selected by `ch`), generic rounding. -/
theorem replaceCertG_sound_sel (hr : r.Sound) {ch : Itv → Option ℝ} (hch : Sel ch) {progs : List (List Dag × Dag)}
    {c e : Box} {vars : List ℕ} (hcert : Newton.replaceCertG r progs c e vars = true)
    (hE : ∀ π : List ℝ, π.length = e.length →
      (∀ i t I, i ∉ vars → π[i]? = some t → e[i]? = some I → t ∈ I) →
      ∃ z, Box.Mem z e ∧ (∀ i, i ∉ vars → z[i]? = π[i]?) ∧ ZeroW ch progs z)
    {p : List ℝ} (hp : Box.Mem p c) (hz : ZeroW ch progs p) : Box.Mem p e := by
  unfold Newton.replaceCertG at hcert
  simp only [Bool.and_eq_true, beq_iff_eq, List.all_eq_true, List.mem_range, Bool.or_eq_true,
    List.contains_iff_mem] at hcert
  obtain ⟨⟨hlen, hsub⟩, huniq⟩ := hcert
  have hpl : p.length = c.length := hp.length_eq
  obtain ⟨z, hze, hzpar, hzz⟩ := hE p (by rw [hpl, hlen]) (by
    intro i t I hi hpt heI
    have hic : i < c.length := by
      rw [← hpl]
      exact (List.getElem?_eq_some_iff.1 hpt).1
    rcases hsub i hic with hv | hs
    · exact absurd hv hi
    · split at hs
      · rename_i ci ei hci hei
        rw [heI] at hei
        simp only [Option.some.injEq] at hei
        subst hei
        exact Itv.mem_of_subset hs ((Box.mem_iff.1 hp).2 i t ci hpt hci)
      · exact absurd hs (by simp))
  have hhull : Box.hull c e = List.zipWith Itv.hull c e := by
    unfold Box.hull
    rw [if_neg (by simp [Box.isEmpty_eq_false_of_mem hp]), if_neg (by simp [Box.isEmpty_eq_false_of_mem hze])]
  rw [hhull] at huniq
  have : p = z := unique_of_cert_selG hr hch huniq (mem_hull_left hp hlen) (mem_hull_right hze hlen)
    (fun k hk => (hzpar k hk).symm) (fun q hq => by
      obtain ⟨m1, h1, h2⟩ := hz q hq
      obtain ⟨m2, h3, h4⟩ := hzz q hq
      rw [h1, h3]
      simp [h2, h4])
  rw [this]
  exact hze

/-- **Soundness of the replacement certificate, real semantics, generic rounding** (existence in `e`
    assumed; see `replaceCertG_sound'`). -/
theorem replaceCertG_sound (hr : r.Sound) {progs : List (List Dag × Dag)} {c e : Box} {vars : List ℕ}
    (hcert : Newton.replaceCertG r progs c e vars = true)
    (hE : ∀ π : List ℝ, π.length = e.length →
      (∀ i t I, i ∉ vars → π[i]? = some t → e[i]? = some I → t ∈ I) →
      ∃ z, Box.Mem z e ∧ (∀ i, i ∉ vars → z[i]? = π[i]?) ∧ Zero progs z)
    {p : List ℝ} (hp : Box.Mem p c) (hz : Zero progs p) : Box.Mem p e :=
  replaceCertG_sound_sel hr chReal_sel hcert (fun π h1 h2 => by
    obtain ⟨z, hz1, hz2, hz3⟩ := hE π h1 h2
    exact ⟨z, hz1, hz2, hz3.toW⟩) hp hz.toW

/-! ### existence -/

/-- **Soundness of the existence certificate** for a strict selection `ch` of the thick constants,
    generic rounding. -/
theorem exists_zero_strictG (hr : r.Sound) {ch : Itv → Option ℝ} (hch : Sel ch) (hstrict : Strict ch)
    {progs : List (List Dag × Dag)} {h : Box} {vars : List ℕ}
    (hcert : Newton.existCertVarsG r progs h vars = true) (π : List ℝ) (hπl : π.length = h.length)
    (hπ : ∀ i t I, i ∉ vars → π[i]? = some t → h[i]? = some I → t ∈ I) :
    ∃ z, Box.Mem z h ∧ (∀ i, i ∉ vars → z[i]? = π[i]?) ∧ ZeroW ch progs z := by
  classical
  obtain ⟨hlen, hvars, hnd, jfull, mid, cm, bnds, fm, hJ, hc, hL, hb, hfm, hrow, hK⟩ := exist_unpackG hcert
  have hJl := jacobianG_length hJ
  have hencl := jacobianG_encl hr hch hJ
  have hbf := C08.mapM_forall₂ hb
  have hbl : bnds.length = vars.length := hbf.length_eq.symm
  have hfmF := C08.mapM_forall₂ hfm
  have hfml : fm.length = vars.length := by rw [← hfmF.length_eq, hlen]
  have hcm : cm.length = vars.length := by rw [hc, hJl, hlen]
  have hkp : ∀ k : Fin vars.length, (k : ℕ) < progs.length := fun k => by rw [hlen]; exact k.2
  have hkc : ∀ k : Fin vars.length, (k : ℕ) < cm.length := fun k => by rw [hcm]; exact k.2
  -- abbreviations
  generalize hxm : (bnds.map fun (ab : ℚ × ℚ) => (ab.1 + ab.2) / 2) = xm at hfm hfmF hK
  generalize hj : (jfull.map fun row => vars.map fun v => row.getD v Itv.empty) = j at hrow hK
  have hjl : j.length = vars.length := by rw [← hj, List.length_map, hJl, hlen]
  have hkj : ∀ k : Fin vars.length, (k : ℕ) < j.length := fun k => by rw [hjl]; exact k.2
  have hxml : xm.length = vars.length := by rw [← hxm, List.length_map, hbl]
  let e : Fin vars.length → Fin h.length := fun c => ⟨vars[(c : ℕ)], hvars _ (List.getElem_mem c.2)⟩
  have hinj : Function.Injective e := by
    intro c1 c2 h12
    have : vars[(c1 : ℕ)] = vars[(c2 : ℕ)] := congrArg Fin.val h12
    exact Fin.ext ((List.Nodup.getElem_inj_iff hnd).1 this)
  -- the bounds of the variables
  let lo : Fin vars.length → ℝ := fun c => (((bnds.getD c (0, 0)).1 : ℚ) : ℝ)
  let hi : Fin vars.length → ℝ := fun c => (((bnds.getD c (0, 0)).2 : ℚ) : ℝ)
  let xr : Fin vars.length → ℝ := fun c => ((xm.getD c 0 : ℚ) : ℝ)
  have hbox : ∀ c : Fin vars.length, h.getD vars[(c : ℕ)] .empty =
      Itv.mk (.fin (bnds.getD c (0, 0)).1) (.fin (bnds.getD c (0, 0)).2) ∧
      (bnds.getD c (0, 0)).1 ≤ (bnds.getD c (0, 0)).2 := by
    intro c
    obtain ⟨hc', hq⟩ := forall₂_getElem hbf c.2
    rw [getD_eq_getElem' hc']
    exact boundsQ_some hq
  have hmemI : ∀ (c : Fin vars.length) (t : ℝ), t ∈ h.getD vars[(c : ℕ)] .empty ↔ lo c ≤ t ∧ t ≤ hi c := by
    intro c t
    rw [(hbox c).1, mem_fin_iff]
  have hlohi : lo ≤ hi := fun c => by
    show (((bnds.getD c (0, 0)).1 : ℚ) : ℝ) ≤ (((bnds.getD c (0, 0)).2 : ℚ) : ℝ)
    exact_mod_cast (hbox c).2
  have hxr : ∀ c, xr c = (lo c + hi c) / 2 := by
    intro c
    have hc' : (c : ℕ) < bnds.length := by rw [hbl]; exact c.2
    show ((xm.getD c 0 : ℚ) : ℝ) = _
    rw [← hxm, List.getD_eq_getElem?_getD, List.getElem?_map, List.getElem?_eq_getElem hc']
    simp only [Option.map_some, Option.getD_some, lo, hi, getD_eq_getElem' hc']
    push_cast
    ring
  have hxrI : xr ∈ Set.Icc lo hi := by
    refine ⟨fun c => ?_, fun c => ?_⟩
    · have := hlohi c; rw [hxr c]; linarith
    · have := hlohi c; rw [hxr c]; linarith
  -- the parameters
  let π' : Fin h.length → ℝ := fun i => π[(i : ℕ)]'(by rw [hπl]; exact i.2)
  let asm : (Fin vars.length → ℝ) → Fin h.length → ℝ := fun y i =>
    if hc : vars.idxOf (i : ℕ) < vars.length then y ⟨vars.idxOf (i : ℕ), hc⟩ else π' i
  have hP1 : ∀ y (c : Fin vars.length), asm y (e c) = y c := by
    intro y c
    have hidx : vars.idxOf vars[(c : ℕ)] = c := List.Nodup.idxOf_getElem hnd c c.2
    have hlt : vars.idxOf ((e c : Fin h.length) : ℕ) < vars.length := by
      show vars.idxOf vars[(c : ℕ)] < vars.length
      rw [hidx]; exact c.2
    simp only [asm, dif_pos hlt]
    congr 1
    exact Fin.ext hidx
  have hP2 : ∀ y (k : Fin h.length), (k : ℕ) ∉ vars → asm y k = π' k := by
    intro y k hk
    have : ¬ vars.idxOf (k : ℕ) < vars.length := fun hlt => hk (List.idxOf_lt_length_iff.1 hlt)
    simp only [asm, dif_neg this]
  have hπ' : ∀ k : Fin h.length, (k : ℕ) ∉ vars → π' k ∈ h.getD k .empty := by
    intro k hk
    rw [getD_eq_getElem' k.2]
    exact hπ k (π' k) h[(k : ℕ)] hk (List.getElem?_eq_getElem (by rw [hπl]; exact k.2))
      (List.getElem?_eq_getElem k.2)
  have hP3 : ∀ y ∈ Set.Icc lo hi, Box.Mem (List.ofFn (asm y)) h := by
    intro y hy
    rw [box_mem_ofFn rfl]
    intro k
    by_cases hk : vars.idxOf (k : ℕ) < vars.length
    · have hvk : vars[vars.idxOf (k : ℕ)] = k := List.getElem_idxOf hk
      simp only [asm, dif_pos hk]
      have := (hmemI ⟨_, hk⟩ (y ⟨_, hk⟩)).2 ⟨hy.1 _, hy.2 _⟩
      simpa only [hvk] using this
    · have hkv : (k : ℕ) ∉ vars := fun hmem => hk (List.idxOf_lt_length_iff.2 hmem)
      rw [hP2 y k hkv]
      exact hπ' k hkv
  -- the system as a function of the variables
  let f : Fin vars.length → (Fin vars.length → ℝ) → ℝ := fun k y =>
    valW ch (progs[(k : ℕ)]'(hkp k)) (asm y)
  -- the preconditioner and the Krawczyk map
  let C : Fin vars.length → Fin vars.length → ℝ := fun i k => (((cm.getD i []).getD k 0 : ℚ) : ℝ)
  let G : (Fin vars.length → ℝ) → Fin vars.length → ℝ := fun y i => y i - ∑ k, C i k * f k y
  -- (a) slopes of the system, row by row
  have hslope : ∀ y ∈ Set.Icc lo hi, ∀ y' ∈ Set.Icc lo hi, ∀ k : Fin vars.length,
      ∃ a : Fin vars.length → ℝ, (∀ c : Fin vars.length, a c ∈ (j.getD k []).getD c .empty) ∧
        f k y - f k y' = ∑ c, a c * (y c - y' c) := by
    intro y hy y' hy' k
    have hk : (k : ℕ) < progs.length := hkp k
    obtain ⟨hk', hrowl, hq⟩ := forall₂_getElem hencl hk
    obtain ⟨s, hs, hsum⟩ := slope_row (h := h) rfl (f := valW ch progs[(k : ℕ)]) (row := jfull[(k : ℕ)])
      (fun p hp => (hq p hp).2) (x := asm y) (y := asm y') (hP3 y hy) (hP3 y' hy')
    refine ⟨fun c => s (e c), fun c => ?_, ?_⟩
    · have := hs (e c)
      rw [← hj]
      simp only [List.getD_eq_getElem?_getD, List.getElem?_map, List.getElem?_eq_getElem hk',
        List.getElem?_eq_getElem c.2, Option.map_some, Option.getD_some] at this ⊢
      exact this
    · show valW ch progs[(k : ℕ)] (asm y) - valW ch progs[(k : ℕ)] (asm y') = _
      rw [hsum, ← sum_vars rfl e (fun _ => rfl) hinj (fun j => s j * (asm y j - asm y' j))
        (fun j hj => by rw [hP2 y j hj, hP2 y' j hj, sub_self, mul_zero])]
      refine Finset.sum_congr rfl fun c _ => ?_
      rw [hP1, hP1]
  -- increments of the Krawczyk map
  have hGdiff : ∀ y ∈ Set.Icc lo hi, ∀ y' ∈ Set.Icc lo hi, ∃ B : Fin vars.length → Fin vars.length → ℝ,
      (∀ i c : Fin vars.length, B i c ∈ ((Newton.iterMatG r cm j).getD i []).getD c .empty) ∧
      ∀ i, G y i - G y' i = ∑ c, B i c * (y c - y' c) := by
    intro y hy y' hy'
    choose A hA hsum using hslope y hy y' hy'
    refine ⟨fun i c => (if c = i then 1 else 0) - ∑ k, C i k * A k c, fun i c => ?_, fun i => ?_⟩
    · rw [iterMatG_getD (hkc i) (hkj c)]
      refine Itv.subG_encl hr ?_ (precondG_encl hr hjl A hA i c (hkc i))
      by_cases hci : c = i
      · subst hci
        simpa using mem_point_cast 1
      · have : ¬ (c : ℕ) = i := fun e => hci (Fin.ext e)
        simpa [hci, this] using mem_point_cast 0
    · have h1 : G y i - G y' i = (y i - y' i) - ∑ k, C i k * (f k y - f k y') := by
        simp only [G, mul_sub, Finset.sum_sub_distrib]
        ring
      rw [h1]
      simp only [hsum, sub_mul, Finset.sum_sub_distrib, ite_mul, one_mul, zero_mul,
        Finset.sum_ite_eq', Finset.mem_univ, if_true]
      congr 1
      simp only [Finset.mul_sum, Finset.sum_mul]
      rw [Finset.sum_comm]
      refine Finset.sum_congr rfl fun c _ => Finset.sum_congr rfl fun k _ => by ring
  -- the contraction factors
  have hrows : ∀ i : Fin vars.length, ∃ qs : Fin vars.length → ℝ, (∀ c, 0 ≤ qs c) ∧
      (∀ (c : Fin vars.length) (x : ℝ), x ∈ ((Newton.iterMatG r cm j).getD i []).getD c .empty → |x| ≤ qs c) ∧
      ∑ c, qs c < 1 := by
    intro i
    have hi : (i : ℕ) < (Newton.iterMatG r cm j).length := by rw [iterMatG_length, hcm]; exact i.2
    rw [List.all_eq_true] at hrow
    have := hrow _ (List.getElem_mem hi)
    rw [← getD_eq_getElem' hi []] at this
    exact rowSum_sound this (by rw [iterMatG_row_length (hkc i), hjl])
  choose q hq0 hqB hq1 using hrows
  -- enclosure of the system at the midpoint
  have hmidmem : Box.Mem (List.ofFn (asm xr)) (Newton.midBox h vars xm) := by
    rw [box_mem_ofFn (midBox_length h vars xm)]
    intro k
    rw [midBox_getD k.2]
    by_cases hk : vars.idxOf (k : ℕ) < vars.length
    · rw [if_pos hk]
      simp only [asm, dif_pos hk]
      exact mem_point_cast _
    · rw [if_neg hk]
      have hkv : (k : ℕ) ∉ vars := fun hmem => hk (List.idxOf_lt_length_iff.2 hmem)
      rw [hP2 xr k hkv]
      exact hπ' k hkv
  have hfmk : ∀ k : Fin vars.length, f k xr ∈ fm.getD k .empty := by
    intro k
    have hk : (k : ℕ) < progs.length := hkp k
    obtain ⟨hk', hrowl, hq⟩ := forall₂_getElem hencl hk
    obtain ⟨hk2, hev⟩ := forall₂_getElem hfmF hk
    obtain ⟨mat, hmat, hmd⟩ := (hq (asm xr) (hP3 xr hxrI)).1
    rw [getD_eq_getElem' hk2]
    unfold Newton.evalItv1G at hev
    split at hev
    · rename_i v hroot
      split at hev
      · rename_i d hvd
        simp only [Option.some.injEq] at hev
        have hrel := Eval.root_rel (Alg.realWith_itvG hr hstrict) hmidmem
          (Eval.buildCalls_rel (Alg.realWith_itvG hr hstrict) _) hmat hroot
        have := hrel.2.2
        rw [hmd, hvd] at this
        rw [← hev]
        exact (List.forall₂_cons.1 this).1
      · exact absurd hev (by simp)
    · exact absurd hev (by simp)
  -- (b) the Krawczyk map sends the box into itself
  have hmaps : ∀ y ∈ Set.Icc lo hi, G y ∈ Set.Icc lo hi := by
    intro y hy
    obtain ⟨B, hB, hBsum⟩ := hGdiff y hy xr hxrI
    have hmem : ∀ i : Fin vars.length, G y i ∈ h.getD vars[(i : ℕ)] .empty := by
      intro i
      have hKi := hK i i.2
      rw [getD_eq_getElem' i.2 (0 : ℕ)] at hKi
      refine Itv.mem_of_subset hKi ?_
      have e1 : G y i = (xr i - ∑ k, C i k * f k xr) + ∑ c, B i c * (y c - xr c) := by
        rw [← hBsum i]; ring
      rw [e1]
      refine Itv.addG_encl hr (Itv.subG_encl hr (mem_point_cast _) (dotQG_encl hr hfml (fun k => f k xr) hfmk)) ?_
      refine dotIG_encl hr (by rw [iterMatG_row_length (hkc i), hjl]) (by simp [hxml])
        (fun c => B i c) (fun c => y c - xr c) (hB i) fun c => ?_
      have hc1 : (c : ℕ) < xm.length := by rw [hxml]; exact c.2
      simp only [List.getD_eq_getElem?_getD, List.getElem?_zipWith, List.getElem?_eq_getElem c.2,
        List.getElem?_eq_getElem hc1, Option.getD_some]
      refine Itv.subG_encl hr ((hmemI c (y c)).2 ⟨hy.1 c, hy.2 c⟩) ?_
      have : xr c = ((xm[(c : ℕ)] : ℚ) : ℝ) := by
        show ((xm.getD c 0 : ℚ) : ℝ) = _
        rw [getD_eq_getElem' hc1]
      rw [this]
      exact mem_point_cast _
    exact ⟨fun i => ((hmemI i _).1 (hmem i)).1, fun i => ((hmemI i _).1 (hmem i)).2⟩
  -- (a') Lipschitz bound
  have hlip : ∀ y ∈ Set.Icc lo hi, ∀ y' ∈ Set.Icc lo hi, ∃ B : Fin vars.length → Fin vars.length → ℝ,
      (∀ i c, |B i c| ≤ q i c) ∧ ∀ i, G y i - G y' i = ∑ c, B i c * (y c - y' c) := by
    intro y hy y' hy'
    obtain ⟨B, hB, hBsum⟩ := hGdiff y hy y' hy'
    exact ⟨B, fun i c => hqB i c _ (hB i c), hBsum⟩
  -- (c) the fixed point is a zero
  obtain ⟨z, hzI, hfix⟩ := krawczyk_fixed lo hi G q hq0 hq1 hlohi hmaps hlip
  have hCf : ∀ i, ∑ k, C i k * f k z = 0 := by
    intro i
    have := congrFun hfix i
    simp only [G] at this
    linarith
  have hfz : ∀ k, f k z = 0 := by
    intro k
    have h1 : ∑ i : Fin vars.length, ((((mid.getD k []).getD i 0 : ℚ) : ℝ)) * ∑ t, C i t * f t z = 0 := by
      simp [hCf]
    have h2 : ∑ i : Fin vars.length, ((((mid.getD k []).getD i 0 : ℚ) : ℝ)) * ∑ t, C i t * f t z =
        ∑ t, (∑ i : Fin vars.length, ((((mid.getD k []).getD i 0 : ℚ) : ℝ)) * C i t) * f t z := by
      simp only [Finset.mul_sum, Finset.sum_mul]
      rw [Finset.sum_comm]
      refine Finset.sum_congr rfl fun t _ => Finset.sum_congr rfl fun i _ => by ring
    rw [h2] at h1
    simp only [C, leftInvOk_sound hL, ite_mul, one_mul, zero_mul, Finset.sum_ite_eq, Finset.mem_univ,
      if_true] at h1
    exact h1
  -- conclusion
  refine ⟨List.ofFn (asm z), hP3 z hzI, fun i hi => ?_, fun p hp => ?_⟩
  · by_cases hih : i < h.length
    · rw [List.getElem?_eq_getElem (by simpa using hih), List.getElem?_eq_getElem (by rw [hπl]; exact hih)]
      simp only [List.getElem_ofFn]
      rw [hP2 z ⟨i, hih⟩ hi]
    · rw [List.getElem?_eq_none (by simpa using hih), List.getElem?_eq_none (by rw [hπl]; omega)]
  · obtain ⟨k, hk, rfl⟩ := List.getElem_of_mem hp
    obtain ⟨hk', hrowl, hq⟩ := forall₂_getElem hencl hk
    obtain ⟨mat, hmat, hmd⟩ := (hq (asm z) (hP3 z hzI)).1
    refine ⟨mat, hmat, ?_⟩
    rw [hmd]
    have := hfz ⟨k, by rw [← hlen]; exact hk⟩
    simp only [f] at this
    rw [this]

/-- **Soundness of the existence certificate, generic rounding** (thick constants selected by `ch`).
    If `existCertVarsG r progs h vars = true` for a sound rounding pair `r` then for every value `π` of
    the parameters (the coordinates outside `vars`) in their ranges in `h`, the system `progs` (thick
    constants replaced by the members selected by `ch`) has a zero `z` in the box `h` whose parameters
    are `π`. -/
theorem exists_zero_of_cert_selG (hr : r.Sound) {ch : Itv → Option ℝ} (hch : Sel ch)
    {progs : List (List Dag × Dag)} {h : Box} {vars : List ℕ}
    (hcert : Newton.existCertVarsG r progs h vars = true) (π : List ℝ) (hπl : π.length = h.length)
    (hπ : ∀ i t I, i ∉ vars → π[i]? = some t → h[i]? = some I → t ∈ I) :
    ∃ z, Box.Mem z h ∧ (∀ i, i ∉ vars → z[i]? = π[i]?) ∧ ZeroW ch progs z := by
  obtain ⟨z, h1, h2, h3⟩ :=
    exists_zero_strictG hr (restrictSel_sel hch) (restrictSel_strict hch) hcert π hπl hπ
  refine ⟨z, h1, h2, fun q hq => ?_⟩
  obtain ⟨m, hm, hd⟩ := h3 q hq
  exact ⟨m, rootW_of_restrict hm, hd⟩

/-- **Soundness of the existence certificate, real semantics, generic rounding** (systems without
    thick constants).  If `existCertVarsG r progs h vars = true` for a sound rounding pair `r` (e.g.
    `Rnd.exact`, `Rnd.dbl`) and every interval constant of `progs` is a point, then for every value `π`
    of the parameters in their ranges in `h` the system has a zero (point semantics `Alg.real`) in `h`
    with these parameters. -/
theorem exists_zero_of_certG (hr : r.Sound) {progs : List (List Dag × Dag)} {h : Box} {vars : List ℕ}
    (hpc : pointConsts progs = true)
    (hcert : Newton.existCertVarsG r progs h vars = true) (π : List ℝ) (hπl : π.length = h.length)
    (hπ : ∀ i t I, i ∉ vars → π[i]? = some t → h[i]? = some I → t ∈ I) :
    ∃ z, Box.Mem z h ∧ (∀ i, i ∉ vars → z[i]? = π[i]?) ∧ Zero progs z := by
  obtain ⟨z, h1, h2, h3⟩ := exists_zero_of_cert_selG hr chReal_sel hcert π hπl hπ
  exact ⟨z, h1, h2, h3.toZero hpc⟩

/-- square case (no parameter), thick constants selected by `ch` -/
theorem exists_zero_square_selG (hr : r.Sound) {ch : Itv → Option ℝ} (hch : Sel ch)
    {progs : List (List Dag × Dag)} {h : Box}
    (hcert : Newton.existCertVarsG r progs h (List.range h.length) = true) :
    ∃ z, Box.Mem z h ∧ ZeroW ch progs z := by
  obtain ⟨z, h1, _, h3⟩ := exists_zero_of_cert_selG hr hch hcert (List.replicate h.length 0) (by simp)
    (fun i t I hi ht _ => by
      have hi' : ¬ i < h.length := by simpa using hi
      rw [List.getElem?_eq_none (by simpa using hi')] at ht
      exact absurd ht (by simp))
  exact ⟨z, h1, h3⟩

/-- square case (no parameter, no thick constant): the box contains a zero -/
theorem exists_zero_squareG (hr : r.Sound) {progs : List (List Dag × Dag)} {h : Box}
    (hpc : pointConsts progs = true)
    (hcert : Newton.existCertVarsG r progs h (List.range h.length) = true) :
    ∃ z, Box.Mem z h ∧ Zero progs z := by
  obtain ⟨z, h1, h3⟩ := exists_zero_square_selG hr chReal_sel hcert
  exact ⟨z, h1, h3.toZero hpc⟩

/-- `replaceCertG_sound_sel` where the existence hypothesis is discharged by the existence certificate -/
theorem replaceCertG_sound_sel' (hr : r.Sound) {ch : Itv → Option ℝ} (hch : Sel ch)
    {progs : List (List Dag × Dag)}
    {c e : Box} {vars : List ℕ} (hcert : Newton.replaceCertG r progs c e vars = true)
    (hE : Newton.existCertVarsG r progs e vars = true)
    {p : List ℝ} (hp : Box.Mem p c) (hz : ZeroW ch progs p) : Box.Mem p e :=
  replaceCertG_sound_sel hr hch hcert (fun π h1 h2 => exists_zero_of_cert_selG hr hch hE π h1 h2) hp hz

/-- **Soundness of the replacement certificate, real semantics, generic rounding, no assumption left.** -/
theorem replaceCertG_sound' (hr : r.Sound) {progs : List (List Dag × Dag)} {c e : Box} {vars : List ℕ}
    (hcert : Newton.replaceCertG r progs c e vars = true) (hE : Newton.existCertVarsG r progs e vars = true)
    {p : List ℝ} (hp : Box.Mem p c) (hz : Zero progs p) : Box.Mem p e :=
  replaceCertG_sound_sel' hr chReal_sel hcert hE hp hz.toW

/-! ### existence and uniqueness -/

/-- **Exactly one zero, generic rounding** (thick constants selected by `ch`). -/
theorem exists_unique_zero_selG (hr : r.Sound) {ch : Itv → Option ℝ} (hch : Sel ch)
    {progs : List (List Dag × Dag)}
    {e u : Box} {vars : List ℕ} (hcert : Newton.existUniqueCertVarsG r progs e u vars = true)
    (π : List ℝ) (hπl : π.length = e.length)
    (hπ : ∀ i t I, i ∉ vars → π[i]? = some t → e[i]? = some I → t ∈ I) :
    ∃ z, (Box.Mem z e ∧ (∀ i, i ∉ vars → z[i]? = π[i]?) ∧ ZeroW ch progs z) ∧
      ∀ z', Box.Mem z' u → (∀ i, i ∉ vars → z'[i]? = π[i]?) → ZeroW ch progs z' → z' = z := by
  unfold Newton.existUniqueCertVarsG at hcert
  simp only [Bool.and_eq_true] at hcert
  obtain ⟨⟨hE, hU⟩, hsub⟩ := hcert
  obtain ⟨z, h1, h2, h3⟩ := exists_zero_of_cert_selG hr hch hE π hπl hπ
  refine ⟨z, ⟨h1, h2, h3⟩, fun z' hz' hpar hzero => ?_⟩
  refine unique_of_cert_selG hr hch hU hz' (Box.subset_sound hsub h1)
    (fun k hk => (hpar k hk).trans (h2 k hk).symm) fun q hq => ?_
  obtain ⟨m1, e1, d1⟩ := hzero q hq
  obtain ⟨m2, e2, d2⟩ := h3 q hq
  rw [e1, e2]
  simp [d1, d2]

/-- **Exactly one zero, real semantics, generic rounding** (systems without thick constants): if
    `existUniqueCertVarsG r progs e u vars = true` for a sound rounding pair `r`, then for every value
    `π` of the parameters in their ranges in `e`, the system has a zero `z` in `e` with these
    parameters, and every zero in the (larger) box `u` with these parameters is `z`. -/
theorem exists_unique_zero_G (hr : r.Sound) {progs : List (List Dag × Dag)} {e u : Box} {vars : List ℕ}
    (hpc : pointConsts progs = true) (hcert : Newton.existUniqueCertVarsG r progs e u vars = true)
    (π : List ℝ) (hπl : π.length = e.length)
    (hπ : ∀ i t I, i ∉ vars → π[i]? = some t → e[i]? = some I → t ∈ I) :
    ∃ z, (Box.Mem z e ∧ (∀ i, i ∉ vars → z[i]? = π[i]?) ∧ Zero progs z) ∧
      ∀ z', Box.Mem z' u → (∀ i, i ∉ vars → z'[i]? = π[i]?) → Zero progs z' → z' = z := by
  obtain ⟨z, ⟨h1, h2, h3⟩, h4⟩ := exists_unique_zero_selG hr chReal_sel hcert π hπl hπ
  exact ⟨z, ⟨h1, h2, h3.toZero hpc⟩, fun z' a b c => h4 z' a b c.toW⟩

/-! ### the instances for exact rational interval arithmetic -/

/-- the interval Jacobian computed with exact rational interval arithmetic encloses the Jacobian -/
theorem jacobianX_encl {ch : Itv → Option ℝ} (hch : Sel ch) {progs : List (List Dag × Dag)}
    {h : Box} {J : List (List Itv)} (hJ : Newton.jacobianX progs h = some J) :
    Forall₂ (fun q row => row.length = h.length ∧ ∀ p : Fin h.length → ℝ, Box.Mem (List.ofFn p) h →
      (∃ m, rootW ch q (List.ofFn p) = some m ∧ m.d = [valW ch q p]) ∧
      ∃ g : List ℝ, g.length = h.length ∧ Forall₂ RMem g row ∧
        HasFDerivAt (valW ch q) (gradR h.length g) p) progs J :=
  jacobianG_encl Rnd.exact_sound hch hJ

/-- **at most one zero** for each value of the parameters (exact interval arithmetic) -/
theorem unique_zeroX {progs : List (List Dag × Dag)} {h : Box} {vars : List ℕ}
    (hcert : Newton.uniqueCertVarsX progs h vars = true) {x y : List ℝ}
    (hx : Box.Mem x h) (hy : Box.Mem y h) (hpar : ∀ k, k ∉ vars → x[k]? = y[k]?)
    (hzx : Zero progs x) (hzy : Zero progs y) : x = y :=
  unique_zero_G Rnd.exact_sound hcert hx hy hpar hzx hzy

theorem unique_zero_squareX {progs : List (List Dag × Dag)} {h : Box}
    (hcert : Newton.uniqueCertX progs h = true) {x y : List ℝ}
    (hx : Box.Mem x h) (hy : Box.Mem y h) (hzx : Zero progs x) (hzy : Zero progs y) : x = y :=
  unique_zero_squareG Rnd.exact_sound hcert hx hy hzx hzy

/-- **a zero for every value of the parameters** (exact interval arithmetic, no thick constant) -/
theorem exists_zero_of_certX {progs : List (List Dag × Dag)} {h : Box} {vars : List ℕ}
    (hpc : pointConsts progs = true)
    (hcert : Newton.existCertVarsX progs h vars = true) (π : List ℝ) (hπl : π.length = h.length)
    (hπ : ∀ i t I, i ∉ vars → π[i]? = some t → h[i]? = some I → t ∈ I) :
    ∃ z, Box.Mem z h ∧ (∀ i, i ∉ vars → z[i]? = π[i]?) ∧ Zero progs z :=
  exists_zero_of_certG Rnd.exact_sound hpc hcert π hπl hπ

theorem exists_zero_squareX {progs : List (List Dag × Dag)} {h : Box} (hpc : pointConsts progs = true)
    (hcert : Newton.existCertX progs h = true) : ∃ z, Box.Mem z h ∧ Zero progs z :=
  exists_zero_squareG Rnd.exact_sound hpc hcert

/-- **exactly one zero** (exact interval arithmetic, no thick constant) -/
theorem exists_unique_zeroX {progs : List (List Dag × Dag)} {e u : Box} {vars : List ℕ}
    (hpc : pointConsts progs = true) (hcert : Newton.existUniqueCertVarsX progs e u vars = true)
    (π : List ℝ) (hπl : π.length = e.length)
    (hπ : ∀ i t I, i ∉ vars → π[i]? = some t → e[i]? = some I → t ∈ I) :
    ∃ z, (Box.Mem z e ∧ (∀ i, i ∉ vars → z[i]? = π[i]?) ∧ Zero progs z) ∧
      ∀ z', Box.Mem z' u → (∀ i, i ∉ vars → z'[i]? = π[i]?) → Zero progs z' → z' = z :=
  exists_unique_zero_G Rnd.exact_sound hpc hcert π hπl hπ

theorem replaceCertX_sound' {progs : List (List Dag × Dag)} {c e : Box} {vars : List ℕ}
    (hcert : Newton.replaceCertX progs c e vars = true) (hE : Newton.existCertVarsX progs e vars = true)
    {p : List ℝ} (hp : Box.Mem p c) (hz : Zero progs p) : Box.Mem p e :=
  replaceCertG_sound' Rnd.exact_sound hcert hE hp hz

/-- the instance `Rnd.dbl` (outward-rounded binary64) of the generic certificate is sound as well -/
theorem exists_zero_of_certDbl {progs : List (List Dag × Dag)} {h : Box} {vars : List ℕ}
    (hpc : pointConsts progs = true)
    (hcert : Newton.existCertVarsG Rnd.dbl progs h vars = true) (π : List ℝ) (hπl : π.length = h.length)
    (hπ : ∀ i t I, i ∉ vars → π[i]? = some t → h[i]? = some I → t ∈ I) :
    ∃ z, Box.Mem z h ∧ (∀ i, i ∉ vars → z[i]? = π[i]?) ∧ Zero progs z :=
  exists_zero_of_certG Rnd.dbl_sound hpc hcert π hπl hπ

/-! ### non-vacuity -/

/-- a box whose bounds are the doubles `a·2⁻⁵²`, `b·2⁻⁵²` -/
def B52 (a b : ℕ) : Itv := I (a / (2 ^ 52 : ℕ)) (b / (2 ^ 52 : ℕ))
/-- a box whose bounds are the doubles `a·2⁻⁵³`, `b·2⁻⁵³` -/
def B53 (a b : ℕ) : Itv := I (a / (2 ^ 53 : ℕ)) (b / (2 ^ 53 : ℕ))

/-- `x² − 2` on the box of the three consecutive doubles around `1.4142135623730951`
    (`6369051672525773·2⁻⁵²`; width 2 ulps): ACCEPTED with exact interval arithmetic, REJECTED by the
    outward-rounded test (`existCertVars`, and the instance `Rnd.dbl` of the generic test): the
    rounding errors of the rounded Krawczyk test are as large as the box -/
example : Newton.existCertVarsX [([], sqDag)] [B52 6369051672525772 6369051672525774] [0] = true := by
  decide +kernel
example : Newton.existCertVars [([], sqDag)] [B52 6369051672525772 6369051672525774] [0] = false := by
  decide +kernel
example : Newton.existCertVarsG Rnd.dbl [([], sqDag)] [B52 6369051672525772 6369051672525774] [0] = false := by
  decide +kernel
/-- even the box of 1 ulp that contains `√2` is accepted, the neighbouring box of 1 ulp (no zero) is
    rejected; the rounded test needs about 6 ulps -/
example : Newton.existCertVarsX [([], sqDag)] [B52 6369051672525772 6369051672525773] [0] = true := by
  decide +kernel
example : Newton.existCertVarsX [([], sqDag)] [B52 6369051672525773 6369051672525774] [0] = false := by
  decide +kernel
example : Newton.existCertVars [([], sqDag)] [B52 6369051672525770 6369051672525776] [0] = true := by
  decide +kernel
/-- the exact test accepts and rejects what the rounded test does on wide boxes -/
example : Newton.existCertX [([], sqDag)] [I (14/10) (145/100)] = true := by decide +kernel
example : Newton.existCertX [([], sqDag)] [I 1 2] = true := by decide +kernel
example : Newton.existCertX [([], sqDag)] [I (142/100) (145/100)] = false := by decide +kernel
example : Newton.existCertX [([], sqDag)] [I (-2) 2] = false := by decide +kernel
example : Newton.existCertX [([], sqDag)] [Itv.mk (.fin 1) .pinf] = false := by decide +kernel
example : Newton.existCertX [([], sqDag)] [I 2 1] = false := by decide +kernel
example : Newton.existCertX [([], sqP1)] [I (-1) 1] = false := by decide +kernel
/-- uniqueness: accepted on `[1,2]`, rejected on `[−2,2]` (two zeros) -/
example : Newton.jacobianX [([], sqDag)] [I 1 2] = some [[I 2 4]] := by decide +kernel
example : Newton.uniqueCertX [([], sqDag)] [I 1 2] = true := by decide +kernel
example : Newton.uniqueCertX [([], sqDag)] [I (-2) 2] = false := by decide +kernel
/-- existence in the box of 2 ulps, uniqueness in `[1,2]` -/
example : Newton.existUniqueCertVarsX [([], sqDag)] [B52 6369051672525772 6369051672525774] [I 1 2] [0] = true := by
  decide +kernel
/-- the cell `[1,3/2]` is replaced by the box of 2 ulps -/
example : Newton.replaceCertX [([], sqDag)] [I 1 (3/2)] [B52 6369051672525772 6369051672525774] [0] = true := by
  decide +kernel

/-- 2×2, circle and diagonal: the box of 2 ulps × 2 ulps around `(√½,√½)` (`√½ ≈ 6369051672525773·2⁻⁵³`)
    is accepted with exact arithmetic and rejected by the rounded test; `[−1,1]²` (two zeros, singular
    Jacobian) and a box without zero are rejected -/
example : Newton.existCertX [([], circ), ([], diag)]
    [B53 6369051672525772 6369051672525774, B53 6369051672525772 6369051672525774] = true := by decide +kernel
example : Newton.existCert [([], circ), ([], diag)]
    [B53 6369051672525772 6369051672525774, B53 6369051672525772 6369051672525774] = false := by decide +kernel
example : Newton.existCertX [([], circ), ([], diag)] [I (-1) 1, I (-1) 1] = false := by decide +kernel
example : Newton.existCertX [([], circ), ([], diag)] [I (8/10) 1, I (8/10) 1] = false := by decide +kernel
example : Newton.uniqueCertX [([], circ), ([], diag)] [I (1/2) 1, I (1/2) 1] = true := by decide +kernel
example : Newton.uniqueCertX [([], circ), ([], diag)] [I (-1) 1, I (-1) 1] = false := by decide +kernel

/-- a parameter: `x² + y² = 1`, variable `x`, parameter `y` in the 1-ulp range
    `[5404319552844595, 5404319552844596]·2⁻⁵³` (around `0.6`): for EVERY such `y` there is a zero with `x` in
    the 2-ulp range `[7205759403792792, 7205759403792794]·2⁻⁵³` (around `0.8`): accepted with exact
    arithmetic, rejected by the rounded test; a 1-ulp range for `x` that the zero leaves when `y` moves is
    rejected; a repeated variable is rejected; wide ranges as for the rounded test -/
example : Newton.existCertVarsX [([], circ)]
    [B53 7205759403792792 7205759403792794, B53 5404319552844595 5404319552844596] [0] = true := by
  decide +kernel
example : Newton.existCertVars [([], circ)]
    [B53 7205759403792792 7205759403792794, B53 5404319552844595 5404319552844596] [0] = false := by
  decide +kernel
example : Newton.existCertVarsX [([], circ)]
    [B53 7205759403792793 7205759403792794, B53 5404319552844595 5404319552844596] [0] = false := by
  decide +kernel
example : Newton.existCertVarsX [([], circ)]
    [B53 7205759403792792 7205759403792794, B53 5404319552844595 5404319552844596] [0, 0] = false := by
  decide +kernel
example : Newton.existCertVarsX [([], circ)] [I (78/100) (88/100), I (1/2) (6/10)] [0] = true := by
  decide +kernel
example : Newton.existCertVarsX [([], circ)] [I (1/2) (6/10), I (78/100) (88/100)] [1] = true := by
  decide +kernel
example : Newton.existCertVarsX [([], circ)] [I (84/100) (88/100), I (1/2) (6/10)] [0] = false := by
  decide +kernel
example : Newton.uniqueCertVarsX [([], circ)] [I (1/2) 1, I (1/2) 1] [0] = true := by decide +kernel

/-- a negative power and a division (`Itv.powIntG`, `Itv.divG`): `x⁻² − 1/2` and `2/x − x` have the
    zero `√2`; a denominator interval that contains 0, an ill-formed constant: no Jacobian -/
def invSq : Dag :=
  #[⟨.var 0, 1, 1⟩, ⟨.pow 0 (-2), 1, 1⟩, ⟨.const [Itv.point (1/2)], 1, 1⟩, ⟨.bin "sub" 1 2, 1, 1⟩]
def twoOver : Dag :=
  #[⟨.var 0, 1, 1⟩, ⟨.const [Itv.point 2], 1, 1⟩, ⟨.bin "div" 1 0, 1, 1⟩, ⟨.bin "sub" 2 0, 1, 1⟩]
example : Newton.existCertX [([], invSq)] [B52 6369051672525772 6369051672525774] = true := by decide +kernel
example : Newton.existCertX [([], twoOver)] [B52 6369051672525772 6369051672525774] = true := by decide +kernel
example : Newton.existCertX [([], invSq)] [I (-1) 2] = false := by decide +kernel
example : Newton.jacobianX [([], invDag)] [I (-1) 1] = none := by decide +kernel
example : Newton.jacobianX [([], invDag)] [I 1 2] = some [[I (-1) (-1/4)]] := by decide +kernel
example : Newton.jacobianX [([], #[⟨.const [I 3 1], 1, 1⟩])] [I 1 2] = none := by decide +kernel
/-- a thick constant: `x² − [2,3]`, accepted (existence for every selection of the constant) -/
example : Newton.existCertX [([], sqThick)] [I 1 2] = true := by decide +kernel

/-- end to end: the exact certificate PROVES that `x² − 2` has a zero between the doubles
    `6369051672525772·2⁻⁵²` and `6369051672525774·2⁻⁵²` (2 ulps around `1.4142135623730951`) -/
theorem sqrt_two_exists_2ulp : ∃ a : ℝ,
    (6369051672525772 / 2 ^ 52 ≤ a ∧ a ≤ 6369051672525774 / 2 ^ 52) ∧ a * a - 2 = 0 := by
  obtain ⟨z, hz, hzero⟩ := exists_zero_squareX (progs := [([], sqDag)])
    (h := [B52 6369051672525772 6369051672525774]) (by decide +kernel) (by decide +kernel)
  obtain ⟨a, rfl⟩ : ∃ a, z = [a] := by
    have := hz.length_eq
    match z, this with
    | [a], _ => exact ⟨a, rfl⟩
  refine ⟨a, ?_, ?_⟩
  · have := (List.forall₂_cons.1 hz).1
    have := mem_fin_iff.1 this
    norm_num at this ⊢
    exact this
  · obtain ⟨m, hm, hd⟩ := hzero _ (List.mem_singleton.2 rfl)
    rw [sq_root a] at hm
    simp only [Option.some.injEq] at hm
    subst hm
    simpa [Mat.scalar] using hd

/-- end to end with a parameter: for EVERY `y` in the 1-ulp range around `0.6` the circle has a point
    `(x,y)` with `x` in the 2-ulp range around `0.8` -/
theorem circle_param_2ulp (y : ℝ)
    (hy : 5404319552844595 / 2 ^ 53 ≤ y ∧ y ≤ 5404319552844596 / 2 ^ 53) :
    ∃ x : ℝ, (7205759403792792 / 2 ^ 53 ≤ x ∧ x ≤ 7205759403792794 / 2 ^ 53) ∧ x * x + y * y - 1 = 0 := by
  obtain ⟨z, hz, hpar, hzero⟩ := exists_zero_of_certX (progs := [([], circ)])
    (h := [B53 7205759403792792 7205759403792794, B53 5404319552844595 5404319552844596]) (vars := [0])
    (by decide +kernel) (by decide +kernel)
    [0, y] rfl (by
      intro i t J hi ht hJ
      match i, hi, ht, hJ with
      | 1, _, ht, hJ =>
        simp only [List.getElem?_cons_succ, List.getElem?_cons_zero, Option.some.injEq] at ht hJ
        subst ht; subst hJ
        refine mem_fin_iff.2 ?_
        norm_num at hy ⊢
        exact hy
      | 0, hi, _, _ => exact absurd (by simp) hi
      | (i + 2), _, ht, _ => simp at ht)
  obtain ⟨x, y', rfl⟩ : ∃ x y', z = [x, y'] := by
    have := hz.length_eq
    match z, this with
    | [a, b], _ => exact ⟨a, b, rfl⟩
  have hy' : y' = y := by
    have := hpar 1 (by simp)
    simpa using this
  subst hy'
  refine ⟨x, ?_, ?_⟩
  · have := (List.forall₂_cons.1 hz).1
    have := mem_fin_iff.1 this
    norm_num at this ⊢
    exact this
  · obtain ⟨m, hm, hd⟩ := hzero _ (List.mem_singleton.2 rfl)
    rw [circ_root x y'] at hm
    simp only [Option.some.injEq] at hm
    subst hm
    simpa [Mat.scalar] using hd

end Ibex.C09
