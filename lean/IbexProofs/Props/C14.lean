/-
  C14 — inner operators and feasibility claims never overshoot.

  The driver runs verified CHECKERS (`IbexModel/Inner.lean`) on the outputs of the real C++ code;
  the theorems below say what an accepted output means, for ALL intervals (any extended bounds),
  all DAGs (any size, sharing, vectors, matrices, applied functions), all boxes (any dimension),
  any subdivision budget, and ALL REAL POINTS — not only the sampled ones.

  A. forward inner operators  `iadd isub imul idiv imax imin isqr iminus`  (`fwd2_inside_range`,
     `fwd1_inside_range`): every real of the answer `Z` IS a value of the operator on `X × Y`
     (`Z ⊆ exact range`); `range_exact_*`: over bounded intervals the corner hull computed without
     rounding is exactly the range.  `ilog iexp iacos iasin iatan`: `fwd_oracle_inside_range` —
     relative to the MPFR values (opposite rounding) sent by the harness — with instances.
  B. inner backward projections of single operators  `ibwd_add … ibwd_pow`  (`ibwd2_all_points`,
     `ibwd1_all_points`, `ibwd_oracle_all_points`): the returned intervals are inside the inputs,
     contain the seed (inflating mode), and the operator is DEFINED at every real point of them
     and maps it into the requested image.
  C. `Function::ibwd`, `System::is_inner`, `active_ctrs`  (`total_eval_all_points`,
     `function_inner_box_all_points`, `is_inner_all_points`): a certified box has all its real
     points mapped into the image / satisfying the constraints, the functions being defined there.
  D. loup finders (`loup_point_feasible`): an accepted point satisfies every constraint exactly and
     its goal value is at most the reported loup.

  Real semantics: `Inner.realRoot ch` = the generic evaluator over ℝ (`Alg.real` operators,
  `x/0`, `sqrt` of a negative, `x^n` (n<0) at 0 undefined); an interval constant `I` of the DAG
  (constant folding of the library produces thick ones) denotes ANY selection `ch I ∈ I`.
-/
import IbexProofs.InnerExact
import IbexProofs.InnerCert

namespace Ibex.C14
open Ibex Ibex.Inner Ibex.Eval

/-! ### A. forward inner operators -/

/-- **`iadd isub imul idiv imax imin`: the answer is a subset of the exact range** (the division
    only uses denominators `y ≠ 0`: `fwd2R "idiv" x 0 = none`) -/
theorem fwd2_inside_range {op : String} {X Y Z : Itv} (h : innerFwdOk op X Y Z = some true) :
    ∀ z : ℝ, z ∈ Z → ∃ x y : ℝ, x ∈ X ∧ y ∈ Y ∧ fwd2R op x y = some z :=
  fun _ hz => innerFwdOk_sound h hz

/-- **`isqr iminus`** -/
theorem fwd1_inside_range {op : String} {X Z : Itv} (h : innerFwd1Ok op X Z = some true) :
    ∀ z : ℝ, z ∈ Z → ∃ x : ℝ, x ∈ X ∧ fwd1R op x = some z :=
  fun _ hz => innerFwd1Ok_sound h hz

/-- the exact range of `+` over bounded intervals is the corner hull computed without rounding -/
theorem range_exact_add {a b c d : ℚ} (hab : a ≤ b) (hcd : c ≤ d) (z : ℝ) :
    z ∈ Itv.addG Rnd.exact (bnd a b) (bnd c d) ↔ ∃ x y : ℝ, x ∈ bnd a b ∧ y ∈ bnd c d ∧ x + y = z :=
  Inner.range_exact_add hab hcd z

theorem range_exact_sub {a b c d : ℚ} (hab : a ≤ b) (hcd : c ≤ d) (z : ℝ) :
    z ∈ Itv.subG Rnd.exact (bnd a b) (bnd c d) ↔ ∃ x y : ℝ, x ∈ bnd a b ∧ y ∈ bnd c d ∧ x - y = z :=
  Inner.range_exact_sub hab hcd z

theorem range_exact_mul {a b c d : ℚ} (hab : a ≤ b) (hcd : c ≤ d) (z : ℝ) :
    z ∈ Itv.mulG Rnd.exact (bnd a b) (bnd c d) ↔ ∃ x y : ℝ, x ∈ bnd a b ∧ y ∈ bnd c d ∧ x * y = z :=
  Inner.range_exact_mul hab hcd z

theorem range_exact_sqr {a b : ℚ} (hab : a ≤ b) (z : ℝ) :
    z ∈ Itv.sqrG Rnd.exact (bnd a b) ↔ ∃ x : ℝ, x ∈ bnd a b ∧ x * x = z :=
  Inner.range_exact_sqr hab z

theorem range_exact_div_pos {a b c d : ℚ} (hab : a ≤ b) (hc : 0 < c) (hcd : c ≤ d) (z : ℝ) :
    z ∈ Itv.divG Rnd.exact (bnd a b) (bnd c d) ↔
      ∃ x y : ℝ, x ∈ bnd a b ∧ y ∈ bnd c d ∧ y ≠ 0 ∧ x / y = z :=
  Inner.range_exact_div_pos hab hc hcd z

/-- **`ilog iexp iacos iasin iatan`**: `f` continuous on the (order-connected) part `s` of the
    argument inside its domain; `horL`/`horU`: meaning of the two oracle bounds. -/
theorem fwd_oracle_inside_range {f : ℝ → ℝ} {s : Set ℝ} (hs : s.OrdConnected) (hf : ContinuousOn f s)
    {lowB upB : Ext} {ls us : Bool} {Z : Itv} (h : oracleFwdOk lowB ls upB us Z = true)
    (horL : ∀ z : ℝ, (if ls then lowB.toE < (z : EReal) else lowB.toE ≤ (z : EReal)) → ∃ x1 ∈ s, f x1 ≤ z)
    (horU : ∀ z : ℝ, (if us then (z : EReal) < upB.toE else (z : EReal) ≤ upB.toE) → ∃ x2 ∈ s, z ≤ f x2) :
    ∀ z : ℝ, z ∈ Z → ∃ x ∈ s, f x = z :=
  fun _ hz => oracleFwd_sound hs hf h horL horU hz

theorem iexp_inside_range {a b : ℝ} (hab : a ≤ b) {qa qb : ℚ} (ha : Real.exp a ≤ qa) (hb : (qb : ℝ) ≤ Real.exp b)
    {Z : Itv} (h : oracleFwdOk (.fin qa) false (.fin qb) false Z = true) :
    ∀ z : ℝ, z ∈ Z → ∃ x ∈ Set.Icc a b, Real.exp x = z := fun _ hz => iexp_sound hab ha hb h hz

/-- on `(-∞,b]` the limit 0 is not a value: the lower oracle bound 0 is strict -/
theorem iexp_bot_inside_range {b : ℝ} {qb : ℚ} (hb : (qb : ℝ) ≤ Real.exp b)
    {Z : Itv} (h : oracleFwdOk (.fin 0) true (.fin qb) false Z = true) :
    ∀ z : ℝ, z ∈ Z → ∃ x ∈ Set.Iic b, Real.exp x = z := fun _ hz => iexp_bot_sound hb h hz

theorem ilog_inside_range {a b : ℝ} (ha0 : 0 < a) (hab : a ≤ b) {qa qb : ℚ} (ha : Real.log a ≤ qa)
    (hb : (qb : ℝ) ≤ Real.log b) {Z : Itv} (h : oracleFwdOk (.fin qa) false (.fin qb) false Z = true) :
    ∀ z : ℝ, z ∈ Z → ∃ x ∈ Set.Icc a b, Real.log x = z := fun _ hz => ilog_sound ha0 hab ha hb h hz

theorem iatan_inside_range {a b : ℝ} (hab : a ≤ b) {qa qb : ℚ} (ha : Real.arctan a ≤ qa)
    (hb : (qb : ℝ) ≤ Real.arctan b) {Z : Itv} (h : oracleFwdOk (.fin qa) false (.fin qb) false Z = true) :
    ∀ z : ℝ, z ∈ Z → ∃ x ∈ Set.Icc a b, Real.arctan x = z := fun _ hz => iatan_sound hab ha hb h hz

theorem iasin_inside_range {a b : ℝ} (hab : a ≤ b) {qa qb : ℚ} (ha : Real.arcsin a ≤ qa)
    (hb : (qb : ℝ) ≤ Real.arcsin b) {Z : Itv} (h : oracleFwdOk (.fin qa) false (.fin qb) false Z = true) :
    ∀ z : ℝ, z ∈ Z → ∃ x ∈ Set.Icc a b, Real.arcsin x = z := fun _ hz => iasin_sound hab ha hb h hz

theorem iacos_inside_range {a b : ℝ} (hab : a ≤ b) {qa qb : ℚ} (hb : Real.arccos b ≤ qb)
    (ha : (qa : ℝ) ≤ Real.arccos a) {Z : Itv} (h : oracleFwdOk (.fin qb) false (.fin qa) false Z = true) :
    ∀ z : ℝ, z ∈ Z → ∃ x ∈ Set.Icc a b, Real.arccos x = z := fun _ hz => iacos_sound hab hb ha h hz

/-! ### B. inner backward projections of single operators -/

/-- **`ibwd_add sub mul div max min`** (`xin = yin = ∅`: non-inflating mode) -/
theorem ibwd2_all_points {op : String} {z x y xin yin x' y' : Itv} (h : ibwd2Accept op z x y xin yin x' y' = true) :
    (∀ v : ℝ, v ∈ x' → v ∈ x) ∧ (∀ v : ℝ, v ∈ y' → v ∈ y) ∧
    (∀ v : ℝ, v ∈ xin → v ∈ x') ∧ (∀ v : ℝ, v ∈ yin → v ∈ y') ∧
    (∀ v w : ℝ, v ∈ x' → w ∈ y' → ∃ r, bwd2R op v w = some r ∧ r ∈ z) := by
  simp only [ibwd2Accept, Bool.and_eq_true] at h
  obtain ⟨⟨⟨⟨h1, h2⟩, h3⟩, h4⟩, h5⟩ := h
  exact ⟨fun _ => Itv.mem_of_subset h1, fun _ => Itv.mem_of_subset h2, fun _ => Itv.mem_of_subset h3,
    fun _ => Itv.mem_of_subset h4, fun _ _ hv hw => into2_sound h5 hv hw⟩

/-- **`ibwd_sqr abs minus sqrt pow`** -/
theorem ibwd1_all_points {op : String} {n : Int} {y x xin x' : Itv} (h : ibwd1Accept op n y x xin x' = true) :
    (∀ v : ℝ, v ∈ x' → v ∈ x) ∧ (∀ v : ℝ, v ∈ xin → v ∈ x') ∧
    (∀ v : ℝ, v ∈ x' → ∃ r, bwd1R op n v = some r ∧ r ∈ y) := by
  simp only [ibwd1Accept, Bool.and_eq_true, beq_iff_eq] at h
  obtain ⟨⟨h1, h2⟩, h3⟩ := h
  exact ⟨fun _ => Itv.mem_of_subset h1, fun _ => Itv.mem_of_subset h2, fun _ hv => into1_sound h3 hv⟩

/-- **`ibwd_exp log cos sin tan`**: `E` is the oracle enclosure of `f` over the answer `x'`
    (hypothesis `hE`: MPFR at the end points and critical points) -/
theorem ibwd_oracle_all_points {f : ℝ → ℝ} {y x xin E x' : Itv} (h : ibwdoAccept y x xin E x' = true)
    (hE : ∀ v : ℝ, v ∈ x' → f v ∈ E) :
    (∀ v : ℝ, v ∈ x' → v ∈ x) ∧ (∀ v : ℝ, v ∈ xin → v ∈ x') ∧ (∀ v : ℝ, v ∈ x' → f v ∈ y) := by
  simp only [ibwdoAccept, Bool.and_eq_true] at h
  obtain ⟨⟨h1, h2⟩, h3⟩ := h
  exact ⟨fun _ => Itv.mem_of_subset h1, fun _ => Itv.mem_of_subset h2, fun v hv => Itv.mem_of_subset h3 (hE v hv)⟩

/-! ### C. whole functions -/

/-- **Total interval evaluation** (natural inclusion function with definedness): defined on the
    box ⇒ the real function is defined at every point of the box, with its value in the enclosure. -/
theorem total_eval_all_points {ch : Itv → Option ℝ} (hch : Sel ch) {funs : List Dag} {dag : Dag} {box : List Itv}
    {Z : Mat Itv} (h : evalT funs dag box = some Z) :
    ∀ p : List ℝ, Box.Mem p box → ∃ v, realRoot ch funs dag p = some v ∧ MatRel IMem Z v :=
  fun _ hp => evalT_sound hch h (inBox_of_mem hp)

/-- **`Function::ibwd`**: an accepted result box is inside the input box, contains the seed box
    (inflating mode), and ALL its real points are mapped into the requested image, the function
    being defined at each of them — for any subdivision budget `fuel`. -/
theorem function_inner_box_all_points {ch : Itv → Option ℝ} (hch : Sel ch) {funs : List Dag} {dag : Dag} {s : Spec}
    {box seed res : List Itv} {fuel : Nat} (h : ibwdfAccept funs dag s box seed res fuel = true) :
    (∀ p : List ℝ, Box.Mem p res → Box.Mem p box) ∧
    (∀ p : List ℝ, Box.Mem p seed → Box.Mem p res) ∧
    (∀ p : List ℝ, Box.Mem p res → ∃ v, realRoot ch funs dag p = some v ∧ RealSat s v) := by
  simp only [ibwdfAccept, Bool.and_eq_true, Bool.or_eq_true, beq_iff_eq] at h
  obtain ⟨⟨h1, h2⟩, h3⟩ := h
  refine ⟨fun _ hp => Box.subset_sound h1 hp, ?_, fun _ hp => certify_sound hch h3 (inBox_of_mem hp)⟩
  intro p hp
  rcases h2 with h2 | h2
  · exact absurd hp (Box.not_mem_of_isEmpty h2)
  · exact Box.subset_sound h2 hp

/-- **`System::is_inner` / `active_ctrs`**: every constraint claimed inactive (bit `false`; all of
    them when `is_inner` answers yes) is satisfied at EVERY real point of the box. -/
theorem is_inner_all_points {ch : Itv → Option ℝ} (hch : Sel ch) {ctrs : List ((List Dag × Dag) × Spec)}
    {bits : List Bool} {box : List Itv} {fuel : Nat} (h : inactiveAccept ctrs bits box fuel = true) :
    ∀ c ∈ List.zip ctrs bits, c.2 = false →
      ∀ p : List ℝ, Box.Mem p box → ∃ v, realRoot ch c.1.1.1 c.1.1.2 p = some v ∧ RealSat c.1.2 v := by
  simp only [inactiveAccept, Bool.and_eq_true, List.all_eq_true, Bool.or_eq_true, beq_iff_eq] at h
  intro c hc hbit p hp
  rcases h.2 c hc with h1 | h1
  · rw [hbit] at h1; exact absurd h1 (by simp)
  · exact certify_sound hch h1 (inBox_of_mem hp)

/-! ### D. loup points -/

/-- **Loup finders**: an accepted point satisfies every constraint (exactly, as real numbers, the
    constraint functions being defined there) and its goal value is ≤ the reported loup. -/
theorem loup_point_feasible {ch : Itv → Option ℝ} (hch : Sel ch) {funs : List (List Dag)} {ctrs : List (Dag × Spec)}
    {gfuns : List Dag} {goal : Dag} {p : List ℚ} {loup : Ext} (h : loupOk funs ctrs gfuns goal p loup = true) :
    (∀ c ∈ List.zip funs ctrs, ∃ z, realRoot ch c.1 c.2.1 (p.map (Rat.cast : ℚ → ℝ)) = some z ∧ RealSat c.2.2 z) ∧
    ∃ g : ℝ, realRoot ch gfuns goal (p.map (Rat.cast : ℚ → ℝ)) = some (Mat.scalar g) ∧ (g : EReal) ≤ loup.toE := by
  obtain ⟨a, _, b⟩ := loupOk_sound hch h
  exact ⟨a, b⟩

/-- a sample point refuted by exact rational evaluation really violates the requirement
    (the `FAIL` verdicts of the driver are not false alarms of the arithmetic) -/
theorem exact_value_is_real_value {ch : Itv → Option ℝ} (hch : Sel ch) {funs : List Dag} {dag : Dag} {q : List ℚ}
    {v : Mat ℚ} (h : evalQ funs dag q = some v) :
    ∃ z, realRoot ch funs dag (q.map (Rat.cast : ℚ → ℝ)) = some z ∧ MatRel RCast v z := evalQ_real hch h

/-! ### non-vacuity -/

def I (a b : Rat) : Itv := .mk (.fin a) (.fin b)

-- A: `[2,5] ⊆ [1,2]·[2,3] = [2,6]` accepted, `[1,5]` rejected; unbounded: `[6,+∞) ⊆ [2,+∞)·[3,4]`
example : innerFwdOk "imul" (I 1 2) (I 2 3) (I 2 5) = some true := by decide +kernel
example : innerFwdOk "imul" (I 1 2) (I 2 3) (I 1 5) = some false := by decide +kernel
example : innerFwdOk "imul" (.mk (.fin 2) .pinf) (I 3 4) (.mk (.fin 6) .pinf) = some true := by decide +kernel
example : innerFwdOk "imul" (.mk (.fin 2) .pinf) (I 3 4) (.mk (.fin 5) .pinf) = some false := by decide +kernel
-- `[1,2]/[0,1] = [1,+∞)` (pole), `[1,2]/[1,+∞) = (0,2]`: 0 is not attained
example : innerFwdOk "idiv" (I 1 2) (I 0 1) (.mk (.fin 1) .pinf) = some true := by decide +kernel
example : innerFwdOk "idiv" (I 1 2) (.mk (.fin 1) .pinf) (I (1/1000) 2) = some true := by decide +kernel
example : innerFwdOk "idiv" (I 1 2) (.mk (.fin 1) .pinf) (I 0 2) = some false := by decide +kernel
example : innerFwd1Ok "isqr" (I (-1) 2) (I 0 4) = some true := by decide +kernel
example : innerFwd1Ok "isqr" (I 1 2) (I 0 4) = some false := by decide +kernel
-- B: `x + y ∈ [0,3]` : `[0,1]×[0,2]` accepted (seed `{1}×{1}`), `[0,2]×[0,2]` overshoots
example : ibwd2Accept "add" (I 0 3) (I 0 5) (I 0 5) (I 1 1) (I 1 1) (I 0 1) (I 0 2) = true := by decide +kernel
example : ibwd2Accept "add" (I 0 3) (I 0 5) (I 0 5) (I 1 1) (I 1 1) (I 0 2) (I 0 2) = false := by decide +kernel
-- a seed that is not inside the answer, a pole of the division in the answer
example : ibwd2Accept "add" (I 0 3) (I 0 5) (I 0 5) (I 2 2) (I 1 1) (I 0 1) (I 0 2) = false := by decide +kernel
example : ibwd2Accept "div" (I 0 3) (I 0 5) (I 0 5) .empty .empty (I 0 1) (I 0 2) = false := by decide +kernel
example : ibwd2Accept "div" (I 0 3) (I 0 5) (I 0 5) .empty .empty (I 0 1) (I 1 2) = true := by decide +kernel
example : ibwd1Accept "sqrt" 0 (I 1 2) (I 0 9) .empty (I 1 4) = true := by decide +kernel
example : ibwd1Accept "sqrt" 0 (I 1 2) (I 0 9) .empty (I 0 4) = false := by decide +kernel
example : ibwd1Accept "pow" (-2) (I (1/4) 1) (I (-5) 5) .empty (I 1 2) = true := by decide +kernel
example : ibwd1Accept "pow" (-2) (I (1/4) 1) (I (-5) 5) .empty (I (-1) 2) = false := by decide +kernel

/-- nodes: 0 = x, 1 = x+x : the function `x + x` -/
def dblDag : Dag := #[⟨.var 0, 1, 1⟩, ⟨.bin "add" 0 0, 1, 1⟩]
def leq1 : Spec := .inM (Mat.scalar (.mk .ninf (.fin 1)))
-- C: `x + x ≤ 1`: `[0,1/2]` is an inner box of `[0,1]`; `[0,0.715]` (the answer of the unrepaired library) is not
example : ibwdfAccept [] dblDag leq1 [I 0 1] [.empty] [I 0 (1/2)] 3 = true := by decide +kernel
example : ibwdfAccept [] dblDag leq1 [I 0 1] [.empty] [I 0 (715/1000)] 3 = false := by decide +kernel
/-- nodes: 0 = x, 1 = x*x, 2 = x - x*x : certified only after subdivision -/
def subDag : Dag := #[⟨.var 0, 1, 1⟩, ⟨.bin "mul" 0 0, 1, 1⟩, ⟨.bin "sub" 0 1, 1, 1⟩]
def leqTenth : Spec := .inM (Mat.scalar (.mk .ninf (.fin (1/10))))
example : certify [] subDag leqTenth 0 [I (117/100) (177/100)] = 1 := by decide +kernel
example : certify [] subDag leqTenth 4 [I (117/100) (177/100)] = 0 := by decide +kernel
/-- `sqrt x - 1 ≤ 0` is NOT certified on a box with negative points (undefined there) -/
def sqrtDag : Dag := #[⟨.var 0, 1, 1⟩, ⟨.un "sqrt" 0, 1, 1⟩, ⟨.const [Itv.point 1], 1, 1⟩, ⟨.bin "sub" 1 2, 1, 1⟩]
example : inactiveAccept [(([], sqrtDag), .leq)] [false] [I 0 (1/2)] 2 = true := by decide +kernel
example : inactiveAccept [(([], sqrtDag), .leq)] [false] [I (-2) (1/2)] 2 = false := by decide +kernel
-- D: `x + x ≤ 1` (as `x + x - 1 ≤ 0` would be) at the point 1/4, goal `x + x`, loup 1/2
def ctrDag : Dag := #[⟨.var 0, 1, 1⟩, ⟨.bin "add" 0 0, 1, 1⟩, ⟨.const [Itv.point 1], 1, 1⟩, ⟨.bin "sub" 1 2, 1, 1⟩]
example : loupOk [[]] [(ctrDag, .leq)] [] dblDag [1/4] (.fin (1/2)) = true := by decide +kernel
example : loupOk [[]] [(ctrDag, .leq)] [] dblDag [3/4] (.fin 2) = false := by decide +kernel
example : loupOk [[]] [(ctrDag, .leq)] [] dblDag [1/4] (.fin (1/4)) = false := by decide +kernel

/-- the hypotheses of the theorems are satisfiable (a selection exists: `chAny_sel`) and the
    conclusion is the expected fact: every real point of `[0,1/2]` satisfies `x + x ≤ 1` -/
example (x : ℝ) (hx : x ∈ I 0 (1/2)) : x + x ≤ 1 := by
  have hacc : ibwdfAccept [] dblDag leq1 [I 0 1] [.empty] [I 0 (1/2)] 3 = true := by decide +kernel
  obtain ⟨_, _, h3⟩ := function_inner_box_all_points chAny_sel hacc
  obtain ⟨v, hv, hs⟩ := h3 [x] (.cons hx .nil)
  -- the real value of `x + x` through the generic evaluator
  have dblDag_real : realRoot chAny [] dblDag [x] = some (Mat.scalar (x + x)) := by
    simp [realRoot, root, run_eq, dblDag, step, nodeVal, binVal, Mat.zip?, Alg.realWith, Alg.real, Mat.scalar]
  rw [dblDag_real] at hv
  simp only [Option.some.injEq] at hv
  subst hv
  obtain ⟨_, _, hd⟩ := hs
  simp only [Mat.scalar] at hd
  cases hd with
  | cons h _ =>
    have h2 : ((x + x : ℝ) : EReal) ≤ ((1 : ℝ) : EReal) := by simpa [Itv.mem_mk] using h.2
    exact_mod_cast h2

end Ibex.C14
