/-
  C19 — contractor and separator combinators realise the set operation they name.

  Vocabulary (IbexProofs/Comb.lean): `Mem p b` = the real point `p : List ℝ` belongs to the box `b`;
  `CtcOK c S` = contractor contract of `c` w.r.t. the set `S` (result is a sub-box of the input;
  no point of `S ∩ input` is lost; INACTIVE reported only if nothing is removed);
  `SepOK s S` = separator contract (two sub-boxes; points outside `S` stay in the inner box,
  points of `S` stay in the outer box); `PdcOK t S` = predicate contract (YES / NO claims are true).

  Part 1: theorems on the combinators as functions of ARBITRARY sub-contractors / sub-separators
          (any `Box → Imp → Out` meeting the contract; not only synthetic leaves).
  Part 2: all combinator trees (induction over trees and lists), any leaves, any fuel.
  Part 3: what the driver's acceptance (`implementation output = model output`) implies.
  Part 4: non-vacuity.
-/
import IbexProofs.CombTree

namespace Ibex.C19.Props
open Ibex Ibex.Comb Ibex.C19

/-! ## Part 1 — combinators over arbitrary sub-contractors -/

/-- every contractor meeting the contract returns a sub-box of its input -/
theorem sub_box {c : CtcFn} {S : Set Pt} (h : CtcOK c S) (x : Box) (imp : Imp) (p : Pt) :
    Mem p (c x imp).box → Mem p x := h.contracting x imp p

/-- composition keeps every point kept by all the components -/
theorem compo {cs : List CtcFn} {Ss : List (Set Pt)} (h : List.Forall₂ CtcOK cs Ss) :
    CtcOK (compoF cs) {p | ∀ S ∈ Ss, p ∈ S} := compo_ok h

/-- union keeps every point kept by at least one component -/
theorem union {cs : List CtcFn} {Ss : List (Set Pt)} (h : List.Forall₂ CtcOK cs Ss) :
    CtcOK (unionF cs) {p | ∃ S ∈ Ss, p ∈ S} := union_ok h

/-- fix-point keeps every point its argument keeps: any number of iterations (`fuel`), any ratio -/
theorem fixpoint {c : CtcFn} {S : Set Pt} (h : CtcOK c S) (fuel : Nat) (ratio : Ext) :
    CtcOK (fixF fuel c ratio) S := fix_ok h fuel ratio

/-- q-intersection keeps every point kept by at least `q` of the components
    (`atLeast q Ss` = there is a sub-list of `q` sets all containing the point) -/
theorem qinter {cs : List CtcFn} {Ss : List (Set Pt)} (h : List.Forall₂ CtcOK cs Ss) (q : Nat) :
    CtcOK (qinterF cs q) (atLeast q Ss) := qinter_ok h q

/-- the specification of `qinter` on boxes: every point lying in `q` of the boxes is in the result -/
theorem qinter_boxes {x : Box} {boxes sub : List Box} {p : Pt} (hx : Mem p x) (hs : sub.Sublist boxes)
    (hp : ∀ b ∈ sub, Mem p b) : Mem p (qinterSpec x boxes sub.length) := mem_qinterSpec hx hs rfl hp

/-- the integer contractor keeps the points whose selected components are integers -/
theorem integer (mask : List Bool) :
    CtcOK (integerF mask) {p | List.Forall₂ (fun (b : Bool) (v : ℝ) => b = true → ∃ n : ℤ, v = n) mask p} :=
  integer_ok mask

theorem identity : CtcOK idF Set.univ := id_ok
theorem empty : CtcOK emptyF (∅ : Set Pt) := empty_ok

/-- exists: keeps every `x` such that `(x,y) ∈ S` for some `y` of the parameter box — any sub-contractor,
    any covering bisection `bis`, any sampling function, any precision, any fuel -/
theorem exists_ {c : CtcFn} {S : Set Pt} (h : CtcOK c S) (fuel : Nat) (m : List Bool) (yinit : Box) (prec : Ext)
    (bis : Box → Option (Box × Box)) (samp : Box → Box) (hbis : BisOK bis) (hsamp : ∀ y, (samp y).length = y.length) :
    CtcOK (existF fuel c m yinit prec bis samp) {p | ∃ q, Mem q yinit ∧ merge m p q ∈ S} :=
  exist_ok h fuel m yinit prec bis samp hbis hsamp

/-- for all: keeps every `x` such that `(x,y) ∈ S` for all `y` of the (non-empty) parameter box -/
theorem for_all {c : CtcFn} {S : Set Pt} (h : CtcOK c S) (fuel : Nat) (m : List Bool) (yinit : Box) (prec : Ext)
    (bis : Box → Option (Box × Box)) (samp : Box → Box) (hbis : BisOK bis) (hsamp : SampOK samp)
    (hne : ∃ q, Mem q yinit) :
    CtcOK (forallF fuel c m yinit prec bis samp) {p | ∀ q, Mem q yinit → merge m p q ∈ S} :=
  forall_ok h fuel m yinit prec bis samp hbis hsamp hne

/-- the bisection / sampling functions of the model (`LargestFirst`, midpoint) satisfy the hypotheses -/
theorem model_bisection (prec : Ext) (ratio : Rat) : BisOK (lfBisect prec ratio) := lfBisect_ok prec ratio
theorem model_sampling : SampOK midBox := midBox_ok

/-- not-in: union of contractors for pieces covering the complement of `Y` -/
theorem not_in {cs : List CtcFn} {Ss : List (Set Pt)} (h : List.Forall₂ CtcOK cs Ss) (Y : Set Pt)
    (hcover : ∀ p, p ∉ Y → ∃ S ∈ Ss, p ∈ S) : CtcOK (notInF cs) Yᶜ := notIn_ok h Y hcover

/-- the pieces computed by `Interval::complementary` do cover the complement (scalar case) -/
theorem not_in_pieces (y : Itv) (v : ℝ) (hv : ¬ v ∈ y) : ∃ J ∈ Itv.complementary y, v ∈ J := complementary_cover y v hv

/-- inverse image by `f`, given an enclosing forward and a conservative backward operator -/
theorem inverse {c : CtcFn} {S : Set Pt} (h : CtcOK c S) (f : Pt → Pt) (fwd : Box → Box) (bwd : Box → Box → Box)
    (hfwd : ∀ x p, Mem p x → Mem (f p) (fwd x))
    (hbwd : ∀ y x p, Mem p x → Mem (f p) y → Mem p (bwd y x))
    (hsub : ∀ y x, BSub (bwd y x) x) :
    CtcOK (inverseF c fwd bwd) {p | f p ∈ S} := inverse_ok h f fwd bwd hfwd hbwd hsub

/-- `CtcEmpty(pdc)` -/
theorem of_pdc {t : PdcFn} {S : Set Pt} (h : PdcOK t S) : CtcOK (ofPdcF t) Sᶜ := ofPdc_ok h

/-! separators (for boxes of dimension `n`) -/

/-- each point removed from the inner box belongs to the set, each point removed from the outer one does not -/
theorem sep_removed {n : Nat} {s : SepFn} {S : Set Pt} (h : SepOK n s S) (x : Box) (hx : x.length = n) (p : Pt)
    (hp : Mem p x) : (¬ Mem p (s x).xin → p ∈ S) ∧ (¬ Mem p (s x).xout → p ∉ S) :=
  ⟨h.removed_inner hx hp, h.removed_outer hx hp⟩

/-- both results are sub-boxes -/
theorem sep_sub_boxes {n : Nat} {s : SepFn} {S : Set Pt} (h : SepOK n s S) (x : Box) (hx : x.length = n) (p : Pt) :
    (Mem p (s x).xin → Mem p x) ∧ (Mem p (s x).xout → Mem p x) :=
  ⟨(h.subIn x hx).mem, (h.subOut x hx).mem⟩

theorem sep_pair (n : Nat) {cin cout : CtcFn} {S : Set Pt} (hi : CtcOK cin Sᶜ) (ho : CtcOK cout S) :
    SepOK n (sepPairF cin cout) S := sepPair_ok n hi ho (fun _ _ hp => hp) (fun _ hp => hp)

theorem sep_inter {n : Nat} {ss : List SepFn} {Ss : List (Set Pt)} (h : List.Forall₂ (SepOK n) ss Ss) :
    SepOK n (sepInterF ss) {p | ∀ S ∈ Ss, p ∈ S} := sepInter_ok h

theorem sep_union {n : Nat} {ss : List SepFn} {Ss : List (Set Pt)} (h : List.Forall₂ (SepOK n) ss Ss) :
    SepOK n (sepUnionF ss) {p | ∃ S ∈ Ss, p ∈ S} := sepUnion_ok h

theorem sep_not {n : Nat} {s : SepFn} {S : Set Pt} (h : SepOK n s S) : SepOK n (sepNotF s) Sᶜ := sepNot_ok h

/-- `SepQInter(list,q)`: the points belonging to all the sets but at most `q` of them -/
theorem sep_qinter {n : Nat} {ss : List SepFn} {Ss : List (Set Pt)} (h : List.Forall₂ (SepOK n) ss Ss) (q : Nat) :
    SepOK n (sepQInterF ss q) (atLeast (ss.length - q) Ss) := sepQInter_ok h q

/-! predicates (three-valued) -/

theorem pdc_and {ps : List PdcFn} {Ss : List (Set Pt)} (h : List.Forall₂ PdcOK ps Ss) :
    PdcOK (pdcAndF ps) {p | ∀ S ∈ Ss, p ∈ S} := pdcAnd_ok h
theorem pdc_or {ps : List PdcFn} {Ss : List (Set Pt)} (h : List.Forall₂ PdcOK ps Ss) :
    PdcOK (pdcOrF ps) {p | ∃ S ∈ Ss, p ∈ S} := pdcOr_ok h
theorem pdc_not {t : PdcFn} {S : Set Pt} (h : PdcOK t S) : PdcOK (pdcNotF t) Sᶜ := pdcNot_ok h

/-- the driver accepts an implementation answer equal to the logical answer, or MAYBE: then a YES
    (resp. NO) answer means that all (resp. no) points of the box are in the set -/
theorem pdc_check {t : PdcFn} {S : Set Pt} (h : PdcOK t S) (x : Box) (impl : BoolItv)
    (hacc : BoolItv.okFor (t x) impl = true) :
    (impl = .yes → ∀ q, Mem q x → q ∈ S) ∧ (impl = .no → ∀ q, Mem q x → q ∉ S) :=
  PdcVal.of_okFor hacc (h x)

/-! ## Part 2 — all trees -/

/-- any well-formed contractor tree over any leaves meeting the contract: the model evaluator meets the
    contract for the logical set of the tree (`ctcSet`), with any fuel -/
theorem tree_ctc (env : Env) (E : SetEnv) (hL : ∀ i, CtcOK (env.ctc i) (E.ctc i))
    (hP : ∀ i, PdcOK (env.pdc i) (E.pdc i)) (fuel : Nat) (t : Ctc) (ht : ctcWF t) :
    CtcOK (Ctc.eval env fuel t) (ctcSet E t) := ctc_eval_ok env E hL hP fuel t ht

/-- any well-formed separator tree (dimension `n`) -/
theorem tree_sep (env : Env) (E : SetEnv) (n : Nat) (hL : ∀ i, CtcOK (env.ctc i) (E.ctc i))
    (hP : ∀ i, PdcOK (env.pdc i) (E.pdc i)) (hS : ∀ i, SepOK n (env.sep i) (E.sep i)) (fuel : Nat)
    (t : Sep) (ht : sepWF E n t) : SepOK n (Sep.eval env fuel t) (sepSet E t) :=
  sep_eval_ok env E n hL hP hS fuel t ht

/-- any predicate tree -/
theorem tree_pdc (env : Env) (E : SetEnv) (hP : ∀ i, PdcOK (env.pdc i) (E.pdc i)) (t : Pdc) :
    PdcOK (Pdc.eval env.pdc t) (pdcSet E t) := pdc_eval_ok env E hP t

/-! ## Part 3 — the driver's acceptance on synthetic leaves -/

/-- the sets denoted by synthetic leaves (`sep`: the union `U`; `pdc`: the complement of the union `V`) -/
def synSets (L : SynLeaves) : SetEnv :=
  { ctc := fun i => unionSet (L.ctc i).boxes
    sep := fun i => unionSet (L.sep i).1
    pdc := fun i => (unionSet (L.pdc i).2)ᶜ }

/-- the pairs `(U,V)` of the separator leaves cover the `n`-dimensional space; those of each predicate
    leaf cover the space of its dimension -/
def Covering (L : SynLeaves) (n : Nat) : Prop :=
  (∀ i (p : Pt), p.length = n → p ∉ unionSet (L.sep i).2 → p ∈ unionSet (L.sep i).1) ∧
  (∀ i, ∃ k, (∀ b ∈ (L.pdc i).2, b.length = k) ∧
    ∀ p : Pt, p.length = k → p ∈ unionSet (L.pdc i).1 ∨ p ∈ unionSet (L.pdc i).2)

theorem syn_ctc (L : SynLeaves) (i : Nat) : CtcOK (L.env.ctc i) ((synSets L).ctc i) := leaf_ok (L.ctc i)
theorem syn_pdc (L : SynLeaves) {n : Nat} (h : Covering L n) (i : Nat) : PdcOK (L.env.pdc i) ((synSets L).pdc i) := by
  obtain ⟨k, hk, hc⟩ := h.2 i
  exact pdcLeaf_ok k _ _ hk hc
theorem syn_sep (L : SynLeaves) {n : Nat} (h : Covering L n) (i : Nat) : SepOK n (L.env.sep i) ((synSets L).sep i) :=
  sepLeaf_ok n _ _ _ (h.1 i) (fun _ hp => hp)

/-- the relation checked by the driver on printed boxes: both empty, or identical -/
def sameBox (a b : Box) : Prop := (Box.isEmpty a = true ∧ Box.isEmpty b = true) ∨ a = b

/-- an implementation result accepted by the driver (same box as the model) is a sub-box of the input
    that contains every point of the input box belonging to the logical set of the tree -/
theorem comb_accept (L : SynLeaves) {n : Nat} (hcov : Covering L n) (t : Ctc) (ht : ctcWF t) (fuel : Nat) (x impl : Box)
    (h : sameBox impl (Ctc.eval L.env fuel t x (allImp x)).box) :
    (∀ p, Mem p impl → Mem p x) ∧ (∀ p, Mem p x → p ∈ ctcSet (synSets L) t → Mem p impl) := by
  have ok := tree_ctc L.env (synSets L) (syn_ctc L) (syn_pdc L hcov) fuel t ht
  rcases h with ⟨h1, h2⟩ | h
  · exact ⟨fun p hp => absurd hp (not_mem_of_isEmpty h1 p),
           fun p hp hS => absurd (ok.sound x (allImp x) p hp hS) (not_mem_of_isEmpty h2 p)⟩
  · subst h
    exact ⟨fun p hp => ok.contracting x _ p hp, fun p hp hS => ok.sound x _ p hp hS⟩

/-- same for separators: each point removed from the accepted inner box is in the set, each point
    removed from the accepted outer box is not -/
theorem sep_accept (L : SynLeaves) {n : Nat} (hcov : Covering L n) (t : Sep) (ht : sepWF (synSets L) n t) (fuel : Nat)
    (x iin iout : Box) (hx : x.length = n)
    (hin : sameBox iin (Sep.eval L.env fuel t x).xin) (hout : sameBox iout (Sep.eval L.env fuel t x).xout) :
    (∀ p, Mem p iin → Mem p x) ∧ (∀ p, Mem p iout → Mem p x) ∧
    (∀ p, Mem p x → ¬ Mem p iin → p ∈ sepSet (synSets L) t) ∧
    (∀ p, Mem p x → ¬ Mem p iout → p ∉ sepSet (synSets L) t) := by
  have ok := tree_sep L.env (synSets L) n (syn_ctc L) (syn_pdc L hcov) (syn_sep L hcov) fuel t ht
  have key : ∀ {a b : Box}, sameBox a b → ∀ p, (Mem p a ↔ Mem p b) := by
    intro a b h p
    rcases h with ⟨h1, h2⟩ | h
    · exact ⟨fun hp => absurd hp (not_mem_of_isEmpty h1 p), fun hp => absurd hp (not_mem_of_isEmpty h2 p)⟩
    · rw [h]
  refine ⟨fun p hp => (ok.subIn x hx).mem ((key hin p).1 hp), fun p hp => (ok.subOut x hx).mem ((key hout p).1 hp), ?_, ?_⟩
  · intro p hp hn
    exact ok.removed_inner hx hp (fun h => hn ((key hin p).2 h))
  · intro p hp hn
    exact ok.removed_outer hx hp (fun h => hn ((key hout p).2 h))

/-! ## Part 4 — non-vacuity: concrete leaves, a concrete tree, a concrete box, a concrete point -/

namespace Example
def I (a b : Int) : Itv := .mk (.fin a) (.fin b)
/-- leaf 0 = [0,1] ∪ [4,5], leaf 1 = [2,3] (dimension 1); separator / predicate leaves: U = ℝ, V = ∅ -/
def L : SynLeaves :=
  { ctc := fun i => if i = 0 then { boxes := [[I 0 1], [I 4 5]] } else { boxes := [[I 2 3]], setInact := true }
    sep := fun _ => ([[Itv.all]], [])
    pdc := fun _ => ([[Itv.all]], []) }
/-- union(compo(L0, integer), qinter[1](L1, L0)) -/
def t : Ctc := .union [.compo [.leaf 0, .integer [true]], .qinter [.leaf 1, .leaf 0] 1]
/-- inter(S0, not(pair(empty, id))) -/
def ts : Sep := .inter [.leaf 0, .not (.pair .id .empty)]

theorem all1 (p : Pt) (hp : p.length = 1) : p ∈ unionSet [[Itv.all]] := by
  match p, hp with
  | [v], _ => exact ⟨[Itv.all], by simp, List.Forall₂.cons (by simp [Itv.all, Itv.mem_mk]) List.Forall₂.nil⟩

/-- the hypotheses of `comb_accept` / `sep_accept` are satisfiable -/
example : ctcWF t := by simp [t, ctcWF, ctcWFList]
theorem cov : Covering L 1 :=
  ⟨fun _ p hp _ => all1 p hp, fun _ => ⟨1, by simp [L], fun p hp => Or.inl (all1 p hp)⟩⟩
example : sepWF (synSets L) 1 ts := by
  simp only [ts, sepWF, sepWFList, ctcWF, ctcSet, and_true, true_and]
  intro p _ _; exact Set.mem_univ p

/-- the model evaluator on a concrete input: [-1,3] is contracted to [0,3] -/
example : (Ctc.eval L.env 10 t [I (-1) 3] [true]).box = [I 0 3] := by decide +kernel

/-- the point 1 is in the box and in the set, hence in every accepted result -/
example : (1 : ℝ) ∈ I 0 3 := by
  refine (Itv.mem_mk _ _ _).2 ⟨?_, ?_⟩
  · simp [I]
  · simp only [I, Ext.toE_fin]
    exact_mod_cast (show (1 : ℝ) ≤ 3 by norm_num)
example : ([1] : Pt) ∈ ctcSet (synSets L) t := by
  refine ⟨_, List.mem_cons_self .., ?_⟩
  intro S hS
  simp only [ctcSetList, List.mem_cons, List.not_mem_nil, or_false] at hS
  rcases hS with rfl | rfl
  · exact ⟨[I 0 1], by simp [L], List.Forall₂.cons (by simp [I, Itv.mem_mk]) List.Forall₂.nil⟩
  · exact List.Forall₂.cons (fun _ => ⟨1, by simp⟩) List.Forall₂.nil
end Example

end Ibex.C19.Props
