/-
  C01 — interval operators enclose the real operation on every input.

  Every theorem is stated about `Itv.enclOk M Z`, the check the driver applies to the
  implementation's result `Z` (`M` = the model's tightest outward-rounded hull): whenever the
  check accepts, *every* real point of the arguments is mapped into `Z`.  Together with the
  run-time correspondence (`enclOk` evaluated on the implementation's outputs) this is the
  property on the inputs exercised; the theorems themselves carry no bound on the intervals
  (any extended bounds, any real points).
-/
import IbexProofs.Arith2
import IbexProofs.Mono

namespace Ibex.C01
open Ibex

theorem enclOk_sound {M Z : Itv} (h : Itv.enclOk M Z = true) {v : ℝ} (hv : v ∈ M) : v ∈ Z := by
  simp only [Itv.enclOk, Bool.and_eq_true] at h
  exact Itv.mem_of_subset h.2 hv

/-- an accepted result is a well-formed interval (ordered bounds; NaN bounds do not parse) -/
theorem enclOk_wf {M Z : Itv} (h : Itv.enclOk M Z = true) : Z.WF = true := by
  simp only [Itv.enclOk, Bool.and_eq_true] at h; exact h.1

theorem add {X Y Z : Itv} (h : Itv.enclOk (Itv.add X Y) Z = true) {x y : ℝ} (hx : x ∈ X) (hy : y ∈ Y) :
    x + y ∈ Z := enclOk_sound h (Itv.add_encl hx hy)
theorem sub {X Y Z : Itv} (h : Itv.enclOk (Itv.sub X Y) Z = true) {x y : ℝ} (hx : x ∈ X) (hy : y ∈ Y) :
    x - y ∈ Z := enclOk_sound h (Itv.sub_encl hx hy)
theorem neg {X Z : Itv} (h : Itv.enclOk (Itv.neg X) Z = true) {x : ℝ} (hx : x ∈ X) :
    -x ∈ Z := enclOk_sound h (Itv.neg_encl hx)
theorem mul {X Y Z : Itv} (h : Itv.enclOk (Itv.mul X Y) Z = true) {x y : ℝ} (hx : x ∈ X) (hy : y ∈ Y) :
    x * y ∈ Z := enclOk_sound h (Itv.mul_encl hx hy)
theorem div {X Y Z : Itv} (h : Itv.enclOk (Itv.div X Y) Z = true) {x y : ℝ} (hx : x ∈ X) (hy : y ∈ Y)
    (hy0 : y ≠ 0) : x / y ∈ Z := enclOk_sound h (Itv.div_encl hx hy hy0)
theorem sqr {X Z : Itv} (h : Itv.enclOk (Itv.sqr X) Z = true) {x : ℝ} (hx : x ∈ X) :
    x * x ∈ Z := enclOk_sound h (Itv.sqr_encl hx)
theorem sqrt {X Z : Itv} (h : Itv.enclOk (Itv.sqrt X) Z = true) {x : ℝ} (hx : x ∈ X) (h0 : 0 ≤ x) :
    Real.sqrt x ∈ Z := enclOk_sound h (Itv.sqrt_encl hx h0)
theorem abs {X Z : Itv} (h : Itv.enclOk (Itv.abs X) Z = true) {x : ℝ} (hx : x ∈ X) :
    |x| ∈ Z := enclOk_sound h (Itv.abs_encl hx)
theorem max {X Y Z : Itv} (h : Itv.enclOk (Itv.max X Y) Z = true) {x y : ℝ} (hx : x ∈ X) (hy : y ∈ Y) :
    Max.max x y ∈ Z := enclOk_sound h (Itv.max_encl hx hy)
theorem min {X Y Z : Itv} (h : Itv.enclOk (Itv.min X Y) Z = true) {x y : ℝ} (hx : x ∈ X) (hy : y ∈ Y) :
    Min.min x y ∈ Z := enclOk_sound h (Itv.min_encl hx hy)
theorem sign {X Z : Itv} (h : Itv.enclOk (Itv.sign X) Z = true) {x : ℝ} (hx : x ∈ X) :
    (SignType.sign x : ℝ) ∈ Z := enclOk_sound h (Itv.sign_encl hx)
theorem floor {X Z : Itv} (h : Itv.enclOk (Itv.floor X) Z = true) {x : ℝ} (hx : x ∈ X) :
    ((⌊x⌋ : ℤ) : ℝ) ∈ Z := enclOk_sound h (Itv.floor_encl hx)
theorem ceil {X Z : Itv} (h : Itv.enclOk (Itv.ceil X) Z = true) {x : ℝ} (hx : x ∈ X) :
    ((⌈x⌉ : ℤ) : ℝ) ∈ Z := enclOk_sound h (Itv.ceil_encl hx)
theorem integer {X Z : Itv} (h : Itv.enclOk (Itv.integer X) Z = true) {x : ℝ} (hx : x ∈ X)
    (hint : ∃ n : ℤ, x = n) : x ∈ Z := enclOk_sound h (Itv.integer_encl hx hint)
theorem powInt {X Z : Itv} (n : ℤ) (h : Itv.enclOk (Itv.powInt X n) Z = true) {x : ℝ} (hx : x ∈ X)
    (h0 : n < 0 → x ≠ 0) : x ^ n ∈ Z := enclOk_sound h (Itv.powInt_encl n hx h0)

/-! "an empty result is returned only when no argument combination lies in the domain":
    the driver rejects an empty implementation result unless the model hull is empty
    (`subset M .empty` forces `M = .empty`), and the model hull is empty only in these cases. -/
theorem empty_result_only_if_model_empty {M : Itv} (h : Itv.enclOk M .empty = true) : M = .empty := by
  cases M with
  | empty => rfl
  | mk a b => simp [Itv.enclOk, Itv.subset] at h

theorem add_empty (X Y : Itv) : Itv.add X Y = .empty ↔ X = .empty ∨ Y = .empty := Itv.add_empty_iff X Y
theorem sub_empty (X Y : Itv) : Itv.sub X Y = .empty ↔ X = .empty ∨ Y = .empty := Itv.sub_empty_iff X Y
theorem mul_empty (X Y : Itv) : Itv.mul X Y = .empty ↔ X = .empty ∨ Y = .empty := Itv.mul_empty_iff X Y
theorem div_empty {X Y : Itv} (h : Itv.div X Y = .empty) : ∀ x y : ℝ, x ∈ X → y ∈ Y → y = 0 :=
  Itv.div_empty_imp h
theorem sqrt_empty {X : Itv} (h : Itv.sqrt X = .empty) : ∀ x : ℝ, x ∈ X → x < 0 := Itv.sqrt_empty_imp h
theorem powInt_empty {X : Itv} {n : ℤ} (h : Itv.powInt X n = .empty) : ∀ x : ℝ, x ∈ X → (n < 0 ∧ x = 0) :=
  Itv.powInt_empty_imp h

/-! Elementary functions: the driver accepts a result `Z` when it contains the (MPFR, correctly
    rounded) enclosures of the images of sample points, among them both end points. For monotone
    functions this lifts to every real point in between. -/
theorem exp_between {a b x : ℝ} {Z : Itv} (hax : a ≤ x) (hxb : x ≤ b)
    (hZa : Real.exp a ∈ Z) (hZb : Real.exp b ∈ Z) : Real.exp x ∈ Z := exp_lift hax hxb hZa hZb
theorem log_between {a b x : ℝ} {Z : Itv} (ha : 0 < a) (hax : a ≤ x) (hxb : x ≤ b)
    (hZa : Real.log a ∈ Z) (hZb : Real.log b ∈ Z) : Real.log x ∈ Z := log_lift ha hax hxb hZa hZb
theorem atan_between {a b x : ℝ} {Z : Itv} (hax : a ≤ x) (hxb : x ≤ b)
    (hZa : Real.arctan a ∈ Z) (hZb : Real.arctan b ∈ Z) : Real.arctan x ∈ Z := arctan_lift hax hxb hZa hZb
theorem asin_between {a b x : ℝ} {Z : Itv} (hax : a ≤ x) (hxb : x ≤ b)
    (hZa : Real.arcsin a ∈ Z) (hZb : Real.arcsin b ∈ Z) : Real.arcsin x ∈ Z := arcsin_lift hax hxb hZa hZb
theorem acos_between {a b x : ℝ} {Z : Itv} (hax : a ≤ x) (hxb : x ≤ b)
    (hZa : Real.arccos a ∈ Z) (hZb : Real.arccos b ∈ Z) : Real.arccos x ∈ Z := arccos_lift hax hxb hZa hZb
theorem sinh_between {a b x : ℝ} {Z : Itv} (hax : a ≤ x) (hxb : x ≤ b)
    (hZa : Real.sinh a ∈ Z) (hZb : Real.sinh b ∈ Z) : Real.sinh x ∈ Z := sinh_lift hax hxb hZa hZb
theorem asinh_between {a b x : ℝ} {Z : Itv} (hax : a ≤ x) (hxb : x ≤ b)
    (hZa : Real.arsinh a ∈ Z) (hZb : Real.arsinh b ∈ Z) : Real.arsinh x ∈ Z := arsinh_lift hax hxb hZa hZb
theorem cosh_between_nonneg {a b x : ℝ} {Z : Itv} (ha : 0 ≤ a) (hax : a ≤ x) (hxb : x ≤ b)
    (hZa : Real.cosh a ∈ Z) (hZb : Real.cosh b ∈ Z) : Real.cosh x ∈ Z := cosh_lift_nonneg ha hax hxb hZa hZb
theorem tan_between {a b x : ℝ} {Z : Itv} (ha : -(Real.pi / 2) < a) (hb : b < Real.pi / 2) (hax : a ≤ x)
    (hxb : x ≤ b) (hZa : Real.tan a ∈ Z) (hZb : Real.tan b ∈ Z) : Real.tan x ∈ Z :=
  tan_lift ha hb hax hxb hZa hZb

/-! non-vacuity: concrete instances on which the hypotheses hold -/
example : Itv.enclOk (Itv.add (.mk (.fin 1) (.fin 2)) (.mk (.fin 1) (.fin 1))) (.mk (.fin 2) (.fin 3)) = true := by
  decide +kernel
example : Itv.enclOk (Itv.mul (.mk (.fin (-1)) .pinf) (.mk (.fin 0) (.fin 2))) (.mk .ninf .pinf) = true := by
  decide +kernel
example : Itv.enclOk (Itv.div (.mk (.fin 1) (.fin 2)) (.mk (.fin 0) (.fin 4))) (.mk (.fin (1/4)) .pinf) = true := by
  decide +kernel

end Ibex.C01
