/-
  C05 — The search loses no solution: every solution of the system inside the initial box is inside a
  box of the output paving.

  What runs at run time: the real solver is observed through logging wrappers (cell buffer:
  `push` / `top` / `pop` / `flush`; contractor: one event `ctc i o` per call with the input and the
  output box).  The driver replays the log with `Cover.check cert pv log` (`IbexModel/Cover.lean`)
  against the final paving `pv` (every output box, existence boxes of solutions included, and the
  (existence box, unicity box, variables) triples of the certified solutions).

  `cover_sound` says what an accepted log means, for EVERY log (induction over the event list: no
  bound on the number of events, of cells, on the dimension): if
    * every logged contraction keeps the solutions of its input box (property C04, checked per call),
    * the replacement certificate `cert c (E,U,vars)` is sound (a solution in `c` is in `E`),
    * a solution inside a unicity box is inside the corresponding existence box,
    * existence boxes belong to the paving,
  then every solution of the root box belongs to a box of the paving.

  The invariant (`Cover.Inv`, `IbexProofs/Cover.lean`): after any prefix of the log, every solution of
  the root is in a box of the paving, or in a box of the buffer, or in the popped cell whose obligation
  is pending; and between `top` and `pop` no obligation is pending and the current (contracted) box
  keeps the solutions of the topped box, which is still in the buffer.

  The other run-time rules on the solver output are stated at the end: inner boxes
  (`provedOnBox_sound`, through C02 `root_encl`), unknown boxes (`unknownSmall_iff`,
  `diamUp_sound`), status (`statusOk_*`).
-/
import IbexProofs.Cover
import IbexProofs.Props.C02

namespace Ibex.C05
open Ibex Ibex.Cover

/-! ## the cover certificate -/

/-- **Soundness of the cover certificate**, for all logs. -/
theorem cover_sound (Sol : Set (List ℝ)) (cert : Box → Box × Box × List Nat → Bool)
    (pv : Cover.Paving) (root : Box) (rest : List Cover.Ev) (k : Nat)
    (hacc : Cover.check cert pv (.push root :: rest) = .ok k)
    (hleaf : ∀ i o, Cover.Ev.ctc i o ∈ rest → ∀ p ∈ Sol, Box.Mem p i → Box.Mem p o)
    (hcert : ∀ c eu, cert c eu = true → eu ∈ pv.unicity → ∀ p ∈ Sol, Box.Mem p c → Box.Mem p eu.1)
    (huni : ∀ eu ∈ pv.unicity, ∀ p ∈ Sol, Box.Mem p eu.2.1 → Box.Mem p eu.1)
    (hE : ∀ eu ∈ pv.unicity, eu.1 ∈ pv.boxes) :
    ∀ p ∈ Sol, Box.Mem p root → ∃ b ∈ pv.boxes, Box.Mem p b :=
  Cover.check_sound ⟨hcert, huni, hE⟩ hacc hleaf

/-- the same for the Boolean used by the driver (`checkOk`: the log starts by pushing the initial
    box and is accepted) -/
theorem checkOk_sound (Sol : Set (List ℝ)) (cert : Box → Box × Box × List Nat → Bool)
    (pv : Cover.Paving) (root : Box) (log : List Cover.Ev)
    (hacc : Cover.checkOk cert pv root log = true)
    (hleaf : ∀ i o, Cover.Ev.ctc i o ∈ log → ∀ p ∈ Sol, Box.Mem p i → Box.Mem p o)
    (hcert : ∀ c eu, cert c eu = true → eu ∈ pv.unicity → ∀ p ∈ Sol, Box.Mem p c → Box.Mem p eu.1)
    (huni : ∀ eu ∈ pv.unicity, ∀ p ∈ Sol, Box.Mem p eu.2.1 → Box.Mem p eu.1)
    (hE : ∀ eu ∈ pv.unicity, eu.1 ∈ pv.boxes) :
    ∀ p ∈ Sol, Box.Mem p root → ∃ b ∈ pv.boxes, Box.Mem p b := by
  unfold Cover.checkOk at hacc
  split at hacc
  · rename_i b rest
    simp only [Bool.and_eq_true, beq_iff_eq] at hacc
    obtain ⟨hb, hacc⟩ := hacc
    subst hb
    split at hacc
    · rename_i k hk
      exact cover_sound Sol cert pv b rest k hk
        (fun i o h => hleaf i o (List.mem_cons_of_mem _ h)) hcert huni hE
    · cases hacc
  · cases hacc

/-- without equations (no certified solution: `pv.unicity = []`) only the contractions matter -/
theorem cover_sound_no_unicity (Sol : Set (List ℝ)) (cert : Box → Box × Box × List Nat → Bool)
    (boxes : List Box) (root : Box) (rest : List Cover.Ev) (k : Nat)
    (hacc : Cover.check cert ⟨boxes, []⟩ (.push root :: rest) = .ok k)
    (hleaf : ∀ i o, Cover.Ev.ctc i o ∈ rest → ∀ p ∈ Sol, Box.Mem p i → Box.Mem p o) :
    ∀ p ∈ Sol, Box.Mem p root → ∃ b ∈ boxes, Box.Mem p b :=
  cover_sound Sol cert ⟨boxes, []⟩ root rest k hacc hleaf
    (fun _ _ _ h => by cases h) (fun _ h => by cases h) (fun _ h => by cases h)

/-- the rules used by the replay -/
theorem split2Ok_sound {c l r : Box} (h : Cover.split2Ok c l r = true) {p : List ℝ}
    (hp : Box.Mem p c) : Box.Mem p l ∨ Box.Mem p r := Cover.split2Ok_sound h hp

theorem storedOk_sound {pv : Cover.Paving} {c : Box} (h : Cover.storedOk pv c = true) {p : List ℝ}
    (hp : Box.Mem p c) :
    (∃ b ∈ pv.boxes, Box.Mem p b) ∨ (∃ eu ∈ pv.unicity, Box.Mem p eu.2.1) :=
  Cover.storedOk_sound h hp

/-! ## non-vacuity: concrete logs -/

section Examples

/-- the interval `[a,b]` with integer bounds -/
def iv (a b : Int) : Itv := .mk (.fin a) (.fin b)

def noCert : Box → Box × Box × List Nat → Bool := fun _ _ => false

/-- root `[0,4]`, contracted to `[1,3]`, bisected into `[1,2]` and `[2,3]`; `[1,2]` is emptied by the
    contractor, `[2,3]` is stored in the paving -/
def log1 : List Ev :=
  [.push [iv 0 4], .top [iv 0 4], .ctc [iv 0 4] [iv 1 3], .pop [iv 1 3],
   .push [iv 2 3], .push [iv 1 2],
   .top [iv 1 2], .ctc [iv 1 2] [.empty], .pop [.empty],
   .top [iv 2 3], .ctc [iv 2 3] [iv 2 3], .pop [iv 2 3], .flush]

def pv1 : Paving := ⟨[[iv 2 3]], []⟩

/-- the log is accepted -/
example : checkOk noCert pv1 [iv 0 4] log1 = true := by decide +kernel

/-- the same log without the contraction that empties `[1,2]` is rejected (`[1,2]` is dropped) -/
example : checkOk noCert pv1 [iv 0 4]
    [.push [iv 0 4], .top [iv 0 4], .ctc [iv 0 4] [iv 1 3], .pop [iv 1 3],
     .push [iv 2 3], .push [iv 1 2],
     .top [iv 1 2], .pop [iv 1 2],
     .top [iv 2 3], .pop [iv 2 3], .flush] = false := by decide +kernel

/-- children that do not cover the cell are rejected (`[1,3]` split into `[1,2]` and `[5/2,3]`) -/
example : checkOk noCert ⟨[[iv 1 2], [.mk (.fin (5/2)) (.fin 3)]], []⟩ [iv 0 4]
    [.push [iv 0 4], .top [iv 0 4], .ctc [iv 0 4] [iv 1 3], .pop [iv 1 3],
     .push [.mk (.fin (5/2)) (.fin 3)], .push [iv 1 2],
     .top [iv 1 2], .pop [iv 1 2],
     .top [.mk (.fin (5/2)) (.fin 3)], .pop [.mk (.fin (5/2)) (.fin 3)], .flush] = false := by
  decide +kernel

/-- a popped box that is not the result of the logged contractions is rejected -/
example : checkOk noCert pv1 [iv 0 4]
    [.push [iv 0 4], .top [iv 0 4], .pop [iv 2 3], .flush] = false := by decide +kernel

/-- a cell left in the buffer at the end must be covered (interrupted search): accepted with the
    pending box in the paving, rejected without -/
example : checkOk noCert ⟨[[iv 2 3], [iv 1 2]], []⟩ [iv 0 4]
    [.push [iv 0 4], .top [iv 0 4], .ctc [iv 0 4] [iv 1 3], .pop [iv 1 3],
     .push [iv 2 3], .push [iv 1 2]] = true := by decide +kernel
example : checkOk noCert pv1 [iv 0 4]
    [.push [iv 0 4], .top [iv 0 4], .ctc [iv 0 4] [iv 1 3], .pop [iv 1 3],
     .push [iv 2 3], .push [iv 1 2]] = false := by decide +kernel

/-- a two-dimensional bisection along the second coordinate -/
example : checkOk noCert ⟨[[iv 0 1, iv 0 1], [iv 0 1, iv 1 2]], []⟩ [iv 0 1, iv 0 2]
    [.push [iv 0 1, iv 0 2], .top [iv 0 1, iv 0 2], .pop [iv 0 1, iv 0 2],
     .push [iv 0 1, iv 1 2], .push [iv 0 1, iv 0 1],
     .top [iv 0 1, iv 0 1], .pop [iv 0 1, iv 0 1],
     .top [iv 0 1, iv 1 2], .pop [iv 0 1, iv 1 2]] = true := by decide +kernel

/-- a cell inside the unicity box of a solution is discharged; the existence box is in the paving -/
example : checkOk noCert ⟨[[iv 1 2]], [([iv 1 2], [iv 0 4], [0])]⟩ [iv 0 4]
    [.push [iv 0 4], .top [iv 0 4], .pop [iv 0 4]] = true := by decide +kernel

theorem mem_iv {t : ℝ} {a b : Int} : Box.Mem [t] [iv a b] ↔ (a : ℝ) ≤ t ∧ t ≤ (b : ℝ) := by
  rw [Box.mem_cons]
  simp only [iv, Itv.mem_mk, Ext.toE_fin, EReal.coe_le_coe_iff, Rat.cast_intCast]
  constructor
  · rintro ⟨h, -⟩; exact h
  · intro h; exact ⟨h, Box.mem_nil⟩

/-- the hypotheses of `cover_sound` are satisfiable on `log1` with a non-empty solution set:
    `Sol = {5/2}`; the conclusion is not vacuous (`5/2` is in the root) -/
example : ∃ b ∈ pv1.boxes, Box.Mem [(5/2 : ℝ)] b := by
  refine cover_sound {[(5/2 : ℝ)]} noCert pv1 [iv 0 4] log1.tail 0 (by decide +kernel) ?_
    (fun _ _ h => by cases h) (fun _ h => by cases h) (fun _ h => by cases h)
    [(5/2 : ℝ)] rfl (mem_iv.2 (by norm_num))
  intro i o h p hp hi
  have hp : p = [(5/2 : ℝ)] := hp
  subst hp
  simp only [log1, List.tail_cons, List.mem_cons, Ev.ctc.injEq, reduceCtorEq, false_or,
    List.not_mem_nil, or_false] at h
  rcases h with ⟨rfl, rfl⟩ | ⟨rfl, rfl⟩ | ⟨rfl, rfl⟩
  · exact mem_iv.2 (by norm_num)
  · exact absurd (mem_iv.1 hi) (by norm_num)
  · exact hi

end Examples

/-! ## the other run-time rules on the solver output -/

/-- the sign condition named by `spec` holds for `x` -/
def SignHolds (spec : String) (x : ℝ) : Prop :=
  (spec = "leq" ∧ x ≤ 0) ∨ (spec = "lt" ∧ x < 0) ∨ (spec = "geq" ∧ 0 ≤ x) ∨ (spec = "gt" ∧ 0 < x)

theorem signProved_sound {spec : String} {z : Itv} (h : signProved spec z = true) {x : ℝ}
    (hx : x ∈ z) : SignHolds spec x := by
  unfold signProved at h
  split at h
  · rename_i lo hi
    rw [Ext.le_iff] at h
    exact Or.inl ⟨rfl, by simpa using le_trans hx.2 h⟩
  · rename_i lo hi
    rw [Ext.lt_iff] at h
    exact Or.inr (Or.inl ⟨rfl, by simpa using lt_of_le_of_lt hx.2 h⟩)
  · rename_i lo hi
    rw [Ext.le_iff] at h
    exact Or.inr (Or.inr (Or.inl ⟨rfl, by simpa using le_trans h hx.1⟩))
  · rename_i lo hi
    rw [Ext.lt_iff] at h
    exact Or.inr (Or.inr (Or.inr ⟨rfl, by simpa using lt_of_lt_of_le h hx.1⟩))
  · cases h

/-- **Inner boxes**: when `provedOnBox funs dag spec box` holds, the constraint `dag spec 0` holds
    at EVERY real point of the box at which the expression is defined (every component of its value,
    for a vector-valued constraint). -/
theorem provedOnBox_sound {funs : List Dag} {dag : Dag} {spec : String} {box : Box}
    (h : provedOnBox funs dag spec box = true) {p : List ℝ} (hp : Box.Mem p box) {v : Mat ℝ}
    (hv : Eval.root Alg.real p (Eval.buildCalls Alg.real funs) dag = some v) :
    ∀ x ∈ v.d, SignHolds spec x := by
  unfold provedOnBox at h
  split at h
  · rename_i z hz
    have hm : MatMem v z := C02.root_encl hp hv hz
    obtain ⟨-, -, hd⟩ := hm
    intro x hx
    obtain ⟨i, hi, rfl⟩ := List.getElem_of_mem hx
    have hi' : i < z.d.length := hd.length_eq ▸ hi
    have hxI : v.d[i] ∈ z.d[i] := (forall₂_iff_getElem?.1 hd).2 i _ _
      (List.getElem?_eq_getElem hi) (List.getElem?_eq_getElem hi')
    exact signProved_sound (List.all_eq_true.1 h _ (List.getElem_mem hi')) hxI
  · cases h

/-- all the constraints of an inner box -/
theorem innerOk_sound {cs : List ((List Dag × Dag) × String)} {box : Box}
    (h : innerOk cs box = true) {p : List ℝ} (hp : Box.Mem p box) :
    ∀ c ∈ cs, ∀ v, Eval.root Alg.real p (Eval.buildCalls Alg.real c.1.1) c.1.2 = some v →
      ∀ x ∈ v.d, SignHolds c.2 x :=
  fun c hc _ hv => provedOnBox_sound (List.all_eq_true.1 h c hc) hp hv

/-- **Unknown boxes**: the rule, index-wise -/
theorem unknownSmall_iff {b : Box} {eps : List Ext} :
    unknownSmall b eps = true ↔
      b.length = eps.length ∧ ∀ (i : Nat) I e, b[i]? = some I → eps[i]? = some e →
        Ext.le (Box.diamUp I) e = true ∨ Box.bisectable I = false := by
  simp only [unknownSmall, Bool.and_eq_true, beq_iff_eq, List.all_eq_true, Bool.or_eq_true,
    Bool.not_eq_true']
  constructor
  · rintro ⟨hl, h⟩
    refine ⟨hl, fun i I e hI he => h (I, e) ?_⟩
    rw [List.mem_iff_getElem?]
    exact ⟨i, by simp [List.getElem?_zip_eq_some, hI, he]⟩
  · rintro ⟨hl, h⟩
    refine ⟨hl, fun q hq => ?_⟩
    obtain ⟨i, hi⟩ := List.mem_iff_getElem?.1 hq
    obtain ⟨h1, h2⟩ := List.getElem?_zip_eq_some.1 hi
    exact h i q.1 q.2 h1 h2

/-- `diamUp` bounds the distance of two points of the interval -/
theorem diamUp_sound {I : Itv} {x y : ℝ} (hx : x ∈ I) (hy : y ∈ I) :
    ((x - y : ℝ) : EReal) ≤ (Box.diamUp I).toE := by
  cases I with
  | empty => exact absurd hx (Itv.not_mem_empty x)
  | mk a b =>
    have h2 : ((-y : ℝ) : EReal) ≤ (Ext.neg a).toE := by
      rw [Ext.toE_neg, EReal.coe_neg]
      exact EReal.neg_le_neg_iff.2 hy.1
    have := le_addHi b (Ext.neg a) x (-y) hx.2 h2
    rwa [← sub_eq_add_neg] at this

/-- a component of an unknown box that satisfies the width clause: any two of its points are at
    distance at most `eps` -/
theorem unknownSmall_dist {I : Itv} {e : Ext} (h : Ext.le (Box.diamUp I) e = true) {x y : ℝ}
    (hx : x ∈ I) (hy : y ∈ I) : ((|x - y| : ℝ) : EReal) ≤ e.toE := by
  rw [Ext.le_iff] at h
  rcases abs_cases (x - y) with ⟨e1, -⟩ | ⟨e1, -⟩
  · rw [e1]; exact le_trans (diamUp_sound hx hy) h
  · rw [e1, neg_sub]; exact le_trans (diamUp_sound hy hx) h

/-- **Status**: the rule, status by status -/
theorem statusOk_success {nsol nbnd nunk npend ninner : Nat} :
    statusOk "SUCCESS" nsol nbnd nunk npend ninner = true ↔ nunk = 0 ∧ npend = 0 := by
  simp [statusOk]

theorem statusOk_infeasible {nsol nbnd nunk npend ninner : Nat} :
    statusOk "INFEASIBLE" nsol nbnd nunk npend ninner = true ↔
      nsol = 0 ∧ nbnd = 0 ∧ nunk = 0 ∧ npend = 0 ∧ ninner = 0 := by
  simp [statusOk]; omega

theorem statusOk_not_all_validated {nsol nbnd nunk npend ninner : Nat} :
    statusOk "NOT_ALL_VALIDATED" nsol nbnd nunk npend ninner = true ↔ npend = 0 ∧ 0 < nunk := by
  simp [statusOk]

theorem statusOk_interrupted {nsol nbnd nunk npend ninner : Nat} :
    statusOk "CELL_OVERFLOW" nsol nbnd nunk npend ninner = true ∧
      statusOk "TIME_OUT" nsol nbnd nunk npend ninner = true := by
  simp [statusOk]

/-- no other status is accepted -/
theorem statusOk_cases {st : String} {nsol nbnd nunk npend ninner : Nat}
    (h : statusOk st nsol nbnd nunk npend ninner = true) :
    st = "SUCCESS" ∨ st = "INFEASIBLE" ∨ st = "NOT_ALL_VALIDATED" ∨ st = "CELL_OVERFLOW" ∨
      st = "TIME_OUT" := by
  unfold statusOk at h
  split at h <;> simp_all

end Ibex.C05
