/-
  C18 — Pavings survive save/load; an interrupted search can be resumed without loss.

  PART 1 (this section): the COV file format.  Model: `IbexModel/Cov.lean` (`encode`, `decode k`, `WF k`),
  lemmas: `IbexProofs/Cov.lean`.  `decode k` is the reader of class `k` (`CovXxx(const char* filename)`),
  `encode f` the bytes of the header chain and of the layers of `f`, `WF k f` the decidable well-formedness
  of the content of an object of class `k` (canonical chain, exactly the layers of `k`, dimensions and counts
  consistent, index lists strictly increasing / in range / designating boxes of the required parent status,
  varsets duplicate-free and in range, names without NUL, integers on 32 bits).
  Doubles are raw 64-bit patterns (`UInt64`): NaN payloads and signed zeros round-trip bit for bit.
  No theorem has a bound on dimensions, counts or sizes.

  The run-time correspondence (`covsave` / `covload` ops of the driver) checks on generated objects that the
  bytes written by `save()` decode (with the model) to the content of the object, that this content is `WF`,
  that the real reader loads it back identically, and on corrupted files that the real reader and `decode`
  reject the same files and otherwise load the same content.

  PART 2 (interrupted search / resume) is to be added below by the second half of C18.
-/
import IbexProofs.Cov

namespace Ibex.C18
open Ibex.Cov

/-! ## Part 1 — save / load round trip, rejection of malformed files -/

/-- **save then load is the identity**: the file written for a well-formed content of class `k` is accepted
    by the reader of class `k`, which returns exactly this content and consumes the whole file. -/
theorem decode_encode (k : Kind) (f : CovFile) (h : WF k f = true) :
    decode k (encode f) = .ok (f, []) := by
  have := decode_complete k f [] h
  simpa using this

/-- the same with arbitrary bytes after the file (the readers never look beyond the last layer) -/
theorem decode_encode_trailing (k : Kind) (f : CovFile) (rest : Bytes) (h : WF k f = true) :
    decode k (encode f ++ rest) = .ok (f, rest) :=
  decode_complete k f rest h

/-- **an accepted file IS the canonical encoding of what it loads as** (plus the bytes the reader did not
    look at): for every byte string, every class of reader. Hence a corrupted file is either rejected, or
    it is byte for byte the well-formed encoding of the (other) content it is loaded as. -/
theorem encode_decode (k : Kind) {bs rest : Bytes} {f : CovFile} (h : decode k bs = .ok (f, rest)) :
    encode f ++ rest = bs :=
  (decode_sound k h).symm

/-- two different files never load as the same content with the same unread rest -/
theorem load_injective (k : Kind) {bs₁ bs₂ rest : Bytes} {f : CovFile}
    (h₁ : decode k bs₁ = .ok (f, rest)) (h₂ : decode k bs₂ = .ok (f, rest)) : bs₁ = bs₂ := by
  rw [← encode_decode k h₁, ← encode_decode k h₂]

/-- **a corrupted file is never loaded as the original content**: if `bs` has the length of the file saved
    for `f` but differs from it (any number of flipped / replaced bytes), then the reader either rejects
    `bs` or returns a content different from `f`. -/
theorem corrupted_not_loaded_as_original (k : Kind) (f : CovFile) (bs : Bytes)
    (hlen : bs.length = (encode f).length) (hne : bs ≠ encode f) :
    ∀ f' rest, decode k bs = .ok (f', rest) → f' ≠ f := by
  intro f' rest h heq
  subst heq
  have e := encode_decode k h
  have : rest = [] := by
    have hl := congrArg List.length e
    simp only [List.length_append] at hl
    exact List.eq_nil_of_length_eq_zero (by omega)
  subst this
  exact hne (by simpa using e.symm)

/-- **every truncation of a saved file is rejected** by the reader of the class that saved it. -/
theorem truncation_rejected (k : Kind) (f : CovFile) (h : WF k f = true) (pre ext : Bytes)
    (hcut : pre ++ ext = encode f) (hne : ext ≠ []) : ∃ e, decode k pre = .error e := by
  cases hd : decode k pre with
  | error e => exact ⟨e, rfl⟩
  | ok x =>
    obtain ⟨f', r'⟩ := x
    have h1 := stable_decode k pre f' r' ext hd
    rw [hcut, decode_encode k f h] at h1
    simp only [Except.ok.injEq, Prod.mk.injEq] at h1
    have : ext = [] := (List.append_eq_nil_iff.mp h1.2.symm).2
    exact absurd this hne

/-- what a reader returns does not depend on the bytes that follow the part it consumed -/
theorem load_ignores_trailing (k : Kind) {bs rest : Bytes} {f : CovFile} (ext : Bytes)
    (h : decode k bs = .ok (f, rest)) : decode k (bs ++ ext) = .ok (f, rest ++ ext) :=
  stable_decode k bs f rest ext h

/-! ### the hypotheses are satisfiable, the error paths are reachable -/

/-- solver data: n = 2, m = 1, three boxes: a solution (with varset {1} and unicity box), a boundary box
    (varset {0}), a pending box; NaN payload, -0 and infinities in the bounds -/
def exSol : CovFile :=
  { ids := [0, 0, 0, 0, 0, 0], vers := [1, 1, 1, 1, 1, 2]
    cov := some ⟨2⟩
    list := some ⟨[[(0x3ff0000000000000, 0x4000000000000000), (0x8000000000000000, 0x0000000000000000)],
                   [(0xfff0000000000000, 0x7ff0000000000000), (0x7ff8000000000123, 0x7ff8000000000123)],
                   [(0x0000000000000001, 0x7fefffffffffffff), (0x4008000000000000, 0x4008000000000000)]]⟩
    iu := some ⟨[]⟩
    ibu := some ⟨1, [0]⟩
    man := some ⟨1, 0, 0, [⟨0, [1], [(0x3fe0000000000000, 0x4004000000000000), (0xbff0000000000000, 0x3ff0000000000000)]⟩],
                 [⟨1, [0]⟩]⟩
    sol := some ⟨[[120], [121, 91, 49, 93]], 3, 0x3ff8000000000000, 17, [2]⟩ }

example : WF .sol exSol = true := by decide +kernel
example : (encode exSol).length = 291 := by decide +kernel
example : decode .sol (encode exSol) = .ok (exSol, []) := decode_encode _ _ (by decide +kernel)

/-- optimizer data in the extended space: n = 3, one box (the loup point), loup found -/
def exOpt : CovFile :=
  { ids := [0, 0, 1], vers := [1, 1, 1]
    cov := some ⟨3⟩
    list := some ⟨[[(0x3ff0000000000000, 0x3ff0000000000000), (0, 0), (0xc000000000000000, 0x4000000000000000)]]⟩
    opt := some ⟨[[], [], []], 4, 1, 0xc000000000000000, 0x7ff0000000000000, 0x4000000000000000, 1, 0xbff0000000000000, 4294967295⟩ }

example : WF .opt exOpt = true := by decide +kernel

/-- an inner/unknown list without any box (counts zero) -/
def exIU0 : CovFile := { ids := [0, 0, 0], vers := [1, 1, 1], cov := some ⟨4⟩, list := some ⟨[]⟩, iu := some ⟨[]⟩ }
example : WF .iu exIU0 = true := by decide +kernel

/-- the file of `exSol` with the pending index replaced by 0 (a solution box) is rejected: bad index -/
example : (match decode .sol ((encode exSol).take 287 ++ [0, 0, 0, 0]) with
           | .error .badIndex => true | _ => false) = true := by decide +kernel
/-- ... cut after 100 bytes: unexpected end of file -/
example : (match decode .sol ((encode exSol).take 100) with | .error .eof => true | _ => false) = true := by
  decide +kernel
/-- ... with the version of the last level 2 -> 3: the solver layer is skipped (by design of the readers: "common
    prefix" reading), the content loaded is another one and the solver bytes are left unread -/
example : (match decode .sol ((encode exSol).take 68 ++ [3, 0, 0, 0] ++ (encode exSol).drop 72) with
           | .ok (f, rest) => f.sol.isNone && f.man.isSome && rest.length == 31 | _ => false) = true := by
  decide +kernel

end Ibex.C18
