/-
  C01, interval vectors and matrices — sums, differences, scalings, dot / outer / matrix-vector /
  vector-matrix / matrix-matrix products, Hadamard product, transposition.

  Run time (`vecop` lines of `h_itv c01vec`): the result `R` of the real `IntervalVector` /
  `IntervalMatrix` operator must contain, entry by entry, the EXACT interval result of the model
  (`VecOps.vecopOk`).  The theorems say what acceptance means for all real arguments:
  `mulOk_sound` (every product family), `mapOk2_sound` (entrywise operators), `scaleOk_sound`, `transOk_sound`.
  Since each variable occurs once per entry, the exact interval result is the range of the real operation, so
  a correct implementation is never rejected (any summation order, any outward rounding).
-/
import IbexProofs.ArithG
import IbexProofs.Bwd

namespace Ibex.C01
open Ibex Ibex.VecOps List

/-- real dot product of the common prefix -/
def dotRR (x y : List ℝ) : ℝ := ((List.zip x y).map fun q => q.1 * q.2).sum

abbrev Mem (x : ℝ) (X : Itv) : Prop := x ∈ X

theorem dot_fold_encl :
    ∀ {x : List ℝ} {u : List Itv}, Forall₂ Mem x u → ∀ {y : List ℝ} {v : List Itv}, Forall₂ Mem y v →
      ∀ {acc : ℝ} {A : Itv}, acc ∈ A →
      acc + dotRR x y ∈ (List.zip u v).foldl
        (fun acc (p : Itv × Itv) => Itv.addG Rnd.exact acc (Itv.mulG Rnd.exact p.1 p.2)) A := by
  intro x u hx
  induction hx with
  | nil => intro y v _ acc A hacc; simpa [dotRR] using hacc
  | cons hx0 _ ih =>
    intro y v hy acc A hacc
    cases hy with
    | nil => simpa [dotRR] using hacc
    | cons hy0 hys =>
      simp only [List.zip_cons_cons, List.foldl_cons]
      have hstep := Itv.addG_encl Rnd.exact_sound hacc (Itv.mulG_encl Rnd.exact_sound hx0 hy0)
      have := ih hys hstep
      simp only [dotRR, List.zip_cons_cons, List.map_cons, List.sum_cons] at this ⊢
      rw [← add_assoc]
      exact this

/-- **dot product**: `Σ xₖ·yₖ ∈ dotX u v` for all reals `xₖ ∈ uₖ`, `yₖ ∈ vₖ` (any length) -/
theorem dotX_encl {x y : List ℝ} {u v : List Itv} (hx : Forall₂ Mem x u) (hy : Forall₂ Mem y v) :
    dotRR x y ∈ dotX u v := by
  have := dot_fold_encl hx hy (acc := 0) (A := Itv.point 0) (Bwd.mem_point_zero.2 rfl)
  simpa [dotX] using this

/-- **accepted product** (dot, outer, matrix-vector, vector-matrix, matrix-matrix): entry `(i,j)` of the
    implementation's result contains `Σ xₖ·yₖ` for all reals in row `i` of `A` and column `j` of `B` -/
theorem mulOk_sound {A B R : Mat Itv} (h : mulOk A B R = true) {i j : ℕ} (hi : i < A.r) (hj : j < B.c)
    {x y : List ℝ} (hx : Forall₂ Mem x (A.row i)) (hy : Forall₂ Mem y (B.col j)) :
    ∃ r, R.get? i j = some r ∧ dotRR x y ∈ r := by
  simp only [mulOk, Bool.and_eq_true, List.all_eq_true, List.mem_range] at h
  have := h.2 i hi j hj
  split at this
  · rename_i r hr
    exact ⟨r, hr, Itv.mem_of_subset this (dotX_encl hx hy)⟩
  · cases this

theorem zip_all3 {f : (Itv × Itv) × Itv → Bool} {l m z : List Itv}
    (h : (List.zip (List.zip l m) z).all f = true) {k : ℕ} {a b c : Itv}
    (ha : l[k]? = some a) (hb : m[k]? = some b) (hc : z[k]? = some c) : f ((a, b), c) = true := by
  rw [List.all_eq_true] at h
  apply h
  rw [List.mem_iff_getElem?]
  exact ⟨k, by simp [List.getElem?_zip_eq_some, ha, hb, hc]⟩

/-- **accepted entrywise operator** (sum, difference, Hadamard product, opposite): entry `k` of the result
    contains `g x y` for all reals of the `k`-th entries, when `f` encloses `g` -/
theorem mapOk2_sound {f : Itv → Itv → Itv} {g : ℝ → ℝ → ℝ}
    (hf : ∀ {a b : Itv} {x y : ℝ}, x ∈ a → y ∈ b → g x y ∈ f a b)
    {A B R : Mat Itv} (h : mapOk2 f A B R = true) {k : ℕ} {a b r : Itv}
    (ha : A.d[k]? = some a) (hb : B.d[k]? = some b) (hr : R.d[k]? = some r) {x y : ℝ}
    (hx : x ∈ a) (hy : y ∈ b) : g x y ∈ r := by
  simp only [mapOk2, Bool.and_eq_true] at h
  exact Itv.mem_of_subset (zip_all3 h.2 ha hb hr) (hf hx hy)

theorem add_entry {A B R : Mat Itv} (h : vecopOk "add" A B R = true) {k : ℕ} {a b r : Itv}
    (ha : A.d[k]? = some a) (hb : B.d[k]? = some b) (hr : R.d[k]? = some r) {x y : ℝ}
    (hx : x ∈ a) (hy : y ∈ b) : x + y ∈ r :=
  mapOk2_sound (g := (· + ·)) (fun hx hy => Itv.addG_encl Rnd.exact_sound hx hy) (by simpa [vecopOk] using h) ha hb hr hx hy

theorem sub_entry {A B R : Mat Itv} (h : vecopOk "sub" A B R = true) {k : ℕ} {a b r : Itv}
    (ha : A.d[k]? = some a) (hb : B.d[k]? = some b) (hr : R.d[k]? = some r) {x y : ℝ}
    (hx : x ∈ a) (hy : y ∈ b) : x - y ∈ r :=
  mapOk2_sound (g := (· - ·)) (fun hx hy => Itv.subG_encl Rnd.exact_sound hx hy) (by simpa [vecopOk] using h) ha hb hr hx hy

theorem hadamard_entry {A B R : Mat Itv} (h : vecopOk "had" A B R = true) {k : ℕ} {a b r : Itv}
    (ha : A.d[k]? = some a) (hb : B.d[k]? = some b) (hr : R.d[k]? = some r) {x y : ℝ}
    (hx : x ∈ a) (hy : y ∈ b) : x * y ∈ r :=
  mapOk2_sound (g := (· * ·)) (fun hx hy => Itv.mulG_encl Rnd.exact_sound hx hy) (by simpa [vecopOk] using h) ha hb hr hx hy

theorem neg_entry {A B R : Mat Itv} (h : vecopOk "neg" A B R = true) {k : ℕ} {a r : Itv}
    (ha : A.d[k]? = some a) (hr : R.d[k]? = some r) {x : ℝ} (hx : x ∈ a) : -x ∈ r := by
  have := mapOk2_sound (g := fun x _ => 0 - x) (f := fun a _ => Itv.subG Rnd.exact (Itv.point 0) a)
    (fun hx _ => Itv.subG_encl Rnd.exact_sound (Bwd.mem_point_zero.2 rfl) hx)
    (by simpa [vecopOk] using h) ha ha hr hx hx
  simpa using this

/-- **accepted scaling** `s·B` -/
theorem scaleOk_sound {s : Itv} {B R : Mat Itv} (h : scaleOk s B R = true) {k : ℕ} {b r : Itv}
    (hb : B.d[k]? = some b) (hr : R.d[k]? = some r) {t y : ℝ} (ht : t ∈ s) (hy : y ∈ b) : t * y ∈ r := by
  simp only [scaleOk, Bool.and_eq_true] at h
  have : Itv.subset (Itv.mulG Rnd.exact s b) r = true := by
    have hall := h.2
    rw [List.all_eq_true] at hall
    apply hall (b, r)
    rw [List.mem_iff_getElem?]
    exact ⟨k, by simp [List.getElem?_zip_eq_some, hb, hr]⟩
  exact Itv.mem_of_subset this (Itv.mulG_encl Rnd.exact_sound ht hy)

/-- **accepted transposition**: entry `k` of the result contains entry `k` of the transposed operand -/
theorem transOk_sound {A R : Mat Itv} (h : transOk A R = true) {k : ℕ} {a r : Itv}
    (ha : A.transpose.d[k]? = some a) (hr : R.d[k]? = some r) {x : ℝ} (hx : x ∈ a) : x ∈ r := by
  simp only [transOk, Bool.and_eq_true] at h
  have : Itv.subset a r = true := by
    have hall := h.2
    rw [List.all_eq_true] at hall
    apply hall (a, r)
    rw [List.mem_iff_getElem?]
    exact ⟨k, by simp [List.getElem?_zip_eq_some, ha, hr]⟩
  exact Itv.mem_of_subset this hx

/-! ### non-vacuity -/

section Examples
def iv (a b : Int) : Itv := .mk (.fin a) (.fin b)

/-- `([1,2], [−1,1]) · ([3,4], [2,2])ᵀ = [1,10]` exactly; `[1,10]` and `[0,11]` are accepted, `[2,10]` is not -/
example : dotX [iv 1 2, iv (-1) 1] [iv 3 4, iv 2 2] = iv 1 10 := by decide +kernel
example : vecopOk "mul" ⟨1, 2, [iv 1 2, iv (-1) 1]⟩ ⟨2, 1, [iv 3 4, iv 2 2]⟩ ⟨1, 1, [iv 0 11]⟩ = true := by decide +kernel
example : vecopOk "mul" ⟨1, 2, [iv 1 2, iv (-1) 1]⟩ ⟨2, 1, [iv 3 4, iv 2 2]⟩ ⟨1, 1, [iv 2 10]⟩ = false := by decide +kernel
/-- an outer product and a transposition -/
example : vecopOk "mul" ⟨2, 1, [iv 1 2, iv (-1) 1]⟩ ⟨1, 2, [iv 3 4, iv 2 2]⟩
    ⟨2, 2, [iv 3 8, iv 2 4, iv (-4) 4, iv (-2) 2]⟩ = true := by decide +kernel
example : vecopOk "trans" ⟨2, 3, [iv 1 1, iv 2 2, iv 3 3, iv 4 4, iv 5 5, iv 6 6]⟩ ⟨0, 0, []⟩
    ⟨3, 2, [iv 1 1, iv 4 4, iv 2 2, iv 5 5, iv 3 3, iv 6 6]⟩ = true := by decide +kernel
/-- a result with the wrong shape is rejected -/
example : vecopOk "add" ⟨1, 2, [iv 1 2, iv 0 1]⟩ ⟨1, 2, [iv 1 1, iv 1 1]⟩ ⟨2, 1, [iv 2 3, iv 1 2]⟩ = false := by decide +kernel
end Examples

end Ibex.C01
