/-
  C13 — derived systems describe the same problem as the original.

  MODEL (`IbexModel/Sys.lean`): `normalize`, `extend`, `copyCtrs`, `mergeCtrs` on lists of
  constraints `(expression DAG, op)`, a constraint `f(x) op 0` holding at a real point when `f` is
  defined there and every entry of its (scalar / vector / matrix) value satisfies `op`
  (`Ctr.Sat`, `SatAll`; `IbexProofs/SysSem.lean`).  The theorems of part 1 hold for every real
  algebra that is `RealLike`: `Alg.real` (`realLike_real`) and `Alg.realWith ch` for every
  selection `ch` of a member of each thick interval constant (`realLike_realWith`) — thick
  right-hand sides `f(x) = [a,b]` are covered through the latter.

  TIE (part 2): the driver dumps the real derived system (`ctrs[i].f`, `ctrs[i].op`, `f_ctrs`,
  `ops[]`, goal, box, arguments) and runs the verified checkers `ctrsCheckT` (position by
  position: same operator, and the DAG of the real system and the DAG of the model have equal
  rational-function normal forms — the algorithm of `Equiv.check` (C11) where, in addition, a
  thick interval constant is an atom) and `flatCheckT` (entries of `f_ctrs` with `ops[]` = entries
  of the constraints up to their order).  `accepted_*`: an accepted dump has, at EVERY real point where the constraint
  functions involved are defined, exactly the solutions stated by the property.
  (Definedness — e.g. a simplification removing a division — and the operators outside the
  rational fragment are covered by exact evaluation at sample points only.)
-/
import IbexProofs.Sys
import IbexProofs.SysT

namespace Ibex.C13
open Ibex Ibex.Eval Ibex.Sys

variable {A : Alg ℝ}

/-! ## 1. the model has the property -/

/-- **Normalized system.**  A point satisfies the normalized constraints exactly when it
    satisfies the original inequalities and every entry of every original equality is within
    `eps` of 0. -/
theorem normalized_iff (hA : RealLike A) (eps : ℚ) (heps : 0 ≤ eps) (cs : List Ctr) (ρ : List ℝ) :
    SatAll A (normalize eps cs) ρ ↔
      (∀ c ∈ cs, c.op ≠ .eq → c.Sat A ρ) ∧ (∀ c ∈ cs, c.op = .eq → c.SatEps A (eps : ℝ) ρ) :=
  Sys.normalized_iff hA eps heps cs ρ

/-- … exactly the solutions of the original system when `eps = 0`. -/
theorem normalized_exact (hA : RealLike A) (cs : List Ctr) (ρ : List ℝ) :
    SatAll A (normalize 0 cs) ρ ↔ SatAll A cs ρ :=
  Sys.normalized_zero_iff hA cs ρ

/-- **Extended system** (goal variable `y` appended last, constraint `goal(x) - y = 0` first):
    `(x, y)` satisfies it exactly when `x` satisfies the normalized system and `y` is the value
    of the objective at `x`. -/
theorem extended_iff (hA : RealLike A) (n : ℕ) (goal : Prog) (eps : ℚ) (cs : List Ctr)
    (ρ : List ℝ) (y : ℝ) (hn : ρ.length = n) (hg : varsWithin n goal.main = true)
    (hv : ∀ c ∈ cs, varsWithin n c.f.main = true) :
    SatAll A (extend n goal eps cs) (ρ ++ [y]) ↔
      SatAll A (normalize eps cs) ρ ∧ evalR A goal ρ = some ⟨1, 1, [y]⟩ :=
  Sys.extended_iff hA n goal eps cs ρ y hn hg hv

/-- the goal of the extended system is the added variable -/
theorem extended_goal (n : ℕ) (ρ : List ℝ) (y : ℝ) (hn : ρ.length = n) :
    evalR A (varProg n) (ρ ++ [y]) = some ⟨1, 1, [y]⟩ :=
  Sys.evalR_varProg n ρ y hn

/-- **Copies** keep exactly the constraints selected by the mode (all of them for `COPY`), in the
    original order … -/
theorem copy_exactly (m : CopyMode) (cs : List Ctr) :
    (∀ c, c ∈ copyCtrs m cs ↔ c ∈ cs ∧ m.keeps c.op = true) ∧ (copyCtrs m cs).Sublist cs ∧
      copyCtrs .copy cs = cs :=
  ⟨Sys.mem_copyCtrs m cs, Sys.copyCtrs_sublist m cs, Sys.copy_all cs⟩

/-- … hence have exactly the solutions of the selected constraints. -/
theorem copy_keeps (m : CopyMode) (cs : List Ctr) (ρ : List ℝ) :
    SatAll A (copyCtrs m cs) ρ ↔ ∀ c ∈ cs, m.keeps c.op = true → c.Sat A ρ :=
  Sys.copy_keeps m cs ρ

/-- **Merged system**: a point of the merged system is a solution exactly when its first `n₁`
    coordinates solve the first system and the coordinates read through the variable names
    (`env₂`) solve the second one. -/
theorem merge_keeps (bs : List Block) (n₁ n : ℕ) (cs₁ cs₂ : List Ctr) (p : List ℝ)
    (hp : p.length = n) (hn : n₁ ≤ n) (h₁ : ∀ c ∈ cs₁, varsWithin n₁ c.f.main = true)
    (hb : blocksOK n 0 bs = true) (h₂ : ∀ c ∈ cs₂, varsAreBlocks bs c.f.main = true) :
    SatAll A (mergeCtrs bs cs₁ cs₂) p ↔ SatAll A cs₁ (p.take n₁) ∧ SatAll A cs₂ (env₂ bs p) :=
  Sys.merge_keeps bs n₁ n cs₁ cs₂ p hp hn h₁ hb h₂

/-- `read_ext_box (write_ext_box box ext) = box`, wherever the goal variable is. -/
theorem ext_box_roundtrip {α : Type} (gv : ℕ) (box ext : List α) (hg : gv ≤ box.length)
    (he : gv < ext.length) : readExt gv (writeExt gv box ext) = box :=
  Sys.readExt_writeExt gv box ext hg he

/-! ## 2. accepted dumps of the real systems

  `ch` is ANY selection of a member of each thick interval constant (`ChOK ch`: a degenerate
  constant denotes its value); `tbl` is the table of the thick constants treated as atoms by the
  checkers (any table; the driver uses all the thick constants of the two systems).  The real
  semantics without thick constants, `Alg.real`, is the instance `ch = realOfItv`
  (`realWith_realOfItv`, `chOK_realOfItv`). -/

variable {ch : Itv → Option ℝ} {tbl : List Itv}

/-- accepted lists of constraints have the same solutions -/
theorem accepted_same_solutions {nv : ℕ} {real model : List Ctr} (hch : ChOK ch)
    (h : ctrsCheckT tbl nv real model = some true) {ρ : List ℝ} (hρ : ρ.length = nv)
    (hr : Defined (Alg.realWith ch) real ρ) (hm : Defined (Alg.realWith ch) model ρ) :
    SatAll (Alg.realWith ch) real ρ ↔ SatAll (Alg.realWith ch) model ρ :=
  Sys.ctrsCheckT_sound hch h hρ hr hm

/-- accepted `f_ctrs` / `ops[]`: satisfaction through them is satisfaction of `ctrs` -/
theorem accepted_fctrs {nv : ℕ} {cs : List Ctr} {f : Prog} {ops : List Cmp} (hch : ChOK ch)
    (h : flatCheckT tbl nv cs f ops = some true) {ρ : List ℝ} (hρ : ρ.length = nv)
    (hd : Defined (Alg.realWith ch) cs ρ) {w : Mat ℝ} (hw : evalR (Alg.realWith ch) f ρ = some w) :
    SatF (Alg.realWith ch) f ops ρ ↔ SatAll (Alg.realWith ch) cs ρ :=
  Sys.flatCheckTB_sound hch h hρ hd hw

/-- accepted goal: same objective value -/
theorem accepted_goal {nv : ℕ} {real model : Prog} (hch : ChOK ch)
    (h : progCheckT tbl nv real model = some true) {ρ : List ℝ} (hρ : ρ.length = nv)
    {v₁ v₂ : Mat ℝ} (h₁ : evalR (Alg.realWith ch) real ρ = some v₁)
    (h₂ : evalR (Alg.realWith ch) model ρ = some v₂) : v₁ = v₂ :=
  Sys.progCheckTB_sound hch h hρ h₁ h₂

/-- a selection that gives degenerate constants their value makes the algebra `RealLike` -/
theorem realLike_of_chOK (hch : ChOK ch) (hdef : ∀ q : ℚ, (ch (Itv.point q)).isSome) :
    RealLike (Alg.realWith ch) :=
  realLike_realWith fun q => by
    obtain ⟨x, hx⟩ := Option.isSome_iff_exists.1 (hdef q)
    rw [hx, hch (Itv.point q) q x (by simp [ratOfItv, Itv.point]) hx]

/-- **Normalized system, real code.**  If the dump `real` of `NormalizedSystem(sys, eps).ctrs`
    is accepted against the model applied to the dump `orig` of `sys.ctrs`, then at every real
    point (where the functions are defined) `real` is satisfied exactly when the original
    inequalities hold and the original equalities hold up to `eps`. -/
theorem accepted_normalized {nv : ℕ} {real orig : List Ctr} {eps : ℚ} (hch : ChOK ch)
    (hA : RealLike (Alg.realWith ch)) (heps : 0 ≤ eps)
    (h : ctrsCheckT tbl nv real (normalize eps orig) = some true) {ρ : List ℝ} (hρ : ρ.length = nv)
    (hr : Defined (Alg.realWith ch) real ρ) (hm : Defined (Alg.realWith ch) (normalize eps orig) ρ) :
    SatAll (Alg.realWith ch) real ρ ↔
      (∀ c ∈ orig, c.op ≠ .eq → c.Sat (Alg.realWith ch) ρ) ∧
      (∀ c ∈ orig, c.op = .eq → c.SatEps (Alg.realWith ch) (eps : ℝ) ρ) :=
  (accepted_same_solutions hch h hρ hr hm).trans (normalized_iff hA eps heps orig ρ)

/-- **Extended system, real code.** -/
theorem accepted_extended {n : ℕ} {real orig : List Ctr} {goal : Prog} {eps : ℚ} (hch : ChOK ch)
    (hA : RealLike (Alg.realWith ch))
    (h : ctrsCheckT tbl (n + 1) real (extend n goal eps orig) = some true) {ρ : List ℝ} {y : ℝ}
    (hρ : ρ.length = n) (hg : varsWithin n goal.main = true)
    (hv : ∀ c ∈ orig, varsWithin n c.f.main = true)
    (hr : Defined (Alg.realWith ch) real (ρ ++ [y]))
    (hm : Defined (Alg.realWith ch) (extend n goal eps orig) (ρ ++ [y])) :
    SatAll (Alg.realWith ch) real (ρ ++ [y]) ↔
      SatAll (Alg.realWith ch) (normalize eps orig) ρ ∧
      evalR (Alg.realWith ch) goal ρ = some ⟨1, 1, [y]⟩ :=
  (accepted_same_solutions hch h (by simp [hρ]) hr hm).trans
    (extended_iff hA n goal eps orig ρ y hρ hg hv)

/-- **Copies, real code.** -/
theorem accepted_copy {nv : ℕ} {real orig : List Ctr} {m : CopyMode} (hch : ChOK ch)
    (h : ctrsCheckT tbl nv real (copyCtrs m orig) = some true) {ρ : List ℝ} (hρ : ρ.length = nv)
    (hr : Defined (Alg.realWith ch) real ρ) (hm : Defined (Alg.realWith ch) (copyCtrs m orig) ρ) :
    SatAll (Alg.realWith ch) real ρ ↔ ∀ c ∈ orig, m.keeps c.op = true → c.Sat (Alg.realWith ch) ρ :=
  (accepted_same_solutions hch h hρ hr hm).trans (copy_keeps m orig ρ)

/-- **Merged system, real code.** -/
theorem accepted_merge {n₁ n : ℕ} {real cs₁ cs₂ : List Ctr} {bs : List Block} (hch : ChOK ch)
    (h : ctrsCheckT tbl n real (mergeCtrs bs cs₁ cs₂) = some true) {p : List ℝ} (hp : p.length = n)
    (hn : n₁ ≤ n) (h₁ : ∀ c ∈ cs₁, varsWithin n₁ c.f.main = true) (hb : blocksOK n 0 bs = true)
    (h₂ : ∀ c ∈ cs₂, varsAreBlocks bs c.f.main = true)
    (hr : Defined (Alg.realWith ch) real p) (hm : Defined (Alg.realWith ch) (mergeCtrs bs cs₁ cs₂) p) :
    SatAll (Alg.realWith ch) real p ↔
      SatAll (Alg.realWith ch) cs₁ (p.take n₁) ∧ SatAll (Alg.realWith ch) cs₂ (env₂ bs p) :=
  (accepted_same_solutions hch h hp hr hm).trans (merge_keeps bs n₁ n cs₁ cs₂ p hp hn h₁ hb h₂)

/-- the instance without thick constants: `Alg.real` -/
theorem accepted_normalized_real {nv : ℕ} {real orig : List Ctr} {eps : ℚ} (heps : 0 ≤ eps)
    (h : ctrsCheckT [] nv real (normalize eps orig) = some true) {ρ : List ℝ} (hρ : ρ.length = nv)
    (hr : Defined Alg.real real ρ) (hm : Defined Alg.real (normalize eps orig) ρ) :
    SatAll Alg.real real ρ ↔
      (∀ c ∈ orig, c.op ≠ .eq → c.Sat Alg.real ρ) ∧
      (∀ c ∈ orig, c.op = .eq → c.SatEps Alg.real (eps : ℝ) ρ) :=
  accepted_normalized (ch := realOfItv) chOK_realOfItv realLike_real heps h hρ hr hm

/-! ## 3. non-vacuity -/

def k (q : Rat) : Node := ⟨.const [Itv.point q], 1, 1⟩
def x : Node := ⟨.var 0, 1, 1⟩
def x1 : Node := ⟨.var 1, 1, 1⟩

/-- `x - 1 = 0` and `x >= 0` -/
def cEq : Ctr := ⟨⟨[], #[x, k 1, ⟨.bin "sub" 0 1, 1, 1⟩]⟩, .eq⟩
def cGe : Ctr := ⟨⟨[], #[x]⟩, .geq⟩
def orig : List Ctr := [cEq, cGe]

/-- what a simplifying implementation could produce for `eps = 1/2`:
    `x + (-3/2) <= 0`, `1/2 - x <= 0`, `-x <= 0` -/
def realNorm : List Ctr :=
  [⟨⟨[], #[x, k (-3/2), ⟨.bin "add" 0 1, 1, 1⟩]⟩, .leq⟩,
   ⟨⟨[], #[k (1/2), x, ⟨.bin "sub" 0 1, 1, 1⟩]⟩, .leq⟩,
   ⟨⟨[], #[x, ⟨.un "minus" 0, 1, 1⟩]⟩, .leq⟩]

example : ctrsCheckT [] 1 realNorm (normalize (1/2) orig) = some true := by decide +kernel
/-- a sign error is rejected: `x <= 0` instead of `-x <= 0` -/
example : ctrsCheckT [] 1
    [⟨⟨[], #[x, k (-3/2), ⟨.bin "add" 0 1, 1, 1⟩]⟩, .leq⟩,
     ⟨⟨[], #[k (1/2), x, ⟨.bin "sub" 0 1, 1, 1⟩]⟩, .leq⟩, ⟨⟨[], #[x]⟩, .leq⟩]
    (normalize (1/2) orig) = some false := by decide +kernel
/-- with `eps = 0` the equality is kept -/
example : (normalize 0 orig).map (·.op) = [.eq, .leq] := by decide +kernel
example : (normalize (1/2) orig).map (·.op) = [.leq, .leq, .leq] := by decide +kernel

/-- `f_ctrs = (x - 1, x)` with `ops = (=, >=)`, also accepted in the other order -/
def fc : Prog := ⟨[], #[x, k 1, ⟨.bin "sub" 0 1, 1, 1⟩, ⟨.vec false [2, 0], 2, 1⟩]⟩
def fc' : Prog := ⟨[], #[x, k 1, ⟨.bin "sub" 0 1, 1, 1⟩, ⟨.vec false [0, 2], 2, 1⟩]⟩
example : flatCheckT [] 1 orig fc [.eq, .geq] = some true := by decide +kernel
example : flatCheckT [] 1 orig fc' [.geq, .eq] = some true := by decide +kernel
example : flatCheckT [] 1 orig fc' [.eq, .geq] = some false := by decide +kernel

/-- a thick right-hand side `x = [1,2]`, i.e. `x - [1,2] = 0`; the implementation could produce
    `(x - 1/2) - [1,2] <= 0` and `([1,2] - x) - 1/2 <= 0`: accepted with the constant as an atom,
    nothing claimed without -/
def K12 : Itv := .mk (.fin 1) (.fin 2)
def kK : Node := ⟨.const [K12], 1, 1⟩
def cThick : Ctr := ⟨⟨[], #[x, kK, ⟨.bin "sub" 0 1, 1, 1⟩]⟩, .eq⟩
def realThick : List Ctr :=
  [⟨⟨[], #[x, k (1/2), ⟨.bin "sub" 0 1, 1, 1⟩, kK, ⟨.bin "sub" 2 3, 1, 1⟩]⟩, .leq⟩,
   ⟨⟨[], #[kK, x, ⟨.bin "sub" 0 1, 1, 1⟩, k (1/2), ⟨.bin "sub" 2 3, 1, 1⟩]⟩, .leq⟩]
example : ctrsCheckT [K12] 1 realThick (normalize (1/2) [cThick]) = some true := by decide +kernel
example : ctrsCheckT [] 1 realThick (normalize (1/2) [cThick]) = none := by decide +kernel
example : tableOf (realThick.map (·.f)) = [K12] := by decide +kernel

/-- extended system of `min x` s.t. `orig`: `x - y = 0` first -/
def goal : Prog := ⟨[], #[x]⟩
def realExt : List Ctr :=
  [⟨⟨[], #[x, x1, ⟨.bin "sub" 0 1, 1, 1⟩]⟩, .eq⟩, cEq, ⟨⟨[], #[x, ⟨.un "minus" 0, 1, 1⟩]⟩, .leq⟩]
example : ctrsCheckT [] 2 realExt (extend 1 goal 0 orig) = some true := by decide +kernel
example : varsWithin 1 goal.main = true ∧ ∀ c ∈ orig, varsWithin 1 c.f.main = true := by decide +kernel

/-- the constraint functions of the example are defined everywhere … -/
theorem cGe_eval (t : ℝ) : evalR Alg.real cGe.f [t] = some ⟨1, 1, [t]⟩ := by
  unfold evalR root
  rw [run_eq]
  simp [cGe, x, step, nodeVal]

theorem cEq_eval (t : ℝ) : evalR Alg.real cEq.f [t] = some ⟨1, 1, [t - 1]⟩ := by
  unfold evalR root
  rw [run_eq]
  simp [cEq, x, k, step, nodeVal, binVal, Mat.zip?, Alg.real, realOfItv, Itv.point]

/-- … the original system has the solution `x = 1` … -/
example : SatAll Alg.real orig [1] := by
  intro c hc
  simp only [orig, List.mem_cons, List.mem_nil_iff, or_false] at hc
  rcases hc with rfl | rfl
  · exact ⟨_, cEq_eval 1, by simp [cEq, Cmp.holds]⟩
  · exact ⟨_, cGe_eval 1, by simp [cGe, Cmp.holds]⟩

/-- … and the model's normalized system with `eps = 1/2` accepts `x = 5/4` (which the original
    system does not): the statement of `normalized_iff` is not vacuous in either direction. -/
example : SatAll Alg.real (normalize (1/2) orig) [5/4] := by
  rw [normalized_iff realLike_real (1/2) (by norm_num)]
  refine ⟨fun c hc hne => ?_, fun c hc he => ?_⟩
  · simp only [orig, List.mem_cons, List.mem_nil_iff, or_false] at hc
    rcases hc with rfl | rfl
    · exact absurd rfl hne
    · exact ⟨_, cGe_eval _, by simp [cGe, Cmp.holds]; norm_num⟩
  · simp only [orig, List.mem_cons, List.mem_nil_iff, or_false] at hc
    rcases hc with rfl | rfl
    · refine ⟨_, cEq_eval _, ?_⟩
      simp only [List.mem_singleton, forall_eq]
      rw [abs_le]
      constructor <;> norm_num
    · exact absurd he (by simp [cGe])

example : ¬ SatAll Alg.real orig [5/4] := by
  intro h
  obtain ⟨v, hv, hx⟩ := h cEq (by simp [orig])
  rw [cEq_eval] at hv
  cases hv
  have := hx (5/4 - 1) (by simp)
  simp [cEq, Cmp.holds] at this
  norm_num at this

end Ibex.C13
