/-
  C07 — the branch-and-bound loop of the optimizer itself (`IbexModel/OptLoop.lean`), not only the replay of its logs.

  `OptLoop.run P g fuel (St.init root loup₀)` is the loop of `Optimizer::optimize()` on extended boxes `(x, y)`:
  take a cell, bisect it, contract-and-bound each half with the current loup, run the loup finder (the loup
  only decreases), drop epsilon-boxes (recording their goal lower bound in `uplo_of_epsboxes`) or push the
  half back, prune the buffer with the loup; stop after `fuel` iterations (time-out / cell budget).
  The reported lower bound is `uplo = min (goal lower bounds of the buffer) uplo_of_epsboxes loup`.

  * `loop_lower_bound`: for EVERY policy whose contractor keeps the extended points `(x, f(x))` of feasible `x`
    with `f(x) < loup` (C04 on the extended system) and whose bisector covers the cell (C16), for every number of
    iterations, every root and every initial loup: `uplo ≤ f(x)` for every feasible `x` of the root.
  * `loop_lower_bound_problem`: the same in the vocabulary of `Props/C07.lean` (`Problem`, `Feasible`, `RealVal`).
  * `loop_bounds_ordered`: `uplo ≤ loup ≤ initial loup` in every reachable state.
  The tie to the code is the log replay `OptCover.check` + the result checker of `Props/C07.lean`; this file
  states what the loop guarantees at EVERY interruption point (the optimizer half of C18 resumes from such states).
-/
import IbexProofs.OptLoop
import IbexProofs.Props.C07

namespace Ibex.C07loop
open Ibex Ibex.OptLoop Ibex.Optim

/-- **`uplo` is a lower bound of the objective on the feasible set, at every interruption of the loop.** -/
theorem loop_lower_bound (Sol : Set (List ℝ)) (P : Policy) (g : Nat) (root : Box) (loup0 : Ext) (fuel : Nat)
    (hctc : CtcSound P g Sol)
    (hbis : ∀ c, Cover.split2Ok c (P.bisect c).1 (P.bisect c).2 = true)
    {p : List ℝ} {t : ℝ} (hp : p ∈ Sol) (ht : p[g]? = some t) (hr : Box.Mem p root) :
    (uplo g (run P g fuel (St.init root loup0))).toE ≤ ((t : ℝ) : EReal) :=
  uplo_le_of_acc ht (run_acc hctc hbis hp ht fuel _ (Or.inr (Or.inr ⟨root, by simp [St.init], hr⟩)))

/-- in the vocabulary of `Props/C07.lean`: the goal coordinate is the last one of the extended box -/
theorem loop_lower_bound_problem (Pb : Problem) (P : Policy) (loup0 : Ext) (fuel : Nat)
    (hctc : ∀ (L : Ext) (h : Box) (ρ : List ℝ) (v : ℝ), Feasible Pb ρ → RealVal Pb.obj ρ v →
      Box.Mem (ρ ++ [v]) h → ((v : ℝ) : EReal) < L.toE → Box.Mem (ρ ++ [v]) (P.ctc L h))
    (hbis : ∀ c, Cover.split2Ok c (P.bisect c).1 (P.bisect c).2 = true)
    {ρ : List ℝ} (hf : Feasible Pb ρ) {v : ℝ} (hv : RealVal Pb.obj ρ v) :
    (uplo Pb.box.length (run P Pb.box.length fuel (St.init (OptCover.extRoot Pb.box) loup0))).toE
      ≤ ((v : ℝ) : EReal) := by
  let Sol : Set (List ℝ) := {p | ∃ ρ v, Feasible Pb ρ ∧ RealVal Pb.obj ρ v ∧ p = ρ ++ [v]}
  have hgoal : ∀ ρ' v', Feasible Pb ρ' → (ρ' ++ [v'])[Pb.box.length]? = some v' := by
    intro ρ' v' hf'
    rw [← hf'.1.length_eq]
    simp
  have hS : CtcSound P Pb.box.length Sol := by
    rintro L h p t ⟨ρ', v', hf', hv', rfl⟩ ht hm hlt
    have : t = v' := by
      have := hgoal ρ' v' hf'
      rw [this] at ht
      exact (Option.some.inj ht).symm
    subst this
    exact hctc L h ρ' t hf' hv' hm hlt
  exact loop_lower_bound Sol P _ _ loup0 fuel hS hbis ⟨ρ, v, hf, hv, rfl⟩ (hgoal ρ v hf) (C07.mem_extPoint hf.1 v)

/-- the bounds stay ordered: `uplo ≤ loup ≤ initial loup` -/
theorem loop_bounds_ordered (P : Policy) (g : Nat) (root : Box) (loup0 : Ext) (fuel : Nat) :
    (uplo g (run P g fuel (St.init root loup0))).toE ≤ (run P g fuel (St.init root loup0)).loup.toE ∧
    (run P g fuel (St.init root loup0)).loup.toE ≤ loup0.toE :=
  ⟨uplo_le_loup _, run_loup fuel _⟩

/-! ### a concrete run evaluated by the kernel: minimise `y = x` on `x ∈ [0,8]` (extended boxes `[x, y]`) -/

def iv (a b : Int) : Itv := .mk (.fin a) (.fin b)

/-- bisect `x` at an integer point; the "contractor" sets `y := y ∩ x ∩ (-oo, loup]`; the loup finder evaluates the
    objective at the left end point of `x`; boxes of width ≤ 1 are epsilon-boxes -/
def toy : Policy where
  pick := fun _ => 0
  bisect := fun c => match c with
    | [.mk (.fin l) (.fin h), y] => ([.mk (.fin l) (.fin ((l + h) / 2)), y], [.mk (.fin ((l + h) / 2)) (.fin h), y])
    | _ => (c, c)
  ctc := fun L c => match c with
    | [x, y] => [x, Itv.inter (Itv.inter y x) (.mk .ninf L)]
    | _ => c
  finder := fun _ c => match c with
    | [.mk lo _, _] => lo
    | _ => .pinf
  small := fun c => match c with
    | [.mk (.fin l) (.fin h), _] => h - l ≤ 1
    | _ => true

example : uplo 1 (run toy 1 50 (St.init [iv 0 8, .mk .ninf .pinf] .pinf)) = .fin 0 ∧
    (run toy 1 50 (St.init [iv 0 8, .mk .ninf .pinf] .pinf)).loup = .fin 0 ∧
    (run toy 1 50 (St.init [iv 0 8, .mk .ninf .pinf] .pinf)).buffer = [] := by decide +kernel
/-- after ONE iteration on `[2,8]`: the left half gives the loup 2, the right half is emptied by the bound `y ≤ 2`, and the
    left half itself is pruned (its goal lower bound is not below the loup): the bounds meet -/
example : uplo 1 (run toy 1 1 (St.init [iv 2 8, .mk .ninf .pinf] .pinf)) = .fin 2 ∧
    (run toy 1 1 (St.init [iv 2 8, .mk .ninf .pinf] .pinf)).loup = .fin 2 ∧
    (run toy 1 1 (St.init [iv 2 8, .mk .ninf .pinf] .pinf)).buffer = [] := by decide +kernel
/-- a loup finder that never finds anything: after two iterations three cells are pending and `uplo` is their least goal
    lower bound -/
example : uplo 1 (run { toy with finder := fun _ _ => .pinf } 1 2 (St.init [iv 2 10, .mk .ninf .pinf] .pinf)) = .fin 2 ∧
    (run { toy with finder := fun _ _ => .pinf } 1 2 (St.init [iv 2 10, .mk .ninf .pinf] .pinf)).buffer.length = 3 := by
  decide +kernel

/-- the hypothesis on the contractor matters: a contractor that empties every box whose `x` starts at 2 loses the minimiser
    `x = 2` of `[2,8]`, and the loop then reports `uplo = 5 > 2 = f(2)` -/
def toyBad : Policy := { toy with ctc := fun L c => match c with
    | [.mk (.fin l) _, _] => if l == 2 then [.empty, .empty] else toy.ctc L c
    | _ => toy.ctc L c }

example : uplo 1 (run toyBad 1 50 (St.init [iv 2 8, .mk .ninf .pinf] .pinf)) = .fin 5 := by decide +kernel

end Ibex.C07loop
