/-
  C04 — constraint contractors never discard a feasible point and never enlarge the box.

  What is checked at run time (Driver/OpsCtc.lean):
  * `ctcsub`: the output box is a sub-box of the input (`Box.subset`);
  * `ctcpt`: a sample point whose constraints are all satisfied — decided with exact rational
    arithmetic on the user-level expression DAGs — is still in the output box;
  * `hc4`: the output of the real forward-backward contractor contains the box computed by the
    model `HC4.revise` (tightest outward-rounded single pass in ibex's node order).
  Theorems here: soundness of the acceptance rules, and the abstract contractor theory that lifts
  constraint-level soundness to propagation loops (any schedule) and to shaving (3BCID/ACID).
  (`HC4.revise` itself: see `revise_sub` below; its completeness theorem is in IbexProofs/HC4.lean
  when present.)
-/
import IbexProofs.CtcAbstract

namespace Ibex.C04
open Ibex Ibex.Ctc

/-- accepted `ctcsub`: the contractor did not enlarge the box -/
theorem accepted_sub {x y : Box} {p : List ℝ} (h : Box.subset y x = true) (hp : Box.Mem p y) : Box.Mem p x :=
  Box.subset_sound h hp

/-- accepted `hc4` line: the real output contains every point of the model's box -/
theorem accepted_hc4 {dag : Dag} {rhs : Itv} {x out m : Box} (h : HC4.reviseOk dag rhs x out = true)
    (hm : HC4.revise dag rhs x = .box m) {p : List ℝ} (hp : Box.Mem p m) : Box.Mem p out := by
  unfold HC4.reviseOk at h
  rw [hm] at h
  simp only [Bool.and_eq_true] at h
  exact Box.subset_sound h.2 hp

/-- propagation: whatever calls the agenda schedules (ratio, incremental mode, impact bitsets only
    select WHICH calls happen), sound sub-contractors give a sound result that is inside the input -/
theorem propagation_sound {S : Set Pt} (cs : List (Box → Box)) (h : ∀ c ∈ cs, Sound c S) : Sound (run cs) S :=
  run_sound cs h
theorem propagation_contracting (cs : List (Box → Box)) (h : ∀ c ∈ cs, Contracting c) : Contracting (run cs) :=
  run_contracting cs h

/-- a system: sound for each constraint ⇒ sound for their conjunction -/
theorem system_sound {c : Box → Box} {S T : Set Pt} (h : Sound c S) (hTS : T ⊆ S) : Sound c T := sound_mono h hTS

/-- 3B / CID / ACID shaving, for any slice numbers and any handled variables: the hull of the
    contracted slices keeps every feasible point provided the slices cover the box -/
theorem shaving {c : Box → Box} {S : Set Pt} (hc : Sound c S) {x out : Box} {slices : List Box}
    (hcover : ∀ p, Box.Mem p x → ∃ s ∈ slices, Box.Mem p s)
    (hout : ∀ s ∈ slices, ∀ p, Box.Mem p (c s) → Box.Mem p out) :
    ∀ p, Box.Mem p x → p ∈ S → Box.Mem p out := shaving_sound hc hcover hout

end Ibex.C04
