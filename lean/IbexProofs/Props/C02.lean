/-
  C02 — forward evaluation of an expression DAG encloses the value of the expression at every
  real point of the box.

  The driver does not compare the implementation's node domains with the model's evaluation
  (the implementation is allowed to be less tight); it runs the *certificate checker*
  `Eval.certOk funs dag box doms` on the node domains `doms` that the implementation computed for
  `box`: node `i` is accepted when the model's (tightest, outward-rounded) interval operator applied
  to the implementation's ARGUMENT domains is included in the implementation's domain of node `i`.

  `cert_sound` says what an accepted certificate means: for EVERY real point `p` of the box — not
  only the sampled ones — and for every DAG (any number of nodes, any sharing, scalar / vector /
  matrix nodes, applied functions), the real value of every node at `p` belongs to the
  implementation's domain of that node; in particular (`cert_sound_root`) the value of the
  expression belongs to the domain of the root.

  What is assumed (hypothesis `hyp`): the nodes that the certificate cannot check are enclosed.
  These are exactly (`Eval.Unchecked`, proved exhaustive by `Eval.nodeVal_rel`):
    * nodes `.un op _` whose operator name is not an interval operator of the model
      (`Alg.itv.un op = none`: the elementary functions exp, log, cos, …, validated separately
      against an MPFR oracle), and
    * nodes `.apply f _` for which the model's own interval evaluation of the function body on the
      implementation's argument domains is undefined (the body contains such an operator).
  An interval operator of the model that returns the empty set is NOT in this list: the
  corresponding real operation is then undefined at every point of the arguments.

  The real semantics is `Alg.real` (the operators of `Alg.rat` on ℝ, `sqrt`, and the elementary
  functions on their natural domains); `rat_run_real` shows that the exact rational evaluation
  performed by the driver at sample points is this real semantics.
  Limitation: `Eval.binVal` gives no meaning to binary operators other than add/sub/mul/div/max/min
  (e.g. `atan2`) in any algebra, so a DAG containing one has no real value here (`run` is `none`)
  and the theorem is vacuous for it.  Thick interval constants have no point value either.
-/
import IbexProofs.EvalCert
import IbexProofs.SetAlg

namespace Ibex.C02
open Ibex Ibex.Eval

/-! ### operator level -/

/-- the interval operators of the model enclose the real operators and are defined (non-empty)
    wherever the real operator is defined on a point of the arguments -/
theorem real_itv : AlgRel RMem Alg.real Alg.itv := Alg.real_itv

/-- the rational operators are the real operators (under the cast ℚ → ℝ) -/
theorem rat_real : AlgRel RCast Alg.rat Alg.real := Alg.rat_real

/-- the unary operator names of the interval algebra -/
def itvUnary : List String := ["minus", "sqr", "abs", "sign", "sqrt", "floor", "ceil"]

theorem itv_un_none_iff (op : String) : Alg.itv.un op = none ↔ op ∉ itvUnary := by
  simp only [Alg.itv]
  split <;> simp_all [itvUnary]

/-- **One node**: if the real arguments belong to the argument domains, the real value of the node
    belongs to the value that the model's interval operator computes from these domains. -/
theorem nodeVal_encl {p : List ℝ} {box : List Itv} {rcall : Nat → List (Mat ℝ) → Option (Mat ℝ)}
    {icall : Nat → List (Mat Itv) → Option (Mat Itv)} {rvals : Array (Mat ℝ)} {doms : Array (Mat Itv)}
    {n : Node} {v : Mat ℝ} {m : Mat Itv}
    (hp : EnvMem p box) (hcall : CallRel RMem rcall icall) (hsz : rvals.size ≤ doms.size)
    (hargs : ∀ (j : Nat) v z, rvals[j]? = some v → doms[j]? = some z → MatMem v z)
    (hv : nodeVal Alg.real p rcall rvals n = some v)
    (hm : nodeVal Alg.itv box icall doms n = some m) : MatMem v m := by
  refine nodeVal_rel_of_some Alg.real_itv hp hcall ?_ hv hm
  intro j w hj
  have hj' : j < rvals.size := by
    by_contra hge
    rw [Array.getElem?_eq_none (by omega)] at hj
    exact absurd hj (by simp)
  have hd : doms[j]? = some doms[j] := Array.getElem?_eq_getElem (by omega)
  exact ⟨_, hd, hargs j w _ hj hd⟩

/-- **One node, definedness**: under the same hypotheses the model's interval operator is defined,
    unless the node is one of the two `Unchecked` kinds. -/
theorem nodeVal_defined {p : List ℝ} {box : List Itv} {rcall : Nat → List (Mat ℝ) → Option (Mat ℝ)}
    {icall : Nat → List (Mat Itv) → Option (Mat Itv)} {rvals : Array (Mat ℝ)} {doms : Array (Mat Itv)}
    {n : Node} {v : Mat ℝ}
    (hp : EnvMem p box) (hcall : CallRel RMem rcall icall) (hargs : ArgsRel RMem rvals doms)
    (hv : nodeVal Alg.real p rcall rvals n = some v) :
    (∃ m, nodeVal Alg.itv box icall doms n = some m ∧ MatMem v m) ∨ Unchecked Alg.itv icall doms n :=
  nodeVal_rel Alg.real_itv hp hcall hargs n hv

/-! ### the model's own interval evaluation (natural interval extension) -/

/-- **Interval evaluation encloses the value at every point of the box**: all nodes. -/
theorem run_encl {funs : List Dag} {dag : Dag} {p : List ℝ} {box : List Itv} {rv : Array (Mat ℝ)}
    {iv : Array (Mat Itv)} (hp : EnvMem p box)
    (hr : run Alg.real p (buildCalls Alg.real funs) dag = some rv)
    (hi : run Alg.itv box (buildCalls Alg.itv funs) dag = some iv) :
    rv.size = iv.size ∧ ∀ (i : Nat) v, rv[i]? = some v → ∃ z, iv[i]? = some z ∧ MatMem v z :=
  run_rel Alg.real_itv hp (buildCalls_rel Alg.real_itv funs) hr hi

/-- … and the root -/
theorem root_encl {funs : List Dag} {dag : Dag} {p : List ℝ} {box : List Itv} {v : Mat ℝ} {z : Mat Itv}
    (hp : EnvMem p box) (hr : root Alg.real p (buildCalls Alg.real funs) dag = some v)
    (hi : root Alg.itv box (buildCalls Alg.itv funs) dag = some z) : MatMem v z :=
  root_rel Alg.real_itv hp (buildCalls_rel Alg.real_itv funs) hr hi

/-! ### the certificate -/

/-- **Soundness of the node certificate** (with applied functions; `funs = []` is the special case
    without).  `hyp`: the unchecked nodes are enclosed. -/
theorem cert_sound {funs : List Dag} {dag : Dag} {box : List Itv} {doms : Array (Mat Itv)}
    {p : List ℝ} {rvals : Array (Mat ℝ)}
    (h : certOk funs dag box doms = true) (hp : EnvMem p box)
    (hrun : run Alg.real p (buildCalls Alg.real funs) dag = some rvals)
    (hyp : ∀ (i : Nat) n, dag[i]? = some n → Unchecked Alg.itv (buildCalls Alg.itv funs) doms n →
      ∀ v z, rvals[i]? = some v → doms[i]? = some z → MatMem v z) :
    ∀ (i : Nat) v z, rvals[i]? = some v → doms[i]? = some z → MatMem v z :=
  cert_sound_gen Alg.real_itv (buildCalls_rel Alg.real_itv funs) h hp hrun
    (fun i n _ x hn hu _ _ hv z hz => hyp i n hn hu x z hv hz)

/-- the same with the coarser hypothesis "every node on which the model's interval operator is
    undefined is enclosed" (`Unchecked` nodes are such nodes: `Unchecked.nodeVal_none`) -/
theorem cert_sound' {funs : List Dag} {dag : Dag} {box : List Itv} {doms : Array (Mat Itv)}
    {p : List ℝ} {rvals : Array (Mat ℝ)}
    (h : certOk funs dag box doms = true) (hp : EnvMem p box)
    (hrun : run Alg.real p (buildCalls Alg.real funs) dag = some rvals)
    (hyp : ∀ (i : Nat) n, dag[i]? = some n →
      nodeVal Alg.itv box (buildCalls Alg.itv funs) doms n = none →
      ∀ v z, rvals[i]? = some v → doms[i]? = some z → MatMem v z) :
    ∀ (i : Nat) v z, rvals[i]? = some v → doms[i]? = some z → MatMem v z :=
  cert_sound h hp hrun (fun i n hn hu => hyp i n hn hu.nodeVal_none)

/-- the same with an *operator-level* hypothesis, independent of the point `p`: for each unchecked
    node, whatever real arguments are taken in the implementation's argument domains, the real
    operator maps them into the implementation's domain of the node (this is the property that the
    MPFR-oracle harness validates for the elementary functions). -/
theorem cert_sound_local {funs : List Dag} {dag : Dag} {box : List Itv} {doms : Array (Mat Itv)}
    {p : List ℝ} {rvals : Array (Mat ℝ)}
    (h : certOk funs dag box doms = true) (hp : EnvMem p box)
    (hrun : run Alg.real p (buildCalls Alg.real funs) dag = some rvals)
    (hyp : ∀ (i : Nat) n args x, dag[i]? = some n →
      Unchecked Alg.itv (buildCalls Alg.itv funs) doms n → ArgsRel RMem args doms →
      nodeVal Alg.real p (buildCalls Alg.real funs) args n = some x →
      ∀ z, doms[i]? = some z → MatMem x z) :
    ∀ (i : Nat) v z, rvals[i]? = some v → doms[i]? = some z → MatMem v z :=
  cert_sound_gen Alg.real_itv (buildCalls_rel Alg.real_itv funs) h hp hrun
    (fun i n v1 x hn hu hv1 hx _ z hz => hyp i n v1 x hn hu hv1 hx z hz)

/-- thick interval constants: the theorem holds for every selection `ch` of a member of each
    interval constant (`Alg.realWith ch`: the constant `I` denotes the real `ch I ∈ I`) -/
theorem cert_sound_thick {ch : Itv → Option ℝ} (hch : ∀ I x, ch I = some x → x ∈ I)
    {funs : List Dag} {dag : Dag} {box : List Itv} {doms : Array (Mat Itv)}
    {p : List ℝ} {rvals : Array (Mat ℝ)}
    (h : certOk funs dag box doms = true) (hp : EnvMem p box)
    (hrun : run (Alg.realWith ch) p (buildCalls (Alg.realWith ch) funs) dag = some rvals)
    (hyp : ∀ (i : Nat) n, dag[i]? = some n → Unchecked Alg.itv (buildCalls Alg.itv funs) doms n →
      ∀ v z, rvals[i]? = some v → doms[i]? = some z → MatMem v z) :
    ∀ (i : Nat) v z, rvals[i]? = some v → doms[i]? = some z → MatMem v z :=
  cert_sound_gen (Alg.realWith_itv hch) (buildCalls_rel (Alg.realWith_itv hch) funs) h hp hrun
    (fun i n _ x hn hu _ _ hv z hz => hyp i n hn hu x z hv hz)

/-- a DAG all of whose unary operators are interval operators of the model (or the transposition) -/
def DagSupported (d : Dag) : Prop :=
  ∀ n ∈ d.toList, ∀ op a, n.k = .un op a → op = "trans" ∨ op ∈ itvUnary

theorem DagSupported.supp {d : Dag} (hd : DagSupported d) : ∀ n ∈ d.toList, Supp Alg.real Alg.itv n := by
  intro n hn op a hk hop hB
  rcases hd n hn op a hk with e | e
  · exact absurd e hop
  · exact absurd e ((itv_un_none_iff op).1 hB)

/-- **When the bodies of the applied functions only use interval operators of the model, the only
    assumption concerns the unary nodes of the main DAG with another operator name.** -/
theorem cert_sound_un {funs : List Dag} {dag : Dag} {box : List Itv} {doms : Array (Mat Itv)}
    {p : List ℝ} {rvals : Array (Mat ℝ)}
    (h : certOk funs dag box doms = true) (hp : EnvMem p box)
    (hrun : run Alg.real p (buildCalls Alg.real funs) dag = some rvals)
    (hfuns : ∀ d ∈ funs, DagSupported d)
    (hyp : ∀ (i : Nat) op a r c, dag[i]? = some ⟨.un op a, r, c⟩ → op ≠ "trans" → op ∉ itvUnary →
      ∀ v z, rvals[i]? = some v → doms[i]? = some z → MatMem v z) :
    ∀ (i : Nat) v z, rvals[i]? = some v → doms[i]? = some z → MatMem v z := by
  refine cert_sound_gen Alg.real_itv (buildCalls_rel Alg.real_itv funs) h hp hrun ?_
  rintro i ⟨k, r, c⟩ v1 x hn hu hv1 hx hv z hz
  rcases hu with ⟨op, a, hk, hop, hB⟩ | ⟨f, as, bs, hk, hbs, hcn⟩
  · simp only at hk
    subst hk
    exact hyp i op a r c hn hop ((itv_un_none_iff op).1 hB) x z hv hz
  · -- the real call is defined, hence so is the model's interval evaluation of the function
    exfalso
    simp only at hk
    subst hk
    have hu : Unchecked Alg.itv (buildCalls Alg.itv funs) doms ⟨.apply f as, r, c⟩ :=
      .inr ⟨f, as, bs, rfl, hbs, hcn⟩
    obtain ⟨y, hy, _⟩ := nodeVal_rel_total Alg.real_itv hp
      (buildCalls_rel_total Alg.real_itv funs (fun d hd => (hfuns d hd).supp)) hv1
      ⟨.apply f as, r, c⟩ (fun op a hk => by simp at hk) hx
    rw [hu.nodeVal_none (e2 := box)] at hy
    exact absurd hy (by simp)

/-- without applied functions -/
theorem cert_sound_nofun {dag : Dag} {box : List Itv} {doms : Array (Mat Itv)}
    {p : List ℝ} {rvals : Array (Mat ℝ)}
    (h : certOk [] dag box doms = true) (hp : EnvMem p box)
    (hrun : run Alg.real p (fun _ _ => none) dag = some rvals)
    (hyp : ∀ (i : Nat) op a r c, dag[i]? = some ⟨.un op a, r, c⟩ → op ≠ "trans" → op ∉ itvUnary →
      ∀ v z, rvals[i]? = some v → doms[i]? = some z → MatMem v z) :
    ∀ (i : Nat) v z, rvals[i]? = some v → doms[i]? = some z → MatMem v z :=
  cert_sound_un (funs := []) h hp hrun (fun d hd => absurd hd (by simp)) hyp

/-- **No assumption at all** when the main DAG and the function bodies only use unary operators that
    are interval operators of the model (or the transposition). -/
theorem cert_sound_supported {funs : List Dag} {dag : Dag} {box : List Itv} {doms : Array (Mat Itv)}
    {p : List ℝ} {rvals : Array (Mat ℝ)}
    (h : certOk funs dag box doms = true) (hp : EnvMem p box)
    (hrun : run Alg.real p (buildCalls Alg.real funs) dag = some rvals)
    (hdag : DagSupported dag) (hfuns : ∀ d ∈ funs, DagSupported d) :
    ∀ (i : Nat) v z, rvals[i]? = some v → doms[i]? = some z → MatMem v z :=
  cert_sound_un h hp hrun hfuns (fun i op a r c hn hop hni => by
    have hmem : (⟨.un op a, r, c⟩ : Node) ∈ dag.toList := by
      rw [List.mem_iff_getElem?]
      exact ⟨i, by rw [Array.getElem?_toList]; exact hn⟩
    rcases hdag _ hmem op a rfl with e | e
    · exact absurd e hop
    · exact absurd e hni)

/-- from all the nodes to the root: the value of the expression is the last node value -/
theorem root_of_nodes {AR : Alg ℝ} {rcall : Nat → List (Mat ℝ) → Option (Mat ℝ)} {funs : List Dag}
    {dag : Dag} {box : List Itv} {doms : Array (Mat Itv)} {p : List ℝ} {rvals : Array (Mat ℝ)}
    {v : Mat ℝ} {z : Mat Itv} (h : certOk funs dag box doms = true)
    (hrun : run AR p rcall dag = some rvals)
    (hall : ∀ (i : Nat) v z, rvals[i]? = some v → doms[i]? = some z → MatMem v z)
    (hv : root AR p rcall dag = some v) (hz : doms.back? = some z) : MatMem v z := by
  unfold root at hv
  rw [hrun] at hv
  simp only [Option.bind_some, Array.back?_eq_getElem?] at hv hz
  have hs : rvals.size = doms.size := by
    rw [run_eq] at hrun
    have := (fold_prefix _ hrun).1
    simp only [List.size_toArray, List.length_nil, Nat.zero_add, Array.length_toList] at this
    rw [this, certOk_size h]
  rw [hs] at hv
  exact hall _ v z hv hz

/-- **The value of the expression belongs to the implementation's domain of the root.** -/
theorem cert_sound_root {funs : List Dag} {dag : Dag} {box : List Itv} {doms : Array (Mat Itv)}
    {p : List ℝ} {rvals : Array (Mat ℝ)} {v : Mat ℝ} {z : Mat Itv}
    (h : certOk funs dag box doms = true) (hp : EnvMem p box)
    (hrun : run Alg.real p (buildCalls Alg.real funs) dag = some rvals)
    (hyp : ∀ (i : Nat) n, dag[i]? = some n → Unchecked Alg.itv (buildCalls Alg.itv funs) doms n →
      ∀ v z, rvals[i]? = some v → doms[i]? = some z → MatMem v z)
    (hv : root Alg.real p (buildCalls Alg.real funs) dag = some v) (hz : doms.back? = some z) :
    MatMem v z :=
  root_of_nodes h hrun (cert_sound h hp hrun hyp) hv hz

/-- the root, with no assumption, for DAGs and functions using only interval operators of the model -/
theorem cert_sound_supported_root {funs : List Dag} {dag : Dag} {box : List Itv}
    {doms : Array (Mat Itv)} {p : List ℝ} {v : Mat ℝ} {z : Mat Itv}
    (h : certOk funs dag box doms = true) (hp : EnvMem p box)
    (hdag : DagSupported dag) (hfuns : ∀ d ∈ funs, DagSupported d)
    (hv : root Alg.real p (buildCalls Alg.real funs) dag = some v) (hz : doms.back? = some z) :
    MatMem v z := by
  cases hrun : run Alg.real p (buildCalls Alg.real funs) dag with
  | none => simp [root, hrun] at hv
  | some rvals => exact root_of_nodes h hrun (cert_sound_supported h hp hrun hdag hfuns) hv hz

/-! ### the rational evaluation of the driver is the real semantics -/

theorem forall₂_cast (q : List ℚ) : List.Forall₂ RCast q (q.map (Rat.cast : ℚ → ℝ)) := by
  induction q with
  | nil => exact .nil
  | cons t q ih => exact .cons rfl ih

/-- if the exact rational evaluation at the rational point `q` is defined, the real evaluation at
    (the cast of) `q` is defined and every node value is the cast of the rational one -/
theorem rat_run_real {funs : List Dag} {dag : Dag} {q : List ℚ} {qv : Array (Mat ℚ)}
    (hq : run Alg.rat q (buildCalls Alg.rat funs) dag = some qv) :
    ∃ rv, run Alg.real (q.map (Rat.cast : ℚ → ℝ)) (buildCalls Alg.real funs) dag = some rv ∧
      qv.size = rv.size ∧ ∀ (i : Nat) v, qv[i]? = some v → ∃ z, rv[i]? = some z ∧ MatRel RCast v z :=
  run_rel_total Alg.rat_real (forall₂_cast q)
    (buildCalls_rel_total Alg.rat_real funs (fun _ _ n _ => Alg.rat_real_supp n))
    (fun n _ => Alg.rat_real_supp n) hq

theorem rat_root_real {funs : List Dag} {dag : Dag} {q : List ℚ} {v : Mat ℚ}
    (hq : root Alg.rat q (buildCalls Alg.rat funs) dag = some v) :
    ∃ z, root Alg.real (q.map (Rat.cast : ℚ → ℝ)) (buildCalls Alg.real funs) dag = some z ∧
      MatRel RCast v z :=
  root_rel_total Alg.rat_real (forall₂_cast q)
    (buildCalls_rel_total Alg.rat_real funs (fun _ _ n _ => Alg.rat_real_supp n))
    (fun n _ => Alg.rat_real_supp n) hq

/-! ### non-vacuity: `x*x - 1` over `[0,2]` -/

/-- nodes: 0 = x, 1 = x*x, 2 = 1, 3 = x*x - 1 -/
def exDag : Dag :=
  #[⟨.var 0, 1, 1⟩, ⟨.bin "mul" 0 0, 1, 1⟩, ⟨.const [Itv.point 1], 1, 1⟩, ⟨.bin "sub" 1 2, 1, 1⟩]
def exBox : List Itv := [Itv.mk (.fin 0) (.fin 2)]
def sc (a b : Rat) : Mat Itv := Mat.scalar (Itv.mk (.fin a) (.fin b))

/-- correct (and not tightest) node domains are accepted -/
example : certOk [] exDag exBox #[sc 0 2, sc 0 4, sc 1 1, sc (-1) 3] = true := by decide +kernel
example : certOk [] exDag exBox #[sc 0 2, sc (-1) 5, sc 1 1, sc (-2) 4] = true := by decide +kernel
/-- a root domain that misses the value at x = 0 is rejected, and the culprit is node 3 -/
example : certOk [] exDag exBox #[sc 0 2, sc 0 4, sc 1 1, sc 0 3] = false := by decide +kernel
example : certBad [] exDag exBox #[sc 0 2, sc 0 4, sc 1 1, sc 0 3] = [3] := by decide +kernel
/-- a wrong intermediate domain is rejected even when the root domain is right -/
example : certBad [] exDag exBox #[sc 0 2, sc 1 4, sc 1 1, sc (-1) 3] = [1] := by decide +kernel
/-- a missing domain, or an ill-formed one (no entry), is rejected -/
example : certOk [] exDag exBox #[sc 0 2, sc 0 4, sc 1 1] = false := by decide +kernel
example : certOk [] exDag exBox #[sc 0 2, sc 0 4, sc 1 1, ⟨1, 1, []⟩] = false := by decide +kernel

/-- the real evaluation of the example is what it should be -/
theorem exDag_run (x : ℝ) : run Alg.real [x] (fun _ _ => none) exDag =
    some #[Mat.scalar x, Mat.scalar (x * x), Mat.scalar 1, Mat.scalar (x * x - 1)] := by
  rw [run_eq]
  simp [exDag, step, nodeVal, binVal, mulVal, Mat.isScalar, Mat.mapM?, Mat.zip?, Alg.real, realOfItv,
    Itv.point, Mat.scalar]

/-- … and `cert_sound_supported` applied to the accepted certificate gives the expected enclosure
    for every real `x ∈ [0,2]` (hypotheses of the theorem are satisfiable, conclusion is meaningful) -/
example (x : ℝ) (hx : x ∈ Itv.mk (.fin 0) (.fin 2)) : x * x - 1 ∈ Itv.mk (.fin (-1)) (.fin 3) := by
  have hc : certOk [] exDag exBox #[sc 0 2, sc 0 4, sc 1 1, sc (-1) 3] = true := by decide +kernel
  have hp : EnvMem [x] exBox := .cons hx .nil
  have hops : DagSupported exDag := by
    intro n hn op a hk
    exfalso
    simp only [exDag, List.mem_cons, List.not_mem_nil, or_false] at hn
    rcases hn with rfl | rfl | rfl | rfl <;> simp at hk
  have := cert_sound_supported (funs := []) hc hp (exDag_run x) hops (fun d hd => absurd hd (by simp))
    3 (Mat.scalar (x * x - 1)) (sc (-1) 3) (by simp) (by simp)
  obtain ⟨_, _, hd⟩ := this
  simp only [Mat.scalar, sc] at hd
  cases hd with
  | cons h _ => exact h

/-! ### non-vacuity: an applied function, `f(y) = y²`, `f(x)` over `[-1,2]` -/

def sqrFun : Dag := #[⟨.var 0, 1, 1⟩, ⟨.un "sqr" 0, 1, 1⟩]
def appDag : Dag := #[⟨.var 0, 1, 1⟩, ⟨.apply 0 [0], 1, 1⟩]
def appBox : List Itv := [Itv.mk (.fin (-1)) (.fin 2)]

example : certOk [sqrFun] appDag appBox #[sc (-1) 2, sc 0 4] = true := by decide +kernel
example : certBad [sqrFun] appDag appBox #[sc (-1) 2, sc 1 4] = [1] := by decide +kernel

theorem appDag_run (x : ℝ) : run Alg.real [x] (buildCalls Alg.real [sqrFun]) appDag =
    some #[Mat.scalar x, Mat.scalar (x * x)] := by
  rw [run_eq]
  simp [appDag, sqrFun, step, nodeVal, unVal, buildCalls, root, run_eq, Mat.isScalar, Mat.mapM?,
    Alg.real, Mat.scalar]

example (x : ℝ) (hx : x ∈ Itv.mk (.fin (-1)) (.fin 2)) : x * x ∈ Itv.mk (.fin 0) (.fin 4) := by
  have hc : certOk [sqrFun] appDag appBox #[sc (-1) 2, sc 0 4] = true := by decide +kernel
  have hp : EnvMem [x] appBox := .cons hx .nil
  have hdag : DagSupported appDag := by
    intro n hn op a hk
    exfalso
    simp only [appDag, List.mem_cons, List.not_mem_nil, or_false] at hn
    rcases hn with rfl | rfl <;> simp at hk
  have hfun : ∀ d ∈ [sqrFun], DagSupported d := by
    intro d hd n hn op a hk
    simp only [List.mem_cons, List.not_mem_nil, or_false] at hd
    subst hd
    simp only [sqrFun, List.mem_cons, List.not_mem_nil, or_false] at hn
    rcases hn with rfl | rfl <;> simp at hk
    right
    simp [itvUnary, ← hk.1]
  have := cert_sound_supported hc hp (appDag_run x) hdag hfun
    1 (Mat.scalar (x * x)) (sc 0 4) (by simp) (by simp)
  obtain ⟨_, _, hd⟩ := this
  simp only [Mat.scalar, sc] at hd
  cases hd with
  | cons h _ => exact h

/-! ### non-vacuity: an operator the certificate cannot check, `exp(x) + 1` over `[0,2]` -/

def expDag : Dag :=
  #[⟨.var 0, 1, 1⟩, ⟨.un "exp" 0, 1, 1⟩, ⟨.const [Itv.point 1], 1, 1⟩, ⟨.bin "add" 1 2, 1, 1⟩]

example : certOk [] expDag exBox #[sc 0 2, sc 1 8, sc 1 1, sc 2 9] = true := by decide +kernel
/-- node 1 (`exp`) is NOT checked by the certificate: any domain is accepted for it; this is the
    assumption `hyp` of `cert_sound` (the harness validates these nodes against MPFR) … -/
example : certOk [] expDag exBox #[sc 0 2, sc 5 6, sc 1 1, sc 6 7] = true := by decide +kernel
/-- … but the nodes that depend on it are checked relative to its domain -/
example : certBad [] expDag exBox #[sc 0 2, sc 1 8, sc 1 1, sc 3 9] = [3] := by decide +kernel

theorem expDag_run (x : ℝ) : run Alg.real [x] (fun _ _ => none) expDag =
    some #[Mat.scalar x, Mat.scalar (Real.exp x), Mat.scalar 1, Mat.scalar (Real.exp x + 1)] := by
  rw [run_eq]
  simp [expDag, step, nodeVal, unVal, binVal, Mat.isScalar, Mat.mapM?, Mat.zip?, Alg.real, realOfItv,
    Itv.point, Mat.scalar]

/-- from the accepted certificate and the assumption on the `exp` node, the enclosure of the root -/
example (x : ℝ) (hx : x ∈ Itv.mk (.fin 0) (.fin 2))
    (hexp : Real.exp x ∈ Itv.mk (.fin 1) (.fin 8)) : Real.exp x + 1 ∈ Itv.mk (.fin 2) (.fin 9) := by
  have hc : certOk [] expDag exBox #[sc 0 2, sc 1 8, sc 1 1, sc 2 9] = true := by decide +kernel
  have hp : EnvMem [x] exBox := .cons hx .nil
  have := cert_sound_nofun hc hp (expDag_run x) (by
      intro i op a r c hi _ _ v z hv hz
      rcases i with _ | _ | _ | _ | i <;> simp [expDag] at hi
      -- only node 1 is a unary node
      simp at hv hz
      subst hv; subst hz
      exact ⟨rfl, rfl, .cons hexp .nil⟩)
    3 (Mat.scalar (Real.exp x + 1)) (sc 2 9) (by simp) (by simp)
  obtain ⟨_, _, hd⟩ := this
  simp only [Mat.scalar, sc] at hd
  cases hd with
  | cons h _ => exact h


/-! ### expressions with elementary functions (workloads `c02t`, `c08t`, `c12t`, `c04t`)

The harness computes a rigorous enclosure `o` of the real value (of the derivative) at a point of the box with MPFR
interval arithmetic; the driver reports a violation exactly when `o` and the result `z` of the library are disjoint.
What this refutes, for the TRUE value `v` (known only through `v ∈ o`): -/

/-- a value enclosed by the oracle cannot belong to a result that is disjoint from the oracle's enclosure -/
theorem oracle_refutes {o z : Itv} (h : (Itv.inter o z).isEmpty = true) {v : ℝ} (hv : v ∈ o) : ¬ v ∈ z := by
  intro hz
  have hm : v ∈ Itv.inter o z := Itv.mem_inter.2 ⟨hv, hz⟩
  cases hi : Itv.inter o z with
  | empty => rw [hi] at hm; exact Itv.not_mem_empty v hm
  | mk a b => rw [hi] at h; simp [Itv.isEmpty] at h

/-- and an enclosure of the oracle inside the result proves membership -/
theorem oracle_confirms {o z : Itv} (h : Itv.subset o z = true) {v : ℝ} (hv : v ∈ o) : v ∈ z :=
  Itv.mem_of_subset h hv

example : (Itv.inter (.mk (.fin 1) (.fin 2)) (.mk (.fin 3) (.fin 4))).isEmpty = true := by decide

end Ibex.C02
