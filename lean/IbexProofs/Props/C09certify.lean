/-
  C09 — `LoupFinderCertify` (rigor mode of the optimizer; driver op `certify`, harness `h_newton.cpp certify`).
  A box `s` returned as CERTIFIED with the value `l` claims: some point of `s` satisfies every equality exactly and every
  inequality, and the goal is `≤ l` on `s`.  The claim is

  * REFUTED when `Optim.witBoxRefuted P true l s` holds for the problem `P` with `epsH = 0` and an unbounded initial box
    (`certified_box_refuted`: the box is empty, or some constraint is violated at EVERY real point of `s` where it is
    defined — equalities exactly —, or the model's enclosure of the goal exceeds `l`), or when the equalities have no
    zero in `s` (`certified_box_without_zero`, interval exclusion on a verified subdivision);
  * CERTIFIED by an exactly feasible rational point of `s` (`certified_by_known_point`), or by the existence certificate
    of C09 on the equalities together with the inequalities proved on the whole box (`certified_inequalities_hold`).
-/
import IbexProofs.Optim
import IbexProofs.Props.C09rules

namespace Ibex.C09
open Ibex Ibex.Verdict Ibex.Optim

/-- **refuted**: what an accepted refutation of a certified box means -/
theorem certified_box_refuted {P : Problem} {l : Ext} {s : Box} (h : witBoxRefuted P true l s = true) :
    Box.isEmpty s = true ∨ Box.subset s P.box = false ∨
    (∃ c ∈ P.ctrs, ∀ ρ, Box.Mem ρ s → ∀ v, RealVal c.1 ρ v → ¬ SpecHolds (0 : ℝ) c.2 v) ∨
    (∃ lo hi, itvVal P.obj s = some (.mk lo hi) ∧ Ext.le hi l = false) := by
  simpa using witBoxRefuted_sound (rigor := true) h

/-- **refuted**: no zero of the equalities in the box -/
theorem certified_box_without_zero {eqs : List (List Dag × Dag)} {d : ℕ} {s : Box} (h : noZero eqs d s = true) :
    ¬ ∃ p, Box.Mem p s ∧ Zero eqs p := feasibility_refuted h

/-- **certified** by a rational point of the box decided feasible exactly (equalities with `epsH = 0`) -/
theorem certified_by_known_point {P : Problem} {z : List ℚ} {s : Box} (hs : ratIn z s = true) (hf : feasQ P z = true) :
    ∃ ρ, Box.Mem ρ s ∧ Feasible P ρ :=
  ⟨castPt z, by simpa [castPt, C06.castL] using (C06.ratIn_iff.1 hs), feasQ_sound hf⟩

/-- **certified**: an inequality proved by the model's interval evaluation holds at every real point of the box at
    which the constraint is defined -/
theorem certified_inequalities_hold {c : Fn × String} {s : Box} {z : Itv} (hz : itvVal c.1 s = some z)
    (h : specProved 0 c.2 z = true) {ρ : List ℝ} (hρ : Box.Mem ρ s) {v : ℝ} (hv : RealVal c.1 ρ v) :
    SpecHolds ((0 : ℚ) : ℝ) c.2 v := specProved_sound h (itvVal_encl hz hρ hv)

end Ibex.C09
