/-
  C09 — soundness of the uniqueness certificate `Newton.uniqueCertVars` / `Newton.uniqueCert` and of
  the replacement certificate `Newton.replaceCert` (IbexModel/Newton.lean).

  * `unique_of_cert` : if `uniqueCertVars progs h vars = true`, two real points `x y` of the box `h`
    that agree outside `vars` and at which the system `progs` is defined with the same values
    (e.g. two zeros) are equal.
  * `replaceCert_sound` : if `replaceCert progs c e vars = true` and `e` contains a zero for every
    value of the parameters in its parameter ranges, then every zero in the cell `c` lies in `e`.

  Both are stated over the real semantics `Alg.real` of the DAGs, and (`_sel` versions) over
  `Alg.realWith ch` for every selection `ch` of the thick interval constants.
  The chain: interval forward AD encloses the gradients on the whole box (`jacobian_encl`,
  NewtonCert.lean) ⇒ mean value theorem, one coordinate at a time inside the box (`C08.hansen_slope`)
  ⇒ `f x − f y = Ã (x − y)` with `Ã ∈ [J]` ⇒ `Ã` is regular (`regular_of_cert`) ⇒ `x = y`.
-/
import IbexProofs.NewtonCert

namespace Ibex.C09
open Ibex List Filter Topology

/-! ### boxes are convex, coordinate by coordinate -/

theorem Itv.mem_of_uIcc {I : Itv} {a b t : ℝ} (ha : a ∈ I) (hb : b ∈ I) (ht : t ∈ Set.uIcc a b) : t ∈ I := by
  cases I with
  | empty => exact absurd ha (Itv.not_mem_empty a)
  | mk lo hi =>
    rw [Itv.mem_mk] at ha hb ⊢
    rcases le_total a b with h | h
    · rw [Set.uIcc_of_le h] at ht
      exact ⟨le_trans ha.1 (EReal.coe_le_coe_iff.2 ht.1), le_trans (EReal.coe_le_coe_iff.2 ht.2) hb.2⟩
    · rw [Set.uIcc_of_ge h] at ht
      exact ⟨le_trans hb.1 (EReal.coe_le_coe_iff.2 ht.1), le_trans (EReal.coe_le_coe_iff.2 ht.2) ha.2⟩

theorem box_mem_ofFn {n : ℕ} {h : Box} (hn : h.length = n) (p : Fin n → ℝ) :
    Box.Mem (List.ofFn p) h ↔ ∀ k : Fin n, p k ∈ h.getD k .empty := by
  unfold Box.Mem
  rw [List.forall₂_iff_get]
  constructor
  · rintro ⟨_, hh⟩ k
    have hk : (k : ℕ) < h.length := hn ▸ k.2
    have := hh k (by simp) hk
    rw [List.getD_eq_getElem?_getD, List.getElem?_eq_getElem hk]
    simpa using this
  · intro hh
    refine ⟨by simp [hn], fun i h1 h2 => ?_⟩
    have hi : i < n := by simpa using h1
    have := hh ⟨i, hi⟩
    rw [List.getD_eq_getElem?_getD, List.getElem?_eq_getElem h2] at this
    simpa using this

theorem ofFn_getElem {n : ℕ} {x : List ℝ} (hx : x.length = n) :
    List.ofFn (fun k : Fin n => x[(k : ℕ)]'(hx ▸ k.2)) = x := by
  apply List.ext_getElem
  · simp [hx]
  · intro i h1 h2
    simp

/-! ### the mean value theorem on a box, row form -/

open Classical in
/-- `C08.hansen_slope` with existentially given partial derivatives -/
theorem hansen_slope_ex {n : ℕ} {f : (Fin n → ℝ) → ℝ} {x0 x : Fin n → ℝ} {H : Fin n → Itv}
    (hd : ∀ (k : Fin n), ∀ t ∈ Set.uIcc (x0 k) (x k), ∃ D : ℝ,
      HasDerivAt (fun t => f (Function.update (C08.mix x0 x k) k t)) D t ∧ D ∈ H k) :
    ∃ s : Fin n → ℝ, (∀ k, s k ∈ H k) ∧ f x - f x0 = ∑ k, s k * (x k - x0 k) := by
  let f' : Fin n → ℝ → ℝ := fun k t =>
    if ht : t ∈ Set.uIcc (x0 k) (x k) then Classical.choose (hd k t ht) else 0
  refine C08.hansen_slope (f' := f') fun k t ht => ?_
  simp only [f', dif_pos ht]
  exact Classical.choose_spec (hd k t ht)

/-- if the gradient of `f` at every point of the box `h` is a member of the interval row `row`, then
    `f x − f y = Σ_k s_k (x_k − y_k)` with `s_k ∈ row_k`, for all `x y` in `h` -/
theorem slope_row {n : ℕ} {h : Box} (hn : h.length = n) {f : (Fin n → ℝ) → ℝ} {row : List Itv}
    (hf : ∀ p : Fin n → ℝ, Box.Mem (List.ofFn p) h →
      ∃ g : List ℝ, g.length = n ∧ Forall₂ RMem g row ∧ HasFDerivAt f (gradR n g) p)
    {x y : Fin n → ℝ} (hx : Box.Mem (List.ofFn x) h) (hy : Box.Mem (List.ofFn y) h) :
    ∃ s : Fin n → ℝ, (∀ k : Fin n, s k ∈ row.getD k .empty) ∧ f x - f y = ∑ k, s k * (x k - y k) := by
  rw [box_mem_ofFn hn] at hx hy
  refine hansen_slope_ex (H := fun k : Fin n => row.getD k .empty) fun k t ht => ?_
  have hP : Box.Mem (List.ofFn (Function.update (C08.mix y x k) k t)) h := by
    rw [box_mem_ofFn hn]
    intro i
    by_cases hik : i = k
    · subst hik
      rw [Function.update_self]
      exact Itv.mem_of_uIcc (hy i) (hx i) ht
    · rw [Function.update_of_ne hik]
      unfold C08.mix
      split
      · exact hx i
      · exact hy i
  obtain ⟨g, hgl, hgm, hfd⟩ := hf _ hP
  refine ⟨g.getD k 0, ?_, ?_⟩
  · have h1 := hasDerivAt_update (C08.mix y x k) k t
    have := hfd.comp_hasDerivAt t h1
    rw [gradR_single] at this
    exact this
  · have hk : (k : ℕ) < g.length := hgl ▸ k.2
    obtain ⟨hk', hmem⟩ := forall₂_getElem hgm hk
    simp only [List.getD_eq_getElem?_getD, List.getElem?_eq_getElem hk, List.getElem?_eq_getElem hk',
      Option.getD_some]
    exact hmem

/-! ### unpacking the certificate -/

/-- what `uniqueCertVars = true` provides -/
theorem cert_unpack {progs : List (List Dag × Dag)} {h : Box} {vars : List ℕ}
    (hcert : Newton.uniqueCertVars progs h vars = true) :
    progs.length = vars.length ∧ (∀ v ∈ vars, v < h.length) ∧
    ∃ (jfull : List (List Itv)) (c : List (List ℚ)), Newton.jacobian progs h = some jfull ∧
      c.length = jfull.length ∧
      Newton.diagDominant (Newton.precond c
        (jfull.map fun row => vars.map fun v => row.getD v .empty)) = true := by
  unfold Newton.uniqueCertVars at hcert
  simp only [Bool.and_eq_true, beq_iff_eq, List.all_eq_true, decide_eq_true_eq] at hcert
  obtain ⟨⟨⟨hlen, _⟩, hvars⟩, hmatch⟩ := hcert
  refine ⟨hlen, hvars, ?_⟩
  split at hmatch
  · exact absurd hmatch (by simp)
  · rename_i jfull hJ
    split at hmatch
    · exact absurd hmatch (by simp)
    · rename_i mid hmid
      split at hmatch
      · exact absurd hmatch (by simp)
      · rename_i c hc
        refine ⟨jfull, c, hJ, ?_, hmatch⟩
        rw [inverse_length hc, ← (C08.mapM_forall₂ hmid).length_eq, List.length_map]

theorem valW_eq (ch : Itv → Option ℝ) (q : List Dag × Dag) {n : ℕ} (x : Fin n → ℝ) :
    valW ch q x = (((rootW ch q (List.ofFn x)).map (·.d)).bind (·[0]?)).getD 0 := by
  unfold valW
  cases rootW ch q (List.ofFn x) <;> rfl

/-! ### uniqueness -/

/-- **Soundness of the uniqueness certificate** (thick constants selected by `ch`).
    If `uniqueCertVars progs h vars = true`, then two points `x y` of the box `h` that have the same
    coordinates outside `vars` (same parameters) and the same image under the system `progs` are
    equal.  (The system is defined on the whole box, see `jacobian_encl`.) -/
theorem unique_of_cert_sel {ch : Itv → Option ℝ} (hch : Sel ch) {progs : List (List Dag × Dag)} {h : Box}
    {vars : List ℕ} (hcert : Newton.uniqueCertVars progs h vars = true) {x y : List ℝ}
    (hx : Box.Mem x h) (hy : Box.Mem y h) (hpar : ∀ k, k ∉ vars → x[k]? = y[k]?)
    (hf : ∀ q ∈ progs, (rootW ch q x).map (·.d) = (rootW ch q y).map (·.d)) : x = y := by
  obtain ⟨hlen, hvars, jfull, c, hJ, hc, hdd⟩ := cert_unpack hcert
  have hJl := jacobian_length hJ
  have hencl := jacobian_encl hch hJ
  -- notation
  have hxl : x.length = h.length := hx.length_eq
  have hyl : y.length = h.length := hy.length_eq
  let x' : Fin h.length → ℝ := fun k => x[(k : ℕ)]'(by rw [hxl]; exact k.2)
  let y' : Fin h.length → ℝ := fun k => y[(k : ℕ)]'(by rw [hyl]; exact k.2)
  have hx' : List.ofFn x' = x := ofFn_getElem hxl
  have hy' : List.ofFn y' = y := ofFn_getElem hyl
  let m := vars.length
  let e : Fin m → Fin h.length := fun c => ⟨vars[(c : ℕ)], hvars _ (List.getElem_mem c.2)⟩
  -- the slope matrix, one row per function
  have hrows : ∀ i : Fin m, ∃ s : Fin h.length → ℝ,
      (∀ k : Fin h.length, s k ∈ ((jfull.getD i []).getD k .empty)) ∧ ∑ k, s k * (x' k - y' k) = 0 := by
    intro i
    have hi : (i : ℕ) < progs.length := hlen ▸ i.2
    obtain ⟨hi', hrow, hq⟩ := forall₂_getElem hencl hi
    have hval : valW ch progs[(i : ℕ)] x' = valW ch progs[(i : ℕ)] y' := by
      rw [valW_eq, valW_eq, hx', hy', hf _ (List.getElem_mem hi)]
    obtain ⟨s, hs, hsum⟩ := slope_row (h := h) rfl (f := valW ch progs[(i : ℕ)]) (row := jfull[(i : ℕ)])
      (fun p hp => (hq p hp).2) (x := x') (y := y') (hx' ▸ hx) (hy' ▸ hy)
    refine ⟨s, fun k => ?_, ?_⟩
    · rw [List.getD_eq_getElem?_getD (l := jfull), List.getElem?_eq_getElem hi']
      exact hs k
    · rw [← hsum, hval, sub_self]
  choose s hs hsum using hrows
  let A : Fin m → Fin m → ℝ := fun i c => s i (e c)
  have hjl : (jfull.map fun row => vars.map fun v => row.getD v Itv.empty).length = m := by
    rw [List.length_map, hJl, hlen]
  have hA : ∀ i k : Fin m, A i k ∈
      ((jfull.map fun row => vars.map fun v => row.getD v Itv.empty).getD i []).getD k .empty := by
    intro i k
    have hi : (i : ℕ) < jfull.length := by rw [hJl, hlen]; exact i.2
    have := hs i (e k)
    simp only [List.getD_eq_getElem?_getD, List.getElem?_map, List.getElem?_eq_getElem hi,
      List.getElem?_eq_getElem k.2, Option.map_some, Option.getD_some] at this ⊢
    exact this
  have hreg := regular_of_cert hjl (by rw [hc, hJl, hlen]) hdd A hA
  -- the variables are pairwise distinct
  have hinj : Function.Injective e := by
    intro c1 c2 h12
    by_contra hne
    have := hreg (Pi.single c1 1 - Pi.single c2 1) (fun i => by
      simp only [Pi.sub_apply, mul_sub, Finset.sum_sub_distrib, Pi.single_apply, mul_ite, mul_one,
        mul_zero, Finset.sum_ite_eq', Finset.mem_univ, if_true, A, h12, sub_self])
    have h1 := congrFun this c1
    simp [Ne.symm hne] at h1
  -- `Ã (x − y)|vars = 0`
  have hzero := hreg (fun c => x' (e c) - y' (e c)) (fun i => by
    rw [← hsum i]
    refine Finset.sum_of_injOn e (fun a _ b _ hab => hinj hab) (fun _ _ => Finset.mem_coe.2 (Finset.mem_univ _))
      (fun k _ hk => ?_) (fun c _ => rfl)
    have hkv : (k : ℕ) ∉ vars := by
      intro hmem
      obtain ⟨c, hc, hck⟩ := List.getElem_of_mem hmem
      exact hk ⟨⟨c, hc⟩, Finset.mem_coe.2 (Finset.mem_univ _), Fin.ext hck⟩
    have := hpar k hkv
    rw [List.getElem?_eq_getElem (by rw [hxl]; exact k.2), List.getElem?_eq_getElem (by rw [hyl]; exact k.2)] at this
    simp only [Option.some.injEq] at this
    simp only [x', y', this, sub_self, mul_zero])
  -- conclusion
  apply List.ext_getElem (by rw [hxl, hyl])
  intro k h1 h2
  have hk : k < h.length := hxl ▸ h1
  by_cases hkv : k ∈ vars
  · obtain ⟨c, hc, hck⟩ := List.getElem_of_mem hkv
    have := congrFun hzero ⟨c, hc⟩
    simp only [Pi.zero_apply, sub_eq_zero, x', y', e, hck] at this
    exact this
  · have := hpar k hkv
    rw [List.getElem?_eq_getElem h1, List.getElem?_eq_getElem h2] at this
    simpa using this

/-! ### the point semantics `Alg.real` is the restriction of a selection semantics -/

open Classical in
/-- a selection that extends `realOfItv`: degenerate constants denote their point, the other
    constants any of their members -/
noncomputable def chReal : Itv → Option ℝ := fun I =>
  match realOfItv I with
  | some x => some x
  | none => if h : ∃ x : ℝ, x ∈ I then some (Classical.choose h) else none

theorem realOfItv_mem {I : Itv} {a : ℝ} (h : realOfItv I = some a) : a ∈ I := by
  unfold realOfItv at h
  split at h
  · split at h
    · rename_i e
      subst e
      simp only [Option.some.injEq] at h
      subst h
      exact Bwd.mem_point.2 rfl
    · exact absurd h (by simp)
  · exact absurd h (by simp)

theorem chReal_sel : Sel chReal := by
  intro I hI
  unfold chReal
  split
  · rename_i x hx
    exact ⟨x, rfl, realOfItv_mem hx⟩
  · rw [dif_pos hI]
    exact ⟨_, rfl, Classical.choose_spec hI⟩

theorem Alg.real_realWith : AlgRel Eq Alg.real (Alg.realWith chReal) where
  ofItv := by
    intro I a h
    refine ⟨a, ?_, rfl⟩
    show chReal I = some a
    unfold chReal
    have h' : realOfItv I = some a := h
    rw [h']
  zero := rfl
  add := by rintro a b a' b' x rfl rfl h; exact ⟨x, h, rfl⟩
  sub := by rintro a b a' b' x rfl rfl h; exact ⟨x, h, rfl⟩
  mul := by rintro a b a' b' x rfl rfl h; exact ⟨x, h, rfl⟩
  div := by rintro a b a' b' x rfl rfl h; exact ⟨x, h, rfl⟩
  max := by rintro a b a' b' x rfl rfl h; exact ⟨x, h, rfl⟩
  min := by rintro a b a' b' x rfl rfl h; exact ⟨x, h, rfl⟩
  un := by
    intro op f g hf hg
    have hg' : Alg.real.un op = some g := hg
    have : f = g := Option.some.inj (hf.symm.trans hg')
    subst this
    rintro a b x rfl h
    exact ⟨x, h, rfl⟩
  pow := by rintro n a b x rfl h; exact ⟨x, h, rfl⟩
  chi := by rintro a b a' b' a'' b'' x rfl rfl rfl h; exact ⟨x, h, rfl⟩

theorem Alg.real_realWith_supp (nd : Node) : Eval.Supp Alg.real (Alg.realWith chReal) nd :=
  fun _ _ _ _ h => h

/-- the real value (point semantics) at the flattened point `x` of the DAG `q.2`, with applied
    functions `q.1` -/
noncomputable def rootR (q : List Dag × Dag) (x : List ℝ) : Option (Mat ℝ) :=
  Eval.root Alg.real x (Eval.buildCalls Alg.real q.1) q.2

theorem rootW_of_rootR {q : List Dag × Dag} {x : List ℝ} {m : Mat ℝ} (h : rootR q x = some m) :
    rootW chReal q x = some m := by
  obtain ⟨y, hy, hr, hc, hd⟩ := Eval.root_rel_total Alg.real_realWith (forall₂_eq_self x)
    (Eval.buildCalls_rel_total Alg.real_realWith q.1 fun _ _ nd _ => Alg.real_realWith_supp nd)
    (fun nd _ => Alg.real_realWith_supp nd) h
  have : m = y := by
    cases m; cases y
    simp only at hr hc hd
    rw [List.forall₂_eq_eq_eq] at hd
    subst hr; subst hc; subst hd
    rfl
  rw [this]
  exact hy

/-- **Soundness of the uniqueness certificate, real semantics.**  If
    `uniqueCertVars progs h vars = true`, two real points `x y` of the box `h` with the same
    parameters (coordinates outside `vars`) at which every function of the system is defined and takes
    the same value are equal: restricted to the variables `vars`, the system is injective on `h`. -/
theorem unique_of_cert {progs : List (List Dag × Dag)} {h : Box} {vars : List ℕ}
    (hcert : Newton.uniqueCertVars progs h vars = true) {x y : List ℝ}
    (hx : Box.Mem x h) (hy : Box.Mem y h) (hpar : ∀ k, k ∉ vars → x[k]? = y[k]?)
    (hf : ∀ q ∈ progs, ∃ mx my, rootR q x = some mx ∧ rootR q y = some my ∧ mx.d = my.d) : x = y := by
  refine unique_of_cert_sel chReal_sel hcert hx hy hpar fun q hq => ?_
  obtain ⟨mx, my, h1, h2, h3⟩ := hf q hq
  rw [rootW_of_rootR h1, rootW_of_rootR h2]
  simp [h3]

/-- `z` is a zero of the system (real semantics) -/
def Zero (progs : List (List Dag × Dag)) (z : List ℝ) : Prop :=
  ∀ q ∈ progs, ∃ m, rootR q z = some m ∧ m.d = [0]

/-- `z` is a zero of the system (thick constants selected by `ch`) -/
def ZeroW (ch : Itv → Option ℝ) (progs : List (List Dag × Dag)) (z : List ℝ) : Prop :=
  ∀ q ∈ progs, ∃ m, rootW ch q z = some m ∧ m.d = [0]

theorem Zero.toW {progs : List (List Dag × Dag)} {z : List ℝ} (h : Zero progs z) : ZeroW chReal progs z :=
  fun q hq => by
    obtain ⟨m, hm, hd⟩ := h q hq
    exact ⟨m, rootW_of_rootR hm, hd⟩

/-- **At most one zero** in the box for each value of the parameters. -/
theorem unique_zero {progs : List (List Dag × Dag)} {h : Box} {vars : List ℕ}
    (hcert : Newton.uniqueCertVars progs h vars = true) {x y : List ℝ}
    (hx : Box.Mem x h) (hy : Box.Mem y h) (hpar : ∀ k, k ∉ vars → x[k]? = y[k]?)
    (hzx : Zero progs x) (hzy : Zero progs y) : x = y :=
  unique_of_cert hcert hx hy hpar fun q hq => by
    obtain ⟨mx, h1, h2⟩ := hzx q hq
    obtain ⟨my, h3, h4⟩ := hzy q hq
    exact ⟨mx, my, h1, h3, h2.trans h4.symm⟩

/-- square case -/
theorem unique_zero_square {progs : List (List Dag × Dag)} {h : Box}
    (hcert : Newton.uniqueCert progs h = true) {x y : List ℝ}
    (hx : Box.Mem x h) (hy : Box.Mem y h) (hzx : Zero progs x) (hzy : Zero progs y) : x = y := by
  refine unique_zero hcert hx hy (fun k hk => ?_) hzx hzy
  have hk' : ¬ k < h.length := by simpa using hk
  rw [List.getElem?_eq_none (by rw [hx.length_eq]; omega), List.getElem?_eq_none (by rw [hy.length_eq]; omega)]

/-! ### replacement of a cell by an existence box -/

theorem mem_hull_left : ∀ {p : List ℝ} {c e : Box}, Box.Mem p c → c.length = e.length →
    Box.Mem p (List.zipWith Itv.hull c e) := by
  intro p c e hp
  induction hp generalizing e with
  | nil => intro _; simp [Box.Mem]
  | cons h0 _ ih =>
    intro hl
    cases e with
    | nil => simp at hl
    | cons E es =>
      simp only [List.zipWith_cons_cons]
      exact List.Forall₂.cons (Itv.mem_hull_left h0) (ih (by simpa using hl))

theorem mem_hull_right : ∀ {p : List ℝ} {c e : Box}, Box.Mem p e → c.length = e.length →
    Box.Mem p (List.zipWith Itv.hull c e) := by
  intro p c e hp
  induction hp generalizing c with
  | nil => intro _; simp [Box.Mem]
  | cons h0 _ ih =>
    intro hl
    cases c with
    | nil => simp at hl
    | cons C cs =>
      simp only [List.zipWith_cons_cons]
      exact List.Forall₂.cons (Itv.mem_hull_right h0) (ih (by simpa using hl))

/-- **Soundness of the replacement certificate** (thick constants selected by `ch`). -/
theorem replaceCert_sound_sel {ch : Itv → Option ℝ} (hch : Sel ch) {progs : List (List Dag × Dag)}
    {c e : Box} {vars : List ℕ} (hcert : Newton.replaceCert progs c e vars = true)
    (hE : ∀ π : List ℝ, π.length = e.length →
      (∀ i t I, i ∉ vars → π[i]? = some t → e[i]? = some I → t ∈ I) →
      ∃ z, Box.Mem z e ∧ (∀ i, i ∉ vars → z[i]? = π[i]?) ∧ ZeroW ch progs z)
    {p : List ℝ} (hp : Box.Mem p c) (hz : ZeroW ch progs p) : Box.Mem p e := by
  unfold Newton.replaceCert at hcert
  simp only [Bool.and_eq_true, beq_iff_eq, List.all_eq_true, List.mem_range, Bool.or_eq_true,
    List.contains_iff_mem] at hcert
  obtain ⟨⟨hlen, hsub⟩, huniq⟩ := hcert
  have hpl : p.length = c.length := hp.length_eq
  obtain ⟨z, hze, hzpar, hzz⟩ := hE p (by rw [hpl, hlen]) (by
    intro i t I hi hpt heI
    have hic : i < c.length := by
      rw [← hpl]
      exact (List.getElem?_eq_some_iff.1 hpt).1
    rcases hsub i hic with hv | hs
    · exact absurd hv hi
    · split at hs
      · rename_i ci ei hci hei
        rw [heI] at hei
        simp only [Option.some.injEq] at hei
        subst hei
        exact Itv.mem_of_subset hs ((Box.mem_iff.1 hp).2 i t ci hpt hci)
      · exact absurd hs (by simp))
  have hhull : Box.hull c e = List.zipWith Itv.hull c e := by
    unfold Box.hull
    rw [if_neg (by simp [Box.isEmpty_eq_false_of_mem hp]), if_neg (by simp [Box.isEmpty_eq_false_of_mem hze])]
  rw [hhull] at huniq
  have : p = z := unique_of_cert_sel hch huniq (mem_hull_left hp hlen) (mem_hull_right hze hlen)
    (fun k hk => (hzpar k hk).symm) (fun q hq => by
      obtain ⟨m1, h1, h2⟩ := hz q hq
      obtain ⟨m2, h3, h4⟩ := hzz q hq
      rw [h1, h3]
      simp [h2, h4])
  rw [this]
  exact hze

/-- **Soundness of the replacement certificate, real semantics.**  `c` is a search cell, `e` a box
    such that for every value `π` of the parameters (the coordinates outside `vars`) in the parameter
    ranges of `e`, the system has a zero in `e` with these parameters (existence, ASSUMED: it is what a
    Newton existence test establishes).  If `replaceCert progs c e vars = true` then every zero of
    the system in the cell `c` belongs to `e`: dropping `c` in favour of `e` loses no solution. -/
theorem replaceCert_sound {progs : List (List Dag × Dag)} {c e : Box} {vars : List ℕ}
    (hcert : Newton.replaceCert progs c e vars = true)
    (hE : ∀ π : List ℝ, π.length = e.length →
      (∀ i t I, i ∉ vars → π[i]? = some t → e[i]? = some I → t ∈ I) →
      ∃ z, Box.Mem z e ∧ (∀ i, i ∉ vars → z[i]? = π[i]?) ∧ Zero progs z)
    {p : List ℝ} (hp : Box.Mem p c) (hz : Zero progs p) : Box.Mem p e :=
  replaceCert_sound_sel chReal_sel hcert (fun π h1 h2 => by
    obtain ⟨z, hz1, hz2, hz3⟩ := hE π h1 h2
    exact ⟨z, hz1, hz2, hz3.toW⟩) hp hz.toW

/-! ### non-vacuity -/

def I (a b : ℚ) : Itv := Itv.mk (.fin a) (.fin b)

/-- `x² − 2`; nodes: 0 = x, 1 = x², 2 = 2, 3 = x² − 2 -/
def sqDag : Dag :=
  #[⟨.var 0, 1, 1⟩, ⟨.un "sqr" 0, 1, 1⟩, ⟨.const [Itv.point 2], 1, 1⟩, ⟨.bin "sub" 1 2, 1, 1⟩]

/-- accepted on `[1,2]` (interval derivative `[2,4]`), rejected on `[−2,2]` (two zeros) -/
example : Newton.jacobian [([], sqDag)] [I 1 2] = some [[I 2 4]] := by decide +kernel
example : Newton.uniqueCert [([], sqDag)] [I 1 2] = true := by decide +kernel
example : Newton.uniqueCert [([], sqDag)] [I (-2) 2] = false := by decide +kernel

/-- the circle `x² + y² − 1` and the diagonal `x − y` -/
def circ : Dag :=
  #[⟨.var 0, 1, 1⟩, ⟨.var 1, 1, 1⟩, ⟨.un "sqr" 0, 1, 1⟩, ⟨.un "sqr" 1, 1, 1⟩, ⟨.bin "add" 2 3, 1, 1⟩,
    ⟨.const [Itv.point 1], 1, 1⟩, ⟨.bin "sub" 4 5, 1, 1⟩]
def diag : Dag := #[⟨.var 0, 1, 1⟩, ⟨.var 1, 1, 1⟩, ⟨.bin "sub" 0 1, 1, 1⟩]

/-- 2×2: accepted on the quadrant box `[1/2,1]²` (one intersection), rejected on `[−1,1]²` (two) -/
example : Newton.uniqueCert [([], circ), ([], diag)] [I (1/2) 1, I (1/2) 1] = true := by decide +kernel
example : Newton.uniqueCert [([], circ), ([], diag)] [I (-1) 1, I (-1) 1] = false := by decide +kernel
/-- one equation, variable `x`, parameter `y`: accepted; a repeated variable is rejected -/
example : Newton.uniqueCertVars [([], circ)] [I (1/2) 1, I (1/2) 1] [0] = true := by decide +kernel
example : Newton.uniqueCertVars [([], circ), ([], diag)] [I (1/2) 1, I (1/2) 1] [0, 0] = false := by
  decide +kernel
/-- the cell `[1,3/2]` is replaced by the existence box `[1.41,1.42]` of `√2` -/
example : Newton.replaceCert [([], sqDag)] [I 1 (3/2)] [I (141/100) (142/100)] [0] = true := by
  decide +kernel
/-- a division whose denominator interval contains 0, an ill-formed constant: no Jacobian -/
def invDag : Dag := #[⟨.var 0, 1, 1⟩, ⟨.const [Itv.point 1], 1, 1⟩, ⟨.bin "div" 1 0, 1, 1⟩]
example : Newton.jacobian [([], invDag)] [I (-1) 1] = none := by decide +kernel
example : Newton.jacobian [([], invDag)] [I 1 2] = some [[I (-1) (-1/4)]] := by decide +kernel
example : Newton.jacobian [([], #[⟨.const [I 3 1], 1, 1⟩])] [I 1 2] = none := by decide +kernel

/-- the hypotheses of `unique_zero_square` are satisfiable and its conclusion is the expected one:
    `x² − 2` has at most one zero in `[1,2]` -/
theorem sq_root (a : ℝ) : rootR ([], sqDag) [a] = some (Mat.scalar (a * a - 2)) := by
  unfold rootR Eval.root
  rw [Eval.run_eq]
  simp [sqDag, Eval.step, Eval.nodeVal, Eval.binVal, Eval.unVal, Mat.isScalar, Mat.mapM?, Mat.zip?,
    Alg.real, Mat.scalar, realOfItv, Itv.point]

example (a b : ℝ) (ha : 1 ≤ a ∧ a ≤ 2) (hb : 1 ≤ b ∧ b ≤ 2) (ha0 : a * a - 2 = 0) (hb0 : b * b - 2 = 0) :
    a = b := by
  have hmem : ∀ t : ℝ, 1 ≤ t ∧ t ≤ 2 → Box.Mem [t] [I 1 2] := fun t ht =>
    List.Forall₂.cons (mem_fin_iff.2 (by simpa using ht)) List.Forall₂.nil
  have hzero : ∀ t : ℝ, t * t - 2 = 0 → Zero [([], sqDag)] [t] := fun t ht q hq => by
    simp only [List.mem_singleton] at hq
    subst hq
    exact ⟨_, sq_root t, by simp [Mat.scalar, ht]⟩
  have := unique_zero_square (progs := [([], sqDag)]) (h := [I 1 2]) (by decide +kernel)
    (hmem a ha) (hmem b hb) (hzero a ha0) (hzero b hb0)
  simpa using this

end Ibex.C09
