/-
  C09 (existence) — soundness of the existence certificate `Newton.existCertVars` (Krawczyk operator,
  Banach fixed point) of IbexModel/Newton.lean, and what follows from it.

  * `exists_zero_of_cert_sel` : if `existCertVars progs h vars = true` then for EVERY value `π` of the
    parameters (coordinates outside `vars`) in their ranges in `h`, the system has a zero in `h` with
    these parameters — for every selection `ch` of the thick interval constants (`Sel ch`): whatever
    members of the thick constants are chosen, the resulting real system has a zero.
    This is exactly the hypothesis `hE` of `replaceCert_sound(_sel)` (Props/C09.lean).
  * `exists_zero_of_cert`, `exists_zero_square` : the same over the point semantics `Alg.real`
    (`Zero`), for systems WITHOUT thick constant (`pointConsts progs = true`, a decidable check; with
    a thick constant `Alg.real` is undefined and only the `_sel` statements make sense).
  * `replaceCert_sound_sel'`, `replaceCert_sound'` : `replaceCert_sound` with `hE` replaced by
    `existCertVars progs e vars = true` (no assumption left; no restriction on the constants).
  * `exists_unique_zero_sel`, `exists_unique_zero` : `existUniqueCertVars progs e u vars = true` ⇒
    for every parameter value in `e`, exactly one zero in `e`, and no other zero in `u ⊇ e`.

  Proof (Banach): fix `π`; on the complete set `X = Π_c h_{vars c} ⊆ Fin m → ℝ` (sup metric) let
  `g(y) = y − C f(y,π)`.  The interval Jacobian over the whole box encloses the gradients on every slice
  (`jacobian_encl`), so by the row-wise mean value theorem (`slope_row`)
  `g y − g y' = (I − C Ã)(y − y')` with `I − C Ã ∈ I − C[J]` (`precond_encl`), whose row sums of
  magnitudes are `< 1`: contraction.  `g y = g x̃ + (I − C Ã)(y − x̃) ∈ K ⊆ X`: self-map.  Fixed point
  `z`: `C f(z,π) = 0`, and `C` has the exact left inverse `mid` (checked by `leftInvOk`): `f(z,π) = 0`.
-/
import IbexProofs.Props.C09
import IbexProofs.NewtonExist

namespace Ibex.C09
open Ibex List Filter Topology

/-- a selection that never gives a value outside the constant -/
def Strict (ch : Itv → Option ℝ) : Prop := ∀ I x, ch I = some x → x ∈ I

theorem sum_vars {n m : ℕ} {vars : List ℕ} (hm : vars.length = m) (e : Fin m → Fin n)
    (he : ∀ c : Fin m, (e c : ℕ) = vars[(c : ℕ)]'(hm ▸ c.2)) (hinj : Function.Injective e)
    (w : Fin n → ℝ) (hw : ∀ j : Fin n, (j : ℕ) ∉ vars → w j = 0) :
    ∑ c : Fin m, w (e c) = ∑ j : Fin n, w j := by
  refine Finset.sum_of_injOn e (fun a _ b _ hab => hinj hab) (fun _ _ => Finset.mem_coe.2 (Finset.mem_univ _))
    (fun k _ hk => ?_) (fun c _ => rfl)
  refine hw k fun hmem => ?_
  obtain ⟨c, hc, hck⟩ := List.getElem_of_mem hmem
  exact hk ⟨⟨c, hm ▸ hc⟩, Finset.mem_coe.2 (Finset.mem_univ _), Fin.ext (by rw [he]; exact hck)⟩

/-- **Soundness of the existence certificate** for a strict selection `ch` of the thick constants. -/
theorem exists_zero_strict {ch : Itv → Option ℝ} (hch : Sel ch) (hstrict : Strict ch)
    {progs : List (List Dag × Dag)} {h : Box} {vars : List ℕ}
    (hcert : Newton.existCertVars progs h vars = true) (π : List ℝ) (hπl : π.length = h.length)
    (hπ : ∀ i t I, i ∉ vars → π[i]? = some t → h[i]? = some I → t ∈ I) :
    ∃ z, Box.Mem z h ∧ (∀ i, i ∉ vars → z[i]? = π[i]?) ∧ ZeroW ch progs z := by
  classical
  obtain ⟨hlen, hvars, hnd, jfull, mid, cm, bnds, fm, hJ, hc, hL, hb, hfm, hrow, hK⟩ := exist_unpack hcert
  have hJl := jacobian_length hJ
  have hencl := jacobian_encl hch hJ
  have hbf := C08.mapM_forall₂ hb
  have hbl : bnds.length = vars.length := hbf.length_eq.symm
  have hfmF := C08.mapM_forall₂ hfm
  have hfml : fm.length = vars.length := by rw [← hfmF.length_eq, hlen]
  have hcm : cm.length = vars.length := by rw [hc, hJl, hlen]
  have hkp : ∀ k : Fin vars.length, (k : ℕ) < progs.length := fun k => by rw [hlen]; exact k.2
  have hkc : ∀ k : Fin vars.length, (k : ℕ) < cm.length := fun k => by rw [hcm]; exact k.2
  -- abbreviations
  generalize hxm : (bnds.map fun (ab : ℚ × ℚ) => (ab.1 + ab.2) / 2) = xm at hfm hfmF hK
  generalize hj : (jfull.map fun row => vars.map fun v => row.getD v Itv.empty) = j at hrow hK
  have hjl : j.length = vars.length := by rw [← hj, List.length_map, hJl, hlen]
  have hkj : ∀ k : Fin vars.length, (k : ℕ) < j.length := fun k => by rw [hjl]; exact k.2
  have hxml : xm.length = vars.length := by rw [← hxm, List.length_map, hbl]
  let e : Fin vars.length → Fin h.length := fun c => ⟨vars[(c : ℕ)], hvars _ (List.getElem_mem c.2)⟩
  have hinj : Function.Injective e := by
    intro c1 c2 h12
    have : vars[(c1 : ℕ)] = vars[(c2 : ℕ)] := congrArg Fin.val h12
    exact Fin.ext ((List.Nodup.getElem_inj_iff hnd).1 this)
  -- the bounds of the variables
  let lo : Fin vars.length → ℝ := fun c => (((bnds.getD c (0, 0)).1 : ℚ) : ℝ)
  let hi : Fin vars.length → ℝ := fun c => (((bnds.getD c (0, 0)).2 : ℚ) : ℝ)
  let xr : Fin vars.length → ℝ := fun c => ((xm.getD c 0 : ℚ) : ℝ)
  have hbox : ∀ c : Fin vars.length, h.getD vars[(c : ℕ)] .empty =
      Itv.mk (.fin (bnds.getD c (0, 0)).1) (.fin (bnds.getD c (0, 0)).2) ∧
      (bnds.getD c (0, 0)).1 ≤ (bnds.getD c (0, 0)).2 := by
    intro c
    obtain ⟨hc', hq⟩ := forall₂_getElem hbf c.2
    rw [getD_eq_getElem' hc']
    exact boundsQ_some hq
  have hmemI : ∀ (c : Fin vars.length) (t : ℝ), t ∈ h.getD vars[(c : ℕ)] .empty ↔ lo c ≤ t ∧ t ≤ hi c := by
    intro c t
    rw [(hbox c).1, mem_fin_iff]
  have hlohi : lo ≤ hi := fun c => by
    show (((bnds.getD c (0, 0)).1 : ℚ) : ℝ) ≤ (((bnds.getD c (0, 0)).2 : ℚ) : ℝ)
    exact_mod_cast (hbox c).2
  have hxr : ∀ c, xr c = (lo c + hi c) / 2 := by
    intro c
    have hc' : (c : ℕ) < bnds.length := by rw [hbl]; exact c.2
    show ((xm.getD c 0 : ℚ) : ℝ) = _
    rw [← hxm, List.getD_eq_getElem?_getD, List.getElem?_map, List.getElem?_eq_getElem hc']
    simp only [Option.map_some, Option.getD_some, lo, hi, getD_eq_getElem' hc']
    push_cast
    ring
  have hxrI : xr ∈ Set.Icc lo hi := by
    refine ⟨fun c => ?_, fun c => ?_⟩
    · have := hlohi c; rw [hxr c]; linarith
    · have := hlohi c; rw [hxr c]; linarith
  -- the parameters
  let π' : Fin h.length → ℝ := fun i => π[(i : ℕ)]'(by rw [hπl]; exact i.2)
  let asm : (Fin vars.length → ℝ) → Fin h.length → ℝ := fun y i =>
    if hc : vars.idxOf (i : ℕ) < vars.length then y ⟨vars.idxOf (i : ℕ), hc⟩ else π' i
  have hP1 : ∀ y (c : Fin vars.length), asm y (e c) = y c := by
    intro y c
    have hidx : vars.idxOf vars[(c : ℕ)] = c := List.Nodup.idxOf_getElem hnd c c.2
    have hlt : vars.idxOf ((e c : Fin h.length) : ℕ) < vars.length := by
      show vars.idxOf vars[(c : ℕ)] < vars.length
      rw [hidx]; exact c.2
    simp only [asm, dif_pos hlt]
    congr 1
    exact Fin.ext hidx
  have hP2 : ∀ y (k : Fin h.length), (k : ℕ) ∉ vars → asm y k = π' k := by
    intro y k hk
    have : ¬ vars.idxOf (k : ℕ) < vars.length := fun hlt => hk (List.idxOf_lt_length_iff.1 hlt)
    simp only [asm, dif_neg this]
  have hπ' : ∀ k : Fin h.length, (k : ℕ) ∉ vars → π' k ∈ h.getD k .empty := by
    intro k hk
    rw [getD_eq_getElem' k.2]
    exact hπ k (π' k) h[(k : ℕ)] hk (List.getElem?_eq_getElem (by rw [hπl]; exact k.2))
      (List.getElem?_eq_getElem k.2)
  have hP3 : ∀ y ∈ Set.Icc lo hi, Box.Mem (List.ofFn (asm y)) h := by
    intro y hy
    rw [box_mem_ofFn rfl]
    intro k
    by_cases hk : vars.idxOf (k : ℕ) < vars.length
    · have hvk : vars[vars.idxOf (k : ℕ)] = k := List.getElem_idxOf hk
      simp only [asm, dif_pos hk]
      have := (hmemI ⟨_, hk⟩ (y ⟨_, hk⟩)).2 ⟨hy.1 _, hy.2 _⟩
      simpa only [hvk] using this
    · have hkv : (k : ℕ) ∉ vars := fun hmem => hk (List.idxOf_lt_length_iff.2 hmem)
      rw [hP2 y k hkv]
      exact hπ' k hkv
  -- the system as a function of the variables
  let f : Fin vars.length → (Fin vars.length → ℝ) → ℝ := fun k y =>
    valW ch (progs[(k : ℕ)]'(hkp k)) (asm y)
  -- the preconditioner and the Krawczyk map
  let C : Fin vars.length → Fin vars.length → ℝ := fun i k => (((cm.getD i []).getD k 0 : ℚ) : ℝ)
  let G : (Fin vars.length → ℝ) → Fin vars.length → ℝ := fun y i => y i - ∑ k, C i k * f k y
  -- (a) slopes of the system, row by row
  have hslope : ∀ y ∈ Set.Icc lo hi, ∀ y' ∈ Set.Icc lo hi, ∀ k : Fin vars.length,
      ∃ a : Fin vars.length → ℝ, (∀ c : Fin vars.length, a c ∈ (j.getD k []).getD c .empty) ∧
        f k y - f k y' = ∑ c, a c * (y c - y' c) := by
    intro y hy y' hy' k
    have hk : (k : ℕ) < progs.length := hkp k
    obtain ⟨hk', hrowl, hq⟩ := forall₂_getElem hencl hk
    obtain ⟨s, hs, hsum⟩ := slope_row (h := h) rfl (f := valW ch progs[(k : ℕ)]) (row := jfull[(k : ℕ)])
      (fun p hp => (hq p hp).2) (x := asm y) (y := asm y') (hP3 y hy) (hP3 y' hy')
    refine ⟨fun c => s (e c), fun c => ?_, ?_⟩
    · have := hs (e c)
      rw [← hj]
      simp only [List.getD_eq_getElem?_getD, List.getElem?_map, List.getElem?_eq_getElem hk',
        List.getElem?_eq_getElem c.2, Option.map_some, Option.getD_some] at this ⊢
      exact this
    · show valW ch progs[(k : ℕ)] (asm y) - valW ch progs[(k : ℕ)] (asm y') = _
      rw [hsum, ← sum_vars rfl e (fun _ => rfl) hinj (fun j => s j * (asm y j - asm y' j))
        (fun j hj => by rw [hP2 y j hj, hP2 y' j hj, sub_self, mul_zero])]
      refine Finset.sum_congr rfl fun c _ => ?_
      rw [hP1, hP1]
  -- increments of the Krawczyk map
  have hGdiff : ∀ y ∈ Set.Icc lo hi, ∀ y' ∈ Set.Icc lo hi, ∃ B : Fin vars.length → Fin vars.length → ℝ,
      (∀ i c : Fin vars.length, B i c ∈ ((Newton.iterMat cm j).getD i []).getD c .empty) ∧
      ∀ i, G y i - G y' i = ∑ c, B i c * (y c - y' c) := by
    intro y hy y' hy'
    choose A hA hsum using hslope y hy y' hy'
    refine ⟨fun i c => (if c = i then 1 else 0) - ∑ k, C i k * A k c, fun i c => ?_, fun i => ?_⟩
    · rw [iterMat_getD (hkc i) (hkj c)]
      refine Itv.sub_encl ?_ (precond_encl hjl A hA i c (hkc i))
      by_cases hci : c = i
      · subst hci
        simpa using mem_point_cast 1
      · have : ¬ (c : ℕ) = i := fun e => hci (Fin.ext e)
        simpa [hci, this] using mem_point_cast 0
    · have h1 : G y i - G y' i = (y i - y' i) - ∑ k, C i k * (f k y - f k y') := by
        simp only [G, mul_sub, Finset.sum_sub_distrib]
        ring
      rw [h1]
      simp only [hsum, sub_mul, Finset.sum_sub_distrib, ite_mul, one_mul, zero_mul,
        Finset.sum_ite_eq', Finset.mem_univ, if_true]
      congr 1
      simp only [Finset.mul_sum, Finset.sum_mul]
      rw [Finset.sum_comm]
      refine Finset.sum_congr rfl fun c _ => Finset.sum_congr rfl fun k _ => by ring
  -- the contraction factors
  have hrows : ∀ i : Fin vars.length, ∃ qs : Fin vars.length → ℝ, (∀ c, 0 ≤ qs c) ∧
      (∀ (c : Fin vars.length) (x : ℝ), x ∈ ((Newton.iterMat cm j).getD i []).getD c .empty → |x| ≤ qs c) ∧
      ∑ c, qs c < 1 := by
    intro i
    have hi : (i : ℕ) < (Newton.iterMat cm j).length := by rw [iterMat_length, hcm]; exact i.2
    rw [List.all_eq_true] at hrow
    have := hrow _ (List.getElem_mem hi)
    rw [← getD_eq_getElem' hi []] at this
    exact rowSum_sound this (by rw [iterMat_row_length (hkc i), hjl])
  choose q hq0 hqB hq1 using hrows
  -- enclosure of the system at the midpoint
  have hmidmem : Box.Mem (List.ofFn (asm xr)) (Newton.midBox h vars xm) := by
    rw [box_mem_ofFn (midBox_length h vars xm)]
    intro k
    rw [midBox_getD k.2]
    by_cases hk : vars.idxOf (k : ℕ) < vars.length
    · rw [if_pos hk]
      simp only [asm, dif_pos hk]
      exact mem_point_cast _
    · rw [if_neg hk]
      have hkv : (k : ℕ) ∉ vars := fun hmem => hk (List.idxOf_lt_length_iff.2 hmem)
      rw [hP2 xr k hkv]
      exact hπ' k hkv
  have hfmk : ∀ k : Fin vars.length, f k xr ∈ fm.getD k .empty := by
    intro k
    have hk : (k : ℕ) < progs.length := hkp k
    obtain ⟨hk', hrowl, hq⟩ := forall₂_getElem hencl hk
    obtain ⟨hk2, hev⟩ := forall₂_getElem hfmF hk
    obtain ⟨mat, hmat, hmd⟩ := (hq (asm xr) (hP3 xr hxrI)).1
    rw [getD_eq_getElem' hk2]
    unfold Newton.evalItv1 at hev
    split at hev
    · rename_i v hroot
      split at hev
      · rename_i d hvd
        simp only [Option.some.injEq] at hev
        have hrel := Eval.root_rel (Alg.realWith_itv hstrict) hmidmem
          (Eval.buildCalls_rel (Alg.realWith_itv hstrict) _) hmat hroot
        have := hrel.2.2
        rw [hmd, hvd] at this
        rw [← hev]
        exact (List.forall₂_cons.1 this).1
      · exact absurd hev (by simp)
    · exact absurd hev (by simp)
  -- (b) the Krawczyk map sends the box into itself
  have hmaps : ∀ y ∈ Set.Icc lo hi, G y ∈ Set.Icc lo hi := by
    intro y hy
    obtain ⟨B, hB, hBsum⟩ := hGdiff y hy xr hxrI
    have hmem : ∀ i : Fin vars.length, G y i ∈ h.getD vars[(i : ℕ)] .empty := by
      intro i
      have hKi := hK i i.2
      rw [getD_eq_getElem' i.2 (0 : ℕ)] at hKi
      refine Itv.mem_of_subset hKi ?_
      have e1 : G y i = (xr i - ∑ k, C i k * f k xr) + ∑ c, B i c * (y c - xr c) := by
        rw [← hBsum i]; ring
      rw [e1]
      refine Itv.add_encl (Itv.sub_encl (mem_point_cast _) (dotQ_encl hfml (fun k => f k xr) hfmk)) ?_
      refine dotI_encl (by rw [iterMat_row_length (hkc i), hjl]) (by simp [hxml])
        (fun c => B i c) (fun c => y c - xr c) (hB i) fun c => ?_
      have hc1 : (c : ℕ) < xm.length := by rw [hxml]; exact c.2
      simp only [List.getD_eq_getElem?_getD, List.getElem?_zipWith, List.getElem?_eq_getElem c.2,
        List.getElem?_eq_getElem hc1, Option.getD_some]
      refine Itv.sub_encl ((hmemI c (y c)).2 ⟨hy.1 c, hy.2 c⟩) ?_
      have : xr c = ((xm[(c : ℕ)] : ℚ) : ℝ) := by
        show ((xm.getD c 0 : ℚ) : ℝ) = _
        rw [getD_eq_getElem' hc1]
      rw [this]
      exact mem_point_cast _
    exact ⟨fun i => ((hmemI i _).1 (hmem i)).1, fun i => ((hmemI i _).1 (hmem i)).2⟩
  -- (a') Lipschitz bound
  have hlip : ∀ y ∈ Set.Icc lo hi, ∀ y' ∈ Set.Icc lo hi, ∃ B : Fin vars.length → Fin vars.length → ℝ,
      (∀ i c, |B i c| ≤ q i c) ∧ ∀ i, G y i - G y' i = ∑ c, B i c * (y c - y' c) := by
    intro y hy y' hy'
    obtain ⟨B, hB, hBsum⟩ := hGdiff y hy y' hy'
    exact ⟨B, fun i c => hqB i c _ (hB i c), hBsum⟩
  -- (c) the fixed point is a zero
  obtain ⟨z, hzI, hfix⟩ := krawczyk_fixed lo hi G q hq0 hq1 hlohi hmaps hlip
  have hCf : ∀ i, ∑ k, C i k * f k z = 0 := by
    intro i
    have := congrFun hfix i
    simp only [G] at this
    linarith
  have hfz : ∀ k, f k z = 0 := by
    intro k
    have h1 : ∑ i : Fin vars.length, ((((mid.getD k []).getD i 0 : ℚ) : ℝ)) * ∑ t, C i t * f t z = 0 := by
      simp [hCf]
    have h2 : ∑ i : Fin vars.length, ((((mid.getD k []).getD i 0 : ℚ) : ℝ)) * ∑ t, C i t * f t z =
        ∑ t, (∑ i : Fin vars.length, ((((mid.getD k []).getD i 0 : ℚ) : ℝ)) * C i t) * f t z := by
      simp only [Finset.mul_sum, Finset.sum_mul]
      rw [Finset.sum_comm]
      refine Finset.sum_congr rfl fun t _ => Finset.sum_congr rfl fun i _ => by ring
    rw [h2] at h1
    simp only [C, leftInvOk_sound hL, ite_mul, one_mul, zero_mul, Finset.sum_ite_eq, Finset.mem_univ,
      if_true] at h1
    exact h1
  -- conclusion
  refine ⟨List.ofFn (asm z), hP3 z hzI, fun i hi => ?_, fun p hp => ?_⟩
  · by_cases hih : i < h.length
    · rw [List.getElem?_eq_getElem (by simpa using hih), List.getElem?_eq_getElem (by rw [hπl]; exact hih)]
      simp only [List.getElem_ofFn]
      rw [hP2 z ⟨i, hih⟩ hi]
    · rw [List.getElem?_eq_none (by simpa using hih), List.getElem?_eq_none (by rw [hπl]; omega)]
  · obtain ⟨k, hk, rfl⟩ := List.getElem_of_mem hp
    obtain ⟨hk', hrowl, hq⟩ := forall₂_getElem hencl hk
    obtain ⟨mat, hmat, hmd⟩ := (hq (asm z) (hP3 z hzI)).1
    refine ⟨mat, hmat, ?_⟩
    rw [hmd]
    have := hfz ⟨k, by rw [← hlen]; exact hk⟩
    simp only [f] at this
    rw [this]

/-! ### arbitrary selections: junk values on empty constants are irrelevant -/

open Classical in
/-- `ch` restricted to the constants that have a member -/
noncomputable def restrictSel (ch : Itv → Option ℝ) : Itv → Option ℝ :=
  fun I => if ∃ x : ℝ, x ∈ I then ch I else none

theorem restrictSel_sel {ch : Itv → Option ℝ} (hch : Sel ch) : Sel (restrictSel ch) := by
  intro I hI
  obtain ⟨x, hx, hxI⟩ := hch I hI
  exact ⟨x, by simp only [restrictSel, if_pos hI, hx], hxI⟩

theorem restrictSel_strict {ch : Itv → Option ℝ} (hch : Sel ch) : Strict (restrictSel ch) := by
  intro I x hx
  unfold restrictSel at hx
  split at hx
  · rename_i hI
    obtain ⟨x', hx', hxI⟩ := hch I hI
    rw [hx'] at hx
    simp only [Option.some.injEq] at hx
    exact hx ▸ hxI
  · exact absurd hx (by simp)

theorem Alg.restrict_realWith (ch : Itv → Option ℝ) :
    AlgRel Eq (Alg.realWith (restrictSel ch)) (Alg.realWith ch) where
  ofItv := by
    intro I a h
    refine ⟨a, ?_, rfl⟩
    have h' : restrictSel ch I = some a := h
    unfold restrictSel at h'
    split at h'
    · exact h'
    · exact absurd h' (by simp)
  zero := rfl
  add := by rintro a b a' b' x rfl rfl h; exact ⟨x, h, rfl⟩
  sub := by rintro a b a' b' x rfl rfl h; exact ⟨x, h, rfl⟩
  mul := by rintro a b a' b' x rfl rfl h; exact ⟨x, h, rfl⟩
  div := by rintro a b a' b' x rfl rfl h; exact ⟨x, h, rfl⟩
  max := by rintro a b a' b' x rfl rfl h; exact ⟨x, h, rfl⟩
  min := by rintro a b a' b' x rfl rfl h; exact ⟨x, h, rfl⟩
  un := by
    intro op f g hf hg
    have hf' : Alg.real.un op = some f := hf
    have hg' : Alg.real.un op = some g := hg
    have : f = g := Option.some.inj (hf'.symm.trans hg')
    subst this
    rintro a b x rfl h
    exact ⟨x, h, rfl⟩
  pow := by rintro n a b x rfl h; exact ⟨x, h, rfl⟩
  chi := by rintro a b a' b' a'' b'' x rfl rfl rfl h; exact ⟨x, h, rfl⟩

theorem rootW_of_restrict {ch : Itv → Option ℝ} {q : List Dag × Dag} {x : List ℝ} {m : Mat ℝ}
    (h : rootW (restrictSel ch) q x = some m) : rootW ch q x = some m := by
  obtain ⟨y, hy, hr, hc, hd⟩ := Eval.root_rel_total (Alg.restrict_realWith ch) (forall₂_eq_self x)
    (Eval.buildCalls_rel_total (Alg.restrict_realWith ch) q.1 fun _ _ _ _ => fun _ _ _ _ h => h)
    (fun _ _ => fun _ _ _ _ h => h) h
  have : m = y := by
    cases m; cases y
    simp only at hr hc hd
    rw [List.forall₂_eq_eq_eq] at hd
    subst hr; subst hc; subst hd
    rfl
  rw [this]
  exact hy

/-- **Soundness of the existence certificate** (thick constants selected by `ch`).
    If `existCertVars progs h vars = true` then for every value `π` of the parameters (the coordinates
    outside `vars`) in their ranges in `h`, the system `progs` (thick constants replaced by the members
    selected by `ch`) has a zero `z` in the box `h` whose parameters are `π`. -/
theorem exists_zero_of_cert_sel {ch : Itv → Option ℝ} (hch : Sel ch)
    {progs : List (List Dag × Dag)} {h : Box} {vars : List ℕ}
    (hcert : Newton.existCertVars progs h vars = true) (π : List ℝ) (hπl : π.length = h.length)
    (hπ : ∀ i t I, i ∉ vars → π[i]? = some t → h[i]? = some I → t ∈ I) :
    ∃ z, Box.Mem z h ∧ (∀ i, i ∉ vars → z[i]? = π[i]?) ∧ ZeroW ch progs z := by
  obtain ⟨z, h1, h2, h3⟩ := exists_zero_strict (restrictSel_sel hch) (restrictSel_strict hch) hcert π hπl hπ
  refine ⟨z, h1, h2, fun q hq => ?_⟩
  obtain ⟨m, hm, hd⟩ := h3 q hq
  exact ⟨m, rootW_of_restrict hm, hd⟩

/-! ### the point semantics `Alg.real` when no constant is thick -/

/-- degenerate finite interval -/
def isPoint : Itv → Bool
  | .mk (.fin a) (.fin b) => a == b
  | _ => false

def pointConstsDag (d : Dag) : Bool :=
  d.toList.all fun n => match n.k with | .const vs => vs.all isPoint | _ => true

/-- every interval constant of the system is a point (no thick constant) -/
def pointConsts (progs : List (List Dag × Dag)) : Bool :=
  progs.all fun p => p.1.all pointConstsDag && pointConstsDag p.2

theorem chReal_of_isPoint {I : Itv} (h : isPoint I = true) : chReal I = realOfItv I := by
  unfold isPoint at h
  split at h
  · rename_i a b
    have hab : a = b := by simpa using h
    subst hab
    simp [chReal, realOfItv]
  · exact absurd h (by simp)

theorem mapM_congr_mem {α β : Type} {f g : α → Option β} :
    ∀ (l : List α), (∀ a ∈ l, f a = g a) → l.mapM f = l.mapM g := by
  intro l
  induction l with
  | nil => intro _; rfl
  | cons a l ih =>
    intro h
    rw [List.mapM_cons, List.mapM_cons, h a (by simp), ih fun b hb => h b (by simp [hb])]

theorem foldlM_congr_mem {α β : Type} {f g : β → α → Option β} :
    ∀ (l : List α) (b : β), (∀ a ∈ l, ∀ b, f b a = g b a) → l.foldlM f b = l.foldlM g b := by
  intro l
  induction l with
  | nil => intro _ _; rfl
  | cons a l ih =>
    intro b h
    rw [List.foldlM_cons, List.foldlM_cons, h a (by simp)]
    congr 1
    funext b'
    exact ih b' fun x hx => h x (by simp [hx])

theorem nodeVal_realWith {ch : Itv → Option ℝ} (env : List ℝ) (call : Nat → List (Mat ℝ) → Option (Mat ℝ))
    (vals : Array (Mat ℝ)) (n : Node) (hn : ∀ vs, n.k = .const vs → ∀ I ∈ vs, ch I = realOfItv I) :
    Eval.nodeVal (Alg.realWith ch) env call vals n = Eval.nodeVal Alg.real env call vals n := by
  obtain ⟨k, r, c⟩ := n
  cases k with
  | const vs =>
    have : vs.mapM (Alg.realWith ch).ofItv = vs.mapM Alg.real.ofItv :=
      mapM_congr_mem vs fun I hI => hn vs rfl I hI
    simp only [Eval.nodeVal, this]
  | _ => rfl

theorem root_realWith {ch : Itv → Option ℝ} (env : List ℝ) (call : Nat → List (Mat ℝ) → Option (Mat ℝ))
    (d : Dag) (hd : ∀ n ∈ d.toList, ∀ vs, n.k = .const vs → ∀ I ∈ vs, ch I = realOfItv I) :
    Eval.root (Alg.realWith ch) env call d = Eval.root Alg.real env call d := by
  unfold Eval.root
  rw [Eval.run_eq, Eval.run_eq]
  congr 1
  refine foldlM_congr_mem _ _ fun n hn vals => ?_
  unfold Eval.step
  rw [nodeVal_realWith env call vals n (hd n hn)]

theorem buildCalls_realWith {ch : Itv → Option ℝ} (funs : List Dag)
    (hf : ∀ d ∈ funs, ∀ n ∈ d.toList, ∀ vs, n.k = .const vs → ∀ I ∈ vs, ch I = realOfItv I) :
    Eval.buildCalls (Alg.realWith ch) funs = Eval.buildCalls Alg.real funs := by
  unfold Eval.buildCalls
  have hl : ∀ q ∈ funs.zipIdx, ∀ n ∈ q.1.toList, ∀ vs, n.k = .const vs → ∀ I ∈ vs, ch I = realOfItv I := by
    rintro ⟨d, i⟩ hq
    exact hf d (List.fst_mem_of_mem_zipIdx hq)
  revert hl
  generalize funs.zipIdx = l
  generalize (fun (_ : Nat) (_ : List (Mat ℝ)) => (none : Option (Mat ℝ))) = t
  intro hl
  induction l generalizing t with
  | nil => rfl
  | cons p l ih =>
    simp only [List.foldl_cons]
    have : (fun i args => if (i == p.2) = true then
          Eval.root (Alg.realWith ch) (List.flatMap (fun x => x.d) args) t p.1 else t i args) =
        (fun i args => if (i == p.2) = true then
          Eval.root Alg.real (List.flatMap (fun x => x.d) args) t p.1 else t i args) := by
      funext i args
      rw [root_realWith _ _ _ (hl p (by simp))]
    rw [this]
    exact ih _ fun q hq => hl q (by simp [hq])

theorem pointConstsDag_spec {d : Dag} (h : pointConstsDag d = true) :
    ∀ n ∈ d.toList, ∀ vs, n.k = .const vs → ∀ I ∈ vs, chReal I = realOfItv I := by
  intro n hn vs hk I hI
  unfold pointConstsDag at h
  rw [List.all_eq_true] at h
  have := h n hn
  rw [hk] at this
  simp only [List.all_eq_true] at this
  exact chReal_of_isPoint (this I hI)

/-- without thick constants, the selection semantics `chReal` IS the point semantics -/
theorem rootW_eq_rootR {progs : List (List Dag × Dag)} (hpc : pointConsts progs = true)
    {q : List Dag × Dag} (hq : q ∈ progs) (x : List ℝ) : rootW chReal q x = rootR q x := by
  unfold pointConsts at hpc
  rw [List.all_eq_true] at hpc
  have := hpc q hq
  simp only [Bool.and_eq_true, List.all_eq_true] at this
  unfold rootW rootR
  rw [buildCalls_realWith q.1 fun d hd => pointConstsDag_spec (this.1 d hd),
    root_realWith _ _ _ (pointConstsDag_spec this.2)]

theorem ZeroW.toZero {progs : List (List Dag × Dag)} (hpc : pointConsts progs = true) {z : List ℝ}
    (h : ZeroW chReal progs z) : Zero progs z := fun q hq => by
  obtain ⟨m, hm, hd⟩ := h q hq
  exact ⟨m, by rw [← rootW_eq_rootR hpc hq]; exact hm, hd⟩

/-- **Soundness of the existence certificate, real semantics** (systems without thick constants).
    If `existCertVars progs h vars = true` and every interval constant of `progs` is a point, then for
    every value `π` of the parameters in their ranges in `h` the system has a zero (point semantics
    `Alg.real`) in `h` with these parameters. -/
theorem exists_zero_of_cert {progs : List (List Dag × Dag)} {h : Box} {vars : List ℕ}
    (hpc : pointConsts progs = true)
    (hcert : Newton.existCertVars progs h vars = true) (π : List ℝ) (hπl : π.length = h.length)
    (hπ : ∀ i t I, i ∉ vars → π[i]? = some t → h[i]? = some I → t ∈ I) :
    ∃ z, Box.Mem z h ∧ (∀ i, i ∉ vars → z[i]? = π[i]?) ∧ Zero progs z := by
  obtain ⟨z, h1, h2, h3⟩ := exists_zero_of_cert_sel chReal_sel hcert π hπl hπ
  exact ⟨z, h1, h2, h3.toZero hpc⟩

/-- square case (no parameter), thick constants selected by `ch` -/
theorem exists_zero_square_sel {ch : Itv → Option ℝ} (hch : Sel ch) {progs : List (List Dag × Dag)} {h : Box}
    (hcert : Newton.existCert progs h = true) : ∃ z, Box.Mem z h ∧ ZeroW ch progs z := by
  obtain ⟨z, h1, _, h3⟩ := exists_zero_of_cert_sel hch hcert (List.replicate h.length 0) (by simp)
    (fun i t I hi ht _ => by
      have hi' : ¬ i < h.length := by simpa using hi
      rw [List.getElem?_eq_none (by simpa using hi')] at ht
      exact absurd ht (by simp))
  exact ⟨z, h1, h3⟩

/-- square case (no parameter, no thick constant): the box contains a zero -/
theorem exists_zero_square {progs : List (List Dag × Dag)} {h : Box} (hpc : pointConsts progs = true)
    (hcert : Newton.existCert progs h = true) : ∃ z, Box.Mem z h ∧ Zero progs z := by
  obtain ⟨z, h1, h3⟩ := exists_zero_square_sel chReal_sel hcert
  exact ⟨z, h1, h3.toZero hpc⟩

/-! ### replacement of a cell by a CERTIFIED existence box -/

/-- `replaceCert_sound_sel` where the existence hypothesis is discharged by the existence certificate -/
theorem replaceCert_sound_sel' {ch : Itv → Option ℝ} (hch : Sel ch) {progs : List (List Dag × Dag)}
    {c e : Box} {vars : List ℕ} (hcert : Newton.replaceCert progs c e vars = true)
    (hE : Newton.existCertVars progs e vars = true)
    {p : List ℝ} (hp : Box.Mem p c) (hz : ZeroW ch progs p) : Box.Mem p e :=
  replaceCert_sound_sel hch hcert (fun π h1 h2 => exists_zero_of_cert_sel hch hE π h1 h2) hp hz

/-- **Soundness of the replacement certificate, real semantics, no assumption left.**  If
    `replaceCert progs c e vars = true` and `existCertVars progs e vars = true` then every zero (point
    semantics) of the system in the cell `c` belongs to `e`. -/
theorem replaceCert_sound' {progs : List (List Dag × Dag)} {c e : Box} {vars : List ℕ}
    (hcert : Newton.replaceCert progs c e vars = true) (hE : Newton.existCertVars progs e vars = true)
    {p : List ℝ} (hp : Box.Mem p c) (hz : Zero progs p) : Box.Mem p e :=
  replaceCert_sound_sel' chReal_sel hcert hE hp hz.toW

/-! ### existence and uniqueness -/

/-- **Exactly one zero** (thick constants selected by `ch`): if
    `existUniqueCertVars progs e u vars = true` then `e ⊆ u` and for every value `π` of the parameters
    in their ranges in `e`, the system has a zero `z` in `e` with these parameters, and every zero in
    the (larger) box `u` with these parameters is `z`. -/
theorem exists_unique_zero_sel {ch : Itv → Option ℝ} (hch : Sel ch) {progs : List (List Dag × Dag)}
    {e u : Box} {vars : List ℕ} (hcert : Newton.existUniqueCertVars progs e u vars = true)
    (π : List ℝ) (hπl : π.length = e.length)
    (hπ : ∀ i t I, i ∉ vars → π[i]? = some t → e[i]? = some I → t ∈ I) :
    ∃ z, (Box.Mem z e ∧ (∀ i, i ∉ vars → z[i]? = π[i]?) ∧ ZeroW ch progs z) ∧
      ∀ z', Box.Mem z' u → (∀ i, i ∉ vars → z'[i]? = π[i]?) → ZeroW ch progs z' → z' = z := by
  unfold Newton.existUniqueCertVars at hcert
  simp only [Bool.and_eq_true] at hcert
  obtain ⟨⟨hE, hU⟩, hsub⟩ := hcert
  obtain ⟨z, h1, h2, h3⟩ := exists_zero_of_cert_sel hch hE π hπl hπ
  refine ⟨z, ⟨h1, h2, h3⟩, fun z' hz' hpar hzero => ?_⟩
  refine unique_of_cert_sel hch hU hz' (Box.subset_sound hsub h1)
    (fun k hk => (hpar k hk).trans (h2 k hk).symm) fun q hq => ?_
  obtain ⟨m1, e1, d1⟩ := hzero q hq
  obtain ⟨m2, e2, d2⟩ := h3 q hq
  rw [e1, e2]
  simp [d1, d2]

/-- **Exactly one zero, real semantics** (systems without thick constants). -/
theorem exists_unique_zero {progs : List (List Dag × Dag)} {e u : Box} {vars : List ℕ}
    (hpc : pointConsts progs = true) (hcert : Newton.existUniqueCertVars progs e u vars = true)
    (π : List ℝ) (hπl : π.length = e.length)
    (hπ : ∀ i t I, i ∉ vars → π[i]? = some t → e[i]? = some I → t ∈ I) :
    ∃ z, (Box.Mem z e ∧ (∀ i, i ∉ vars → z[i]? = π[i]?) ∧ Zero progs z) ∧
      ∀ z', Box.Mem z' u → (∀ i, i ∉ vars → z'[i]? = π[i]?) → Zero progs z' → z' = z := by
  obtain ⟨z, ⟨h1, h2, h3⟩, h4⟩ := exists_unique_zero_sel chReal_sel hcert π hπl hπ
  exact ⟨z, ⟨h1, h2, h3.toZero hpc⟩, fun z' a b c => h4 z' a b c.toW⟩

/-! ### non-vacuity -/

/-- `x² − 2`: accepted on `[1.4,1.45]` and on `[1,2]` (both contain `√2`, the Krawczyk operator
    contracts), rejected on `[1.42,1.45]` (no zero) and on `[−2,2]` (singular Jacobian) -/
example : Newton.existCert [([], sqDag)] [I (14/10) (145/100)] = true := by decide +kernel
example : Newton.existCert [([], sqDag)] [I 1 2] = true := by decide +kernel
example : Newton.existCert [([], sqDag)] [I (142/100) (145/100)] = false := by decide +kernel
example : Newton.existCert [([], sqDag)] [I (-2) 2] = false := by decide +kernel
/-- unbounded or ill-formed boxes are rejected -/
example : Newton.existCert [([], sqDag)] [Itv.mk (.fin 1) .pinf] = false := by decide +kernel
example : Newton.existCert [([], sqDag)] [I 2 1] = false := by decide +kernel

/-- `x² + 1` has no zero: rejected on every box tried -/
def sqP1 : Dag :=
  #[⟨.var 0, 1, 1⟩, ⟨.un "sqr" 0, 1, 1⟩, ⟨.const [Itv.point 1], 1, 1⟩, ⟨.bin "add" 1 2, 1, 1⟩]
example : Newton.existCert [([], sqP1)] [I (-1) 1] = false := by decide +kernel
example : Newton.existCert [([], sqP1)] [I 1 2] = false := by decide +kernel
example : Newton.existCert [([], sqP1)] [I (1/10) 100] = false := by decide +kernel

/-- 2×2: circle and diagonal, accepted around `(√½,√½)`, rejected on `[−1,1]²` and away from the zero -/
example : Newton.existCert [([], circ), ([], diag)] [I (7/10) (72/100), I (7/10) (72/100)] = true := by
  decide +kernel
example : Newton.existCert [([], circ), ([], diag)] [I (1/2) 1, I (1/2) 1] = true := by decide +kernel
example : Newton.existCert [([], circ), ([], diag)] [I (-1) 1, I (-1) 1] = false := by decide +kernel
example : Newton.existCert [([], circ), ([], diag)] [I (8/10) 1, I (8/10) 1] = false := by decide +kernel

/-- one equation `x² + y² = 1`, variable `x`, parameter `y ∈ [0.5,0.6]`: for EVERY such `y` there is a zero
    `x ∈ [0.78,0.88]`; the same with the roles exchanged; a repeated variable is rejected; too small a
    range for `x` (the zero leaves it when `y` moves) is rejected -/
example : Newton.existCertVars [([], circ)] [I (78/100) (88/100), I (1/2) (6/10)] [0] = true := by
  decide +kernel
example : Newton.existCertVars [([], circ)] [I (1/2) (6/10), I (78/100) (88/100)] [1] = true := by
  decide +kernel
example : Newton.existCertVars [([], circ)] [I (78/100) (88/100), I (1/2) (6/10)] [0, 0] = false := by
  decide +kernel
example : Newton.existCertVars [([], circ)] [I (84/100) (88/100), I (1/2) (6/10)] [0] = false := by
  decide +kernel
/-- existence in `[1.4,1.45]`, uniqueness in `[1,2]` -/
example : Newton.existUniqueCertVars [([], sqDag)] [I (14/10) (145/100)] [I 1 2] [0] = true := by
  decide +kernel
example : pointConsts [([], sqDag)] = true := by decide +kernel
/-- a thick constant: `x² − [2,3]`, accepted (existence for every selection of the constant) -/
def sqThick : Dag :=
  #[⟨.var 0, 1, 1⟩, ⟨.un "sqr" 0, 1, 1⟩, ⟨.const [I 2 3], 1, 1⟩, ⟨.bin "sub" 1 2, 1, 1⟩]
example : Newton.existCert [([], sqThick)] [I 1 2] = true := by decide +kernel
example : pointConsts [([], sqThick)] = false := by decide +kernel

/-- end to end: the certificate PROVES that `x² − 2` has a zero in `[1.4,1.45]` -/
theorem sqrt_two_exists : ∃ a : ℝ, (1.4 ≤ a ∧ a ≤ 1.45) ∧ a * a - 2 = 0 := by
  obtain ⟨z, hz, hzero⟩ := exists_zero_square (progs := [([], sqDag)]) (h := [I (14/10) (145/100)])
    (by decide +kernel) (by decide +kernel)
  obtain ⟨a, rfl⟩ : ∃ a, z = [a] := by
    have := hz.length_eq
    match z, this with
    | [a], _ => exact ⟨a, rfl⟩
  refine ⟨a, ?_, ?_⟩
  · have := (List.forall₂_cons.1 hz).1
    have := mem_fin_iff.1 this
    norm_num at this ⊢
    exact this
  · obtain ⟨m, hm, hd⟩ := hzero _ (List.mem_singleton.2 rfl)
    rw [sq_root a] at hm
    simp only [Option.some.injEq] at hm
    subst hm
    simpa [Mat.scalar] using hd

/-- … and exactly one in `[1,2]` -/
theorem sqrt_two_exists_unique : ∃! a : ℝ, (1 ≤ a ∧ a ≤ 2) ∧ a * a - 2 = 0 := by
  obtain ⟨a, ha, h0⟩ := sqrt_two_exists
  refine ⟨a, ⟨⟨by linarith [ha.1], by linarith [ha.2]⟩, h0⟩, fun b hb => ?_⟩
  have hmem : ∀ t : ℝ, 1 ≤ t ∧ t ≤ 2 → Box.Mem [t] [I 1 2] := fun t ht =>
    List.Forall₂.cons (mem_fin_iff.2 (by simpa using ht)) List.Forall₂.nil
  have hzero : ∀ t : ℝ, t * t - 2 = 0 → Zero [([], sqDag)] [t] := fun t ht q hq => by
    simp only [List.mem_singleton] at hq
    subst hq
    exact ⟨_, sq_root t, by simp [Mat.scalar, ht]⟩
  have := unique_zero_square (progs := [([], sqDag)]) (h := [I 1 2]) (by decide +kernel)
    (hmem b hb.1) (hmem a ⟨by linarith [ha.1], by linarith [ha.2]⟩) (hzero b hb.2) (hzero a h0)
  simpa using this

theorem circ_root (x y : ℝ) : rootR ([], circ) [x, y] = some (Mat.scalar (x * x + y * y - 1)) := by
  unfold rootR Eval.root
  rw [Eval.run_eq]
  simp [circ, Eval.step, Eval.nodeVal, Eval.binVal, Eval.unVal, Mat.isScalar, Mat.mapM?, Mat.zip?,
    Alg.real, Mat.scalar, realOfItv, Itv.point]

/-- end to end with a parameter: for EVERY `y ∈ [0.5,0.6]` the circle has a point `(x,y)` with
    `x ∈ [0.78,0.88]` -/
theorem circle_param (y : ℝ) (hy : 0.5 ≤ y ∧ y ≤ 0.6) : ∃ x : ℝ, (0.78 ≤ x ∧ x ≤ 0.88) ∧ x * x + y * y - 1 = 0 := by
  obtain ⟨z, hz, hpar, hzero⟩ := exists_zero_of_cert (progs := [([], circ)])
    (h := [I (78/100) (88/100), I (1/2) (6/10)]) (vars := [0]) (by decide +kernel) (by decide +kernel)
    [0, y] rfl (by
      intro i t J hi ht hJ
      match i, hi, ht, hJ with
      | 1, _, ht, hJ =>
        simp only [List.getElem?_cons_succ, List.getElem?_cons_zero, Option.some.injEq] at ht hJ
        subst ht; subst hJ
        refine mem_fin_iff.2 ?_
        norm_num at hy ⊢
        exact hy
      | 0, hi, _, _ => exact absurd (by simp) hi
      | (i + 2), _, ht, _ => simp at ht)
  obtain ⟨x, y', rfl⟩ : ∃ x y', z = [x, y'] := by
    have := hz.length_eq
    match z, this with
    | [a, b], _ => exact ⟨a, b, rfl⟩
  have hy' : y' = y := by
    have := hpar 1 (by simp)
    simpa using this
  subst hy'
  refine ⟨x, ?_, ?_⟩
  · have := (List.forall₂_cons.1 hz).1
    have := mem_fin_iff.1 this
    norm_num at this ⊢
    exact this
  · obtain ⟨m, hm, hd⟩ := hzero _ (List.mem_singleton.2 rfl)
    rw [circ_root x y'] at hm
    simp only [Option.some.injEq] at hm
    subst hm
    simpa [Mat.scalar] using hd

end Ibex.C09
