/-
  C10 — Minibex text denotes the model it spells; exact serialisation round-trips.

  What is proved here (all kernel-checked, no size bound):

  * `sameTree_sound`, `sameTree_sound_gen` — the structural comparison used by the driver
    (`Dag.sameTree`: equal unfolded trees, up to sharing, constants compared exactly) is sound for
    EVERY number algebra / every node semantics: accepted DAGs have the same value wherever both
    are defined.  This is the decision used for operators outside the rational fragment.
  * `accepted_tree`, `accepted_nf`, `accepted_flat_nf`, `accepted_dims` — what an accepted verdict
    of the driver's cascade (`Minibex.cmpExpr`, `Minibex.cmpFlat`) means: identical in every algebra
    (level `tree`), or identical at every real point where both are defined (level `nf`, through the
    verified normal-form checker of C11, also for vector/matrix constraints against their flattened
    components).  The two weaker levels (`points`, `upoints`) are exact evaluations at the sample
    points: evidence, not theorems.
  * `hex_roundtrip`, `hex_roundtrip_bits` — the model of `print_dbl` (`'#' << std::hex << bits`, sign
    apart, `±oo`) followed by the model of the lexer rule `#[0-9a-fA-F]+` (+ unary minus) is the
    identity on every non-NaN binary64 — except `-0.0` on the pinned tree (`x >= 0` and `strtoll`),
    an exception that the theorem makes explicit and that disappears with either repair; the
    constants of the CURRENT sources (`strtoll`/`strtoull`, `x>=0`/`signbit`) are read by the
    translator `translate/tokens.py` into `IbexGen/Tokens.lean`.
  * `tokens_agree` — every operator keyword the serialiser prints as `keyword(` is lexed back to a
    token whose grammar rule builds the same operator class; the tables are extracted from
    `lexer.l`, `parser.yc`, `ibex_P_Expr.h`, `ibex_P_ExprGenerator.cpp`, `ibex_Expr.h`,
    `ibex_ExprPrinter.cpp` at check time and composed here by `decide`.  Recorded exceptions of the
    pinned tree: `log(` (the lexer knows `ln`) and `saw(` (no keyword at all) — both genuine
    defects reported by the run-time round trip; with the proposed fixes both entries agree and the
    list may be emptied.

  Not modelled: the LALR automaton.  The grammar is modelled by the generator and the independent
  reference reader of the harness (`harness/mbx_ref.h`); their outputs are compared with the real
  parser by the verified checkers above.
-/
import IbexProofs.Minibex
import IbexProofs.Props.C11
import IbexGen.Tokens

namespace Ibex.C10
open Ibex Ibex.Minibex Ibex.Eval

/-! ### structural comparison -/

/-- **Soundness of `Dag.sameTree` for every number algebra.** -/
theorem sameTree_sound {α : Type} {d1 d2 : Dag} (h : Dag.sameTree d1 d2 = true) (A : Alg α)
    (env : List α) (call : Nat → List (Mat α) → Option (Mat α)) {v1 v2 : Mat α}
    (hv1 : root A env call d1 = some v1) (hv2 : root A env call d2 = some v2) : v1 = v2 :=
  Dag.sameTree_sound h A env call hv1 hv2

/-- **Soundness of `Dag.sameTree` for every node semantics** (any operator, known or not). -/
theorem sameTree_sound_gen {α : Type} {sem : Node → List (Mat α) → Option (Mat α)}
    {d1 d2 : Dag} (h : Dag.sameTree d1 d2 = true) {v1 v2 : Mat α}
    (hv1 : EvalG.root sem d1 = some v1) (hv2 : EvalG.root sem d2 = some v2) : v1 = v2 :=
  Dag.sameTree_sound_gen (fun _ _ x y hx hy => by rw [hx] at hy; exact Option.some.inj hy) h hv1 hv2

/-! ### acceptance rules of the driver -/

theorem accepted_dims {a b : Prog} {nv : ℕ} {pts : List (List ℚ)} {l : Level}
    (h : cmpExpr a b nv pts = .ok l) : rootDims a = rootDims b ∧ (rootDims a).isSome := by
  unfold cmpExpr at h
  split at h
  · rename_i da db ha hb
    split_ifs at h with hd
    · simp only [bne_iff_ne, ne_eq, Decidable.not_not] at hd
      rw [ha, hb, hd]; simp
    · simp only [bne_iff_ne, ne_eq, Decidable.not_not] at hd
      rw [ha, hb, hd]; simp
  · exact absurd h (by simp)

/-- level `tree`: same applied functions, and the same value in every algebra -/
theorem accepted_tree {a b : Prog} {nv : ℕ} {pts : List (List ℚ)} (h : cmpExpr a b nv pts = .ok .tree) :
    a.1 = b.1 ∧ ∀ {α : Type} (A : Alg α) (env : List α) {v1 v2 : Mat α},
      root A env (buildCalls A a.1) a.2 = some v1 → root A env (buildCalls A b.1) b.2 = some v2 →
      v1 = v2 := by
  unfold cmpExpr at h
  split at h
  · split_ifs at h with hd ht
    · simp only [Bool.and_eq_true, decide_eq_true_eq] at ht
      refine ⟨ht.1, fun A env v1 v2 h1 h2 => ?_⟩
      rw [← ht.1] at h2
      exact Dag.sameTree_sound ht.2 A env _ h1 h2
    · split at h
      · exact absurd h (by simp)
      · split at h <;> simp at h
      · split at h
        · exact absurd h (by simp)
        · simp at h
        · split at h <;> simp at h
  · exact absurd h (by simp)

/-- level `nf`: the same real value at EVERY real point where both are defined -/
theorem accepted_nf {a b : Prog} {nv : ℕ} {pts : List (List ℚ)} (h : cmpExpr a b nv pts = .ok .nf)
    {ρ : List ℝ} (hρ : ρ.length = nv) {v1 v2 : Mat ℝ}
    (h1 : root Alg.real ρ (buildCalls Alg.real a.1) a.2 = some v1)
    (h2 : root Alg.real ρ (buildCalls Alg.real b.1) b.2 = some v2) : v1 = v2 := by
  unfold cmpExpr at h
  split at h
  · split_ifs at h with hd ht
    · exact absurd h (by simp)
    · split at h
      · exact absurd h (by simp)
      · rename_i hc
        exact C11.check_sound hc hρ h1 h2
      · split at h
        · exact absurd h (by simp)
        · simp at h
        · split at h <;> simp at h
  · exact absurd h (by simp)

/-- level `nf` of the flattened comparison (vector / matrix constraints against their scalar
    components, systems against their serialised form): at every real point where every
    expression of both lists is defined, the concatenated entries are the same reals -/
theorem accepted_flat_nf {as bs : List Prog} {nv : ℕ} {pts : List (List ℚ)}
    (h : cmpFlat as bs nv pts = .ok .nf) {ρ : List ℝ} (hρ : ρ.length = nv) {va vb : List (Mat ℝ)}
    (ha : List.Forall₂ (EvalsTo ρ) as va) (hb : List.Forall₂ (EvalsTo ρ) bs vb) :
    va.flatMap (·.d) = vb.flatMap (·.d) := by
  unfold cmpFlat at h
  split at h
  · split_ifs at h with hd
    split at h
    · exact absurd h (by simp)
    · rename_i hc
      exact checkFlatB_sound hc hρ ha hb
    · split at h
      · exact absurd h (by simp)
      · simp at h
      · split at h <;> simp at h
  · exact absurd h (by simp)

/-! ### hexadecimal constants -/

/-- the reader and the sign test of the CURRENT sources (extracted by `translate/tokens.py`) -/
def reader : HexReader := HexReader.ofString Gen.Tokens.hexReader
def signBit : Bool := Gen.Tokens.printerSignBit

/-- **64-bit patterns**: `readHex (printHex u) = u` for every pattern the reader can represent. -/
theorem hex_roundtrip_bits {u : ℕ} (hu : u < 2 ^ 64) (h : reader = .strtoull ∨ u < 2 ^ 63) :
    readHex reader (printHex u) = some u :=
  readHex_printHex reader hu h

/-- **doubles**: every non-NaN binary64 survives `print_dbl` followed by the lexer — the only
    possible exception (`-0.0` under `x>=0` + `strtoll`) is explicit. -/
theorem hex_roundtrip {b : ℕ} (hb : notNaN b = true) :
    readDbl reader (printDbl signBit b) = some b ∨
      (reader = .strtoll ∧ signBit = false ∧ b = negZeroBits) :=
  readDbl_printDbl signBit reader hb

/-- the exception is a genuine misreading when it applies: `-0.0` comes back as a NaN pattern -/
theorem hex_negzero_misread :
    readDbl .strtoll (printDbl false negZeroBits) = some 0x7fffffffffffffff := negZero_misread

/-- either repair removes it -/
theorem hex_roundtrip_repaired (h : signBit = true ∨ reader = .strtoull) {b : ℕ}
    (hb : notNaN b = true) : readDbl reader (printDbl signBit b) = some b :=
  readDbl_printDbl_repaired h hb

/-! ### operator keywords -/

def tables : List (List (String × String)) :=
  [Gen.Tokens.lexer, Gen.Tokens.grammar, Gen.Tokens.pexpr, Gen.Tokens.generator, Gen.Tokens.builders]

/-- disagreements recorded on the pinned tree (genuine defects, reported with failing inputs by the
    round-trip workloads): `ExprLog` is printed `log(`, lexed as an identifier (`ln` is the keyword);
    `ExprSaw` is printed `saw(`, for which the lexer has no keyword -/
def recordedDisagreements : List String := ["ExprLog", "ExprSaw"]

/-- **every operator keyword the serialiser can emit is lexed back as that operator**
    (tables regenerated from the current sources; recorded exceptions explicit) -/
theorem tokens_agree :
    ∀ p ∈ Gen.Tokens.printer, p.1 ∈ recordedDisagreements ∨ relexes tables p = true := by
  decide +kernel

/-- the printer table is not trivially empty and covers the elementary functions -/
theorem tokens_cover : 20 ≤ Gen.Tokens.printer.length ∧
    ["ExprSin", "ExprCos", "ExprExp", "ExprLog", "ExprAtan2", "ExprChi", "ExprMax"].all
      (fun c => Gen.Tokens.printer.any fun p => p.1 == c) = true := by
  decide +kernel

/-! ### non-vacuity -/

def x : Node := ⟨.var 0, 1, 1⟩
def one : Node := ⟨.const [Itv.point 1], 1, 1⟩
/-- `sin(x+1) * sin(x+1)` with the factor shared … -/
def shared : Dag := #[x, one, ⟨.bin "add" 0 1, 1, 1⟩, ⟨.un "sin" 2, 1, 1⟩, ⟨.bin "mul" 3 3, 1, 1⟩]
/-- … and written twice -/
def unshared : Dag := #[x, one, ⟨.bin "add" 0 1, 1, 1⟩, ⟨.un "sin" 2, 1, 1⟩, x, one,
  ⟨.bin "add" 4 5, 1, 1⟩, ⟨.un "sin" 6, 1, 1⟩, ⟨.bin "mul" 3 7, 1, 1⟩]
/-- `sin(x+1) * cos(x+1)` -/
def other : Dag := #[x, one, ⟨.bin "add" 0 1, 1, 1⟩, ⟨.un "sin" 2, 1, 1⟩, ⟨.un "cos" 2, 1, 1⟩,
  ⟨.bin "mul" 3 4, 1, 1⟩]
/-- `atan2(x, 1)`: an operator no algebra of the project evaluates — the generic theorem applies -/
def at2 : Dag := #[x, one, ⟨.bin "atan2" 0 1, 1, 1⟩]

example : Dag.sameTree shared unshared = true := by decide +kernel
example : Dag.sameTree unshared shared = true := by decide +kernel
example : Dag.sameTree shared other = false := by decide +kernel
example : Dag.sameTree at2 at2 = true := by decide +kernel
/-- the constant is compared exactly -/
example : Dag.sameTree #[x, one, ⟨.bin "add" 0 1, 1, 1⟩]
    #[x, ⟨.const [Itv.point (1 + 1 / 2 ^ 52)], 1, 1⟩, ⟨.bin "add" 0 1, 1, 1⟩] = false := by decide +kernel

/-- the cascade on `(x+1)^2` against `x^2+2x+1` answers at level `nf`, on a pair with different
    sharing at level `tree`, and rejects `x*x` against `x^3` -/
example : (match cmpExpr ([], C11.sq1) ([], C11.sq2) 1 [[2]] with | .ok .nf => true | _ => false) = true := by
  decide +kernel
example : (match cmpExpr ([], shared) ([], unshared) 1 [[2]] with | .ok .tree => true | _ => false) = true := by
  decide +kernel
example : (match cmpExpr ([], C11.xx) ([], C11.x3) 1 [[2]] with | .fail _ => true | _ => false) = true := by
  decide +kernel
/-- uninterpreted points separate `sin·sin` from `sin·cos` -/
example : (match cmpExpr ([], shared) ([], other) 1 [[2], [1 / 2]] with | .fail _ => true | _ => false) = true := by
  decide +kernel

/-- a 2-vector constraint `(x+1 ; x*x)` against its two components -/
def vec2 : Dag := #[x, one, ⟨.bin "add" 0 1, 1, 1⟩, ⟨.bin "mul" 0 0, 1, 1⟩, ⟨.vec false [2, 3], 2, 1⟩]
example : (match cmpFlat [([], vec2)] [([], #[x, one, ⟨.bin "add" 0 1, 1, 1⟩]), ([], C11.xx)] 1 [[3]] with
    | .ok .nf => true | _ => false) = true := by decide +kernel

example : printDbl false 0x3fe0000000000000 = "#3fe0000000000000".toList := by decide +kernel
example : printDbl false 0xbfe0000000000000 = "-#3fe0000000000000".toList := by decide +kernel
example : readDbl .strtoll "-#3fe0000000000000".toList = some 0xbfe0000000000000 := by decide +kernel
example : printDbl false 0 = "#0".toList := by decide +kernel

end Ibex.C10
