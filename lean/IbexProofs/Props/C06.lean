/-
  C06 — Solver verdicts mean what they say.

  Run-time rules (driver ops `solbox`, `solveinner`, `solveunknown`, `solvestatus`, evaluated on every box of
  the pavings returned by real `Solver` runs) and what each ACCEPTED / REFUTING verdict means, for all real points:

  * inner boxes (inequality-only systems) and the inequalities of a solution box: `inner_box_sound`
    (interval evaluation by the model proves every constraint at every real point of the box);
  * solution boxes of systems with equations: the claim is `SolClaim eqs E U vars` — for every value of the
    parameters inside the existence box `E` there is exactly one zero with these parameters in `E`, and the
    unicity box `U` contains no other zero with these parameters.  The driver
      - CERTIFIES it with `certifiedByZero` (an exactly known rational zero inside `E`, `E ⊆ U`, uniqueness
        certificate `Newton.uniqueCert` on `U`: `claim_of_known_zero`), or with the existence and uniqueness
        certificates of C09 (`claim_of_certificates`);
      - REFUTES it with exactly known zeros (`refutedOutside_sound`: a zero in `U` with parameters in `E` but
        outside `E`; `refutedTwo_sound`: two zeros with the same parameters in `E`) — these are the
        violations reported;
    `solution_in_initial_box`: `E ⊆` initial box is `Box.subset` (sound for all reals);
  * unknown boxes: `unknown_small_iff`, `unknown_small_dist`;  status: `status_success`, `status_infeasible`.
-/
import IbexProofs.Props.C09exist
import IbexProofs.Props.C09exact
import IbexProofs.Props.C05

namespace Ibex.C06
open Ibex Ibex.Verdict Ibex.C09

/-! ## the claim attached to a reported solution -/

/-- the parameters (coordinates outside `vars`) of `π` are inside the box -/
def ParamsIn (vars : List ℕ) (π : List ℝ) (e : Box) : Prop :=
  π.length = e.length ∧ ∀ i t I, i ∉ vars → π[i]? = some t → e[i]? = some I → t ∈ I

/-- same parameters -/
def SameParams (vars : List ℕ) (z π : List ℝ) : Prop := ∀ i, i ∉ vars → z[i]? = π[i]?

/-- **what the solver claims** about a reported solution (existence box `e`, unicity box `u`, variables `vars`):
    every value of the parameters inside `e` is completed by exactly one zero inside `e`, and `u` contains no
    other zero with these parameters.  For a square system `vars` is everything: `e` contains exactly one zero
    and `u` no other. -/
def SolClaim (eqs : List (List Dag × Dag)) (e u : Box) (vars : List ℕ) : Prop :=
  ∀ π, ParamsIn vars π e → ∃ z, Box.Mem z e ∧ SameParams vars z π ∧ Zero eqs z ∧
    (∀ z', Box.Mem z' e → SameParams vars z' π → Zero eqs z' → z' = z) ∧
    (∀ z', Box.Mem z' u → SameParams vars z' π → Zero eqs z' → z' = z)

/-! ## exact rational data -/

def castL (p : List ℚ) : List ℝ := p.map (Rat.cast : ℚ → ℝ)

theorem castL_injective {p q : List ℚ} (h : castL p = castL q) : p = q :=
  List.map_injective_iff.2 Rat.cast_injective h

theorem containsExt_fin {I : Itv} {q : Rat} : Itv.containsExt I (.fin q) = true ↔ (q : ℝ) ∈ I := by
  cases I with
  | empty => simp [Itv.containsExt]
  | mk a b =>
    simp only [Itv.containsExt, Bool.and_eq_true, Ext.le_iff, Ext.toE_fin]
    exact Iff.rfl

theorem ratIn_iff : ∀ {p : List ℚ} {b : Box}, ratIn p b = true ↔ Box.Mem (castL p) b
  | [], [] => by simp [ratIn, castL, Box.mem_nil]
  | [], _ :: _ => by
    simp only [ratIn, castL, List.map_nil, Bool.false_eq_true, false_iff]
    intro h; cases h
  | _ :: _, [] => by
    simp only [ratIn, castL, List.map_cons, Bool.false_eq_true, false_iff]
    intro h; cases h
  | q :: qs, I :: bs => by
    simp only [ratIn, Bool.and_eq_true, castL, List.map_cons, Box.mem_cons]
    exact and_congr containsExt_fin (ratIn_iff (p := qs) (b := bs))

theorem ratZero_sound {eqs : List (List Dag × Dag)} {p : List ℚ} (h : ratZero eqs p = true) :
    Zero eqs (castL p) := by
  intro q hq
  have hq' := List.all_eq_true.1 h q hq
  split at hq'
  · rename_i v hv
    obtain ⟨z, hz, -, -, hd⟩ := C02.rat_root_real hv
    refine ⟨z, hz, ?_⟩
    have hv0 : v.d = [0] := of_decide_eq_true hq'
    rw [hv0] at hd
    generalize z.d = zd at hd
    cases hd with
    | cons h1 h2 =>
      cases h2
      simp only [RCast] at h1
      simp [h1]
  · cases hq'

theorem getElem?_castL (p : List ℚ) (i : ℕ) : (castL p)[i]? = (p[i]?).map (Rat.cast : ℚ → ℝ) := by
  simp [castL]

theorem ratParamsIn_sound {vars : List ℕ} {p : List ℚ} {b : Box} (h : ratParamsIn vars p b = true) :
    ParamsIn vars (castL p) b := by
  simp only [ratParamsIn, Bool.and_eq_true, beq_iff_eq, List.all_eq_true, List.mem_range,
    Bool.or_eq_true, List.contains_iff_mem] at h
  refine ⟨by simpa [castL] using h.1, fun i t I hi ht hI => ?_⟩
  rw [getElem?_castL] at ht
  cases hp : p[i]? with
  | none => rw [hp] at ht; cases ht
  | some q =>
    rw [hp] at ht
    simp only [Option.map_some, Option.some.injEq] at ht
    have hlt : i < p.length := (List.getElem?_eq_some_iff.1 hp).1
    rcases h.2 i hlt with h1 | h1
    · exact absurd h1 hi
    · rw [hp, hI] at h1
      rw [← ht]
      exact containsExt_fin.1 h1

theorem ratSameParams_sound {vars : List ℕ} {p q : List ℚ} (h : ratSameParams vars p q = true) :
    SameParams vars (castL p) (castL q) := by
  simp only [ratSameParams, Bool.and_eq_true, beq_iff_eq, List.all_eq_true, List.mem_range,
    Bool.or_eq_true, List.contains_iff_mem, decide_eq_true_eq] at h
  intro i hi
  rw [getElem?_castL, getElem?_castL]
  by_cases hlt : i < p.length
  · rcases h.2 i hlt with h1 | h1
    · exact absurd h1 hi
    · rw [h1]
  · rw [List.getElem?_eq_none (by omega), List.getElem?_eq_none (by omega)]

theorem sameParams_refl (vars : List ℕ) (z : List ℝ) : SameParams vars z z := fun _ _ => rfl

/-! ## refutations: the violations reported by the check -/

/-- **a known zero in the unicity box, with parameters in the existence box, but outside the existence
    box refutes the claim** (either the existence box contains no zero for these parameters, or the unicity box
    contains two) -/
theorem refutedOutside_sound {eqs : List (List Dag × Dag)} {e u : Box} {vars : List ℕ} {q : List ℚ}
    (h : refutedOutside eqs e u vars q = true) : ¬ SolClaim eqs e u vars := by
  simp only [refutedOutside, Bool.and_eq_true, Bool.not_eq_true'] at h
  obtain ⟨⟨⟨hz, hu⟩, hne⟩, hpar⟩ := h
  intro hc
  obtain ⟨z, hze, -, -, -, huni⟩ := hc (castL q) (ratParamsIn_sound hpar)
  have := huni (castL q) (ratIn_iff.1 hu) (sameParams_refl _ _) (ratZero_sound hz)
  rw [← this] at hze
  rw [ratIn_iff.2 hze] at hne
  cases hne

/-- **two different known zeros with the same parameters inside the existence box refute the claim** -/
theorem refutedTwo_sound {eqs : List (List Dag × Dag)} {e u : Box} {vars : List ℕ} {p q : List ℚ}
    (h : refutedTwo eqs e vars p q = true) : ¬ SolClaim eqs e u vars := by
  simp only [refutedTwo, Bool.and_eq_true, decide_eq_true_eq] at h
  obtain ⟨⟨⟨⟨⟨hzp, hzq⟩, hpe⟩, hqe⟩, hsame⟩, hne⟩ := h
  intro hc
  have hpar : ParamsIn vars (castL p) e := by
    have hm := ratIn_iff.1 hpe
    refine ⟨hm.length_eq, fun i t I _ ht hI => ?_⟩
    exact (forall₂_iff_getElem?.1 hm).2 i t I ht hI
  obtain ⟨z, -, -, -, hin, -⟩ := hc (castL p) hpar
  have h1 := hin (castL p) (ratIn_iff.1 hpe) (sameParams_refl _ _) (ratZero_sound hzp)
  have h2 := hin (castL q) (ratIn_iff.1 hqe)
    (fun i hi => (ratSameParams_sound hsame i hi).symm) (ratZero_sound hzq)
  exact hne (castL_injective (h1.trans h2.symm))

/-- any of the refutation rules over a list of known zeros -/
theorem refuted_sound {eqs : List (List Dag × Dag)} {e u : Box} {vars : List ℕ} {zs : List (List ℚ)}
    (h : refuted eqs e u vars zs = true) : ¬ SolClaim eqs e u vars := by
  simp only [refuted, Bool.or_eq_true, List.any_eq_true] at h
  rcases h with ⟨q, -, hq⟩ | ⟨p, -, q, -, hpq⟩
  · exact refutedOutside_sound hq
  · exact refutedTwo_sound hpq

/-! ## certificates -/

/-- **uniqueness certificate + existence ⇒ the claim**: `E ⊆ U`, the interval Jacobian w.r.t. `vars` is
    regular on `U` (`Newton.uniqueCertVars`, C09 `unique_zero`), and every parameter value of `E` is completed
    by a zero in `E` (C09: existence certificate, or an exactly known zero in the square case below) -/
theorem claim_of_certificates {eqs : List (List Dag × Dag)} {e u : Box} {vars : List ℕ}
    (hsub : Box.subset e u = true) (hu : Newton.uniqueCertVars eqs u vars = true)
    (hE : ∀ π, ParamsIn vars π e → ∃ z, Box.Mem z e ∧ SameParams vars z π ∧ Zero eqs z) :
    SolClaim eqs e u vars := by
  intro π hπ
  obtain ⟨z, hze, hzp, hz0⟩ := hE π hπ
  have hzu := Box.subset_sound hsub hze
  refine ⟨z, hze, hzp, hz0, fun z' hz' hp' h0' => ?_, fun z' hz' hp' h0' => ?_⟩
  · exact unique_zero hu (Box.subset_sound hsub hz') hzu (fun k hk => (hp' k hk).trans (hzp k hk).symm) h0' hz0
  · exact unique_zero hu hz' hzu (fun k hk => (hp' k hk).trans (hzp k hk).symm) h0' hz0

/-- **square systems, a zero known exactly**: the rule `certifiedByZero` proves that the existence box
    contains exactly one zero and the unicity box no other -/
theorem claim_of_known_zero {eqs : List (List Dag × Dag)} {e u : Box} {p : List ℚ}
    (h : certifiedByZero eqs e u p = true) : SolClaim eqs e u (List.range e.length) := by
  simp only [certifiedByZero, Bool.and_eq_true, beq_iff_eq] at h
  obtain ⟨⟨⟨⟨hz, hpe⟩, hsub⟩, hu⟩, hlen⟩ := h
  have hu' : Newton.uniqueCertVars eqs u (List.range e.length) = true := by
    rw [hlen]; exact hu
  refine claim_of_certificates hsub hu' fun π hπ => ⟨castL p, ratIn_iff.1 hpe, fun i hi => ?_, ratZero_sound hz⟩
  have hi' : ¬ i < e.length := by simpa using hi
  have hl := (ratIn_iff.1 hpe).length_eq
  rw [List.getElem?_eq_none (by omega), List.getElem?_eq_none (by rw [hπ.1]; omega)]


/-- the model's `pointConsts` is the one of the C09 theorems -/
theorem pointConsts_eq (eqs : List (List Dag × Dag)) : Verdict.pointConsts eqs = C09.pointConsts eqs := rfl

/-- **full certificate** (no known zero needed; square or under-constrained): the Krawczyk existence
    certificate holds on a box `x ⊆ E` with the parameter ranges of `E`, `E ⊆ U`, uniqueness certificate on `U`:
    every parameter value of `E` is completed by exactly one zero in `E`, and `U` contains no other -/
theorem claim_of_certifiedBy {eqs : List (List Dag × Dag)} {e u : Box} {vars : List ℕ} {x : Box}
    (h : certifiedBy eqs e u vars x = true) : SolClaim eqs e u vars := by
  simp only [certifiedBy, Bool.and_eq_true, beq_iff_eq, List.all_eq_true, List.mem_range,
    Bool.or_eq_true, List.contains_iff_mem] at h
  obtain ⟨⟨⟨⟨⟨⟨hpc, hex⟩, hxe⟩, heu⟩, hun⟩, hlen⟩, hpar⟩ := h
  refine claim_of_certificates heu hun fun π hπ => ?_
  have hπx : ∀ i t I, i ∉ vars → π[i]? = some t → x[i]? = some I → t ∈ I := by
    intro i t I hi ht hI
    have hlt : i < e.length := by
      have := (List.getElem?_eq_some_iff.1 hI).1
      omega
    rcases hpar i hlt with h1 | h1
    · exact absurd h1 hi
    · rw [hI] at h1
      cases hE : e[i]? with
      | none => rw [hE] at h1; cases h1
      | some J =>
        rw [hE] at h1
        exact Itv.mem_of_subset h1 (hπ.2 i t J hi ht hE)
  obtain ⟨z, hz, hzp, hz0⟩ := exists_zero_of_cert ((pointConsts_eq eqs).symm.trans hpc) hex π
    (hπ.1.trans hlen.symm) hπx
  exact ⟨z, Box.subset_sound hxe hz, hzp, hz0⟩

/-- the search `findCert` only returns checked candidates -/
theorem claim_of_findCert {eqs : List (List Dag × Dag)} {e u : Box} {vars : List ℕ} {tries k : ℕ}
    (h : findCert eqs e u vars tries = some k) : SolClaim eqs e u vars := by
  have := List.find?_some h
  exact claim_of_certifiedBy this


/-! ### existence for every parameter value by subdivision of the parameter ranges -/

theorem getElem?_setAt (e : Box) (i : ℕ) (J : Itv) (j : ℕ) :
    (setAt e i J)[j]? = (e[j]?).map fun I => if (j == i) = true then J else I := by
  simp only [setAt, List.getElem?_map, List.getElem?_zipIdx, Nat.zero_add]
  cases e[j]? <;> simp

theorem mem_fin_iff {a b : ℚ} {t : ℝ} : t ∈ Itv.mk (.fin a) (.fin b) ↔ (a : ℝ) ≤ t ∧ t ≤ (b : ℝ) := by
  simp only [Itv.mem_mk, Ext.toE_fin, EReal.coe_le_coe_iff]

/-- a point of the box with a narrowed coordinate is a point of the box -/
theorem mem_of_mem_setAt {e : Box} {i : ℕ} {J I0 : Itv} {z : List ℝ} (hz : Box.Mem z (setAt e i J))
    (hI : e[i]? = some I0) (hsub : ∀ t : ℝ, t ∈ J → t ∈ I0) : Box.Mem z e := by
  rw [Box.Mem, forall₂_iff_getElem?] at hz ⊢
  obtain ⟨hlen, hall⟩ := hz
  refine ⟨by simpa [setAt] using hlen, fun j a I ha hIj => ?_⟩
  have := hall j a (if (j == i) = true then J else I) ha (by rw [getElem?_setAt, hIj]; rfl)
  by_cases hji : (j == i) = true
  · rw [if_pos hji] at this
    have hj : j = i := by simpa using hji
    subst hj
    rw [hI] at hIj
    injection hIj with hIj
    exact hIj ▸ hsub a this
  · rwa [if_neg hji] at this

/-- narrowing a parameter range that still contains the parameter keeps `ParamsIn` -/
theorem paramsIn_setAt {vars : List ℕ} {π : List ℝ} {e : Box} {i : ℕ} {J : Itv} (hπ : ParamsIn vars π e)
    (hJ : ∀ t, π[i]? = some t → t ∈ J) : ParamsIn vars π (setAt e i J) := by
  refine ⟨by simpa [setAt] using hπ.1, fun j t I hj ht hI => ?_⟩
  rw [getElem?_setAt] at hI
  cases hE : e[j]? with
  | none => rw [hE] at hI; cases hI
  | some I1 =>
    rw [hE] at hI
    simp only [Option.map_some, Option.some.injEq] at hI
    by_cases hji : (j == i) = true
    · rw [if_pos hji] at hI
      have hj : j = i := by simpa using hji
      subst hj
      exact hI ▸ hJ t ht
    · rw [if_neg hji] at hI
      exact hI ▸ hπ.2 j t I1 hj ht hE

/-- **existence for every parameter value**, from the subdivision certificate -/
theorem existSplit_sound {eqs : List (List Dag × Dag)} {vars : List ℕ} (hpc : Verdict.pointConsts eqs = true) :
    ∀ (d : ℕ) {e : Box}, existSplit eqs vars d e = true →
      ∀ π, ParamsIn vars π e → ∃ z, Box.Mem z e ∧ SameParams vars z π ∧ Zero eqs z := by
  have base : ∀ {e : Box}, Newton.existCertVars eqs e vars = true →
      ∀ π, ParamsIn vars π e → ∃ z, Box.Mem z e ∧ SameParams vars z π ∧ Zero eqs z :=
    fun hex π hπ => exists_zero_of_cert ((pointConsts_eq eqs).symm.trans hpc) hex π hπ.1 hπ.2
  intro d
  induction d with
  | zero => intro e h; exact base (by simpa [existSplit] using h)
  | succ d ih =>
    intro e h π hπ
    simp only [existSplit, Bool.or_eq_true] at h
    rcases h with h | h
    · exact base h π hπ
    · split at h
      · rename_i i a b _
        simp only [Bool.and_eq_true, Bool.not_eq_true', decide_eq_true_eq] at h
        obtain ⟨⟨⟨⟨hi, hab⟩, hI⟩, hl⟩, hr⟩ := h
        have hiv : i ∉ vars := fun hm => by
          rw [List.contains_iff_mem.2 hm] at hi; cases hi
        have hlt : i < π.length := by
          rw [hπ.1]; exact (List.getElem?_eq_some_iff.1 hI).1
        have hπi : π[i]? = some π[i] := List.getElem?_eq_getElem hlt
        have hmem : (a : ℝ) ≤ π[i] ∧ π[i] ≤ (b : ℝ) := mem_fin_iff.1 (hπ.2 i _ _ hiv hπi hI)
        have habR : (a : ℝ) ≤ (b : ℝ) := by exact_mod_cast hab
        have hm : (((a + b) / 2 : ℚ) : ℝ) = ((a : ℝ) + b) / 2 := by push_cast; ring
        by_cases hcase : π[i] ≤ ((a : ℝ) + b) / 2
        · obtain ⟨z, hz, hzp, hz0⟩ := ih hl π (paramsIn_setAt hπ fun t ht => by
            rw [hπi] at ht; injection ht with ht; subst ht
            exact mem_fin_iff.2 ⟨hmem.1, by rw [hm]; exact hcase⟩)
          refine ⟨z, mem_of_mem_setAt hz hI (fun t ht => ?_), hzp, hz0⟩
          have := mem_fin_iff.1 ht
          rw [hm] at this
          exact mem_fin_iff.2 ⟨this.1, by linarith [this.2]⟩
        · obtain ⟨z, hz, hzp, hz0⟩ := ih hr π (paramsIn_setAt hπ fun t ht => by
            rw [hπi] at ht; injection ht with ht; subst ht
            exact mem_fin_iff.2 ⟨by rw [hm]; linarith, hmem.2⟩)
          refine ⟨z, mem_of_mem_setAt hz hI (fun t ht => ?_), hzp, hz0⟩
          have := mem_fin_iff.1 ht
          rw [hm] at this
          exact mem_fin_iff.2 ⟨by linarith [this.1], this.2⟩
      · cases h

/-- **full certificate with subdivision of the parameter ranges** -/
theorem claim_of_certifiedSplit {eqs : List (List Dag × Dag)} {e u : Box} {vars : List ℕ} {d : ℕ}
    (h : certifiedSplit eqs e u vars d = true) : SolClaim eqs e u vars := by
  simp only [certifiedSplit, Bool.and_eq_true] at h
  obtain ⟨⟨⟨hpc, hex⟩, hsub⟩, hun⟩ := h
  exact claim_of_certificates hsub hun (existSplit_sound hpc d hex)

/-- a solution box accepted by `Box.subset e root` lies in the initial box -/
theorem solution_in_initial_box {e root : Box} (h : Box.subset e root = true) {p : List ℝ}
    (hp : Box.Mem p e) : Box.Mem p root := Box.subset_sound h hp

/-! ## inner boxes, unknown boxes, status -/

/-- **inner boxes** (and the inequalities of a solution box): every constraint holds at every real point of
    the box at which it is defined -/
theorem inner_box_sound {cs : List ((List Dag × Dag) × String)} {box : Box}
    (h : Cover.innerOk cs box = true) {p : List ℝ} (hp : Box.Mem p box) :
    ∀ c ∈ cs, ∀ v, Eval.root Alg.real p (Eval.buildCalls Alg.real c.1.1) c.1.2 = some v →
      ∀ x ∈ v.d, C05.SignHolds c.2 x := C05.innerOk_sound h hp



/-- **inner boxes, exact arithmetic**: when `innerOkX cs box` holds, every constraint holds at every real point of
    the box at which it is defined (enclosure theorem of the exact interval algebra `Alg.real_itvX`) -/
theorem innerOkX_sound {cs : List ((List Dag × Dag) × String)} {box : Box}
    (h : innerOkX cs box = true) {p : List ℝ} (hp : Box.Mem p box) :
    ∀ c ∈ cs, ∀ v, Eval.root Alg.real p (Eval.buildCalls Alg.real c.1.1) c.1.2 = some v →
      ∀ x ∈ v.d, C05.SignHolds c.2 x := by
  intro c hc v hv x hx
  have hc' := List.all_eq_true.1 h c hc
  unfold provedOnBoxX at hc'
  split at hc'
  · rename_i z hz
    have hm : MatMem v z := Eval.root_rel Alg.real_itvX hp (Eval.buildCalls_rel Alg.real_itvX c.1.1) hv hz
    obtain ⟨-, -, hd⟩ := hm
    obtain ⟨i, hi, rfl⟩ := List.getElem_of_mem hx
    have hi' : i < z.d.length := hd.length_eq ▸ hi
    have hxI : v.d[i] ∈ z.d[i] := (forall₂_iff_getElem?.1 hd).2 i _ _
      (List.getElem?_eq_getElem hi) (List.getElem?_eq_getElem hi')
    exact C05.signProved_sound (List.all_eq_true.1 hc' _ (List.getElem_mem hi')) hxI
  · cases hc'

/-- **an inner box refuted**: the rule `innerRefutedBy` exhibits a real point of the box at which a constraint is
    defined and violated (some component of its value does not satisfy the sign condition) -/
theorem innerRefutedBy_sound {cs : List ((List Dag × Dag) × String)} {b : Box} {p : List ℚ}
    (h : innerRefutedBy cs b p = true) :
    Box.Mem (castL p) b ∧ ∃ c ∈ cs, ∃ v, Eval.root Alg.real (castL p) (Eval.buildCalls Alg.real c.1.1) c.1.2 = some v ∧
      ∃ x ∈ v.d, ¬ C05.SignHolds c.2 x := by
  simp only [innerRefutedBy, Bool.and_eq_true, List.any_eq_true] at h
  obtain ⟨hin, c, hc, hv⟩ := h
  refine ⟨ratIn_iff.1 hin, c, hc, ?_⟩
  split at hv
  · rename_i v hev
    obtain ⟨z, hz, -, -, hd⟩ := C02.rat_root_real hev
    refine ⟨z, hz, ?_⟩
    -- an element of `v.d` violating the condition gives one of `z.d`
    have key : ∀ (P : ℚ → Prop) [DecidablePred P], v.d.any (fun q => decide (P q)) = true →
        ∃ q, P q ∧ ((q : ℚ) : ℝ) ∈ z.d := by
      intro P _ hany
      obtain ⟨q, hq, hP⟩ := List.any_eq_true.1 hany
      obtain ⟨i, hi, rfl⟩ := List.getElem_of_mem hq
      have hi' : i < z.d.length := hd.length_eq ▸ hi
      have := (forall₂_iff_getElem?.1 hd).2 i _ _ (List.getElem?_eq_getElem hi) (List.getElem?_eq_getElem hi')
      exact ⟨v.d[i], of_decide_eq_true hP, by simp only [RCast] at this; rw [← this]; exact List.getElem_mem hi'⟩
    unfold specViolated at hv
    split at hv
    · rename_i hs
      obtain ⟨q, hq, hm⟩ := key (fun q => 0 < q) hv
      refine ⟨_, hm, fun hh => ?_⟩
      have hs' : c.2 = "leq" := by simpa using hs
      have hq' : (0 : ℝ) < q := by exact_mod_cast hq
      rcases hh with ⟨-, h1⟩ | ⟨e, -⟩ | ⟨e, -⟩ | ⟨e, -⟩
      · linarith
      all_goals (rw [hs'] at e; exact absurd e (by decide))
    · split at hv
      · rename_i _ hs
        obtain ⟨q, hq, hm⟩ := key (fun q => 0 ≤ q) hv
        refine ⟨_, hm, fun hh => ?_⟩
        have hs' : c.2 = "lt" := by simpa using hs
        have hq' : (0 : ℝ) ≤ q := by exact_mod_cast hq
        rcases hh with ⟨e, -⟩ | ⟨-, h1⟩ | ⟨e, -⟩ | ⟨e, -⟩
        · rw [hs'] at e; exact absurd e (by decide)
        · linarith
        all_goals (rw [hs'] at e; exact absurd e (by decide))
      · split at hv
        · rename_i _ _ hs
          obtain ⟨q, hq, hm⟩ := key (fun q => q < 0) hv
          refine ⟨_, hm, fun hh => ?_⟩
          have hs' : c.2 = "geq" := by simpa using hs
          have hq' : (q : ℝ) < 0 := by exact_mod_cast hq
          rcases hh with ⟨e, -⟩ | ⟨e, -⟩ | ⟨-, h1⟩ | ⟨e, -⟩
          · rw [hs'] at e; exact absurd e (by decide)
          · rw [hs'] at e; exact absurd e (by decide)
          · linarith
          · rw [hs'] at e; exact absurd e (by decide)
        · split at hv
          · rename_i _ _ _ hs
            obtain ⟨q, hq, hm⟩ := key (fun q => q ≤ 0) hv
            refine ⟨_, hm, fun hh => ?_⟩
            have hs' : c.2 = "gt" := by simpa using hs
            have hq' : (q : ℝ) ≤ 0 := by exact_mod_cast hq
            rcases hh with ⟨e, -⟩ | ⟨e, -⟩ | ⟨e, -⟩ | ⟨-, h1⟩
            · rw [hs'] at e; exact absurd e (by decide)
            · rw [hs'] at e; exact absurd e (by decide)
            · rw [hs'] at e; exact absurd e (by decide)
            · linarith
          · cases hv
  · cases hv

/-- **unknown boxes**: every component is not wider than the minimal width, or cannot be bisected -/
theorem unknown_small_iff {b : Box} {eps : List Ext} :
    Cover.unknownSmall b eps = true ↔
      b.length = eps.length ∧ ∀ (i : Nat) I e, b[i]? = some I → eps[i]? = some e →
        Ext.le (Box.diamUp I) e = true ∨ Box.bisectable I = false := C05.unknownSmall_iff

theorem unknown_small_dist {I : Itv} {e : Ext} (h : Ext.le (Box.diamUp I) e = true) {x y : ℝ}
    (hx : x ∈ I) (hy : y ∈ I) : ((|x - y| : ℝ) : EReal) ≤ e.toE := C05.unknownSmall_dist h hx hy

/-- **status**: success implies no unknown and no pending box; infeasible implies no box at all -/
theorem status_success {nsol nbnd nunk npend ninner : Nat}
    (h : Cover.statusOk "SUCCESS" nsol nbnd nunk npend ninner = true) : nunk = 0 ∧ npend = 0 :=
  C05.statusOk_success.1 h

theorem status_infeasible {nsol nbnd nunk npend ninner : Nat}
    (h : Cover.statusOk "INFEASIBLE" nsol nbnd nunk npend ninner = true) :
    nsol = 0 ∧ nbnd = 0 ∧ nunk = 0 ∧ npend = 0 ∧ ninner = 0 := C05.statusOk_infeasible.1 h

/-! ## non-vacuity -/

section Examples
open Ibex.C09 (I)

/-- `x² − 4`; nodes: 0 = x, 1 = x², 2 = 4, 3 = x² − 4 -/
def sq4 : Dag :=
  #[⟨.var 0, 1, 1⟩, ⟨.un "sqr" 0, 1, 1⟩, ⟨.const [Itv.point 4], 1, 1⟩, ⟨.bin "sub" 1 2, 1, 1⟩]

/-- existence box `[15/8, 17/8]`, unicity box `[1, 3]`, known zero 2: certified -/
example : certifiedByZero [([], sq4)] [I (15/8) (17/8)] [I 1 3] [2] = true := by decide +kernel
/-- hence the claim holds (the conclusion is not vacuous: the theorem applies) -/
example : SolClaim [([], sq4)] [I (15/8) (17/8)] [I 1 3] (List.range 1) :=
  claim_of_known_zero (p := [2]) (by decide +kernel)
/-- a unicity box `[−3, 3]` that contains the other zero −2 (outside the existence box): refuted -/
example : refuted [([], sq4)] [I (15/8) (17/8)] [I (-3) 3] [0] [[2], [-2]] = true := by decide +kernel
example : ¬ SolClaim [([], sq4)] [I (15/8) (17/8)] [I (-3) 3] [0] :=
  refuted_sound (zs := [[2], [-2]]) (by decide +kernel)
/-- an "existence box" `[−3, 3]` with two zeros: refuted -/
example : refuted [([], sq4)] [I (-3) 3] [I (-3) 3] [0] [[2], [-2]] = true := by decide +kernel
/-- the same solution certified without any known zero (Krawczyk existence + regular Jacobian) -/
example : findCert [([], sq4)] [I (15/8) (17/8)] [I 1 3] [0] 3 = some 0 := by decide +kernel
/-- nothing is refuted for the correct boxes -/
example : refuted [([], sq4)] [I (15/8) (17/8)] [I 1 3] [0] [[2], [-2]] = false := by decide +kernel

end Examples

/-! ## the rules evaluated with exact rational interval arithmetic (`certifiedByX`, `findCertX`, ...) -/

/-- `claim_of_certificates` with the exact uniqueness certificate -/
theorem claim_of_certificatesX {eqs : List (List Dag × Dag)} {e u : Box} {vars : List ℕ}
    (hsub : Box.subset e u = true) (hu : Newton.uniqueCertVarsX eqs u vars = true)
    (hE : ∀ π, ParamsIn vars π e → ∃ z, Box.Mem z e ∧ SameParams vars z π ∧ Zero eqs z) :
    SolClaim eqs e u vars := by
  intro π hπ
  obtain ⟨z, hze, hzp, hz0⟩ := hE π hπ
  have hzu := Box.subset_sound hsub hze
  refine ⟨z, hze, hzp, hz0, fun z' hz' hp' h0' => ?_, fun z' hz' hp' h0' => ?_⟩
  · exact unique_zeroX hu (Box.subset_sound hsub hz') hzu (fun k hk => (hp' k hk).trans (hzp k hk).symm) h0' hz0
  · exact unique_zeroX hu hz' hzu (fun k hk => (hp' k hk).trans (hzp k hk).symm) h0' hz0

/-- **square systems, a zero known exactly**, exact uniqueness certificate -/
theorem claim_of_known_zeroX {eqs : List (List Dag × Dag)} {e u : Box} {p : List ℚ}
    (h : certifiedByZeroX eqs e u p = true) : SolClaim eqs e u (List.range e.length) := by
  simp only [certifiedByZeroX, Bool.and_eq_true, beq_iff_eq] at h
  obtain ⟨⟨⟨⟨hz, hpe⟩, hsub⟩, hu⟩, hlen⟩ := h
  have hu' : Newton.uniqueCertVarsX eqs u (List.range e.length) = true := by
    rw [hlen]; exact hu
  refine claim_of_certificatesX hsub hu' fun π hπ => ⟨castL p, ratIn_iff.1 hpe, fun i hi => ?_, ratZero_sound hz⟩
  have hi' : ¬ i < e.length := by simpa using hi
  have hl := (ratIn_iff.1 hpe).length_eq
  rw [List.getElem?_eq_none (by omega), List.getElem?_eq_none (by rw [hπ.1]; omega)]

/-- **full certificate, exact interval arithmetic** (no known zero needed; square or under-constrained): the
    exact Krawczyk existence certificate holds on a box `x ⊆ E` with the parameter ranges of `E`, `E ⊆ U`, exact
    uniqueness certificate on `U`: every parameter value of `E` is completed by exactly one zero in `E`, and `U`
    contains no other -/
theorem claim_of_certifiedByX {eqs : List (List Dag × Dag)} {e u : Box} {vars : List ℕ} {x : Box}
    (h : certifiedByX eqs e u vars x = true) : SolClaim eqs e u vars := by
  simp only [certifiedByX, Bool.and_eq_true, beq_iff_eq, List.all_eq_true, List.mem_range,
    Bool.or_eq_true, List.contains_iff_mem] at h
  obtain ⟨⟨⟨⟨⟨⟨hpc, hex⟩, hxe⟩, heu⟩, hun⟩, hlen⟩, hpar⟩ := h
  refine claim_of_certificatesX heu hun fun π hπ => ?_
  have hπx : ∀ i t I, i ∉ vars → π[i]? = some t → x[i]? = some I → t ∈ I := by
    intro i t I hi ht hI
    have hlt : i < e.length := by
      have := (List.getElem?_eq_some_iff.1 hI).1
      omega
    rcases hpar i hlt with h1 | h1
    · exact absurd h1 hi
    · rw [hI] at h1
      cases hE : e[i]? with
      | none => rw [hE] at h1; cases h1
      | some J =>
        rw [hE] at h1
        exact Itv.mem_of_subset h1 (hπ.2 i t J hi ht hE)
  obtain ⟨z, hz, hzp, hz0⟩ := exists_zero_of_certX ((pointConsts_eq eqs).symm.trans hpc) hex π
    (hπ.1.trans hlen.symm) hπx
  exact ⟨z, Box.subset_sound hxe hz, hzp, hz0⟩

/-- the search `findCertX` only returns checked candidates -/
theorem claim_of_findCertX {eqs : List (List Dag × Dag)} {e u : Box} {vars : List ℕ} {tries k : ℕ}
    (h : findCertX eqs e u vars tries = some k) : SolClaim eqs e u vars := by
  have := List.find?_some h
  exact claim_of_certifiedByX this

/-- **existence for every parameter value**, from the subdivision certificate (exact interval arithmetic) -/
theorem existSplitX_sound {eqs : List (List Dag × Dag)} {vars : List ℕ} (hpc : Verdict.pointConsts eqs = true) :
    ∀ (d : ℕ) {e : Box}, existSplitX eqs vars d e = true →
      ∀ π, ParamsIn vars π e → ∃ z, Box.Mem z e ∧ SameParams vars z π ∧ Zero eqs z := by
  have base : ∀ {e : Box}, Newton.existCertVarsX eqs e vars = true →
      ∀ π, ParamsIn vars π e → ∃ z, Box.Mem z e ∧ SameParams vars z π ∧ Zero eqs z :=
    fun hex π hπ => exists_zero_of_certX ((pointConsts_eq eqs).symm.trans hpc) hex π hπ.1 hπ.2
  intro d
  induction d with
  | zero => intro e h; exact base (by simpa [existSplitX] using h)
  | succ d ih =>
    intro e h π hπ
    simp only [existSplitX, Bool.or_eq_true] at h
    rcases h with h | h
    · exact base h π hπ
    · split at h
      · rename_i i a b _
        simp only [Bool.and_eq_true, Bool.not_eq_true', decide_eq_true_eq] at h
        obtain ⟨⟨⟨⟨hi, hab⟩, hI⟩, hl⟩, hr⟩ := h
        have hiv : i ∉ vars := fun hm => by
          rw [List.contains_iff_mem.2 hm] at hi; cases hi
        have hlt : i < π.length := by
          rw [hπ.1]; exact (List.getElem?_eq_some_iff.1 hI).1
        have hπi : π[i]? = some π[i] := List.getElem?_eq_getElem hlt
        have hmem : (a : ℝ) ≤ π[i] ∧ π[i] ≤ (b : ℝ) := mem_fin_iff.1 (hπ.2 i _ _ hiv hπi hI)
        have habR : (a : ℝ) ≤ (b : ℝ) := by exact_mod_cast hab
        have hm : (((a + b) / 2 : ℚ) : ℝ) = ((a : ℝ) + b) / 2 := by push_cast; ring
        by_cases hcase : π[i] ≤ ((a : ℝ) + b) / 2
        · obtain ⟨z, hz, hzp, hz0⟩ := ih hl π (paramsIn_setAt hπ fun t ht => by
            rw [hπi] at ht; injection ht with ht; subst ht
            exact mem_fin_iff.2 ⟨hmem.1, by rw [hm]; exact hcase⟩)
          refine ⟨z, mem_of_mem_setAt hz hI (fun t ht => ?_), hzp, hz0⟩
          have := mem_fin_iff.1 ht
          rw [hm] at this
          exact mem_fin_iff.2 ⟨this.1, by linarith [this.2]⟩
        · obtain ⟨z, hz, hzp, hz0⟩ := ih hr π (paramsIn_setAt hπ fun t ht => by
            rw [hπi] at ht; injection ht with ht; subst ht
            exact mem_fin_iff.2 ⟨by rw [hm]; linarith, hmem.2⟩)
          refine ⟨z, mem_of_mem_setAt hz hI (fun t ht => ?_), hzp, hz0⟩
          have := mem_fin_iff.1 ht
          rw [hm] at this
          exact mem_fin_iff.2 ⟨by linarith [this.1], this.2⟩
      · cases h

/-- **full certificate with subdivision of the parameter ranges**, exact interval arithmetic -/
theorem claim_of_certifiedSplitX {eqs : List (List Dag × Dag)} {e u : Box} {vars : List ℕ} {d : ℕ}
    (h : certifiedSplitX eqs e u vars d = true) : SolClaim eqs e u vars := by
  simp only [certifiedSplitX, Bool.and_eq_true] at h
  obtain ⟨⟨⟨hpc, hex⟩, hsub⟩, hun⟩ := h
  exact claim_of_certificatesX hsub hun (existSplitX_sound hpc d hex)

section ExamplesX
open Ibex.C09 (I B52)

/-- `x² − 2`: the existence box of 2 ulps around `1.4142135623730951` (what the library reports), unicity box
    `[1,2]`: certified with exact arithmetic at the first try, NOT certified by the rounded rules -/
example : certifiedByX [([], C09.sqDag)] [B52 6369051672525772 6369051672525774] [I 1 2] [0]
    [B52 6369051672525772 6369051672525774] = true := by decide +kernel
example : findCertX [([], C09.sqDag)] [B52 6369051672525772 6369051672525774] [I 1 2] [0] 3 = some 0 := by
  decide +kernel
example : findCert [([], C09.sqDag)] [B52 6369051672525772 6369051672525774] [I 1 2] [0] 3 = none := by
  decide +kernel
/-- hence the claim holds -/
example : SolClaim [([], C09.sqDag)] [B52 6369051672525772 6369051672525774] [I 1 2] [0] :=
  claim_of_findCertX (tries := 3) (k := 0) (by decide +kernel)
/-- a wrong existence box (1 ulp, next to the zero) is not certified; `x² − 4` as for the rounded rules -/
example : findCertX [([], C09.sqDag)] [B52 6369051672525773 6369051672525774] [I 1 2] [0] 3 = none := by
  decide +kernel
example : findCertX [([], sq4)] [I (15/8) (17/8)] [I 1 3] [0] 3 = some 0 := by decide +kernel
example : certifiedByZeroX [([], sq4)] [I (15/8) (17/8)] [I 1 3] [2] = true := by decide +kernel
example : certifiedByZeroX [([], sq4)] [I (15/8) (17/8)] [I (-3) 3] [2] = false := by decide +kernel

end ExamplesX

end Ibex.C06
