/-
  C07 — the optimizer's bounds [uplo, loup] enclose the global minimum; the loup point is feasible; SUCCESS means the
  requested precision; INFEASIBLE means no feasible point.

  What runs at run time: a REAL `Optimizer` (assembled by hand from the real contractors, bisectors, loup finders and
  cell buffers: this configuration has no LP library) is run on generated problems; the driver decides the verdict
  `Optim.resultOk` on its output with exact rational arithmetic (`IbexModel/Optim.lean`).  The theorems below say what
  an accepted output means over the REALS (real semantics `Alg.real` of the dumped expression DAGs, C02):

    * `bounds_ordered`               uplo ≤ loup ≤ initial loup
    * `lower_bound_on_checked_points` uplo ≤ f(p) at every planted / sampled point that is exactly feasible
    * `lower_bound_universal`        with an accepted certificate `f ≡ c + Σ w q² + Σ λ s` (w, λ ≥ 0, s slacks of the box and of
                                     the constraints; identity checked by the verified normal form of C11) and `uplo ≤ c`:
                                     `uplo ≤ f(x)` for EVERY feasible real point x of the box — the universal claim of the
                                     property, derived, not sampled; `certified_minimum`: when moreover f(p*) = c at the planted
                                     feasible point, c IS the global minimum
    * `cover_lower_bound`            history-independent: the real search is logged through wrappers around its buffer, bisector and
                                     contractor; if the verified replay `OptCover.checkOk` accepts the log for the threshold U = uplo
                                     (every cell split into covering halves; goal domains only cut above U; every dropped box empty or
                                     with goal lower bound ≥ U; same for the cells left in the buffer) and the logged contractions are
                                     sound (C04), then `uplo ≤ f(x)` for EVERY feasible real x — for ANY problem, no known minimum needed
    * `minimizer_lower_bound`        the same conclusion from the hypothesis "p* is a global minimiser" (families without
                                     certificate); `sepquad_ge`, `sepquad_box_ge`: that hypothesis proved for the convex
                                     separable family Σ wᵢ (xᵢ-aᵢ)² + c (minimiser = projection of a on the box)
    * `witness_exact` / `witness_interval` / `witness_rigor`   the loup point is feasible for the eps_h-relaxed problem, lies
                                     in the initial box, and f ≤ loup (rigor mode: every point of the thin box lies in the
                                     initial box and has f ≤ loup; that the box contains an exactly feasible point is the
                                     existence claim of C09)
    * `witness_refuted_box` / `witness_refuted_point`   what a REFUTED loup point means (`witBoxRefuted_sound`,
                                     `witRefuted_sound`, `infeasQ_sound`): the point is NOT a feasible real point with f ≤ loup;
                                     the thin box is empty, leaves the initial box, violates a constraint at every real point
                                     where it is defined, or has an objective enclosure above loup
    * `success_precision`            SUCCESS ⇒ the documented precision test holds on the exact values, and a witness is given
    * `infeasible_sound`             INFEASIBLE ⇒ none of the checked points is feasible (below the initial loup)
    * `resumed_sound` (C18, optimizer half)  an accepted interrupted-saved-reloaded-resumed run satisfies all of the above,
                                     its loup is not above the loup saved at any interruption, and an inherited loup that
                                     was not improved keeps its loup point unchanged

  Level: the universal quantification over problems/configurations/histories is on the CHECKER side (any accepted output of
  any run has the stated meaning); that the C++ always produces accepted outputs is sampled (known-minimum oracle).
-/
import IbexProofs.Optim
import IbexProofs.OptCover
import Mathlib.Algebra.BigOperators.Group.Finset.Basic
import Mathlib.Algebra.Order.BigOperators.Group.Finset

namespace Ibex.C07
open Ibex Ibex.Optim Ibex.Eval

/-! ## bounds -/

theorem bounds_ordered {P : Problem} {R : Run} {res : Result} {pts : List (List ℚ)}
    (h : resultOk P R res pts = true) : res.uplo.toE ≤ res.loup.toE ∧ res.loup.toE ≤ R.initLoup.toE := by
  simp only [resultOk, boundsOk, Bool.and_eq_true] at h
  exact ⟨(Ext.le_iff _ _).1 h.1.1.1.1.1, (Ext.le_iff _ _).1 h.1.1.1.1.2⟩

/-- (b) every checked point that is feasible (decided exactly; it is then a feasible REAL point, `feasQ_sound`)
    has an objective value (the real value of the objective, `evalQ_real`) not below `uplo` -/
theorem lower_bound_on_checked_points {P : Problem} {R : Run} {res : Result} {pts : List (List ℚ)}
    (h : resultOk P R res pts = true) {p : List ℚ} (hp : p ∈ pts) (hf : feasQ P p = true) {v : ℚ}
    (hv : evalQ P.obj p = some v) :
    Feasible P (castPt p) ∧ RealVal P.obj (castPt p) (v : ℝ) ∧ res.uplo.toE ≤ (((v : ℚ) : ℝ) : EReal) := by
  simp only [resultOk, Bool.and_eq_true] at h
  exact ⟨feasQ_sound hf, evalQ_real hv, lowerOk_sound h.1.1.2 hp hf hv⟩

/-- **the universal lower bound**: with an accepted certificate and `uplo ≤ c`, NO feasible real point of the box has
    an objective value below `uplo` -/
theorem lower_bound_universal {P : Problem} {C : Cert} {uplo : Ext} (h : certLowerOk P C uplo = true)
    {ρ : List ℝ} (hf : Feasible P ρ) {v : ℝ} (hv : RealVal P.obj ρ v) : uplo.toE ≤ ((v : ℝ) : EReal) := by
  simp only [certLowerOk, Bool.and_eq_true] at h
  have h1 : uplo.toE ≤ (((C.c : ℚ) : ℝ) : EReal) := by simpa using (Ext.le_iff _ _).1 h.2
  exact le_trans h1 (EReal.coe_le_coe_iff.2 (Cert.ok_sound h.1 hf hv))

/-- the certified value is THE global minimum when it is attained at the planted feasible point -/
theorem certified_minimum {P : Problem} {C : Cert} (h : C.ok P = true) {p : List ℚ} (hp : feasQ P p = true)
    (hv : evalQ P.obj p = some C.c) :
    IsLeast {v : ℝ | ∃ ρ, Feasible P ρ ∧ RealVal P.obj ρ v} (C.c : ℝ) :=
  ⟨⟨castPt p, feasQ_sound hp, evalQ_real hv⟩, fun _ ⟨_, hf, hv'⟩ => Cert.ok_sound h hf hv'⟩

/-- families without certificate: from "p* is a global minimiser" (hypothesis supplied by the construction of the
    family) and `uplo ≤ f(p*)` (checked), the universal claim -/
theorem minimizer_lower_bound {P : Problem} {uplo : Ext} {fstar : ℝ}
    (hmin : ∀ ρ v, Feasible P ρ → RealVal P.obj ρ v → fstar ≤ v) (hu : uplo.toE ≤ ((fstar : ℝ) : EReal))
    {ρ : List ℝ} (hf : Feasible P ρ) {v : ℝ} (hv : RealVal P.obj ρ v) : uplo.toE ≤ ((v : ℝ) : EReal) :=
  le_trans hu (EReal.coe_le_coe_iff.2 (hmin ρ v hf hv))

/-- the convex separable family: `c` is a lower bound of `Σ wᵢ (xᵢ-aᵢ)² + c`, attained at `a` -/
theorem sepquad_ge {n : ℕ} (w a x : Fin n → ℝ) (hw : ∀ i, 0 ≤ w i) (c : ℝ) :
    c ≤ (∑ i, w i * (x i - a i) ^ 2) + c ∧ (∑ i, w i * (a i - a i) ^ 2) + c = c := by
  refine ⟨le_add_of_nonneg_left (Finset.sum_nonneg fun i _ => mul_nonneg (hw i) (sq_nonneg _)), ?_⟩
  simp

/-- … over a box: the minimiser is the projection `p` of `a` on the box (component-wise clamp) -/
theorem sepquad_box_ge {n : ℕ} (w a l u x : Fin n → ℝ) (hw : ∀ i, 0 ≤ w i) (c : ℝ)
    (hx : ∀ i, l i ≤ x i ∧ x i ≤ u i) (hlu : ∀ i, l i ≤ u i) :
    (∑ i, w i * (max (l i) (min (a i) (u i)) - a i) ^ 2) + c ≤ (∑ i, w i * (x i - a i) ^ 2) + c := by
  refine add_le_add_left (Finset.sum_le_sum fun i _ => mul_le_mul_of_nonneg_left ?_ (hw i)) c
  obtain ⟨h1, h2⟩ := hx i
  have h3 := hlu i
  rcases le_total (a i) (u i) with h | h
  · rw [min_eq_left h]
    rcases le_total (l i) (a i) with h' | h'
    · rw [max_eq_right h', sub_self]; nlinarith [sq_nonneg (x i - a i)]
    · rw [max_eq_left h']
      nlinarith [mul_nonneg (sub_nonneg.2 h1) (by linarith : 0 ≤ x i + l i - 2 * a i)]
  · rw [min_eq_right h, max_eq_right h3]
    nlinarith [mul_nonneg (sub_nonneg.2 h2) (by linarith : 0 ≤ 2 * a i - x i - u i)]

/-! ## the loup point -/

/-- (a) a point witness decided exactly: feasible for the eps_h-relaxed problem (in the initial box, every constraint
    defined and satisfied, equalities within eps_h), objective defined and `≤ loup` -/
theorem witness_exact {P : Problem} {R : Run} {res : Result} (h : witness P R res = .exact) :
    ∃ p, pointOf res.lp = some p ∧ Feasible P (castPt p) ∧
      ∃ v, RealVal P.obj (castPt p) v ∧ ((v : ℝ) : EReal) ≤ res.loup.toE := by
  unfold witness at h
  split_ifs at h
  split at h
  · rename_i p hp
    unfold witnessPoint at h
    split_ifs at h with h1
    exact ⟨p, hp, witExact_sound h1⟩
  · unfold witnessBox at h
    split_ifs at h

/-- a point witness decided by interval evaluation (exact evaluation undefined, e.g. an irrational square root) -/
theorem witness_interval {P : Problem} {R : Run} {res : Result} (h : witness P R res = .interval) :
    ∃ p, pointOf res.lp = some p ∧ WitOn P res.loup (castPt p) := by
  unfold witness at h
  split_ifs at h
  split at h
  · rename_i p hp
    unfold witnessPoint at h
    split_ifs at h with h1 h2 h3 h4
    exact ⟨p, hp, witItv_sound h4 (pointOf_mem hp)⟩
  · unfold witnessBox at h
    split_ifs at h

/-- rigor mode: every real point of the thin loup box lies in the initial box and has `f ≤ loup` -/
theorem witness_rigor {P : Problem} {R : Run} {res : Result} (h : witness P R res = .rigorBox) :
    R.rigor = true ∧ ∀ ρ, Box.Mem ρ res.lp →
      Box.Mem ρ P.box ∧ ∀ v, RealVal P.obj ρ v → ((v : ℝ) : EReal) ≤ res.loup.toE := by
  unfold witness at h
  split_ifs at h
  split at h
  · unfold witnessPoint at h
    split_ifs at h
  · unfold witnessBox at h
    split_ifs at h with h1 h2 h3
    exact ⟨by simpa using h1, fun ρ hρ => witRigor_sound h3 hρ⟩

/-- rigor mode, a REFUTED thin box (`pointOf res.lp = none`): a witness was due (`loup` below the initial loup) and the
    box is empty, or leaves the initial box, or some constraint is violated at EVERY real point of the box at which it is
    defined (equalities judged exactly: `epsH = 0`), or the model's enclosure of the objective on the box exceeds `loup`
    (`witBoxRefuted_sound` with `rigor := true`) -/
theorem witness_refuted_box {P : Problem} {R : Run} {res : Result} (hp : pointOf res.lp = none)
    (hr : R.rigor = true) (h : witness P R res = .refuted) :
    res.loup.toE < R.initLoup.toE ∧
    (Box.isEmpty res.lp = true ∨ Box.subset res.lp P.box = false ∨
      (∃ c ∈ P.ctrs, ∀ ρ, Box.Mem ρ res.lp → ∀ v, RealVal c.1 ρ v → ¬ SpecHolds (0 : ℝ) c.2 v) ∨
      (∃ lo hi, itvVal P.obj res.lp = some (.mk lo hi) ∧ Ext.le hi res.loup = false)) := by
  unfold witness at h
  split_ifs at h with hlt
  refine ⟨(Ext.lt_iff _ _).1 (by simpa using hlt), ?_⟩
  rw [hp] at h
  simp only [witnessBox, hr, Bool.not_true, Bool.false_eq_true, if_false] at h
  split_ifs at h with h2 h3
  simpa using witBoxRefuted_sound h2

/-- a REFUTED point witness: a witness was due, and either the exact checker refutes the point — then it is NOT a
    feasible real point with `f ≤ loup` (`witRefuted_sound`) — or the point lies outside the definition domain of the
    objective or of a constraint (`witUndefined`, a diagnosis of the interval model) -/
theorem witness_refuted_point {P : Problem} {R : Run} {res : Result} {p : List ℚ} (hp : pointOf res.lp = some p)
    (h : witness P R res = .refuted) :
    res.loup.toE < R.initLoup.toE ∧
    ((witRefuted P res.loup p = true ∧
        ¬ (Feasible P (castPt p) ∧ ∃ v, RealVal P.obj (castPt p) v ∧ ((v : ℝ) : EReal) ≤ res.loup.toE)) ∨
      witUndefined P res.lp = true) := by
  unfold witness at h
  split_ifs at h with hlt
  refine ⟨(Ext.lt_iff _ _).1 (by simpa using hlt), ?_⟩
  rw [hp] at h
  simp only [witnessPoint] at h
  split_ifs at h with h1 h2 h3 h4
  · exact Or.inl ⟨h2, witRefuted_sound h2⟩
  · exact Or.inr h3

/-- rigor mode: the witness is judged against the ORIGINAL problem (`witProblem`): a point returned in rigor mode satisfies
    every equality EXACTLY (`epsH = 0`), not within the relaxation `eps_h` -/
theorem witness_exact_rigor {P : Problem} {R : Run} {res : Result} (hr : R.rigor = true)
    (h : witness (witProblem P R) R res = .exact) :
    ∃ p, pointOf res.lp = some p ∧ Feasible { P with epsH := 0 } (castPt p) ∧
      ∃ v, RealVal P.obj (castPt p) v ∧ ((v : ℝ) : EReal) ≤ res.loup.toE := by
  have hP : witProblem P R = { P with epsH := 0 } := by simp [witProblem, hr]
  rw [hP] at h
  exact witness_exact h

/-- an accepted result has a verified witness as soon as `loup` is below the initial loup -/
theorem witness_due {P : Problem} {R : Run} {res : Result} {pts : List (List ℚ)}
    (h : resultOk P R res pts = true) (hl : res.loup.toE < R.initLoup.toE) :
    witness (witProblem P R) R res = .exact ∨ witness (witProblem P R) R res = .interval ∨ witness (witProblem P R) R res = .rigorBox := by
  simp only [resultOk, Bool.and_eq_true] at h
  have hw := h.2
  have hlt : Ext.lt res.loup R.initLoup = true := (Ext.lt_iff _ _).2 hl
  cases hwit : witness (witProblem P R) R res with
  | exact => exact Or.inl rfl
  | interval => exact Or.inr (Or.inl rfl)
  | rigorBox => exact Or.inr (Or.inr rfl)
  | undecided => rw [hwit] at hw; cases hw
  | refuted => rw [hwit] at hw; cases hw
  | none =>
    exfalso
    unfold witness at hwit
    rw [hlt] at hwit
    simp only [Bool.not_true, Bool.false_eq_true, if_false] at hwit
    split at hwit
    · unfold witnessPoint at hwit
      split_ifs at hwit
    · unfold witnessBox at hwit
      split_ifs at hwit

/-! ## status -/

/-- (c) SUCCESS ⇒ the precision test of the optimizer holds for the exact values of `uplo`, `loup`, and a
    verified witness is given -/
theorem success_precision {P : Problem} {R : Run} {res : Result} {pts : List (List ℚ)}
    (h : resultOk P R res pts = true) (hs : res.status = "SUCCESS") :
    Precision (R.relEps : ℝ) (R.absEps : ℝ) res.uplo res.loup ∧
      (witness (witProblem P R) R res = .exact ∨ witness (witProblem P R) R res = .interval ∨ witness (witProblem P R) R res = .rigorBox) := by
  have h' := h
  simp only [resultOk, Bool.and_eq_true] at h
  obtain ⟨hp, hl⟩ := statusOk_success h.1.1.1.2 hs
  exact ⟨hp, witness_due h' hl⟩

/-- (d) INFEASIBLE ⇒ no checked point is feasible with a defined objective value below the initial loup
    (`+∞` when none was given: `infeasible_no_point`); contrapositive: a planted feasible point makes the checker reject
    the verdict INFEASIBLE -/
theorem infeasible_sound {P : Problem} {R : Run} {res : Result} {pts : List (List ℚ)}
    (h : resultOk P R res pts = true) (hs : res.status = "INFEASIBLE") {p : List ℚ} (hp : p ∈ pts)
    (hf : feasQ P p = true) {v : ℚ} (hv : evalQ P.obj p = some v) :
    R.initLoup.toE ≤ (((v : ℚ) : ℝ) : EReal) := by
  simp only [resultOk, Bool.and_eq_true] at h
  exact infeasOk_sound h.1.2 hs hp hf hv

/-- without initial loup: an accepted verdict INFEASIBLE means that none of the checked points is feasible with a
    defined objective -/
theorem infeasible_no_point {P : Problem} {R : Run} {res : Result} {pts : List (List ℚ)}
    (h : resultOk P R res pts = true) (hs : res.status = "INFEASIBLE") (h0 : R.initLoup = .pinf) {p : List ℚ}
    (hp : p ∈ pts) (hf : feasQ P p = true) : evalQ P.obj p = none := by
  cases hv : evalQ P.obj p with
  | none => rfl
  | some v =>
    have := infeasible_sound h hs hp hf hv
    rw [h0] at this
    simp at this

/-- INFEASIBLE / NO_FEASIBLE_FOUND are only accepted when no loup below the initial bound is reported -/
theorem nofeasible_no_loup {P : Problem} {R : Run} {res : Result} {pts : List (List ℚ)}
    (h : resultOk P R res pts = true) (hs : res.status = "INFEASIBLE" ∨ res.status = "NO_FEASIBLE_FOUND") :
    res.loup = R.initLoup := by
  simp only [resultOk, Bool.and_eq_true] at h
  exact statusOk_nofeasible h.1.1.1.2 hs

theorem status_exhaustive {P : Problem} {R : Run} {res : Result} {pts : List (List ℚ)}
    (h : resultOk P R res pts = true) :
    res.status = "SUCCESS" ∨ res.status = "INFEASIBLE" ∨ res.status = "NO_FEASIBLE_FOUND" ∨
      res.status = "UNBOUNDED_OBJ" ∨ res.status = "TIME_OUT" ∨ res.status = "UNREACHED_PREC" := by
  simp only [resultOk, Bool.and_eq_true] at h
  exact statusOk_cases h.1.1.1.2

/-! ## the cover certificate: a lower bound that needs no known minimum -/

theorem mem_extPoint {ρ : List ℝ} {b : Box} (h : Box.Mem ρ b) (v : ℝ) : Box.Mem (ρ ++ [v]) (OptCover.extRoot b) := by
  unfold OptCover.extRoot Box.Mem
  refine List.rel_append h (List.Forall₂.cons ?_ List.Forall₂.nil)
  rw [Itv.mem_mk]
  simp

/-- **Lower bound from the log of the search.**  The real optimizer is run with logging wrappers around its buffer,
    bisector and contractor; if `OptCover.checkOk` accepts the log for the threshold `U` (the final `uplo`; the initial
    loup for the verdict INFEASIBLE) and every logged contraction keeps the extended points `(x, f(x))` of the feasible
    `x` (soundness of the contractor on the extended system: property C04), then EVERY feasible real point of the box
    has `U ≤ f(x)` — for any problem, without knowing its minimum. -/
theorem cover_lower_bound {P : Problem} {U : Ext} {log : List OptCover.Ev}
    (hacc : OptCover.checkOk P.box.length U (OptCover.extRoot P.box) log = true)
    (hleaf : ∀ i o, OptCover.Ev.ctc i o ∈ log → ∀ ρ v, Feasible P ρ → RealVal P.obj ρ v →
      Box.Mem (ρ ++ [v]) i → Box.Mem (ρ ++ [v]) o)
    {ρ : List ℝ} (hf : Feasible P ρ) {v : ℝ} (hv : RealVal P.obj ρ v) : U.toE ≤ ((v : ℝ) : EReal) := by
  by_contra hlt
  rw [not_le] at hlt
  let Sol : Set (List ℝ) := {p | ∃ ρ v, Feasible P ρ ∧ RealVal P.obj ρ v ∧ ((v : ℝ) : EReal) < U.toE ∧ p = ρ ++ [v]}
  have hSol : ∀ p ∈ Sol, OptCover.Below P.box.length U p := by
    rintro p ⟨ρ', v', hf', -, hlt', rfl⟩
    refine ⟨v', ?_, hlt'⟩
    rw [← hf'.1.length_eq]
    simp
  have hleaf' : ∀ i o, OptCover.Ev.ctc i o ∈ log → ∀ p ∈ Sol, Box.Mem p i → Box.Mem p o := by
    rintro i o hio p ⟨ρ', v', hf', hv', -, rfl⟩ hm
    exact hleaf i o hio ρ' v' hf' hv' hm
  exact OptCover.check_sound hSol hacc hleaf' (ρ ++ [v]) ⟨ρ, v, hf, hv, hlt, rfl⟩ (mem_extPoint hf.1 v)

/-! ## interrupted / saved / reloaded / resumed searches (optimizer half of C18) -/

theorem resumed_sound {P : Problem} {R : Run} {saved : List Saved} {res : Result} {pts : List (List ℚ)}
    (h : resumeOk P R saved res pts = true) :
    resultOk P R res pts = true ∧ (∀ s ∈ saved, res.loup.toE ≤ s.loup.toE) ∧
      ∀ s, saved.getLast? = some s → res.loup = s.loup → res.lp = s.lp := by
  simp only [resumeOk, Bool.and_eq_true] at h
  exact ⟨h.1, carriedOk_all h.2, fun s hs => (carriedOk_last h.2 s hs).2⟩

/-! ## non-vacuity -/

section Examples

def k (q : Rat) : Node := ⟨.const [Itv.point q], 1, 1⟩
def x0 : Node := ⟨.var 0, 1, 1⟩

/-- objective `(x-1)² + 2` : nodes 0 = x, 1 = 1, 2 = x-1, 3 = sqr, 4 = 2, 5 = sum -/
def objDag : Dag := #[x0, k 1, ⟨.bin "sub" 0 1, 1, 1⟩, ⟨.un "sqr" 2, 1, 1⟩, k 2, ⟨.bin "add" 3 4, 1, 1⟩]
/-- constraint `x - 2 ≤ 0` -/
def ctrDag : Dag := #[x0, k 2, ⟨.bin "sub" 0 1, 1, 1⟩]
/-- `q = x - 1` -/
def qDag : Dag := #[x0, k 1, ⟨.bin "sub" 0 1, 1, 1⟩]

def exP : Problem := ⟨([], objDag), [(([], ctrDag), "leq")], [.mk (.fin 0) (.fin 3)], 0⟩
def exR : Run := ⟨0, 1 / 1000, .pinf, false⟩
def pt (q : Rat) : Box := [.mk (.fin q) (.fin q)]
def exPts : List (List Rat) := [[1], [0], [3], [3 / 2]]

/-- a correct result is accepted: uplo = 1.9995, loup = f(65/64) rounded up, loup point 65/64 -/
def exRes : Result := ⟨"SUCCESS", .fin (3999 / 2000), .fin (8193 / 4096), pt (65 / 64)⟩
example : resultOk exP exR exRes exPts = true := by decide +kernel
example : witness exP exR exRes = .exact := by decide +kernel

/-- `uplo` above the minimum is rejected (the planted minimiser 1 refutes it) -/
example : resultOk exP exR { exRes with uplo := .fin (2001 / 1000), loup := .fin (8193 / 4096) } exPts = false := by
  decide +kernel
/-- SUCCESS without the precision is rejected -/
example : resultOk exP exR { exRes with uplo := .fin 1 } exPts = false := by decide +kernel
/-- a loup point outside the box, violating the constraint, or with `f > loup` is rejected -/
example : witness exP exR { exRes with lp := pt (-1 / 64) } = .refuted := by decide +kernel
example : witness exP exR { exRes with lp := pt (5 / 2), loup := .fin 5 } = .refuted := by decide +kernel
example : witness exP exR { exRes with loup := .fin 2 } = .refuted := by decide +kernel
/-- the refuting checkers are not vacuous: an enclosure `[1,2]` refutes `= 0` (rigor) and `≤ 0`, `[1/2,2]` does not refute
    `|·| ≤ 1`; in rigor mode a thin box on which `x - 2 ≤ 0` fails everywhere is refuted, one inside the feasible set with
    `f ≤ loup` is kept -/
example : specRefuted 0 true "eq" (.mk (.fin 1) (.fin 2)) = true := by decide +kernel
example : specRefuted 1 false "leq" (.mk (.fin 1) (.fin 2)) = true := by decide +kernel
example : specRefuted 1 false "eq" (.mk (.fin (1 / 2)) (.fin 2)) = false := by decide +kernel
example : witness exP { exR with rigor := true } { exRes with lp := [.mk (.fin (5 / 2)) (.fin (11 / 4))], loup := .fin 10 }
    = .refuted := by decide +kernel
example : witBoxRefuted exP true (.fin 10) [.mk (.fin (5 / 2)) (.fin (11 / 4))] = true := by decide +kernel
example : witness exP { exR with rigor := true } { exRes with lp := [.mk (.fin 1) (.fin (65 / 64))] } = .rigorBox := by
  decide +kernel
/-- INFEASIBLE on this feasible problem is rejected; NO_FEASIBLE_FOUND with a loup is rejected -/
example : resultOk exP exR ⟨"INFEASIBLE", .ninf, .pinf, [.mk (.fin 0) (.fin 3)]⟩ exPts = false := by decide +kernel
example : resultOk exP exR { exRes with status := "NO_FEASIBLE_FOUND" } exPts = false := by decide +kernel
/-- … and accepted on an infeasible one (`x - 2 ≤ 0` replaced by `x - 2 ≥ 0` on `[0,1]`) -/
example : resultOk ⟨([], objDag), [(([], ctrDag), "geq")], [.mk (.fin 0) (.fin 1)], 0⟩ exR
    ⟨"INFEASIBLE", .ninf, .pinf, [.mk (.fin 0) (.fin 1)]⟩ [[1], [0], [1 / 2]] = true := by decide +kernel

/-- the certificate `f ≡ 2 + 1·(x-1)²` is accepted, a wrong one (`c = 5/2`) is rejected -/
def exCert : Cert := ⟨2, [(1, ([], qDag))], []⟩
example : exCert.ok exP = true := by decide +kernel
example : ({ exCert with c := 5 / 2 } : Cert).ok exP = false := by decide +kernel
example : certLowerOk exP exCert exRes.uplo = true := by decide +kernel

/-- a certificate using the slack of a bound: on `[2,3]` the objective is `3 + (x-2)² + 2·(x-2)` -/
def exP2 : Problem := ⟨([], objDag), [], [.mk (.fin 2) (.fin 3)], 0⟩
def q2Dag : Dag := #[x0, k 2, ⟨.bin "sub" 0 1, 1, 1⟩]
example : (⟨3, [(1, ([], q2Dag))], [(2, .lo 0)]⟩ : Cert).ok exP2 = true := by decide +kernel
/-- … and the slack of the constraint: with `x - 2 ≤ 0`, `-x ≡ -2 + 1·(2 - x)` -/
def negDag : Dag := #[x0, ⟨.un "minus" 0, 1, 1⟩]
example : (⟨-2, [], [(1, .ctr 0)]⟩ : Cert).ok ⟨([], negDag), [(([], ctrDag), "leq")], [.mk (.fin 0) (.fin 3)], 0⟩ = true := by
  decide +kernel

theorem objDag_root (t : ℝ) : root Alg.real [t] (buildCalls Alg.real []) objDag =
    some (Mat.scalar ((t - 1) * (t - 1) + 2)) := by
  unfold root
  rw [run_eq]
  simp [objDag, x0, k, step, nodeVal, binVal, unVal, Mat.isScalar, Mat.mapM?, Mat.zip?, Alg.real, realOfItv,
    Itv.point, Mat.scalar]

theorem ctrDag_root (t : ℝ) : root Alg.real [t] (buildCalls Alg.real []) ctrDag = some (Mat.scalar (t - 2)) := by
  unfold root
  rw [run_eq]
  simp [ctrDag, x0, k, step, nodeVal, binVal, Mat.zip?, Alg.real, realOfItv, Itv.point, Mat.scalar]

/-- the universal theorem applies to every real `t ∈ [0,2]` and yields the expected inequality:
    its hypotheses are satisfiable and its conclusion is not vacuous -/
example (t : ℝ) (h0 : 0 ≤ t) (h2 : t ≤ 2) : (3999 / 2000 : ℝ) ≤ (t - 1) * (t - 1) + 2 := by
  have hf : Feasible exP [t] := by
    refine ⟨Box.mem_cons.2 ⟨?_, Box.mem_nil⟩, ?_⟩
    · rw [Itv.mem_mk]
      simp only [Ext.toE_fin, EReal.coe_le_coe_iff]
      constructor <;> push_cast <;> linarith
    · intro c hc
      simp only [exP, List.mem_singleton] at hc
      subst hc
      exact ⟨t - 2, ⟨_, ctrDag_root t, rfl⟩, Or.inl ⟨rfl, by linarith⟩⟩
  have := lower_bound_universal (P := exP) (C := exCert) (uplo := exRes.uplo) (by decide +kernel) hf
    (v := (t - 1) * (t - 1) + 2) ⟨_, objDag_root t, rfl⟩
  simp only [exRes, Ext.toE_fin, EReal.coe_le_coe_iff] at this
  push_cast at this
  linarith

/-- a cover log on extended boxes (x, y): root `[0,4] × ℝ` contracted to `[0,4] × [1,9]`, pushed, taken, bisected along x;
    the left half is contracted to `y ∈ [1,3]` and pushed back, the right half to `y ∈ [5,9]` and dropped (5 ≥ U = 1);
    at the end the remaining cell is dumped: accepted for `U = 1`, rejected for `U = 2` (the cell left has y ≥ 1 only) -/
def iv (a b : Int) : Itv := .mk (.fin a) (.fin b)
def R0 : Box := [iv 0 4, .mk .ninf .pinf]
def coverLog : List OptCover.Ev :=
  [.ctc R0 [iv 0 4, iv 1 9], .push [iv 0 4, iv 1 9], .top [iv 0 4, iv 1 9],
   .bis [iv 0 2, iv 1 9] [iv 2 4, iv 1 9], .pop [iv 0 4, iv 1 9],
   .ctc [iv 0 2, iv 1 9] [iv 0 2, iv 1 3], .push [iv 0 2, iv 1 3],
   .ctc [iv 2 4, iv 1 9] [iv 2 4, iv 5 9],
   .top [iv 0 2, iv 1 3], .pop [iv 0 2, iv 1 3]]
example : OptCover.checkOk 1 (.fin 1) R0 coverLog = true := by decide +kernel
example : OptCover.checkOk 1 (.fin 2) R0 coverLog = false := by decide +kernel
/-- a half that disappears without contraction is rejected; a push that cuts the goal domain below `U` is rejected -/
example : OptCover.checkOk 1 (.fin 1) R0
    [.ctc R0 [iv 0 4, iv 0 9], .push [iv 0 4, iv 0 9], .top [iv 0 4, iv 0 9],
     .bis [iv 0 2, iv 0 9] [iv 2 4, iv 0 9], .pop [iv 0 4, iv 0 9],
     .ctc [iv 0 2, iv 0 9] [iv 0 2, iv 1 3], .push [iv 0 2, iv 1 3],
     .top [iv 0 2, iv 1 3], .pop [iv 0 2, iv 1 3]] = false := by decide +kernel
example : OptCover.checkOk 1 (.fin 5) R0
    [.ctc R0 [iv 0 4, iv 1 9], .push [iv 0 4, iv 1 3]] = false := by decide +kernel
/-- the anticipated cut `y ≤ ymax` with `ymax ≥ U` is accepted -/
example : OptCover.checkOk 1 (.fin 3) R0
    [.ctc R0 [iv 0 4, iv 1 9], .push [iv 0 4, iv 1 3], .top [iv 0 4, iv 1 3], .pop [iv 0 4, iv 1 3]] = false := by
  decide +kernel
example : OptCover.checkOk 1 (.fin 1) R0
    [.ctc R0 [iv 0 4, iv 1 9], .push [iv 0 4, iv 1 3], .top [iv 0 4, iv 1 3], .pop [iv 0 4, iv 1 3]] = true := by
  decide +kernel

/-- resumed runs: a carried-over loup point is accepted, a changed point with the same loup is rejected,
    a loup above the saved one is rejected -/
example : resumeOk exP exR [⟨.fin 1, .fin (8193 / 4096), pt (65 / 64)⟩] exRes exPts = true := by decide +kernel
example : resumeOk exP exR [⟨.fin 1, .fin (8193 / 4096), pt (63 / 64)⟩] exRes exPts = false := by decide +kernel
example : resumeOk exP exR [⟨.fin 1, .fin 2, pt 1⟩] exRes exPts = false := by decide +kernel

end Examples

end Ibex.C07
