/-
  C05 — the search loop itself (`IbexModel/SearchLoop.lean`), not only the replay of its logs.

  `SearchLoop.run P fuel (St.init root)` is the loop of `Solver::next()`: pick the cell on top of the buffer,
  contract, remove it; delete it when the box is empty, otherwise store the box or bisect it and push the
  children; stop after `fuel` iterations (cell / time limit), the cells left in the buffer becoming pending
  boxes.  Contractor, decision and buffer order are parameters (`Policy`).

  * `loop_covers`: for EVERY policy whose contractor keeps the solutions (C04) and whose decisions cover the
    contracted box (C16 for the bisection), every fuel and every root, each solution inside the root is in a
    box of the returned paving — proved directly by an invariant, by induction over the iterations.
  * `loop_log_accepted`: the log emitted by every such run is accepted by `Cover.checkOk`, the certificate
    that judges the logs of the REAL solver at run time: the certificate never raises an alarm on the
    modelled algorithm, whatever the contractor, the bisector and the buffer order are.
  * `loop_covers_via_certificate`: the same conclusion as `loop_covers`, obtained through the certificate
    (`loop_log_accepted` + `C05.checkOk_sound`): the two layers agree.
  * `loop_success`: when the loop stops because the buffer is empty, the paving consists of stored boxes only.
  * `chain_covers`: any chain of interrupted / resumed runs, each stage with its own (fresh) policy and limit, loses no
    solution (the model-level counterpart of `C18resume.chain_sound`).
-/
import IbexProofs.SearchLoop
import IbexProofs.Props.C05

namespace Ibex.C05loop
open Ibex Ibex.SearchLoop

/-- **No solution is lost by the search loop**, whatever the policy, for any number of iterations. -/
theorem loop_covers (Sol : Set (List ℝ)) (P : Policy) (root : Box) (fuel : Nat)
    (hctc : ∀ x p, Box.Mem p x → p ∈ Sol → Box.Mem p (P.ctc x))
    (hact : ∀ o, Box.isEmpty o = false → actOk o (P.act o) = true) :
    ∀ p ∈ Sol, Box.Mem p root → ∃ b ∈ (run P fuel (St.init root)).paving.boxes, Box.Mem p b :=
  run_inv hctc hact fuel _ (init_covers root)

/-- **The certificate accepts every run of the modelled loop.** -/
theorem loop_log_accepted (cert : Box → Box × Box × List Nat → Bool) (P : Policy) (root : Box) (fuel : Nat)
    (hroot : Box.isEmpty root = false)
    (hsub : ∀ x, Box.subset (P.ctc x) x = true)
    (hact : ∀ o, Box.isEmpty o = false → actOk o (P.act o) = true) :
    Cover.checkOk cert (run P fuel (St.init root)).paving root (run P fuel (St.init root)).log = true := by
  obtain ⟨k, hk⟩ := run_check (cert := cert) root hroot hsub hact fuel
  obtain ⟨evs, _, hlog, _, _⟩ := run_sim (P := P) (cert := cert) (pv := (run P fuel (St.init root)).paving)
    hsub hact fuel (St.init root) ⟨0, [root], none, none, none, []⟩
    (fun t ht => by simp only [St.paving]; exact List.mem_append_left _ ht)
    ⟨⟨0, [root], none, none, none, []⟩, by simp [Cover.discharge], rfl, rfl, rfl⟩
  have hl : (run P fuel (St.init root)).log = Cover.Ev.push root :: evs := by rw [hlog]; rfl
  unfold Cover.checkOk
  rw [hl] at hk ⊢
  simp [hk]

/-- the conclusion of `loop_covers` through the certificate -/
theorem loop_covers_via_certificate (Sol : Set (List ℝ)) (P : Policy) (root : Box) (fuel : Nat)
    (hroot : Box.isEmpty root = false)
    (hsub : ∀ x, Box.subset (P.ctc x) x = true)
    (hctc : ∀ x p, Box.Mem p x → p ∈ Sol → Box.Mem p (P.ctc x))
    (hact : ∀ o, Box.isEmpty o = false → actOk o (P.act o) = true) :
    ∀ p ∈ Sol, Box.Mem p root → ∃ b ∈ (run P fuel (St.init root)).paving.boxes, Box.Mem p b := by
  have hacc := loop_log_accepted (fun _ _ => false) P root fuel hroot hsub hact
  refine C05.checkOk_sound Sol (fun _ _ => false) _ root _ hacc ?_ (by simp) (by simp [St.paving]) (by simp [St.paving])
  -- every contraction logged by the model is a call of the policy's contractor
  intro i o hmem p hp hpi
  have key : ∀ (fuel : Nat) (s : St), (∀ i o, Cover.Ev.ctc i o ∈ s.log → o = P.ctc i) →
      ∀ i o, Cover.Ev.ctc i o ∈ (run P fuel s).log → o = P.ctc i := by
    intro fuel
    induction fuel with
    | zero => intro s h; exact h
    | succ n ih =>
      intro s h
      unfold run
      split
      · exact h
      · rename_i s' hs
        apply ih s'
        obtain ⟨b, _, rfl⟩ := step_some hs
        intro i o hio
        unfold stepOn at hio
        have h3 : ∀ i o, Cover.Ev.ctc i o ∈ evs3 P b → o = P.ctc i := by
          intro i o hh
          simp only [evs3, List.mem_cons, List.not_mem_nil, or_false] at hh
          rcases hh with hh | hh | hh
          · cases hh
          · cases hh; rfl
          · cases hh
        split at hio
        · rcases List.mem_append.1 hio with hh | hh
          · exact h i o hh
          · exact h3 i o hh
        · split at hio
          · rcases List.mem_append.1 hio with hh | hh
            · exact h i o hh
            · exact h3 i o hh
          · rcases List.mem_append.1 hio with hh | hh
            · exact h i o hh
            · rcases List.mem_append.1 hh with hh | hh
              · exact h3 i o hh
              · simp only [List.mem_cons, List.not_mem_nil, or_false] at hh
                rcases hh with hh | hh <;> cases hh
  have ho := key fuel (St.init root) (by intro i o h; simp [St.init] at h) i o hmem
  subst ho
  exact hctc i p hpi hp

/-- when the loop stops with an empty buffer (status SUCCESS / NOT_ALL_VALIDATED), the paving is made of
    stored boxes only: nothing is pending -/
theorem loop_success (P : Policy) (s : St) (h : step P s = none) : s.paving.boxes = s.stored := by
  simp [St.paving, step_none h]

/-- every log of the model is loop-shaped: the tag `loop-shaped` that the driver attaches to the accepted REAL logs
    (`SearchLoop.loopShaped`: pushes of the roots, then iterations `top, ctc*, pop, (push, push)?`) is the shape of the model's
    own logs -/
theorem loop_log_shaped (P : Policy) (root : Box) (fuel : Nat) :
    loopShaped (run P fuel (St.init root)).log = true := run_loopShaped root fuel

/-! ### interrupted and resumed searches (C18): any chain of runs with fresh components -/

/-- a search interrupted any number of times: each stage continues from the buffer (pending boxes) and the stored boxes
    left by the previous one, with its OWN policy (fresh contractor, bisector, buffer) and its own limit -/
def chain (root : Box) (stages : List (Policy × Nat)) : St :=
  stages.foldl (fun s pf => run pf.1 pf.2 s) (St.init root)

/-- **No solution is lost across interruptions**: after any chain of interrupted / resumed runs, whatever the policies of
    the stages are (each sound in the sense of `loop_covers`), every solution of the root is in the final paving. -/
theorem chain_covers (Sol : Set (List ℝ)) (root : Box) (stages : List (Policy × Nat))
    (hctc : ∀ pf ∈ stages, ∀ x p, Box.Mem p x → p ∈ Sol → Box.Mem p (pf.1.ctc x))
    (hact : ∀ pf ∈ stages, ∀ o, Box.isEmpty o = false → actOk o (pf.1.act o) = true) :
    ∀ p ∈ Sol, Box.Mem p root → ∃ b ∈ (chain root stages).paving.boxes, Box.Mem p b := by
  have key : ∀ (stages : List (Policy × Nat)) (s : St),
      (∀ pf ∈ stages, ∀ x p, Box.Mem p x → p ∈ Sol → Box.Mem p (pf.1.ctc x)) →
      (∀ pf ∈ stages, ∀ o, Box.isEmpty o = false → actOk o (pf.1.act o) = true) →
      Covers Sol root s → Covers Sol root (stages.foldl (fun s pf => run pf.1 pf.2 s) s) := by
    intro stages
    induction stages with
    | nil => intro s _ _ h; exact h
    | cons pf rest ih =>
      intro s h1 h2 h
      simp only [List.foldl_cons]
      exact ih _ (fun q hq => h1 q (List.mem_cons_of_mem _ hq)) (fun q hq => h2 q (List.mem_cons_of_mem _ hq))
        (run_inv (h1 pf List.mem_cons_self) (h2 pf List.mem_cons_self) pf.2 s h)
  exact key stages _ hctc hact (init_covers root)

/-! ### the hypotheses are satisfiable: a concrete run, evaluated by the kernel -/

def iv (a b : Int) : Itv := .mk (.fin a) (.fin b)

/-- 1-D toy policy on integer boxes: the contractor cuts everything above 3 (as `x ≤ 3` would), a box of
    width ≤ 1 is stored, a wider one is bisected at an integer point; cells are taken from the END of the
    buffer (depth first) -/
def toy : Policy where
  ctc := fun b => match b with
    | [.mk lo (.fin h)] => if h > 3 then (if Ext.le lo (.fin 3) then [.mk lo (.fin 3)] else [.empty]) else b
    | _ => b
  act := fun b => match b with
    | [.mk (.fin l) (.fin h)] => if h - l ≤ 1 then .store b else
        let m : Rat := ((l + h) / 2 : Rat).floor
        .split [.mk (.fin l) (.fin m)] [.mk (.fin m) (.fin h)]
    | _ => .store b
  pick := fun l => l.length - 1

example : (run toy 100 (St.init [iv 0 8])).stored.length = 3 ∧ (run toy 100 (St.init [iv 0 8])).buffer = [] := by
  decide +kernel
example : Cover.checkOk (fun _ _ => false) (run toy 100 (St.init [iv 0 8])).paving [iv 0 8]
    (run toy 100 (St.init [iv 0 8])).log = true := by decide +kernel
/-- interrupted after two iterations: the cells left in the buffer are pending boxes and the log is accepted -/
example : (run toy 2 (St.init [iv 0 8])).buffer.length = 3 ∧
    Cover.checkOk (fun _ _ => false) (run toy 2 (St.init [iv 0 8])).paving [iv 0 8]
      (run toy 2 (St.init [iv 0 8])).log = true := by decide +kernel
/-- a policy that drops a child is rejected by the certificate (the hypothesis `actOk` matters) -/
example : Cover.checkOk (fun _ _ => false) ⟨[[iv 0 1]], []⟩ [iv 0 2]
    [.push [iv 0 2], .top [iv 0 2], .ctc [iv 0 2] [iv 0 2], .pop [iv 0 2], .push [iv 0 1], .push [iv 0 1],
     .top [iv 0 1], .ctc [iv 0 1] [iv 0 1], .pop [iv 0 1], .top [iv 0 1], .ctc [iv 0 1] [iv 0 1], .pop [iv 0 1]]
    = false := by decide +kernel

end Ibex.C05loop
