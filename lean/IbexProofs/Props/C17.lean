/-
  C17 — cell buffers behave as priority multisets over every operation history.

  `checkTrace cfg evs` is what the driver evaluates on a history `evs` logged from the REAL C++
  buffer (`CellStack`, `CellList`, `CellHeap`, `Heap<T>`, `SharedHeap<T>`, `DoubleHeap<T>`,
  `CellDoubleHeap`, `CellBeamSearch`): every event carries the operation and what the implementation
  answered (the cell it handed out, the minimum it reported, the cells whose destructor ran …).
  `after cfg pre` is the abstract multiset (`Spec.run`) after the logged prefix `pre`.

  Every theorem below has the form  `checkTrace cfg (pre ++ e :: post) = true → P (after cfg pre) e`:
  whenever the checker accepts a history — of ANY length, with any costs (ties, ±∞) — each of its
  answers satisfies the property in the multiset state reached at that moment.  Orders are stated in
  `EReal` through `Ext.toE` (the exact value of the logged double).
-/
import IbexProofs.Buffers

namespace Ibex.C17
open Ibex Ibex.Buffers

/-- abstract buffer content after the logged prefix `pre` -/
abbrev after (cfg : Config) (pre : List Event) : State := Spec.run cfg (init cfg) pre

/-! ## (i) no cell is lost, duplicated or handed out twice -/

/-- an accepted history stays accepted when cut anywhere: everything below holds at every prefix -/
theorem every_prefix_accepted {cfg : Config} {pre post : List Event}
    (h : checkTrace cfg (pre ++ post) = true) : checkTrace cfg pre = true :=
  checkTrace_prefix h

/-- **conservation**: at the end of an accepted history (hence at every prefix), the stored cells,
    the cells handed out by `pop`, the cells destroyed by `contract`/`flush` (observed destructor
    calls) and the cells erased are, together, exactly the cells pushed — as multisets of ids — and
    no id was pushed twice.  So nothing is lost, nothing is duplicated. -/
theorem no_loss_no_dup {cfg : Config} {evs : List Event} (h : checkTrace cfg evs = true) :
    (ids (after cfg evs).cells ++ handedOut evs ++ destroyed evs ++ erased evs).Perm (pushedIds evs)
      ∧ (pushedIds evs).Nodup := by
  have hc := conservation_from (inv_init cfg) h
  have hn := pushed_nodup_from (inv_init cfg) h
  simp only [init, ids, List.map_nil, List.nil_append, Multiset.coe_nil, zero_add] at hc hn
  refine ⟨?_, hn⟩
  rw [← Multiset.coe_eq_coe, ← hc]
  simp [ids, after, init]

/-- the same as a subtraction: stored = pushed − handed out − destroyed − erased -/
theorem stored_eq_pushed_minus_removed {cfg : Config} {evs : List Event} (h : checkTrace cfg evs = true) :
    (ids (after cfg evs).cells : Multiset Nat)
      = (pushedIds evs : Multiset Nat) - (handedOut evs : Multiset Nat) - (destroyed evs : Multiset Nat)
          - (erased evs : Multiset Nat) := by
  have hc := conservation_from (inv_init cfg) h
  have h0 : ((ids (init cfg).cells : List Nat) : Multiset Nat) = 0 := rfl
  rw [h0, zero_add] at hc
  have hc' : (pushedIds evs : Multiset Nat) = (ids (after cfg evs).cells : Multiset Nat)
      + ((handedOut evs : Multiset Nat) + ((destroyed evs : Multiset Nat) + (erased evs : Multiset Nat))) := by
    rw [← hc]; abel
  rw [hc', tsub_tsub, tsub_tsub, add_tsub_cancel_right]

/-- no cell is handed out twice, destroyed twice, or both handed out and destroyed / still stored -/
theorem never_handed_out_twice {cfg : Config} {evs : List Event} (h : checkTrace cfg evs = true) :
    (ids (after cfg evs).cells ++ handedOut evs ++ destroyed evs ++ erased evs).Nodup :=
  let ⟨hp, hn⟩ := no_loss_no_dup h
  hp.nodup_iff.mpr hn

/-- every popped cell was pushed before, is still stored at that moment, and was neither handed
    out, destroyed nor erased before -/
theorem popped_was_pushed_and_not_removed {cfg : Config} {pre post : List Event} {sel w id : Nat}
    {mv : List Nat} (h : checkTrace cfg (pre ++ .pop sel w id mv :: post) = true) :
    id ∈ ids (after cfg pre).cells ∧ id ∈ pushedIds pre ∧ id ∉ handedOut pre ∧ id ∉ destroyed pre
      ∧ id ∉ erased pre := by
  obtain ⟨_, hc⟩ := accepted_at h
  simp only [check, Bool.and_eq_true] at hc
  have hm : id ∈ ids (after cfg pre).cells := frontOk_mem hc.1.2
  have hpre := every_prefix_accepted h
  have ⟨hp, _⟩ := no_loss_no_dup hpre
  have hnd := never_handed_out_twice hpre
  refine ⟨hm, hp.subset (by simp [hm]), ?_, ?_, ?_⟩
  · intro hx
    rw [List.append_assoc, List.append_assoc] at hnd
    exact (List.nodup_append.mp hnd).2.2 id hm id (by simp [hx]) rfl
  · intro hx
    rw [List.append_assoc, List.append_assoc] at hnd
    exact (List.nodup_append.mp hnd).2.2 id hm id (by simp [hx]) rfl
  · intro hx
    rw [List.append_assoc, List.append_assoc] at hnd
    exact (List.nodup_append.mp hnd).2.2 id hm id (by simp [hx]) rfl

/-! ## (ii) pop / top return a cell of minimal cost for the criterion in force -/

/-- `Heap<T>`, `CellHeap`, `SharedHeap<T>`, `DoubleHeap<T>`, `CellDoubleHeap`: the popped cell is
    stored and its cost for the criterion `w` of the heap the implementation used (`w = 0`: first,
    `w = 1`: second; a single heap only has `w = 0`) is `≤` the cost of every stored cell.
    Both heaps of a double heap are judged against the SAME multiset of stored cells. -/
theorem pop_minimal {cfg : Config} {pre post : List Event} {sel w id : Nat} {mv : List Nat}
    (hk : cfg.kind = .heap ∨ cfg.kind = .dheap)
    (h : checkTrace cfg (pre ++ .pop sel w id mv :: post) = true) :
    (w = 0 ∨ w = 1) ∧ (cfg.kind = .heap → w = 0) ∧
    ∃ c ∈ (after cfg pre).cells, c.id = id ∧
      ∀ d ∈ (after cfg pre).cells, (cost w c).toE ≤ (cost w d).toE := by
  obtain ⟨hi, hc⟩ := accepted_at h
  simp only [check, Bool.and_eq_true] at hc
  obtain ⟨hw, hw0⟩ := selOk_which hc.1.1
  obtain ⟨c, hcm, hid, hmin⟩ := frontOk_global hi hk hc.1.2
  exact ⟨hw, fun hh => (hw0 (by simp [hh])).1, c, hcm, hid,
    fun d hd => (Ext.le_iff _ _).mp (hmin d hd)⟩

theorem top_minimal {cfg : Config} {pre post : List Event} {sel w id : Nat}
    (hk : cfg.kind = .heap ∨ cfg.kind = .dheap)
    (h : checkTrace cfg (pre ++ .top sel w id :: post) = true) :
    (w = 0 ∨ w = 1) ∧ (cfg.kind = .heap → w = 0) ∧
    ∃ c ∈ (after cfg pre).cells, c.id = id ∧
      ∀ d ∈ (after cfg pre).cells, (cost w c).toE ≤ (cost w d).toE := by
  obtain ⟨hi, hc⟩ := accepted_at h
  simp only [check, Bool.and_eq_true] at hc
  obtain ⟨hw, hw0⟩ := selOk_which hc.1
  obtain ⟨c, hcm, hid, hmin⟩ := frontOk_global hi hk hc.2
  exact ⟨hw, fun hh => (hw0 (by simp [hh])).1, c, hcm, hid,
    fun d hd => (Ext.le_iff _ _).mp (hmin d hd)⟩

/-- `pop1()` / `pop2()` of a double heap use the first / the second criterion -/
theorem pop_selected_heap {cfg : Config} {pre post : List Event} {sel w id : Nat} {mv : List Nat}
    (hk : cfg.kind = .dheap) (h : checkTrace cfg (pre ++ .pop sel w id mv :: post) = true) :
    (sel = 1 → w = 0) ∧ (sel = 2 → w = 1) := by
  obtain ⟨_, hc⟩ := accepted_at h
  simp only [check, Bool.and_eq_true] at hc
  have := hc.1.1
  unfold selOk at this
  simp only [hk] at this
  constructor
  · intro hs; subst hs; simpa using this
  · intro hs; subst hs; simpa using this

/-- `critpr = 0`: a double heap serves every `pop()` from its first heap (unless `top2()` was
    called explicitly before, which selects the second heap until the next pop) -/
theorem critpr_zero_first_heap_only {cfg : Config} {pre post : List Event} {w id : Nat} {mv : List Nat}
    (hk : cfg.kind = .dheap) (h0 : cfg.critpr = 0)
    (hnotop2 : ∀ e ∈ pre, ∀ w' i, e ≠ .top 2 w' i)
    (h : checkTrace cfg (pre ++ .pop 0 w id mv :: post) = true) : w = 0 := by
  obtain ⟨_, hc⟩ := accepted_at h
  simp only [check, Bool.and_eq_true] at hc
  have hsel := hc.1.1
  have hcur : ∀ (l : List Event) (s : State), go cfg s l = true → s.cur = 0 →
      (∀ e ∈ l, ∀ w' i, e ≠ .top 2 w' i) → (Spec.run cfg s l).cur = 0 := by
    intro l
    induction l with
    | nil => intro s _ hs _; exact hs
    | cons e es ih =>
      intro s hg hs hne
      rw [go_cons] at hg
      apply ih _ hg.2
      · cases e with
        | top a b c =>
          have hck := hg.1
          simp only [check, Bool.and_eq_true] at hck
          have hso := hck.1
          unfold selOk at hso
          simp only [hk, hs] at hso
          simp only [Spec.step, hk, beq_self_eq_true, if_true]
          split at hso
          · simp only [Bool.and_eq_true, Bool.or_eq_true, beq_iff_eq] at hso
            rcases hso.1 with h' | h'
            · cases h'
            · exact h'.symm
          · simpa using hso
          · exact absurd rfl (hne _ List.mem_cons_self b c)
          · cases hso
        | pop a b c d => simp [Spec.step, curAfterPop, hk, h0]
        | _ => simpa [Spec.step] using hs
      · intro e' he'; exact hne e' (List.mem_cons_of_mem _ he')
  have hpre : go cfg (init cfg) pre = true := every_prefix_accepted h
  have h1 : (after cfg pre).cur = 0 := hcur pre (init cfg) hpre (by simp [init, hk, h0]) hnotop2
  unfold selOk at hsel
  simp only [hk, h1] at hsel
  simp only [Bool.and_eq_true, Bool.or_eq_true, beq_iff_eq] at hsel
  rcases hsel.1 with h | h
  · cases h
  · exact h.symm

/-- `CellBeamSearch`: the popped cell comes from the sub-buffer that has priority (current, else
    future, else the global heap) and has minimal cost among the cells of that sub-buffer -/
theorem beam_pop_minimal {cfg : Config} {pre post : List Event} {sel w id : Nat} {mv : List Nat}
    (hk : cfg.kind = .beam) (h : checkTrace cfg (pre ++ .pop sel w id mv :: post) = true) :
    w = 0 ∧ ∃ c ∈ (after cfg pre).cells, c.id = id ∧ c.tag = src cfg (after cfg pre).cells ∧
      ∀ d ∈ (after cfg pre).cells, d.tag = c.tag → c.c1.toE ≤ d.c1.toE := by
  obtain ⟨_, hc⟩ := accepted_at h
  simp only [check, Bool.and_eq_true] at hc
  obtain ⟨_, hw0⟩ := selOk_which hc.1.1
  have hw : w = 0 := (hw0 (by simp [hk])).1
  obtain ⟨c, hcm, hid, htag, hmin⟩ := frontOk_heap (Or.inr (Or.inr hk)) hc.1.2
  refine ⟨hw, c, hcm, hid, htag, fun d hd hdt => ?_⟩
  have := (Ext.le_iff _ _).mp (hmin d hd (hdt.trans htag))
  simpa [cost, hw] using this

/-- `CellStack`: pop returns the most recently pushed stored cell (ids grow with push time) -/
theorem stack_lifo {cfg : Config} {pre post : List Event} {sel w id : Nat} {mv : List Nat}
    (hk : cfg.kind = .stack) (h : checkTrace cfg (pre ++ .pop sel w id mv :: post) = true) :
    id ∈ ids (after cfg pre).cells ∧ ∀ j ∈ ids (after cfg pre).cells, j ≤ id := by
  obtain ⟨hi, hc⟩ := accepted_at h
  simp only [check, Bool.and_eq_true] at hc
  exact frontOk_stack hi hk hc.1.2

/-- `CellList`: pop returns the oldest stored cell -/
theorem list_fifo {cfg : Config} {pre post : List Event} {sel w id : Nat} {mv : List Nat}
    (hk : cfg.kind = .list) (h : checkTrace cfg (pre ++ .pop sel w id mv :: post) = true) :
    id ∈ ids (after cfg pre).cells ∧ ∀ j ∈ ids (after cfg pre).cells, id ≤ j := by
  obtain ⟨hi, hc⟩ := accepted_at h
  simp only [check, Bool.and_eq_true] at hc
  exact frontOk_list hi hk hc.1.2

/-- push order really is id order: every pushed id is the next fresh one -/
theorem pushed_ids_increase {cfg : Config} {evs : List Event} (h : checkTrace cfg evs = true) :
    (pushedIds evs).Pairwise (· < ·) :=
  (pushed_sorted_from h).1

/-! ## (iii) `minimum` is the least cost among ALL stored cells -/

theorem minimum_least {cfg : Config} {pre post : List Event} {k : Nat} {v : Ext}
    (h : checkTrace cfg (pre ++ .minimum k v :: post) = true) :
    (∃ c ∈ (after cfg pre).cells, cost k c = v) ∧
      ∀ d ∈ (after cfg pre).cells, v.toE ≤ (cost k d).toE := by
  obtain ⟨_, hc⟩ := accepted_at h
  obtain ⟨h1, h2⟩ := minimum_sound hc
  exact ⟨h1, fun d hd => (Ext.le_iff _ _).mp (h2 d hd)⟩

/-- buffers whose first criterion is the objective lower bound (`CellHeap`, `CellDoubleHeap`,
    `CellBeamSearch`): `minimum()` is the smallest objective lower bound among the stored cells.
    For the beam search the stored cells are those of all three internal heaps (any `tag`). -/
theorem minimum_is_least_lower_bound {cfg : Config} {pre post : List Event} {v : Ext}
    (hl : cfg.lbFirst = true) (h : checkTrace cfg (pre ++ .minimum 0 v :: post) = true) :
    (∃ c ∈ (after cfg pre).cells, c.lb = v) ∧ ∀ d ∈ (after cfg pre).cells, v.toE ≤ d.lb.toE := by
  obtain ⟨hi, _⟩ := accepted_at h
  obtain ⟨⟨c, hc, hcv⟩, h2⟩ := minimum_least h
  refine ⟨⟨c, hc, ?_⟩, fun d hd => ?_⟩
  · rw [← hi.lbs hl c hc]; simpa [cost] using hcv
  · have := h2 d hd
    rw [← hi.lbs hl d hd]; simpa [cost] using this

/-- beam search: the reported minimum is not above the cost of any cell of any of the three
    internal heaps (`tag` = 0 future, 1 current, 2 global) -/
theorem beam_minimum_all {cfg : Config} {pre post : List Event} {v : Ext}
    (_hk : cfg.kind = .beam) (h : checkTrace cfg (pre ++ .minimum 0 v :: post) = true) :
    ∀ t : Nat, ∀ d ∈ (after cfg pre).cells, d.tag = t → v.toE ≤ d.c1.toE := by
  intro t d hd _
  have := (minimum_least h).2 d hd
  simpa [cost] using this

/-! ## (iv) `contract v` removes exactly the cells whose (first) cost exceeds `v` -/

/-- the cells whose destructor ran are exactly the stored cells with cost `> v` (strictly), the
    cells that remain are exactly those with cost `≤ v`; the spec state after the contraction is the
    filtered multiset -/
theorem contract_exact {cfg : Config} {pre post : List Event} {v : Ext} {del : List Nat}
    (h : checkTrace cfg (pre ++ .contract v del :: post) = true) :
    (∀ c ∈ (after cfg pre).cells, (c.id ∈ del ↔ v.toE < c.c1.toE)) ∧
    (∀ c ∈ (after cfg pre).cells,
        (c.id ∈ ids (after cfg (pre ++ [.contract v del])).cells ↔ c.c1.toE ≤ v.toE)) ∧
    (after cfg (pre ++ [.contract v del])).cells
        = (after cfg pre).cells.filter (fun c => Ext.le c.c1 v) ∧
    del.Nodup := by
  obtain ⟨hi, hc⟩ := accepted_at h
  obtain ⟨hdel, h1, h2⟩ := contract_sound hi hc
  refine ⟨fun c hcm => ?_, fun c hcm => ?_, ?_, ?_⟩
  · rw [h1 c hcm, ext_not_le]
  · have := h2 c hcm
    rw [← Ext.le_iff, ← this]
    simp [after, run_append, Spec.run]
  · simp [after, run_append, Spec.run, Spec.step]
  · rw [hdel]; exact hi.nodup.sublist (ids_filter_sublist _ _)

theorem flush_empties {cfg : Config} {pre post : List Event} {del : List Nat}
    (h : checkTrace cfg (pre ++ .flush del :: post) = true) :
    del = ids (after cfg pre).cells ∧ (after cfg (pre ++ [.flush del])).cells = [] := by
  obtain ⟨_, hc⟩ := accepted_at h
  obtain ⟨h1, _⟩ := flush_sound hc
  exact ⟨h1, by simp [after, run_append, Spec.run, Spec.step]⟩

theorem size_agrees {cfg : Config} {pre post : List Event} {n : Nat}
    (h : checkTrace cfg (pre ++ .size n :: post) = true) : n = (after cfg pre).cells.length := by
  obtain ⟨_, hc⟩ := accepted_at h
  simpa [check] using hc

theorem empty_agrees {cfg : Config} {pre post : List Event} {b : Bool}
    (h : checkTrace cfg (pre ++ .empty b :: post) = true) : (b = true ↔ (after cfg pre).cells = []) := by
  obtain ⟨_, hc⟩ := accepted_at h
  simp only [check, beq_iff_eq] at hc
  rw [hc]; simp

/-- a push is refused (`CellBufferOverflow`) exactly when a bounded stack / list is full -/
theorem push_refused_iff_full {cfg : Config} {pre post : List Event} {c : Cell} {stored : Bool}
    (h : checkTrace cfg (pre ++ .push c stored :: post) = true) :
    (stored = false ↔ (cfg.kind = .stack ∨ cfg.kind = .list) ∧ 0 < cfg.capacity
        ∧ (after cfg pre).cells.length = cfg.capacity) := by
  obtain ⟨_, hc⟩ := accepted_at h
  simp only [check, Bool.and_eq_true, beq_iff_eq] at hc
  rw [hc.2]
  simp only [full, Bool.not_eq_eq_eq_not, Bool.not_false, Bool.and_eq_true, Bool.or_eq_true, beq_iff_eq,
    decide_eq_true_eq, and_assoc]

/-! ## the two heaps of a double heap hold the same cells; internal heap order -/

/-- the cells found by walking the first and the second internal heap are the stored cells -/
theorem double_heap_same_cells {cfg : Config} {pre post : List Event} {h1 h2 : List Nat}
    (h : checkTrace cfg (pre ++ .heaps h1 h2 :: post) = true) :
    h1 = h2 ∧ h1 = ids (after cfg pre).cells := by
  obtain ⟨_, hc⟩ := accepted_at h
  simp only [check, Bool.and_eq_true, beq_iff_eq] at hc
  exact ⟨hc.1.2.trans hc.2.symm, hc.1.2⟩

/-- an accepted level-order dump of an internal binary heap is a permutation of the stored cells
    whose root has minimal cost: the next `pop` through that heap is an admissible one -/
theorem internal_heap_root_minimal {cfg : Config} {pre post : List Event} {k : Nat} {o : List Nat}
    (h : checkTrace cfg (pre ++ .tree k o :: post) = true) :
    o.Perm (ids (after cfg pre).cells) ∧
      ∀ r, o.head? = some r → ∃ c ∈ (after cfg pre).cells, c.id = r ∧
        ∀ d ∈ (after cfg pre).cells, (cost k c).toE ≤ (cost k d).toE := by
  obtain ⟨hi, hc⟩ := accepted_at h
  obtain ⟨hp, hr⟩ := tree_sound hi hc
  refine ⟨hp, fun r hro => ?_⟩
  have hrm : r ∈ ids (after cfg pre).cells := hp.subset (List.mem_of_mem_head? hro)
  obtain ⟨c, hcm, hcr⟩ := mem_ids.mp hrm
  refine ⟨c, hcm, hcr, fun d hd => ?_⟩
  have := hr r hro d hd
  rw [← hcr, costOf_mem hi.nodup hcm] at this
  exact (Ext.le_iff _ _).mp this

/-! ## the specification itself is a priority queue -/

/-- popping any accepted sequence `l` out of a heap state yields non-decreasing costs, and `l`
    together with what remains is exactly the stored multiset -/
theorem spec_drain_sorted {cfg : Config} {s : State} (hi : Inv cfg s) (hk : cfg.kind = .heap)
    (l : List Nat) (h : go cfg s (popAll l) = true) :
    (l.map (costOf 0 s.cells)).Pairwise (fun a b => a.toE ≤ b.toE) ∧
      (ids (Spec.run cfg s (popAll l)).cells ++ l).Perm (ids s.cells) := by
  obtain ⟨h1, h2⟩ := drain_sorted hi hk l h
  exact ⟨h1.imp (fun h => (Ext.le_iff _ _).mp h), h2⟩

/-- … and such a complete drain exists from every state: the spec never blocks and loses nothing -/
theorem spec_drain_exists {cfg : Config} {s : State} (hi : Inv cfg s) (hk : cfg.kind = .heap) :
    ∃ l : List Nat, go cfg s (popAll l) = true ∧ l.Perm (ids s.cells)
      ∧ (l.map (costOf 0 s.cells)).Pairwise (fun a b => a.toE ≤ b.toE) := by
  obtain ⟨l, _, hgo, hnil⟩ := exists_drain hk s.cells.length s hi rfl
  obtain ⟨h1, h2⟩ := spec_drain_sorted hi hk l hgo
  rw [hnil] at h2
  exact ⟨l, hgo, by simpa [ids] using h2, h1⟩

/-! ## non-vacuity: concrete histories -/

section Examples
private def c (i : Nat) (a b : Ext) : Cell := { id := i, c1 := a, c2 := b, lb := a, tag := 0 }
private def hp : Config := { kind := .heap, lbFirst := true }
private def dh : Config := { kind := .dheap, critpr := 50, lbFirst := true }
private def bm : Config := { kind := .beam, beam := 2, lbFirst := true }

/-- a heap history with a tie, ±∞, a strict contraction and a flush is accepted -/
example : checkTrace hp
    [.push (c 0 (.fin 2) (.fin 2)) true, .push (c 1 (.fin 1) (.fin 1)) true, .push (c 2 (.fin 1) (.fin 1)) true,
     .push (c 3 .pinf .pinf) true, .push (c 4 .ninf .ninf) true, .size 5, .minimum 0 .ninf, .top 0 0 4,
     .pop 0 0 4 [], .tree 0 [2, 0, 1, 3], .pop 0 0 2 [], .minimum 0 (.fin 1), .contract (.fin 1) [0, 3], .size 1,
     .pop 0 0 1 [], .empty true, .push (c 5 (.fin 0) (.fin 0)) true, .flush [5], .size 0] = true := by
  decide +kernel

/-- popping a cell that is not minimal is rejected -/
example : checkTrace hp
    [.push (c 0 (.fin 2) (.fin 2)) true, .push (c 1 (.fin 1) (.fin 1)) true, .pop 0 0 0 []] = false := by
  decide +kernel
/-- handing the same cell out twice is rejected -/
example : checkTrace hp
    [.push (c 0 (.fin 2) (.fin 2)) true, .push (c 1 (.fin 2) (.fin 2)) true, .pop 0 0 0 [], .pop 0 0 0 []] = false := by
  decide +kernel
/-- a stale minimum is rejected -/
example : checkTrace hp
    [.push (c 0 (.fin 2) (.fin 2)) true, .push (c 1 (.fin 1) (.fin 1)) true, .pop 0 0 1 [], .minimum 0 (.fin 1)] = false := by
  decide +kernel
/-- a contraction that also removes the cells of cost `= v` (`>=` instead of `>`) is rejected -/
example : checkTrace hp
    [.push (c 0 (.fin 2) (.fin 2)) true, .push (c 1 (.fin 1) (.fin 1)) true, .contract (.fin 1) [0, 1]] = false := by
  decide +kernel
/-- a violated internal heap order is rejected -/
example : checkTrace hp
    [.push (c 0 (.fin 2) (.fin 2)) true, .push (c 1 (.fin 1) (.fin 1)) true, .tree 0 [0, 1]] = false := by
  decide +kernel

/-- double heap: pops through either heap, costs re-evaluated after a contraction -/
example : checkTrace dh
    [.push (c 0 (.fin 1) (.fin 9)) true, .push (c 1 (.fin 2) (.fin 5)) true, .push (c 2 (.fin 3) (.fin 7)) true,
     .heaps [0, 1, 2] [0, 1, 2], .top 1 0 0, .top 2 1 1, .pop 0 1 1 [], .minimum 1 (.fin 7),
     .contract (.fin 2) [2], .recost 1 [(0, .fin 4)], .minimum 1 (.fin 4), .pop 2 1 0 [], .empty true] = true := by
  decide +kernel
/-- … a cell popped through the second heap that is only minimal for the first criterion is rejected -/
example : checkTrace dh
    [.push (c 0 (.fin 1) (.fin 9)) true, .push (c 1 (.fin 2) (.fin 5)) true, .pop 2 1 0 []] = false := by
  decide +kernel

/-- beam search (beam size 2): the best remaining future cell moves to the current buffer, the
    minimum ranges over the three heaps -/
example : checkTrace bm
    [.push (c 0 (.fin 5) (.fin 5)) true, .push (c 1 (.fin 1) (.fin 1)) true, .push (c 2 (.fin 3) (.fin 3)) true,
     .pop 0 0 1 [2], .push (c 3 (.fin 4) (.fin 4)) true, .minimum 0 (.fin 3), .pop 0 0 2 [],
     .minimum 0 (.fin 4), .pop 0 0 3 [], .minimum 0 (.fin 5), .pop 0 0 0 [], .empty true] = true := by
  decide +kernel
/-- … a minimum that forgets the global heap is rejected -/
example : checkTrace bm
    [.push (c 0 (.fin 1) (.fin 1)) true, .push (c 1 (.fin 0) (.fin 0)) true, .push (c 2 (.fin 3) (.fin 3)) true,
     .pop 0 0 1 [0], .push (c 3 (.fin 4) (.fin 4)) true, .pop 0 0 0 [], .push (c 4 (.fin 9) (.fin 9)) true,
     .minimum 0 (.fin 9)] = false := by
  decide +kernel

/-- stack and list orders -/
example : checkTrace { kind := .stack, capacity := 2 }
    [.push (c 0 (.fin 1) (.fin 1)) true, .push (c 1 (.fin 0) (.fin 0)) true, .push (c 2 (.fin 0) (.fin 0)) false,
     .pop 0 0 1 [], .pop 0 0 0 []] = true := by decide +kernel
example : checkTrace { kind := .list }
    [.push (c 0 (.fin 1) (.fin 1)) true, .push (c 1 (.fin 0) (.fin 0)) true, .pop 0 0 1 []] = false := by
  decide +kernel
end Examples

end Ibex.C17
