/-
  C11 — a transformed expression (simplified / copied / converted to a DAG / component extracted)
  denotes the same real function as the original.

  The driver op `equivnf` runs the *symbolic* checker `Equiv.check funs₁ dag₁ funs₂ dag₂ n`
  (`IbexModel/RatFun.lean`): both DAGs are evaluated by the generic evaluator `Eval.root` in the
  algebra `Alg.rf` of rational functions with rational coefficients on the environment
  `[x₀, …, x_{n-1}]` — so vectors, matrices, indexing, products, transposition and applied
  functions are handled by the very evaluator whose real instance is the specification — and the
  resulting matrices of formal quotients are compared entry by entry by cross-multiplication of
  canonical polynomials.

  `check_sound`: if the checker answers `some true` then at EVERY real point `ρ` (not only at
  sampled ones) at which both real evaluations (`Alg.real`, the specification of C02) are
  defined, the two values are equal: same dimensions, same entries.
  `checkComp_sound`: same for "entry `i` of `dag₁`" against the scalar `dag₂` (op `equivcompnf`).

  Fragment: degenerate constants, variables, `add sub mul div`, unary minus, `sqr`, integer
  powers, and every structural node (vector/matrix construction, indexing, transposition, matrix
  products, applied functions).  Any other operator (`abs max min sign chi floor ceil sqrt`,
  elementary functions, thick constants) makes the checker answer `none`: nothing is claimed
  (driver: `ok unsupported`).  The answer `some false` (driver: `FAIL normal-forms-differ`) is NOT
  covered by a theorem here (it would need uniqueness of canonical forms): it is a diagnosis.

  What the theorem does not say: that the transformed expression is defined wherever the original
  is (e.g. `x/x` and `1` are accepted: they agree wherever both are defined).
-/
import IbexProofs.RatFun

namespace Ibex.C11
open Ibex Ibex.Eval List

theorem checkB_sound {B : ℕ} {funs₁ funs₂ : List Dag} {dag₁ dag₂ : Dag} {n : ℕ}
    (h : Equiv.checkB B funs₁ dag₁ funs₂ dag₂ n = some true)
    {ρ : List ℝ} (hρ : ρ.length = n) {v₁ v₂ : Mat ℝ}
    (h₁ : root Alg.real ρ (buildCalls Alg.real funs₁) dag₁ = some v₁)
    (h₂ : root Alg.real ρ (buildCalls Alg.real funs₂) dag₂ = some v₂) : v₁ = v₂ := by
  unfold Equiv.checkB at h
  simp only [bind, Option.bind_eq_some_iff] at h
  obtain ⟨F₁, hF₁, F₂, hF₂, h⟩ := h
  split_ifs at h with hdim
  swap
  · exact absurd h (by simp)
  obtain ⟨hr₁, hc₁, hd₁⟩ := nf_real hρ hF₁ h₁
  obtain ⟨hr₂, hc₂, hd₂⟩ := nf_real hρ hF₂ h₂
  have hd := eqvList_sound h hd₁ hd₂
  obtain ⟨r₁, c₁, d₁⟩ := v₁
  obtain ⟨r₂, c₂, d₂⟩ := v₂
  simp only at hr₁ hc₁ hr₂ hc₂ hd
  rw [hr₁, hc₁, hr₂, hc₂, hd, hdim.1, hdim.2]

/-- **C11 (soundness of the symbolic equivalence check).**  An accepted pair of DAGs has the same
    real value at every real point where both are defined. -/
theorem check_sound {funs₁ funs₂ : List Dag} {dag₁ dag₂ : Dag} {n : ℕ}
    (h : Equiv.check funs₁ dag₁ funs₂ dag₂ n = some true)
    {ρ : List ℝ} (hρ : ρ.length = n) {v₁ v₂ : Mat ℝ}
    (h₁ : root Alg.real ρ (buildCalls Alg.real funs₁) dag₁ = some v₁)
    (h₂ : root Alg.real ρ (buildCalls Alg.real funs₂) dag₂ = some v₂) : v₁ = v₂ :=
  checkB_sound h hρ h₁ h₂

theorem checkCompB_sound {B : ℕ} {funs₁ funs₂ : List Dag} {dag₁ dag₂ : Dag} {i n : ℕ}
    (h : Equiv.checkCompB B funs₁ dag₁ funs₂ dag₂ i n = some true)
    {ρ : List ℝ} (hρ : ρ.length = n) {v₁ v₂ : Mat ℝ}
    (h₁ : root Alg.real ρ (buildCalls Alg.real funs₁) dag₁ = some v₁)
    (h₂ : root Alg.real ρ (buildCalls Alg.real funs₂) dag₂ = some v₂) :
    ∃ x, v₁.d[i]? = some x ∧ v₂.d = [x] := by
  unfold Equiv.checkCompB at h
  simp only [bind, Option.bind_eq_some_iff] at h
  obtain ⟨F₁, hF₁, F₂, hF₂, h⟩ := h
  obtain ⟨_, _, hd₁⟩ := nf_real hρ hF₁ h₁
  obtain ⟨_, _, hd₂⟩ := nf_real hρ hF₂ h₂
  split at h
  · rename_i a b ha hb
    rw [hb, forall₂_cons_right_iff] at hd₂
    obtain ⟨y, ys, hyb, hys, hv₂⟩ := hd₂
    rw [forall₂_nil_right_iff] at hys
    subst hys
    rcases forall₂_getElem? hd₁ i with ⟨_, hn⟩ | ⟨x, a', hx, ha', hxa⟩
    · rw [ha] at hn
      exact absurd hn (by simp)
    · rw [ha] at ha'
      simp only [Option.some.injEq] at ha'
      subst ha'
      exact ⟨x, hx, by rw [hv₂, RF.eqv_sound h hxa hyb]⟩
  · exact absurd h (by simp)

/-- **C11, component form.**  If entry `i` (row-major) of `dag₁` and the scalar `dag₂` are
    accepted, then at every real point where both are defined, `dag₂`'s value is that entry. -/
theorem checkComp_sound {funs₁ funs₂ : List Dag} {dag₁ dag₂ : Dag} {i n : ℕ}
    (h : Equiv.checkComp funs₁ dag₁ funs₂ dag₂ i n = some true)
    {ρ : List ℝ} (hρ : ρ.length = n) {v₁ v₂ : Mat ℝ}
    (h₁ : root Alg.real ρ (buildCalls Alg.real funs₁) dag₁ = some v₁)
    (h₂ : root Alg.real ρ (buildCalls Alg.real funs₂) dag₂ = some v₂) :
    ∃ x, v₁.d[i]? = some x ∧ v₂.d = [x] :=
  checkCompB_sound h hρ h₁ h₂

/-! ### non-vacuity -/

def k (q : Rat) : Node := ⟨.const [Itv.point q], 1, 1⟩
def x : Node := ⟨.var 0, 1, 1⟩

/-- `(x+1)²`: nodes 0 = x, 1 = 1, 2 = x+1, 3 = sqr -/
def sq1 : Dag := #[x, k 1, ⟨.bin "add" 0 1, 1, 1⟩, ⟨.un "sqr" 2, 1, 1⟩]
/-- `x² + 2x + 1` -/
def sq2 : Dag := #[x, ⟨.pow 0 2, 1, 1⟩, k 2, ⟨.bin "mul" 2 0, 1, 1⟩, ⟨.bin "add" 1 3, 1, 1⟩, k 1,
  ⟨.bin "add" 4 5, 1, 1⟩]
/-- `x·x` and `x³` -/
def xx : Dag := #[x, ⟨.bin "mul" 0 0, 1, 1⟩]
def x3 : Dag := #[x, ⟨.pow 0 3, 1, 1⟩]
/-- `(x² - 1)/(x - 1)` and `x + 1`: equal as rational functions -/
def q1 : Dag := #[x, ⟨.un "sqr" 0, 1, 1⟩, k 1, ⟨.bin "sub" 1 2, 1, 1⟩, ⟨.bin "sub" 0 2, 1, 1⟩,
  ⟨.bin "div" 3 4, 1, 1⟩]
def q2 : Dag := #[x, k 1, ⟨.bin "add" 0 1, 1, 1⟩]
/-- `|x|`: outside the fragment -/
def ab : Dag := #[x, ⟨.un "abs" 0, 1, 1⟩]

example : Equiv.check [] sq1 [] sq2 1 = some true := by decide +kernel
example : Equiv.check [] xx [] x3 1 = some false := by decide +kernel
example : Equiv.check [] q1 [] q2 1 = some true := by decide +kernel
example : Equiv.check [] x3 [] q2 1 = some false := by decide +kernel
example : Equiv.check [] ab [] ab 1 = none := by decide +kernel

/-- a 2×2 matrix product `A·B` (`A` = variables 0‥3, `B` = variables 4‥7) -/
def mm : Dag := #[⟨.var 0, 2, 2⟩, ⟨.var 4, 2, 2⟩, ⟨.bin "mul" 0 1, 2, 2⟩]
def v (i : Nat) : Node := ⟨.var i, 1, 1⟩
/-- `a₀₀·b₀₁ + a₀₁·b₁₁` (entry (0,1) of the product, row-major index 1) -/
def e01 : Dag := #[v 0, v 5, ⟨.bin "mul" 0 1, 1, 1⟩, v 1, v 7, ⟨.bin "mul" 3 4, 1, 1⟩,
  ⟨.bin "add" 2 5, 1, 1⟩]

example : Equiv.checkComp [] mm [] e01 1 8 = some true := by decide +kernel
example : Equiv.checkComp [] mm [] e01 2 8 = some false := by decide +kernel

/-- through an applied function: `f(y) = y²`, `f(x+1)` against `x² + 2x + 1` -/
def sqrFun : Dag := #[x, ⟨.un "sqr" 0, 1, 1⟩]
def app : Dag := #[x, k 1, ⟨.bin "add" 0 1, 1, 1⟩, ⟨.apply 0 [2], 1, 1⟩]
example : Equiv.check [sqrFun] app [] sq2 1 = some true := by decide +kernel

/-- the real evaluations of the first example are defined everywhere, so the theorem applies at
    every real `t` and its conclusion is the expected identity -/
theorem sq1_root (t : ℝ) : root Alg.real [t] (buildCalls Alg.real []) sq1 =
    some (Mat.scalar ((t + 1) * (t + 1))) := by
  unfold root
  rw [run_eq]
  simp [sq1, x, k, step, nodeVal, binVal, unVal, Mat.isScalar, Mat.mapM?, Mat.zip?, Alg.real, realOfItv,
    Itv.point, Mat.scalar]

theorem sq2_root (t : ℝ) : root Alg.real [t] (buildCalls Alg.real []) sq2 =
    some (Mat.scalar (t ^ 2 + 2 * t + 1)) := by
  unfold root
  rw [run_eq]
  simp [sq2, x, k, step, nodeVal, binVal, mulVal, Mat.isScalar, Mat.mapM?, Mat.zip?, Alg.real, realOfItv,
    Itv.point, Mat.scalar]

example (t : ℝ) : (t + 1) * (t + 1) = t ^ 2 + 2 * t + 1 := by
  have h := check_sound (funs₁ := []) (funs₂ := []) (dag₁ := sq1) (dag₂ := sq2) (n := 1)
    (by decide +kernel) (ρ := [t]) rfl (sq1_root t) (sq2_root t)
  simpa [Mat.scalar] using h

end Ibex.C11
