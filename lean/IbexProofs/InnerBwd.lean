/-
  C14 — soundness of the checkers of `IbexModel/Inner.lean`, part 2: inner backward projections of
  single operators (`into2`, `into1`): the exact range of the operator over the returned intervals
  is inside the requested image, hence EVERY real point of the returned intervals is mapped into
  the image (and the operator is defined there).
-/
import IbexProofs.Inner
import Mathlib.Analysis.SpecialFunctions.Pow.Real
import Mathlib.Analysis.SpecialFunctions.Trigonometric.Inverse
import Mathlib.Analysis.SpecialFunctions.Trigonometric.Arctan
import Mathlib.Analysis.SpecialFunctions.Log.Basic

namespace Ibex
namespace Inner
open Ibex

/-- real meaning of the binary operators by name (the division is undefined for `y = 0`) -/
noncomputable def bwd2R : String → ℝ → ℝ → Option ℝ
  | "add", x, y => some (x + y)
  | "sub", x, y => some (x - y)
  | "mul", x, y => some (x * y)
  | "div", x, y => if y = 0 then none else some (x / y)
  | "max", x, y => some (Max.max x y)
  | "min", x, y => some (Min.min x y)
  | _, _, _ => none

/-- real meaning of the unary operators by name -/
noncomputable def bwd1R : String → Int → ℝ → Option ℝ
  | "sqr", _, x => some (x * x)
  | "abs", _, x => some |x|
  | "minus", _, x => some (-x)
  | "sqrt", _, x => if 0 ≤ x then some (Real.sqrt x) else none
  | "pow", n, x => if n < 0 ∧ x = 0 then none else some (x ^ n)
  | _, _, _ => none

theorem not_containsExt_zero {Y : Itv} (h : Itv.containsExt Y z0 = false) {y : ℝ} (hy : y ∈ Y) : y ≠ 0 := by
  intro e
  subst e
  cases Y with
  | empty => exact absurd hy (Itv.not_mem_empty _)
  | mk c d =>
    have h1 : Ext.le c z0 = true := (Ext.le_iff _ _).2 (by simpa [z0] using hy.1)
    have h2 : Ext.le z0 d = true := (Ext.le_iff _ _).2 (by simpa [z0] using hy.2)
    simp [Itv.containsExt, h1, h2] at h

theorem isEmpty_false_of_mem {X : Itv} {x : ℝ} (h : x ∈ X) : X.isEmpty = false := by
  cases X with
  | empty => exact absurd h (Itv.not_mem_empty _)
  | mk a b => rfl

theorem range2_encl {op : String} {X Y R : Itv} (h : range2 op X Y = some R) {x y : ℝ} (hx : x ∈ X) (hy : y ∈ Y) :
    ∃ v, bwd2R op x y = some v ∧ v ∈ R := by
  unfold range2 at h
  split at h
  · simp only [Option.some.injEq] at h; subst h
    exact ⟨x + y, rfl, Itv.addG_encl Rnd.exact_sound hx hy⟩
  · simp only [Option.some.injEq] at h; subst h
    exact ⟨x - y, rfl, Itv.subG_encl Rnd.exact_sound hx hy⟩
  · simp only [Option.some.injEq] at h; subst h
    exact ⟨x * y, rfl, Itv.mulG_encl Rnd.exact_sound hx hy⟩
  · split at h
    · exact absurd h (by simp)
    · rename_i hc
      simp only [Option.some.injEq] at h; subst h
      have hy0 : y ≠ 0 := not_containsExt_zero (by simpa using hc) hy
      exact ⟨x / y, by simp [bwd2R, hy0], Itv.divG_encl Rnd.exact_sound hx hy hy0⟩
  · simp only [Option.some.injEq] at h; subst h
    exact ⟨Max.max x y, rfl, Itv.max_encl hx hy⟩
  · simp only [Option.some.injEq] at h; subst h
    exact ⟨Min.min x y, rfl, Itv.min_encl hx hy⟩
  · exact absurd h (by simp)

/-- **Inner backward projection of a binary operator**: if the checker accepts `(X', Y')` for the
    image `Z`, the operator is defined at every point of `X' × Y'` and maps it into `Z`. -/
theorem into2_sound {op : String} {X Y Z : Itv} (h : into2 op X Y Z = true) {x y : ℝ} (hx : x ∈ X) (hy : y ∈ Y) :
    ∃ v, bwd2R op x y = some v ∧ v ∈ Z := by
  simp only [into2, isEmpty_false_of_mem hx, isEmpty_false_of_mem hy, Bool.false_or] at h
  cases hr : range2 op X Y with
  | none => simp [hr] at h
  | some R =>
    simp only [hr] at h
    obtain ⟨v, hv, hm⟩ := range2_encl hr hx hy
    exact ⟨v, hv, Itv.mem_of_subset h hm⟩

theorem sqrtInto_sound {X Z : Itv} (h : sqrtInto X Z = true) {x : ℝ} (hx : x ∈ X) :
    0 ≤ x ∧ Real.sqrt x ∈ Z := by
  cases X with
  | empty => exact absurd hx (Itv.not_mem_empty _)
  | mk a b =>
    cases Z with
    | empty => simp [sqrtInto] at h
    | mk l u =>
      simp only [sqrtInto, Bool.and_eq_true] at h
      obtain ⟨⟨h0, hl⟩, hu⟩ := h
      have ha0 : ((0 : ℝ) : EReal) ≤ a.toE := by simpa [z0] using (Ext.le_iff _ _).1 h0
      have hx0 : 0 ≤ x := by exact_mod_cast le_trans ha0 hx.1
      refine ⟨hx0, ?_, ?_⟩
      · -- lower bound
        cases l with
        | ninf => simp
        | pinf => simp at hl
        | fin q =>
          cases a with
          | ninf => simp at ha0
          | pinf => exact absurd hx.1 (by simp)
          | fin p =>
            simp only [Bool.or_eq_true, decide_eq_true_eq] at hl
            simp only [Ext.toE_fin, EReal.coe_le_coe_iff]
            rcases hl with hq | hq
            · exact le_trans (by exact_mod_cast hq) (Real.sqrt_nonneg x)
            · by_cases hq0 : q ≤ 0
              · exact le_trans (by exact_mod_cast hq0) (Real.sqrt_nonneg x)
              · have hq0' : (0 : ℝ) ≤ (q : ℝ) := by exact_mod_cast le_of_lt (not_le.1 hq0)
                have hpx : (p : ℝ) ≤ x := by simpa using hx.1
                have hqq : (q : ℝ) * (q : ℝ) ≤ x := le_trans (by exact_mod_cast hq) hpx
                calc (q : ℝ) = Real.sqrt ((q : ℝ) * (q : ℝ)) := (Real.sqrt_mul_self hq0').symm
                  _ ≤ Real.sqrt x := Real.sqrt_le_sqrt hqq
      · cases u with
        | pinf => simp
        | ninf => simp at hu
        | fin q =>
          cases b with
          | ninf => simp at hu
          | pinf => simp at hu
          | fin p =>
            simp only [Bool.and_eq_true, decide_eq_true_eq] at hu
            simp only [Ext.toE_fin, EReal.coe_le_coe_iff]
            have hq0' : (0 : ℝ) ≤ (q : ℝ) := by exact_mod_cast hu.1
            have hxp : x ≤ (p : ℝ) := by simpa using hx.2
            have hqq : x ≤ (q : ℝ) * (q : ℝ) := le_trans hxp (by exact_mod_cast hu.2)
            calc Real.sqrt x ≤ Real.sqrt ((q : ℝ) * (q : ℝ)) := Real.sqrt_le_sqrt hqq
              _ = (q : ℝ) := Real.sqrt_mul_self hq0'

theorem one_mem_point : (1 : ℝ) ∈ Itv.point 1 := by
  simp [Itv.point, Itv.mem_mk]

/-- **Inner backward projection of a unary operator** -/
theorem into1_sound {op : String} {n : Int} {X Z : Itv} (h : into1 op n X Z = some true) {x : ℝ} (hx : x ∈ X) :
    ∃ v, bwd1R op n x = some v ∧ v ∈ Z := by
  unfold into1 at h
  split at h
  · simp only [Option.some.injEq] at h
    exact ⟨x * x, rfl, Itv.mem_of_subset h (Itv.sqrG_encl Rnd.exact_sound hx)⟩
  · simp only [Option.some.injEq] at h
    exact ⟨|x|, rfl, Itv.mem_of_subset h (Itv.abs_encl hx)⟩
  · simp only [Option.some.injEq] at h
    exact ⟨-x, rfl, Itv.mem_of_subset h (Itv.neg_encl hx)⟩
  · simp only [Option.some.injEq] at h
    obtain ⟨h0, hm⟩ := sqrtInto_sound h hx
    exact ⟨Real.sqrt x, by simp [bwd1R, h0], hm⟩
  · split at h
    · rename_i hn
      simp only [Option.some.injEq] at h
      refine ⟨x ^ n, by simp [bwd1R, not_lt.2 hn], ?_⟩
      have := Itv.mem_of_subset h (Itv.powNatG_encl Rnd.exact_sound n.toNat hx)
      have e : x ^ n = x ^ n.toNat := by
        conv_lhs => rw [← Int.toNat_of_nonneg hn]
        exact zpow_natCast x n.toNat
      rwa [e]
    · rename_i hn
      split at h
      · exact absurd h (by simp)
      · rename_i hc
        simp only [Option.some.injEq] at h
        have hx0 : x ≠ 0 := not_containsExt_zero (by simpa using hc) hx
        refine ⟨x ^ n, by simp [bwd1R, hx0], ?_⟩
        have hpow : x ^ (-n).toNat ∈ Itv.powNatG Inner.X X (-n).toNat := Itv.powNatG_encl Rnd.exact_sound _ hx
        have hne : x ^ (-n).toNat ≠ 0 := pow_ne_zero _ hx0
        have := Itv.mem_of_subset h (Itv.divG_encl Rnd.exact_sound one_mem_point hpow hne)
        have e : x ^ n = 1 / x ^ (-n).toNat := by
          have hn' : 0 ≤ -n := by omega
          have : n = -((-n).toNat : Int) := by rw [Int.toNat_of_nonneg hn']; ring
          conv_lhs => rw [this]
          rw [zpow_neg, zpow_natCast, one_div]
        rwa [e]
  · exact absurd h (by simp)

/-! ### transcendental operators: what the comparison with the oracle bounds means -/

/-- an accepted answer lies between the oracle bounds (strictly where required) -/
theorem oracleFwdOk_bounds {lowB upB : Ext} {ls us : Bool} {Z : Itv} (h : oracleFwdOk lowB ls upB us Z = true)
    {z : ℝ} (hz : z ∈ Z) :
    (if ls then lowB.toE < (z : EReal) else lowB.toE ≤ (z : EReal)) ∧
    (if us then (z : EReal) < upB.toE else (z : EReal) ≤ upB.toE) := by
  cases Z with
  | empty => exact absurd hz (Itv.not_mem_empty _)
  | mk l u =>
    simp only [oracleFwdOk, Bool.and_eq_true] at h
    obtain ⟨⟨_, hl⟩, hu⟩ := h
    constructor
    · cases ls
      · simp only [Bool.false_eq_true, ↓reduceIte] at hl ⊢
        exact le_trans ((Ext.le_iff _ _).1 hl) hz.1
      · simp only [↓reduceIte] at hl ⊢
        exact lt_of_lt_of_le ((Ext.lt_iff _ _).1 hl) hz.1
    · cases us
      · simp only [Bool.false_eq_true, ↓reduceIte] at hu ⊢
        exact le_trans hz.2 ((Ext.le_iff _ _).1 hu)
      · simp only [↓reduceIte] at hu ⊢
        exact lt_of_le_of_lt hz.2 ((Ext.lt_iff _ _).1 hu)

/-- **Monotone (continuous) operators**: if every accepted `z` has a point of the domain part `s`
    of `X` whose image is below it and one whose image is above it — which is what the oracle
    bounds `RU f(lower end)`, `RD f(upper end)` (limits for infinite ends) provide — then `z` is
    attained on `s`. -/
theorem oracle_inner_sound {f : ℝ → ℝ} {s : Set ℝ} (hs : s.OrdConnected) (hf : ContinuousOn f s) {z : ℝ}
    (hlow : ∃ x1 ∈ s, f x1 ≤ z) (hup : ∃ x2 ∈ s, z ≤ f x2) : ∃ x ∈ s, f x = z := by
  obtain ⟨x1, h1, hz1⟩ := hlow
  obtain ⟨x2, h2, hz2⟩ := hup
  obtain ⟨x, hx, hxz⟩ := hs.isPreconnected.intermediate_value h1 h2 hf ⟨hz1, hz2⟩
  exact ⟨x, hx, hxz⟩

/-- **Acceptance of a transcendental forward inner answer**: `horL` / `horU` state what the two
    oracle bounds sent by the harness mean (MPFR value rounded the opposite way, or a limit). -/
theorem oracleFwd_sound {f : ℝ → ℝ} {s : Set ℝ} (hs : s.OrdConnected) (hf : ContinuousOn f s)
    {lowB upB : Ext} {ls us : Bool} {Z : Itv} (h : oracleFwdOk lowB ls upB us Z = true)
    (horL : ∀ z : ℝ, (if ls then lowB.toE < (z : EReal) else lowB.toE ≤ (z : EReal)) → ∃ x1 ∈ s, f x1 ≤ z)
    (horU : ∀ z : ℝ, (if us then (z : EReal) < upB.toE else (z : EReal) ≤ upB.toE) → ∃ x2 ∈ s, z ≤ f x2)
    {z : ℝ} (hz : z ∈ Z) : ∃ x ∈ s, f x = z := by
  obtain ⟨h1, h2⟩ := oracleFwdOk_bounds h hz
  exact oracle_inner_sound hs hf (horL z h1) (horU z h2)

/-- the standard case of `horL`: the bound is an upper bound `q ≥ f a` of the value at a point `a`
    of the domain (e.g. `q = RU (f a)` computed by MPFR) -/
theorem horL_of_point {f : ℝ → ℝ} {s : Set ℝ} {a : ℝ} (ha : a ∈ s) {q : ℚ} (hq : f a ≤ (q : ℝ)) :
    ∀ z : ℝ, (if false then (Ext.fin q).toE < (z : EReal) else (Ext.fin q).toE ≤ (z : EReal)) → ∃ x1 ∈ s, f x1 ≤ z := by
  intro z hz
  simp only [Bool.false_eq_true, ↓reduceIte, Ext.toE_fin, EReal.coe_le_coe_iff] at hz
  exact ⟨a, ha, le_trans hq hz⟩

theorem horU_of_point {f : ℝ → ℝ} {s : Set ℝ} {b : ℝ} (hb : b ∈ s) {q : ℚ} (hq : (q : ℝ) ≤ f b) :
    ∀ z : ℝ, (if false then (z : EReal) < (Ext.fin q).toE else (z : EReal) ≤ (Ext.fin q).toE) → ∃ x2 ∈ s, z ≤ f x2 := by
  intro z hz
  simp only [Bool.false_eq_true, ↓reduceIte, Ext.toE_fin, EReal.coe_le_coe_iff] at hz
  exact ⟨b, hb, le_trans hz hq⟩

/-- the limit case of `iexp` on `(-∞, b]`: the lower bound 0 is strict -/
theorem horL_exp_bot (b : ℝ) :
    ∀ z : ℝ, (if true then (Ext.fin 0).toE < (z : EReal) else (Ext.fin 0).toE ≤ (z : EReal)) →
      ∃ x1 ∈ Set.Iic b, Real.exp x1 ≤ z := by
  intro z hz
  simp only [↓reduceIte, Ext.toE_fin] at hz
  have hz0 : (0 : ℝ) < z := by exact_mod_cast hz
  refine ⟨Min.min (Real.log z) b, Set.mem_Iic.2 (min_le_right _ _), ?_⟩
  calc Real.exp (Min.min (Real.log z) b) ≤ Real.exp (Real.log z) := Real.exp_le_exp.2 (min_le_left _ _)
    _ = z := Real.exp_log hz0

/-- `iexp` on a bounded interval `[a,b]`, oracle bounds `qa ≥ exp a`, `qb ≤ exp b` -/
theorem iexp_sound {a b : ℝ} (hab : a ≤ b) {qa qb : ℚ} (ha : Real.exp a ≤ qa) (hb : (qb : ℝ) ≤ Real.exp b)
    {Z : Itv} (h : oracleFwdOk (.fin qa) false (.fin qb) false Z = true) {z : ℝ} (hz : z ∈ Z) :
    ∃ x ∈ Set.Icc a b, Real.exp x = z :=
  oracleFwd_sound Set.ordConnected_Icc Real.continuous_exp.continuousOn h
    (horL_of_point (Set.left_mem_Icc.2 hab) ha) (horU_of_point (Set.right_mem_Icc.2 hab) hb) hz

/-- `iexp` on `(-∞,b]`: an accepted answer does not contain 0 -/
theorem iexp_bot_sound {b : ℝ} {qb : ℚ} (hb : (qb : ℝ) ≤ Real.exp b)
    {Z : Itv} (h : oracleFwdOk (.fin 0) true (.fin qb) false Z = true) {z : ℝ} (hz : z ∈ Z) :
    ∃ x ∈ Set.Iic b, Real.exp x = z :=
  oracleFwd_sound Set.ordConnected_Iic Real.continuous_exp.continuousOn h
    (horL_exp_bot b) (horU_of_point (Set.mem_Iic.2 (le_refl b)) hb) hz

/-- `ilog` on `[a,b]`, `0 < a` -/
theorem ilog_sound {a b : ℝ} (ha0 : 0 < a) (hab : a ≤ b) {qa qb : ℚ} (ha : Real.log a ≤ qa) (hb : (qb : ℝ) ≤ Real.log b)
    {Z : Itv} (h : oracleFwdOk (.fin qa) false (.fin qb) false Z = true) {z : ℝ} (hz : z ∈ Z) :
    ∃ x ∈ Set.Icc a b, Real.log x = z := by
  refine oracleFwd_sound Set.ordConnected_Icc ?_ h
    (horL_of_point (Set.left_mem_Icc.2 hab) ha) (horU_of_point (Set.right_mem_Icc.2 hab) hb) hz
  exact Real.continuousOn_log.mono (fun x hx => ne_of_gt (lt_of_lt_of_le ha0 hx.1))

/-- `iatan` on `[a,b]` -/
theorem iatan_sound {a b : ℝ} (hab : a ≤ b) {qa qb : ℚ} (ha : Real.arctan a ≤ qa) (hb : (qb : ℝ) ≤ Real.arctan b)
    {Z : Itv} (h : oracleFwdOk (.fin qa) false (.fin qb) false Z = true) {z : ℝ} (hz : z ∈ Z) :
    ∃ x ∈ Set.Icc a b, Real.arctan x = z :=
  oracleFwd_sound Set.ordConnected_Icc Real.continuous_arctan.continuousOn h
    (horL_of_point (Set.left_mem_Icc.2 hab) ha) (horU_of_point (Set.right_mem_Icc.2 hab) hb) hz

/-- `iasin` on `[a,b]` -/
theorem iasin_sound {a b : ℝ} (hab : a ≤ b) {qa qb : ℚ} (ha : Real.arcsin a ≤ qa) (hb : (qb : ℝ) ≤ Real.arcsin b)
    {Z : Itv} (h : oracleFwdOk (.fin qa) false (.fin qb) false Z = true) {z : ℝ} (hz : z ∈ Z) :
    ∃ x ∈ Set.Icc a b, Real.arcsin x = z :=
  oracleFwd_sound Set.ordConnected_Icc Real.continuous_arcsin.continuousOn h
    (horL_of_point (Set.left_mem_Icc.2 hab) ha) (horU_of_point (Set.right_mem_Icc.2 hab) hb) hz

/-- `iacos` on `[a,b]` (decreasing: the lower oracle bound is taken at `b`) -/
theorem iacos_sound {a b : ℝ} (hab : a ≤ b) {qa qb : ℚ} (hb : Real.arccos b ≤ qb) (ha : (qa : ℝ) ≤ Real.arccos a)
    {Z : Itv} (h : oracleFwdOk (.fin qb) false (.fin qa) false Z = true) {z : ℝ} (hz : z ∈ Z) :
    ∃ x ∈ Set.Icc a b, Real.arccos x = z :=
  oracleFwd_sound Set.ordConnected_Icc Real.continuous_arccos.continuousOn h
    (horL_of_point (Set.right_mem_Icc.2 hab) hb) (horU_of_point (Set.left_mem_Icc.2 hab) ha) hz

end Inner
end Ibex
