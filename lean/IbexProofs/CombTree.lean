/-
  C19 — combinator trees: the logical set denoted by a tree and the soundness of the model
  evaluator for ALL trees, ALL leaf behaviours meeting the contract, all inputs, any fuel.
-/
import IbexProofs.Comb
import IbexProofs.CombQuant
import IbexProofs.CombSep

namespace Ibex.C19
open Ibex Ibex.Comb

/-- the sets denoted by the leaves -/
structure SetEnv where
  ctc : Nat → Set Pt
  pdc : Nat → Set Pt
  sep : Nat → Set Pt

/-! ### predicates -/

mutual
def pdcSet (E : SetEnv) : Pdc → Set Pt
  | .leaf i => E.pdc i
  | .and l => interSets (pdcSetList E l)
  | .or l => unionSets (pdcSetList E l)
  | .not p => (pdcSet E p)ᶜ
def pdcSetList (E : SetEnv) : List Pdc → List (Set Pt)
  | [] => []
  | p :: ps => pdcSet E p :: pdcSetList E ps
end

mutual
theorem pdc_eval_ok (env : Env) (E : SetEnv) (hP : ∀ i, PdcOK (env.pdc i) (E.pdc i)) :
    ∀ t : Pdc, PdcOK (Pdc.eval env.pdc t) (pdcSet E t)
  | .leaf i => by simp only [Pdc.eval, pdcSet]; exact hP i
  | .and l => by simp only [Pdc.eval, pdcSet]; exact pdcAnd_ok (pdc_evalList_ok env E hP l)
  | .or l => by simp only [Pdc.eval, pdcSet]; exact pdcOr_ok (pdc_evalList_ok env E hP l)
  | .not p => by simp only [Pdc.eval, pdcSet]; exact pdcNot_ok (pdc_eval_ok env E hP p)
theorem pdc_evalList_ok (env : Env) (E : SetEnv) (hP : ∀ i, PdcOK (env.pdc i) (E.pdc i)) :
    ∀ l : List Pdc, List.Forall₂ PdcOK (Pdc.evalList env.pdc l) (pdcSetList E l)
  | [] => by simp only [Pdc.evalList, pdcSetList]; exact List.Forall₂.nil
  | p :: ps => by
    simp only [Pdc.evalList, pdcSetList]
    exact List.Forall₂.cons (pdc_eval_ok env E hP p) (pdc_evalList_ok env E hP ps)
end

/-! ### contractors -/

mutual
/-- the logical set of a contractor tree -/
def ctcSet (E : SetEnv) : Ctc → Set Pt
  | .leaf i => E.ctc i
  | .compo l => interSets (ctcSetList E l)
  | .union l => unionSets (ctcSetList E l)
  | .fix c _ => ctcSet E c
  | .qinter l q => atLeast q (ctcSetList E l)
  | .integer mask => intSet mask
  | .id => Set.univ
  | .empty => ∅
  | .exist c m yinit _ _ => existSet m yinit (ctcSet E c)
  | .forAll c m yinit _ _ => forallSet m yinit (ctcSet E c)
  | .ofPdc p => (pdcSet E p)ᶜ
def ctcSetList (E : SetEnv) : List Ctc → List (Set Pt)
  | [] => []
  | c :: cs => ctcSet E c :: ctcSetList E cs
end

mutual
/-- well-formed tree: the parameter box of every for-all node is not empty -/
def ctcWF : Ctc → Prop
  | .leaf _ => True
  | .compo l => ctcWFList l
  | .union l => ctcWFList l
  | .fix c _ => ctcWF c
  | .qinter l _ => ctcWFList l
  | .integer _ => True
  | .id => True
  | .empty => True
  | .exist c _ _ _ _ => ctcWF c
  | .forAll c _ yinit _ _ => ctcWF c ∧ ∃ q, Mem q yinit
  | .ofPdc _ => True
def ctcWFList : List Ctc → Prop
  | [] => True
  | c :: cs => ctcWF c ∧ ctcWFList cs
end

mutual
/-- the model evaluator of any well-formed contractor tree, over any leaves meeting the contract,
    meets the contract for the logical set of the tree -/
theorem ctc_eval_ok (env : Env) (E : SetEnv) (hL : ∀ i, CtcOK (env.ctc i) (E.ctc i))
    (hP : ∀ i, PdcOK (env.pdc i) (E.pdc i)) (fuel : Nat) :
    ∀ t : Ctc, ctcWF t → CtcOK (Ctc.eval env fuel t) (ctcSet E t)
  | .leaf i, _ => by simp only [Ctc.eval, ctcSet]; exact hL i
  | .compo l, h => by
    simp only [Ctc.eval, ctcSet]; exact compo_ok (ctc_evalList_ok env E hL hP fuel l (by simpa [ctcWF] using h))
  | .union l, h => by
    simp only [Ctc.eval, ctcSet]; exact union_ok (ctc_evalList_ok env E hL hP fuel l (by simpa [ctcWF] using h))
  | .fix c ratio, h => by
    simp only [Ctc.eval, ctcSet]; exact fix_ok (ctc_eval_ok env E hL hP fuel c (by simpa [ctcWF] using h)) fuel ratio
  | .qinter l q, h => by
    simp only [Ctc.eval, ctcSet]; exact qinter_ok (ctc_evalList_ok env E hL hP fuel l (by simpa [ctcWF] using h)) q
  | .integer mask, _ => by simp only [Ctc.eval, ctcSet]; exact integer_ok mask
  | .id, _ => by simp only [Ctc.eval, ctcSet]; exact id_ok
  | .empty, _ => by simp only [Ctc.eval, ctcSet]; exact empty_ok
  | .exist c m yinit prec br, h => by
    simp only [Ctc.eval, ctcSet]
    exact exist_ok (ctc_eval_ok env E hL hP fuel c (by simpa [ctcWF] using h)) fuel m yinit prec _ _
      (lfBisect_ok prec br) midBox_ok.len
  | .forAll c m yinit prec br, h => by
    simp only [Ctc.eval, ctcSet]
    have h' : ctcWF c ∧ ∃ q, Mem q yinit := by simpa [ctcWF] using h
    exact forall_ok (ctc_eval_ok env E hL hP fuel c h'.1) fuel m yinit prec _ _
      (lfBisect_ok prec br) midBox_ok h'.2
  | .ofPdc p, _ => by simp only [Ctc.eval, ctcSet]; exact ofPdc_ok (pdc_eval_ok env E hP p)
theorem ctc_evalList_ok (env : Env) (E : SetEnv) (hL : ∀ i, CtcOK (env.ctc i) (E.ctc i))
    (hP : ∀ i, PdcOK (env.pdc i) (E.pdc i)) (fuel : Nat) :
    ∀ l : List Ctc, ctcWFList l → List.Forall₂ CtcOK (Ctc.evalList env fuel l) (ctcSetList E l)
  | [], _ => by simp only [Ctc.evalList, ctcSetList]; exact List.Forall₂.nil
  | c :: cs, h => by
    simp only [Ctc.evalList, ctcSetList]
    have h' : ctcWF c ∧ ctcWFList cs := by simpa [ctcWFList] using h
    exact List.Forall₂.cons (ctc_eval_ok env E hL hP fuel c h'.1) (ctc_evalList_ok env E hL hP fuel cs h'.2)
end

/-! ### separators -/

mutual
/-- the logical set of a separator tree (`pair cin cout`: the set of the outer contractor) -/
def sepSet (E : SetEnv) : Sep → Set Pt
  | .leaf i => E.sep i
  | .pair _ cout => ctcSet E cout
  | .inter l => interSets (sepSetList E l)
  | .union l => unionSets (sepSetList E l)
  | .not s => (sepSet E s)ᶜ
  | .qinter l q => atLeast (l.length - q) (sepSetList E l)
def sepSetList (E : SetEnv) : List Sep → List (Set Pt)
  | [] => []
  | s :: ss => sepSet E s :: sepSetList E ss
end

mutual
/-- well-formed (dimension `n`): in every pair the two contractor trees are well-formed and
    *complementary* (every `n`-dimensional point outside the set of the outer contractor is in the set of
    the inner one) -/
def sepWF (E : SetEnv) (n : Nat) : Sep → Prop
  | .leaf _ => True
  | .pair cin cout => ctcWF cin ∧ ctcWF cout ∧ ∀ p : Pt, p.length = n → p ∉ ctcSet E cout → p ∈ ctcSet E cin
  | .inter l => sepWFList E n l
  | .union l => sepWFList E n l
  | .not s => sepWF E n s
  | .qinter l _ => sepWFList E n l
def sepWFList (E : SetEnv) (n : Nat) : List Sep → Prop
  | [] => True
  | s :: ss => sepWF E n s ∧ sepWFList E n ss
end

theorem sep_evalList_length (env : Env) (fuel : Nat) : ∀ l : List Sep, (Sep.evalList env fuel l).length = l.length
  | [] => by simp [Sep.evalList]
  | s :: ss => by simp [Sep.evalList, sep_evalList_length env fuel ss]

mutual
/-- the model evaluator of any well-formed separator tree meets the separator contract for the
    logical set of the tree -/
theorem sep_eval_ok (env : Env) (E : SetEnv) (n : Nat) (hL : ∀ i, CtcOK (env.ctc i) (E.ctc i))
    (hP : ∀ i, PdcOK (env.pdc i) (E.pdc i)) (hS : ∀ i, SepOK n (env.sep i) (E.sep i)) (fuel : Nat) :
    ∀ t : Sep, sepWF E n t → SepOK n (Sep.eval env fuel t) (sepSet E t)
  | .leaf i, _ => by simp only [Sep.eval, sepSet]; exact hS i
  | .pair cin cout, h => by
    simp only [Sep.eval, sepSet]
    have h' : ctcWF cin ∧ ctcWF cout ∧ ∀ p : Pt, p.length = n → p ∉ ctcSet E cout → p ∈ ctcSet E cin := by
      simpa [sepWF] using h
    exact sepPair_ok n (ctc_eval_ok env E hL hP fuel cin h'.1) (ctc_eval_ok env E hL hP fuel cout h'.2.1)
      h'.2.2 (fun _ hp => hp)
  | .inter l, h => by
    simp only [Sep.eval, sepSet]; exact sepInter_ok (sep_evalList_ok env E n hL hP hS fuel l (by simpa [sepWF] using h))
  | .union l, h => by
    simp only [Sep.eval, sepSet]; exact sepUnion_ok (sep_evalList_ok env E n hL hP hS fuel l (by simpa [sepWF] using h))
  | .not s, h => by
    simp only [Sep.eval, sepSet]; exact sepNot_ok (sep_eval_ok env E n hL hP hS fuel s (by simpa [sepWF] using h))
  | .qinter l q, h => by
    simp only [Sep.eval, sepSet]
    have := sepQInter_ok (sep_evalList_ok env E n hL hP hS fuel l (by simpa [sepWF] using h)) q
    rwa [sep_evalList_length] at this
theorem sep_evalList_ok (env : Env) (E : SetEnv) (n : Nat) (hL : ∀ i, CtcOK (env.ctc i) (E.ctc i))
    (hP : ∀ i, PdcOK (env.pdc i) (E.pdc i)) (hS : ∀ i, SepOK n (env.sep i) (E.sep i)) (fuel : Nat) :
    ∀ l : List Sep, sepWFList E n l → List.Forall₂ (SepOK n) (Sep.evalList env fuel l) (sepSetList E l)
  | [], _ => by simp only [Sep.evalList, sepSetList]; exact List.Forall₂.nil
  | s :: ss, h => by
    simp only [Sep.evalList, sepSetList]
    have h' : sepWF E n s ∧ sepWFList E n ss := by simpa [sepWFList] using h
    exact List.Forall₂.cons (sep_eval_ok env E n hL hP hS fuel s h'.1) (sep_evalList_ok env E n hL hP hS fuel ss h'.2)
end

end Ibex.C19
