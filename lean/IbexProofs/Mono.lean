/-
  Lifting point checks to whole intervals for monotone elementary functions:
  if the result interval contains the images of the two endpoints, it contains
  the image of every point in between.
-/
import IbexProofs.Arith
import Mathlib.Analysis.SpecialFunctions.Exp
import Mathlib.Analysis.SpecialFunctions.Log.Basic
import Mathlib.Analysis.SpecialFunctions.Trigonometric.Arctan
import Mathlib.Analysis.SpecialFunctions.Trigonometric.Inverse
import Mathlib.Analysis.SpecialFunctions.Arsinh
import Mathlib.Analysis.SpecialFunctions.Sqrt

namespace Ibex
open Ibex

/-- an interval of the model is order-convex -/
theorem Itv.ordConnected {Z : Itv} {u v w : ℝ} (hu : u ∈ Z) (hw : w ∈ Z) (huv : u ≤ v) (hvw : v ≤ w) : v ∈ Z := by
  cases Z with
  | empty => exact absurd hu (Itv.not_mem_empty u)
  | mk lo hi =>
    exact ⟨le_trans hu.1 (EReal.coe_le_coe_iff.2 huv), le_trans (EReal.coe_le_coe_iff.2 hvw) hw.2⟩

/-- increasing on `s`: endpoint images in `Z` ⇒ every image in `Z` -/
theorem mono_lift {f : ℝ → ℝ} {s : Set ℝ} (hf : MonotoneOn f s) {a b x : ℝ} {Z : Itv}
    (ha : a ∈ s) (hb : b ∈ s) (hxs : x ∈ s) (hax : a ≤ x) (hxb : x ≤ b)
    (hZa : f a ∈ Z) (hZb : f b ∈ Z) : f x ∈ Z :=
  Itv.ordConnected hZa hZb (hf ha hxs hax) (hf hxs hb hxb)

/-- decreasing on `s` -/
theorem anti_lift {f : ℝ → ℝ} {s : Set ℝ} (hf : AntitoneOn f s) {a b x : ℝ} {Z : Itv}
    (ha : a ∈ s) (hb : b ∈ s) (hxs : x ∈ s) (hax : a ≤ x) (hxb : x ≤ b)
    (hZa : f a ∈ Z) (hZb : f b ∈ Z) : f x ∈ Z :=
  Itv.ordConnected hZb hZa (hf hxs hb hxb) (hf ha hxs hax)

theorem exp_lift {a b x : ℝ} {Z : Itv} (hax : a ≤ x) (hxb : x ≤ b)
    (hZa : Real.exp a ∈ Z) (hZb : Real.exp b ∈ Z) : Real.exp x ∈ Z :=
  mono_lift (s := Set.univ) (Real.exp_monotone.monotoneOn _) trivial trivial trivial hax hxb hZa hZb

theorem log_lift {a b x : ℝ} {Z : Itv} (ha : 0 < a) (hax : a ≤ x) (hxb : x ≤ b)
    (hZa : Real.log a ∈ Z) (hZb : Real.log b ∈ Z) : Real.log x ∈ Z :=
  mono_lift (s := Set.Ioi 0) Real.strictMonoOn_log.monotoneOn ha (lt_of_lt_of_le ha (le_trans hax hxb))
    (lt_of_lt_of_le ha hax) hax hxb hZa hZb

theorem sqrt_lift {a b x : ℝ} {Z : Itv} (hax : a ≤ x) (hxb : x ≤ b)
    (hZa : Real.sqrt a ∈ Z) (hZb : Real.sqrt b ∈ Z) : Real.sqrt x ∈ Z :=
  mono_lift (s := Set.univ) (Monotone.monotoneOn (fun _ _ h => Real.sqrt_le_sqrt h) _)
    trivial trivial trivial hax hxb hZa hZb

theorem arctan_lift {a b x : ℝ} {Z : Itv} (hax : a ≤ x) (hxb : x ≤ b)
    (hZa : Real.arctan a ∈ Z) (hZb : Real.arctan b ∈ Z) : Real.arctan x ∈ Z :=
  mono_lift (s := Set.univ) (Real.arctan_strictMono.monotone.monotoneOn _) trivial trivial trivial hax hxb hZa hZb

theorem arcsin_lift {a b x : ℝ} {Z : Itv} (hax : a ≤ x) (hxb : x ≤ b)
    (hZa : Real.arcsin a ∈ Z) (hZb : Real.arcsin b ∈ Z) : Real.arcsin x ∈ Z :=
  mono_lift (s := Set.univ) (Real.monotone_arcsin.monotoneOn _) trivial trivial trivial hax hxb hZa hZb

theorem arccos_lift {a b x : ℝ} {Z : Itv} (hax : a ≤ x) (hxb : x ≤ b)
    (hZa : Real.arccos a ∈ Z) (hZb : Real.arccos b ∈ Z) : Real.arccos x ∈ Z :=
  anti_lift (s := Set.univ) (Real.antitone_arccos.antitoneOn _) trivial trivial trivial hax hxb hZa hZb

theorem sinh_lift {a b x : ℝ} {Z : Itv} (hax : a ≤ x) (hxb : x ≤ b)
    (hZa : Real.sinh a ∈ Z) (hZb : Real.sinh b ∈ Z) : Real.sinh x ∈ Z :=
  mono_lift (s := Set.univ) (Real.sinh_strictMono.monotone.monotoneOn _) trivial trivial trivial hax hxb hZa hZb

theorem arsinh_lift {a b x : ℝ} {Z : Itv} (hax : a ≤ x) (hxb : x ≤ b)
    (hZa : Real.arsinh a ∈ Z) (hZb : Real.arsinh b ∈ Z) : Real.arsinh x ∈ Z :=
  mono_lift (s := Set.univ) (Real.arsinh_strictMono.monotone.monotoneOn _) trivial trivial trivial hax hxb hZa hZb

/-- cosh on a non-negative range is increasing -/
theorem cosh_lift_nonneg {a b x : ℝ} {Z : Itv} (ha : 0 ≤ a) (hax : a ≤ x) (hxb : x ≤ b)
    (hZa : Real.cosh a ∈ Z) (hZb : Real.cosh b ∈ Z) : Real.cosh x ∈ Z := by
  have h : ∀ u v : ℝ, 0 ≤ u → u ≤ v → Real.cosh u ≤ Real.cosh v := by
    intro u v hu huv
    exact Real.cosh_le_cosh.2 (by rw [abs_of_nonneg hu, abs_of_nonneg (le_trans hu huv)]; exact huv)
  exact Itv.ordConnected hZa hZb (h a x ha hax) (h x b (le_trans ha hax) hxb)

/-- tan between two points of the principal branch -/
theorem tan_lift {a b x : ℝ} {Z : Itv} (ha : -(Real.pi / 2) < a) (hb : b < Real.pi / 2) (hax : a ≤ x) (hxb : x ≤ b)
    (hZa : Real.tan a ∈ Z) (hZb : Real.tan b ∈ Z) : Real.tan x ∈ Z :=
  mono_lift (s := Set.Ioo (-(Real.pi / 2)) (Real.pi / 2)) Real.strictMonoOn_tan.monotoneOn
    ⟨ha, lt_of_le_of_lt (le_trans hax hxb) hb⟩ ⟨lt_of_lt_of_le ha (le_trans hax hxb), hb⟩
    ⟨lt_of_lt_of_le ha hax, lt_of_le_of_lt hxb hb⟩ hax hxb hZa hZb

end Ibex
