/-
  C18 (first half) — model of the layered binary COV file format.

  Source: /repo/src/data/ibex_Cov.cpp, ibex_CovList.cpp, ibex_CovIUList.cpp, ibex_CovIBUList.cpp,
  ibex_CovManifold.cpp, ibex_CovSolverData.cpp, ibex_CovOptimData.cpp (`read` / `write`).

  File = signature (20 bytes, "IBEX COVERING FILE " + NUL)
       ++ u32 level L ++ (L+1) u32 format ids ++ (L+1) u32 format versions       (root class first)
       ++ the data of every layer, root class first:
            Cov          : u32 n
            CovList      : u32 N, N boxes (2n doubles each: lb, ub)
            CovIUList    : u32 Ni, Ni indices (strictly increasing)
            CovIBUList   : u32 boundary type (0/1), u32 Nb, Nb indices
            CovManifold  : u32 m, u32 nb_ineq, u32 boundary type (0/1/2),
                           [m>0: u32 Ns, Ns x (index, [m<n: n-m parameter indices], unicity box)],
                           u32 Nbb, Nbb x (index, [0<m<n: n-m parameter indices])
            CovSolverData: n C strings, u32 status (0..5), f64 time, u32 nb_cells, u32 Np, Np indices
            CovOptimData : (after CovList) n C strings, u32 status (0..5), u32 extended-space flag,
                           f64 uplo, f64 uplo_of_epsboxes, f64 loup, u32 loup-found flag, f64 time, u32 nb_cells
  All integers are unsigned 32 bit little endian, doubles are the 8 raw bytes (little endian) of the
  binary64 pattern: they are kept as `UInt64` so that NaN payloads and signed zeros round-trip bit for bit.

  What is modelled faithfully (behaviour *by design* of the readers):
    * a reader of class K walks the layers of K; a layer is read only when the top of the remaining
      (id, version) stack equals the layer's constant, otherwise the layer is skipped, the stack is NOT
      popped and the layer keeps its default content (this is how a `CovSolverData` reader accepts a
      `CovList` file); only the root version is checked against "unsupported version";
    * bytes after the last layer read are ignored (`decode` returns them);
    * `(bool) read_pos_int` for the extended-space flag and `==1` for the loup flag: the raw integer is kept;
    * no check `m <= n`; parameter indices of a varset are accepted in any order;
    * a pending box must be a CovIBUList-unknown box (the reader's `cov.CovManifold::is_unknown(i)` resolves to the
      inherited `CovIBUList::is_unknown`; the error message says "CovManifold unknown", the format text "CovIUList
      unknown"): a pending index may designate a manifold *boundary* box of type EQU_ONLY/FULL_RANK;
    * count checks of the readers (`Ni > N`, `Nb > nb_unknown` ...) are implied by the per-index checks and are
      not modelled separately (same set of accepted files; only the error message may differ).
  Where the real readers deviate from the format they write, the model follows the FORMAT (this is what
  the theorems are about) and the correspondence check reports the deviation:
    * `CovIUList::read` returns early when the list is empty, without consuming its own header entry and
      its `Ni` field (the model always reads the layer);
    * `CovManifold::read_varset` accepts a parameter index equal to n and duplicated indices
      (the model requires index < n and no duplicate);
    * `CovOptimData::read` dereferences box 0 when the loup flag is 1 even when the list is empty
      (the model rejects).
  No Mathlib import (linked into the driver).
-/
namespace Ibex.Cov

abbrev Bytes := List UInt8

inductive CovErr where
  | eof            -- unexpected end of file
  | badSignature   -- not an Ibex "cover" file
  | badVersion     -- unsupported (root) format version
  | badEnum        -- unknown boundary type / status identifier
  | badIndex       -- index list not strictly increasing / out of range / wrong status of the designated box
  | badVarset      -- parameter index out of range or duplicated
  | badLoup        -- loup flag set but no first box / extended space of dimension 0
deriving DecidableEq, Repr, Inhabited

def CovErr.name : CovErr → String
  | .eof => "eof" | .badSignature => "signature" | .badVersion => "version" | .badEnum => "enum"
  | .badIndex => "index" | .badVarset => "varset" | .badLoup => "loup"

/-- A parser consumes a prefix of the input and returns the rest. -/
def P (α : Type) := Bytes → Except CovErr (α × Bytes)

namespace P
@[inline] def pure' (a : α) : P α := fun bs => .ok (a, bs)
@[inline] def bind' (p : P α) (f : α → P β) : P β := fun bs =>
  match p bs with
  | .error e => .error e
  | .ok (a, r) => f a r
instance : Monad P where
  pure := pure'
  bind := bind'
/-- fail with `e` unless `c` -/
def check (c : Bool) (e : CovErr) : P Unit := fun bs => if c then .ok ((), bs) else .error e
end P
open P

/-! ## primitive fields -/

/-- k bytes little endian of x (mod 256^k) -/
def leBytes : Nat → Nat → Bytes
  | 0, _ => []
  | k + 1, x => UInt8.ofNat (x % 256) :: leBytes k (x / 256)

def leVal : Bytes → Nat
  | [] => 0
  | b :: bs => b.toNat + 256 * leVal bs

def splitN : Nat → Bytes → Option (Bytes × Bytes)
  | 0, bs => some ([], bs)
  | _ + 1, [] => none
  | k + 1, b :: bs =>
    match splitN k bs with
    | none => none
    | some (h, r) => some (b :: h, r)

def putU32 (x : Nat) : Bytes := leBytes 4 x
def getU32 : P Nat := fun bs =>
  match splitN 4 bs with
  | none => .error .eof
  | some (h, r) => .ok (leVal h, r)

def putF64 (x : UInt64) : Bytes := leBytes 8 x.toNat
def getF64 : P UInt64 := fun bs =>
  match splitN 8 bs with
  | none => .error .eof
  | some (h, r) => .ok (UInt64.ofNat (leVal h), r)

/-- C string: the bytes up to the first NUL -/
def putName (s : Bytes) : Bytes := s ++ [0]
def getName : P Bytes
  | [] => .error .eof
  | b :: bs =>
    if b = 0 then .ok ([], bs) else
    match getName bs with
    | .error e => .error e
    | .ok (s, r) => .ok (b :: s, r)

/-- k repetitions of p -/
def rep (p : P α) : Nat → P (List α)
  | 0 => fun bs => .ok ([], bs)
  | k + 1 => fun bs =>
    match p bs with
    | .error e => .error e
    | .ok (a, r) =>
      match rep p k r with
      | .error e => .error e
      | .ok (as, r') => .ok (a :: as, r')

abbrev RawItv := UInt64 × UInt64
abbrev RawBox := List RawItv

def encItv (x : RawItv) : Bytes := putF64 x.1 ++ putF64 x.2
def getItv : P RawItv := do
  let lo ← getF64
  let hi ← getF64
  pure (lo, hi)
def encBox (b : RawBox) : Bytes := b.flatMap encItv
def getBox (n : Nat) : P RawBox := rep getItv n

def sigBytes : Bytes := [73, 66, 69, 88, 32, 67, 79, 86, 69, 82, 73, 78, 71, 32, 70, 73, 76, 69, 32, 0]
def getSig : P Unit := fun bs =>
  match splitN 20 bs with
  | none => .error .eof
  | some (h, r) => if h = sigBytes then .ok ((), r) else .error .badSignature

def strictInc : List Nat → Bool
  | a :: b :: t => a < b && strictInc (b :: t)
  | _ => true

def nodupB : List Nat → Bool
  | [] => true
  | a :: t => !t.contains a && nodupB t

/-! ## layers -/

structure LCov where
  n : Nat
deriving DecidableEq, Repr

def LCov.enc (l : LCov) : Bytes := putU32 l.n
def getLCov : P LCov := do
  let n ← getU32
  pure ⟨n⟩

structure LList where
  boxes : List RawBox
deriving DecidableEq, Repr

def LList.enc (l : LList) : Bytes := putU32 l.boxes.length ++ l.boxes.flatMap encBox
def getLList (n : Nat) : P LList := do
  let k ← getU32
  let bx ← rep (getBox n) k
  pure ⟨bx⟩

structure LIU where
  inner : List Nat
deriving DecidableEq, Repr

def LIU.enc (l : LIU) : Bytes := putU32 l.inner.length ++ l.inner.flatMap putU32
/-- indices strictly increasing ("not in increasing order", "duplicated index") and < N ("invalid inner box index") -/
def LIU.ok (size : Nat) (l : LIU) : Bool := strictInc l.inner && l.inner.all (· < size)
def getLIU (size : Nat) : P LIU := do
  let k ← getU32
  let idx ← rep getU32 k
  check (LIU.ok size ⟨idx⟩) .badIndex
  pure ⟨idx⟩

structure LIBU where
  btype : Nat
  boundary : List Nat
deriving DecidableEq, Repr

def LIBU.enc (l : LIBU) : Bytes := putU32 l.btype ++ putU32 l.boundary.length ++ l.boundary.flatMap putU32
def LIBU.okIdx (size : Nat) (inner : List Nat) (l : LIBU) : Bool :=
  strictInc l.boundary && l.boundary.all (fun i => decide (i < size) && !inner.contains i)
def getLIBU (size : Nat) (inner : List Nat) : P LIBU := do
  let bt ← getU32
  let k ← getU32
  let idx ← rep getU32 k
  check (decide (bt ≤ 1)) .badEnum
  check (LIBU.okIdx size inner ⟨bt, idx⟩) .badIndex
  pure ⟨bt, idx⟩

structure Sol where
  idx : Nat
  varset : List Nat
  unicity : RawBox
deriving DecidableEq, Repr

structure Bnd where
  idx : Nat
  varset : List Nat
deriving DecidableEq, Repr

structure LMan where
  m : Nat
  nbIneq : Nat
  btype : Nat
  sols : List Sol      -- written only when m > 0 (when m = 0 the solutions are the inner boxes)
  bnds : List Bnd
deriving DecidableEq, Repr

def Sol.enc (s : Sol) : Bytes := putU32 s.idx ++ s.varset.flatMap putU32 ++ encBox s.unicity
def Bnd.enc (b : Bnd) : Bytes := putU32 b.idx ++ b.varset.flatMap putU32
def LMan.enc (l : LMan) : Bytes :=
  putU32 l.m ++ putU32 l.nbIneq ++ putU32 l.btype
  ++ (if l.m > 0 then putU32 l.sols.length ++ l.sols.flatMap Sol.enc else [])
  ++ putU32 l.bnds.length ++ l.bnds.flatMap Bnd.enc

/-- number of parameter indices stored with a solution (only used when m > 0) -/
def solVarLen (n m : Nat) : Nat := if m < n then n - m else 0
/-- number of parameter indices stored with a boundary box -/
def bndVarLen (n m : Nat) : Nat := if 0 < m ∧ m < n then n - m else 0

def getSol (n m : Nat) : P Sol := do
  let i ← getU32
  let vs ← rep getU32 (solVarLen n m)
  let u ← getBox n
  pure ⟨i, vs, u⟩
def getBnd (n m : Nat) : P Bnd := do
  let i ← getU32
  let vs ← rep getU32 (bndVarLen n m)
  pure ⟨i, vs⟩

def varsetOk (n : Nat) (vs : List Nat) : Bool := vs.all (· < n) && nodupB vs

def LMan.solIdx (l : LMan) : List Nat := l.sols.map (·.idx)
def LMan.bndIdx (l : LMan) : List Nat := l.bnds.map (·.idx)
/-- indices of the manifold "solution" boxes: explicit when m > 0, the inner boxes when m = 0 -/
def LMan.effSols (inner : List Nat) (l : LMan) : List Nat := if l.m > 0 then l.solIdx else inner

def LMan.okIdx (size : Nat) (inner ibuB : List Nat) (l : LMan) : Bool :=
  (decide (l.m = 0) || inner.isEmpty)                      -- "should not contain solutions in addition to inner boxes"
  && strictInc l.solIdx
  && l.solIdx.all (fun i => decide (i < size) && ibuB.contains i)   -- a solution is a CovIBUList boundary box
  && strictInc l.bndIdx
  && l.bndIdx.all (fun i => decide (i < size) && !(l.effSols inner).contains i
        && (if l.btype = 2 then ibuB.contains i else (!inner.contains i && !ibuB.contains i)))
def LMan.okVar (n : Nat) (l : LMan) : Bool :=
  l.sols.all (fun s => varsetOk n s.varset) && l.bnds.all (fun b => varsetOk n b.varset)

def getLMan (n size : Nat) (inner ibuB : List Nat) : P LMan := do
  let m ← getU32
  let q ← getU32
  let bt ← getU32
  let sols ← (if m > 0 then (do let k ← getU32; rep (getSol n m) k) else pure [])
  let kb ← getU32
  let bnds ← rep (getBnd n m) kb
  check (decide (bt ≤ 2)) .badEnum
  check (LMan.okVar n ⟨m, q, bt, sols, bnds⟩) .badVarset
  check (LMan.okIdx size inner ibuB ⟨m, q, bt, sols, bnds⟩) .badIndex
  pure ⟨m, q, bt, sols, bnds⟩

structure LSol where
  names : List Bytes
  status : Nat
  time : UInt64
  nbCells : Nat
  pending : List Nat
deriving DecidableEq, Repr

def LSol.enc (l : LSol) : Bytes :=
  l.names.flatMap putName ++ putU32 l.status ++ putF64 l.time ++ putU32 l.nbCells
  ++ putU32 l.pending.length ++ l.pending.flatMap putU32
/-- a pending box is a CovIBUList unknown box (the reader calls `cov.CovManifold::is_unknown(i)`, which is the
    inherited `CovIBUList::is_unknown`: `CovManifold` declares no `is_unknown`) -/
def LSol.okIdx (size : Nat) (inner ibuB : List Nat) (l : LSol) : Bool :=
  strictInc l.pending && l.pending.all (fun i => decide (i < size) && !inner.contains i && !ibuB.contains i)
def getLSol (n size : Nat) (inner ibuB : List Nat) : P LSol := do
  let names ← rep getName n
  let st ← getU32
  let t ← getF64
  let c ← getU32
  let k ← getU32
  let idx ← rep getU32 k
  check (decide (st ≤ 5)) .badEnum
  check (LSol.okIdx size inner ibuB ⟨names, st, t, c, idx⟩) .badIndex
  pure ⟨names, st, t, c, idx⟩

structure LOpt where
  names : List Bytes
  status : Nat
  ext : Nat          -- raw flag: the reader converts with `(bool)`, the writer writes 0/1
  uplo : UInt64
  uploEps : UInt64
  loup : UInt64
  loupFound : Nat    -- raw flag: the reader tests `== 1`, the writer writes 0/1
  time : UInt64
  nbCells : Nat
deriving DecidableEq, Repr

def LOpt.enc (l : LOpt) : Bytes :=
  l.names.flatMap putName ++ putU32 l.status ++ putU32 l.ext ++ putF64 l.uplo ++ putF64 l.uploEps
  ++ putF64 l.loup ++ putU32 l.loupFound ++ putF64 l.time ++ putU32 l.nbCells
def LOpt.okLoup (n size : Nat) (l : LOpt) : Bool :=
  (decide (l.loupFound ≠ 1) || decide (0 < size)) && (decide (l.ext = 0) || decide (0 < n))
def getLOpt (n size : Nat) : P LOpt := do
  let names ← rep getName n
  let st ← getU32
  let ext ← getU32
  let uplo ← getF64
  let ue ← getF64
  let loup ← getF64
  let lf ← getU32
  let t ← getF64
  let c ← getU32
  check (decide (st ≤ 5)) .badEnum
  check (LOpt.okLoup n size ⟨names, st, ext, uplo, ue, loup, lf, t, c⟩) .badLoup
  pure ⟨names, st, ext, uplo, ue, loup, lf, t, c⟩

/-! ## whole file -/

inductive Kind where
  | cov | list | iu | ibu | man | sol | opt
deriving DecidableEq, Repr, Inhabited

def Kind.wList : Kind → Bool | .cov => false | _ => true
def Kind.wIU : Kind → Bool | .iu | .ibu | .man | .sol => true | _ => false
def Kind.wIBU : Kind → Bool | .ibu | .man | .sol => true | _ => false
def Kind.wMan : Kind → Bool | .man | .sol => true | _ => false
def Kind.wSol : Kind → Bool | .sol => true | _ => false
def Kind.wOpt : Kind → Bool | .opt => true | _ => false

/-- (subformat number, format version) of each class -/
abbrev Tag := Nat × Nat
def tagCov : Tag := (0, 1)
def tagList : Tag := (0, 1)
def tagIU : Tag := (0, 1)
def tagIBU : Tag := (0, 1)
def tagMan : Tag := (0, 1)
def tagSol : Tag := (0, 2)
def tagOpt : Tag := (1, 1)

/-- What a reader has found in a file: the format chain of the header as it is in the file, and the
    layers that were read (`none` = layer skipped, its content keeps the default). -/
structure CovFile where
  ids : List Nat
  vers : List Nat
  cov : Option LCov := none
  list : Option LList := none
  iu : Option LIU := none
  ibu : Option LIBU := none
  man : Option LMan := none
  sol : Option LSol := none
  opt : Option LOpt := none
deriving DecidableEq, Repr

def encOpt (enc : α → Bytes) : Option α → Bytes
  | none => []
  | some a => enc a

def encHeader (ids vers : List Nat) : Bytes :=
  sigBytes ++ putU32 (ids.length - 1) ++ ids.flatMap putU32 ++ vers.flatMap putU32

def encode (f : CovFile) : Bytes :=
  encHeader f.ids f.vers
  ++ encOpt LCov.enc f.cov ++ encOpt LList.enc f.list ++ encOpt LIU.enc f.iu ++ encOpt LIBU.enc f.ibu
  ++ encOpt LMan.enc f.man ++ encOpt LSol.enc f.sol ++ encOpt LOpt.enc f.opt

/-- effective content (defaults of skipped layers) -/
def CovFile.n (f : CovFile) : Nat := match f.cov with | some c => c.n | none => 0
def CovFile.boxes (f : CovFile) : List RawBox := match f.list with | some l => l.boxes | none => []
def CovFile.size (f : CovFile) : Nat := f.boxes.length
def CovFile.inner (f : CovFile) : List Nat := match f.iu with | some l => l.inner | none => []
def CovFile.ibuB (f : CovFile) : List Nat := match f.ibu with | some l => l.boundary | none => []
def CovFile.effSols (f : CovFile) : List Nat := match f.man with | some l => l.effSols f.inner | none => f.inner
def CovFile.manB (f : CovFile) : List Nat := match f.man with | some l => l.bndIdx | none => []
def CovFile.pending (f : CovFile) : List Nat := match f.sol with | some l => l.pending | none => []

/-- one layer of a reader: read it iff the reader's class has this layer and the top of the stack is the
    layer's tag; otherwise skip WITHOUT popping -/
def layer (want : Bool) (stk : List Tag) (tag : Tag) (p : P α) : P (Option α × List Tag) :=
  if want then
    match stk with
    | t :: rest => if t = tag then (do let a ← p; pure (some a, rest)) else pure (none, stk)
    | [] => pure (none, stk)
  else pure (none, stk)

def optD (d : β) (f : α → β) : Option α → β
  | none => d
  | some a => f a

/-- the reader of class `k` (constructor `CovXxx(const char* filename)`) -/
def decode (k : Kind) : P CovFile := do
  getSig
  let level ← getU32
  let ids ← rep getU32 (level + 1)
  let vers ← rep getU32 (level + 1)
  check (decide (vers.headD 0 ≤ 1)) .badVersion
  let r1 ← layer true (ids.zip vers) tagCov getLCov
  let n := optD 0 LCov.n r1.1
  let r2 ← layer k.wList r1.2 tagList (getLList n)
  let size := optD 0 (fun l => l.boxes.length) r2.1
  let r3 ← layer k.wIU r2.2 tagIU (getLIU size)
  let inner := optD [] LIU.inner r3.1
  let r4 ← layer k.wIBU r3.2 tagIBU (getLIBU size inner)
  let ibuB := optD [] LIBU.boundary r4.1
  let r5 ← layer k.wMan r4.2 tagMan (getLMan n size inner ibuB)
  let r6 ← layer k.wSol r5.2 tagSol (getLSol n size inner ibuB)
  let r7 ← layer k.wOpt r6.2 tagOpt (getLOpt n size)
  pure { ids := ids, vers := vers, cov := r1.1, list := r2.1, iu := r3.1, ibu := r4.1, man := r5.1,
         sol := r6.1, opt := r7.1 }

/-! ## well-formed content of class `k` (what objects built through the API satisfy) -/

def u32 : Nat := 4294967296

def Kind.ids : Kind → List Nat
  | .cov => [0] | .list => [0, 0] | .iu => [0, 0, 0] | .ibu => [0, 0, 0, 0] | .man => [0, 0, 0, 0, 0]
  | .sol => [0, 0, 0, 0, 0, 0] | .opt => [0, 0, 1]
def Kind.vers : Kind → List Nat
  | .cov => [1] | .list => [1, 1] | .iu => [1, 1, 1] | .ibu => [1, 1, 1, 1] | .man => [1, 1, 1, 1, 1]
  | .sol => [1, 1, 1, 1, 1, 2] | .opt => [1, 1, 1]

def nameOk (s : Bytes) : Bool := !s.contains 0

def LList.wf (n : Nat) (l : LList) : Bool := decide (l.boxes.length < u32) && l.boxes.all (fun b => b.length == n)
def LIU.wf (size : Nat) (l : LIU) : Bool := decide (l.inner.length < u32) && l.ok size
def LIBU.wf (size : Nat) (inner : List Nat) (l : LIBU) : Bool :=
  decide (l.btype ≤ 1) && decide (l.boundary.length < u32) && l.okIdx size inner
def Sol.wf (n m : Nat) (s : Sol) : Bool := s.varset.length == solVarLen n m && s.unicity.length == n
def Bnd.wf (n m : Nat) (b : Bnd) : Bool := b.varset.length == bndVarLen n m
def LMan.wf (n size : Nat) (inner ibuB : List Nat) (l : LMan) : Bool :=
  decide (l.m < u32) && decide (l.nbIneq < u32) && decide (l.btype ≤ 2)
  && decide (l.sols.length < u32) && decide (l.bnds.length < u32)
  && (decide (0 < l.m) || l.sols.isEmpty)
  && l.sols.all (Sol.wf n l.m) && l.bnds.all (Bnd.wf n l.m)
  && l.okVar n && l.okIdx size inner ibuB
def LSol.wf (n size : Nat) (inner ibuB : List Nat) (l : LSol) : Bool :=
  l.names.length == n && l.names.all nameOk && decide (l.status ≤ 5) && decide (l.nbCells < u32)
  && decide (l.pending.length < u32) && l.okIdx size inner ibuB
def LOpt.wf (n size : Nat) (l : LOpt) : Bool :=
  l.names.length == n && l.names.all nameOk && decide (l.status ≤ 5) && decide (l.ext < u32)
  && decide (l.loupFound < u32) && decide (l.nbCells < u32) && l.okLoup n size

/-- `WF k f`: `f` is the content of an object of class `k`: canonical format chain, exactly the layers
    of `k`, every count/dimension consistent, index lists strictly increasing, in range, and designating
    boxes of the required status in the parent layer, varsets without duplicates and in range, names
    without NUL, every integer representable on 32 bits. Decidable (a `Bool`). -/
def WF (k : Kind) (f : CovFile) : Bool :=
  f.ids == k.ids && f.vers == k.vers
  && (match f.cov with | some c => decide (c.n < u32) | none => false)
  && (match f.list with | some l => k.wList && l.wf f.n | none => !k.wList)
  && (match f.iu with | some l => k.wIU && l.wf f.size | none => !k.wIU)
  && (match f.ibu with | some l => k.wIBU && l.wf f.size f.inner | none => !k.wIBU)
  && (match f.man with | some l => k.wMan && l.wf f.n f.size f.inner f.ibuB | none => !k.wMan)
  && (match f.sol with | some l => k.wSol && l.wf f.n f.size f.inner f.ibuB | none => !k.wSol)
  && (match f.opt with | some l => k.wOpt && l.wf f.n f.size | none => !k.wOpt)

/-! ## the content as seen through the API after loading (statuses per box, defaults, intervals) -/

def dNaN : UInt64 := 0x7ff8000000000000
def dPInf : UInt64 := 0x7ff0000000000000
def dNInf : UInt64 := 0xfff0000000000000
def dMinusOne : UInt64 := 0xbff0000000000000

def isNaN (x : UInt64) : Bool :=
  (x &&& 0x7ff0000000000000) == 0x7ff0000000000000 && (x &&& 0x000fffffffffffff) != 0
def dKey (x : UInt64) : Int :=
  let mag : Int := ((x &&& 0x7fffffffffffffff).toNat : Int)
  if (x >>> 63) == 1 then -mag else mag
/-- IEEE `a > b` on bit patterns -/
def dGt (a b : UInt64) : Bool := !isNaN a && !isNaN b && decide (dKey a > dKey b)

/-- `Interval(lb, ub)`: the empty set when lb = +oo, ub = -oo or lb > ub, else the bounds as they are -/
def normItv (x : RawItv) : RawItv :=
  if x.1 == dPInf || x.2 == dNInf || dGt x.1 x.2 then (dNaN, dNaN) else x
/-- `Interval::is_empty()` -/
def isEmptyItv (x : RawItv) : Bool := isNaN x.1 || isNaN x.2 || dGt x.1 x.2

def CovFile.iuStatus (f : CovFile) (i : Nat) : Char := if f.inner.contains i then 'I' else 'U'
def CovFile.ibuStatus (f : CovFile) (i : Nat) : Char := if f.ibuB.contains i then 'B' else f.iuStatus i
def CovFile.manStatus (f : CovFile) (i : Nat) : Char :=
  if f.effSols.contains i then 'S' else if f.manB.contains i then 'B' else 'U'
def CovFile.solStatus (f : CovFile) (i : Nat) : Char :=
  if f.pending.contains i then 'P' else f.manStatus i

end Ibex.Cov
