/-
  C19, last sentence: "set pavings label a leaf inside/outside only if all its points are".

  * `SE`: expression tree denoting a THICK set `[lo, hi]` (`lo` = points certainly in the set, `hi` = points
    possibly in the set) over exact leaves: closed unions of boxes with rational (= binary64) bounds, polynomial
    constraints, inverse images; complement, intersection, union, `thick a b = [lo a, hi b]`.
    A separator leaf given by the pair (U,V) of the C19 model (points outside V are in the set, points outside U
    are not) is `SE.leaf U V = thick (not (cl V)) (cl U)`.
  * `SE.mem e p = (p ∈ lo, p ∈ hi)` decided exactly at a rational point `p`.
  * the cell-by-cell oracle: for a `boxy` expression (no polynomial) membership is constant on the cells of the grid
    of all bounds that occur (`SE.cuts`); `repsIn` enumerates one rational representative per cell of a box.
  * `pavingOk`: the checker run on the leaves printed by the real `ibex::Set` / `ibex::SetInterval`.

  Boundary convention.  The leaves are closed boxes sharing faces and the library computes differences of boxes up to
  their closure (`Interval::diff`, `IntervalVector::diff`: a degenerate piece is dropped), so the labels are claims up to
  the boundary, as for closed sets:
      YES leaf `b`:  every point of `b` is possibly in (`hi`), and is a limit of points of `b` that are certainly in (`lo`)
                     (every full-dimensional cell of `b` is in `lo`);
      NO  leaf `b`:  no point of `b` is certainly in (`lo`), and every point of `b` is a limit of points of `b` that are
                     certainly out (no full-dimensional cell of `b` meets `hi`);
      MAYBE leaf:    no claim.
  For a thin set (lo = interior, hi = closure) this reads: a YES leaf is included in the closed set, a NO leaf is disjoint
  from its interior (`Set::Set(box, YES)` inserts a one-float MAYBE ring between the YES box and the NO leaves for that).
  Soundness for all real points: `IbexProofs/SetPaving.lean`.   No Mathlib import.
-/
import IbexModel.Box
namespace Ibex.SetPaving
open Ibex

abbrev RPt := List Rat

inductive St where
  | yes | no | maybe
deriving DecidableEq, Repr, Inhabited

inductive Cmp where
  | lt | le | eq | ge | gt
deriving DecidableEq, Repr, Inhabited

/-! ### polynomials with rational coefficients -/

structure Mono where
  coef : Rat
  exps : List Nat
deriving Repr, Inhabited

abbrev Poly := List Mono

def monoVal : RPt → List Nat → Rat
  | v :: pt, e :: exps => v ^ e * monoVal pt exps
  | _, _ => 1

def polyEval : Poly → RPt → Rat
  | [], _ => 0
  | m :: p, pt => m.coef * monoVal pt m.exps + polyEval p pt

/-! ### rational points and boxes -/

def inItv (v : Rat) : Itv → Bool
  | .empty => false
  | .mk lo hi => Ext.le lo (.fin v) && Ext.le (.fin v) hi

/-- strictly inside (topological interior: an infinite bound is not a boundary) -/
def sinItv (v : Rat) : Itv → Bool
  | .empty => false
  | .mk lo hi => Ext.lt lo (.fin v) && Ext.lt (.fin v) hi

def inBox : RPt → Box → Bool
  | [], [] => true
  | v :: p, I :: b => inItv v I && inBox p b
  | _, _ => false

def sinBox : RPt → Box → Bool
  | [], [] => true
  | v :: p, I :: b => sinItv v I && sinBox p b
  | _, _ => false

def inAny (p : RPt) (W : List Box) : Bool := W.any (inBox p)

/-- insertion in a strictly increasing list (structural recursion: the kernel can evaluate it) -/
def insertCut (x : Rat) : List Rat → List Rat
  | [] => [x]
  | c :: cs => if x < c then x :: c :: cs else if x = c then c :: cs else c :: insertCut x cs

/-- sorted, without duplicates (linear time on an increasing list) -/
def sortCuts (l : List Rat) : List Rat := l.foldr insertCut []

/-! ### set expressions -/

inductive SE where
  | univ
  | cl (W : List Box)              -- the closed set: union of the boxes of W (lo = hi)
  | cmp (op : Cmp) (f : Poly)      -- f(x) op 0; thick boundary {f = 0}
  | inv (f : Poly) (s : SE)        -- { x | (f x) ∈ s }, s a set of the real line
  | not (s : SE)
  | inter (a b : SE)
  | union (a b : SE)
  | thick (a b : SE)               -- [lo a, hi b]
  | meet (a b : SE)                -- i-set intersection (information of both): [lo a ∪ lo b, hi a ∩ hi b]
deriving Inhabited

namespace SE

/-- (p certainly in, p possibly in) -/
def mem : SE → RPt → Bool × Bool
  | .univ, _ => (true, true)
  | .cl W, p => (inAny p W, inAny p W)
  | .cmp op f, p =>
    let v := polyEval f p
    match op with
    | .lt => (decide (v < 0), decide (v ≤ 0))
    | .le => (decide (v < 0), decide (v ≤ 0))
    | .ge => (decide (0 < v), decide (0 ≤ v))
    | .gt => (decide (0 < v), decide (0 ≤ v))
    | .eq => (false, decide (v = 0))
  | .inv f s, p => s.mem [polyEval f p]
  | .not s, p => let x := s.mem p; (!x.2, !x.1)
  | .inter a b, p => let x := a.mem p; let y := b.mem p; (x.1 && y.1, x.2 && y.2)
  | .union a b, p => let x := a.mem p; let y := b.mem p; (x.1 || y.1, x.2 || y.2)
  | .thick a b, p => ((a.mem p).1, (b.mem p).2)
  | .meet a b, p => let x := a.mem p; let y := b.mem p; (x.1 || y.1, x.2 && y.2)

def lo (e : SE) (p : RPt) : Bool := (e.mem p).1
def hi (e : SE) (p : RPt) : Bool := (e.mem p).2

/-- no polynomial: membership is constant on the cells of the grid `cuts` -/
def boxy : SE → Bool
  | .univ => true
  | .cl _ => true
  | .cmp _ _ => false
  | .inv _ _ => false
  | .not s => s.boxy
  | .inter a b => a.boxy && b.boxy
  | .union a b => a.boxy && b.boxy
  | .thick a b => a.boxy && b.boxy
  | .meet a b => a.boxy && b.boxy

def finBounds : Itv → List Rat
  | .mk lo hi => (match lo with | .fin a => [a] | _ => []) ++ (match hi with | .fin b => [b] | _ => [])
  | .empty => []

def boxCuts (b : Box) (j : Nat) : List Rat := finBounds (b.getD j .empty)

/-- the finite bounds occurring in coordinate `j` -/
def cuts : SE → Nat → List Rat
  | .univ, _ => []
  | .cl W, j => W.flatMap fun b => boxCuts b j
  | .cmp _ _, _ => []
  | .inv _ _, _ => []
  | .not s, j => s.cuts j
  | .inter a b, j => a.cuts j ++ b.cuts j
  | .union a b, j => a.cuts j ++ b.cuts j
  | .thick a b, j => a.cuts j ++ b.cuts j
  | .meet a b, j => a.cuts j ++ b.cuts j

/-- the cuts of the coordinates `0 .. n-1`, computed once, sorted, without duplicates -/
def cutTable (e : SE) (n : Nat) : List (List Rat) := (List.range n).map fun j => sortCuts (e.cuts j)

/-- `cuts` read in a table (same points as `e.cuts j`, see `fastCuts_sup`) -/
def fastCuts (e : SE) (t : List (List Rat)) (j : Nat) : List Rat :=
  match t[j]? with
  | some l => l
  | none => e.cuts j

/-! derived forms -/

def none : SE := .not .univ
/-- separator leaf (U,V): certainly in = outside V, possibly in = inside U -/
def leaf (U V : List Box) : SE := .thick (.not (.cl V)) (.cl U)
def interL : List SE → SE
  | [] => .univ
  | [a] => a
  | a :: l => .inter a (interL l)
def unionL : List SE → SE
  | [] => none
  | [a] => a
  | a :: l => .union a (unionL l)
/-- the points belonging to at least `k` of the sets -/
def atLeast : Nat → List SE → SE
  | 0, _ => .univ
  | _ + 1, [] => none
  | k + 1, a :: l => .union (.inter a (atLeast k l)) (atLeast (k + 1) l)
end SE

/-! ### representatives of the cells -/

/-- representatives of the cells of the real line cut at the points `cs`: the points themselves, one point in every
    gap, one point on each side -/
def gapReps : Rat → List Rat → List Rat
  | prev, [] => [prev + 1]
  | prev, c :: cs => (prev + c) / 2 :: c :: gapReps c cs

def lineReps (cs : List Rat) : List Rat :=
  match sortCuts cs with
  | [] => [0]
  | c :: cs => (c - 1) :: c :: gapReps c cs

/-- representatives of the cells of the box `b` for the grid `cuts` (coordinate `j` of the grid is coordinate
    `j - off` of the box) refined by the bounds of `b` itself -/
def repsIn (cuts : Nat → List Rat) : Nat → Box → List RPt
  | _, [] => [[]]
  | off, I :: b =>
    let l := (lineReps (cuts off ++ SE.finBounds I)).filter (inItv · I)
    let r := repsIn cuts (off + 1) b
    l.flatMap fun v => r.map (v :: ·)

/-- representatives of the full-dimensional cells (every coordinate strictly inside the box and off the grid) -/
def gapsIn (cuts : Nat → List Rat) : Nat → Box → List RPt
  | _, [] => [[]]
  | off, I :: b =>
    let cs := cuts off ++ SE.finBounds I
    let l := (lineReps cs).filter fun v => sinItv v I && !cs.contains v
    let r := gapsIn cuts (off + 1) b
    l.flatMap fun v => r.map (v :: ·)

/-! ### the checker -/

structure Leaf where
  box : Box
  st : St
deriving Inhabited

/-- the information is contradictory at `r` (certainly in and certainly out): possible for i-sets only -/
def incons (e : SE) (r : RPt) : Bool := e.lo r && !e.hi r

/-- no point of the space of dimension `n` is certainly in and certainly out (then `lo` itself is a set of the i-set) -/
def consistentOk (e : SE) (n : Nat) : Bool :=
  (repsIn (e.fastCuts (e.cutTable n)) 0 (List.replicate n Itv.all)).all fun r => !incons e r

/-- rule at any point of a leaf: a YES leaf is possibly in, a NO leaf is not certainly in -/
def okB (e : SE) (st : St) (r : RPt) : Bool :=
  match st with
  | .yes => e.hi r
  | .no => !e.lo r
  | .maybe => true

/-- rule at the points of the full-dimensional cells of a leaf: a YES leaf is certainly in, a NO leaf certainly out -/
def okR (e : SE) (st : St) (r : RPt) : Bool :=
  match st with
  | .yes => e.lo r
  | .no => !e.hi r
  | .maybe => true

/-- all cells of the leaf for the grid `cuts` (decides the claim of the leaf when `e` is boxy and `cuts` contains the
    cuts of `e`); `iset`: only the full-dimensional cells are examined (`SetInterval(box, MAYBE)` puts NO leaves in
    contact with the box) -/
def leafOkW (cuts : Nat → List Rat) (iset : Bool) (e : SE) (L : Leaf) : Bool :=
  L.st == .maybe ||
    ((iset || (repsIn cuts 0 L.box).all (okB e L.st)) && (gapsIn cuts 0 L.box).all (okR e L.st))

/-- the leaves cover the whole space of dimension `n`: peel the leaves off the list of uncovered boxes -/
def uncovered (leaves : List Leaf) (acc : List Box) : List Box :=
  leaves.foldl (fun acc L => acc.flatMap fun x => Box.diff x L.box) acc

def coverOk (n : Nat) (leaves : List Leaf) : Bool :=
  leaves.all (fun L => L.box.length == n) &&
    (uncovered leaves [List.replicate n Itv.all]).all Box.isEmpty

/-- the checker for expressions over exact leaves -/
def pavingOk (iset : Bool) (e : SE) (n : Nat) (leaves : List Leaf) : Bool :=
  e.boxy && coverOk n leaves && leaves.all (leafOkW (e.fastCuts (e.cutTable n)) iset e)

/-- refutation by exact points (any expression): the leaf is wrong at one of the points -/
def leafRefuted (iset : Bool) (e : SE) (L : Leaf) (pts : List RPt) : Option RPt :=
  pts.find? fun r => (if iset then sinBox r L.box else inBox r L.box) && !okB e L.st r

/-- `is_superset(B) = YES`: same claim as a YES leaf `B` -/
def supOk (e : SE) (n : Nat) (B : Box) : Bool :=
  e.boxy && leafOkW (e.fastCuts (e.cutTable n)) false e { box := B, st := .yes }

/-- `Sep::separate(x) = (xin, xout)`: every point removed from `xin` is certainly in, every point removed from
    `xout` is certainly not in (the grid is refined by the bounds of the two results) -/
def sepOkAt (e : SE) (xin xout : Box) (r : RPt) : Bool :=
  (inBox r xin || e.lo r) && (inBox r xout || !e.hi r)

def sepCuts (cuts : Nat → List Rat) (xin xout : Box) (j : Nat) : List Rat :=
  cuts j ++ (SE.boxCuts xin j ++ SE.boxCuts xout j)

def sepOk (e : SE) (x xin xout : Box) : Bool :=
  e.boxy && (repsIn (sepCuts (e.fastCuts (e.cutTable x.length)) xin xout) 0 x).all (sepOkAt e xin xout)

end Ibex.SetPaving
