/-
  Interval operators generic in the rounding pair.  `Rnd.dbl` (binary64 directed rounding)
  gives the operators of `IbexModel.Itv`; `Rnd.exact` (no rounding) gives the exact real
  ranges with rational bounds, used to decide backward operators exactly.
-/
import IbexModel.Itv
namespace Ibex

structure Rnd where
  dn : Rat → Ext
  up : Rat → Ext

def Rnd.dbl : Rnd := ⟨rd, ru⟩
def Rnd.exact : Rnd := ⟨Ext.fin, Ext.fin⟩

namespace Itv

def addLoG (r : Rnd) : Ext → Ext → Ext
  | .fin a, .fin b => r.dn (a + b)
  | _, _ => .ninf
def addHiG (r : Rnd) : Ext → Ext → Ext
  | .fin a, .fin b => r.up (a + b)
  | _, _ => .pinf

def addG (r : Rnd) : Itv → Itv → Itv
  | mk a b, mk c d => mk (addLoG r a c) (addHiG r b d)
  | _, _ => empty

def subG (r : Rnd) (x y : Itv) : Itv := addG r x (neg y)

def mulG (r : Rnd) : Itv → Itv → Itv
  | mk a b, mk c d =>
    mk (min4 (mulExt r.dn a c) (mulExt r.dn a d) (mulExt r.dn b c) (mulExt r.dn b d))
       (max4 (mulExt r.up a c) (mulExt r.up a d) (mulExt r.up b c) (mulExt r.up b d))
  | _, _ => empty

def divPosG (r : Rnd) (a b c d : Ext) : Itv :=
  let z := Ext.fin 0
  mk (if Ext.le z a then divExt r.dn a d else divExt r.dn a c)
     (if Ext.le z b then divExt r.up b c else divExt r.up b d)

/-- Hull of { x/y : x ∈ X, y ∈ Y, y ≠ 0 } -/
def divG (r : Rnd) : Itv → Itv → Itv
  | mk a b, mk c d =>
    let z := Ext.fin 0
    if c == z && d == z then empty
    else if Ext.lt z c then divPosG r a b c d
    else if Ext.lt d z then divPosG r (Ext.neg b) (Ext.neg a) (Ext.neg d) (Ext.neg c)
    else if a == z && b == z then mk z z
    else if Ext.lt c z && Ext.lt z d then all
    else if c == z then
      if Ext.le z a then mk (divExt r.dn a d) .pinf
      else if Ext.le b z then mk .ninf (divExt r.up b d)
      else all
    else
      if Ext.le z a then mk .ninf (divExt r.up a c)
      else if Ext.le b z then mk (divExt r.dn b c) .pinf
      else all
  | _, _ => empty

def sqrG (r : Rnd) : Itv → Itv
  | empty => empty
  | mk a b =>
    let z := Ext.fin 0
    if Ext.le z a then mk (mulExt r.dn a a) (mulExt r.up b b)
    else if Ext.le b z then mk (mulExt r.dn b b) (mulExt r.up a a)
    else mk z (Ext.max (mulExt r.up a a) (mulExt r.up b b))

def powNatG (r : Rnd) (x : Itv) (n : Nat) : Itv :=
  match x with
  | empty => empty
  | mk a b =>
    if n = 0 then point 1
    else if n % 2 = 1 then mk (powExt r.dn n a) (powExt r.up n b)
    else
      let z := Ext.fin 0
      if Ext.le z a then mk (powExt r.dn n a) (powExt r.up n b)
      else if Ext.le b z then mk (powExt r.dn n b) (powExt r.up n a)
      else mk z (Ext.max (powExt r.up n a) (powExt r.up n b))

end Itv
end Ibex

namespace Ibex
namespace Itv
/-- generalized division: closed pieces whose union is the closure of { x/y : x ∈ X, y ∈ Y, y ≠ 0 }
    (0, 1 or 2 pieces; ibex's `div2`) -/
def div2G (r : Rnd) (x y : Itv) : List Itv :=
  let z := Ext.fin 0
  match x, y with
  | mk a b, mk c d =>
    if c == z && d == z then []
    else if a == z && b == z then [mk z z]
    else if Ext.lt z c || Ext.lt d z then [divG r x y]
    else
      (if Ext.lt c z then [divG r x (mk c z)] else []) ++ (if Ext.lt z d then [divG r x (mk z d)] else [])
  | _, _ => []

/-- acceptance of an implementation answer (out1,out2): every piece is inside one of them -/
def div2Ok (x y out1 out2 : Itv) : Bool :=
  out1.WF && out2.WF && (div2G Rnd.dbl x y).all fun p => subset p out1 || subset p out2
end Itv
end Ibex
