/-
  Interval derivatives (forward mode) and a verified-style uniqueness certificate:
  if, on a box H, the interval Jacobian [J] of a square system f, pre-multiplied by an
  (approximate, rational) inverse C of its midpoint, is strictly diagonally dominant, then every
  matrix of [J] is regular and f has AT MOST ONE zero in H (row-wise mean value theorem).
  Used to certify that a search cell replaced by / discarded in favour of a Newton existence box
  contains no other solution (C05), and uniqueness claims (C06, C09).
  Existence certificate (`existCertVars`, end of the file): Krawczyk operator with the exact rational
  inverse of the midpoint Jacobian as preconditioner; if K([x]) ⊆ [x] and ‖I − C[J]‖∞ < 1 then, for every
  value of the parameters, f has a zero in [x] (Banach fixed point; proved in IbexProofs/Props/C09exist.lean).
  No Mathlib import.
-/
import IbexModel.Expr
import IbexModel.Box
namespace Ibex

/-- value enclosure and gradient enclosure w.r.t. the n flattened variables -/
structure IDual where
  v : Itv
  g : List Itv
deriving Repr, BEq

namespace IDual
def R : Rnd := Rnd.dbl
def zeroG (n : Nat) : List Itv := List.replicate n (Itv.point 0)
def const (n : Nat) (x : Itv) : IDual := ⟨x, zeroG n⟩
/-- a·x.g + b·y.g -/
def lin (a : Itv) (x : IDual) (b : Itv) (y : IDual) : List Itv :=
  List.zipWith (fun p q => Itv.add (Itv.mul a p) (Itv.mul b q)) x.g y.g
def scale (a : Itv) (x : IDual) : List Itv := x.g.map (Itv.mul a)
def ok (d : IDual) : Option IDual := if d.v.isEmpty || d.g.any Itv.isEmpty then none else some d
end IDual

/-- interval forward-mode differentiation; only smooth rational operators -/
def Alg.idual (n : Nat) : Alg IDual where
  -- an ill-formed constant such as [3,1] denotes the empty set although it is not `Itv.empty`
  ofItv x := if x.isEmpty || !x.WF then none else some (IDual.const n x)
  zero := IDual.const n (Itv.point 0)
  add a b := IDual.ok ⟨Itv.add a.v b.v, IDual.lin (Itv.point 1) a (Itv.point 1) b⟩
  sub a b := IDual.ok ⟨Itv.sub a.v b.v, IDual.lin (Itv.point 1) a (Itv.point (-1)) b⟩
  mul a b := IDual.ok ⟨Itv.mul a.v b.v, IDual.lin b.v a a.v b⟩
  div a b :=
    if Itv.containsExt b.v (.fin 0) then none else
    -- d(a/b) = (1/b) da − (a/b²) db
    IDual.ok ⟨Itv.div a.v b.v,
      IDual.lin (Itv.div (Itv.point 1) b.v) a (Itv.neg (Itv.div a.v (Itv.sqr b.v))) b⟩
  max _ _ := none
  min _ _ := none
  un op := match op with
    | "minus" => some fun a => IDual.ok ⟨Itv.neg a.v, IDual.scale (Itv.point (-1)) a⟩
    | "sqr" => some fun a => IDual.ok ⟨Itv.sqr a.v, IDual.scale (Itv.mul (Itv.point 2) a.v) a⟩
    | _ => none
  pow a k :=
    if k = 0 then IDual.ok ⟨Itv.point 1, IDual.scale (Itv.point 0) a⟩
    else if k = 1 then some a
    else if k > 0 then
      IDual.ok ⟨Itv.powInt a.v k, IDual.scale (Itv.mul (Itv.point (k : Rat)) (Itv.powInt a.v (k - 1))) a⟩
    else if Itv.containsExt a.v (.fin 0) then none
    else IDual.ok ⟨Itv.powInt a.v k, IDual.scale (Itv.mul (Itv.point (k : Rat)) (Itv.powInt a.v (k - 1))) a⟩
  chi _ _ _ := none

namespace Newton

/-- interval Jacobian of the scalar DAGs `fs` over the box `h` (rows = functions) -/
def jacobian (progs : List (List Dag × Dag)) (h : Box) : Option (List (List Itv)) :=
  let n := h.length
  let env := h.zipIdx.map fun (q : Itv × Nat) =>
    (⟨q.1, (List.range n).map fun j => if j == q.2 then Itv.point 1 else Itv.point 0⟩ : IDual)
  progs.mapM fun (p : List Dag × Dag) =>
    match Eval.root (Alg.idual n) env (Eval.buildCalls (Alg.idual n) p.1) p.2 with
    | some m => (match m.d with | [d] => if d.g.length == n then some d.g else none | _ => none)
    | none => none

def midRat : Itv → Option Rat
  | .mk (.fin a) (.fin b) => some ((a + b) / 2)
  | _ => none

/-! exact rational Gauss–Jordan inverse (any approximate inverse is good enough: it is only a preconditioner) -/

def ratAbs (q : Rat) : Rat := if q < 0 then -q else q

/-- one elimination step on the augmented rows, pivot column k -/
def pivotStep (rows : List (List Rat)) (k : Nat) : Option (List (List Rat)) :=
  -- choose the row (index ≥ k) with the largest |entry k|
  let cand := (rows.zipIdx.filter fun (q : List Rat × Nat) => q.2 ≥ k)
  let best := cand.foldl (fun (acc : Option (List Rat × Nat)) q =>
    match acc with
    | none => some q
    | some a => if ratAbs (q.1.getD k 0) > ratAbs (a.1.getD k 0) then some q else acc) none
  match best with
  | none => none
  | some (prow, pi) =>
    let pv := prow.getD k 0
    if pv == 0 then none else
    let prow' := prow.map (· / pv)
    -- swap rows k and pi, normalise, eliminate
    let rows' := rows.zipIdx.map fun (q : List Rat × Nat) =>
      if q.2 == k then prow' else if q.2 == pi then (rows.getD k []) else q.1
    some (rows'.zipIdx.map fun (q : List Rat × Nat) =>
      if q.2 == k then q.1 else
        let f := q.1.getD k 0
        List.zipWith (fun a b => a - f * b) q.1 prow')

def inverse (m : List (List Rat)) : Option (List (List Rat)) :=
  let n := m.length
  let aug := m.zipIdx.map fun (q : List Rat × Nat) => q.1 ++ ((List.range n).map fun j => if j == q.2 then (1 : Rat) else 0)
  ((List.range n).foldlM (fun rows k => pivotStep rows k) aug).map fun rows => rows.map (·.drop n)

/-- C · [J] with exact... (outward rounded) interval arithmetic -/
def precond (c : List (List Rat)) (j : List (List Itv)) : List (List Itv) :=
  let n := j.length
  c.map fun crow =>
    (List.range n).map fun col =>
      (List.zip crow j).foldl (fun acc (q : Rat × List Itv) =>
        Itv.add acc (Itv.mul (Itv.point q.1) (q.2.getD col .empty))) (Itv.point 0)

def magQ : Itv → Option Rat
  | .mk (.fin a) (.fin b) => some (if ratAbs a > ratAbs b then ratAbs a else ratAbs b)
  | _ => none
def migQ : Itv → Option Rat
  | .mk (.fin a) (.fin b) => some (if a > 0 then a else if b < 0 then -b else 0)
  | _ => none

/-- strict diagonal dominance of an interval matrix: Σ_{j≠i} mag(M_ij) < mig(M_ii) for every row -/
def diagDominant (m : List (List Itv)) : Bool :=
  m.zipIdx.all fun (q : List Itv × Nat) =>
    match migQ (q.1.getD q.2 .empty) with
    | none => false
    | some d =>
      match (q.1.zipIdx.filter fun (e : Itv × Nat) => e.2 != q.2).mapM (fun e => magQ e.1) with
      | none => false
      | some offs => offs.foldl (· + ·) 0 < d

/-- the certificate: for the `vars` (as many as equations), the system `progs` has, for each value of the
    other coordinates (parameters), at most one zero in the box `h`: the Jacobian w.r.t. `vars` is regular -/
def uniqueCertVars (progs : List (List Dag × Dag)) (h : Box) (vars : List Nat) : Bool :=
  progs.length == vars.length && !Box.isEmpty h && vars.all (· < h.length) &&
  match jacobian progs h with
  | none => false
  | some jfull =>
    let j := jfull.map fun row => vars.map fun v => row.getD v .empty
    match (j.mapM fun row => row.mapM midRat) with
    | none => false
    | some mid =>
      match inverse mid with
      | none => false
      | some c => diagDominant (precond c j)

/-- square case: all coordinates are variables -/
def uniqueCert (progs : List (List Dag × Dag)) (h : Box) : Bool := uniqueCertVars progs h (List.range h.length)

/-- a search cell `c` dropped in favour of a reported solution (existence box `e`, variables `vars`):
    the parameters of the cell are parameters of the solution, and uniqueness holds on the hull -/
def replaceCert (progs : List (List Dag × Dag)) (c e : Box) (vars : List Nat) : Bool :=
  c.length == e.length &&
  ((List.range c.length).all fun i => vars.contains i ||
      (match c[i]?, e[i]? with | some ci, some ei => Itv.subset ci ei | _, _ => false)) &&
  uniqueCertVars progs (Box.hull c e) vars

/-! ### existence certificate (Krawczyk operator, Banach fixed point) -/

/-- finite bounds in the right order -/
def boundsQ : Itv → Option (Rat × Rat)
  | .mk (.fin a) (.fin b) => if a ≤ b then some (a, b) else none
  | _ => none

/-- pairwise distinct -/
def nodupB : List Nat → Bool
  | [] => true
  | v :: vs => !vs.contains v && nodupB vs

/-- the box `h` where the component `vars[c]` is replaced by the point `xm[c]` (parameters are kept) -/
def midBox (h : Box) (vars : List Nat) (xm : List Rat) : Box :=
  h.zipIdx.map fun (q : Itv × Nat) =>
    if vars.idxOf q.2 < vars.length then Itv.point (xm.getD (vars.idxOf q.2) 0) else q.1

/-- interval evaluation (natural extension) of a scalar function over a box -/
def evalItv1 (p : List Dag × Dag) (b : Box) : Option Itv :=
  match Eval.root Alg.itv b (Eval.buildCalls Alg.itv p.1) p.2 with
  | some v => (match v.d with | [d] => some d | _ => none)
  | none => none

/-- Σ_k q_k · [x_k] -/
def dotQ (crow : List Rat) (xs : List Itv) : Itv :=
  (List.zip crow xs).foldl (fun acc (q : Rat × Itv) => Itv.add acc (Itv.mul (Itv.point q.1) q.2)) (Itv.point 0)

/-- Σ_k [a_k] · [b_k] -/
def dotI (a b : List Itv) : Itv :=
  (List.zip a b).foldl (fun acc (q : Itv × Itv) => Itv.add acc (Itv.mul q.1 q.2)) (Itv.point 0)

/-- I − C·[J] -/
def iterMat (c : List (List Rat)) (j : List (List Itv)) : List (List Itv) :=
  (precond c j).zipIdx.map fun (row : List Itv × Nat) =>
    row.1.zipIdx.map fun (e : Itv × Nat) => Itv.sub (Itv.point (if e.2 == row.2 then 1 else 0)) e.1

/-- Σ_k mag(row_k) < 1 -/
def rowSumLt1 (row : List Itv) : Bool :=
  match row.mapM magQ with
  | none => false
  | some ms => ms.foldl (· + ·) 0 < 1

/-- `l · c = I` exactly, on the leading `m × m` blocks -/
def leftInvOk (l c : List (List Rat)) (m : Nat) : Bool :=
  (List.range m).all fun i => (List.range m).all fun k =>
    (List.range m).foldl (fun acc t => acc + (l.getD i []).getD t 0 * (c.getD t []).getD k 0) 0
      == (if i == k then 1 else 0)

/-- the existence certificate: for every value of the parameters (the coordinates outside `vars`) in `h`,
    the square system `progs` in the variables `vars` has a zero in `h`.
    Krawczyk operator K = x̃ − C f(x̃,[π]) + (I − C [J]) ([x] − x̃) ⊆ [x], with ‖I − C [J]‖∞ < 1 and C regular
    (C is the exact inverse of the midpoint Jacobian: `mid · C = I` is checked). -/
def existCertVars (progs : List (List Dag × Dag)) (h : Box) (vars : List Nat) : Bool :=
  progs.length == vars.length && !Box.isEmpty h && vars.all (· < h.length) && nodupB vars &&
  match jacobian progs h with
  | none => false
  | some jfull =>
    let j := jfull.map fun row => vars.map fun v => row.getD v .empty
    match (j.mapM fun row => row.mapM midRat) with
    | none => false
    | some mid =>
      match inverse mid with
      | none => false
      | some c =>
        leftInvOk mid c vars.length &&
        match vars.mapM (fun v => boundsQ (h.getD v .empty)) with
        | none => false
        | some bnds =>
          let xm := bnds.map fun (ab : Rat × Rat) => (ab.1 + ab.2) / 2
          match progs.mapM (fun p => evalItv1 p (midBox h vars xm)) with
          | none => false
          | some fm =>
            let mm := iterMat c j
            let r := List.zipWith (fun v x => Itv.sub (h.getD v .empty) (Itv.point x)) vars xm
            mm.all rowSumLt1 &&
            ((List.range vars.length).all fun i =>
              Itv.subset
                (Itv.add (Itv.sub (Itv.point (xm.getD i 0)) (dotQ (c.getD i []) fm)) (dotI (mm.getD i []) r))
                (h.getD (vars.getD i 0) .empty))

/-- square case: all coordinates are variables -/
def existCert (progs : List (List Dag × Dag)) (h : Box) : Bool := existCertVars progs h (List.range h.length)

/-- existence in `e`, uniqueness in `u ⊇ e` -/
def existUniqueCertVars (progs : List (List Dag × Dag)) (e u : Box) (vars : List Nat) : Bool :=
  existCertVars progs e vars && uniqueCertVars progs u vars && Box.subset e u

end Newton
end Ibex

namespace Ibex

/-! ## rounding-generic versions of the certificates

  The certificates above evaluate everything with outward-rounded binary64 interval arithmetic
  (`Itv.add`, `Itv.mul`, ...).  On boxes that are only a few ulps wide the rounding errors of the test
  itself are as large as the box and the (true) claim is not certified.  Below, the same algorithms
  with the interval operators generic in the rounding pair `r : Rnd` (IbexModel/ItvG.lean);
  `Rnd.exact` = exact rational interval arithmetic (sharp), `Rnd.dbl` = the rounded arithmetic.
  Sound for every sound rounding pair (IbexProofs/Props/C09exact.lean). -/

namespace Itv
/-- integer power with the generic operators; `x^k = 1 / x^(−k)` for `k < 0` -/
def powIntG (r : Rnd) (x : Itv) (k : Int) : Itv :=
  if k ≥ 0 then powNatG r x k.toNat else divG r (point 1) (powNatG r x (-k).toNat)
end Itv

/-- intervals with the operators generic in the rounding pair (rational operators only);
    `Alg.itvG Rnd.exact` is `Alg.itvX` -/
def Alg.itvG (r : Rnd) : Alg Itv where
  ofItv x := itvNonEmpty x
  zero := Itv.point 0
  add a b := itvNonEmpty (Itv.addG r a b)
  sub a b := itvNonEmpty (Itv.subG r a b)
  mul a b := itvNonEmpty (Itv.mulG r a b)
  div a b := itvNonEmpty (Itv.divG r a b)
  max a b := itvNonEmpty (Itv.max a b)
  min a b := itvNonEmpty (Itv.min a b)
  un op := match op with
    | "minus" => some fun a => itvNonEmpty (Itv.neg a)
    | "sqr" => some fun a => itvNonEmpty (Itv.sqrG r a)
    | "abs" => some fun a => itvNonEmpty (Itv.abs a)
    | "sign" => some fun a => itvNonEmpty (Itv.sign a)
    | "floor" => some fun a => itvNonEmpty (Itv.floor a)
    | "ceil" => some fun a => itvNonEmpty (Itv.ceil a)
    | _ => none
  pow a n := itvNonEmpty (Itv.powIntG r a n)
  chi a b c :=
    match a with
    | .empty => none
    | .mk al ah =>
      if Ext.le ah (.fin 0) then itvNonEmpty b else if Ext.lt (.fin 0) al then itvNonEmpty c
      else itvNonEmpty (Itv.hull b c)

namespace IDual
/-- a·x.g + b·y.g -/
def linG (r : Rnd) (a : Itv) (x : IDual) (b : Itv) (y : IDual) : List Itv :=
  List.zipWith (fun p q => Itv.addG r (Itv.mulG r a p) (Itv.mulG r b q)) x.g y.g
def scaleG (r : Rnd) (a : Itv) (x : IDual) : List Itv := x.g.map (Itv.mulG r a)
end IDual

/-- interval forward-mode differentiation, operators generic in the rounding pair
    (`Alg.idual n` with `Itv.add`, ... replaced by `Itv.addG r`, ...) -/
def Alg.idualG (r : Rnd) (n : Nat) : Alg IDual where
  ofItv x := if x.isEmpty || !x.WF then none else some (IDual.const n x)
  zero := IDual.const n (Itv.point 0)
  add a b := IDual.ok ⟨Itv.addG r a.v b.v, IDual.linG r (Itv.point 1) a (Itv.point 1) b⟩
  sub a b := IDual.ok ⟨Itv.subG r a.v b.v, IDual.linG r (Itv.point 1) a (Itv.point (-1)) b⟩
  mul a b := IDual.ok ⟨Itv.mulG r a.v b.v, IDual.linG r b.v a a.v b⟩
  div a b :=
    if Itv.containsExt b.v (.fin 0) then none else
    IDual.ok ⟨Itv.divG r a.v b.v,
      IDual.linG r (Itv.divG r (Itv.point 1) b.v) a (Itv.neg (Itv.divG r a.v (Itv.sqrG r b.v))) b⟩
  max _ _ := none
  min _ _ := none
  un op := match op with
    | "minus" => some fun a => IDual.ok ⟨Itv.neg a.v, IDual.scaleG r (Itv.point (-1)) a⟩
    | "sqr" => some fun a => IDual.ok ⟨Itv.sqrG r a.v, IDual.scaleG r (Itv.mulG r (Itv.point 2) a.v) a⟩
    | _ => none
  pow a k :=
    if k = 0 then IDual.ok ⟨Itv.point 1, IDual.scaleG r (Itv.point 0) a⟩
    else if k = 1 then some a
    else if k > 0 then
      IDual.ok ⟨Itv.powIntG r a.v k,
        IDual.scaleG r (Itv.mulG r (Itv.point (k : Rat)) (Itv.powIntG r a.v (k - 1))) a⟩
    else if Itv.containsExt a.v (.fin 0) then none
    else IDual.ok ⟨Itv.powIntG r a.v k,
        IDual.scaleG r (Itv.mulG r (Itv.point (k : Rat)) (Itv.powIntG r a.v (k - 1))) a⟩
  chi _ _ _ := none

namespace Newton

/-- interval Jacobian (generic rounding) of the scalar DAGs over the box `h` (rows = functions) -/
def jacobianG (r : Rnd) (progs : List (List Dag × Dag)) (h : Box) : Option (List (List Itv)) :=
  let n := h.length
  let env := h.zipIdx.map fun (q : Itv × Nat) =>
    (⟨q.1, (List.range n).map fun j => if j == q.2 then Itv.point 1 else Itv.point 0⟩ : IDual)
  progs.mapM fun (p : List Dag × Dag) =>
    match Eval.root (Alg.idualG r n) env (Eval.buildCalls (Alg.idualG r n) p.1) p.2 with
    | some m => (match m.d with | [d] => if d.g.length == n then some d.g else none | _ => none)
    | none => none

/-- C · [J] (generic rounding) -/
def precondG (r : Rnd) (c : List (List Rat)) (j : List (List Itv)) : List (List Itv) :=
  let n := j.length
  c.map fun crow =>
    (List.range n).map fun col =>
      (List.zip crow j).foldl (fun acc (q : Rat × List Itv) =>
        Itv.addG r acc (Itv.mulG r (Itv.point q.1) (q.2.getD col .empty))) (Itv.point 0)

/-- uniqueness certificate, generic rounding (see `uniqueCertVars`) -/
def uniqueCertVarsG (r : Rnd) (progs : List (List Dag × Dag)) (h : Box) (vars : List Nat) : Bool :=
  progs.length == vars.length && !Box.isEmpty h && vars.all (· < h.length) &&
  match jacobianG r progs h with
  | none => false
  | some jfull =>
    let j := jfull.map fun row => vars.map fun v => row.getD v .empty
    match (j.mapM fun row => row.mapM midRat) with
    | none => false
    | some mid =>
      match inverse mid with
      | none => false
      | some c => diagDominant (precondG r c j)

/-- interval evaluation (natural extension, generic rounding) of a scalar function over a box -/
def evalItv1G (r : Rnd) (p : List Dag × Dag) (b : Box) : Option Itv :=
  match Eval.root (Alg.itvG r) b (Eval.buildCalls (Alg.itvG r) p.1) p.2 with
  | some v => (match v.d with | [d] => some d | _ => none)
  | none => none

/-- Σ_k q_k · [x_k] -/
def dotQG (r : Rnd) (crow : List Rat) (xs : List Itv) : Itv :=
  (List.zip crow xs).foldl (fun acc (q : Rat × Itv) => Itv.addG r acc (Itv.mulG r (Itv.point q.1) q.2))
    (Itv.point 0)

/-- Σ_k [a_k] · [b_k] -/
def dotIG (r : Rnd) (a b : List Itv) : Itv :=
  (List.zip a b).foldl (fun acc (q : Itv × Itv) => Itv.addG r acc (Itv.mulG r q.1 q.2)) (Itv.point 0)

/-- I − C·[J] -/
def iterMatG (r : Rnd) (c : List (List Rat)) (j : List (List Itv)) : List (List Itv) :=
  (precondG r c j).zipIdx.map fun (row : List Itv × Nat) =>
    row.1.zipIdx.map fun (e : Itv × Nat) => Itv.subG r (Itv.point (if e.2 == row.2 then 1 else 0)) e.1

/-- existence certificate (Krawczyk operator), generic rounding (see `existCertVars`) -/
def existCertVarsG (r : Rnd) (progs : List (List Dag × Dag)) (h : Box) (vars : List Nat) : Bool :=
  progs.length == vars.length && !Box.isEmpty h && vars.all (· < h.length) && nodupB vars &&
  match jacobianG r progs h with
  | none => false
  | some jfull =>
    let j := jfull.map fun row => vars.map fun v => row.getD v .empty
    match (j.mapM fun row => row.mapM midRat) with
    | none => false
    | some mid =>
      match inverse mid with
      | none => false
      | some c =>
        leftInvOk mid c vars.length &&
        match vars.mapM (fun v => boundsQ (h.getD v .empty)) with
        | none => false
        | some bnds =>
          let xm := bnds.map fun (ab : Rat × Rat) => (ab.1 + ab.2) / 2
          match progs.mapM (fun p => evalItv1G r p (midBox h vars xm)) with
          | none => false
          | some fm =>
            let mm := iterMatG r c j
            let rad := List.zipWith (fun v x => Itv.subG r (h.getD v .empty) (Itv.point x)) vars xm
            mm.all rowSumLt1 &&
            ((List.range vars.length).all fun i =>
              Itv.subset
                (Itv.addG r (Itv.subG r (Itv.point (xm.getD i 0)) (dotQG r (c.getD i []) fm))
                  (dotIG r (mm.getD i []) rad))
                (h.getD (vars.getD i 0) .empty))

/-- existence in `e`, uniqueness in `u ⊇ e` (generic rounding) -/
def existUniqueCertVarsG (r : Rnd) (progs : List (List Dag × Dag)) (e u : Box) (vars : List Nat) : Bool :=
  existCertVarsG r progs e vars && uniqueCertVarsG r progs u vars && Box.subset e u

/-- a search cell `c` dropped in favour of a reported solution `e` (generic rounding, see `replaceCert`) -/
def replaceCertG (r : Rnd) (progs : List (List Dag × Dag)) (c e : Box) (vars : List Nat) : Bool :=
  c.length == e.length &&
  ((List.range c.length).all fun i => vars.contains i ||
      (match c[i]?, e[i]? with | some ci, some ei => Itv.subset ci ei | _, _ => false)) &&
  uniqueCertVarsG r progs (Box.hull c e) vars

/-! the certificates with EXACT rational interval arithmetic -/

def jacobianX : List (List Dag × Dag) → Box → Option (List (List Itv)) := jacobianG Rnd.exact
def existCertVarsX : List (List Dag × Dag) → Box → List Nat → Bool := existCertVarsG Rnd.exact
def uniqueCertVarsX : List (List Dag × Dag) → Box → List Nat → Bool := uniqueCertVarsG Rnd.exact
def existUniqueCertVarsX : List (List Dag × Dag) → Box → Box → List Nat → Bool := existUniqueCertVarsG Rnd.exact
def replaceCertX : List (List Dag × Dag) → Box → Box → List Nat → Bool := replaceCertG Rnd.exact
/-- square case: all coordinates are variables -/
def existCertX (progs : List (List Dag × Dag)) (h : Box) : Bool := existCertVarsX progs h (List.range h.length)
def uniqueCertX (progs : List (List Dag × Dag)) (h : Box) : Bool := uniqueCertVarsX progs h (List.range h.length)

end Newton
end Ibex
