/-
  Interval vector / matrix operators (C01): acceptance rules for the results of the real
  IntervalVector / IntervalMatrix operators.  The reference is EXACT interval arithmetic (`Rnd.exact`):
  every variable occurs once in each entry of a sum / product, so the exact interval result is the range
  of the real operation — a correct implementation returns a superset, whatever its summation order or
  rounding.  No Mathlib import.
-/
import IbexModel.ItvG
import IbexModel.Expr
namespace Ibex.VecOps
open Ibex

/-- exact interval dot product of the common prefix -/
def dotX (u v : List Itv) : Itv :=
  (List.zip u v).foldl (fun acc (p : Itv × Itv) => Itv.addG Rnd.exact acc (Itv.mulG Rnd.exact p.1 p.2)) (Itv.point 0)

/-- entrywise rule: the implementation's entry contains `f a b` -/
def mapOk2 (f : Itv → Itv → Itv) (A B R : Mat Itv) : Bool :=
  A.r == B.r && A.c == B.c && R.r == A.r && R.c == A.c &&
  A.d.length == B.d.length && A.d.length == R.d.length &&
  (List.zip (List.zip A.d B.d) R.d).all fun q => Itv.subset (f q.1.1 q.1.2) q.2

/-- scaling by an interval -/
def scaleOk (s : Itv) (B R : Mat Itv) : Bool :=
  R.r == B.r && R.c == B.c && B.d.length == R.d.length &&
  (List.zip B.d R.d).all fun q => Itv.subset (Itv.mulG Rnd.exact s q.1) q.2

/-- matrix product (dot, outer, matrix-vector, vector-matrix and matrix-matrix products are instances) -/
def mulOk (A B R : Mat Itv) : Bool :=
  A.c == B.r && R.r == A.r && R.c == B.c && R.d.length == A.r * B.c &&
  (List.range A.r).all fun i => (List.range B.c).all fun j =>
    match R.get? i j with
    | some r => Itv.subset (dotX (A.row i) (B.col j)) r
    | none => false

/-- transposition: exact -/
def transOk (A R : Mat Itv) : Bool :=
  R.r == A.c && R.c == A.r && R.d.length == A.d.length &&
  (List.zip A.transpose.d R.d).all fun q => Itv.subset q.1 q.2

def vecopOk (op : String) (A B R : Mat Itv) : Bool :=
  match op with
  | "add" => mapOk2 (Itv.addG Rnd.exact) A B R
  | "sub" => mapOk2 (Itv.subG Rnd.exact) A B R
  | "had" => mapOk2 (Itv.mulG Rnd.exact) A B R
  | "neg" => mapOk2 (fun a _ => Itv.subG Rnd.exact (Itv.point 0) a) A A R
  | "scale" => (match A.d with | [s] => A.r == 1 && A.c == 1 && scaleOk s B R | _ => false)
  | "mul" => mulOk A B R
  | "trans" => transOk A R
  | _ => false

end Ibex.VecOps
