/-
  The branch-and-bound loop of `Optimizer::optimize()` as a state machine (C07, lower bound `uplo`).

  The real loop works on EXTENDED boxes (x, y), the goal coordinate `y` (index `g`) enclosing the objective:
  take a cell from the buffer, bisect it, and for each half: contract-and-bound it with the current upper
  bound `loup` (points whose objective is not below `loup` may be removed), run the loup finder (the loup can
  only decrease), then either drop the half because it is too small (its goal lower bound is recorded in
  `uplo_of_epsboxes`) or push it back; finally cells whose goal lower bound is not below the loup are
  removed from the buffer (`buffer.contract(ymax)`).  The lower bound returned at any interruption is
  `uplo = min (min of the goal lower bounds of the buffer) uplo_of_epsboxes loup`.

  Everything the real optimizer may legitimately choose is left to a `Policy`.
  `IbexProofs/OptLoop.lean` proves, for every policy with a sound contractor and a covering bisector and for
  any number of iterations, that `uplo` is below the objective value of every feasible point.  No Mathlib import.
-/
import IbexModel.Cover
namespace Ibex.OptLoop
open Ibex

structure Policy where
  pick : List Box → Nat            -- position of the cell taken from the buffer (modulo the length)
  bisect : Box → Box × Box
  ctc : Ext → Box → Box            -- contract-and-bound with the current loup
  finder : Ext → Box → Ext         -- value found by the loup finder on this box (`+oo`: nothing found)
  small : Box → Bool               -- the box is an epsilon-box: not pushed back

structure St where
  buffer : List Box
  loup : Ext
  uploEps : Ext                    -- `uplo_of_epsboxes`
deriving Repr

def St.init (root : Box) (loup : Ext) : St := ⟨[root], loup, .pinf⟩

/-- lower bound of the goal coordinate (`+oo` for an empty or ill-formed box) -/
def lbg (g : Nat) (b : Box) : Ext :=
  match b[g]? with
  | some (.mk a _) => a
  | _ => .pinf

/-- what happens to one half `h` of the bisected cell -/
def handle (P : Policy) (g : Nat) (s : St) (h : Box) : St :=
  if Box.isEmpty (P.ctc s.loup h) then s
  else if P.small (P.ctc s.loup h) then
    ⟨s.buffer, Ext.min s.loup (P.finder s.loup (P.ctc s.loup h)), Ext.min s.uploEps (lbg g (P.ctc s.loup h))⟩
  else
    ⟨P.ctc s.loup h :: s.buffer, Ext.min s.loup (P.finder s.loup (P.ctc s.loup h)), s.uploEps⟩

/-- `buffer.contract(loup)`: cells that cannot contain a better point are removed -/
def prune (g : Nat) (s : St) : St :=
  ⟨s.buffer.filter (fun b => Ext.lt (lbg g b) s.loup), s.loup, s.uploEps⟩

/-- one iteration on the picked cell `c` -/
def stepOn (P : Policy) (g : Nat) (s : St) (c : Box) : St :=
  prune g (handle P g (handle P g ⟨s.buffer.erase c, s.loup, s.uploEps⟩ (P.bisect c).1) (P.bisect c).2)

def step (P : Policy) (g : Nat) (s : St) : Option St :=
  (s.buffer[P.pick s.buffer % s.buffer.length]?).map (stepOn P g s)

def run (P : Policy) (g : Nat) : Nat → St → St
  | 0, s => s
  | fuel + 1, s => match step P g s with
    | none => s
    | some s' => run P g fuel s'

/-- minimum of the goal lower bounds of the cells of the buffer -/
def minLb (g : Nat) : List Box → Ext
  | [] => .pinf
  | b :: bs => Ext.min (lbg g b) (minLb g bs)

/-- the lower bound reported by the optimizer -/
def uplo (g : Nat) (s : St) : Ext := Ext.min (Ext.min (minLb g s.buffer) s.uploEps) s.loup

end Ibex.OptLoop
