/-
  C13 — systems of constraints and the systems derived from them.

  A system is a list of arguments (symbols with dimensions, flattened into `nvar` variables), a
  box, an optional goal and a list of constraints `f(x) op 0` (`f` an expression DAG, scalar /
  vector / matrix valued: the constraint holds when every entry satisfies `op`).

  MODEL of the derivations of ibex (`ibex_NormalizedSystem.cpp`, `ibex_ExtendedSystem.cpp`,
  `SystemCopy` in `ibex_System.cpp`, `ibex_SystemMerge.cpp`) as functions on lists of
  `(DAG, op)`:
    `normalize eps`  : `f<0`, `f<=0` kept; `f>=0 ↦ -f<=0`; `f>0 ↦ -f<0`; `f=0` kept when `eps=0`
                       and replaced by the two constraints `f-eps<=0`, `(-eps)-f<=0` when `eps>0`
    `extend n goal`  : the constraint `goal(x)-y=0` first (`y` = variable number `n`, appended
                       last), then the normalized constraints; the new goal is `y`
    `copy mode`      : filter by operator (the goal is kept by `COPY` only)
    `merge`          : constraints of the first system, then those of the second one with their
                       variables renamed to the positions of the merged argument list
  VERIFIED CHECKERS run by the driver on the dumps of the real derived systems
  (`IbexModel/SysT.lean`, built on `matchAll` below):
    `ctrsCheckT`     : position by position, same operator and equal rational-function normal forms
    `flatCheckT`     : the entries of `f_ctrs` with `ops[]` are the entries of the constraints
  and an exact point oracle (`satQ`, `satEpsQ` …: rational arithmetic, thick constants through
  exact interval arithmetic) used to compare satisfaction at sampled points.
  The theorems are in `IbexProofs/Sys.lean` and `IbexProofs/Props/C13.lean`.
  No Mathlib import.
-/
import IbexModel.RatFun
namespace Ibex
namespace Sys

/-- comparison operators of ibex (`CmpOp`): the constraint is `f(x) op 0` -/
inductive Cmp where
  | lt | leq | eq | geq | gt
deriving DecidableEq, Repr, Inhabited

/-- an expression: auxiliary (applied) functions and the main DAG -/
structure Prog where
  funs : List Dag
  main : Dag

structure Ctr where
  f : Prog
  op : Cmp

/-- an argument (symbol) of a system -/
structure Arg where
  name : String
  r : Nat
  c : Nat
deriving DecidableEq, Repr

def Arg.size (a : Arg) : Nat := a.r * a.c

/-- what is observed of a `System` object (`fctrs`: the vector-valued function `f_ctrs` and the
    array `ops`; `none` when the system has no constraint) -/
structure System where
  args : List Arg
  box : List Itv
  goal : Option Prog
  ctrs : List Ctr
  fctrs : Option (Prog × List Cmp)

def nvarOf (args : List Arg) : Nat := (args.map Arg.size).foldl (· + ·) 0
def System.nvar (s : System) : Nat := nvarOf s.args

/-! ### DAG surgery -/

/-- `-f` : one more node -/
def negDag (d : Dag) : Dag :=
  match d.back? with
  | some n => d.push ⟨.un "minus" (d.size - 1), n.r, n.c⟩
  | none => d

/-- `f - q` (`q` replicated to the dimensions of `f`) -/
def subConstDag (d : Dag) (q : Rat) : Dag :=
  match d.back? with
  | some n => (d.push ⟨.const (List.replicate (n.r * n.c) (Itv.point q)), n.r, n.c⟩).push
                ⟨.bin "sub" (d.size - 1) d.size, n.r, n.c⟩
  | none => d

/-- `q - f` -/
def constSubDag (d : Dag) (q : Rat) : Dag :=
  match d.back? with
  | some n => (d.push ⟨.const (List.replicate (n.r * n.c) (Itv.point q)), n.r, n.c⟩).push
                ⟨.bin "sub" d.size (d.size - 1), n.r, n.c⟩
  | none => d

/-- `f - x_off` for a scalar `f` and the scalar variable at offset `off` -/
def subVarDag (d : Dag) (off : Nat) : Dag :=
  match d.back? with
  | some n => (d.push ⟨.var off, 1, 1⟩).push ⟨.bin "sub" (d.size - 1) d.size, n.r, n.c⟩
  | none => d

def Prog.neg (p : Prog) : Prog := ⟨p.funs, negDag p.main⟩
def Prog.subConst (p : Prog) (q : Rat) : Prog := ⟨p.funs, subConstDag p.main q⟩
def Prog.constSub (p : Prog) (q : Rat) : Prog := ⟨p.funs, constSubDag p.main q⟩
def Prog.subVar (p : Prog) (off : Nat) : Prog := ⟨p.funs, subVarDag p.main off⟩

/-- the scalar variable at offset `off` as an expression -/
def varProg (off : Nat) : Prog := ⟨[], #[⟨.var off, 1, 1⟩]⟩

/-- every variable node reads inside the first `n` variables -/
def varsWithin (n : Nat) (d : Dag) : Bool :=
  d.all fun nd => match nd.k with
    | .var off => off + nd.r * nd.c ≤ n
    | _ => true

/-! ### the model of the derivations -/

/-- `NormalizedSystem`: one constraint -/
def normalize1 (eps : Rat) (c : Ctr) : List Ctr :=
  match c.op with
  | .lt => [c]
  | .leq => [c]
  | .geq => [⟨c.f.neg, .leq⟩]
  | .gt => [⟨c.f.neg, .lt⟩]
  | .eq => if 0 < eps then [⟨c.f.subConst eps, .leq⟩, ⟨c.f.constSub (-eps), .leq⟩] else [c]

def normalize (eps : Rat) (cs : List Ctr) : List Ctr := cs.flatMap (normalize1 eps)

/-- `ExtendedSystem` of a system with `n` variables and a goal -/
def extend (n : Nat) (goal : Prog) (eps : Rat) (cs : List Ctr) : List Ctr :=
  ⟨goal.subVar n, .eq⟩ :: normalize eps cs

inductive CopyMode where
  | copy | ineqOnly | eqOnly
deriving DecidableEq, Repr

def CopyMode.keeps : CopyMode → Cmp → Bool
  | .copy, _ => true
  | .eqOnly, op => op == .eq
  | .ineqOnly, op => op != .eq

def copyCtrs (m : CopyMode) (cs : List Ctr) : List Ctr := cs.filter fun c => m.keeps c.op

/-- renaming of the variable nodes (applied functions have their own environment) -/
def renameDag (σ : Nat → Nat) (d : Dag) : Dag :=
  d.map fun nd => match nd.k with
    | .var off => ⟨.var (σ off), nd.r, nd.c⟩
    | _ => nd

def Prog.rename (σ : Nat → Nat) (p : Prog) : Prog := ⟨p.funs, renameDag σ p.main⟩
def Ctr.rename (σ : Nat → Nat) (c : Ctr) : Ctr := ⟨c.f.rename σ, c.op⟩

/-- a block of variables: offset in the second system, size, offset in the merged system -/
structure Block where
  off : Nat
  size : Nat
  moff : Nat
deriving Repr

def blockMap (bs : List Block) (off : Nat) : Nat :=
  match bs.find? (fun b => b.off == off) with
  | some b => b.moff
  | none => off

def mergeCtrs (bs : List Block) (cs₁ cs₂ : List Ctr) : List Ctr :=
  cs₁ ++ cs₂.map (Ctr.rename (blockMap bs))

/-- the environment of the second system read in a point of the merged system -/
def env₂ {α : Type} (bs : List Block) (p : List α) : List α :=
  bs.flatMap fun b => (p.drop b.moff).take b.size

/-- the blocks are the consecutive (non-empty) arguments of the second system, starting at offset
    `o`, and lie inside `n` variables -/
def blocksOK (n : Nat) : Nat → List Block → Bool
  | _, [] => true
  | o, b :: bs => b.off == o && 0 < b.size && b.moff + b.size ≤ n && blocksOK n (o + b.size) bs

/-- every variable node of the DAG is exactly one of the blocks -/
def varsAreBlocks (bs : List Block) (d : Dag) : Bool :=
  d.all fun nd => match nd.k with
    | .var off => bs.any fun b => b.off == off && b.size == nd.r * nd.c
    | _ => true

/-! #### merged argument list, box, goal (compared `=` with the implementation) -/

def offsets (args : List Arg) : List (Arg × Nat) :=
  (args.foldl (fun (acc : List (Arg × Nat) × Nat) a => (acc.1 ++ [(a, acc.2)], acc.2 + a.size)) ([], 0)).1

/-- arguments of the second system that are new (by name) -/
def newArgs (a₁ a₂ : List Arg) : List Arg := a₂.filter fun a => !(a₁.any fun b => b.name == a.name)

def mergeArgs (a₁ a₂ : List Arg) : List Arg := a₁ ++ newArgs a₁ a₂

/-- `none`: a symbol has different dimensions in the two systems -/
def mergeBlocks (a₁ a₂ : List Arg) : Option (List Block) :=
  let m := offsets (mergeArgs a₁ a₂)
  (offsets a₂).mapM fun p =>
    match m.find? (fun q => q.1.name == p.1.name) with
    | some q => if q.1.r == p.1.r && q.1.c == p.1.c then some ⟨p.2, p.1.size, q.2⟩ else none
    | none => none

def mergeBox (a₁ a₂ : List Arg) (b₁ b₂ : List Itv) : List Itv :=
  b₁ ++ ((offsets a₂).filter fun p => !(a₁.any fun b => b.name == p.1.name)).flatMap
    fun p => (b₂.drop p.2).take p.1.size

/-! ### verified checkers for the tie -/

def optAnd : Option Bool → Option Bool → Option Bool
  | some false, _ => some false
  | _, some false => some false
  | some true, some true => some true
  | _, _ => none

/-- look for an entry of `bs` with the operator of `a` and a normal form equal to that of `a`;
    returns the list without it.  `some none`: no entry matches; `none`: a candidate could not be
    decided (too large) -/
def removeMatch (B : Nat) (a : RF × Cmp) : List (RF × Cmp) → Option (Option (List (RF × Cmp)))
  | [] => some none
  | b :: bs =>
    if a.2 = b.2 then
      match RF.eqv B a.1 b.1 with
      | some true => some (some bs)
      | r =>
        match removeMatch B a bs with
        | some (some rest) => some (some (b :: rest))
        | some none => if r = none then none else some none
        | none => none
    else
      match removeMatch B a bs with
      | some (some rest) => some (some (b :: rest))
      | o => o

/-- the two lists of (normal form, operator) are equal up to a permutation -/
def matchAll (B : Nat) : List (RF × Cmp) → List (RF × Cmp) → Option Bool
  | [], [] => some true
  | [], _ :: _ => some false
  | a :: as, bs =>
    match removeMatch B a bs with
    | none => none
    | some none => some false
    | some (some rest) => matchAll B as rest

/-! ### exact point oracle (rationals; thick constants through exact interval arithmetic) -/

/-- exact set value of every entry at a rational point: `[q,q]` for expressions with degenerate
    constants, the exact range over the thick constants otherwise (each occurs once in the
    generated constraints) -/
def evalQ (f : Prog) (p : List Rat) : Option (Mat Itv) :=
  match Eval.root Alg.rat p (Eval.buildCalls Alg.rat f.funs) f.main with
  | some v => if v.wf then some (v.map Itv.point) else none
  | none =>
    match Eval.root Alg.itvX (p.map Itv.point) (Eval.buildCalls Alg.itvX f.funs) f.main with
    | some v => if v.wf then some v else none
    | none => none

/-- some member of the set satisfies `op 0` (weak reading of a set value) -/
def holdsI (op : Cmp) : Itv → Bool
  | .empty => false
  | .mk lo hi =>
    match op with
    | .lt => Ext.lt lo (.fin 0)
    | .leq => Ext.le lo (.fin 0)
    | .eq => Ext.le lo (.fin 0) && Ext.le (.fin 0) hi
    | .geq => Ext.le (.fin 0) hi
    | .gt => Ext.lt (.fin 0) hi

/-- every member of the set satisfies `op 0` (strong reading; the two readings coincide on a point) -/
def holdsA (op : Cmp) : Itv → Bool
  | .empty => false
  | .mk lo hi =>
    match op with
    | .lt => Ext.lt hi (.fin 0)
    | .leq => Ext.le hi (.fin 0)
    | .eq => lo == .fin 0 && hi == .fin 0
    | .geq => Ext.le (.fin 0) lo
    | .gt => Ext.lt (.fin 0) lo

/-- some member of the set is within `eps` of 0 -/
def holdsEpsI (eps : Rat) : Itv → Bool
  | .empty => false
  | .mk lo hi => Ext.le lo (.fin eps) && Ext.le (.fin (-eps)) hi

/-- every member of the set is within `eps` of 0 -/
def holdsEpsA (eps : Rat) : Itv → Bool
  | .empty => false
  | .mk lo hi => Ext.le (.fin (-eps)) lo && Ext.le hi (.fin eps)

/-- a truth value known up to the reading of thick constants: (strong, weak), strong ⇒ weak;
    equal components when every constant is degenerate -/
abbrev TV := Bool × Bool

def TV.and (a b : TV) : TV := (a.1 && b.1, a.2 && b.2)
def TV.exact (a : TV) : Bool := a.1 == a.2
/-- two such values are compatible unless one is surely true and the other surely false -/
def TV.consistent (a b : TV) : Bool := !(a.1 && !b.2) && !(b.1 && !a.2)
def TV.ofBool (b : Bool) : TV := (b, b)

/-- satisfaction of one constraint at a point (`none`: undefined / unsupported at the point) -/
def satQ (c : Ctr) (p : List Rat) : Option TV :=
  (evalQ c.f p).map fun v => (v.d.all (holdsA c.op), v.d.all (holdsI c.op))

def satEpsQ (eps : Rat) (c : Ctr) (p : List Rat) : Option TV :=
  (evalQ c.f p).map fun v => (v.d.all (holdsEpsA eps), v.d.all (holdsEpsI eps))

def allQ (l : List (Option TV)) : Option TV :=
  l.foldl (fun acc x => match acc, x with
    | some a, some b => some (a.and b)
    | _, _ => none) (some (true, true))

def satAllQ (cs : List Ctr) (p : List Rat) : Option TV := allQ (cs.map fun c => satQ c p)

/-- satisfaction through `f_ctrs` and `ops[]` -/
def satFQ (f : Prog) (ops : List Cmp) (p : List Rat) : Option TV :=
  (evalQ f p).bind fun v =>
    if v.d.length == ops.length then
      some ((List.zip v.d ops).all (fun x => holdsA x.2 x.1), (List.zip v.d ops).all (fun x => holdsI x.2 x.1))
    else none

/-- the property statement, decided at a point: inequalities satisfied and equalities within `eps` -/
def specNormQ (eps : Rat) (cs : List Ctr) (p : List Rat) : Option TV :=
  allQ (cs.map fun c => if c.op = .eq then satEpsQ eps c p else satQ c p)

/-! ### `write_ext_box` / `read_ext_box` (goal variable at position `gv`) -/

def writeExt {α : Type} (gv : Nat) (box ext : List α) : List α :=
  box.take gv ++ (ext.drop gv).take 1 ++ box.drop gv

def readExt {α : Type} (gv : Nat) (ext : List α) : List α := ext.take gv ++ ext.drop (gv + 1)

end Sys
end Ibex
