/-
  The search loop of `Solver::next()` / `Solver::solve()` as a state machine (C05, C18).

  One iteration of the real loop: take the cell on top of the buffer, contract its box, remove the cell from
  the buffer; if the box is empty the cell is deleted; otherwise the solver either stores the box in the
  output paving (inner box, solution box, unknown box that cannot be bisected any more) or bisects it and
  pushes the two children.  The loop stops when the buffer is empty or a limit (cells, time) is reached;
  the cells still in the buffer are then stored as *pending* boxes.

  The model leaves everything the real solver may legitimately choose to a `Policy`: the contractor, the
  decision taken on a contracted box, the cell chosen by the buffer.  The model emits the same log
  (`Cover.Ev`) as the logging wrappers of the harness, so that the certificate `Cover.check`, which judges
  the logs of the REAL solver, can be run on the model's own logs: `IbexProofs/SearchLoop.lean` proves that
  every run of the model is accepted (the certificate raises no alarm on the modelled algorithm) and that
  every run covers all solutions (directly, by an invariant).   No Mathlib import.
-/
import IbexModel.Cover
namespace Ibex.SearchLoop
open Ibex Ibex.Cover

/-- what the solver does with a contracted, non-empty box -/
inductive Action where
  | store (s : Box)        -- put `s` in the output paving (inner / solution / boundary / unknown box)
  | split (l r : Box)      -- bisect: push the two children
deriving Repr

structure Policy where
  ctc : Box → Box                -- the contractor
  act : Box → Action             -- decision on a contracted box
  pick : List Box → Nat          -- position of the cell returned by `top` (taken modulo the length)

structure St where
  buffer : List Box
  stored : List Box
  log : List Ev                  -- events emitted so far, oldest first
deriving Repr

def St.init (root : Box) : St := ⟨[root], [], [.push root]⟩

/-- the events of one iteration up to the removal of the cell -/
def evs3 (P : Policy) (b : Box) : List Ev := [Ev.top b, Ev.ctc b (P.ctc b), Ev.pop (P.ctc b)]

/-- one iteration on the picked cell `b` -/
def stepOn (P : Policy) (s : St) (b : Box) : St :=
  if Box.isEmpty (P.ctc b) then ⟨s.buffer.erase b, s.stored, s.log ++ evs3 P b⟩
  else match P.act (P.ctc b) with
    | .store t => ⟨s.buffer.erase b, t :: s.stored, s.log ++ evs3 P b⟩
    | .split l r => ⟨l :: r :: s.buffer.erase b, s.stored, s.log ++ (evs3 P b ++ [Ev.push l, Ev.push r])⟩

/-- one iteration of the loop; `none` when the buffer is empty -/
def step (P : Policy) (s : St) : Option St :=
  (s.buffer[P.pick s.buffer % s.buffer.length]?).map (stepOn P s)

/-- at most `fuel` iterations (the cell limit / time limit of the real solver) -/
def run (P : Policy) : Nat → St → St
  | 0, s => s
  | fuel + 1, s => match step P s with
    | none => s
    | some s' => run P fuel s'

/-- the paving returned at the end: stored boxes and pending cells -/
def St.paving (s : St) : Paving := ⟨s.stored ++ s.buffer, []⟩

/-- executable conditions on a policy for one contracted box (what C04 and C16 establish for the real
    contractors and bisectors): the stored box covers the contracted box, the children cover it and are
    not empty -/
def actOk (o : Box) : Action → Bool
  | .store t => Box.subset o t
  | .split l r => split2Ok o l r && !Box.isEmpty l && !Box.isEmpty r

/-! ### the shape of a log of the loop (used by the driver to MEASURE how many real logs are, event for event, runs of this model) -/

/-- automaton over the events after the leading pushes: state 0 = between iterations (after the second child was pushed or at
    the start), 1 = a cell is being processed (after `top`), 2 = just popped, 3 = one child pushed -/
def shapeStep (st : Nat) (e : Ev) : Option Nat :=
  match st, e with
  | 0, .top _ => some 1
  | 2, .top _ => some 1
  | 1, .ctc _ _ => some 1
  | 1, .pop _ => some 2
  | 2, .push _ => some 3
  | 3, .push _ => some 0
  | 0, .flush => some 0
  | 2, .flush => some 2
  | _, _ => none

/-- the log is: pushes of the root cell(s), then iterations `top, ctc*, pop, (push, push)?` -/
def isPush : Ev → Bool
  | .push _ => true
  | _ => false

def loopShaped (log : List Ev) : Bool :=
  match (log.dropWhile isPush).foldlM shapeStep 0 with
  | some st => st == 0 || st == 2
  | none => false

/-! ### a search resumed from a saved paving (C18): `Solver::start(const CovSolverData&)` -/

/-- the cells a resumed search starts from: the boxes of the previous paving that are not validated (unknown, pending) -/
def requeued (prev : List Item) : List Box := (prev.filter fun it => !it.validated).map (·.box)

/-- state after `start(data)`: validated boxes are carried over (they stay in `prev`, see `resumedItems`), the others are
    pushed one by one; the buffer lists them in the order of `Cover.St.openB` (last pushed first) -/
def St.resume (prev : List Item) : St := ⟨(requeued prev).reverse, [], (requeued prev).map Ev.push⟩

/-- the paving of a resumed run: the validated boxes of the previous paving, unchanged; the boxes stored by this run
    (as unknown boxes: no verdict is claimed by the model) and the cells left in the buffer (pending boxes) -/
def resumedItems (prev : List Item) (s : St) : List Item :=
  prev.filter (·.validated) ++ s.stored.map (fun b => ⟨"U", b, b, [], false⟩) ++ s.buffer.map (fun b => ⟨"D", b, b, [], false⟩)

end Ibex.SearchLoop
