/-
  C07: branch-and-bound COVER certificate for the global optimizer (history-independent evidence for the lower
  bound `uplo`, no known minimum needed).

  The real `Optimizer` is run with logging wrappers around its cell buffer (`top`, `pop`, `push`), its bisector
  (the two halves) and its contractor (input box, output box), all on EXTENDED boxes (x, y) where the goal
  coordinate `y` (index `g`) encloses the objective.  `check g U root log` replays the log and accepts when every
  region that disappeared is justified with respect to the threshold `U` (= the final `uplo`):
    * a cell taken from the buffer is split into two halves that cover it (`Cover.split2Ok`);
    * the box given to the contractor / pushed back into the buffer keeps every point of the handled box whose goal
      coordinate is below `U` (`keeps`: same x-part or larger, goal domain only cut above `U`);
    * a handled box that is not pushed back is empty or has a goal lower bound `≥ U` (`droppable`);
    * cells still in the buffer at the end (removed by `contract(ymax)`, or left by a time-out) have a goal lower
      bound `≥ U`.
  Theorem (`IbexProofs/OptCover.lean`): if the log is accepted and every logged contraction keeps the points (x, f(x))
  of feasible x (soundness of the contractor: C04), then no feasible x of the root box has f(x) < U.   No Mathlib import.
-/
import IbexModel.Cover
namespace Ibex.OptCover
open Ibex Ibex.Cover

inductive Ev where
  | top (c : Box)
  | bis (l r : Box)
  | pop (c : Box)
  | ctc (i o : Box)
  | push (f : Box)
deriving Repr

structure St where
  opn : List Box          -- cells in the buffer
  pending : List Box      -- boxes being handled (halves of the current cell, possibly contracted)
deriving Repr

/-- every point of `e` whose goal coordinate is below `U` belongs to `f` -/
def keeps (g : Nat) (U : Ext) (e f : Box) : Bool :=
  e.length == f.length &&
  (List.range e.length).all fun j =>
    match e[j]?, f[j]? with
    | some ej, some fj =>
      if j = g then
        (match ej, fj with
         | .mk a b, .mk c d => Ext.le c a && (Ext.le b d || Ext.le U d)
         | _, _ => false)
      else Itv.subset ej fj
    | _, _ => false

/-- same x-part (used only to pair the events with the right handled box) -/
def xEq (g : Nat) (e f : Box) : Bool :=
  e.length == f.length &&
  (List.range e.length).all fun j => j == g || (match e[j]?, f[j]? with | some a, some b => a == b | _, _ => false)

/-- no point of `e` has a goal coordinate below `U` -/
def droppable (g : Nat) (U : Ext) (e : Box) : Bool :=
  Box.isEmpty e || (match e[g]? with | some (.mk a _) => Ext.le U a | _ => false)

def replaceFirst (pr : Box → Bool) (new : Box) : List Box → Option (List Box)
  | [] => none
  | e :: es => if pr e then some (new :: es) else (replaceFirst pr new es).map (e :: ·)

def removeFirst (pr : Box → Bool) : List Box → Option (List Box)
  | [] => none
  | e :: es => if pr e then some es else (removeFirst pr es).map (e :: ·)

def pairs (g : Nat) (U : Ext) (target : Box) (e : Box) : Bool :=
  !Box.isEmpty e && xEq g e target && keeps g U e target

def step (g : Nat) (U : Ext) (s : St) : Ev → Except String St
  | .top c =>
    if !(s.pending.all (droppable g U)) then
      .error "a handled box was dropped although its goal lower bound is below uplo"
    else match removeOne c s.opn with
      | some rest => .ok ⟨rest, [c]⟩
      | none => .error "top returns a box that is not in the buffer"
  | .bis l r =>
    match s.pending with
    | [c] => if split2Ok c l r then .ok { s with pending := [l, r] } else .error "halves do not cover the cell"
    | _ => .error "bisection without current cell"
  | .pop _ => .ok s
  | .ctc i o =>
    if !(Box.subset o i) then .error "contractor enlarged the box"
    else match replaceFirst (pairs g U i) o s.pending with
      | some pd => .ok { s with pending := pd }
      | none => .ok s          -- a call on another box (e.g. inside a loup finder): ignored
  | .push f =>
    match removeFirst (pairs g U f) s.pending with
    | some pd => .ok ⟨f :: s.opn, pd⟩
    | none => .error "a pushed box does not come from a handled box (or loses points below uplo)"

def check (g : Nat) (U : Ext) (root : Box) (log : List Ev) : Except String Unit := do
  let s ← log.foldlM (step g U) ⟨[], [root]⟩
  if !(s.pending.all (droppable g U)) then throw "a handled box was dropped although its goal lower bound is below uplo"
  else if !(s.opn.all (droppable g U)) then throw "a cell left in the buffer has a goal lower bound below uplo"
  else pure ()

def checkOk (g : Nat) (U : Ext) (root : Box) (log : List Ev) : Bool :=
  match check g U root log with
  | .ok _ => true
  | .error _ => false

/-- the extended root box: the initial box and an unconstrained goal coordinate (last) -/
def extRoot (box : Box) : Box := box ++ [Itv.mk .ninf .pinf]

end Ibex.OptCover
