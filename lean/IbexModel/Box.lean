/-
  Boxes (interval vectors): set algebra, difference by peeling, bisection
  certificates, bisector admissibility.  No Mathlib import.
-/
import IbexModel.Itv
namespace Ibex

/-- A box is a list of intervals; it denotes the empty set as soon as one component is empty. -/
abbrev Box := List Itv

namespace Box

def isEmpty (b : Box) : Bool := b.any Itv.isEmpty

def inter (x y : Box) : Box := List.zipWith Itv.inter x y

def hull (x y : Box) : Box :=
  if isEmpty x then y else if isEmpty y then x else List.zipWith Itv.hull x y

def all2 (p : Itv → Itv → Bool) : Box → Box → Bool
  | [], [] => true
  | a :: as, b :: bs => p a b && all2 p as bs
  | _, _ => false

def any2 (p : Itv → Itv → Bool) : Box → Box → Bool
  | a :: as, b :: bs => p a b || any2 p as bs
  | _, _ => false

def subset (x y : Box) : Bool := isEmpty x || (!isEmpty y && all2 Itv.subset x y)
def strictSubset (x y : Box) : Bool :=
  !isEmpty y && (isEmpty x || (all2 Itv.subset x y && any2 (fun a b => a != b) x y))
def interiorSubset (x y : Box) : Bool := isEmpty x || (!isEmpty y && all2 Itv.interiorSubset x y)
/-- interior subset and different -/
def strictInteriorSubset (x y : Box) : Bool :=
  !isEmpty y && (isEmpty x || (all2 Itv.interiorSubset x y && any2 (fun a b => a != b) x y))
def relInteriorSubset (x y : Box) : Bool := isEmpty x || (!isEmpty y && all2 Itv.relInteriorSubset x y)
def intersects (x y : Box) : Bool := !isEmpty x && !isEmpty y && all2 Itv.intersects x y
/-- the intersection has a non-null volume: every component overlaps -/
def overlaps (x y : Box) : Bool := !isEmpty x && !isEmpty y && all2 Itv.overlaps x y
def isDisjoint (x y : Box) : Bool := !(intersects x y)

/-- replace component i -/
def setAt (b : Box) (i : Nat) (v : Itv) : Box := b.set i v

/-- `IntervalVector::diff` (compactness = true): peel one dimension at a time.
    `x` is the running box (already restricted to `z` on the processed dimensions). -/
def diffLoop (y z : Box) : Nat → Nat → Box → List Box
  | 0, _, _ => []
  | fuel + 1, var, x =>
    match x[var]?, y[var]?, z[var]? with
    | some xv, some yv, some zv =>
      match Itv.diff xv yv with
      | [] => diffLoop y z fuel (var + 1) x
      | pieces => pieces.map (fun c => setAt x var c) ++ diffLoop y z fuel (var + 1) (setAt x var zv)
    | _, _, _ => []

def diff (x y : Box) : List Box :=
  if isEmpty x then [] else
  let z := inter x y
  if isEmpty z then [x]
  else if any2 (fun zi xi => zi.isDegenerated && !xi.isDegenerated) z x then [x]
  else diffLoop y z x.length 0 x

def complementary (y : Box) : List Box := diff (y.map fun _ => Itv.all) y

/-! ### bisection (certificate style): the implementation's halves are accepted when they are
    [lo,p] and [p,hi] for a cutting point p strictly inside. -/

def bisectOk (x l r : Itv) : Bool :=
  match x, l, r with
  | .mk a b, .mk la lb, .mk ra rb =>
    la == a && rb == b && lb == ra && Ext.lt a lb && Ext.lt lb b && lb.isFin
  | _, _, _ => false

def boxBisectOk (x : Box) (i : Nat) (l r : Box) : Bool :=
  match x[i]?, l[i]?, r[i]? with
  | some xi, some li, some ri =>
    bisectOk xi li ri && l == setAt x i li && r == setAt x i ri && !isEmpty x
  | _, _, _ => false

/-- width rounded upward, as `Interval::diam()` -/
def diamUp : Itv → Ext
  | .empty => .fin 0   -- gaol returns NaN; never compared on empty boxes
  | .mk a b => Itv.addHi b (Ext.neg a)

/-- some binary64 lies strictly between the bounds (⇔ `is_bisectable`) -/
def bisectable : Itv → Bool
  | .empty => false
  | .mk .ninf .pinf => true
  | .mk .ninf (.fin b) => decide (-maxDbl < b)
  | .mk (.fin a) .pinf => decide (a < maxDbl)
  | .mk (.fin a) (.fin b) =>
    let m := (a + b) / 2
    Ext.lt (.fin a) (rd m) && Ext.lt (rd m) (.fin b) || Ext.lt (.fin a) (ru m) && Ext.lt (ru m) (.fin b)
  | _ => false

/-- `Bsc::too_small(box,i)`: narrower than the precision or not bisectable -/
def tooSmall (x : Itv) (prec : Ext) : Bool := Ext.lt (diamUp x) prec || !bisectable x

/-- a bisector answer is admissible: a chosen variable is not too small; "none" only if all are -/
def bscOk (x : Box) (prec : List Ext) (choice : Option Nat) : Bool :=
  match choice with
  | some i =>
    match x[i]?, prec[i]? with
    | some xi, some p => !tooSmall xi p
    | _, _ => false
  | none => (List.zipWith tooSmall x prec).all id

end Box
end Ibex
