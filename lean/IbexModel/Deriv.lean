/-
  Exact derivatives at rational points (dual numbers) and the Boolean acceptance checks of the
  derivative workloads (C08 interval gradients/Jacobians and Hansen matrices, C12 symbolic
  differentiation).  Executable; no Mathlib import.  Soundness: IbexProofs/DualCorrect.lean,
  IbexProofs/Props/C08.lean, IbexProofs/Props/C12.lean.
-/
import IbexModel.Expr
namespace Ibex
namespace Deriv
open Ibex.Eval (buildCalls)

/-- the seeded environment: variable `k` has value `p_k` and gradient `e_k` -/
def seed (p : List Rat) : List Dual :=
  p.zipIdx.map fun (q : Rat × Nat) => (⟨q.1, (List.range p.length).map fun j => if j == q.2 then 1 else 0⟩ : Dual)

/-- exact value and Jacobian (rows = output components in row-major order) at a rational point -/
def dualEval (funs : List Dag) (main : Dag) (p : List Rat) : Option (Mat Dual) :=
  Eval.root (Alg.dual p.length) (seed p) (buildCalls (Alg.dual p.length) funs) main

def ratIn (q : Rat) (x : Itv) : Bool := Itv.containsExt x (.fin q)

/-- the rows `g` (exact gradients) belong entrywise to the interval matrix `z` -/
def rowsIn (g : List (List Rat)) (z : Mat Itv) : Bool :=
  g.length == z.r && g.all (·.length == z.c) && (List.zip g.flatten z.d).all fun q => ratIn q.1 q.2

/-- a column of exact partial derivatives belongs entrywise to the interval column `z` -/
def colIn (col : List Rat) (z : Mat Itv) : Bool :=
  col.length == z.d.length && (List.zip col z.d).all fun q => ratIn q.1 q.2

/-- exact interval product-sum  Σ_j H[i][j]·(x_j − x0_j)  with rational bounds -/
def hansenRow (h : List Itv) (dx : List Rat) : Itv :=
  (List.zip h dx).foldl (fun acc (q : Itv × Rat) =>
    Itv.addG Rnd.exact acc (Itv.mulG Rnd.exact q.1 (Itv.point q.2))) (Itv.point 0)

/-- `f(x) − f(x0) ∈ H·(x − x0)`, row by row, with exact interval arithmetic
    (`v = f(x)`, `v0 = f(x0)`, `dx = x − x0`) -/
def hansenOk (H : Mat Itv) (v v0 : Mat Rat) (dx : List Rat) : Bool :=
  (List.range H.r).all fun i =>
    match v.d[i]?, v0.d[i]? with
    | some a, some b => ratIn (a - b) (hansenRow (H.row i) dx)
    | _, _ => false

/-- the exact Jacobian (flattened, row-major) equals the exact value `dv` of a derivative DAG -/
def diffEq (v : Mat Dual) (dv : Mat Rat) : Bool := (v.d.map (·.g)).flatten == dv.d

/-! ### is the function defined (no pole) on a box?  guard of the slope checks -/

/-- no node of the DAG has a pole on the box: denominators and bases of negative powers exclude 0
    (interval evaluation of the node's argument).  `callOk f args`: the same for the applied function `f`. -/
def definedNodes (dag : Dag) (vals : Array (Mat Itv)) (callOk : Nat → List (Mat Itv) → Bool) : Bool :=
  dag.toList.all fun n =>
    match n.k with
    | .bin "div" _ b => (match vals[b]? with | some v => v.d.all (fun I => !Itv.containsExt I (.fin 0)) | none => false)
    | .pow a k => if k < 0 then (match vals[a]? with | some v => v.d.all (fun I => !Itv.containsExt I (.fin 0)) | none => false) else true
    | .apply f as => (match as.mapM (fun i => vals[i]?) with | some args => callOk f args | none => false)
    | _ => true

/-- functions may only call functions defined before them -/
def definedFuns : List Dag → Nat → List (Mat Itv) → Bool
  | [], _, _ => false
  | funs@(_ :: _), i, args =>
    -- the table of the functions 0..k-1 is enough for function k
    let rec go (k : Nat) (fuel : Nat) (args : List (Mat Itv)) : Bool :=
      match fuel with
      | 0 => false
      | fuel + 1 =>
        match funs[k]? with
        | none => false
        | some dag =>
          match Eval.run Alg.itv (args.flatMap (·.d)) (buildCalls Alg.itv funs) dag with
          | none => false
          | some vals => definedNodes dag vals fun j a => if j < k then go j fuel a else false
    go i (funs.length + 1) args

/-- the function `(funs, main)` has no pole on the box (and its interval evaluation succeeds) -/
def definedOn (funs : List Dag) (main : Dag) (box : List Itv) : Bool :=
  match Eval.run Alg.itv box (buildCalls Alg.itv funs) main with
  | none => false
  | some vals => definedNodes main vals (definedFuns funs)

/-- the smallest box that contains two rational points -/
def hullPts (p q : List Rat) : List Itv :=
  List.zipWith (fun a b => Itv.mk (.fin (if a ≤ b then a else b)) (.fin (if a ≤ b then b else a))) p q

end Deriv
end Ibex
