/-
  C19 — contractor / separator / predicate combinators.

  Executable model (no Mathlib import).  Three layers:

  * "F-level" combinators: functions on *arbitrary* sub-contractors (`CtcFn`), sub-separators
    (`SepFn`) and sub-predicates (`PdcFn`).  They mirror the control flow of the C++ classes
    (sequential application, hull of results, loop on the relative distance, output flags
    FIXPOINT / INACTIVE, impact, early exits, the stack of `CtcExist` / `CtcForAll`).
    The theorems of `IbexProofs/Comb.lean` quantify over all sub-contractors meeting the contract.
  * synthetic exact leaves: a set is a finite union of boxes `U`; `ctcU U x = hull { x ∩ b | b ∈ U }`.
  * combinator trees (`Pdc`, `Ctc`, `Sep`) with evaluators parametric in the leaf environments.

  Deliberate choices (the model is the SPEC, not a copy of defects):
  * `qinterSpec` is the exact hull of the points belonging to at least `q` boxes;
  * a composition reports INACTIVE only if every component did, and nothing else leaks from the
    components' flags;
  * bisection point and sampling point are *guarded* to lie in the bisected interval (always true
    for the floating-point formulas, which makes the soundness proofs independent of rounding).
-/
import IbexModel.Box
namespace Ibex.Comb
open Ibex

/-! ### box helpers -/

/-- the empty box of the same dimension (`IntervalVector::set_empty`) -/
def emptyLike (x : Box) : Box := x.map fun _ => Itv.empty

/-- canonical form: an empty box has all its components empty -/
def norm (x : Box) : Box := if Box.isEmpty x then emptyLike x else x

/-- `x &= y` on vectors (dimension kept, canonical empty) -/
def binter (x y : Box) : Box :=
  if x.length = y.length then norm (Box.inter x y) else emptyLike x

/-- `==` on `IntervalVector`s: two empty vectors are equal -/
def boxEq (a b : Box) : Bool := (Box.isEmpty a && Box.isEmpty b) || a == b

def allImp (x : Box) : List Bool := x.map fun _ => true

/-! ### output of a contraction -/

structure Flags where
  fix : Bool := false
  inact : Bool := false
  /-- the *model* gave up (fuel exhausted / exception path); never set by a real contraction -/
  gaveUp : Bool := false
deriving Repr, DecidableEq, Inhabited

/-- impact: which variables changed since the last call -/
abbrev Imp := List Bool

structure Out where
  box : Box
  fl : Flags := {}
  /-- `context.impact` after the call -/
  imp : Imp
deriving Repr, Inhabited

/-- a contractor: box and impact in, box / flags / impact out -/
abbrev CtcFn := Box → Imp → Out

/-! ### synthetic leaf: union of boxes -/

/-- hull of the intersections of `x` with the boxes of `U` (exact: comparisons only) -/
def ctcU (U : List Box) (x : Box) : Box :=
  U.foldl (fun acc b => Box.hull acc (binter x b)) (emptyLike x)

structure LeafCfg where
  boxes : List Box
  /-- report FIXPOINT (always legitimate: `ctcU` is idempotent) -/
  setFix : Bool := false
  /-- report INACTIVE when legitimate (the box lies inside one box of the union) -/
  setInact : Bool := false
deriving Repr, Inhabited

def leafF (L : LeafCfg) : CtcFn := fun x imp =>
  { box := ctcU L.boxes x
    fl := { fix := L.setFix, inact := L.setInact && L.boxes.any (fun b => Box.subset x b) }
    imp := imp }

/-! ### CtcCompo -/

def compoGo (impIn : Imp) : List CtcFn → Box → Imp → Bool → Flags → Bool → Out
  | [], box, _, inactive, lf, gu =>
    { box := box
      fl := if inactive then { fix := lf.fix, inact := true, gaveUp := gu } else { gaveUp := gu }
      imp := impIn }
  | c :: cs, box, ci, inactive, _, gu =>
    let o := c box ci
    if Box.isEmpty o.box then
      { box := emptyLike box, fl := { fix := true, gaveUp := gu || o.fl.gaveUp }, imp := impIn }
    else compoGo impIn cs o.box o.imp (inactive && o.fl.inact) o.fl (gu || o.fl.gaveUp)

def compoF (l : List CtcFn) : CtcFn := fun x imp => compoGo imp l x (allImp x) true {} false

/-! ### CtcUnion -/

def unionGo (x : Box) (imp : Imp) : List CtcFn → Box → Bool → Out
  | [], res, gu => { box := res, fl := { gaveUp := gu }, imp := imp }
  | c :: cs, res, gu =>
    let o := c x imp
    let res' := Box.hull res o.box
    if o.fl.inact then { box := res', fl := { inact := true, gaveUp := gu || o.fl.gaveUp }, imp := imp }
    else unionGo x imp cs res' (gu || o.fl.gaveUp)

def unionF (l : List CtcFn) : CtcFn := fun x imp => unionGo x imp l (emptyLike x) false

/-! ### CtcFixPoint (relative distance in upward-rounded binary64) -/

def absExt : Ext → Ext
  | .fin q => .fin (if q < 0 then -q else q)
  | _ => .pinf

/-- `a - b` rounded upward -/
def subUp : Ext → Ext → Ext
  | .fin a, .fin b => ru (a - b)
  | _, _ => .pinf

/-- `ibex::distance(x1,x2)` (Hausdorff distance, gaol: `fmax(fabs(a-c),fabs(b-d))`, FPU rounding upward) -/
def dist (x1 x2 : Itv) : Ext :=
  match x1, x2 with
  | .mk a b, .mk c d =>
    if a == .ninf then
      if c != .ninf then .pinf
      else if b == .pinf then (if d == .pinf then .fin 0 else .pinf)
      else if d == .pinf then .pinf
      else absExt (subUp b d)
    else if b == .pinf then
      if d != .pinf then .pinf
      else if c == .ninf then .pinf
      else absExt (subUp a c)
    else if c == .ninf || d == .pinf then .pinf
    else Ext.max (absExt (subUp a c)) (absExt (subUp b d))
  | _, _ => .fin 0

/-- `old.rel_distance(new)` -/
def relDist1 (old new : Itv) : Ext :=
  match dist old new with
  | .pinf => .fin 1
  | .fin d =>
    match Box.diamUp old with
    | .fin D => if D = 0 then .fin 0 else ru (d / D)
    | _ => .fin 0
  | .ninf => .fin 0

def relDist : Box → Box → Ext
  | o :: os, n :: ns => (List.zipWith relDist1 os ns).foldl (fun m c => if Ext.lt m c then c else m) (relDist1 o n)
  | _, _ => .fin 0

def fixGo (c : CtcFn) (ratio : Ext) (init : Box) : Nat → Box → Imp → Bool → Out
  | 0, box, ci, _ => { box := box, fl := { gaveUp := true }, imp := ci }
  | n + 1, box, ci, gu =>
    let o := c box ci
    let gu' := gu || o.fl.gaveUp
    if Box.isEmpty o.box then
      { box := emptyLike box
        fl := { fix := true, inact := o.fl.inact && boxEq init (emptyLike box), gaveUp := gu' }
        imp := o.imp }
    else
      let ci' := List.zipWith (fun a b => a != b) o.box box
      if !o.fl.fix && !o.fl.inact && Ext.lt ratio (relDist box o.box) then
        fixGo c ratio init n o.box ci' gu'
      else
        { box := o.box
          fl := { fix := o.fl.fix, inact := o.fl.inact && boxEq init o.box, gaveUp := gu' }
          imp := ci' }

def fixF (fuel : Nat) (c : CtcFn) (ratio : Ext) : CtcFn := fun x imp => fixGo c ratio x fuel x imp false

/-! ### q-intersection (specification: exact hull) -/

/-- all sub-lists of length `k` (order kept) -/
def choose {α : Type} : Nat → List α → List (List α)
  | 0, _ => [[]]
  | _ + 1, [] => []
  | k + 1, a :: as => (choose k as).map (a :: ·) ++ choose (k + 1) as

/-- `x ∩ b₁ ∩ … ∩ bₖ` -/
def interAll (x : Box) (l : List Box) : Box := l.foldl binter x

/-- hull of the points of `x` that belong to at least `q` of the boxes -/
def qinterSpec (x : Box) (boxes : List Box) (q : Nat) : Box :=
  (choose q boxes).foldl (fun acc sub => Box.hull acc (interAll x sub)) (emptyLike x)

def qinterF (l : List CtcFn) (q : Nat) : CtcFn := fun x imp =>
  let os := l.map fun c => c x imp
  { box := qinterSpec x (os.map (·.box)) q, fl := { gaveUp := os.any (·.fl.gaveUp) }, imp := imp }

/-! ### CtcInteger, CtcIdentity, CtcEmpty -/

def integerGo : List Bool → Imp → Box → Box
  | m :: ms, i :: is, I :: xs => (if m && i then Itv.inter I (Itv.integer I) else I) :: integerGo ms is xs
  | _, _, xs => xs

def integerF (mask : List Bool) : CtcFn := fun x imp =>
  let y := integerGo mask imp x
  if Box.isEmpty y then { box := emptyLike x, fl := { fix := true }, imp := imp }
  else { box := y, imp := imp }

def idF : CtcFn := fun x imp => { box := x, fl := { fix := true, inact := true }, imp := imp }

def emptyF : CtcFn := fun x imp => { box := emptyLike x, fl := { fix := true }, imp := imp }

/-! ### three-valued predicates -/

inductive BoolItv where
  | emptyB | no | yes | maybe
deriving Repr, DecidableEq, Inhabited

namespace BoolItv
/-- logical and (`operator&&`) -/
def and : BoolItv → BoolItv → BoolItv
  | emptyB, _ => emptyB
  | _, emptyB => emptyB
  | no, _ => no
  | _, no => no
  | maybe, _ => maybe
  | _, maybe => maybe
  | yes, yes => yes
/-- logical or (`operator||`) -/
def or : BoolItv → BoolItv → BoolItv
  | emptyB, _ => emptyB
  | _, emptyB => emptyB
  | yes, _ => yes
  | _, yes => yes
  | maybe, _ => maybe
  | _, maybe => maybe
  | no, no => no
def not : BoolItv → BoolItv
  | yes => no
  | no => yes
  | b => b
/-- set intersection of the two sub-sets of {0,1} (`operator&`) -/
def meet (x y : BoolItv) : BoolItv :=
  if x = y then x else if x = maybe then y else if y = maybe then x else emptyB
/-- set union (`operator|`) -/
def join (x y : BoolItv) : BoolItv :=
  if x = emptyB then y else if y = emptyB then x else if x = y then x else maybe
/-- an answer is acceptable w.r.t. the tightest logical answer: equal, or "don't know" -/
def okFor (spec impl : BoolItv) : Bool := impl == spec || impl == maybe
end BoolItv

abbrev PdcFn := Box → BoolItv

def pdcAndF : List PdcFn → PdcFn
  | [] => fun _ => .yes
  | p :: ps => fun x => ps.foldl (fun r p' => BoolItv.and r (p' x)) (p x)
def pdcOrF : List PdcFn → PdcFn
  | [] => fun _ => .no
  | p :: ps => fun x => ps.foldl (fun r p' => BoolItv.or r (p' x)) (p x)
def pdcNotF (p : PdcFn) : PdcFn := fun x => BoolItv.not (p x)

/-- synthetic predicate leaf for a set `S` with `complement(⋃V) ⊆ S ⊆ ⋃U` -/
def pdcLeafF (U V : List Box) : PdcFn := fun x =>
  if V.all (fun b => Box.isDisjoint x b) then .yes
  else if U.all (fun b => Box.isDisjoint x b) then .no
  else .maybe

/-- `CtcEmpty(pdc)`: empties the box when the predicate holds everywhere -/
def ofPdcF (p : PdcFn) : CtcFn := fun x imp =>
  if p x = .yes then { box := emptyLike x, fl := { fix := true }, imp := imp } else { box := x, imp := imp }

/-! ### quantifiers: variables / parameters -/

def merge {α : Type} : List Bool → List α → List α → List α
  | true :: m, x :: xs, ys => x :: merge m xs ys
  | false :: m, xs, y :: ys => y :: merge m xs ys
  | _, _, _ => []

def projT {α : Type} : List Bool → List α → List α
  | true :: m, a :: as => a :: projT m as
  | false :: m, _ :: as => projT m as
  | _, _ => []

def projF {α : Type} : List Bool → List α → List α
  | true :: m, _ :: as => projF m as
  | false :: m, a :: as => a :: projF m as
  | _, _ => []

def cntT : List Bool → Nat
  | [] => 0
  | true :: m => cntT m + 1
  | false :: m => cntT m
def cntF : List Bool → Nat
  | [] => 0
  | true :: m => cntF m
  | false :: m => cntF m + 1

def varBox (m : List Bool) (full : Box) : Box :=
  if Box.isEmpty full then emptyLike (projT m full) else projT m full
def paramBox (m : List Bool) (full : Box) : Box :=
  if Box.isEmpty full then emptyLike (projF m full) else projF m full

structure QOut where
  x : Box
  y : Box
  inact : Bool
  gaveUp : Bool

/-- `CtcQuantif::contract(x,y)` -/
def qc (c : CtcFn) (m : List Bool) (x y : Box) : QOut :=
  let full := norm (merge m x y)
  let o := c full (allImp full)
  { x := varBox m o.box, y := paramBox m o.box, inact := o.fl.inact, gaveUp := o.fl.gaveUp }

def maxDiam : Box → Ext
  | [] => .fin 0
  | I :: Is => Is.foldl (fun m J => Ext.max m (Box.diamUp J)) (Box.diamUp I)

/-- round to nearest, ties to even -/
def rn (q : Rat) : Ext :=
  match rd q, ru q with
  | .fin a, .fin b =>
    if a = b then .fin a
    else if q - a < b - q then .fin a
    else if b - q < q - a then .fin b
    else match ratToBits? a with
      | some n => if n % 2 = 0 then .fin a else .fin b
      | none => .fin a
  | e, _ => e

/-- `Interval::mid()` of a bounded interval (gaol: `0.5*(a+b)` rounded to nearest) -/
def midPoint (a b : Rat) : Ext :=
  if a = -b then .fin 0 else match rn (a + b) with
    | .fin s => .fin (s / 2)
    | e => e

/-- guard: the sampling point lies in the interval (always the case); otherwise the interval itself -/
def guardMid (a b m : Ext) : Itv := if Ext.le a m && Ext.le m b then .mk m m else .mk a b

/-- the midpoint as a degenerate interval -/
def midItv : Itv → Itv
  | .mk (.fin a) (.fin b) => guardMid (.fin a) (.fin b) (midPoint a b)
  | I => I

def midBox (y : Box) : Box := y.map midItv

/-- next binary64 above a finite value -/
def nextUp (a : Rat) : Ext := ru (a + pow2 (-1080))

/-- the cutting point of `Interval::bisect(ratio)` for a bounded interval, ratio ≠ 0.5:
    `lb + ratio*diam` (each operation rounded upward), `next_float(lb)` if that reaches `ub` -/
def cutPoint (ratio a b : Rat) : Option Ext :=
  match Box.diamUp (.mk (.fin a) (.fin b)) with
  | .fin d =>
    match ru (ratio * d) with
    | .fin t =>
      let p0 := ru (a + t)
      some (if Ext.le (.fin b) p0 then nextUp a else p0)
    | _ => none
  | _ => none

/-- guard: the cutting point is finite and lies in the interval (always the case) -/
def guardCut (a b p : Ext) : Option (Itv × Itv) :=
  if Ext.le a p && Ext.le p b && p.isFin then some (.mk a p, .mk p b) else none

/-- `Interval::bisect(ratio)`; `none` outside the supported domain (unbounded intervals) -/
def bisectItv (ratio : Rat) : Itv → Option (Itv × Itv)
  | .mk (.fin a) (.fin b) =>
    match cutPoint ratio a b with
    | some p => guardCut (.fin a) (.fin b) p
    | none => none
  | _ => none

/-- `LargestFirst::choose_var` with a uniform precision: first variable of largest diameter among
    the ones that are not too small -/
def lfChoose (prec : Ext) (y : Box) : Option Nat :=
  let rec go (i : Nat) (best : Option (Nat × Ext)) : Box → Option Nat
    | [] => best.map (·.1)
    | I :: Is =>
      if Box.tooSmall I prec then go (i + 1) best Is
      else
        let l := Box.diamUp I
        match best with
        | none => go (i + 1) (some (i, l)) Is
        | some (_, lb) => if Ext.lt lb l then go (i + 1) (some (i, l)) Is else go (i + 1) best Is
  go 0 none y

/-- `bsc->bisect(y)` for `LargestFirst(prec, ratio)`; `none` = NoBisectableVariableException -/
def lfBisect (prec : Ext) (ratio : Rat) (y : Box) : Option (Box × Box) :=
  match lfChoose prec y with
  | none => none
  | some i =>
    match y[i]? with
    | none => none
    | some I =>
      match bisectItv ratio I with
      | none => none
      | some (l, r) => some (y.set i l, y.set i r)

/-! ### CtcExist -/

structure ExStep where
  stop : Bool
  res : Box
  push : List (Box × Box)
  inact : Bool
  gaveUp : Bool

/-- `CtcExist::proceed` -/
def exProceed (c : CtcFn) (m : List Bool) (prec : Ext) (samp : Box → Box)
    (xInit xCur res y : Box) : ExStep :=
  let r := qc c m xCur y
  if Box.isEmpty r.x then { stop := false, res := res, push := [], inact := false, gaveUp := r.gaveUp }
  else if r.inact then
    if boxEq r.x xInit then { stop := true, res := xInit, push := [], inact := true, gaveUp := r.gaveUp }
    else { stop := false, res := Box.hull res r.x, push := [], inact := false, gaveUp := r.gaveUp }
  else if !Box.subset r.x res then
    if Ext.le (maxDiam r.y) prec then
      let res' := Box.hull res r.x
      { stop := boxEq res' xInit, res := res', push := [], inact := false, gaveUp := r.gaveUp }
    else
      let s := qc c m r.x (samp r.y)
      if !Box.isEmpty s.x then
        let res' := Box.hull res s.x
        { stop := boxEq res' xInit, res := res', push := [(r.x, r.y)], inact := false, gaveUp := r.gaveUp || s.gaveUp }
      else { stop := false, res := res, push := [(r.x, r.y)], inact := false, gaveUp := r.gaveUp || s.gaveUp }
  else { stop := false, res := res, push := [], inact := false, gaveUp := r.gaveUp }

def exFinish (box res : Box) (inact gu : Bool) (imp : Imp) : Out :=
  let b := binter box res
  { box := b, fl := { fix := Box.isEmpty b, inact := inact, gaveUp := gu }, imp := imp }

def exLoop (c : CtcFn) (m : List Bool) (prec : Ext) (bis : Box → Option (Box × Box)) (samp : Box → Box)
    (box : Box) (imp : Imp) : Nat → List (Box × Box) → Box → Bool → Out
  | 0, _, _, _ => { box := box, fl := { gaveUp := true }, imp := imp }
  | _ + 1, [], res, gu => exFinish box res false gu imp
  | n + 1, (xs, ys) :: rest, res, gu =>
    match bis ys with
    | none =>
      -- no bisectable parameter (the parameter box is narrower than the precision): handled like
      -- `CtcForAll` does, the box of parameters is processed as a whole
      let s := exProceed c m prec samp box xs res ys
      if s.stop then exFinish box s.res s.inact (gu || s.gaveUp) imp
      else exLoop c m prec bis samp box imp n (s.push ++ rest) s.res (gu || s.gaveUp)
    | some (y1, y2) =>
      let s1 := exProceed c m prec samp box xs res y1
      if s1.stop then exFinish box s1.res s1.inact (gu || s1.gaveUp) imp
      else
        let s2 := exProceed c m prec samp box xs s1.res y2
        if s2.stop then exFinish box s2.res s2.inact (gu || s1.gaveUp || s2.gaveUp) imp
        else exLoop c m prec bis samp box imp n (s2.push ++ s1.push ++ rest) s2.res (gu || s1.gaveUp || s2.gaveUp)

def existF (fuel : Nat) (c : CtcFn) (m : List Bool) (yinit : Box) (prec : Ext)
    (bis : Box → Option (Box × Box)) (samp : Box → Box) : CtcFn := fun x imp =>
  if cntT m = x.length ∧ cntF m = yinit.length then
    exLoop c m prec bis samp x imp fuel [(x, yinit)] (emptyLike x) false
  else { box := x, fl := { gaveUp := true }, imp := imp }   -- dimensions do not fit (C++: assert)

/-! ### CtcForAll -/

structure FaStep where
  x : Box
  push : List Box
  inact : Bool
  gaveUp : Bool

/-- `CtcForAll::proceed`; `none` = the box became empty (ForAllEmptyBox) -/
def faProceed (c : CtcFn) (m : List Bool) (prec : Ext) (samp : Box → Box)
    (x y : Box) (inact : Bool) : Option FaStep :=
  let r := qc c m x (samp y)
  if Box.isEmpty r.x then none
  else if Ext.lt prec (maxDiam y) then some { x := r.x, push := [y], inact := inact, gaveUp := r.gaveUp }
  else if inact && r.inact then
    let r2 := qc c m r.x y
    some { x := r2.x, push := [], inact := r2.inact, gaveUp := r.gaveUp || r2.gaveUp }
  else some { x := r.x, push := [], inact := false, gaveUp := r.gaveUp }

def faLoop (c : CtcFn) (m : List Bool) (prec : Ext) (bis : Box → Option (Box × Box)) (samp : Box → Box)
    (box : Box) (imp : Imp) : Nat → List Box → Box → Bool → Bool → Out
  | 0, _, _, _, _ => { box := box, fl := { gaveUp := true }, imp := imp }
  | _ + 1, [], x, inact, gu =>
    -- INACTIVE is reported only if nothing was contracted (the C++ code forgets the contractions done
    -- while sampling non-terminal parameter boxes)
    { box := x, fl := { inact := inact && boxEq box x, gaveUp := gu }, imp := imp }
  | n + 1, y :: rest, x, inact, gu =>
    let dead : Out := { box := emptyLike box, fl := { fix := true, gaveUp := gu }, imp := imp }
    match bis y with
    | some (y1, y2) =>
      match faProceed c m prec samp x y1 inact with
      | none => dead
      | some s1 =>
        match faProceed c m prec samp s1.x y2 s1.inact with
        | none => dead
        | some s2 => faLoop c m prec bis samp box imp n (s2.push ++ s1.push ++ rest) s2.x s2.inact (gu || s1.gaveUp || s2.gaveUp)
    | none =>
      match faProceed c m prec samp x y inact with
      | none => dead
      | some s => faLoop c m prec bis samp box imp n (if s.push.isEmpty then rest else y :: rest) s.x s.inact (gu || s.gaveUp)

def forallF (fuel : Nat) (c : CtcFn) (m : List Bool) (yinit : Box) (prec : Ext)
    (bis : Box → Option (Box × Box)) (samp : Box → Box) : CtcFn := fun x imp =>
  if cntT m = x.length ∧ cntF m = yinit.length then
    faLoop c m prec bis samp x imp fuel [yinit] x true false
  else { box := x, fl := { gaveUp := true }, imp := imp }

/-! ### CtcNotIn / CtcInverse (abstract forward / backward operators) -/

/-- `CtcInverse(c,f)`: `fwd x ⊇ f(x)`, `bwd y x ⊇ { p ∈ x | f p ∈ y }` -/
def inverseF (c : CtcFn) (fwd : Box → Box) (bwd : Box → Box → Box) : CtcFn := fun x imp =>
  let y := fwd x
  let o := c y (allImp y)
  if Box.isEmpty o.box then { box := emptyLike x, fl := { fix := true, gaveUp := o.fl.gaveUp }, imp := imp }
  else if o.fl.inact then { box := x, fl := { inact := true, gaveUp := o.fl.gaveUp }, imp := imp }
  else
    let b := bwd o.box x
    { box := b, fl := { fix := Box.isEmpty b, gaveUp := o.fl.gaveUp }, imp := imp }

/-- `CtcNotIn(f,y)`: union of the forward-backward contractors of the pieces of the complement of `y`;
    no piece: `CtcEmpty` -/
def notInF (pieces : List CtcFn) : CtcFn :=
  match pieces with
  | [] => emptyF
  | [c] => c
  | l => unionF l

/-! ### separators -/

structure SepOut where
  xin : Box
  xout : Box
  gaveUp : Bool := false
deriving Repr, Inhabited

/-- a separator, called with `x_in = x_out = x` -/
abbrev SepFn := Box → SepOut

def sepPairF (cin cout : CtcFn) : SepFn := fun x =>
  let o := cout x (allImp x)
  let i := cin x (allImp x)
  { xin := i.box, xout := o.box, gaveUp := o.fl.gaveUp || i.fl.gaveUp }

/-- synthetic leaf for a set `S` with `complement(⋃V) ⊆ S ⊆ ⋃U` -/
def sepLeafF (U V : List Box) : SepFn := fun x => { xin := ctcU V x, xout := ctcU U x }

def sepInterGo (x : Box) : List SepFn → Box → Box → Bool → SepOut
  | [], xo, resIn, gu => { xin := resIn, xout := xo, gaveUp := gu }
  | s :: ss, xo, resIn, gu =>
    let r := s (binter x xo)
    sepInterGo x ss r.xout (Box.hull resIn r.xin) (gu || r.gaveUp)

def sepInterF (l : List SepFn) : SepFn := fun x => sepInterGo x l x (emptyLike x) false

def sepUnionGo (x : Box) : List SepFn → Box → Box → Bool → SepOut
  | [], xi, resOut, gu => { xin := xi, xout := resOut, gaveUp := gu }
  | s :: ss, xi, resOut, gu =>
    let r := s (binter x xi)
    sepUnionGo x ss r.xin (Box.hull resOut r.xout) (gu || r.gaveUp)

def sepUnionF (l : List SepFn) : SepFn := fun x => sepUnionGo x l x (emptyLike x) false

def sepNotF (s : SepFn) : SepFn := fun x =>
  let r := s x
  { xin := r.xout, xout := r.xin, gaveUp := r.gaveUp }

/-- `SepQInter(list,q)`: the set of points belonging to at least `n-q` of the sets -/
def sepQInterF (l : List SepFn) (q : Nat) : SepFn := fun x =>
  let rs := l.map fun s => s x
  { xin := binter x (qinterSpec x (rs.map (·.xin)) (q + 1))
    xout := binter x (qinterSpec x (rs.map (·.xout)) (l.length - q))
    gaveUp := rs.any (·.gaveUp) }

/-! ### combinator trees -/

inductive Pdc where
  | leaf (i : Nat)
  | and (l : List Pdc)
  | or (l : List Pdc)
  | not (p : Pdc)
deriving Repr, Inhabited

mutual
def Pdc.eval (env : Nat → PdcFn) : Pdc → PdcFn
  | .leaf i => env i
  | .and l => pdcAndF (Pdc.evalList env l)
  | .or l => pdcOrF (Pdc.evalList env l)
  | .not p => pdcNotF (Pdc.eval env p)
def Pdc.evalList (env : Nat → PdcFn) : List Pdc → List PdcFn
  | [] => []
  | p :: ps => Pdc.eval env p :: Pdc.evalList env ps
end

inductive Ctc where
  | leaf (i : Nat)
  | compo (l : List Ctc)
  | union (l : List Ctc)
  | fix (c : Ctc) (ratio : Ext)
  | qinter (l : List Ctc) (q : Nat)
  | integer (mask : List Bool)
  | id
  | empty
  | exist (c : Ctc) (mask : List Bool) (yinit : Box) (prec : Ext) (bratio : Rat)
  | forAll (c : Ctc) (mask : List Bool) (yinit : Box) (prec : Ext) (bratio : Rat)
  | ofPdc (p : Pdc)
deriving Repr, Inhabited

/-- environments: behaviour of the leaves -/
structure Env where
  ctc : Nat → CtcFn
  pdc : Nat → PdcFn
  sep : Nat → SepFn

/-- synthetic leaves: unions of boxes (`sep`, `pdc`: a pair `(U,V)`, the set lies between the
    complement of `⋃V` and `⋃U`) -/
structure SynLeaves where
  ctc : Nat → LeafCfg
  sep : Nat → List Box × List Box
  pdc : Nat → List Box × List Box

def SynLeaves.env (L : SynLeaves) : Env :=
  { ctc := fun i => leafF (L.ctc i)
    sep := fun i => sepLeafF (L.sep i).1 (L.sep i).2
    pdc := fun i => pdcLeafF (L.pdc i).1 (L.pdc i).2 }

mutual
def Ctc.eval (env : Env) (fuel : Nat) : Ctc → CtcFn
  | .leaf i => env.ctc i
  | .compo l => compoF (Ctc.evalList env fuel l)
  | .union l => unionF (Ctc.evalList env fuel l)
  | .fix c ratio => fixF fuel (Ctc.eval env fuel c) ratio
  | .qinter l q => qinterF (Ctc.evalList env fuel l) q
  | .integer mask => integerF mask
  | .id => idF
  | .empty => emptyF
  | .exist c m yinit prec br => existF fuel (Ctc.eval env fuel c) m yinit prec (lfBisect prec br) midBox
  | .forAll c m yinit prec br => forallF fuel (Ctc.eval env fuel c) m yinit prec (lfBisect prec br) midBox
  | .ofPdc p => ofPdcF (Pdc.eval env.pdc p)
def Ctc.evalList (env : Env) (fuel : Nat) : List Ctc → List CtcFn
  | [] => []
  | c :: cs => Ctc.eval env fuel c :: Ctc.evalList env fuel cs
end

inductive Sep where
  | leaf (i : Nat)
  | pair (cin cout : Ctc)
  | inter (l : List Sep)
  | union (l : List Sep)
  | not (s : Sep)
  | qinter (l : List Sep) (q : Nat)
deriving Repr, Inhabited

mutual
def Sep.eval (env : Env) (fuel : Nat) : Sep → SepFn
  | .leaf i => env.sep i
  | .pair cin cout => sepPairF (Ctc.eval env fuel cin) (Ctc.eval env fuel cout)
  | .inter l => sepInterF (Sep.evalList env fuel l)
  | .union l => sepUnionF (Sep.evalList env fuel l)
  | .not s => sepNotF (Sep.eval env fuel s)
  | .qinter l q => sepQInterF (Sep.evalList env fuel l) q
def Sep.evalList (env : Env) (fuel : Nat) : List Sep → List SepFn
  | [] => []
  | s :: ss => Sep.eval env fuel s :: Sep.evalList env fuel ss
end

end Ibex.Comb
