/-
  Branch-and-contract certificates (C05/C06/C18): replay of the log of a real search
  (buffer pushes/tops/pops, contractor calls) against the final paving.
  A log is accepted when every cell that left the buffer was emptied by logged contractions,
  replaced by two logged children covering it, or is covered by a box of the final paving
  (or lies inside the unicity box of a reported solution), and every cell still in the buffer
  at the end is covered by the paving.  No Mathlib import.
-/
import IbexModel.Box
import IbexModel.Expr
namespace Ibex.Cover
open Ibex

inductive Ev where
  | push (b : Box)
  | top (b : Box)
  | ctc (i o : Box)          -- one call of the contractor: input box, output box
  | pop (b : Box)
  | flush
deriving Repr

/-- final paving: boxes by which a cell may be covered, and (existence, unicity) pairs of solutions -/
structure Paving where
  boxes : List Box
  unicity : List (Box × Box × List Nat)     -- existence box, unicity box, indices of the (non-parameter) variables
deriving Repr

/-- c ⊆ l ∪ r for two boxes that differ (at most) along one coordinate -/
def split2Ok (c l r : Box) : Bool :=
  Box.subset c l || Box.subset c r ||
  (c.length == l.length && c.length == r.length &&
    (List.range c.length).any fun i =>
      match c[i]?, l[i]?, r[i]? with
      | some (.mk ca cb), some (.mk la lb), some (.mk ra rb) =>
        -- all the other coordinates of c are inside both l and r
        ((List.range c.length).all fun j =>
            j == i || (match c[j]?, l[j]?, r[j]? with
              | some cj, some lj, some rj => Itv.subset cj lj && Itv.subset cj rj
              | _, _, _ => false)) &&
        -- along i: [la,lb] ∪ [ra,rb] ⊇ [ca,cb] with the two pieces touching
        ((Ext.le la ca && Ext.le cb rb && Ext.le ra lb) || (Ext.le ra ca && Ext.le cb lb && Ext.le la rb))
      | _, _, _ => false)

/-- the cell box is covered by the final paving -/
def storedOk (pv : Paving) (c : Box) : Bool :=
  pv.boxes.any (fun s => Box.subset c s) || pv.unicity.any (fun eu => Box.subset c eu.2.1)

structure St where
  certified : Nat := 0        -- cells discharged through the uniqueness certificate
  openB : List Box            -- boxes in the buffer
  topped : Option Box         -- box of the cell returned by the last `top` (as it is in the buffer)
  cur : Option Box            -- its current box, after the logged contractions
  popped : Option Box         -- last popped cell, not yet discharged
  kids : List Box             -- boxes pushed since that pop
deriving Repr

def St.init : St := ⟨0, [], none, none, none, []⟩

/-- remove one occurrence -/
def removeOne (b : Box) : List Box → Option (List Box)
  | [] => none
  | x :: xs => if x == b then some xs else (removeOne b xs).map (x :: ·)

def sameBox (a b : Box) : Bool := (Box.isEmpty a && Box.isEmpty b) || a == b

/-- discharge the obligation left by the last pop -/
def discharge (cert : Box → Box × Box × List Nat → Bool) (pv : Paving) (s : St) : Except String St :=
  match s.popped with
  | none => .ok { s with openB := s.kids ++ s.openB, kids := [] }
  | some c =>
    if Box.isEmpty c then
      (if s.kids.isEmpty then .ok { s with popped := none } else .error "children pushed for an emptied cell")
    else match s.kids with
      | [] =>
        if storedOk pv c then .ok { s with popped := none }
        else if pv.unicity.any (fun eu => cert c eu) then
          -- the cell was replaced by (or discarded in favour of) the existence box E of a solution without
          -- being inside its unicity box: accepted when `cert c E` holds (the system has at most one zero
          -- in the hull of c and E, so every solution of c is the one enclosed by E)
          .ok { s with popped := none, certified := s.certified + 1 }
        else if pv.unicity.any (fun eu => Box.intersects c eu.1) then
          .error "cell replaced by a solution box without being inside its unicity box (no uniqueness certificate)"
        else if !pv.unicity.isEmpty then
          -- (systems with equations: the cell was discarded after a certification attempt whose existence
          --  box is disjoint from it; only a uniqueness certificate on the hull would justify it)
          .error "cell discarded after a certification attempt without uniqueness certificate"
        else .error "cell dropped: neither emptied, bisected nor covered by the paving"
      | [a, b] =>
        if split2Ok c a b then .ok { s with popped := none, openB := a :: b :: s.openB, kids := [] }
        else .error "children do not cover the cell"
      | _ => .error "unexpected number of children"

def step (cert : Box → Box × Box × List Nat → Bool) (pv : Paving) (s : St) (e : Ev) : Except String St :=
  match e with
  | .push b =>
    if Box.isEmpty b then .error "empty box pushed" else
    match s.popped with
    | some _ => .ok { s with kids := s.kids ++ [b] }
    | none => .ok { s with openB := b :: s.openB }
  | .top b => do
    let s ← discharge cert pv s
    if s.openB.contains b then .ok { s with topped := some b, cur := some b }
    else .error "top returns a box that is not in the buffer"
  | .ctc i o =>
    match s.cur with
    | some c =>
      if sameBox i c then
        (if Box.subset o i then .ok { s with cur := some o } else .error "contractor enlarged the box")
      else .ok s     -- a call on another box (e.g. inside a certification procedure): ignored
    | none => .ok s
  | .pop b =>
    match s.topped, s.cur with
    | some t, some c =>
      if !(sameBox b c) then .error "popped box is not the result of the logged contractions" else
      match removeOne t s.openB with
      | some rest => .ok { s with openB := rest, topped := none, cur := none, popped := some b }
      | none => .error "popped cell was not in the buffer"
    | _, _ => .error "pop without top"
  | .flush => discharge cert pv s

/-- run the whole log; at the end every pending obligation is discharged and every box still in the
    buffer must be covered by the paving -/
def check (cert : Box → Box × Box × List Nat → Bool) (pv : Paving) (log : List Ev) : Except String Nat := do
  let s ← log.foldlM (step cert pv) St.init
  let s ← discharge cert pv s
  if s.openB.all (storedOk pv) then pure s.certified else throw "a cell left in the buffer is not covered by the paving"

def checkOk (cert : Box → Box × Box × List Nat → Bool) (pv : Paving) (root : Box) (log : List Ev) : Bool :=
  match log with
  | .push b :: _ => b == root && (match check cert pv log with | .ok _ => true | .error _ => false)
  | _ => false

/-! ### the other run-time rules on the output of the solver -/

/-- the enclosure `z` of a value proves the sign condition `spec` (`leq`: ≤ 0, `lt`: < 0, `geq`: ≥ 0, `gt`: > 0) -/
def signProved (spec : String) (z : Itv) : Bool :=
  match z, spec with
  | .mk _ hi, "leq" => Ext.le hi (.fin 0)
  | .mk _ hi, "lt" => Ext.lt hi (.fin 0)
  | .mk lo _, "geq" => Ext.le (.fin 0) lo
  | .mk lo _, "gt" => Ext.lt (.fin 0) lo
  | _, _ => false

/-- interval evaluation of a constraint over a box proves it for every point (C02 `root_encl`) -/
def provedOnBox (funs : List Dag) (dag : Dag) (spec : String) (box : Box) : Bool :=
  match Eval.root Alg.itv box (Eval.buildCalls Alg.itv funs) dag with
  | some v => v.d.all (signProved spec)
  | none => false

/-- an inner box: every constraint is proved on the whole box -/
def innerOk (cs : List ((List Dag × Dag) × String)) (box : Box) : Bool :=
  cs.all fun x => provedOnBox x.1.1 x.1.2 x.2 box

/-- an unknown box: every component is narrower than (or equal to) eps_min, or cannot be bisected -/
def unknownSmall (b : Box) (eps : List Ext) : Bool :=
  b.length == eps.length && (List.zip b eps).all fun q => Ext.le (Box.diamUp q.1) q.2 || !Box.bisectable q.1

/-- the status returned by the solver agrees with the numbers of boxes of each kind in its output -/
def statusOk (st : String) (nsol nbnd nunk npend ninner : Nat) : Bool :=
  match st with
  | "SUCCESS" => nunk == 0 && npend == 0
  | "INFEASIBLE" => nsol + nbnd + nunk + npend + ninner == 0
  | "NOT_ALL_VALIDATED" => npend == 0 && nunk > 0
  | "CELL_OVERFLOW" => true
  | "TIME_OUT" => true
  | _ => false

/-! ### interrupted search, resumed from a saved paving (C18, second half) -/

/-- one box of a paving with its verdict: `"I"` inner, `"S"` solution, `"B"` boundary (validated boxes),
    `"U"` unknown, `"D"` pending; `uni`/`vars`: unicity box and variables of a solution (and the varset of a
    boundary box); `cert`: whether the box takes part in the uniqueness rules of the replay -/
structure Item where
  kind : String
  box : Box
  uni : Box
  vars : List Nat
  cert : Bool
deriving Repr, DecidableEq

def Item.validated (it : Item) : Bool := it.kind == "I" || it.kind == "S" || it.kind == "B"

/-- the paving used by the replay -/
def pavingOf (items : List Item) : Paving :=
  ⟨items.map (·.box), items.filterMap fun it => if it.cert then some (it.box, it.uni, it.vars) else none⟩

/-- boxes pushed at the very beginning of a log (the cells the search starts from) -/
def leadingPushes : List Ev → List Box
  | .push b :: es => b :: leadingPushes es
  | _ => []

/-- what a resumed search owes to the paving `prev` it starts from: every validated box of `prev` is in the
    new paving, unchanged (same verdict, same box, same unicity box and variables), every other box
    (unknown, pending) is one of the cells the resumed search starts from, or is kept as a box of `new` -/
def resumeOk (prev new : List Item) (roots : List Box) : Bool :=
  prev.all fun it => if it.validated then decide (it ∈ new)
    else decide (it.box ∈ roots) || decide (it.box ∈ new.map (·.box))

/-- one resumed run: carry-over rule and accepted log (whose first events push the cells `roots`) -/
def stageOk (cert : Box → Box × Box × List Nat → Bool) (prev new : List Item) (log : List Ev) : Bool :=
  resumeOk prev new (leadingPushes log) &&
  (match check cert (pavingOf new) log with | .ok _ => true | .error _ => false)

/-- a chain of interrupted / resumed runs: `first` is the paving of the first (interrupted) run -/
def chainOk (cert : Box → Box × Box × List Nat → Bool) : List Item → List (List Item × List Ev) → Bool
  | _, [] => true
  | prev, (new, log) :: rest => stageOk cert prev new log && chainOk cert new rest

end Ibex.Cover
