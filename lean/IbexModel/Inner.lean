/-
  C14 — inner operators and feasibility claims never overshoot: the verified CHECKERS that the
  driver runs on the outputs of the real C++ code.

  1. forward inner operators (`iadd isub imul idiv imax imin isqr iminus`): the answer `Z` must be a
     SUBSET of the exact range.  Decided by exact rational witnesses: a point of the region whose
     value is below the lower bound of `Z`, one whose value is above the upper bound (or a ray of
     the region along which the operator is unbounded), the rest is the intermediate value theorem
     (`IbexProofs/Inner.lean`).
  2. inner backward projections of single operators (`ibwd_add …`): the exact range (no rounding,
     `Rnd.exact`) of the operator over the returned intervals must be inside the requested image.
  3. whole functions (`Function::ibwd`, `System::is_inner`, `active_ctrs`): evaluation of the DAG
     with the *total* interval algebra `Alg.itvT` (an operator is defined only if it is defined at
     EVERY point of its arguments), with budgeted subdivision of the box.
  4. loup points: exact rational evaluation at the returned point.
  No Mathlib import.
-/
import IbexModel.Expr
import IbexModel.Box
namespace Ibex
namespace Inner

def X : Rnd := Rnd.exact
def z0 : Ext := .fin 0

/-- the rational `q` belongs to the interval -/
def memQ (q : Rat) (I : Itv) : Bool := Itv.containsExt I (.fin q)

/-! ## 1. forward inner operators -/

/-- binary operators; `divp` is the division restricted to the region `y > 0` -/
inductive Op2 where
  | add | sub | mul | divp | max | min
deriving DecidableEq, Repr

def Op2.evalQ : Op2 → Rat → Rat → Rat
  | .add, x, y => x + y
  | .sub, x, y => x - y
  | .mul, x, y => x * y
  | .divp, x, y => x / y
  | .max, x, y => if x ≤ y then y else x
  | .min, x, y => if x ≤ y then x else y

/-- the rational point (x,y) belongs to the region of `op` over X × Y -/
def inS (op : Op2) (X Y : Itv) (x y : Rat) : Bool :=
  memQ x X && memQ y Y && (match op with | .divp => decide (0 < y) | _ => true)

/-- slope of `t ↦ op (x₀+t) y₀` when this map is affine -/
def slopeX : Op2 → Rat → Rat → Option Rat
  | .add, _, _ => some 1
  | .sub, _, _ => some 1
  | .mul, _, y => some y
  | .divp, _, y => some (1 / y)
  | _, _, _ => none

/-- slope of `t ↦ op x₀ (y₀+t)` when this map is affine -/
def slopeY : Op2 → Rat → Rat → Option Rat
  | .add, _, _ => some 1
  | .sub, _, _ => some (-1)
  | .mul, x, _ => some x
  | _, _, _ => none

def hiInf : Itv → Bool
  | .mk _ .pinf => true
  | _ => false
def loInf : Itv → Bool
  | .mk .ninf _ => true
  | _ => false

/-- finite candidate members of an interval (every candidate is re-checked by `memQ`) -/
def cands : Itv → List Rat
  | .empty => []
  | .mk a b =>
    (match a with | .fin q => [q, q + 1] | _ => []) ++ (match b with | .fin q => [q, q - 1] | _ => []) ++
    [0, 1, -1] ++
    (match a, b with | .fin p, .fin q => [(p + q) / 2] | _, _ => [])

/-- candidate points of the region (every candidate is re-checked by `inS`) -/
def pairs (X Y : Itv) : List (Rat × Rat) := (cands X).flatMap fun x => (cands Y).map fun y => (x, y)

/-- sign test of a slope: the operator grows without bound (`up`) / decreases without bound along
    a ray of direction `+` (`pos = true`) or `−` -/
def slopeOk (up pos : Bool) (s : Rat) : Bool :=
  if up == pos then decide (0 < s) else decide (s < 0)

/-- `p` is a point of the region from which a ray stays in the region and along which the
    operator is affine with the right slope sign -/
def rayOk (up : Bool) (op : Op2) (X Y : Itv) (p : Rat × Rat) : Bool :=
  inS op X Y p.1 p.2 &&
  ((match slopeX op p.1 p.2 with
    | some s => (hiInf X && slopeOk up true s) || (loInf X && slopeOk up false s)
    | none => false) ||
   (match slopeY op p.1 p.2 with
    | some s => (hiInf Y && slopeOk up true s) || (loInf Y && slopeOk up false s)
    | none => false))

/-- pole of the division: `y → 0⁺` is possible (lower bound of Y ≤ 0) with a numerator of the right sign -/
def poleOk (up : Bool) (X Y : Itv) (p : Rat × Rat) : Bool :=
  inS .divp X Y p.1 p.2 &&
  (match Y with
   | .mk c _ => Ext.le c z0
   | _ => false) &&
  (if up then decide (0 < p.1) else decide (p.1 < 0))

/-- is the operator unbounded above (`up`) / below on the region?  Sufficient criterion. -/
def unb (up : Bool) (op : Op2) (X Y : Itv) : Bool :=
  match op with
  | .divp => (pairs X Y).any fun p => rayOk up .divp X Y p || poleOk up X Y p
  | .max => (pairs X Y).any fun p => inS .max X Y p.1 p.2 && (if up then hiInf X || hiInf Y else loInf X && loInf Y)
  | .min => (pairs X Y).any fun p => inS .min X Y p.1 p.2 && (if up then hiInf X && hiInf Y else loInf X || loInf Y)
  | .add => (pairs X Y).any (rayOk up .add X Y)
  | .sub => (pairs X Y).any (rayOk up .sub X Y)
  | .mul => (pairs X Y).any (rayOk up .mul X Y)

/-- candidate witness points for the target value `t` -/
def witCands (op : Op2) (X Y : Itv) (t : Rat) : List (Rat × Rat) :=
  let xs := cands X
  let ys := cands Y
  let corners := pairs X Y
  let solveY := xs.filterMap fun x =>
    match op with
    | .add => some (x, t - x)
    | .sub => some (x, x - t)
    | .mul => if x = 0 then none else some (x, t / x)
    | .divp => if t = 0 then none else some (x, x / t)
    | .max => some (x, t)
    | .min => some (x, t)
  let solveX := ys.filterMap fun y =>
    match op with
    | .add => some (t - y, y)
    | .sub => some (t + y, y)
    | .mul => if y = 0 then none else some (t / y, y)
    | .divp => some (t * y, y)
    | .max => some (t, y)
    | .min => some (t, y)
  corners ++ solveY ++ solveX

/-- one side of `Z ⊆ range`: for every `z` on the right (`up = false`) / on the left (`up = true`)
    of the bound `t` there is a point of the region whose value is ≤ z (resp. ≥ z) -/
def sideOk (up : Bool) (op : Op2) (X Y : Itv) (t : Ext) : Bool :=
  match t with
  | .fin q => unb up op X Y ||
      (witCands op X Y q).any fun p => inS op X Y p.1 p.2 &&
        (if up then decide (q ≤ op.evalQ p.1 p.2) else decide (op.evalQ p.1 p.2 ≤ q))
  | .pinf => up && unb true op X Y
  | .ninf => !up && unb false op X Y

/-- `Z ⊆ { op x y | (x,y) in the region of op over X × Y }` (sufficient, exact arithmetic) -/
def subRange (op : Op2) (X Y Z : Itv) : Bool :=
  match Z with
  | .empty => true
  | .mk l u => sideOk false op X Y l && sideOk true op X Y u

def nonpos : Itv := .mk .ninf (.fin 0)
def nonneg : Itv := .mk (.fin 0) .pinf

/-- division: the region `y ≠ 0` has two convex pieces; `Z` (or each sign half of `Z`) must be in
    the image of one of them -/
def subRangeDiv (X Y Z : Itv) : Bool :=
  let piece (W : Itv) : Bool := subRange .divp X Y W || subRange .divp (Itv.neg X) (Itv.neg Y) W
  piece Z || (piece (Itv.inter Z nonpos) && piece (Itv.inter Z nonneg))

/-- unary square: is `x ↦ x²` unbounded above on X -/
def unbSqr (X : Itv) : Bool := (cands X).any fun x => memQ x X && (hiInf X || loInf X)

/-- unary square: witnesses among the finite candidates, unbounded above iff X is unbounded -/
def subRangeSqr (X Z : Itv) : Bool :=
  match Z with
  | .empty => true
  | .mk l u =>
    (match l with
     | .fin q => (cands X).any fun x => memQ x X && decide (x * x ≤ q)
     | _ => false) &&
    (match u with
     | .fin q => unbSqr X || (cands X).any fun x => memQ x X && decide (q ≤ x * x)
     | .pinf => unbSqr X
     | .ninf => false)

/-- acceptance of the answer `Z` of a forward inner operator -/
def innerFwdOk (op : String) (X Y Z : Itv) : Option Bool :=
  match op with
  | "iadd" => some (subRange .add X Y Z)
  | "isub" => some (subRange .sub X Y Z)
  | "imul" => some (subRange .mul X Y Z)
  | "idiv" => some (subRangeDiv X Y Z)
  | "imax" => some (subRange .max X Y Z)
  | "imin" => some (subRange .min X Y Z)
  | _ => none

def innerFwd1Ok (op : String) (X Z : Itv) : Option Bool :=
  match op with
  | "isqr" => some (subRangeSqr X Z)
  | "iminus" => some (Itv.subset Z (Itv.neg X))
  | _ => none

/-- the exact range, for the tightness tag of the driver (not used by the theorems) -/
def exactHull (op : String) (X Y : Itv) : Itv :=
  match op with
  | "iadd" => Itv.addG Inner.X X Y
  | "isub" => Itv.subG Inner.X X Y
  | "imul" => Itv.mulG Inner.X X Y
  | "idiv" => Itv.divG Inner.X X Y
  | "imax" => Itv.max X Y
  | "imin" => Itv.min X Y
  | _ => .empty

/-! ### transcendental forward operators: comparison with oracle values of the opposite rounding

  For a monotone `f` the harness sends `lowB` = RU(f at the lower end of the domain part of X) and
  `upB` = RD(f at the upper end) (limits for infinite ends; `strict` when the limit is rational and
  not attained, e.g. `exp(-∞) = 0`).  `Z = [l,u]` is inside the range iff `lowB ≤ l` and `u ≤ upB`. -/
def oracleFwdOk (lowB : Ext) (lowStrict : Bool) (upB : Ext) (upStrict : Bool) (Z : Itv) : Bool :=
  match Z with
  | .empty => true
  | .mk l u =>
    Ext.le l u && (if lowStrict then Ext.lt lowB l else Ext.le lowB l) &&
    (if upStrict then Ext.lt u upB else Ext.le u upB)

/-! ## 2. inner backward projections of single operators -/

/-- exact hull of the operator over X × Y; `none` when the operator is not defined at every point -/
def range2 (op : String) (X Y : Itv) : Option Itv :=
  match op with
  | "add" => some (Itv.addG Inner.X X Y)
  | "sub" => some (Itv.subG Inner.X X Y)
  | "mul" => some (Itv.mulG Inner.X X Y)
  | "div" => if Itv.containsExt Y z0 then none else some (Itv.divG Inner.X X Y)
  | "max" => some (Itv.max X Y)
  | "min" => some (Itv.min X Y)
  | _ => none

/-- `sqrt` is defined on X and maps it into Z -/
def sqrtInto (X Z : Itv) : Bool :=
  match X, Z with
  | .empty, _ => true
  | .mk _ _, .empty => false
  | .mk a b, .mk l u =>
    Ext.le z0 a &&
    (match l, a with
     | .ninf, _ => true
     | .fin q, .fin p => decide (q ≤ 0) || decide (q * q ≤ p)
     | .fin _, .pinf => true
     | .fin q, .ninf => decide (q ≤ 0)
     | .pinf, _ => false) &&
    (match u, b with
     | .pinf, _ => true
     | .fin q, .fin p => decide (0 ≤ q) && decide (p ≤ q * q)
     | _, _ => false)

/-- the unary operator is defined on X and maps it into Z (exact arithmetic) -/
def into1 (op : String) (n : Int) (X Z : Itv) : Option Bool :=
  match op with
  | "sqr" => some (Itv.subset (Itv.sqrG Inner.X X) Z)
  | "abs" => some (Itv.subset (Itv.abs X) Z)
  | "minus" => some (Itv.subset (Itv.neg X) Z)
  | "sqrt" => some (sqrtInto X Z)
  | "pow" =>
    if n ≥ 0 then some (Itv.subset (Itv.powNatG Inner.X X n.toNat) Z)
    else if Itv.containsExt X z0 then some false
    else some (Itv.subset (Itv.divG Inner.X (Itv.point 1) (Itv.powNatG Inner.X X (-n).toNat)) Z)
  | _ => none

/-- the binary operator is defined on X × Y and maps it into Z -/
def into2 (op : String) (X Y Z : Itv) : Bool :=
  X.isEmpty || Y.isEmpty ||
  (match range2 op X Y with
   | some R => Itv.subset R Z
   | none => false)

/-! ## 3. whole functions: the total interval algebra -/

def degenerate? : Itv → Bool
  | .mk (.fin a) (.fin b) => a == b
  | _ => false

/-- intervals with the tightest outward-rounded operators, where an operator is defined only if
    the real operator is defined at EVERY point of the arguments: no division by an interval
    containing 0, no square root of an interval with negative points, no negative power of an
    interval containing 0.  Interval constants denote any of their members. -/
def _root_.Ibex.Alg.itvT : Alg Itv where
  ofItv x := if x.WF then itvNonEmpty x else none
  zero := Itv.point 0
  add a b := itvNonEmpty (Itv.add a b)
  sub a b := itvNonEmpty (Itv.sub a b)
  mul a b := itvNonEmpty (Itv.mul a b)
  div a b := if Itv.containsExt b (.fin 0) then none else itvNonEmpty (Itv.div a b)
  max a b := itvNonEmpty (Itv.max a b)
  min a b := itvNonEmpty (Itv.min a b)
  un op := match op with
    | "minus" => some fun a => itvNonEmpty (Itv.neg a)
    | "sqr" => some fun a => itvNonEmpty (Itv.sqr a)
    | "abs" => some fun a => itvNonEmpty (Itv.abs a)
    | "sign" => some fun a => itvNonEmpty (Itv.sign a)
    | "sqrt" => some fun a =>
        match a with
        | .mk lo _ => if Ext.le (.fin 0) lo then itvNonEmpty (Itv.sqrt a) else none
        | .empty => none
    | "floor" => some fun a => itvNonEmpty (Itv.floor a)
    | "ceil" => some fun a => itvNonEmpty (Itv.ceil a)
    | _ => none
  pow a n := if n < 0 && Itv.containsExt a (.fin 0) then none else itvNonEmpty (Itv.powInt a n)
  chi a b c :=
    match a with
    | .empty => none
    | .mk al ah =>
      if Ext.le ah (.fin 0) then itvNonEmpty b else if Ext.lt (.fin 0) al then itvNonEmpty c
      else itvNonEmpty (Itv.hull b c)

/-- a requirement on the value of a function: membership in an interval matrix, or a comparison
    with 0 of every component -/
inductive Spec where
  | inM (Y : Mat Itv)
  | leq | lt | geq | gt | eq
deriving Repr

def itvSat (s : Spec) (Z : Itv) : Bool :=
  match s, Z with
  | _, .empty => true
  | .leq, .mk _ u => Ext.le u z0
  | .lt, .mk _ u => Ext.lt u z0
  | .geq, .mk l _ => Ext.le z0 l
  | .gt, .mk l _ => Ext.lt z0 l
  | .eq, .mk l u => l == z0 && u == z0
  | .inM _, _ => false

/-- every member of the interval matrix `Z` satisfies the requirement -/
def matSat (s : Spec) (Z : Mat Itv) : Bool :=
  match s with
  | .inM Y => Eval.matSubset Z Y
  | _ => Z.d.all (itvSat s)

def ratSat1 (s : Spec) (q : Rat) : Bool :=
  match s with
  | .leq => decide (q ≤ 0)
  | .lt => decide (q < 0)
  | .geq => decide (0 ≤ q)
  | .gt => decide (0 < q)
  | .eq => decide (q = 0)
  | .inM _ => false

/-- the exact rational value `v` satisfies the requirement -/
def ratSat (s : Spec) (v : Mat Rat) : Bool :=
  match s with
  | .inM Y => v.r == Y.r && v.c == Y.c && v.d.length == Y.d.length &&
      (List.zip v.d Y.d).all fun p => memQ p.1 p.2
  | _ => v.d.all (ratSat1 s)

def evalT (funs : List Dag) (dag : Dag) (box : List Itv) : Option (Mat Itv) :=
  Eval.root Alg.itvT box (Eval.buildCalls Alg.itvT funs) dag

/-- the whole box is certified by one total interval evaluation: the function is defined at every
    point of the box and its enclosure is accepted by `chk` -/
def certBoxWith (funs : List Dag) (dag : Dag) (chk : Mat Itv → Bool) (box : List Itv) : Bool :=
  match evalT funs dag box with
  | some Z => chk Z
  | none => false

def certBox (funs : List Dag) (dag : Dag) (s : Spec) (box : List Itv) : Bool :=
  certBoxWith funs dag (matSat s) box

/-- split component `i` at the rational `m` -/
def splitAt : List Itv → Nat → Rat → List Itv × List Itv
  | [], _, _ => ([], [])
  | I :: r, 0, m =>
    match I with
    | .mk a b => (.mk a (.fin m) :: r, .mk (.fin m) b :: r)
    | .empty => (I :: r, I :: r)
  | I :: r, i + 1, m => ((I :: (splitAt r i m).1), (I :: (splitAt r i m).2))

/-- width used to choose the component to split (`none`: unbounded) -/
def width : Itv → Option Rat
  | .mk (.fin a) (.fin b) => some (b - a)
  | _ => none

/-- splitting point of a non-degenerate interval -/
def cutPoint : Itv → Option Rat
  | .mk (.fin a) (.fin b) => if a < b then some ((a + b) / 2) else none
  | .mk (.fin a) .pinf => some (if a < 1 then 1 else 2 * a)
  | .mk .ninf (.fin b) => some (if -1 < b then -1 else 2 * b)
  | .mk .ninf .pinf => some 0
  | _ => none

/-- index and cut of the component to split: an unbounded one first, else the widest -/
def chooseSplit (box : List Itv) : Option (Nat × Rat) :=
  let idx := box.zipIdx
  let best := idx.foldl (fun (acc : Option (Nat × Rat × Option Rat)) (p : Itv × Nat) =>
    match cutPoint p.1 with
    | none => acc
    | some m =>
      let w := width p.1
      match acc with
      | none => some (p.2, m, w)
      | some (_, _, none) => acc
      | some (_, _, some wa) =>
        match w with
        | none => some (p.2, m, w)
        | some wp => if wa < wp then some (p.2, m, w) else acc) none
  best.map fun b => (b.1, b.2.1)

/-- number of undecided leaves of the budgeted subdivision (0 = the box is certified) -/
def certifyWith (funs : List Dag) (dag : Dag) (chk : Mat Itv → Bool) : Nat → List Itv → Nat
  | 0, box => if certBoxWith funs dag chk box then 0 else 1
  | fuel + 1, box =>
    if certBoxWith funs dag chk box then 0 else
    match chooseSplit box with
    | none => 1
    | some (i, m) =>
      certifyWith funs dag chk fuel (splitAt box i m).1 + certifyWith funs dag chk fuel (splitAt box i m).2

def certify (funs : List Dag) (dag : Dag) (s : Spec) : Nat → List Itv → Nat :=
  certifyWith funs dag (matSat s)

/-- exact rational evaluation at a point -/
def evalQ (funs : List Dag) (dag : Dag) (p : List Rat) : Option (Mat Rat) :=
  Eval.root Alg.rat p (Eval.buildCalls Alg.rat funs) dag

/-- verdict at a sample point: `some true` satisfied (exactly), `some false` violated or undefined,
    `none` not decidable by exact rational evaluation nor by point-interval evaluation -/
def pointVerdict (funs : List Dag) (dag : Dag) (s : Spec) (p : List Rat) : Option Bool :=
  match evalQ funs dag p with
  | some v => some (ratSat s v)
  | none =>
    let pb := p.map Itv.point
    match Eval.root Alg.itv pb (Eval.buildCalls Alg.itv funs) dag with
    | none => some false            -- undefined at the point (or unsupported operator)
    | some Z =>
      if matSat s Z then
        (match evalT funs dag pb with | some _ => some true | none => none)
      else
        -- definitely violated when no member of the enclosure satisfies the requirement
        (match s with
         | .inM Y => if (List.zip Z.d Y.d).any (fun q => Itv.isDisjoint q.1 q.2) then some false else none
         | .leq => if Z.d.any (itvSat .gt) then some false else none
         | .lt => if Z.d.any (itvSat .geq) then some false else none
         | .geq => if Z.d.any (itvSat .lt) then some false else none
         | .gt => if Z.d.any (itvSat .leq) then some false else none
         | .eq => if Z.d.any (fun z => itvSat .lt z || itvSat .gt z) then some false else none)

/-! ## 4. loup points -/

/-- the returned point satisfies every constraint exactly and its goal value is ≤ the reported loup -/
def loupOk (funs : List (List Dag)) (ctrs : List (Dag × Spec)) (gfuns : List Dag) (goal : Dag)
    (p : List Rat) (loup : Ext) : Bool :=
  (List.zip funs ctrs).all (fun c =>
    match evalQ c.1 c.2.1 p with
    | some v => ratSat c.2.2 v
    | none => false) &&
  funs.length == ctrs.length &&
  (match evalQ gfuns goal p with
   | some ⟨1, 1, [g]⟩ => Ext.le (.fin g) loup
   | _ => false)


/-! ## 5. the acceptance predicates of the driver -/

/-- acceptance of the answer `(x', y')` (flag = true) of an inner backward projection of a binary
    operator: inside the input, contains the seed (empty seed: non-inflating mode), and the exact
    range over `x' × y'` is inside the image `z` -/
def ibwd2Accept (op : String) (z x y xin yin x' y' : Itv) : Bool :=
  Itv.subset x' x && Itv.subset y' y && Itv.subset xin x' && Itv.subset yin y' && into2 op x' y' z

def ibwd1Accept (op : String) (n : Int) (y x xin x' : Itv) : Bool :=
  Itv.subset x' x && Itv.subset xin x' && (into1 op n x' y == some true)

/-- transcendental operators: `E` is the oracle enclosure of the operator over `x'` -/
def ibwdoAccept (y x xin E x' : Itv) : Bool :=
  Itv.subset x' x && Itv.subset xin x' && Itv.subset E y

/-- acceptance of the result box of `Function::ibwd` as certified -/
def ibwdfAccept (funs : List Dag) (dag : Dag) (s : Spec) (box seed res : List Itv) (fuel : Nat) : Bool :=
  Box.subset res box && (Box.isEmpty seed || Box.subset seed res) && (certify funs dag s fuel res == 0)

/-- acceptance of an `is_inner` / `active_ctrs` answer: every constraint claimed inactive (bit =
    false) is certified on the whole box -/
def inactiveAccept (ctrs : List ((List Dag × Dag) × Spec)) (bits : List Bool) (box : List Itv) (fuel : Nat) : Bool :=
  ctrs.length == bits.length &&
  (List.zip ctrs bits).all fun c => c.2 || (certify c.1.1.1 c.1.1.2 c.1.2 fuel box == 0)

end Inner
end Ibex
