/-
  Intervals with extended-rational (= binary64) bounds: set algebra and
  tightest outward-rounded arithmetic.  No Mathlib import.
-/
import IbexModel.Dbl
namespace Ibex

/-- An interval: empty, or [lo,hi] with lo ≠ +∞, hi ≠ −∞, lo ≤ hi (see `Itv.WF`). -/
inductive Itv where
  | empty
  | mk (lo hi : Ext)
deriving DecidableEq, Repr, Inhabited

namespace Itv

def WF : Itv → Bool
  | empty => true
  | mk lo hi => Ext.le lo hi && lo != .pinf && hi != .ninf

/-- Build from two bounds, returning `empty` when they are crossed or meaningless. -/
def ofBounds (lo hi : Ext) : Itv :=
  if Ext.le lo hi && lo != .pinf && hi != .ninf then mk lo hi else empty

def all : Itv := mk .ninf .pinf
def point (q : Rat) : Itv := mk (.fin q) (.fin q)
def isEmpty : Itv → Bool
  | empty => true
  | _ => false

def lo? : Itv → Option Ext | empty => none | mk l _ => some l
def hi? : Itv → Option Ext | empty => none | mk _ h => some h

/-! ### set algebra -/

def inter : Itv → Itv → Itv
  | mk a b, mk c d => ofBounds (Ext.max a c) (Ext.min b d)
  | _, _ => empty

def hull : Itv → Itv → Itv
  | empty, y => y
  | x, empty => x
  | mk a b, mk c d => mk (Ext.min a c) (Ext.max b d)

def subset : Itv → Itv → Bool
  | empty, _ => true
  | mk _ _, empty => false
  | mk a b, mk c d => Ext.le c a && Ext.le b d

def isDegenerated : Itv → Bool
  | empty => true
  | mk a b => a == b

def containsExt (x : Itv) (d : Ext) : Bool :=
  match x with
  | empty => false
  | mk a b => Ext.le a d && Ext.le d b

/-- interior subset in the topology of ℝ: (−∞,…] has no lower boundary. -/
def interiorSubset : Itv → Itv → Bool
  | empty, _ => true
  | mk _ _, empty => false
  | mk a b, mk c d => (c == .ninf || Ext.lt c a) && (d == .pinf || Ext.lt b d)

def strictSubset (x y : Itv) : Bool := subset x y && x != y

/-- in the interior of `y` and different from `y` (`(-oo,oo)` is not strictly in the interior of itself, nor the empty set of
    the empty set) -/
def strictInteriorSubset (x y : Itv) : Bool := interiorSubset x y && x != y

/-- in the relative interior of `y`: a degenerate `y` is its own relative interior -/
def relInteriorSubset (x y : Itv) : Bool :=
  match x, y with
  | empty, _ => true
  | mk _ _, empty => false
  | _, _ => (isDegenerated y && x == y) || interiorSubset x y

def intersects : Itv → Itv → Bool
  | mk a b, mk c d => Ext.le a d && Ext.le c b
  | _, _ => false

/-- the intersection has a non-empty interior -/
def overlaps : Itv → Itv → Bool
  | mk a b, mk c d => Ext.lt c b && Ext.lt a d
  | _, _ => false

def isDisjoint (x y : Itv) : Bool := !(intersects x y)

/-- closure of the complement, as 0, 1 or 2 intervals (non-compact convention). -/
def complementary : Itv → List Itv
  | empty => [all]
  | mk a b =>
    (if a != .ninf then [mk .ninf a] else []) ++ (if b != .pinf then [mk b .pinf] else [])

/-- closure of x \ y for intervals (compactness=true convention of ibex: a
    degenerate difference piece is dropped, a degenerate x not in y is kept). -/
def diff (x y : Itv) : List Itv :=
  match x with
  | empty => []
  | mk a b =>
    if a == b then (if containsExt y a then [] else [x])
    else match y with
      | empty => [x]
      | mk c d =>
        if c == d then [x] else   -- compactness: a degenerate y removes nothing (closure)
        let l := if Ext.lt a c then [mk a (Ext.min b c)] else []
        let r := if Ext.lt d b then [mk (Ext.max a d) b] else []
        l ++ r

/-! ### arithmetic: tightest outward rounded hulls -/

/-- product of extended values with 0·(±∞)=0, the finite case rounded by `r`. -/
def mulExt (r : Rat → Ext) : Ext → Ext → Ext
  | .fin a, .fin b => r (a * b)
  | .fin a, .pinf => if a = 0 then .fin 0 else if a > 0 then .pinf else .ninf
  | .fin a, .ninf => if a = 0 then .fin 0 else if a > 0 then .ninf else .pinf
  | .pinf, .fin b => if b = 0 then .fin 0 else if b > 0 then .pinf else .ninf
  | .ninf, .fin b => if b = 0 then .fin 0 else if b > 0 then .ninf else .pinf
  | .pinf, .pinf => .pinf
  | .ninf, .ninf => .pinf
  | .pinf, .ninf => .ninf
  | .ninf, .pinf => .ninf

def addLo : Ext → Ext → Ext
  | .fin a, .fin b => rd (a + b)
  | _, _ => .ninf
def addHi : Ext → Ext → Ext
  | .fin a, .fin b => ru (a + b)
  | _, _ => .pinf

def neg : Itv → Itv
  | empty => empty
  | mk a b => mk (Ext.neg b) (Ext.neg a)

def add : Itv → Itv → Itv
  | mk a b, mk c d => mk (addLo a c) (addHi b d)
  | _, _ => empty

def sub (x y : Itv) : Itv := add x (neg y)

def min4 (a b c d : Ext) : Ext := Ext.min (Ext.min a b) (Ext.min c d)
def max4 (a b c d : Ext) : Ext := Ext.max (Ext.max a b) (Ext.max c d)

def mul : Itv → Itv → Itv
  | mk a b, mk c d =>
    mk (min4 (mulExt rd a c) (mulExt rd a d) (mulExt rd b c) (mulExt rd b d))
       (max4 (mulExt ru a c) (mulExt ru a d) (mulExt ru b c) (mulExt ru b d))
  | _, _ => empty

/-- quotient of extended values for a denominator that is finite non-zero or infinite;
    x/±∞ = 0.  ∞/∞ is never requested by `div` (see `divPos`). -/
def divExt (r : Rat → Ext) : Ext → Ext → Ext
  | .fin a, .fin b => r (a / b)
  | .fin _, _ => .fin 0
  | .pinf, .fin b => if b > 0 then .pinf else .ninf
  | .ninf, .fin b => if b > 0 then .ninf else .pinf
  | .pinf, _ => .pinf
  | .ninf, _ => .ninf

/-- x / y for 0 < c ≤ d: each bound is one quotient chosen by the sign of the numerator bound. -/
def divPos (a b c d : Ext) : Itv :=
  let z := Ext.fin 0
  mk (if Ext.le z a then divExt rd a d else divExt rd a c)
     (if Ext.le z b then divExt ru b c else divExt ru b d)

/-- Hull of { x/y : x ∈ X, y ∈ Y, y ≠ 0 } (empty iff X or Y empty or Y = {0}). -/
def div : Itv → Itv → Itv
  | mk a b, mk c d =>
    let z := Ext.fin 0
    if c == z && d == z then empty
    else if Ext.lt z c then divPos a b c d
    else if Ext.lt d z then divPos (Ext.neg b) (Ext.neg a) (Ext.neg d) (Ext.neg c)
    else if a == z && b == z then mk z z
    else if Ext.lt c z && Ext.lt z d then all
    else if c == z then
      -- Y = [0,d], d>0 : y ranges over (0,d]
      if Ext.le z a then mk (divExt rd a d) .pinf
      else if Ext.le b z then mk .ninf (divExt ru b d)
      else all
    else
      -- Y = [c,0], c<0 : y ranges over [c,0)
      if Ext.le z a then mk .ninf (divExt ru a c)
      else if Ext.le b z then mk (divExt rd b c) .pinf
      else all
  | _, _ => empty

def sqr : Itv → Itv
  | empty => empty
  | mk a b =>
    let z := Ext.fin 0
    if Ext.le z a then mk (mulExt rd a a) (mulExt ru b b)
    else if Ext.le b z then mk (mulExt rd b b) (mulExt ru a a)
    else mk z (Ext.max (mulExt ru a a) (mulExt ru b b))

def abs : Itv → Itv
  | empty => empty
  | mk a b =>
    let z := Ext.fin 0
    if Ext.le z a then mk a b
    else if Ext.le b z then mk (Ext.neg b) (Ext.neg a)
    else mk z (Ext.max (Ext.neg a) b)

def max : Itv → Itv → Itv
  | mk a b, mk c d => mk (Ext.max a c) (Ext.max b d)
  | _, _ => empty

def min : Itv → Itv → Itv
  | mk a b, mk c d => mk (Ext.min a c) (Ext.min b d)
  | _, _ => empty

def sign : Itv → Itv
  | empty => empty
  | mk a b =>
    let z := Ext.fin 0
    if Ext.lt b z then point (-1) else if Ext.lt z a then point 1
    else mk (if Ext.lt a z then .fin (-1) else .fin 0) (if Ext.lt z b then .fin 1 else .fin 0)

def floorExt : Ext → Ext
  | .fin q => .fin (q.floor : Rat)
  | e => e
def ceilExt : Ext → Ext
  | .fin q => .fin (q.ceil : Rat)
  | e => e

def floor : Itv → Itv
  | empty => empty
  | mk a b => mk (floorExt a) (floorExt b)
def ceil : Itv → Itv
  | empty => empty
  | mk a b => mk (ceilExt a) (ceilExt b)
/-- hull of the integers of x -/
def integer : Itv → Itv
  | empty => empty
  | mk a b => ofBounds (ceilExt a) (floorExt b)

/-- integer power of a rational, exact (n ≥ 0). -/
def ratPow (q : Rat) (n : Nat) : Rat := q ^ n

/-- x^n for extended x (n ≥ 1), rounded by r. -/
def powExt (r : Rat → Ext) (n : Nat) : Ext → Ext
  | .fin q => r (ratPow q n)
  | .pinf => .pinf
  | .ninf => if n % 2 = 0 then .pinf else .ninf

/-- tightest hull of { x^n } for n ≥ 0 -/
def powNat (x : Itv) (n : Nat) : Itv :=
  match x with
  | empty => empty
  | mk a b =>
    if n = 0 then point 1
    else if n % 2 = 1 then mk (powExt rd n a) (powExt ru n b)
    else
      let z := Ext.fin 0
      if Ext.le z a then mk (powExt rd n a) (powExt ru n b)
      else if Ext.le b z then mk (powExt rd n b) (powExt ru n a)
      else mk z (Ext.max (powExt ru n a) (powExt ru n b))

/-- exact (unrounded) integer-power hull used as an intermediate for negative exponents -/
def powInt (x : Itv) (n : Int) : Itv :=
  if n ≥ 0 then powNat x n.toNat
  else
    -- x^n = 1 / x^(-n): compute exactly through corner values of the reciprocal
    let m := (-n).toNat
    match x with
    | empty => empty
    | mk a b =>
      let z := Ext.fin 0
      let recipPow (r : Rat → Ext) (e : Ext) : Ext :=
        match e with
        | .fin q => if q = 0 then .pinf else r (1 / ratPow q m)
        | _ => .fin 0
      if a == z && b == z then empty
      else if Ext.lt z a || Ext.lt b z then
        -- constant sign, 1/x^m monotone on each side
        if m % 2 = 0 then
          if Ext.lt z a then mk (recipPow rd b) (recipPow ru a) else mk (recipPow rd a) (recipPow ru b)
        else mk (recipPow rd b) (recipPow ru a)
      else if m % 2 = 0 then
        -- 0 ∈ x: even ⇒ [min(1/a^m,1/b^m), +∞)
        let la := if a == z then Ext.pinf else recipPow rd a
        let lb := if b == z then Ext.pinf else recipPow rd b
        mk (Ext.min la lb) .pinf
      else
        if a == z then mk (recipPow rd b) .pinf
        else if b == z then mk .ninf (recipPow ru a)
        else all

/-! ### square root (exact directed rounding through integer square roots) -/

/-- floor(sqrt(n/d)) for a non-negative rational -/
def isqrtFloor (q : Rat) : Nat := Nat.sqrt (q.num.toNat * q.den) / q.den

def sqrtDown (q : Rat) : Ext :=
  if q ≤ 0 then .fin 0 else
    -- exponent of the result's ulp: sqrt(q) has binade floor(e/2)
    let e := floorLog2 q
    let h : Int := (if e % 2 = 0 then e else e - 1) / 2
    let ue : Int := if h - 52 < -1074 then -1074 else h - 52
    let u := pow2 ue
    .fin ((isqrtFloor (q / (u * u)) : Rat) * u)

def sqrtUp (q : Rat) : Ext :=
  match sqrtDown q with
  | .fin s => if s * s == q then .fin s else
      -- next grid point
      let e := floorLog2 (if q ≤ 0 then 1 else q)
      let h : Int := (if e % 2 = 0 then e else e - 1) / 2
      let ue : Int := if h - 52 < -1074 then -1074 else h - 52
      .fin (s + pow2 ue)
  | e => e

def sqrt : Itv → Itv
  | empty => empty
  | mk a b =>
    let z := Ext.fin 0
    if Ext.lt b z then empty
    else
      let lo := match a with | .fin q => sqrtDown q | .ninf => z | .pinf => .pinf
      let hi := match b with | .fin q => sqrtUp q | e => e
      mk lo hi

end Itv
end Ibex

namespace Ibex
/-- The correspondence check applied by the driver to a forward operator: the implementation's
    result `impl` is a well-formed interval containing the model's tightest hull `model`. -/
def Itv.enclOk (model impl : Itv) : Bool := impl.WF && Itv.subset model impl
end Ibex
