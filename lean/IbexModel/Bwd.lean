/-
  Backward (projection) operators, decided exactly.

  For an elementary relation  y = op(x₁[,x₂])  and intervals (Y, X₁, X₂) the *consistent set*
  is { (v₁,v₂) ∈ X₁×X₂ | op(v₁,v₂) ∈ Y }.  For the rational operators its projections have
  rational (or root-of-rational) bounds, so "the implementation's contracted intervals X₁',X₂'
  still contain every consistent tuple" is decidable with exact arithmetic: `proj ⊆ X'`.
  The checkers below are what the driver runs on the implementation's outputs.
  No Mathlib import.
-/
import IbexModel.ItvG
namespace Ibex.Bwd
open Ibex

def X : Rnd := Rnd.exact
def z : Ext := .fin 0
def nonneg : Itv := .mk (.fin 0) .pinf

def hullL (l : List Itv) : Itv := l.foldl Itv.hull .empty

/-- closed pieces covering { v | ∃ w ∈ x, v * w ∈ y } (relational division y ⊘ x) -/
def divRel (y x : Itv) : List Itv :=
  match y, x with
  | .mk _ _, .mk c d =>
    if Itv.containsExt y z && Itv.containsExt x z then [Itv.all]
    else if Ext.lt z c || Ext.lt d z then [Itv.divG X y x]
    else
      (if Ext.lt z d then [Itv.divG X y (.mk z d)] else []) ++
      (if Ext.lt c z then [Itv.divG X y (.mk c z)] else [])
  | _, _ => []

/-- generic acceptance of one contracted argument: it shrank, and still contains the projection -/
def argOk (x x' proj : Itv) : Bool := Itv.subset x' x && Itv.subset proj x'

/-- flag rule: `false` may be returned only when there is no consistent tuple -/
def flagOk (flag : Bool) (proj : Itv) : Bool := flag || proj.isEmpty

/-! ### projections with rational bounds -/

def projAdd1 (y x1 x2 : Itv) : Itv := Itv.inter x1 (Itv.subG X y x2)
def projSub1 (y x1 x2 : Itv) : Itv := Itv.inter x1 (Itv.addG X y x2)      -- y = x1 - x2
def projSub2 (y x1 x2 : Itv) : Itv := Itv.inter x2 (Itv.subG X x1 y)
/-- a piece of `divRel y x` met with `x1`.  When 0 ∉ y no quotient is 0, but 0 can be a
    non-attained limit (y/±∞) of a piece: a meet reduced to {0} is then empty. -/
def meetPiece (y x1 p : Itv) : Itv :=
  let q := Itv.inter x1 p
  if q == Itv.point 0 && !Itv.containsExt y z then .empty else q

def projMul1 (y x1 x2 : Itv) : Itv := hullL ((divRel y x2).map (meetPiece y x1))
/-- y = x1 / x2 (x2 ≠ 0) -/
def projDiv1 (y x1 x2 : Itv) : Itv :=
  if x2 == Itv.point 0 then .empty else Itv.inter x1 (Itv.mulG X y x2)
def projDiv2 (y x1 x2 : Itv) : Itv :=
  let p := hullL ((divRel x1 y).map (meetPiece x1 x2))
  if p == Itv.point 0 then .empty else p

def projSqrt (y x : Itv) : Itv := Itv.inter x (Itv.sqrG X (Itv.inter y nonneg))   -- y = sqrt x
def projAbs (y x : Itv) : Itv :=
  let yp := Itv.inter y nonneg
  Itv.hull (Itv.inter x yp) (Itv.inter x (Itv.neg yp))

/-- y = max(x1,x2): projection on x1 -/
def projMax1 (y x1 x2 : Itv) : Itv :=
  match y with
  | .empty => .empty
  | .mk yl yh =>
    let x2c := Itv.inter x2 (.mk .ninf yh)
    match x2c with
    | .empty => .empty
    | .mk _ x2h =>
      if Ext.le yl x2h then Itv.inter x1 (.mk .ninf yh) else Itv.inter x1 (.mk yl yh)
def projMin1 (y x1 x2 : Itv) : Itv := Itv.neg (projMax1 (Itv.neg y) (Itv.neg x1) (Itv.neg x2))

/-- y = sign(x) ∈ {-1,0,1}: closed hull of the consistent x -/
def projSign (y x : Itv) : Itv :=
  match x with
  | .empty => .empty
  | .mk a b =>
    let pos := if Itv.containsExt y (.fin 1) && Ext.lt z b then Itv.mk (Ext.max a z) b else .empty
    let zer := if Itv.containsExt y z then Itv.inter x (Itv.point 0) else .empty
    let neg := if Itv.containsExt y (.fin (-1)) && Ext.lt a z then Itv.mk a (Ext.min b z) else .empty
    Itv.hull pos (Itv.hull zer neg)

/-- y = floor(x): x ∈ [ceil(y.lo), floor(y.hi)+1) (closed hull) -/
def projFloor (y x : Itv) : Itv :=
  match Itv.integer y, x with
  | .mk l u, .mk a b =>
    let u1 := match u with | .fin q => Ext.fin (q + 1) | e => e
    if Ext.le l b && Ext.lt a u1 then Itv.mk (Ext.max a l) (Ext.min b u1) else .empty
  | _, _ => .empty
/-- y = ceil(x): x ∈ (ceil(y.lo)-1, floor(y.hi)] (closed hull) -/
def projCeil (y x : Itv) : Itv := Itv.neg (projFloor (Itv.neg y) (Itv.neg x))

/-! ### powers: bounds are n-th roots of rationals, compared through exact powers -/

def extPow (n : Nat) : Ext → Ext   -- d^n for extended d (n ≥ 1)
  | .fin q => .fin (q ^ n)
  | .pinf => .pinf
  | .ninf => if n % 2 = 0 then .pinf else .ninf

/-- d ≤ ⁿ√q  for q ≥ 0 (principal root) -/
def leRoot (n : Nat) (d q : Ext) : Bool := Ext.le d z || Ext.le (extPow n d) q
/-- ⁿ√q ≤ d  for q ≥ 0 -/
def rootLe (n : Nat) (q d : Ext) : Bool := Ext.le z d && Ext.le q (extPow n d)

/-- the part of x in [ⁿ√a, ⁿ√b] (0 ≤ a ≤ b) is kept by x' -/
def keepsRootPiece (n : Nat) (a b : Ext) (x x' : Itv) : Bool :=
  match x with
  | .empty => true
  | .mk xl xh =>
    -- piece ∩ x non-empty  ⇔  xl ≤ ⁿ√b ∧ ⁿ√a ≤ xh
    if leRoot n xl b && rootLe n a xh then
      match x' with
      | .empty => false
      | .mk l' h' => (Ext.le l' xl || leRoot n l' a) && (Ext.le xh h' || rootLe n b h')
    else true

def rootPieceEmpty (n : Nat) (a b : Ext) (x : Itv) : Bool :=
  match x with
  | .empty => true
  | .mk xl xh => !(leRoot n xl b && rootLe n a xh)

/-- y = x^n, n ≥ 1: x' keeps every consistent x; returns (keeps, noConsistent) -/
def powKeeps (n : Nat) (y x x' : Itv) : Bool × Bool :=
  if n % 2 = 0 then
    match Itv.inter y nonneg with
    | .empty => (true, true)
    | .mk a b =>
      (keepsRootPiece n a b x x' && keepsRootPiece n a b (Itv.neg x) (Itv.neg x'),
       rootPieceEmpty n a b x && rootPieceEmpty n a b (Itv.neg x))
  else
    -- odd: v ↦ vⁿ is an increasing bijection: consistent ⇔ y.lo ≤ vⁿ ≤ y.hi
    match y, x with
    | .mk yl yh, .mk xl xh =>
      let nonemp := Ext.le (extPow n xl) yh && Ext.le yl (extPow n xh)
      if nonemp then
        match x' with
        | .empty => (false, false)
        | .mk l' h' => ((Ext.le l' xl || Ext.le (extPow n l') yl) && (Ext.le xh h' || Ext.le yh (extPow n h')), false)
      else (true, true)
    | _, _ => (true, true)

def powOk (n : Nat) (y x x' : Itv) (flag : Bool) : Bool :=
  let kn := powKeeps n y x x'
  Itv.subset x' x && kn.1 && (flag || kn.2)

/-! ### the checkers run by the driver -/

def addOk (y x1 x2 x1' x2' : Itv) (flag : Bool) : Bool :=
  argOk x1 x1' (projAdd1 y x1 x2) && argOk x2 x2' (projAdd1 y x2 x1) && flagOk flag (projAdd1 y x1 x2)
def subOk (y x1 x2 x1' x2' : Itv) (flag : Bool) : Bool :=
  argOk x1 x1' (projSub1 y x1 x2) && argOk x2 x2' (projSub2 y x1 x2) && flagOk flag (projSub1 y x1 x2)
def mulOk (y x1 x2 x1' x2' : Itv) (flag : Bool) : Bool :=
  argOk x1 x1' (projMul1 y x1 x2) && argOk x2 x2' (projMul1 y x2 x1) && flagOk flag (projMul1 y x1 x2)
def divOk (y x1 x2 x1' x2' : Itv) (flag : Bool) : Bool :=
  argOk x1 x1' (projDiv1 y x1 x2) && argOk x2 x2' (projDiv2 y x1 x2) && flagOk flag (projDiv2 y x1 x2)
def sqrtOk (y x x' : Itv) (flag : Bool) : Bool := argOk x x' (projSqrt y x) && flagOk flag (projSqrt y x)
def absOk (y x x' : Itv) (flag : Bool) : Bool := argOk x x' (projAbs y x) && flagOk flag (projAbs y x)
def maxOk (y x1 x2 x1' x2' : Itv) (flag : Bool) : Bool :=
  argOk x1 x1' (projMax1 y x1 x2) && argOk x2 x2' (projMax1 y x2 x1) && flagOk flag (projMax1 y x1 x2)
def minOk (y x1 x2 x1' x2' : Itv) (flag : Bool) : Bool :=
  argOk x1 x1' (projMin1 y x1 x2) && argOk x2 x2' (projMin1 y x2 x1) && flagOk flag (projMin1 y x1 x2)
def signOk (y x x' : Itv) (flag : Bool) : Bool := argOk x x' (projSign y x) && flagOk flag (projSign y x)
def floorOk (y x x' : Itv) (flag : Bool) : Bool := argOk x x' (projFloor y x) && flagOk flag (projFloor y x)
def ceilOk (y x x' : Itv) (flag : Bool) : Bool := argOk x x' (projCeil y x) && flagOk flag (projCeil y x)

/-- point-sample rule for operators decided by an external point oracle:
    a sample `v` of the original argument whose image enclosure `fv` lies inside `y`
    (so it is certainly consistent) must still be in the contracted `x'`. -/
def sampleOk (y fv : Itv) (v : Ext) (x' : Itv) : Bool :=
  !(Itv.subset fv y && !fv.isEmpty) || Itv.containsExt x' v

end Ibex.Bwd
