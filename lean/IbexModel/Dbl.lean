/-
  Extended binary64 values as exact rationals, directed rounding, hex codec.
  No Mathlib import (the driver links against this).
-/
namespace Ibex

/-- A non-NaN IEEE-754 binary64 value seen as an extended rational. -/
inductive Ext where
  | ninf
  | fin (q : Rat)
  | pinf
deriving DecidableEq, Repr, Inhabited

namespace Ext

def le : Ext → Ext → Bool
  | ninf, _ => true
  | _, pinf => true
  | fin a, fin b => decide (a ≤ b)
  | _, _ => false

def lt (a b : Ext) : Bool := !(le b a)

def min (a b : Ext) : Ext := if le a b then a else b
def max (a b : Ext) : Ext := if le a b then b else a

def neg : Ext → Ext
  | ninf => pinf
  | pinf => ninf
  | fin q => fin (-q)

def isFin : Ext → Bool
  | fin _ => true
  | _ => false

def zero : Ext := fin 0

end Ext

/-- 2^e as a rational, for any integer e. -/
def pow2 (e : Int) : Rat :=
  if e ≥ 0 then ((2 ^ e.toNat : Nat) : Rat) else 1 / ((2 ^ (-e).toNat : Nat) : Rat)

/-- floor(log2 q) for q > 0 (returns 0 for q ≤ 0). -/
def floorLog2 (q : Rat) : Int :=
  if q ≤ 0 then 0 else
    let n := q.num.toNat
    let d := q.den
    let e0 : Int := (Nat.log2 n : Int) - (Nat.log2 d : Int)
    if pow2 e0 ≤ q then e0 else e0 - 1

/-- exponent of the unit in the last place of the binade of q (binary64, with subnormals). -/
def ulpExp (q : Rat) : Int :=
  if q = 0 then -1074 else
    let e := floorLog2 (if q < 0 then -q else q)
    if e - 52 < -1074 then -1074 else e - 52

/-- largest finite binary64. -/
def maxDbl : Rat := ((2 ^ 53 - 1 : Nat) : Rat) * pow2 971

/-- round q down to the grid of step u. -/
def gridDown (u q : Rat) : Rat := ((q / u).floor : Rat) * u
/-- round q up to the grid of step u. -/
def gridUp (u q : Rat) : Rat := ((q / u).ceil : Rat) * u

/-- exact round-toward-minus-infinity of a rational to binary64. -/
def rd (q : Rat) : Ext :=
  if q > maxDbl then .fin maxDbl
  else if q < -maxDbl then .ninf
  else .fin (gridDown (pow2 (ulpExp q)) q)

/-- exact round-toward-plus-infinity of a rational to binary64. -/
def ru (q : Rat) : Ext :=
  if q < -maxDbl then .fin (-maxDbl)
  else if q > maxDbl then .pinf
  else .fin (gridUp (pow2 (ulpExp q)) q)

/-- Is the rational exactly a binary64 value? -/
def isDbl (q : Rat) : Bool :=
  decide (-maxDbl ≤ q ∧ q ≤ maxDbl) && (gridDown (pow2 (ulpExp q)) q == q)

/-! ### hex codec (16 hex digits of the IEEE bit pattern) -/

def hexDigit? (c : Char) : Option Nat :=
  if '0' ≤ c ∧ c ≤ '9' then some (c.toNat - '0'.toNat)
  else if 'a' ≤ c ∧ c ≤ 'f' then some (c.toNat - 'a'.toNat + 10)
  else if 'A' ≤ c ∧ c ≤ 'F' then some (c.toNat - 'A'.toNat + 10)
  else none

def parseHexNat (s : String) : Option Nat :=
  s.toList.foldl (fun acc c => match acc, hexDigit? c with
    | some a, some d => some (a * 16 + d)
    | _, _ => none) (some 0)

/-- Decoded binary64: NaN is kept apart. -/
inductive Dbl where
  | nan
  | val (x : Ext)
deriving DecidableEq, Repr, Inhabited

def bitsToDbl (b : Nat) : Dbl :=
  let sign : Nat := b / 2 ^ 63 % 2
  let ex : Nat := b / 2 ^ 52 % 2048
  let man : Nat := b % 2 ^ 52
  if ex = 2047 then
    if man = 0 then (if sign = 1 then .val .ninf else .val .pinf) else .nan
  else
    let mag : Rat :=
      if ex = 0 then (man : Rat) * pow2 (-1074)
      else ((man + 2 ^ 52 : Nat) : Rat) * pow2 ((ex : Int) - 1075)
    .val (.fin (if sign = 1 then -mag else mag))

def parseDbl (s : String) : Option Dbl :=
  if s.length != 16 then none else (parseHexNat s).map bitsToDbl

/-- bit pattern of a representable rational (none if not representable). -/
def ratToBits? (q : Rat) : Option Nat :=
  if q = 0 then some 0 else
  let a := if q < 0 then -q else q
  let s : Nat := if q < 0 then 2 ^ 63 else 0
  let e := floorLog2 a
  if e > 1023 then none
  else if e < -1022 then
    let m := a / pow2 (-1074)
    if m.den = 1 then some (s + m.num.toNat) else none
  else
    let m := a / pow2 (e - 52)
    if m.den = 1 then some (s + ((e + 1023).toNat) * 2 ^ 52 + (m.num.toNat - 2 ^ 52)) else none

def hexOfNat16 (n : Nat) : String :=
  let ds := (List.range 16).map fun i =>
    let d := n / 16 ^ (15 - i) % 16
    if d < 10 then Char.ofNat ('0'.toNat + d) else Char.ofNat ('a'.toNat + d - 10)
  String.ofList ds

def Ext.toHex : Ext → String
  | .ninf => "fff0000000000000"
  | .pinf => "7ff0000000000000"
  | .fin q => match ratToBits? q with
    | some b => hexOfNat16 b
    | none => "NOTREPR"

end Ibex
