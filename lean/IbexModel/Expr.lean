/-
  Expression DAGs (scalars, vectors, matrices) and their evaluation, generic in the
  number algebra: exact rationals (points), dual numbers (exact derivatives) and
  intervals (natural interval extension with tightest outward-rounded operators).
  No Mathlib import.
-/
import IbexModel.ItvG
namespace Ibex

/-- a matrix value in row-major order; scalars are 1×1, row vectors 1×n, column vectors n×1 -/
structure Mat (α : Type) where
  r : Nat
  c : Nat
  d : List α
deriving Repr, BEq

namespace Mat
def scalar (a : α) : Mat α := ⟨1, 1, [a]⟩
def isScalar (m : Mat α) : Bool := m.r == 1 && m.c == 1
def wf (m : Mat α) : Bool := m.d.length == m.r * m.c
def get? (m : Mat α) (i j : Nat) : Option α := if i < m.r && j < m.c then m.d[i * m.c + j]? else none
def map (f : α → β) (m : Mat α) : Mat β := ⟨m.r, m.c, m.d.map f⟩
def mapM? (f : α → Option β) (m : Mat α) : Option (Mat β) := (m.d.mapM f).map fun d => ⟨m.r, m.c, d⟩
def zip? (f : α → α → Option β) (a b : Mat α) : Option (Mat β) :=
  if a.r == b.r && a.c == b.c then ((List.zip a.d b.d).mapM fun p => f p.1 p.2).map fun d => ⟨a.r, a.c, d⟩ else none
def transpose (m : Mat α) : Mat α :=
  ⟨m.c, m.r, (List.range m.c).flatMap fun j => (List.range m.r).filterMap fun i => m.d[i * m.c + j]?⟩
def row (m : Mat α) (i : Nat) : List α := (m.d.drop (i * m.c)).take m.c
def col (m : Mat α) (j : Nat) : List α := (List.range m.r).filterMap fun i => m.d[i * m.c + j]?
/-- sub-matrix rows r1..r2, columns c1..c2 (inclusive) -/
def sub? (m : Mat α) (r1 r2 c1 c2 : Nat) : Option (Mat α) :=
  if r1 ≤ r2 && r2 < m.r && c1 ≤ c2 && c2 < m.c then
    some ⟨r2 - r1 + 1, c2 - c1 + 1,
      (List.range (r2 - r1 + 1)).flatMap fun i => ((m.row (r1 + i)).drop c1).take (c2 - c1 + 1)⟩
  else none
end Mat

/-- number algebra: every operation may be undefined (`none`) -/
structure Alg (α : Type) where
  ofItv : Itv → Option α
  zero : α
  add : α → α → Option α
  sub : α → α → Option α
  mul : α → α → Option α
  div : α → α → Option α
  max : α → α → Option α
  min : α → α → Option α
  un : String → Option (α → Option α)      -- unary operators by name (none: not supported by this algebra)
  pow : α → Int → Option α
  chi : α → α → α → Option α

inductive NodeK where
  | var (off : Nat)                         -- offset of its first component in the flattened environment
  | const (vals : List Itv)
  | un (op : String) (a : Nat)
  | bin (op : String) (a b : Nat)
  | pow (a : Nat) (n : Int)
  | idx (a : Nat) (r1 r2 c1 c2 : Nat)
  | vec (row : Bool) (as : List Nat)
  | chi (a b c : Nat)
  | apply (f : Nat) (as : List Nat)
deriving Repr

structure Node where
  k : NodeK
  r : Nat
  c : Nat
deriving Repr

/-- nodes in topological order (arguments have smaller indices); the root is the last node -/
abbrev Dag := Array Node

namespace Eval
variable {α : Type}

def sumList (A : Alg α) (l : List α) : Option α :=
  match l with
  | [] => some A.zero
  | x :: xs => xs.foldlM (fun acc y => A.add acc y) x

/-- dot product, accumulated left to right as in ibex_LinearArith.h -/
def dot (A : Alg α) (u v : List α) : Option α := do
  let ps ← (List.zip u v).mapM fun p => A.mul p.1 p.2
  match ps with
  | [] => some A.zero
  | p :: rest => rest.foldlM (fun acc y => A.add acc y) p

def matMul (A : Alg α) (a b : Mat α) : Option (Mat α) :=
  if a.c != b.r then none else do
    let d ← ((List.range a.r).flatMap fun i => (List.range b.c).map fun j => (i, j)).mapM
      fun ij => dot A (a.row ij.1) (b.col ij.2)
    pure ⟨a.r, b.c, d⟩

def mulVal (A : Alg α) (a b : Mat α) : Option (Mat α) :=
  if a.isScalar then match a.d with
    | [s] => b.mapM? (fun x => A.mul s x)
    | _ => none
  else matMul A a b

def binVal (A : Alg α) (op : String) (a b : Mat α) : Option (Mat α) :=
  match op with
  | "add" => Mat.zip? A.add a b
  | "sub" => Mat.zip? A.sub a b
  | "mul" => mulVal A a b
  | "div" => if a.isScalar && b.isScalar then Mat.zip? A.div a b else none
  | "max" => if a.isScalar && b.isScalar then Mat.zip? A.max a b else none
  | "min" => if a.isScalar && b.isScalar then Mat.zip? A.min a b else none
  | _ => none

def unVal (A : Alg α) (op : String) (a : Mat α) : Option (Mat α) :=
  match op with
  | "trans" => some a.transpose
  | "minus" => (A.un "minus").bind fun f => a.mapM? f
  | _ => if a.isScalar then (A.un op).bind fun f => a.mapM? f else none

/-- stack the components of a vector node: a row of columns/scalars or a column of rows/scalars -/
def vecVal (row : Bool) (parts : List (Mat α)) : Option (Mat α) :=
  match parts with
  | [] => none
  | p :: _ =>
    if row then
      -- all parts have the same number of rows; concatenate horizontally
      if parts.all (fun q => q.r == p.r) then
        let c := (parts.map (·.c)).foldl (· + ·) 0
        some ⟨p.r, c, (List.range p.r).flatMap fun i => parts.flatMap fun q => q.row i⟩
      else none
    else
      if parts.all (fun q => q.c == p.c) then
        some ⟨(parts.map (·.r)).foldl (· + ·) 0, p.c, parts.flatMap (·.d)⟩
      else none

/-- value of one node given the values of the previous ones.  `env` = flattened variable values;
    `call f args` evaluates an applied function (provided by the caller). -/
def nodeVal (A : Alg α) (env : List α) (call : Nat → List (Mat α) → Option (Mat α))
    (vals : Array (Mat α)) (n : Node) : Option (Mat α) :=
  match n.k with
  | .var off =>
    let d := (env.drop off).take (n.r * n.c)
    if d.length == n.r * n.c then some ⟨n.r, n.c, d⟩ else none
  | .const vs => (vs.mapM A.ofItv).bind fun d => if d.length == n.r * n.c then some ⟨n.r, n.c, d⟩ else none
  | .un op a => vals[a]?.bind (unVal A op)
  | .bin op a b => do binVal A op (← vals[a]?) (← vals[b]?)
  | .pow a k => do
    let v ← vals[a]?
    if v.isScalar then v.mapM? (fun x => A.pow x k) else none
  | .idx a r1 r2 c1 c2 => do (← vals[a]?).sub? r1 r2 c1 c2
  | .vec row as => do vecVal row (← as.mapM fun i => vals[i]?)
  | .chi a b c => do
    let va ← vals[a]?; let vb ← vals[b]?; let vc ← vals[c]?
    match va.d, vb.d, vc.d with
    | [x], [y], [z] => (A.chi x y z).map Mat.scalar
    | _, _, _ => none
  | .apply f as => do call f (← as.mapM fun i => vals[i]?)

/-- evaluate all nodes in order; `none` as soon as a node is undefined or ill-typed -/
def run (A : Alg α) (env : List α) (call : Nat → List (Mat α) → Option (Mat α)) (dag : Dag) :
    Option (Array (Mat α)) :=
  dag.foldlM (fun vals n => do
    let v ← nodeVal A env call vals n
    if v.r == n.r && v.c == n.c then pure (vals.push v) else none) #[]

def root (A : Alg α) (env : List α) (call : Nat → List (Mat α) → Option (Mat α)) (dag : Dag) : Option (Mat α) :=
  (run A env call dag).bind fun vals => vals.back?

end Eval

/-! ### the three algebras -/

def ratOfItv : Itv → Option Rat
  | .mk (.fin a) (.fin b) => if a == b then some a else none
  | _ => none

def ratSign (q : Rat) : Rat := if q > 0 then 1 else if q < 0 then -1 else 0

def ratPow (q : Rat) (n : Int) : Option Rat :=
  if n ≥ 0 then some (q ^ n.toNat) else if q = 0 then none else some (1 / q ^ (-n).toNat)

/-- exact square root of a rational that is a perfect square (undefined otherwise: the value is irrational
    or the argument is negative) -/
def ratSqrt? (q : Rat) : Option Rat :=
  if q < 0 then none else
  let n := q.num.toNat; let d := q.den
  let sn := Nat.sqrt n; let sd := Nat.sqrt d
  if sn * sn == n && sd * sd == d then some ((sn : Rat) / (sd : Rat)) else none

/-- exact rational points; division by zero, thick constants and non-rational operators are undefined -/
def Alg.rat : Alg Rat where
  ofItv := ratOfItv
  zero := 0
  add a b := some (a + b)
  sub a b := some (a - b)
  mul a b := some (a * b)
  div a b := if b = 0 then none else some (a / b)
  max a b := some (if a ≤ b then b else a)
  min a b := some (if a ≤ b then a else b)
  un op := match op with
    | "minus" => some fun a => some (-a)
    | "sqr" => some fun a => some (a * a)
    | "abs" => some fun a => some (if a < 0 then -a else a)
    | "sign" => some fun a => some (ratSign a)
    | "floor" => some fun a => some (a.floor : Rat)
    | "ceil" => some fun a => some (a.ceil : Rat)
    | "sqrt" => some ratSqrt?
    | _ => none
  pow := ratPow
  chi a b c := some (if a ≤ 0 then b else c)

def itvNonEmpty (x : Itv) : Option Itv := if x.isEmpty then none else some x

/-- intervals with the tightest outward-rounded operators; an empty result is "undefined" (EmptyBoxException) -/
def Alg.itv : Alg Itv where
  ofItv x := itvNonEmpty x
  zero := Itv.point 0
  add a b := itvNonEmpty (Itv.add a b)
  sub a b := itvNonEmpty (Itv.sub a b)
  mul a b := itvNonEmpty (Itv.mul a b)
  div a b := itvNonEmpty (Itv.div a b)
  max a b := itvNonEmpty (Itv.max a b)
  min a b := itvNonEmpty (Itv.min a b)
  un op := match op with
    | "minus" => some fun a => itvNonEmpty (Itv.neg a)
    | "sqr" => some fun a => itvNonEmpty (Itv.sqr a)
    | "abs" => some fun a => itvNonEmpty (Itv.abs a)
    | "sign" => some fun a => itvNonEmpty (Itv.sign a)
    | "sqrt" => some fun a => itvNonEmpty (Itv.sqrt a)
    | "floor" => some fun a => itvNonEmpty (Itv.floor a)
    | "ceil" => some fun a => itvNonEmpty (Itv.ceil a)
    | _ => none
  pow a n := itvNonEmpty (Itv.powInt a n)
  chi a b c :=
    match a with
    | .empty => none
    | .mk al ah =>
      if Ext.le ah (.fin 0) then itvNonEmpty b else if Ext.lt (.fin 0) al then itvNonEmpty c
      else itvNonEmpty (Itv.hull b c)

/-- dual numbers: value and gradient w.r.t. the `n` flattened variables (exact forward-mode AD) -/
structure Dual where
  v : Rat
  g : List Rat
deriving Repr, BEq

namespace Dual
def const (n : Nat) (q : Rat) : Dual := ⟨q, List.replicate n 0⟩
def lin (a : Rat) (x : Dual) (b : Rat) (y : Dual) : List Rat := List.zipWith (fun p q => a * p + b * q) x.g y.g
def scale (a : Rat) (x : Dual) : List Rat := x.g.map (a * ·)
end Dual

/-- exact derivatives; undefined where the operator is not differentiable (kinks) or not rational -/
def Alg.dual (n : Nat) : Alg Dual where
  ofItv x := (ratOfItv x).map (Dual.const n)
  zero := Dual.const n 0
  add a b := some ⟨a.v + b.v, Dual.lin 1 a 1 b⟩
  sub a b := some ⟨a.v - b.v, Dual.lin 1 a (-1) b⟩
  mul a b := some ⟨a.v * b.v, Dual.lin b.v a a.v b⟩
  div a b := if b.v = 0 then none else some ⟨a.v / b.v, Dual.lin (1 / b.v) a (-(a.v) / (b.v * b.v)) b⟩
  max a b := if a.v < b.v then some b else if b.v < a.v then some a else none
  min a b := if a.v < b.v then some a else if b.v < a.v then some b else none
  un op := match op with
    | "minus" => some fun a => some ⟨-a.v, Dual.scale (-1) a⟩
    | "sqr" => some fun a => some ⟨a.v * a.v, Dual.scale (2 * a.v) a⟩
    | "abs" => some fun a => if a.v > 0 then some a else if a.v < 0 then some ⟨-a.v, Dual.scale (-1) a⟩ else none
    | "sign" => some fun a => if a.v = 0 then none else some ⟨ratSign a.v, Dual.scale 0 a⟩
    | _ => none
  pow a k :=
    if k = 0 then some ⟨1, Dual.scale 0 a⟩
    else if k > 0 then some ⟨a.v ^ k.toNat, Dual.scale ((k : Rat) * a.v ^ (k.toNat - 1)) a⟩
    else if a.v = 0 then none
    else some ⟨1 / a.v ^ (-k).toNat, Dual.scale ((k : Rat) / a.v ^ ((-k).toNat + 1)) a⟩
  chi a b c := if a.v < 0 then some b else if a.v > 0 then some c else none

end Ibex

namespace Ibex
namespace Eval

/-- call table for applied functions: function `i` may call functions `< i` -/
def buildCalls {α : Type} (A : Alg α) (funs : List Dag) : Nat → List (Mat α) → Option (Mat α) :=
  (funs.zipIdx).foldl
    (fun (tbl : Nat → List (Mat α) → Option (Mat α)) (p : Dag × Nat) =>
      fun i args => if i == p.2 then Eval.root A (args.flatMap (·.d)) tbl p.1 else tbl i args)
    (fun _ _ => none)

def matSubset (m z : Mat Itv) : Bool :=
  m.r == z.r && m.c == z.c && m.d.length == z.d.length && (List.zip m.d z.d).all fun p => Itv.subset p.1 p.2

/-- Node-local certificate for a forward evaluation: `doms` are the node domains produced by the
    implementation for the box `box`.  Node `i` is accepted when the model's operator applied to
    the implementation's *argument* domains is included in the implementation's domain of node `i`
    (nodes whose operator the interval algebra does not support — transcendental functions — are
    not checked here: they are the assumptions of `cert_sound`).  Returns the rejected nodes. -/
def certBad (funs : List Dag) (dag : Dag) (box : List Itv) (doms : Array (Mat Itv)) : List Nat :=
  let call := buildCalls Alg.itv funs
  (dag.toList.zipIdx).filterMap fun (p : Node × Nat) =>
    match nodeVal Alg.itv box call doms p.1, doms[p.2]? with
    | some m, some z => if matSubset m z then none else some p.2
    | none, _ => none
    | _, none => some p.2

def certOk (funs : List Dag) (dag : Dag) (box : List Itv) (doms : Array (Mat Itv)) : Bool :=
  doms.size == dag.size && (certBad funs dag box doms).isEmpty

end Eval
end Ibex

namespace Ibex
/-- intervals with EXACT (unrounded, rational-bound) operators: the exact set-valued meaning of a
    DAG whose constants may be thick intervals (constant folding through interval arithmetic) -/
def Alg.itvX : Alg Itv where
  ofItv x := itvNonEmpty x
  zero := Itv.point 0
  add a b := itvNonEmpty (Itv.addG Rnd.exact a b)
  sub a b := itvNonEmpty (Itv.subG Rnd.exact a b)
  mul a b := itvNonEmpty (Itv.mulG Rnd.exact a b)
  div a b := itvNonEmpty (Itv.divG Rnd.exact a b)
  max a b := itvNonEmpty (Itv.max a b)
  min a b := itvNonEmpty (Itv.min a b)
  un op := match op with
    | "minus" => some fun a => itvNonEmpty (Itv.neg a)
    | "sqr" => some fun a => itvNonEmpty (Itv.sqrG Rnd.exact a)
    | "abs" => some fun a => itvNonEmpty (Itv.abs a)
    | "sign" => some fun a => itvNonEmpty (Itv.sign a)
    | "floor" => some fun a => itvNonEmpty (Itv.floor a)
    | "ceil" => some fun a => itvNonEmpty (Itv.ceil a)
    | _ => none
  pow a n :=
    if n ≥ 0 then itvNonEmpty (Itv.powNatG Rnd.exact a n.toNat)
    else itvNonEmpty (Itv.divG Rnd.exact (Itv.point 1) (Itv.powNatG Rnd.exact a (-n).toNat))
  chi a b c :=
    match a with
    | .empty => none
    | .mk al ah =>
      if Ext.le ah (.fin 0) then itvNonEmpty b else if Ext.lt (.fin 0) al then itvNonEmpty c
      else itvNonEmpty (Itv.hull b c)
end Ibex
