/-
  C17 — cell buffers as priority multisets.

  * abstract specification: a buffer is a finite multiset (a `List`, kept in push order) of cells
    `(id, cost₁, cost₂, objective lower bound, sub-buffer tag)`; `Spec.step` says what every operation
    does to that multiset (push adds, pop/erase removes the cell handed out, `contract v` removes the
    cells with first cost `> v`, flush empties, observers do nothing);
  * trace checker: `check cfg s ev` decides whether what the REAL C++ buffer answered for the
    operation `ev` (the cell it popped, the minimum it reported, the cells whose destructor ran …)
    is allowed in the spec state `s`; `checkTrace` replays a whole logged history.

  The checker never prescribes a tie-break: any argmin is accepted.  Costs are the values the real
  cost function returned (logged by the harness), exact as `Ext`.
  No Mathlib import (the driver links against this file).
-/
import IbexModel.Dbl
namespace Ibex.Buffers
open Ibex

/-- buffer families.  `heap`: `Heap<T>`, `CellHeap`, `SharedHeap<T>`; `dheap`: `DoubleHeap<T>`,
    `CellDoubleHeap`; `beam`: `CellBeamSearch`. -/
inductive Kind where
  | stack | list | heap | dheap | beam
deriving DecidableEq, Repr, Inhabited

structure Config where
  kind : Kind
  /-- double heap: probability (percent) of choosing the second heap -/
  critpr : Nat := 0
  /-- beam search: beam size (≥ 1) -/
  beam : Nat := 1
  /-- stack / list: capacity (0 = unlimited) -/
  capacity : Nat := 0
  /-- the first criterion is the objective lower bound of the cell -/
  lbFirst : Bool := false
deriving Repr, Inhabited

/-- sub-buffers of the beam-search buffer (all other buffers only use `future = 0`) -/
abbrev tFuture : Nat := 0
abbrev tCurrent : Nat := 1
abbrev tGlobal : Nat := 2

structure Cell where
  id : Nat
  c1 : Ext
  c2 : Ext
  lb : Ext
  tag : Nat := 0
deriving DecidableEq, Repr, Inhabited

/-- one logged operation together with what the implementation answered -/
inductive Event where
  /-- `push(cell)`; `stored = false`: the buffer threw `CellBufferOverflow` and kept nothing -/
  | push (c : Cell) (stored : Bool)
  /-- `sel` = 0: `pop()`, 1: `pop1()`, 2: `pop2()`; `which` = heap the implementation used (0/1);
      `id` = cell handed out; `moved` = cells the beam search moved into its current buffer -/
  | pop (sel which id : Nat) (moved : List Nat)
  | top (sel which id : Nat)
  /-- `minimum()` (`crit = 0`) / `minimum2()` (`crit = 1`) returned `v` -/
  | minimum (crit : Nat) (v : Ext)
  /-- `contract(loup)`; `deleted` = ids of the cells whose destructor ran, ascending -/
  | contract (loup : Ext) (deleted : List Nat)
  | flush (deleted : List Nat)
  | size (n : Nat)
  | empty (b : Bool)
  /-- the cost function of criterion `crit` was re-evaluated on the listed stored cells
      (`sort` with `update_cost_when_sorting`); input data, nothing is observed -/
  | recost (crit : Nat) (l : List (Nat × Ext))
  /-- `SharedHeap::erase_node` of the node holding cell `id` (removal from the middle) -/
  | erase (id : Nat)
  /-- double heap: ids of the cells found in the first / in the second internal heap, ascending -/
  | heaps (h1 h2 : List Nat)
  /-- internal binary heap of criterion `crit` (array / level order): ids of the cells, root first -/
  | tree (crit : Nat) (order : List Nat)
deriving Repr, Inhabited

structure State where
  cells : List Cell
  /-- every id `< next` has been used; pushes must use `next` -/
  next : Nat
  /-- double heap: heap used by the next `pop()` / `top()`; 2 = not determined by the spec -/
  cur : Nat
deriving Repr, Inhabited

def cost (crit : Nat) (c : Cell) : Ext := if crit = 1 then c.c2 else c.c1

def ids (cs : List Cell) : List Nat := cs.map (·.id)

def hasTag (t : Nat) (cs : List Cell) : Bool := cs.any (fun c => c.tag == t)

/-- sub-buffer the next pop/top is served from -/
def src (cfg : Config) (cs : List Cell) : Nat :=
  match cfg.kind with
  | .beam => if hasTag tCurrent cs then tCurrent else if hasTag tFuture cs then tFuture else tGlobal
  | _ => tFuture

def pool (cfg : Config) (cs : List Cell) : List Cell := cs.filter (fun c => c.tag == src cfg cs)

def isMin (crit : Nat) (c : Cell) (p : List Cell) : Bool :=
  p.all (fun d => Ext.le (cost crit c) (cost crit d))

def full (cfg : Config) (s : State) : Bool :=
  (cfg.kind == .stack || cfg.kind == .list) && decide (0 < cfg.capacity) && s.cells.length == cfg.capacity

def curAfterPop (cfg : Config) : Nat :=
  match cfg.kind with
  | .dheap => if cfg.critpr = 0 then 0 else if 100 ≤ cfg.critpr then 1 else 2
  | _ => 0

def init (cfg : Config) : State :=
  { cells := [], next := 0,
    cur := match cfg.kind with
      | .dheap => if cfg.critpr = 0 then 0 else 2
      | _ => 0 }

def removeId (id : Nat) (cs : List Cell) : List Cell := cs.filter (fun c => c.id != id)

def retag (moved : List Nat) (c : Cell) : Cell :=
  if c.tag == tFuture then { c with tag := if moved.contains c.id then tCurrent else tGlobal } else c

def setCost (crit : Nat) (l : List (Nat × Ext)) (c : Cell) : Cell :=
  match l.lookup c.id with
  | some v => if crit = 1 then { c with c2 := v } else { c with c1 := v }
  | none => c

namespace Spec

/-- effect of an operation on the abstract multiset (total; the admissibility of the observed
    answer is `check`) -/
def step (cfg : Config) (s : State) : Event → State
  | .push c stored => { s with cells := if stored then s.cells ++ [c] else s.cells, next := s.next + 1 }
  | .pop _ _ id moved =>
      let rest := removeId id s.cells
      let rest := if cfg.kind == .beam && src cfg s.cells == tFuture then rest.map (retag moved) else rest
      { s with cells := rest, cur := curAfterPop cfg }
  | .top _ which _ => { s with cur := if cfg.kind == .dheap then which else s.cur }
  | .minimum _ _ => s
  | .contract loup _ => { s with cells := s.cells.filter (fun c => Ext.le c.c1 loup) }
  | .flush _ => { s with cells := [] }
  | .size _ => s
  | .empty _ => s
  | .recost crit l => { s with cells := s.cells.map (setCost crit l) }
  | .erase id => { s with cells := removeId id s.cells }
  | .heaps _ _ => s
  | .tree _ _ => s

def run (cfg : Config) (s : State) : List Event → State
  | [] => s
  | e :: es => run cfg (step cfg s e) es

end Spec

/-- is the heap `which` an admissible choice for the selector `sel` -/
def selOk (cfg : Config) (s : State) (sel which : Nat) : Bool :=
  match cfg.kind with
  | .dheap =>
    (match sel with
     | 0 => (s.cur == 2 || s.cur == which) && (which == 0 || which == 1)
     | 1 => which == 0
     | 2 => which == 1
     | _ => false)
  | _ => sel == 0 && which == 0

/-- the cell `id` may be handed out by pop/top using criterion `which` -/
def frontOk (cfg : Config) (s : State) (which id : Nat) : Bool :=
  match cfg.kind with
  | .stack => (match s.cells.getLast? with | some c => c.id == id | none => false)
  | .list => (match s.cells.head? with | some c => c.id == id | none => false)
  | _ =>
    match s.cells.find? (fun c => c.id == id) with
    | some c => c.tag == src cfg s.cells && isMin which c (pool cfg s.cells)
    | none => false

def nodupB : List Nat → Bool
  | [] => true
  | a :: l => !l.contains a && nodupB l

/-- beam search: after a pop from the future buffer, the `beam-1` best remaining future cells
    (any choice among ties) go to the current buffer -/
def moveOk (cfg : Config) (s : State) (id : Nat) (moved : List Nat) : Bool :=
  if cfg.kind == .beam && src cfg s.cells == tFuture then
    let rest := (removeId id s.cells).filter (fun c => c.tag == tFuture)
    nodupB moved && moved.all (fun i => (ids rest).contains i)
      && moved.length == min (cfg.beam - 1) rest.length
      && rest.all (fun a => rest.all (fun b =>
            !(moved.contains a.id) || moved.contains b.id || Ext.le a.c1 b.c1))
  else moved.isEmpty

def costOf (crit : Nat) (cs : List Cell) (id : Nat) : Ext :=
  match cs.find? (fun c => c.id == id) with
  | some c => cost crit c
  | none => .pinf

/-- array-embedded binary heap order: every entry is at least its parent `(i-1)/2` -/
def heapOrdered (l : List Ext) : Bool :=
  (List.range l.length).all (fun i => i == 0 || Ext.le (l.getD ((i - 1) / 2) .pinf) (l.getD i .pinf))

/-- admissibility of the implementation's answer in spec state `s` -/
def check (cfg : Config) (s : State) : Event → Bool
  | .push c stored =>
      c.id == s.next && c.tag == tFuture && (!cfg.lbFirst || decide (c.c1 = c.lb))
        && (stored == !(full cfg s))
  | .pop sel which id moved => selOk cfg s sel which && frontOk cfg s which id && moveOk cfg s id moved
  | .top sel which id => selOk cfg s sel which && frontOk cfg s which id
  | .minimum crit v =>
      (cfg.kind == .heap || cfg.kind == .beam || cfg.kind == .dheap)
        && (crit == 0 || (crit == 1 && cfg.kind == .dheap))
        && s.cells.any (fun c => decide (cost crit c = v))
        && s.cells.all (fun d => Ext.le v (cost crit d))
  | .contract loup deleted =>
      (cfg.kind == .heap || cfg.kind == .beam || cfg.kind == .dheap)
        && deleted == ids (s.cells.filter (fun c => !Ext.le c.c1 loup))
  | .flush deleted => deleted == ids s.cells
  | .size n => n == s.cells.length
  | .empty b => b == s.cells.isEmpty
  | .recost crit l =>
      (crit == 0 || crit == 1) && !(cfg.lbFirst && crit == 0)
        && l.all (fun p => (ids s.cells).contains p.1)
  | .erase id => cfg.kind == .heap && (ids s.cells).contains id
  | .heaps h1 h2 => cfg.kind == .dheap && h1 == ids s.cells && h2 == ids s.cells
  | .tree crit order =>
      ((cfg.kind == .heap && crit == 0) || (cfg.kind == .dheap && (crit == 0 || crit == 1)))
        && order.length == s.cells.length && nodupB order && order.all (fun i => (ids s.cells).contains i)
        && heapOrdered (order.map (costOf crit s.cells))

def go (cfg : Config) (s : State) : List Event → Bool
  | [] => true
  | e :: es => check cfg s e && go cfg (Spec.step cfg s e) es

/-- replay a logged history from the empty buffer -/
def checkTrace (cfg : Config) (evs : List Event) : Bool := go cfg (init cfg) evs

/-- index of the first rejected event and the spec state there (diagnostics for the driver) -/
def firstBad (cfg : Config) (s : State) (k : Nat) : List Event → Option (Nat × State × Event)
  | [] => none
  | e :: es => if check cfg s e then firstBad cfg (Spec.step cfg s e) (k + 1) es else some (k, s, e)

end Ibex.Buffers
