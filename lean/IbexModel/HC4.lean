/-
  HC4Revise on scalar expression DAGs: forward interval evaluation, intersection of the root
  with the right-hand side, backward sweep with the tightest outward-rounded projections.
  Mirrors ibex_HC4Revise.cpp (same node order, same sequential updates, aliasing of shared
  arguments) for the operators  var const add sub mul div minus sqr sqrt abs max min sign pow(1,2).
  No Mathlib import.
-/
import IbexModel.Expr
import IbexModel.Bwd
import IbexModel.Box
namespace Ibex.HC4
open Ibex

def r : Rnd := Rnd.dbl
def z : Ext := .fin 0
def nonneg : Itv := .mk (.fin 0) .pinf

/-- relational division with outward rounding: pieces covering { v | ∃ w ∈ x, v*w ∈ y } -/
def divRel (y x : Itv) : List Itv :=
  match y, x with
  | .mk _ _, .mk c d =>
    if Itv.containsExt y z && Itv.containsExt x z then [Itv.all]
    else if Ext.lt z c || Ext.lt d z then [Itv.divG r y x]
    else
      (if Ext.lt z d then [Itv.divG r y (.mk z d)] else []) ++
      (if Ext.lt c z then [Itv.divG r y (.mk c z)] else [])
  | _, _ => []

/-- x ∩ (y ⊘ d), hull of the pieces -/
def divRelInter (y d x : Itv) : Itv := Bwd.hullL ((divRel y d).map (Bwd.meetPiece y x))

inductive Res where
  | unsupported
  | empty
  | box (b : List Itv)
deriving Repr, BEq

/-- scalar value of a node domain -/
def get (d : Array Itv) (i : Nat) : Itv := d[i]?.getD .empty

/-- forward pass: `none` = unsupported operator / non-scalar node; `some none` = empty (exception) -/
def fwdNode (box : List Itv) (d : Array Itv) (n : Node) : Option (Option Itv) :=
  if n.r != 1 || n.c != 1 then none else
  let ne (x : Itv) : Option (Option Itv) := some (if x.isEmpty then none else some x)
  match n.k with
  | .var off => box[off]?.map fun x => if x.isEmpty then none else some x
  | .const [v] => ne v
  | .bin "add" a b => ne (Itv.add (get d a) (get d b))
  | .bin "sub" a b => ne (Itv.sub (get d a) (get d b))
  | .bin "mul" a b => ne (Itv.mul (get d a) (get d b))
  | .bin "div" a b => ne (Itv.div (get d a) (get d b))
  | .bin "max" a b => ne (Itv.max (get d a) (get d b))
  | .bin "min" a b => ne (Itv.min (get d a) (get d b))
  | .un "minus" a => ne (Itv.neg (get d a))
  | .un "sqr" a => ne (Itv.sqr (get d a))
  | .un "sqrt" a => ne (Itv.sqrt (get d a))
  | .un "abs" a => ne (Itv.abs (get d a))
  | .un "sign" a => ne (Itv.sign (get d a))
  | .pow a 1 => ne (get d a)
  | .pow a 2 => ne (Itv.sqr (get d a))
  | _ => none

def fwd (dag : Dag) (box : List Itv) : Option (Option (Array Itv)) :=
  dag.foldlM (fun (acc : Option (Array Itv)) n =>
    match acc with
    | none => some none       -- already empty: keep going only to detect unsupported nodes
    | some d => (fwdNode box d n).map fun v => v.map d.push) (some #[])

/-- set node `i` to `v`; `none` when it becomes empty -/
def upd (d : Array Itv) (i : Nat) (v : Itv) : Option (Array Itv) :=
  if v.isEmpty then none else some (d.setIfInBounds i v)

/-- backward step of node `i` (its domain `y` is final); sequential updates as in ibex -/
def bwdNode (d : Array Itv) (i : Nat) (n : Node) : Option (Array Itv) :=
  let y := get d i
  match n.k with
  | .var _ => some d
  | .const _ => some d
  | .bin "add" a b => do
    let d ← upd d a (Itv.inter (get d a) (Itv.sub y (get d b)))
    upd d b (Itv.inter (get d b) (Itv.sub y (get d a)))
  | .bin "sub" a b => do
    let d ← upd d a (Itv.inter (get d a) (Itv.add y (get d b)))
    upd d b (Itv.inter (get d b) (Itv.sub (get d a) y))
  | .bin "mul" a b => do
    let d ← upd d a (divRelInter y (get d b) (get d a))
    upd d b (divRelInter y (get d a) (get d b))
  | .bin "div" a b => do
    -- x1 &= y*x2 ; tmp = y ; bwd_mul(x1, tmp, x2)
    let d ← upd d a (Itv.inter (get d a) (Itv.mul y (get d b)))
    let tmp := divRelInter (get d a) (get d b) y
    if tmp.isEmpty then none else
    upd d b (divRelInter (get d a) tmp (get d b))
  | .bin "max" a b => do
    let x1 := get d a; let x2 := get d b
    let d ← upd d a (Bwd.projMax1 y x1 x2)
    upd d b (Bwd.projMax1 y x2 x1)
  | .bin "min" a b => do
    let x1 := get d a; let x2 := get d b
    let d ← upd d a (Bwd.projMin1 y x1 x2)
    upd d b (Bwd.projMin1 y x2 x1)
  | .un "minus" a => upd d a (Itv.inter (get d a) (Itv.neg y))
  | .un "sqr" a =>
    let s := Itv.sqrt (Itv.inter y nonneg)
    upd d a (Itv.hull (Itv.inter (get d a) s) (Itv.inter (get d a) (Itv.neg s)))
  | .pow a 2 =>
    let s := Itv.sqrt (Itv.inter y nonneg)
    upd d a (Itv.hull (Itv.inter (get d a) s) (Itv.inter (get d a) (Itv.neg s)))
  | .pow a 1 => upd d a (Itv.inter (get d a) y)
  | .un "sqrt" a => upd d a (Itv.inter (get d a) (Itv.sqr (Itv.inter y nonneg)))
  | .un "abs" a =>
    let yp := Itv.inter y nonneg
    upd d a (Itv.hull (Itv.inter (get d a) yp) (Itv.inter (get d a) (Itv.neg yp)))
  | .un "sign" a => upd d a (Bwd.projSign y (get d a))
  | _ => some d

/-- the contracted box: variables take the domain of their node (variables that do not occur keep theirs) -/
def readBox (dag : Dag) (box : List Itv) (d : Array Itv) : List Itv :=
  (dag.toList.zipIdx).foldl (fun b (p : Node × Nat) =>
    match p.1.k with
    | .var off => b.set off (get d p.2)
    | _ => b) box

def revise (dag : Dag) (rhs : Itv) (box : List Itv) : Res :=
  if box.any Itv.isEmpty then .empty else
  match fwd dag box with
  | none => .unsupported
  | some none => .empty
  | some (some d) =>
    let root := dag.size - 1
    match upd d root (Itv.inter (get d root) rhs) with
    | none => .empty
    | some d =>
      let steps := (dag.toList.zipIdx).reverse
      match steps.foldlM (fun d (p : Node × Nat) => bwdNode d p.2 p.1) d with
      | none => .empty
      | some d => .box (readBox dag box d)

/-- correspondence check: the implementation's contracted box is inside the input box and contains
    the model's (tightest single-pass) contracted box -/
def reviseOk (dag : Dag) (rhs : Itv) (box out : List Itv) : Bool :=
  Box.subset out box &&
  match revise dag rhs box with
  | .unsupported => true
  | .empty => true
  | .box m => Box.subset m out

end Ibex.HC4
