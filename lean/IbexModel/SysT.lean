/-
  C13 — the symbolic checkers of `IbexModel/Sys.lean` extended to THICK interval constants
  (thick right-hand sides `f(x) = [a,b]`, constants folded by the simplifier with outward
  rounding): a thick constant is an ATOM.  Given a table `tbl` of intervals, the constant
  `tbl[k]` is the extra polynomial variable number `nv + k`; two DAGs with equal normal forms
  over variables and atoms have the same real value for EVERY selection of a member of each thick
  interval (the same interval denoting the same member in both DAGs): soundness in
  `IbexProofs/SysT.lean` w.r.t. `Alg.realWith ch`.  With the empty table these are the checkers
  of the rational fragment.  No Mathlib import.
-/
import IbexModel.Sys
namespace Ibex

/-- position of `I` in a table, counted from `k` -/
def lookupIdx (I : Itv) : List Itv → Nat → Option Nat
  | [], _ => none
  | J :: l, k => if I = J then some k else lookupIdx I l (k + 1)

/-- `Alg.rf` where the thick constant `tbl[k]` is the variable `nv + k` -/
def Alg.rfT (B : Nat) (tbl : List Itv) (nv : Nat) : Alg RF :=
  { Alg.rf B with
    ofItv := fun I => match ratOfItv I with
      | some q => some (RF.const q)
      | none => (lookupIdx I tbl 0).map fun k => RF.var (nv + k) }

namespace Sys

def thickOfDag (d : Dag) : List Itv :=
  d.toList.flatMap fun n => match n.k with
    | .const vs => vs.filter fun I => (ratOfItv I).isNone
    | _ => []

def thickOfProg (p : Prog) : List Itv := (p.main :: p.funs).flatMap thickOfDag

/-- the distinct thick constants of a list of expressions -/
def tableOf (ps : List Prog) : List Itv := (ps.flatMap thickOfProg).eraseDups

/-- normal form over variables and atoms -/
def nfT (B : Nat) (tbl : List Itv) (nv : Nat) (p : Prog) : Option (Mat RF) :=
  Eval.root (Alg.rfT B tbl nv) (Equiv.vars nv) (Eval.buildCalls (Alg.rfT B tbl nv) p.funs) p.main

def progCheckTB (B : Nat) (tbl : List Itv) (nv : Nat) (a b : Prog) : Option Bool := do
  let v₁ ← nfT B tbl nv a
  let v₂ ← nfT B tbl nv b
  if v₁.r = v₂.r ∧ v₁.c = v₂.c then Equiv.eqvList B v₁.d v₂.d else some false

def progCheckT := progCheckTB Equiv.bound

/-- position by position: same operator and equal normal forms -/
def ctrsCheckT (tbl : List Itv) (nv : Nat) : List Ctr → List Ctr → Option Bool
  | [], [] => some true
  | a :: as, b :: bs =>
    if a.op = b.op then optAnd (progCheckT tbl nv a.f b.f) (ctrsCheckT tbl nv as bs) else some false
  | _, _ => some false

def flatNFT (B : Nat) (tbl : List Itv) (nv : Nat) : List Ctr → Option (List (RF × Cmp))
  | [] => some []
  | c :: cs => do
    let F ← nfT B tbl nv c.f
    let rest ← flatNFT B tbl nv cs
    pure (F.d.map (fun e => (e, c.op)) ++ rest)

def flatCheckTB (B : Nat) (tbl : List Itv) (nv : Nat) (cs : List Ctr) (f : Prog) (ops : List Cmp) :
    Option Bool := do
  let F ← nfT B tbl nv f
  let flat ← flatNFT B tbl nv cs
  if F.d.length = ops.length then matchAll B flat (List.zip F.d ops) else some false

def flatCheckT := flatCheckTB Equiv.bound

end Sys
end Ibex
