/-
  C15 — interval linear algebra (ibex_Linear.cpp): executable models and verified checkers.

  * exact rational linear algebra on lists of rows: dot product, determinant (Laplace expansion),
    inverse (adjugate), null vectors, leading principal minors;
  * Gauss–Seidel (`gsSweep`, `gsIter`: ibex's row loop with the `r % n` rule, relational division
    decided exactly), the inflating variant, preconditioning by a given real matrix
    (`mulCI`, `mulCV`: ibex's sequential accumulation with tightest outward rounding);
  * checkers run by the driver on the outputs of the C++ routines: `gsOk`, `precondOk`,
    Oettli–Prager membership `sigmaMem`, strict diagonal dominance `ddOk`, vertex enumeration for the
    determinant, exact replay of an interval LU on a real instance.
  No Mathlib import.
-/
import IbexModel.Bwd
import IbexModel.Box
namespace Ibex.LinAlg
open Ibex

abbrev QVec := List Rat
abbrev QMat := List (List Rat)
abbrev IVec := List Itv
abbrev IMat := List (List Itv)

/-! ### exact rational linear algebra -/

def dotQ : List Rat → List Rat → Rat
  | a :: as, x :: xs => a * x + dotQ as xs
  | _, _ => 0

def mulVecQ (A : QMat) (x : QVec) : QVec := A.map (dotQ · x)

def colQ (A : QMat) (j : Nat) : QVec := A.map (·.getD j 0)

def transposeQ (n : Nat) (A : QMat) : QMat := (List.range n).map (colQ A)

/-- A · B for B with `n` columns -/
def mulQ (n : Nat) (A B : QMat) : QMat := A.map fun row => (List.range n).map fun j => dotQ row (colQ B j)

def altSign (j : Nat) : Rat := if j % 2 = 0 then 1 else -1

/-- determinant of the `n × n` matrix given by its rows: Laplace expansion along the first row -/
def detQ : Nat → QMat → Rat
  | 0, _ => 1
  | _ + 1, [] => 0
  | n + 1, row :: rest =>
    ((List.range (n + 1)).map fun j => altSign j * row.getD j 0 * detQ n (rest.map (·.eraseIdx j))).sum

/-- delete row `i` and column `j` -/
def minorQ (A : QMat) (i j : Nat) : QMat := (A.eraseIdx i).map (·.eraseIdx j)

/-- inverse by the adjugate (none when the determinant is 0) -/
def inverseQ (n : Nat) (A : QMat) : Option QMat :=
  let d := detQ n A
  if d = 0 then none else
    some ((List.range n).map fun i => (List.range n).map fun j => altSign (i + j) * detQ (n - 1) (minorQ A j i) / d)

def idQ (n : Nat) : QMat := (List.range n).map fun i => (List.range n).map fun j => if i = j then 1 else 0

/-- `A · B = I` (exactly); certifies that `B` is the inverse of `A` -/
def isInverse (n : Nat) (A B : QMat) : Bool := A.length == n && B.length == n && mulQ n A B == idQ n

def isZeroVec (v : QVec) : Bool := v.all (· == 0)

/-- `v ≠ 0`, `|v| = n`, `A v = 0`: the columns of `A` are linearly dependent -/
def isNullVec (n : Nat) (A : QMat) (v : QVec) : Bool := v.length == n && !isZeroVec v && isZeroVec (mulVecQ A v)

/-- reduced row echelon form by Gauss–Jordan elimination; returns the rows and the pivot columns
    (row `k` has its pivot in column `pivs[k]`) -/
def rref (n : Nat) (A : QMat) : QMat × List Nat := Id.run do
  let mut rows : Array (List Rat) := A.toArray
  let mut pivs : Array Nat := #[]
  let mut r := 0
  for c in [0:n] do
    if r < rows.size then
      -- find a pivot row
      let mut p := rows.size
      for i in [r:rows.size] do
        if p == rows.size && rows[i]!.getD c 0 != 0 then p := i
      if p < rows.size then
        let tmp := rows[r]!
        rows := rows.set! r rows[p]!
        rows := rows.set! p tmp
        let piv := rows[r]!.getD c 0
        let prow := rows[r]!.map (· / piv)
        rows := rows.set! r prow
        for i in [0:rows.size] do
          if i != r then
            let f := rows[i]!.getD c 0
            if f != 0 then rows := rows.set! i (List.zipWith (fun a b => a - f * b) rows[i]! prow)
        pivs := pivs.push c
        r := r + 1
  return (rows.toList, pivs.toList)

def rankQ (n : Nat) (A : QMat) : Nat := (rref n A).2.length

/-- a candidate non-zero vector of the kernel of `A` (`n` columns), from the first free column -/
def nullVec? (n : Nat) (A : QMat) : Option QVec :=
  let (rows, pivs) := rref n A
  match (List.range n).find? (fun c => !pivs.contains c) with
  | none => none
  | some f =>
    some ((List.range n).map fun c =>
      if c == f then 1 else
        match pivs.idxOf? c with
        | some k => - ((rows.getD k []).getD f 0)
        | none => 0)

/-- verified witness of rank deficiency of an `m × n` matrix: a non-trivial combination of the rows
    (m ≤ n) or of the columns (m > n) that vanishes -/
def deficiencyWitness (m n : Nat) (A : QMat) : Option QVec :=
  if m ≤ n then
    let At := transposeQ n A
    match nullVec? m At with
    | some v => if isNullVec m At v then some v else none
    | none => none
  else
    match nullVec? n A with
    | some v => if isNullVec n A v then some v else none
    | none => none

/-- leading principal sub-matrix of order k -/
def leadingQ (k : Nat) (A : QMat) : QMat := (A.take k).map (·.take k)

def quadQ (A : QMat) (v : QVec) : Rat := dotQ v (mulVecQ A v)

def isSymmQ (n : Nat) (A : QMat) : Bool := A == transposeQ n A

/-- candidate `v ≠ 0` with `vᵀ A v ≤ 0` for a symmetric matrix that fails Sylvester's criterion:
    at the first non-positive leading minor (order k+1) take `v = (−B⁻¹c, 1, 0, …)` where `B` is the
    leading block of order k and `c` the top of column k (Schur complement). -/
def notPDCandidate (n : Nat) (A : QMat) : Option QVec :=
  match (List.range n).find? (fun k => detQ (k + 1) (leadingQ (k + 1) A) ≤ 0) with
  | none => none
  | some k =>
    let c := (colQ A k).take k
    match inverseQ k (leadingQ k A) with
    | none => none
    | some Binv =>
      let y := (mulVecQ Binv c).map (fun t => -t)
      some (y ++ [1] ++ List.replicate (n - k - 1) 0)

/-- verified witness that the (symmetric) matrix is not positive definite -/
def notPDWitness (n : Nat) (A : QMat) : Option QVec :=
  match notPDCandidate n A with
  | some v => if v.length == n && !isZeroVec v && decide (quadQ A v ≤ 0) then some v else none
  | none => none

/-- Sylvester's criterion, exactly -/
def sylvesterQ (n : Nat) (A : QMat) : Bool := (List.range n).all fun k => decide (0 < detQ (k + 1) (leadingQ (k + 1) A))

/-! ### membership of rational data in interval data -/

def ratIn (q : Rat) (x : Itv) : Bool := Itv.containsExt x (.fin q)

def vecIn : QVec → IVec → Bool
  | [], [] => true
  | q :: qs, x :: xs => ratIn q x && vecIn qs xs
  | _, _ => false

def matIn : QMat → IMat → Bool
  | [], [] => true
  | r :: rs, R :: Rs => vecIn r R && matIn rs Rs
  | _, _ => false

def vecSubset : IVec → IVec → Bool
  | [], [] => true
  | x :: xs, y :: ys => Itv.subset x y && vecSubset xs ys
  | _, _ => false

def matSubset : IMat → IMat → Bool
  | [], [] => true
  | r :: rs, R :: Rs => vecSubset r R && matSubset rs Rs
  | _, _ => false

/-! ### Gauss–Seidel -/

/-- `acc − Σ_{j ≠ i} a_j·x_j`, sequentially from column `k`, tightest outward rounding
    (ibex: `proj = b[r]; for j: if (j != i) proj -= A[r][j]*x[j]`) -/
def restSub (i : Nat) : Nat → List Itv → List Itv → Itv → Itv
  | k, a :: as, x :: xs, acc => restSub i (k + 1) as xs (if k = i then acc else Itv.sub acc (Itv.mul a x))
  | _, _, _, acc => acc

/-- the projection of row `row·x = br` on variable `i`: `x_i ← x_i ∩ (proj ⊘ a_i)` with the exact
    relational division (ibex: `bwd_mul(proj, A[r][i], x[i])`) -/
def rowProj (row : List Itv) (br : Itv) (X : IVec) (i : Nat) : Itv :=
  Bwd.projMul1 (restSub i 0 row X br) (X.getD i .empty) (row.getD i (Itv.point 0))

def rowStep (row : List Itv) (br : Itv) (X : IVec) (i : Nat) : IVec := X.set i (rowProj row br X i)

/-- one sweep over the rows `r, r+1, …`; row `r` projects on variable `r % n` -/
def sweepRows (n : Nat) : Nat → IMat → IVec → IVec → IVec
  | r, row :: rows, br :: bs, X => sweepRows n (r + 1) rows bs (rowStep row br X (r % n))
  | _, _, _, X => X

def gsSweep (A : IMat) (b X : IVec) : IVec := sweepRows X.length 0 A b X

/-- at most `fuel` sweeps, stopping at a fixed point or at an empty box; the Boolean tells whether
    the result is stationary (no further sweep can change it) -/
def gsIter : Nat → IMat → IVec → IVec → IVec × Bool
  | 0, _, _, X => (X, false)
  | fuel + 1, A, b, X =>
    if Box.isEmpty X then (X, true) else
    let X' := gsSweep A b X
    if X' == X then (X, true) else gsIter fuel A b X'

/-- acceptance of an implementation result: it contains the model's result after `fuel` sweeps -/
def gsOk (fuel : Nat) (A : IMat) (b X impl : IVec) : Bool := Box.subset (gsIter fuel A b X).1 impl

/-! ### inflating Gauss–Seidel (no intersection) -/

def inflRowStep (row : List Itv) (br : Itv) (X : IVec) (i : Nat) : IVec :=
  let a := row.getD i (Itv.point 0)
  X.set i (if Itv.containsExt a (.fin 0) then Itv.all else Itv.div (restSub i 0 row X br) a)

def inflSweepRows : Nat → IMat → IVec → IVec → IVec
  | r, row :: rows, br :: bs, X => inflSweepRows (r + 1) rows bs (inflRowStep row br X r)
  | _, _, _, X => X

def inflIter : Nat → IMat → IVec → IVec → IVec
  | 0, _, _, X => X
  | k + 1, A, b, X => inflIter k A b (inflSweepRows 0 A b X)

/-- acceptance of an implementation result of the inflating variant: it contains the model's iterate
    after some number `k ≤ fuel` of sweeps (`X` is the running iterate) -/
def inflOk : Nat → IMat → IVec → IVec → IVec → Bool
  | 0, _, _, X, impl => Box.subset X impl
  | fuel + 1, A, b, X, impl => Box.subset X impl || inflOk fuel A b (inflSweepRows 0 A b X) impl

/-! ### preconditioning by a real matrix -/

/-- `acc + Σ_k c_k·X_k`, sequentially (ibex `mulMM`/`mulMV`: `m3[i][j]=0; m3[i][j]+=m1[i][k]*m2[k][j]`) -/
def dotCI : List Rat → List Itv → Itv → Itv
  | c :: cs, X :: Xs, acc => dotCI cs Xs (Itv.add acc (Itv.mul (Itv.point c) X))
  | _, _, acc => acc

def colI (A : IMat) (j : Nat) : IVec := A.map (·.getD j (Itv.point 0))

/-- `C · [A]` for `[A]` with `n` columns -/
def mulCI (n : Nat) (C : QMat) (A : IMat) : IMat :=
  C.map fun c => (List.range n).map fun j => dotCI c (colI A j) (Itv.point 0)

/-- `C · [b]` -/
def mulCV (C : QMat) (b : IVec) : IVec := C.map fun c => dotCI c b (Itv.point 0)

/-- acceptance of a preconditioned system `(A', b')` for the real matrix `C` -/
def precondOk (n : Nat) (C : QMat) (A : IMat) (b : IVec) (A' : IMat) (b' : IVec) : Bool :=
  matSubset (mulCI n C A) A' && vecSubset (mulCV C b) b'

/-! ### exact membership in the united solution set (Oettli–Prager, row by row) -/

/-- exact range of `Σ_j a_j·x_j` for `a_j ∈ A_j` at the rational point `x` -/
def rowRange : List Itv → QVec → Itv → Itv
  | a :: as, x :: xs, acc => rowRange as xs (Itv.addG Rnd.exact acc (Itv.mulG Rnd.exact a (Itv.point x)))
  | _, _, acc => acc

/-- `x ∈ Σ([A],[b])`: every row range meets the right-hand side -/
def sigmaMem : IMat → IVec → QVec → Bool
  | row :: rows, br :: bs, x => Itv.intersects (rowRange row x (Itv.point 0)) br && sigmaMem rows bs x
  | [], [], _ => true
  | _, _, _ => false

/-! ### strict diagonal dominance, exactly -/

def magE : Itv → Ext
  | .empty => .fin 0
  | .mk a b => Ext.max (Ext.neg a) b

def migE : Itv → Ext
  | .empty => .fin 0
  | .mk a b => if Ext.lt (.fin 0) a then a else if Ext.lt b (.fin 0) then Ext.neg b else .fin 0

def addE : Ext → Ext → Ext
  | .fin a, .fin b => .fin (a + b)
  | .ninf, _ => .ninf
  | _, .ninf => .ninf
  | _, _ => .pinf

/-- `Σ_{j ≠ i} mag(row_j)` from column `k` -/
def offMag (i : Nat) : Nat → List Itv → Ext
  | k, a :: as => if k = i then offMag i (k + 1) as else addE (magE a) (offMag i (k + 1) as)
  | _, [] => .fin 0

def ddRows : Nat → IMat → Bool
  | i, row :: rows => Ext.lt (offMag i 0 row) (migE (row.getD i (Itv.point 0))) && ddRows (i + 1) rows
  | _, [] => true

/-- every real matrix inside `A` is strictly diagonally dominant by rows -/
def ddOk (A : IMat) : Bool := ddRows 0 A

/-! ### strong regularity: `‖I − C·[A]‖∞ < 1` -/

def sumMagE : List Itv → Ext
  | [] => .fin 0
  | a :: as => addE (magE a) (sumMagE as)

/-- `I − C·[A]` (entry (i,j), i, j < n) with tightest outward rounding -/
def residI (n : Nat) (C : QMat) (A : IMat) : IMat :=
  (List.range n).map fun i => (List.range n).map fun j =>
    Itv.sub (Itv.point (if i = j then 1 else 0)) (dotCI (C.getD i []) (colI A j) (Itv.point 0))

/-- every row of `|I − C·[A]|` sums to less than 1: every real matrix of `[A]` is regular -/
def betaOk (n : Nat) (C : QMat) (A : IMat) : Bool :=
  (residI n C A).all fun row => Ext.lt (sumMagE row) (.fin 1)

/-- exact midpoint matrix of an interval matrix with finite bounds -/
def midQ (A : IMat) : Option QMat :=
  A.mapM fun row => row.mapM fun x => match x with
    | .mk (.fin a) (.fin b) => some ((a + b) / 2)
    | _ => none

/-! ### positive definiteness of every instance: `A_c − (μ+ε)I = L D Lᵀ`, `D ≥ 0`, `μ ≥ ‖Δ‖` -/

def finiteI : Itv → Bool
  | .mk (.fin a) (.fin b) => decide (a ≤ b)
  | _ => false
def cenQ : Itv → Rat
  | .mk (.fin a) (.fin b) => (a + b) / 2
  | _ => 0
def radQ : Itv → Rat
  | .mk (.fin a) (.fin b) => (b - a) / 2
  | _ => 0

def entryI (A : IMat) (i j : Nat) : Itv := (A.getD i []).getD j (Itv.point 0)
def entryQ (L : QMat) (i j : Nat) : Rat := (L.getD i []).getD j 0

def sumRange (n : Nat) (f : Nat → Rat) : Rat := ((List.range n).map f).sum
def allRange (n : Nat) (p : Nat → Bool) : Bool := (List.range n).all p

/-- certificate that every real matrix of the `n × n` interval matrix `[A]` is positive definite:
    all entries bounded, `μ` bounds every row and column sum of the radius matrix, `ε > 0`, `d ≥ 0` and
    `A_c − (μ+ε)·I = L·diag(d)·Lᵀ` exactly (`A_c` = midpoint matrix). -/
def pdCertOk (n : Nat) (A : IMat) (L : QMat) (d : List Rat) (mu eps : Rat) : Bool :=
  decide (0 < eps) &&
  allRange n (fun i => allRange n fun j => finiteI (entryI A i j)) &&
  allRange n (fun i => decide (sumRange n (fun j => radQ (entryI A i j)) ≤ mu)) &&
  allRange n (fun j => decide (sumRange n (fun i => radQ (entryI A i j)) ≤ mu)) &&
  allRange n (fun p => decide (0 ≤ d.getD p 0)) &&
  allRange n (fun i => allRange n fun j =>
    cenQ (entryI A i j) - (if i = j then mu + eps else 0) ==
      sumRange n fun p => entryQ L i p * d.getD p 0 * entryQ L j p)

/-- `L D Lᵀ` factorisation without pivoting of a symmetric rational matrix (none when a pivot is ≤ 0);
    only used to FIND a certificate, which `pdCertOk` verifies. -/
def ldlt (n : Nat) (B : Nat → Nat → Rat) : Option (QMat × List Rat) := Id.run do
  let mut L : Array (Array Rat) := Array.replicate n (Array.replicate n 0)
  let mut d : Array Rat := Array.replicate n 0
  let mut ok := true
  for k in [0:n] do
    if ok then
      let mut dk := B k k
      for p in [0:k] do
        dk := dk - (L[k]!)[p]! * (L[k]!)[p]! * d[p]!
      if dk ≤ 0 then ok := false
      else
        d := d.set! k dk
        L := L.set! k ((L[k]!).set! k 1)
        for i in [k+1:n] do
          let mut s := B i k
          for p in [0:k] do
            s := s - (L[i]!)[p]! * (L[k]!)[p]! * d[p]!
          L := L.set! i ((L[i]!).set! k (s / dk))
  return if ok then some (L.toList.map Array.toList, d.toList) else none

/-- search for a certificate: `μ` = largest row / column sum of the radii, `ε` = 2⁻²⁰ · smallest diagonal midpoint -/
def pdCertFind (n : Nat) (A : IMat) : Bool :=
  if !(allRange n fun i => allRange n fun j => finiteI (entryI A i j)) || n == 0 then false else
  let rows := (List.range n).map fun i => sumRange n fun j => radQ (entryI A i j)
  let cols := (List.range n).map fun j => sumRange n fun i => radQ (entryI A i j)
  let mu := (rows ++ cols).foldl max 0
  let dmin := ((List.range n).map fun i => cenQ (entryI A i i)).foldl min (cenQ (entryI A 0 0))
  if dmin ≤ 0 then false else
  let eps := dmin / 1048576
  match ldlt n (fun i j => cenQ (entryI A i j) - (if i = j then mu + eps else 0)) with
  | some (L, d) => pdCertOk n A L d mu eps
  | none => false

/-! ### sub-matrices (selected rows and columns) -/

def pickV {α : Type} (d : α) (S : List Nat) (row : List α) : List α := S.map (row.getD · d)

/-- rows `rs` and columns `cs` of an interval matrix (a missing entry is the point 0) -/
def subI (rs cs : List Nat) (A : IMat) : IMat := rs.map fun i => pickV (Itv.point 0) cs (A.getD i [])

/-- all sub-lists of length `k` (in increasing position) -/
def choose : Nat → List Nat → List (List Nat)
  | 0, _ => [[]]
  | _ + 1, [] => []
  | k + 1, x :: xs => (choose k xs).map (x :: ·) ++ choose (k + 1) xs

/-! ### vertex matrices -/

/-- the bounds of an interval with finite bounds (one value if degenerate) -/
def corners : Itv → Option (List Rat)
  | .mk (.fin a) (.fin b) => if a == b then some [a] else if a < b then some [a, b] else none
  | _ => none

def vecVertices : IVec → Option (List QVec)
  | [] => some [[]]
  | x :: xs => do
    let cs ← corners x
    let rest ← vecVertices xs
    pure (cs.flatMap fun c => rest.map (c :: ·))

def matVertices : IMat → Option (List QMat)
  | [] => some [[]]
  | r :: rs => do
    let vs ← vecVertices r
    let rest ← matVertices rs
    pure (vs.flatMap fun v => rest.map (v :: ·))

def thickCount (A : IMat) : Nat := (A.map fun r => (r.filter fun x => !x.isDegenerated).length).sum

/-- every vertex determinant lies in `d` -/
def detVerticesIn (n : Nat) (vs : List QMat) (d : Itv) : Bool := vs.all fun V => ratIn (detQ n V) d

/-- all vertex determinants have the same strict sign -/
def detVerticesSameSign (n : Nat) (vs : List QMat) : Bool :=
  (vs.all fun V => decide (0 < detQ n V)) || (vs.all fun V => decide (detQ n V < 0))

/-! ### exact replay of an LU decomposition on a real instance -/

def isPerm (n : Nat) (p : List Nat) : Bool := p.length == n && (List.range n).all fun i => p.contains i

/-- Replay ibex's in-place elimination on the rational matrix `M` with the row order `pr` and the
    column order `pc` chosen by the interval run whose result is `LU`.  Step `i` is performed only
    if the interval pivot does not contain 0 (the interval run stops there otherwise); the rational
    pivot must then lie in the interval pivot (hence be non-zero).  Returns the final matrix, or the
    index of the step whose pivot escaped. -/
def luReplay (m n : Nat) (pr pc : List Nat) (LU : IMat) (M : QMat) : Except Nat QMat := Id.run do
  let mut a : Array (Array Rat) := (M.map List.toArray).toArray
  let steps := if m < n then m else n
  let mut stop := false
  let mut bad : Option Nat := none
  for i in [0:steps] do
    if !stop then
      let ri := pr.getD i 0
      let ci := pc.getD i 0
      let P := (LU.getD ri []).getD ci .empty
      if Itv.containsExt P (.fin 0) then stop := true
      else
        let piv := (a[ri]!)[ci]!
        if !ratIn piv P || piv == 0 then
          bad := some i; stop := true
        else
          for j in [i+1:m] do
            let rj := pr.getD j 0
            let f := (a[rj]!)[ci]! / piv
            for k in [i+1:n] do
              let ck := pc.getD k 0
              a := a.set! rj ((a[rj]!).set! ck ((a[rj]!)[ck]! - f * (a[ri]!)[ck]!))
            a := a.set! rj ((a[rj]!).set! ci f)
  match bad with
  | some i => return .error i
  | none => return .ok (a.toList.map Array.toList)


/-- exact verification of a replayed factorisation: with `L` the unit lower part and `U` the upper part of
    `M` in the pivot order, `(P A Q)_{ij} = Σ_t L_{it} U_{tj}` for all `i < m`, `j < n` -/
def luFactorOk (m n : Nat) (pr pc : List Nat) (M A : QMat) : Bool :=
  let k := if m < n then m else n
  let e (X : QMat) (i j : Nat) : Rat := (X.getD (pr.getD i 0) []).getD (pc.getD j 0) 0
  (List.range m).all fun i => (List.range n).all fun j =>
    e A i j == ((List.range k).map fun t =>
      (if t < i then e M i t else if t == i then 1 else 0) * (if t ≤ j then e M t j else 0)).sum

end Ibex.LinAlg
