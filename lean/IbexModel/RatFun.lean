/-
  Rational functions in normal form and a *symbolic* equivalence checker for expression DAGs.

  `Poly`  : multivariate polynomials over `Rat` in canonical form (list of terms sorted strictly
            by a monomial order, no zero coefficient; monomials are exponent vectors without
            trailing zeros).  Two polynomials are equal iff their canonical lists are equal.
  `RF`    : formal quotients `num / den` (no gcd normalisation); equality test by
            cross-multiplication.
  `Alg.rf`: the number algebra of rational functions: evaluating a DAG with `Eval.root` on the
            environment `[x₀, x₁, …]` yields the rational function denoted by every entry of the
            DAG — or `none` when an operator lies outside the rational fragment.
  `Equiv.check`, `Equiv.checkComp`, `Equiv.checkDiff`: the checkers.  Their soundness (for every
            real point, not only sampled ones) is proved in `IbexProofs/RatFun.lean`,
            `IbexProofs/Props/C11.lean` and `IbexProofs/Props/C12nf.lean`.
  No Mathlib import.
-/
import IbexModel.Expr
namespace Ibex

/-- exponent vector (variable `k` has exponent `m[k]`), without trailing zeros -/
abbrev Mono := List Nat

namespace Mono

/-- lexicographic order on (zero-padded) exponent vectors: a monomial order -/
def cmp : Mono → Mono → Ordering
  | [], [] => .eq
  | [], _ :: _ => .lt
  | _ :: _, [] => .gt
  | a :: as, b :: bs => if a < b then .lt else if b < a then .gt else cmp as bs

def mul : Mono → Mono → Mono
  | [], b => b
  | a :: as, [] => a :: as
  | a :: as, b :: bs => (a + b) :: mul as bs

def var (k : Nat) : Mono := List.replicate k 0 ++ [1]

/-- `e :: es` without creating a trailing zero -/
def cons (e : Nat) (es : Mono) : Mono :=
  match e, es with
  | 0, [] => []
  | e, es => e :: es

/-- `dec j m = some (e, m')` when variable `j` has exponent `e ≥ 1` in `m` and `m' = m / x_j` -/
def dec : Nat → Mono → Option (Nat × Mono)
  | _, [] => none
  | 0, e :: es => if e = 0 then none else some (e, cons (e - 1) es)
  | j + 1, e :: es => (dec j es).map fun p => (p.1, cons e p.2)

end Mono

/-- terms sorted strictly increasingly w.r.t. `Mono.cmp`, coefficients non-zero -/
abbrev Poly := List (Mono × Rat)

namespace Poly

def one : Poly := [([], 1)]
def const (q : Rat) : Poly := if q = 0 then [] else [([], q)]
def var (k : Nat) : Poly := [(Mono.var k, 1)]

/-- merge of two sorted term lists (`fuel ≥ p.length + q.length` suffices) -/
def addF : Nat → Poly → Poly → Poly
  | 0, p, q => p ++ q
  | _ + 1, [], q => q
  | _ + 1, t :: p, [] => t :: p
  | f + 1, (m, a) :: p, (n, b) :: q =>
    match Mono.cmp m n with
    | .lt => (m, a) :: addF f p ((n, b) :: q)
    | .gt => (n, b) :: addF f ((m, a) :: p) q
    | .eq => if a + b = 0 then addF f p q else (m, a + b) :: addF f p q

def add (p q : Poly) : Poly := addF (p.length + q.length) p q
def neg (p : Poly) : Poly := p.map fun t => (t.1, -t.2)
def sub (p q : Poly) : Poly := add p (neg q)

/-- product by the term `a·m` (`a ≠ 0`): keeps the list sorted, `cmp` being a monomial order -/
def mulTerm (m : Mono) (a : Rat) (q : Poly) : Poly := q.map fun t => (Mono.mul m t.1, a * t.2)

def mulAux (p q : Poly) : Poly := p.foldr (fun t acc => add (mulTerm t.1 t.2 q) acc) []

/-- the outer loop runs over the shorter factor -/
def mul (p q : Poly) : Poly := if p.length ≤ q.length then mulAux p q else mulAux q p

def pow (p : Poly) : Nat → Poly
  | 0 => one
  | n + 1 => mul (pow p n) p

/-- formal partial derivative w.r.t. variable `j` (dividing by `x_j` the monomials that contain
    it keeps them strictly sorted, and `a·e ≠ 0`) -/
def deriv (j : Nat) : Poly → Poly
  | [] => []
  | (m, a) :: p =>
    match Mono.dec j m with
    | none => deriv j p
    | some (e, m') => (m', a * (e : Rat)) :: deriv j p

end Poly

/-- formal quotient of two polynomials -/
structure RF where
  num : Poly
  den : Poly
deriving Repr

namespace RF

def const (q : Rat) : RF := ⟨Poly.const q, Poly.one⟩
def var (k : Nat) : RF := ⟨Poly.var k, Poly.one⟩
def size (a : RF) : Nat := a.num.length + a.den.length

def add (a b : RF) : RF :=
  if a.den = b.den then ⟨Poly.add a.num b.num, a.den⟩
  else ⟨Poly.add (Poly.mul a.num b.den) (Poly.mul b.num a.den), Poly.mul a.den b.den⟩
def neg (a : RF) : RF := ⟨Poly.neg a.num, a.den⟩
def sub (a b : RF) : RF := add a (neg b)
def mul (a b : RF) : RF := ⟨Poly.mul a.num b.num, Poly.mul a.den b.den⟩
/-- meaningful when `b.num` is not the zero polynomial -/
def div (a b : RF) : RF := ⟨Poly.mul a.num b.den, Poly.mul a.den b.num⟩
def inv (a : RF) : RF := ⟨a.den, a.num⟩

/-- quotient rule -/
def deriv (j : Nat) (a : RF) : RF :=
  ⟨Poly.sub (Poly.mul (Poly.deriv j a.num) a.den) (Poly.mul a.num (Poly.deriv j a.den)),
   Poly.mul a.den a.den⟩

/-- size guard for `deriv` -/
def derivOK (B : Nat) (a : RF) : Bool :=
  a.num.length * a.den.length ≤ B && a.den.length * a.den.length ≤ B

/-- size guard: binary operations are performed only on operands whose sizes have a product
    `≤ B` (the cost of a product is polynomial in that quantity); otherwise: undefined -/
def guard (B : Nat) (a b : RF) (r : RF) : Option RF := if a.size * b.size ≤ B then some r else none

def powM (B : Nat) (a : RF) : Nat → Option RF
  | 0 => some (const 1)
  | n + 1 => (powM B a n).bind fun r => guard B r a (mul r a)

/-- equality of two formal quotients as rational functions: cross-multiplication (both
    denominators must be non-zero polynomials).  `none`: too large. -/
def eqv (B : Nat) (a b : RF) : Option Bool :=
  if a.den = [] ∨ b.den = [] then some false
  else if a.den = b.den then some (decide (a.num = b.num))
  else if a.size * b.size ≤ B then some (decide (Poly.mul a.num b.den = Poly.mul b.num a.den))
  else none

end RF

/-- The algebra of rational functions with rational coefficients.  Supported: degenerate
    constants, `+ - * /` (division by the zero polynomial is undefined), unary minus, square,
    integer powers.  Everything else (`abs max min sign chi floor ceil sqrt`, transcendental
    functions, thick constants) is undefined: the checker then claims nothing. -/
def Alg.rf (B : Nat) : Alg RF where
  ofItv I := (ratOfItv I).map RF.const
  zero := RF.const 0
  add a b := RF.guard B a b (RF.add a b)
  sub a b := RF.guard B a b (RF.sub a b)
  mul a b := RF.guard B a b (RF.mul a b)
  div a b := if b.num = [] then none else RF.guard B a b (RF.div a b)
  max _ _ := none
  min _ _ := none
  un op := match op with
    | "minus" => some fun a => some (RF.neg a)
    | "sqr" => some fun a => RF.guard B a a (RF.mul a a)
    | _ => none
  pow a n :=
    if n ≥ 0 then RF.powM B a n.toNat
    else if a.num = [] then none else RF.powM B (RF.inv a) (-n).toNat
  chi _ _ _ := none

namespace Equiv

/-- the environment `[x₀, …, x_{n-1}]` -/
def vars (n : Nat) : List RF := (List.range n).map RF.var

/-- the matrix of rational functions denoted by a DAG (`none`: outside the fragment / too large) -/
def nf (B : Nat) (funs : List Dag) (dag : Dag) (nvars : Nat) : Option (Mat RF) :=
  Eval.root (Alg.rf B) (vars nvars) (Eval.buildCalls (Alg.rf B) funs) dag

/-- all corresponding entries are equal rational functions -/
def eqvList (B : Nat) : List RF → List RF → Option Bool
  | [], [] => some true
  | a :: as, b :: bs =>
    match RF.eqv B a b with
    | none => none
    | some false => some false
    | some true => eqvList B as bs
  | _, _ => some false

/-- `some true`: both DAGs denote rational functions, with the same dimensions and equal entries;
    `some false`: both denote rational functions, which differ; `none`: nothing claimed. -/
def checkB (B : Nat) (funs₁ : List Dag) (dag₁ : Dag) (funs₂ : List Dag) (dag₂ : Dag) (nvars : Nat) :
    Option Bool := do
  let v₁ ← nf B funs₁ dag₁ nvars
  let v₂ ← nf B funs₂ dag₂ nvars
  if v₁.r = v₂.r ∧ v₁.c = v₂.c then eqvList B v₁.d v₂.d else some false

/-- entry `i` (row-major) of `dag₁` against the scalar `dag₂` -/
def checkCompB (B : Nat) (funs₁ : List Dag) (dag₁ : Dag) (funs₂ : List Dag) (dag₂ : Dag) (i nvars : Nat) :
    Option Bool := do
  let v₁ ← nf B funs₁ dag₁ nvars
  let v₂ ← nf B funs₂ dag₂ nvars
  match v₁.d[i]?, v₂.d with
  | some a, [b] => RF.eqv B a b
  | _, _ => some false

/-- all formal partial derivatives `[∂fᵢ/∂xⱼ]` in row-major order (rows = entries of `f`) -/
def jac (nvars : Nat) (fs : List RF) : List RF :=
  fs.flatMap fun f => (List.range nvars).map fun j => RF.deriv j f

/-- the flattened entries of `dag₂` against the formal Jacobian of `dag₁` -/
def checkDiffB (B : Nat) (funs₁ : List Dag) (dag₁ : Dag) (funs₂ : List Dag) (dag₂ : Dag) (nvars : Nat) :
    Option Bool := do
  let v₁ ← nf B funs₁ dag₁ nvars
  let v₂ ← nf B funs₂ dag₂ nvars
  if v₁.d.all (RF.derivOK B) then eqvList B (jac nvars v₁.d) v₂.d else none

/-- default size bound -/
def bound : Nat := 60000

def check := checkB bound
def checkComp := checkCompB bound
def checkDiff := checkDiffB bound

/-- purely syntactic: every operator of the DAG belongs to the rational fragment (used only to
    word the driver's answer when the checker claims nothing) -/
def inFragment (dag : Dag) : Bool :=
  dag.all fun n =>
    match n.k with
    | .un op _ => op == "minus" || op == "sqr" || op == "trans"
    | .bin op _ _ => op == "add" || op == "sub" || op == "mul" || op == "div"
    | .const vs => vs.all fun I => (ratOfItv I).isSome
    | .chi _ _ _ => false
    | _ => true

end Equiv
end Ibex
