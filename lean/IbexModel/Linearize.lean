/-
  C20 — linearisations (LinearizerXTaylor / Compo / Fixed / Duality): rows handed to the LP solver,
  exact point rules (the property itself, decided in rational arithmetic) and VERIFIED CERTIFICATE
  CHECKERS: a recorded row `a·x ≤ b` is accepted when it follows, by a first-order expansion, from a
  slope enclosure (Hansen matrix or Jacobian) and a value enclosure that the implementation's own
  public functions return.  Executable; no Mathlib import.
  Soundness of the checkers: IbexProofs/Linearize.lean, IbexProofs/Props/C20.lean.
-/
import IbexModel.Box
namespace Ibex
namespace Lin

/-- exact dot product (over the common prefix) -/
def dot : List Rat → List Rat → Rat
  | a :: as, x :: xs => a * x + dot as xs
  | _, _ => 0

/-- a row handed to the LP solver: `lo ≤ a·x ≤ hi` (`LEQ b` is `−∞ ≤ a·x ≤ b`, …) -/
structure Row where
  lo : Ext
  hi : Ext
  a : List Rat
deriving Repr, DecidableEq

/-- the point `x` satisfies the row exactly -/
def Row.sat (r : Row) (x : List Rat) : Bool :=
  Ext.le r.lo (.fin (dot r.a x)) && Ext.le (.fin (dot r.a x)) r.hi

/-- one-sided form `a·x ≤ b` -/
structure LeRow where
  a : List Rat
  b : Ext
deriving Repr, DecidableEq

def LeRow.sat (r : LeRow) (x : List Rat) : Bool := Ext.le (.fin (dot r.a x)) r.b

/-- the (at most two) one-sided rows of a row -/
def Row.sides (r : Row) : List LeRow :=
  (if r.hi == .pinf then [] else [⟨r.a, r.hi⟩]) ++
  (if r.lo == .ninf then [] else [⟨r.a.map (fun q => -q), Ext.neg r.lo⟩])

def sidesOf (rows : List Row) : List LeRow := rows.flatMap Row.sides

/-! ### comparison operators of the nonlinear system -/

inductive Cmp where
  | lt | leq | eq | geq | gt
deriving Repr, DecidableEq

def Cmp.holds : Cmp → Rat → Bool
  | .lt, v => decide (v < 0)
  | .leq, v => decide (v ≤ 0)
  | .eq, v => decide (v = 0)
  | .geq, v => decide (v ≥ 0)
  | .gt, v => decide (v > 0)

/-- non-strict reading (used in RESTRICT mode: a restriction guarantees `g ≤ 0`; strictness would need a positive
    LP tolerance that is not absorbed by rounding) -/
def Cmp.weak : Cmp → Cmp
  | .lt => .leq | .gt => .geq | c => c

/-- signs `s` such that the constraint implies `s·g(x) ≤ 0` (false: `+`, true: `−`) -/
def Cmp.signs : Cmp → List Bool
  | .lt => [false] | .leq => [false] | .eq => [false, true] | .geq => [true] | .gt => [true]

/-- the sign `s` such that `s·g(x) ≤ 0` implies the constraint, non-strict reading (none for equalities) -/
def Cmp.rsign : Cmp → Option Bool
  | .lt => some false | .leq => some false | .eq => none | .geq => some true | .gt => some true

/-! ### exact point rules (the property on one point) -/

/-- RELAX: what an exactly feasible point of the box must satisfy -/
def relaxPointOk (rows : List Row) (ret : Int) (x : List Rat) : Bool :=
  ret != -1 && rows.all (·.sat x)

/-- RESTRICT: hypothesis "the point satisfies every generated row" -/
def rowsSat (rows : List Row) (x : List Rat) : Bool := rows.all (·.sat x)

/-! ### first-order expansions -/

/-- what the implementation's public functions return for an expansion point `c`:
    `act[k]` = index of the constraint of line `k`, `gc[k] ∋ g_act[k](c)`, `G[k]` = slope row
    (`none`: the library returned an empty matrix) -/
structure Expansion where
  c : List Rat
  act : List Nat
  gc : List Itv
  G : Option (List (List Itv))
deriving Repr

/-- some point of `bx` is above `c` -/
def canUp (bx : Itv) (c : Rat) : Bool :=
  match bx with
  | .mk _ hi => Ext.lt (.fin c) hi
  | .empty => false

/-- some point of `bx` is below `c` -/
def canDown (bx : Itv) (c : Rat) : Bool :=
  match bx with
  | .mk lo _ => Ext.lt lo (.fin c)
  | .empty => false

/-- RELAX coefficient: `a·(x−c) ≤ s·(x−c)` for every `x ∈ bx`, `s ∈ g` -/
def coefRelax (bx : Itv) (c a : Rat) (g : Itv) : Bool :=
  match g with
  | .empty => false
  | .mk gl gu => (!canUp bx c || Ext.le (.fin a) gl) && (!canDown bx c || Ext.le gu (.fin a))

/-- RESTRICT coefficient: `s·(x−c) ≤ a·(x−c)` for every `x ∈ bx`, `s ∈ g` -/
def coefRestrict (bx : Itv) (c a : Rat) (g : Itv) : Bool :=
  match g with
  | .empty => false
  | .mk gl gu => (!canUp bx c || Ext.le gu (.fin a)) && (!canDown bx c || Ext.le (.fin a) gl)

def coefsAll (p : Itv → Rat → Rat → Itv → Bool) : Box → List Rat → List Rat → List Itv → Bool
  | [], [], [], [] => true
  | bx :: bs, c :: cs, a :: as, g :: gs => p bx c a g && coefsAll p bs cs as gs
  | _, _, _, _ => false

/-- RELAX right-hand side: `b ≥ a·c − lb(gc)` -/
def rhsRelax (a c : List Rat) (gc : Itv) (b : Ext) : Bool :=
  match gc with
  | .mk (.fin l) _ => Ext.le (.fin (dot a c - l)) b
  | _ => b == .pinf

/-- RESTRICT right-hand side: `b ≤ a·c − ub(gc)` -/
def rhsRestrict (a c : List Rat) (gc : Itv) (b : Ext) : Bool :=
  match gc with
  | .mk _ (.fin u) => Ext.le b (.fin (dot a c - u))
  | _ => b == .ninf

def sgn (neg : Bool) (x : Itv) : Itv := if neg then Itv.neg x else x

/-- line `k` of the expansion, seen with sign `neg` -/
def Expansion.line (E : Expansion) (k : Nat) (neg : Bool) : Option (List Itv × Itv) :=
  match E.G with
  | none => none
  | some G =>
    match G[k]?, E.gc[k]? with
    | some g, some v => some (g.map (sgn neg), sgn neg v)
    | _, _ => none

/-- the row `a·x ≤ b` follows (RELAX) from line `k` with sign `neg` -/
def justRelax (box : Box) (E : Expansion) (r : LeRow) (k : Nat) (neg : Bool) : Bool :=
  match E.line k neg with
  | some (g, v) => coefsAll coefRelax box E.c r.a g && rhsRelax r.a E.c v r.b
  | none => false

/-- the row `a·x ≤ b` implies (RESTRICT) `s·g ≤ 0` through line `k` with sign `neg` -/
def justRestrict (box : Box) (E : Expansion) (r : LeRow) (k : Nat) (neg : Bool) : Bool :=
  match E.line k neg with
  | some (g, v) => coefsAll coefRestrict box E.c r.a g && rhsRestrict r.a E.c v r.b
  | none => false

/-- all (line, sign) pairs of an expansion usable in RELAX mode -/
def relaxLines (ops : List Cmp) (E : Expansion) : List (Nat × Bool) :=
  (List.range E.act.length).flatMap fun k =>
    match E.act[k]? with
    | some i => (match ops[i]? with | some op => op.signs.map fun s => (k, s) | none => [])
    | none => []

/-- a fixed row of the system (LinearizerFixed in a composition) at least as strong -/
def fromFixed (fixed : List LeRow) (r : LeRow) : Bool := fixed.any fun f => f.a == r.a && Ext.le f.b r.b

/-- **RELAX certificate for one row** -/
def relaxRowCert (box : Box) (ops : List Cmp) (Es : List Expansion) (fixed : List LeRow) (r : LeRow) : Bool :=
  r.b == .pinf || fromFixed fixed r ||
  Es.any fun E => (relaxLines ops E).any fun ks => justRelax box E r ks.1 ks.2

/-! ### exact range of a linear form over a box -/

/-- infimum of `a·x` over `bx` when it is finite -/
def minTerm (a : Rat) (bx : Itv) : Option Rat :=
  match bx with
  | .empty => none
  | .mk lo hi =>
    if a = 0 then some 0
    else if a > 0 then (match lo with | .fin q => some (a * q) | _ => none)
    else (match hi with | .fin q => some (a * q) | _ => none)

def maxTerm (a : Rat) (bx : Itv) : Option Rat :=
  match bx with
  | .empty => none
  | .mk lo hi =>
    if a = 0 then some 0
    else if a > 0 then (match hi with | .fin q => some (a * q) | _ => none)
    else (match lo with | .fin q => some (a * q) | _ => none)

def minDot : List Rat → Box → Option Rat
  | [], [] => some 0
  | a :: as, bx :: bs =>
    match minTerm a bx, minDot as bs with
    | some t, some r => some (t + r)
    | _, _ => none
  | _, _ => none

def maxDot : List Rat → Box → Option Rat
  | [], [] => some 0
  | a :: as, bx :: bs =>
    match maxTerm a bx, maxDot as bs with
    | some t, some r => some (t + r)
    | _, _ => none
  | _, _ => none

/-! ### the model row (strongest RELAX row / weakest RESTRICT row of an expansion line) -/

def finOf : Ext → Option Rat
  | .fin q => some q
  | _ => none

/-- strongest valid RELAX coefficient -/
def selRelax (bx : Itv) (c : Rat) (g : Itv) : Option Rat :=
  match g with
  | .empty => none
  | .mk gl gu =>
    match canUp bx c, canDown bx c with
    | true, false => finOf gl
    | false, true => finOf gu
    | false, false => some 0
    | true, true => if gl == gu then finOf gl else none

/-- weakest valid RESTRICT coefficient -/
def selRestrict (bx : Itv) (c : Rat) (g : Itv) : Option Rat :=
  match g with
  | .empty => none
  | .mk gl gu =>
    match canUp bx c, canDown bx c with
    | true, false => finOf gu
    | false, true => finOf gl
    | false, false => some 0
    | true, true => if gl == gu then finOf gl else none

def selAll (sel : Itv → Rat → Itv → Option Rat) : Box → List Rat → List Itv → Option (List Rat)
  | [], [], [] => some []
  | bx :: bs, c :: cs, g :: gs =>
    match sel bx c g, selAll sel bs cs gs with
    | some a, some as => some (a :: as)
    | _, _ => none
  | _, _, _ => none

/-- `XTaylor.row` in RELAX mode with an exact right-hand side -/
def modelRowRelax (box : Box) (E : Expansion) (k : Nat) (neg : Bool) : Option LeRow :=
  match E.line k neg with
  | some (g, v) =>
    match selAll selRelax box E.c g, v with
    | some a, .mk (.fin l) _ => some ⟨a, .fin (dot a E.c - l)⟩
    | _, _ => none
  | none => none

/-- `XTaylor.row` in RESTRICT mode with an exact right-hand side (no tolerance) -/
def modelRowRestrict (box : Box) (E : Expansion) (k : Nat) (neg : Bool) : Option LeRow :=
  match E.line k neg with
  | some (g, v) =>
    match selAll selRestrict box E.c g, v with
    | some a, .mk _ (.fin u) => some ⟨a, .fin (dot a E.c - u)⟩
    | _, _ => none
  | none => none

/-- the row is violated by every point of the box -/
def rowUnsat (box : Box) (r : LeRow) : Bool :=
  match minDot r.a box, r.b with
  | some m, .fin b => decide (b < m)
  | some _, .ninf => true
  | _, _ => false

/-- the row holds at every point of the box -/
def rowRedundant (box : Box) (r : LeRow) : Bool :=
  match maxDot r.a box, r.b with
  | some m, .fin b => decide (m ≤ b)
  | _, .pinf => true
  | _, _ => false

/-- **RELAX certificate for a return value −1**: some line of some expansion gives a valid row that
    no point of the box satisfies -/
def unsatCert (box : Box) (ops : List Cmp) (Es : List Expansion) : Bool :=
  Es.any fun E => (relaxLines ops E).any fun ks =>
    match modelRowRelax box E ks.1 ks.2 with
    | some r => rowUnsat box r
    | none => false

/-- **RELAX certificate for one call**: a return value −1 needs an infeasibility certificate, otherwise every
    one-sided row must be justified -/
def relaxCert (box : Box) (ops : List Cmp) (Es : List Expansion) (fixed : List LeRow) (rows : List Row) (ret : Int) : Bool :=
  if ret == -1 then unsatCert box ops Es else (sidesOf rows).all (relaxRowCert box ops Es fixed)

/-! ### RESTRICT certificate -/

/-- the enclosure of `g` over the box proves the constraint on the whole box (non-strict reading) -/
def inactive (op : Cmp) (ev : Itv) : Bool :=
  match ev with
  | .empty => false
  | .mk lo hi =>
    match op with
    | .lt => Ext.le hi (.fin 0) | .leq => Ext.le hi (.fin 0)
    | .geq => Ext.le (.fin 0) lo | .gt => Ext.le (.fin 0) lo
    | .eq => lo == .fin 0 && hi == .fin 0

/-- lines of the expansion that speak about constraint `i` -/
def linesOf (E : Expansion) (i : Nat) : List Nat :=
  (List.range E.act.length).filter fun k => E.act[k]? == some i

/-- constraint `i` holds at every point of the box satisfying the rows -/
def covered (box : Box) (Es : List Expansion) (sides : List LeRow) (evalbox : List Itv) (i : Nat) (op : Cmp) : Bool :=
  (match evalbox[i]? with | some ev => inactive op ev | none => false) ||
  match op.rsign with
  | none => false
  | some neg =>
    Es.any fun E => (linesOf E i).any fun k =>
      sides.any (fun r => justRestrict box E r k neg) ||
      (match modelRowRestrict box E k neg with
       | some r => rowRedundant box r
       | none => false)

def zipIdxAll {α : Type} (l : List α) (p : Nat → α → Bool) : Bool := l.zipIdx.all fun q => p q.2 q.1

/-- **RESTRICT certificate** (for a return value ≠ −1) -/
def restrictCert (box : Box) (ops : List Cmp) (Es : List Expansion) (fixed : List LeRow) (rows : List Row)
    (evalbox : List Itv) : Bool :=
  let sides := sidesOf rows
  zipIdxAll ops (fun i op => covered box Es sides evalbox i op) &&
  fixed.all fun f => sides.any fun r => r.a == f.a && Ext.le r.b f.b

/-- return value of `LinearizerCompo` from those of its two components -/
def compoRet (ret1 ret2 : Int) : Int := if ret1 == -1 then -1 else if ret2 == -1 then -1 else ret1 + ret2

/-! ### LinearizerDuality: rows over `(x, z_0, …, z_{m−1})`, `z_c ∈ (−∞,0]^n` -/

/-- a row in block form: `ax·x + Σ_c az_c·z_c ≤ b` -/
structure DRow where
  ax : List Rat
  az : List (List Rat)
  b : Ext
deriving Repr

def chunks (n : Nat) : Nat → List Rat → List (List Rat)
  | 0, _ => []
  | m + 1, l => l.take n :: chunks n m (l.drop n)

def toDRow (n m : Nat) (r : LeRow) : DRow := ⟨r.a.take n, chunks n m (r.a.drop n), r.b⟩

def isZero (l : List Rat) : Bool := l.all (· == 0)

def unitAt : Nat → Nat → List Rat
  | 0, _ => []
  | n + 1, 0 => 1 :: List.replicate n 0
  | n + 1, j + 1 => 0 :: unitAt n j

/-- all blocks except block `i` vanish -/
def onlyBlock : List (List Rat) → Nat → Bool
  | [], _ => true
  | _ :: rest, 0 => rest.all isZero
  | blk :: rest, i + 1 => isZero blk && onlyBlock rest i

/-- the row ties `z_{i,j}` to `x_j`:  `x_j + z_{i,j} ≤ rb` with `rb ≤ p_j` -/
def tieRow (n : Nat) (r : DRow) (i j : Nat) (pj : Rat) : Bool :=
  r.ax == unitAt n j && onlyBlock r.az i && r.az[i]? == some (unitAt n j) && Ext.le r.b (.fin pj)

/-- coefficient condition of the duality row for variable `j` (`a` on `x_j`, `−d` on `z_{i,j}`) -/
def dualCoef (n : Nat) (rows : List DRow) (i : Nat) (bx : Itv) (p a d : Rat) (g : Itv) (j : Nat) : Bool :=
  match g with
  | .empty => false
  | .mk gl gu =>
    decide (0 ≤ d) &&
    (!canDown bx p || Ext.le (.fin a) gl) &&
    (!canUp bx p || (Ext.le gu (.fin (a + d)) && (d == 0 || (decide (j < n) && rows.any fun r => tieRow n r i j p))))

def dualCoefs (n : Nat) (rows : List DRow) (i : Nat) : Box → List Rat → List Rat → List Rat → List Itv → Nat → Bool
  | [], [], [], [], [], _ => true
  | bx :: bs, p :: ps, a :: as, d :: ds, g :: gs, j =>
    dualCoef n rows i bx p a d g j && dualCoefs n rows i bs ps as ds gs (j + 1)
  | _, _, _, _, _, _ => false

/-- the block row `r` proves constraint `i` (line `k` of the expansion at `p = E.c`) -/
def dualMain (n : Nat) (box : Box) (E : Expansion) (rows : List DRow) (r : DRow) (i k : Nat) : Bool :=
  match E.line k false, r.az[i]? with
  | some (g, v), some blk =>
    onlyBlock r.az i &&
    dualCoefs n rows i box E.c r.ax (blk.map fun q => -q) g 0 &&
    rhsRestrict r.ax E.c v r.b
  | _, _ => false

/-- constraint `i` (`g_i ≤ 0`) is inactive on the box or proved by a block row -/
def dualCovered (n : Nat) (box : Box) (E : Option Expansion) (rows : List DRow) (evalbox : List Itv) (i : Nat) (op : Cmp) : Bool :=
  (match evalbox[i]? with | some ev => inactive op ev | none => false) ||
  (op.rsign == some false &&
    match E with
    | none => false
    | some E => (linesOf E i).any fun k => rows.any fun r => dualMain n box E rows r i k)

/-- **certificate for LinearizerDuality** (return value ≠ −1) -/
def dualCert (n : Nat) (box : Box) (ops : List Cmp) (E : Option Expansion) (rows : List DRow) (evalbox : List Itv) : Bool :=
  zipIdxAll ops fun i op => dualCovered n box E rows evalbox i op

/-- value of the blocks `Σ_c az_c·z_c` -/
def blocksVal : List (List Rat) → List (List Rat) → Rat
  | a :: as, z :: zs => dot a z + blocksVal as zs
  | _, _ => 0

/-- value of a block row at `(x, zs)` -/
def DRow.val (r : DRow) (x : List Rat) (zs : List (List Rat)) : Rat := dot r.ax x + blocksVal r.az zs

end Lin
end Ibex
