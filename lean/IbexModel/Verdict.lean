/-
  Verdicts of the solver on a reported solution (C06): what is claimed about the pair
  (existence box E, unicity box U, variables `vars`) and the executable rules that CERTIFY or REFUTE
  the claim from exact data (certificates of IbexModel/Newton.lean, exactly known rational zeros).
  No Mathlib import.
-/
import IbexModel.Newton
import IbexModel.Cover
namespace Ibex.Verdict
open Ibex

/-- `p` is an exact zero of every equation (exact rational evaluation; the value must be defined) -/
def ratZero (eqs : List (List Dag × Dag)) (p : List Rat) : Bool :=
  eqs.all fun q =>
    match Eval.root Alg.rat p (Eval.buildCalls Alg.rat q.1) q.2 with
    | some v => decide (v.d = [0])
    | none => false

/-- the rational point is in the box -/
def ratIn : List Rat → Box → Bool
  | [], [] => true
  | q :: qs, I :: bs => Itv.containsExt I (.fin q) && ratIn qs bs
  | _, _ => false

/-- the parameters (coordinates outside `vars`) of the rational point are in the box -/
def ratParamsIn (vars : List Nat) (p : List Rat) (b : Box) : Bool :=
  p.length == b.length &&
  (List.range p.length).all fun i => vars.contains i ||
    (match p[i]?, b[i]? with | some q, some I => Itv.containsExt I (.fin q) | _, _ => false)

/-- same parameters -/
def ratSameParams (vars : List Nat) (p q : List Rat) : Bool :=
  p.length == q.length && (List.range p.length).all fun i => vars.contains i || decide (p[i]? = q[i]?)

/-- REFUTATION 1: an exactly known zero `q` lies in the unicity box, has its parameters in the existence
    box, but is not in the existence box -/
def refutedOutside (eqs : List (List Dag × Dag)) (e u : Box) (vars : List Nat) (q : List Rat) : Bool :=
  ratZero eqs q && ratIn q u && !ratIn q e && ratParamsIn vars q e

/-- REFUTATION 2: two different exactly known zeros with the same parameters lie in the existence box -/
def refutedTwo (eqs : List (List Dag × Dag)) (e : Box) (vars : List Nat) (p q : List Rat) : Bool :=
  ratZero eqs p && ratZero eqs q && ratIn p e && ratIn q e && ratSameParams vars p q && decide (p ≠ q)

/-- CERTIFICATE (square systems, a zero is known exactly): the known zero is in the existence box, the
    existence box is inside the unicity box, and the uniqueness certificate holds on the unicity box -/
def certifiedByZero (eqs : List (List Dag × Dag)) (e u : Box) (p : List Rat) : Bool :=
  ratZero eqs p && ratIn p e && Box.subset e u && Newton.uniqueCert eqs u && e.length == u.length

/-- all the refutation rules over a list of exactly known zeros -/
def refuted (eqs : List (List Dag × Dag)) (e u : Box) (vars : List Nat) (zs : List (List Rat)) : Bool :=
  zs.any (fun q => refutedOutside eqs e u vars q) ||
  zs.any (fun p => zs.any fun q => refutedTwo eqs e vars p q)

/-! ### certificates without a known zero -/

/-- degenerate finite interval -/
def isPoint : Itv → Bool
  | .mk (.fin a) (.fin b) => a == b
  | _ => false

def pointConstsDag (d : Dag) : Bool :=
  d.toList.all fun n => match n.k with | .const vs => vs.all isPoint | _ => true

/-- no interval ("thick") constant in the system: its real semantics is a function -/
def pointConsts (progs : List (List Dag × Dag)) : Bool :=
  progs.all fun p => p.1.all pointConstsDag && pointConstsDag p.2

/-- CERTIFICATE (any system): existence certificate (Krawczyk test) on a box `x` with `x ⊆ e` that has the
    parameter ranges of `e`, uniqueness certificate on `u`, `e ⊆ u` -/
def certifiedBy (eqs : List (List Dag × Dag)) (e u : Box) (vars : List Nat) (x : Box) : Bool :=
  pointConsts eqs && Newton.existCertVars eqs x vars && Box.subset x e && Box.subset e u &&
  Newton.uniqueCertVars eqs u vars && x.length == e.length &&
  ((List.range e.length).all fun i => vars.contains i ||
    (match x[i]?, e[i]? with | some a, some b => Itv.subset b a | _, _ => false))

/-- candidate boxes for the existence certificate: `e` itself and `e` shrunk around its midpoint on the
    variables `vars` by the factors 1/2, 1/4, ... (an untrusted search; each candidate is checked) -/
def shrink (e : Box) (vars : List Nat) (k : Nat) : Box :=
  e.zipIdx.map fun (q : Itv × Nat) =>
    if vars.contains q.2 then
      match q.1 with
      | .mk (.fin a) (.fin b) =>
        let m := (a + b) / 2
        let r := (b - a) / 2 / (2 ^ k : Nat)
        .mk (.fin (m - r)) (.fin (m + r))
      | I => I
    else q.1

def findCert (eqs : List (List Dag × Dag)) (e u : Box) (vars : List Nat) (tries : Nat) : Option Nat :=
  (List.range tries).find? fun k => certifiedBy eqs e u vars (shrink e vars k)

/-! ### Newton contractions, feasibility claims (C09) -/

/-- interval evaluation of one equation over the box excludes 0 (or the expression is nowhere defined) -/
def exclZero (eqs : List (List Dag × Dag)) (b : Box) : Bool :=
  eqs.any fun q =>
    match Eval.root Alg.itv b (Eval.buildCalls Alg.itv q.1) q.2 with
    | some v => v.d.any fun I => !Itv.containsExt I (.fin 0)
    | none => false

def widthQ : Itv → Option Rat
  | .mk (.fin a) (.fin b) => some (b - a)
  | _ => none

/-- split the box at the midpoint of its widest (bounded) coordinate -/
def splitMid (b : Box) : Option (Box × Box) :=
  let best := b.zipIdx.foldl (fun (acc : Option (Nat × Rat)) (q : Itv × Nat) =>
    match widthQ q.1 with
    | none => acc
    | some w => match acc with
      | none => some (q.2, w)
      | some (_, w0) => if w > w0 then some (q.2, w) else acc) none
  match best with
  | none => none
  | some (i, w) =>
    if w ≤ 0 then none else
    match b[i]? with
    | some (.mk (.fin lo) (.fin hi)) =>
      let m := (lo + hi) / 2
      some (b.set i (.mk (.fin lo) (.fin m)), b.set i (.mk (.fin m) (.fin hi)))
    | _ => none

/-- REFUTATION of "the box contains a zero": by interval evaluation on a subdivision of depth ≤ d -/
def noZero (eqs : List (List Dag × Dag)) : Nat → Box → Bool
  | 0, b => exclZero eqs b
  | d + 1, b => exclZero eqs b ||
    (match splitMid b with
     | some (l, r) => Cover.split2Ok b l r && noZero eqs d l && noZero eqs d r
     | none => false)

/-- a contraction `i ↦ o` lost the exactly known zero `z` -/
def lostZero (eqs : List (List Dag × Dag)) (i o : Box) (z : List Rat) : Bool :=
  ratZero eqs z && ratIn z i && !ratIn z o

/-- CERTIFICATE that a contraction of a square system kept ALL the zeros of the box: at most one zero in the
    input box (uniqueness certificate) and it is known exactly and still in the output box -/
def keptAllBy (eqs : List (List Dag × Dag)) (i o : Box) (z : List Rat) : Bool :=
  Newton.uniqueCert eqs i && ratZero eqs z && ratIn z i && ratIn z o

/-- CERTIFICATE that the box `s` contains a zero: the Krawczyk certificate on a sub-box `x` (`w`: any point of `x`,
    it fixes the parameters) -/
def hasZeroBy (eqs : List (List Dag × Dag)) (s x : Box) (vars : List Nat) (w : List Rat) : Bool :=
  pointConsts eqs && Box.subset x s && Newton.existCertVars eqs x vars && ratIn w x

/-- the midpoint of a box (any point when a component is unbounded) -/
def midPoint (b : Box) : List Rat :=
  b.map fun I => match I with
    | .mk (.fin a) (.fin c) => (a + c) / 2
    | .mk (.fin a) _ => a
    | .mk _ (.fin c) => c
    | _ => 0

/-- the box `e` with the parameters (coordinates outside `vars`) fixed to those of the rational point `w` -/
def slice (e : Box) (vars : List Nat) (w : List Rat) : Box :=
  e.zipIdx.map fun (q : Itv × Nat) =>
    if vars.contains q.2 then q.1 else match w[q.2]? with | some t => Itv.point t | none => q.1

/-- REFUTATION 3: for the parameter value of `w` (inside the existence box) the existence box contains no zero:
    interval exclusion on a verified subdivision of the slice -/
def refutedSlice (eqs : List (List Dag × Dag)) (e : Box) (vars : List Nat) (w : List Rat) (depth : Nat) : Bool :=
  ratParamsIn vars w e && noZero eqs depth (slice e vars w)

/-! ### existence for every parameter value, by subdivision of the parameter ranges -/

/-- the box with its coordinate `i` replaced by `J` -/
def setAt (e : Box) (i : Nat) (J : Itv) : Box :=
  e.zipIdx.map fun (q : Itv × Nat) => if q.2 == i then J else q.1

/-- the widest bounded parameter coordinate (not in `vars`) with its bounds -/
def widestParam (e : Box) (vars : List Nat) : Option (Nat × Rat × Rat) :=
  e.zipIdx.foldl (fun (acc : Option (Nat × Rat × Rat)) (q : Itv × Nat) =>
    if vars.contains q.2 then acc else
    match q.1 with
    | .mk (.fin a) (.fin b) =>
      if b ≤ a then acc else
      (match acc with
       | none => some (q.2, a, b)
       | some (_, a0, b0) => if b - a > b0 - a0 then some (q.2, a, b) else acc)
    | _ => acc) none

/-- existence certificate on the box, or on both halves of the box cut at the middle of a parameter range
    (recursively, depth ≤ d) -/
def existSplit (eqs : List (List Dag × Dag)) (vars : List Nat) : Nat → Box → Bool
  | 0, e => Newton.existCertVars eqs e vars
  | d + 1, e => Newton.existCertVars eqs e vars ||
    (match widestParam e vars with
     | some (i, a, b) =>
       !vars.contains i && decide (a ≤ b) && decide (e[i]? = some (.mk (.fin a) (.fin b))) &&
       existSplit eqs vars d (setAt e i (.mk (.fin a) (.fin ((a + b) / 2)))) &&
       existSplit eqs vars d (setAt e i (.mk (.fin ((a + b) / 2)) (.fin b)))
     | none => false)

/-- CERTIFICATE (under-constrained systems): existence for every parameter value of `e` by subdivision of the
    parameter ranges, uniqueness certificate on `u`, `e ⊆ u` -/
def certifiedSplit (eqs : List (List Dag × Dag)) (e u : Box) (vars : List Nat) (depth : Nat) : Bool :=
  pointConsts eqs && existSplit eqs vars depth e && Box.subset e u && Newton.uniqueCertVars eqs u vars

/-! ### inner boxes refuted by an exactly evaluated point -/

/-- the exact value `v` of a constraint violates the sign condition `spec` (some component does) -/
def specViolated (spec : String) (v : Mat Rat) : Bool :=
  if spec == "leq" then v.d.any (fun q => decide (0 < q))
  else if spec == "lt" then v.d.any (fun q => decide (0 ≤ q))
  else if spec == "geq" then v.d.any (fun q => decide (q < 0))
  else if spec == "gt" then v.d.any (fun q => decide (q ≤ 0))
  else false

/-- REFUTATION of "the box is inner": the rational point `p` of the box violates a constraint -/
def innerRefutedBy (cs : List ((List Dag × Dag) × String)) (b : Box) (p : List Rat) : Bool :=
  ratIn p b && cs.any fun x =>
    match Eval.root Alg.rat p (Eval.buildCalls Alg.rat x.1.1) x.1.2 with
    | some v => specViolated x.2 v
    | none => false

/-! ### the certificates evaluated with EXACT rational interval arithmetic

  The rules above evaluate the Krawczyk / regularity tests with outward-rounded binary64 interval arithmetic;
  on the existence boxes reported by the library (a few ulps wide) the rounding errors of the test are as large
  as the box and the true claim stays undecided.  The rules below use `Newton.existCertVarsX` /
  `Newton.uniqueCertVarsX` (exact rational interval arithmetic, IbexModel/Newton.lean): the test is sharp.
  Soundness: IbexProofs/Props/C06.lean (`claim_of_certifiedByX`, `claim_of_findCertX`), C09rules.lean
  (`hasZeroByX_sound`, `keptAllByX_sound`). -/

/-- CERTIFICATE (any system), exact arithmetic: `certifiedBy` with the exact existence and uniqueness
    certificates -/
def certifiedByX (eqs : List (List Dag × Dag)) (e u : Box) (vars : List Nat) (x : Box) : Bool :=
  pointConsts eqs && Newton.existCertVarsX eqs x vars && Box.subset x e && Box.subset e u &&
  Newton.uniqueCertVarsX eqs u vars && x.length == e.length &&
  ((List.range e.length).all fun i => vars.contains i ||
    (match x[i]?, e[i]? with | some a, some b => Itv.subset b a | _, _ => false))

/-- `findCert` with the exact certificates -/
def findCertX (eqs : List (List Dag × Dag)) (e u : Box) (vars : List Nat) (tries : Nat) : Option Nat :=
  (List.range tries).find? fun k => certifiedByX eqs e u vars (shrink e vars k)

/-- square systems, a zero known exactly: `certifiedByZero` with the exact uniqueness certificate -/
def certifiedByZeroX (eqs : List (List Dag × Dag)) (e u : Box) (p : List Rat) : Bool :=
  ratZero eqs p && ratIn p e && Box.subset e u && Newton.uniqueCertX eqs u && e.length == u.length

/-- CERTIFICATE that the box `s` contains a zero: the exact Krawczyk certificate on a sub-box `x`
    (`w`: any point of `x`, it fixes the parameters) -/
def hasZeroByX (eqs : List (List Dag × Dag)) (s x : Box) (vars : List Nat) (w : List Rat) : Bool :=
  pointConsts eqs && Box.subset x s && Newton.existCertVarsX eqs x vars && ratIn w x

/-- CERTIFICATE that a contraction of a square system kept ALL the zeros of the box: exact uniqueness
    certificate on the input box (all the coordinates are variables), and the zero is known exactly and still
    in the output box -/
def keptAllByX (eqs : List (List Dag × Dag)) (i o : Box) (z : List Rat) : Bool :=
  Newton.uniqueCertVarsX eqs i (List.range i.length) && ratZero eqs z && ratIn z i && ratIn z o

/-- `existSplit` with the exact existence certificate -/
def existSplitX (eqs : List (List Dag × Dag)) (vars : List Nat) : Nat → Box → Bool
  | 0, e => Newton.existCertVarsX eqs e vars
  | d + 1, e => Newton.existCertVarsX eqs e vars ||
    (match widestParam e vars with
     | some (i, a, b) =>
       !vars.contains i && decide (a ≤ b) && decide (e[i]? = some (.mk (.fin a) (.fin b))) &&
       existSplitX eqs vars d (setAt e i (.mk (.fin a) (.fin ((a + b) / 2)))) &&
       existSplitX eqs vars d (setAt e i (.mk (.fin ((a + b) / 2)) (.fin b)))
     | none => false)

/-- `certifiedSplit` with the exact certificates -/
def certifiedSplitX (eqs : List (List Dag × Dag)) (e u : Box) (vars : List Nat) (depth : Nat) : Bool :=
  pointConsts eqs && existSplitX eqs vars depth e && Box.subset e u && Newton.uniqueCertVarsX eqs u vars


/-! ### inner boxes proved with exact interval arithmetic -/

/-- the constraint is proved on the box by EXACT interval evaluation (no rounding: the bound is sharp when every
    variable occurs once; never looser than any outward-rounded evaluation of the same expression) -/
def provedOnBoxX (funs : List Dag) (dag : Dag) (spec : String) (box : Box) : Bool :=
  match Eval.root Alg.itvX box (Eval.buildCalls Alg.itvX funs) dag with
  | some v => v.d.all (Cover.signProved spec)
  | none => false

def innerOkX (cs : List ((List Dag × Dag) × String)) (box : Box) : Bool :=
  cs.all fun x => provedOnBoxX x.1.1 x.1.2 x.2 box

end Ibex.Verdict
