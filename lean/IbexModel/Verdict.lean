/-
  Verdicts of the solver on a reported solution (C06): what is claimed about the pair
  (existence box E, unicity box U, variables `vars`) and the executable rules that CERTIFY or REFUTE
  the claim from exact data (certificates of IbexModel/Newton.lean, exactly known rational zeros).
  No Mathlib import.
-/
import IbexModel.Newton
import IbexModel.Cover
namespace Ibex.Verdict
open Ibex

/-- `p` is an exact zero of every equation (exact rational evaluation; the value must be defined) -/
def ratZero (eqs : List (List Dag × Dag)) (p : List Rat) : Bool :=
  eqs.all fun q =>
    match Eval.root Alg.rat p (Eval.buildCalls Alg.rat q.1) q.2 with
    | some v => decide (v.d = [0])
    | none => false

/-- the rational point is in the box -/
def ratIn : List Rat → Box → Bool
  | [], [] => true
  | q :: qs, I :: bs => Itv.containsExt I (.fin q) && ratIn qs bs
  | _, _ => false

/-- the parameters (coordinates outside `vars`) of the rational point are in the box -/
def ratParamsIn (vars : List Nat) (p : List Rat) (b : Box) : Bool :=
  p.length == b.length &&
  (List.range p.length).all fun i => vars.contains i ||
    (match p[i]?, b[i]? with | some q, some I => Itv.containsExt I (.fin q) | _, _ => false)

/-- same parameters -/
def ratSameParams (vars : List Nat) (p q : List Rat) : Bool :=
  p.length == q.length && (List.range p.length).all fun i => vars.contains i || decide (p[i]? = q[i]?)

/-- REFUTATION 1: an exactly known zero `q` lies in the unicity box, has its parameters in the existence
    box, but is not in the existence box -/
def refutedOutside (eqs : List (List Dag × Dag)) (e u : Box) (vars : List Nat) (q : List Rat) : Bool :=
  ratZero eqs q && ratIn q u && !ratIn q e && ratParamsIn vars q e

/-- REFUTATION 2: two different exactly known zeros with the same parameters lie in the existence box -/
def refutedTwo (eqs : List (List Dag × Dag)) (e : Box) (vars : List Nat) (p q : List Rat) : Bool :=
  ratZero eqs p && ratZero eqs q && ratIn p e && ratIn q e && ratSameParams vars p q && decide (p ≠ q)

/-- CERTIFICATE (square systems, a zero is known exactly): the known zero is in the existence box, the
    existence box is inside the unicity box, and the uniqueness certificate holds on the unicity box -/
def certifiedByZero (eqs : List (List Dag × Dag)) (e u : Box) (p : List Rat) : Bool :=
  ratZero eqs p && ratIn p e && Box.subset e u && Newton.uniqueCert eqs u && e.length == u.length

/-- all the refutation rules over a list of exactly known zeros -/
def refuted (eqs : List (List Dag × Dag)) (e u : Box) (vars : List Nat) (zs : List (List Rat)) : Bool :=
  zs.any (fun q => refutedOutside eqs e u vars q) ||
  zs.any (fun p => zs.any fun q => refutedTwo eqs e vars p q)

/-! ### certificates without a known zero -/

/-- degenerate finite interval -/
def isPoint : Itv → Bool
  | .mk (.fin a) (.fin b) => a == b
  | _ => false

def pointConstsDag (d : Dag) : Bool :=
  d.toList.all fun n => match n.k with | .const vs => vs.all isPoint | _ => true

/-- no interval ("thick") constant in the system: its real semantics is a function -/
def pointConsts (progs : List (List Dag × Dag)) : Bool :=
  progs.all fun p => p.1.all pointConstsDag && pointConstsDag p.2

/-- CERTIFICATE (any system): existence certificate (Krawczyk test) on a box `x` with `x ⊆ e` that has the
    parameter ranges of `e`, uniqueness certificate on `u`, `e ⊆ u` -/
def certifiedBy (eqs : List (List Dag × Dag)) (e u : Box) (vars : List Nat) (x : Box) : Bool :=
  pointConsts eqs && Newton.existCertVars eqs x vars && Box.subset x e && Box.subset e u &&
  Newton.uniqueCertVars eqs u vars && x.length == e.length &&
  ((List.range e.length).all fun i => vars.contains i ||
    (match x[i]?, e[i]? with | some a, some b => Itv.subset b a | _, _ => false))

/-- candidate boxes for the existence certificate: `e` itself and `e` shrunk around its midpoint on the
    variables `vars` by the factors 1/2, 1/4, ... (an untrusted search; each candidate is checked) -/
def shrink (e : Box) (vars : List Nat) (k : Nat) : Box :=
  e.zipIdx.map fun (q : Itv × Nat) =>
    if vars.contains q.2 then
      match q.1 with
      | .mk (.fin a) (.fin b) =>
        let m := (a + b) / 2
        let r := (b - a) / 2 / (2 ^ k : Nat)
        .mk (.fin (m - r)) (.fin (m + r))
      | I => I
    else q.1

def findCert (eqs : List (List Dag × Dag)) (e u : Box) (vars : List Nat) (tries : Nat) : Option Nat :=
  (List.range tries).find? fun k => certifiedBy eqs e u vars (shrink e vars k)

end Ibex.Verdict
