/-
  Verdicts of the solver on a reported solution (C06): what is claimed about the pair
  (existence box E, unicity box U, variables `vars`) and the executable rules that CERTIFY or REFUTE
  the claim from exact data (certificates of IbexModel/Newton.lean, exactly known rational zeros).
  No Mathlib import.
-/
import IbexModel.Newton
import IbexModel.Cover
namespace Ibex.Verdict
open Ibex

/-- `p` is an exact zero of every equation (exact rational evaluation; the value must be defined) -/
def ratZero (eqs : List (List Dag × Dag)) (p : List Rat) : Bool :=
  eqs.all fun q =>
    match Eval.root Alg.rat p (Eval.buildCalls Alg.rat q.1) q.2 with
    | some v => decide (v.d = [0])
    | none => false

/-- the rational point is in the box -/
def ratIn : List Rat → Box → Bool
  | [], [] => true
  | q :: qs, I :: bs => Itv.containsExt I (.fin q) && ratIn qs bs
  | _, _ => false

/-- the parameters (coordinates outside `vars`) of the rational point are in the box -/
def ratParamsIn (vars : List Nat) (p : List Rat) (b : Box) : Bool :=
  p.length == b.length &&
  (List.range p.length).all fun i => vars.contains i ||
    (match p[i]?, b[i]? with | some q, some I => Itv.containsExt I (.fin q) | _, _ => false)

/-- same parameters -/
def ratSameParams (vars : List Nat) (p q : List Rat) : Bool :=
  p.length == q.length && (List.range p.length).all fun i => vars.contains i || decide (p[i]? = q[i]?)

/-- REFUTATION 1: an exactly known zero `q` lies in the unicity box, has its parameters in the existence
    box, but is not in the existence box -/
def refutedOutside (eqs : List (List Dag × Dag)) (e u : Box) (vars : List Nat) (q : List Rat) : Bool :=
  ratZero eqs q && ratIn q u && !ratIn q e && ratParamsIn vars q e

/-- REFUTATION 2: two different exactly known zeros with the same parameters lie in the existence box -/
def refutedTwo (eqs : List (List Dag × Dag)) (e : Box) (vars : List Nat) (p q : List Rat) : Bool :=
  ratZero eqs p && ratZero eqs q && ratIn p e && ratIn q e && ratSameParams vars p q && decide (p ≠ q)

/-- CERTIFICATE (square systems, a zero is known exactly): the known zero is in the existence box, the
    existence box is inside the unicity box, and the uniqueness certificate holds on the unicity box -/
def certifiedByZero (eqs : List (List Dag × Dag)) (e u : Box) (p : List Rat) : Bool :=
  ratZero eqs p && ratIn p e && Box.subset e u && Newton.uniqueCert eqs u && e.length == u.length

/-- all the refutation rules over a list of exactly known zeros -/
def refuted (eqs : List (List Dag × Dag)) (e u : Box) (vars : List Nat) (zs : List (List Rat)) : Bool :=
  zs.any (fun q => refutedOutside eqs e u vars q) ||
  zs.any (fun p => zs.any fun q => refutedTwo eqs e vars p q)

end Ibex.Verdict
