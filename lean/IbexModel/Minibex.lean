/-
  C10 — Minibex text / serialisation.  Model side (no Mathlib import):

  * `EvalG`     : a generic DAG evaluator, parameterised by an arbitrary *node semantics*
                  `sem : shape → argument values → value` (so that EVERY operator — also `atan2`,
                  user-defined operators … — has a meaning), and `semOf`, the instance that
                  reproduces `Eval.run` of `IbexModel/Expr.lean`.
  * `Dag.sameTree` : verified structural comparison of two DAGs *up to sharing* (the unfolded
                  trees are equal node by node, constants compared exactly).  An unverified
                  hash-consing pass (`buildCert`) proposes a classification of the nodes of both
                  DAGs; the verified checker `checkCert` validates it node-locally in linear time.
  * `evalU`     : exact rational point evaluation with the non-rational operators interpreted as
                  fixed pseudo-random rational functions of their (evaluated) arguments: equal
                  meanings give equal values, different meanings differ almost surely
                  (failing-input search; no theorem).
  * `cmpExpr`, `cmpFlat` : the acceptance cascade of the driver (structure / normal form / points).
  * hexadecimal constants: `printHex`, `readHex`, `printDbl`, `readDbl` — model of
                  `ExprPrinter::print_dbl` (`'#' << std::hex << bits`) and of the lexer rule
                  `#[0-9a-fA-F]+` (`strtoll`/`strtoull`, base 16, saturating).
  * operator keywords: `relexes` — a keyword printed by the serialiser is lexed back to a token
                  whose grammar rule builds the same operator (tables in `IbexGen/Tokens.lean`,
                  regenerated from the sources by `translate/tokens.py`).
-/
import IbexModel.RatFun
namespace Ibex

deriving instance DecidableEq for NodeK
deriving instance DecidableEq for Node

namespace NodeK

/-- the argument nodes, in order -/
def args : NodeK → List Nat
  | .var _ => []
  | .const _ => []
  | .un _ a => [a]
  | .bin _ a b => [a, b]
  | .pow a _ => [a]
  | .idx a _ _ _ _ => [a]
  | .vec _ as => as
  | .chi a b c => [a, b, c]
  | .apply _ as => as

/-- the same operator on other argument nodes (unchanged if the list has the wrong length) -/
def withArgs : NodeK → List Nat → NodeK
  | .un op _, [a] => .un op a
  | .bin op _ _, [a, b] => .bin op a b
  | .pow _ n, [a] => .pow a n
  | .idx _ r1 r2 c1 c2, [a] => .idx a r1 r2 c1 c2
  | .vec row _, as => .vec row as
  | .chi _ _ _, [a, b, c] => .chi a b c
  | .apply f _, as => .apply f as
  | k, _ => k

end NodeK

/-- the *shape* of a node: operator, parameters, constants and dimensions — argument indices erased -/
def Node.shape (n : Node) : Node := ⟨n.k.withArgs (n.k.args.map fun _ => 0), n.r, n.c⟩

/-! ### generic evaluation -/
namespace EvalG
variable {α : Type}

/-- one step: the values of the arguments must already be available -/
def step (sem : Node → List (Mat α) → Option (Mat α)) (vals : Array (Mat α)) (n : Node) :
    Option (Array (Mat α)) :=
  (n.k.args.mapM fun i => vals[i]?).bind fun ms => (sem n.shape ms).map vals.push

def run (sem : Node → List (Mat α) → Option (Mat α)) (dag : Dag) : Option (Array (Mat α)) :=
  dag.toList.foldlM (step sem) #[]

def root (sem : Node → List (Mat α) → Option (Mat α)) (dag : Dag) : Option (Mat α) :=
  (run sem dag).bind fun vals => vals.back?

/-- dimension test of `Eval.run` -/
def dimOk (sh : Node) (v : Mat α) : Option (Mat α) := if v.r == sh.r && v.c == sh.c then some v else none

/-- the node semantics of `Eval.run A env call` -/
def semOf (A : Alg α) (env : List α) (call : Nat → List (Mat α) → Option (Mat α)) (sh : Node)
    (ms : List (Mat α)) : Option (Mat α) :=
  (match sh.k, ms with
    | .vec row _, ms => Eval.vecVal row ms
    | .apply f _, ms => call f ms
    | .un op _, [a] => Eval.nodeVal A env call #[a] ⟨.un op 0, sh.r, sh.c⟩
    | .bin op _ _, [a, b] => Eval.nodeVal A env call #[a, b] ⟨.bin op 0 1, sh.r, sh.c⟩
    | .pow _ k, [a] => Eval.nodeVal A env call #[a] ⟨.pow 0 k, sh.r, sh.c⟩
    | .idx _ r1 r2 c1 c2, [a] => Eval.nodeVal A env call #[a] ⟨.idx 0 r1 r2 c1 c2, sh.r, sh.c⟩
    | .chi _ _ _, [a, b, c] => Eval.nodeVal A env call #[a, b, c] ⟨.chi 0 1 2, sh.r, sh.c⟩
    | .var off, [] => Eval.nodeVal A env call #[] ⟨.var off, sh.r, sh.c⟩
    | .const vs, [] => Eval.nodeVal A env call #[] ⟨.const vs, sh.r, sh.c⟩
    | _, _ => none).bind (dimOk sh)

end EvalG

/-! ### structural comparison up to sharing -/

/-- certificate: a class for every node of the two DAGs, and for every class its shape and the
    classes of its arguments -/
structure TreeCert where
  c1 : Array Nat
  c2 : Array Nat
  rep : Array (Node × List Nat)

namespace TreeCert

/-- node `i` of `d` (class array `c`) is an instance of its class: same shape, arguments earlier
    in the DAG and of the prescribed classes, which are smaller than its own -/
def nodeOk (d : Dag) (c : Array Nat) (rep : Array (Node × List Nat)) (i : Nat) : Bool :=
  match d[i]?, c[i]? with
  | some n, some k =>
    match rep[k]? with
    | some (sh, cc) =>
      decide (n.shape = sh) && decide ((n.k.args.map fun a => c[a]?) = cc.map some) &&
      n.k.args.all (fun a => decide (a < i)) && cc.all (fun q => decide (q < k))
    | none => false
  | _, _ => false

def check (d1 d2 : Dag) (t : TreeCert) : Bool :=
  (List.range d1.size).all (nodeOk d1 t.c1 t.rep) && (List.range d2.size).all (nodeOk d2 t.c2 t.rep) &&
  decide (0 < d1.size) && decide (0 < d2.size) &&
  (match t.c1[d1.size - 1]?, t.c2[d2.size - 1]? with
   | some a, some b => a == b
   | _, _ => false)

end TreeCert

/-! hash-consing (unverified helper: its output is validated by `TreeCert.check`).  A trie over
    structural keys — no hashing, so that the kernel can evaluate it on the examples. -/

inductive KeyTok where
  | n (x : Nat)
  | i (x : Int)
  | s (x : String)
deriving DecidableEq

inductive Trie where
  | node (val : Option Nat) (kids : List (KeyTok × Trie))

def Trie.empty : Trie := .node none []

def Trie.find : Trie → List KeyTok → Option Nat
  | .node v _, [] => v
  | .node _ kids, k :: ks =>
    match kids.find? (fun p => p.1 == k) with
    | some p => p.2.find ks
    | none => none

def Trie.insert : Trie → List KeyTok → Nat → Trie
  | .node _ kids, [], x => .node (some x) kids
  | .node v kids, k :: ks, x =>
    if kids.any (fun p => p.1 == k) then
      .node v (kids.map fun p => if p.1 == k then (p.1, p.2.insert ks x) else p)
    else .node v ((k, Trie.empty.insert ks x) :: kids)

def extKey : Ext → List KeyTok
  | .ninf => [.n 0]
  | .pinf => [.n 2]
  | .fin q => [.n 1, .i q.num, .n q.den]

def itvKey : Itv → List KeyTok
  | .empty => [.n 0]
  | .mk a b => .n 1 :: extKey a ++ extKey b

/-- key of a node: dimensions, operator with its parameters / constants, classes of the arguments -/
def nodeKey (n : Node) (cc : List Nat) : List KeyTok :=
  [.n n.r, .n n.c] ++
  (match n.k with
    | .var off => [.n 0, .n off]
    | .const vs => .n 1 :: .n vs.length :: vs.flatMap itvKey
    | .un op _ => [.n 2, .s op]
    | .bin op _ _ => [.n 3, .s op]
    | .pow _ e => [.n 4, .i e]
    | .idx _ r1 r2 c1 c2 => [.n 5, .n r1, .n r2, .n c1, .n c2]
    | .vec row _ => [.n 6, .n (if row then 1 else 0)]
    | .chi _ _ _ => [.n 7]
    | .apply f _ => [.n 8, .n f]) ++ cc.map .n

/-- classification of the nodes of one DAG, continuing the table `st` -/
def classify (st : Trie × Array (Node × List Nat)) (d : Dag) :
    (Trie × Array (Node × List Nat)) × Array Nat :=
  d.foldl (fun (acc : (Trie × Array (Node × List Nat)) × Array Nat) n =>
    let cc := n.k.args.map fun a => acc.2[a]?.getD 0
    let key := nodeKey n cc
    match acc.1.1.find key with
    | some k => (acc.1, acc.2.push k)
    | none => ((acc.1.1.insert key acc.1.2.size, acc.1.2.push (n.shape, cc)), acc.2.push acc.1.2.size)) (st, #[])

/-- hash-consing of the two DAGs into one table of classes -/
def buildCert (d1 d2 : Dag) : TreeCert :=
  let r1 := classify (Trie.empty, #[]) d1
  let r2 := classify r1.1 d2
  ⟨r1.2, r2.2, r2.1.2⟩

/-- the two DAGs unfold to the same tree (same operators, parameters, dimensions and constants at
    every position), whatever their sharing.  Sound for every node semantics: `sameTree_sound`. -/
def Dag.sameTree (d1 d2 : Dag) : Bool := TreeCert.check d1 d2 (buildCert d1 d2)

/-! ### points with uninterpreted operators -/
namespace Minibex

def strHash (s : String) : Nat := s.toList.foldl (fun h c => (h * 31 + c.toNat) % 1000003) 7

/-- a fixed total rational function standing for the unary operator `op` -/
def unU (op : String) (x : Rat) : Rat :=
  let h := strHash op
  (((h % 7 + 2 : Nat) : Rat) * x + ((h % 5 + 1 : Nat) : Rat)) / (x * x + ((h % 3 + 1 : Nat) : Rat))

/-- a fixed total rational function standing for the binary operator `op` -/
def binU (op : String) (x y : Rat) : Rat :=
  let h := strHash op
  (((h % 7 + 2 : Nat) : Rat) * x + ((h % 5 + 3 : Nat) : Rat) * y + 1) / (x * x + y * y + ((h % 3 + 1 : Nat) : Rat))

/-- `Alg.rat` where every unary operator it does not know is a fixed rational function
    (`sqrt` keeps its exact value on perfect squares) -/
def repPoint : Itv → Option Rat
  | .mk (.fin a) (.fin b) => some ((a + b) / 2)
  | .mk .ninf (.fin b) => some (b - 1)
  | .mk (.fin a) .pinf => some (a + 1)
  | .mk .ninf .pinf => some 0
  | _ => none

def ratU : Alg Rat :=
  { Alg.rat with
    ofItv := repPoint
    -- division and negative powers are extended to TOTAL functions (a fixed value at the poles):
    -- two expressions with the same meaning still get the same value, and expressions that are
    -- undefined at every sample point (x/(y-y)) can be compared
    div := fun a b => if b = 0 then some (a * 7) else some (a / b)   -- (linear in `a`: `-c/e` re-read `-(c/e)` stays equal)
    pow := fun a n => match ratPow a n with
      | some v => some v
      | none => some (unU "pow" a)
    un := fun op => match Alg.rat.un op with
      | some f => if op == "sqrt" then some fun x => some ((ratSqrt? x).getD (unU op x)) else some f
      | none => some fun x => some (unU op x) }

def isRatBin (op : String) : Bool :=
  op == "add" || op == "sub" || op == "mul" || op == "div" || op == "max" || op == "min"

/-- node semantics for `evalU` -/
def semU (env : List Rat) (call : Nat → List (Mat Rat) → Option (Mat Rat)) (sh : Node)
    (ms : List (Mat Rat)) : Option (Mat Rat) :=
  match sh.k, ms with
  | .bin op _ _, [a, b] =>
    if isRatBin op then EvalG.semOf ratU env call sh ms
    else match a.d, b.d with
      | [x], [y] => some (Mat.scalar (binU op x y))
      | _, _ => none
  | _, _ => EvalG.semOf ratU env call sh ms

def callsU (funs : List Dag) : Nat → List (Mat Rat) → Option (Mat Rat) :=
  (funs.zipIdx).foldl
    (fun (tbl : Nat → List (Mat Rat) → Option (Mat Rat)) (p : Dag × Nat) =>
      fun i args => if i == p.2 then EvalG.root (semU (args.flatMap (·.d)) tbl) p.1 else tbl i args)
    (fun _ _ => none)

/-- exact evaluation at a rational point, non-rational operators uninterpreted -/
def evalU (funs : List Dag) (dag : Dag) (p : List Rat) : Option (Mat Rat) :=
  EvalG.root (semU p (callsU funs)) dag

/-! ### acceptance cascade -/

abbrev Prog := List Dag × Dag

inductive Level where
  | tree        -- same unfolded tree: equal in every algebra (`sameTree_sound`)
  | nf          -- equal rational-function normal forms: equal at every real point (`C11.check_sound`)
  | points      -- equal exact values at the sample points (rational + abs max min sign chi floor ceil)
  | upoints     -- equal at the sample points with non-rational operators uninterpreted
  | thick       -- (assigned by the driver, never by `cmpExpr` / `cmpFlat`) undecided AND thick (interval) constants on one side:
                --   a comparison through the midpoints of thick constants refutes nothing (the library may legitimately fold
                --   `max(max(-0.875,[-1.06,21.4]),11.5)` into `[11.5,21.4]`), so this is counted, not reported
  | undecided   -- nothing could be evaluated
deriving DecidableEq, Repr

def Level.tag : Level → String
  | .tree => "same-tree"
  | .nf => "identical-normal-form"
  | .points => "same-at-exact-points"
  | .upoints => "same-at-uninterpreted-points"
  | .thick => "undecided-thick-constants"
  | .undecided => "undecided"

def Level.rank : Level → Nat
  | .tree => 0 | .nf => 1 | .points => 2 | .upoints => 3 | .thick => 4 | .undecided => 5

def Level.weakest (a b : Level) : Level := if a.rank ≤ b.rank then b else a

inductive Verdict where
  | ok (l : Level)
  | fail (why : String)
deriving Repr

def rootDims (p : Prog) : Option (Nat × Nat) := p.2.back?.map fun n => (n.r, n.c)

/-- exact set value (thick constants allowed) -/
def setEval (p : Prog) (pt : List Rat) : Option (Mat Itv) :=
  Eval.root Alg.itvX (pt.map Itv.point) (Eval.buildCalls Alg.itvX p.1) p.2

def ratEval (p : Prog) (pt : List Rat) : Option (Mat Rat) :=
  Eval.root Alg.rat pt (Eval.buildCalls Alg.rat p.1) p.2

def ratsIn (vs : List Rat) (z : Mat Itv) : Bool :=
  vs.length == z.d.length && (List.zip vs z.d).all fun q => Itv.containsExt q.2 (.fin q.1)

def matSubsetEither (z1 z2 : Mat Itv) : Bool :=
  z1.r == z2.r && z1.c == z2.c && z1.d.length == z2.d.length &&
  ((List.zip z1.d z2.d).all (fun q => Itv.subset q.1 q.2) || (List.zip z1.d z2.d).all (fun q => Itv.subset q.2 q.1))

/-- comparison at one point: `some true` same value, `some false` different, `none` not evaluable.
    With thick constants (interval constants of the user, constant folding by the parser, decimal
    literals between two doubles) the exact SET values are compared: one must enclose the other. -/
def ptCmp (first second : Prog) (pt : List Rat) : Option Bool :=
  match ratEval first pt, ratEval second pt with
  | some v1, some v2 => some (v1.d == v2.d)
  | _, _ =>
    match setEval first pt, setEval second pt with
    | some z1, some z2 => some (matSubsetEither z1 z2)
    | _, _ => none

/-- either operand may carry the thick constants -/
def ptCmp2 (a b : Prog) (pt : List Rat) : Option Bool :=
  match ptCmp a b pt with
  | some r => some r
  | none => ptCmp b a pt

/-- some constant is a thick interval (user interval constant, or constant folding with outward rounding) -/
def hasThick (p : Prog) : Bool :=
  (p.2 :: p.1).any fun d => d.any fun n =>
    match n.k with
    | .const vs => vs.any fun I => (ratOfItv I).isNone
    | _ => false

def ratAbs (q : Rat) : Rat := if q < 0 then -q else q

/-- equal up to a relative error 2^-40 (only used when thick constants are represented by their midpoints) -/
def closeRat (a b : Rat) : Bool :=
  let m := if ratAbs a ≤ ratAbs b then ratAbs b else ratAbs a
  decide (ratAbs (a - b) ≤ (if m ≤ 1 then 1 else m) / 1099511627776)

def sameVals (tol : Bool) (x y : List Rat) : Bool :=
  if tol then x.length == y.length && (List.zip x y).all fun q => closeRat q.1 q.2 else x == y

def uptCmp (first second : Prog) (pt : List Rat) : Option Bool :=
  match evalU first.1 first.2 pt, evalU second.1 second.2 pt with
  | some v1, some v2 =>
    let thick := hasThick first || hasThick second
    -- with thick constants represented by their midpoints a difference refutes nothing (a legitimate folding of
    -- `min(2.125,[-3.6,27.4])` into `[-3.6,2.125]` moves the midpoint): undecided
    if sameVals thick v1.d v2.d then some true else if thick then none else some false
  | _, _ => none

/-- all sample points: `some false` as soon as one differs; `some true` if at least one was
    evaluated and none differs -/
def ptsCmp (f : List Rat → Option Bool) (pts : List (List Rat)) : Option Bool :=
  let rs := pts.filterMap f
  if rs.any (· == false) then some false else if rs.isEmpty then none else some true

/-- integer exponents small enough for the evaluators (which compute powers by iteration) -/
def tame (p : Prog) : Bool :=
  (p.2 :: p.1).all fun d => d.all fun n => match n.k with | .pow _ e => e.natAbs ≤ 1024 | _ => true

/-- the cascade for one pair of expressions (`expected`/original first) -/
def cmpExpr (a b : Prog) (nv : Nat) (pts : List (List Rat)) : Verdict :=
  match rootDims a, rootDims b with
  | some da, some db =>
    if da != db then .fail "dimensions-differ" else
    if decide (a.1 = b.1) && Dag.sameTree a.2 b.2 then .ok .tree else
    if !(tame a && tame b) then .fail "huge-exponent-and-different-structure" else
    match Equiv.check a.1 a.2 b.1 b.2 nv with
    | some false => .fail "normal-forms-differ"
    | some true =>
      (match ptsCmp (ptCmp2 a b) pts with
       | some false => .fail "value-differs-at-point"
       | _ => .ok .nf)
    | none =>
      match ptsCmp (ptCmp2 a b) pts with
      | some false => .fail "value-differs-at-point"
      | some true => .ok .points
      | none =>
        match ptsCmp (uptCmp a b) pts with
        | some false => .fail "value-differs-at-point-(uninterpreted-operators)"
        | some true => .ok .upoints
        | none => .ok .undecided
  | _, _ => .fail "empty-dag"

/-! ### flattened comparison (vector/matrix valued constraints against their components) -/

/-- concatenated entries (row-major) of the normal forms of several expressions -/
def nfFlat (B : Nat) (ps : List Prog) (nv : Nat) : Option (List RF) :=
  (ps.mapM fun p => Equiv.nf B p.1 p.2 nv).map fun ms => ms.flatMap (·.d)

/-- `some true`: both lists of expressions denote rational functions and their flattened entries
    are pairwise equal rational functions (sound for every real point: `checkFlat_sound`) -/
def checkFlatB (B : Nat) (as bs : List Prog) (nv : Nat) : Option Bool := do
  let x ← nfFlat B as nv
  let y ← nfFlat B bs nv
  Equiv.eqvList B x y

def checkFlat := checkFlatB Equiv.bound

def flatAt (ev : Prog → Option (Mat Rat)) (ps : List Prog) : Option (List Rat) :=
  (ps.mapM ev).map fun ms => ms.flatMap (·.d)

def flatSetAt (ps : List Prog) (pt : List Rat) : Option (List Itv) :=
  (ps.mapM fun p => setEval p pt).map fun ms => ms.flatMap (·.d)

def flatPtCmp (as bs : List Prog) (pt : List Rat) : Option Bool :=
  match flatAt (ratEval · pt) as, flatAt (ratEval · pt) bs with
  | some x, some y => some (x == y)
  | _, _ =>
    match flatSetAt as pt, flatSetAt bs pt with
    | some x, some y =>
      some (x.length == y.length &&
        ((List.zip x y).all (fun q => Itv.subset q.1 q.2) || (List.zip x y).all (fun q => Itv.subset q.2 q.1)))
    | _, _ => none

def flatPtCmp2 (as bs : List Prog) (pt : List Rat) : Option Bool :=
  match flatPtCmp as bs pt with
  | some r => some r
  | none => flatPtCmp bs as pt

def flatUptCmp (as bs : List Prog) (pt : List Rat) : Option Bool :=
  match flatAt (fun p => evalU p.1 p.2 pt) as, flatAt (fun p => evalU p.1 p.2 pt) bs with
  | some x, some y =>
    let thick := as.any hasThick || bs.any hasThick
    if sameVals thick x y then some true else if thick then none else some false      -- (as `uptCmp`)
  | _, _ => none

def flatSize (ps : List Prog) : Option Nat :=
  (ps.mapM rootDims).map fun ds => (ds.map fun d => d.1 * d.2).foldl (· + ·) 0

def cmpFlat (as bs : List Prog) (nv : Nat) (pts : List (List Rat)) : Verdict :=
  match flatSize as, flatSize bs with
  | some na, some nb =>
    if na != nb then .fail "number-of-components-differs" else
    if !(as.all tame && bs.all tame) then .fail "huge-exponent" else
    match checkFlat as bs nv with
    | some false => .fail "normal-forms-differ"
    | some true =>
      (match ptsCmp (flatPtCmp2 as bs) pts with
       | some false => .fail "value-differs-at-point"
       | _ => .ok .nf)
    | none =>
      match ptsCmp (flatPtCmp2 as bs) pts with
      | some false => .fail "value-differs-at-point"
      | some true => .ok .points
      | none =>
        match ptsCmp (flatUptCmp as bs) pts with
        | some false => .fail "value-differs-at-point-(uninterpreted-operators)"
        | some true => .ok .upoints
        | none => .ok .undecided
  | _, _ => .fail "empty-dag"

/-! ### hexadecimal constants -/

def hexChar (d : Nat) : Char := if d < 10 then Char.ofNat (48 + d) else Char.ofNat (87 + d)

/-- hexadecimal digits, least significant first (`fuel` digits at most) -/
def hexRev : Nat → Nat → List Nat
  | 0, _ => []
  | f + 1, n => if n < 16 then [n] else n % 16 :: hexRev f (n / 16)

/-- `os << std::hex << u` for a 64-bit `u`: lower case, no leading zeros, `0` for zero -/
def printHex (u : Nat) : List Char := (hexRev 16 u).reverse.map hexChar

def hexVal (c : Char) : Option Nat := hexDigit? c

/-- value of a string of hexadecimal digits (any length), most significant first -/
def hexNat (cs : List Char) : Option Nat :=
  cs.foldlM (fun acc c => (hexVal c).map fun d => acc * 16 + d) 0

/-- the C function used by the lexer rule `#[0-9a-fA-F]+` -/
inductive HexReader where
  | strtoll    -- signed: saturates at 2^63 - 1
  | strtoull   -- unsigned: saturates at 2^64 - 1
deriving DecidableEq, Repr

def HexReader.ofString (s : String) : HexReader := if s == "strtoull" then .strtoull else .strtoll

/-- `uint64_t u = strtoll/strtoull(text, NULL, 16)` -/
def readHex (r : HexReader) (cs : List Char) : Option Nat :=
  (hexNat cs).map fun v =>
    match r with
    | .strtoll => if v ≥ 2 ^ 63 then 2 ^ 63 - 1 else v
    | .strtoull => if v ≥ 2 ^ 64 then 2 ^ 64 - 1 else v

def posInfBits : Nat := 0x7ff0000000000000
def negInfBits : Nat := 0xfff0000000000000
def negZeroBits : Nat := 2 ^ 63

/-- a bit pattern that is not a NaN -/
def notNaN (b : Nat) : Bool := b < 2 ^ 64 && (b % 2 ^ 63 ≤ posInfBits)

/-- `signNeg = false` : the test `x >= 0` of `print_dbl` (true for -0.0);
    `signNeg = true`  : the sign bit decides (proposed repair) -/
def nonNegative (signNeg : Bool) (b : Nat) : Bool :=
  if signNeg then b < 2 ^ 63 else (b < 2 ^ 63 || b == negZeroBits)

/-- `ExprPrinter::print_dbl(x)` in exact mode, `b` = bit pattern of `x` -/
def printDbl (signNeg : Bool) (b : Nat) : List Char :=
  if b == negInfBits then "-oo".toList
  else if b == posInfBits then "+oo".toList
  else if nonNegative signNeg b then '#' :: printHex b
  else '-' :: '#' :: printHex (b - 2 ^ 63)

/-- negation of a binary64 (unary minus applied by the parser to the constant) -/
def negBits (b : Nat) : Nat := if b < 2 ^ 63 then b + 2 ^ 63 else b - 2 ^ 63

/-- the double denoted by a printed bound: `#hex`, `-#hex`, `+oo`, `-oo` -/
def readDbl (r : HexReader) (cs : List Char) : Option Nat :=
  match cs with
  | ['+', 'o', 'o'] => some posInfBits
  | ['-', 'o', 'o'] => some negInfBits
  | '#' :: ds => readHex r ds
  | '-' :: '#' :: ds => (readHex r ds).map negBits
  | _ => none

/-- `ExprPrinter::print_itv` in exact mode on the interval with bound bit patterns `lo`, `hi`
    (`mid` = bit pattern of `x.mid()`, used for degenerate intervals) -/
def printItv (signNeg : Bool) (lo hi mid : Nat) (degenerate : Bool) : List Char :=
  if degenerate then printDbl signNeg mid
  else '[' :: printDbl signNeg lo ++ ',' :: printDbl signNeg hi ++ [']']

/-! ### operator keywords -/

/-- all the ends of the paths starting at `s` through the successive tables -/
def chain : List (List (String × String)) → String → List String
  | [], s => [s]
  | t :: ts, s => (t.filter fun e => e.1 == s).flatMap fun e => chain ts e.2

/-- `(class, keyword)`: the keyword printed as `keyword(` by the serialiser is lexed to a token whose
    grammar rule calls a parser function, whose opcode is turned by the generator into a call of a
    builder function, which builds an object of that class
    (`tables` = lexer, grammar, pexpr, generator, builders) -/
def relexes (tables : List (List (String × String))) (p : String × String) : Bool :=
  (chain tables p.2).contains p.1

end Minibex
end Ibex
