/-
  C07 (and the optimizer half of C18): verified checkers run on the OUTPUT of the real global optimizer.

  The optimizer returns a status, bounds `uplo ≤ loup` and a "loup point".  On problems whose global minimum is
  known by construction the driver decides with exact rational arithmetic (the doubles printed by the C++ are
  rationals; `Alg.rat` = real semantics of the dumped DAGs):
    * `boundsOk`    uplo ≤ loup ≤ initial loup
    * `lowerOk`     uplo ≤ f(p) for every exactly feasible point p among the planted/sampled ones
    * `Cert.ok`     a Positivstellensatz-style certificate `f ≡ c + Σ wᵢ qᵢ² + Σ λⱼ sⱼ` (w, λ ≥ 0; the sⱼ are slacks of
                    the box bounds and of the constraints, non-negative on the feasible set), checked as an identity
                    of polynomials by the verified normal form of `IbexModel/RatFun.lean`: then `f ≥ c` on the WHOLE
                    feasible set, and `uplo ≤ c` makes the universal lower-bound claim true
    * `witExact` / `witItv`   the loup point is feasible for the eps_h-relaxed problem, inside the box, f ≤ loup
    * `statusOk`    SUCCESS ⇒ the documented precision test on [uplo, loup]; INFEASIBLE / NO_FEASIBLE_FOUND ⇒ no loup
    * `infeasOk`    INFEASIBLE ⇒ none of the planted/sampled points is feasible (below the initial loup)
  Soundness over the reals: `IbexProofs/Optim.lean`, `IbexProofs/Props/C07.lean`.   No Mathlib import.
-/
import IbexModel.Box
import IbexModel.Expr
import IbexModel.RatFun
import IbexModel.Cover
namespace Ibex.Optim
open Ibex

/-- an expression: auxiliary (applied) functions and the main DAG -/
abbrev Fn := List Dag × Dag

structure Problem where
  obj : Fn
  ctrs : List (Fn × String)      -- `g spec 0`, spec ∈ leq lt geq gt eq
  box : Box
  epsH : Rat                      -- equalities are relaxed to |h| ≤ epsH
deriving Repr

structure Run where
  relEps : Rat
  absEps : Rat
  initLoup : Ext
  rigor : Bool
deriving Repr

structure Result where
  status : String
  uplo : Ext
  loup : Ext
  lp : Box                        -- the loup point (a thin box in rigor mode)
deriving Repr

/-! ### exact evaluation at rational points -/

/-- the scalar value of `f` at the rational point `p` (`none`: undefined, not scalar, or outside the exact fragment) -/
def evalQ (f : Fn) (p : List Rat) : Option Rat :=
  match Eval.root Alg.rat p (Eval.buildCalls Alg.rat f.1) f.2 with
  | some m => (match m.d with | [v] => some v | _ => none)
  | none => none

/-- `v spec 0` with equalities relaxed to `|v| ≤ epsH` -/
def specSat (epsH : Rat) (spec : String) (v : Rat) : Bool :=
  if spec = "leq" then decide (v ≤ 0)
  else if spec = "lt" then decide (v < 0)
  else if spec = "geq" then decide (0 ≤ v)
  else if spec = "gt" then decide (0 < v)
  else if spec = "eq" then decide (-epsH ≤ v) && decide (v ≤ epsH)
  else false

def inBoxQ (p : List Rat) (b : Box) : Bool :=
  match p, b with
  | [], [] => true
  | q :: ps, I :: bs => Itv.containsExt I (.fin q) && inBoxQ ps bs
  | _, _ => false

def ctrSatQ (epsH : Rat) (c : Fn × String) (p : List Rat) : Bool :=
  match evalQ c.1 p with
  | some v => specSat epsH c.2 v
  | none => false

/-- `p` is a point of the box at which every constraint is defined and satisfied (decided exactly) -/
def feasQ (P : Problem) (p : List Rat) : Bool :=
  inBoxQ p P.box && P.ctrs.all fun c => ctrSatQ P.epsH c p

/-- some constraint is defined at `p` and violated, or `p` is outside the box (decided exactly) -/
def infeasQ (P : Problem) (p : List Rat) : Bool :=
  !inBoxQ p P.box || P.ctrs.any fun c =>
    match evalQ c.1 p with
    | some v => !specSat P.epsH c.2 v
    | none => false

/-! ### bounds, status -/

def boundsOk (R : Run) (res : Result) : Bool := Ext.le res.uplo res.loup && Ext.le res.loup R.initLoup

/-- the precision test of `Optimizer::optimize` (`get_obj_abs_prec() ≤ abs_eps_f` or `get_obj_rel_prec() ≤ rel_eps_f`,
    with `get_obj_rel_prec = (loup-uplo)/|uplo|`, `0` when `loup = 0 ≤ uplo`, `+∞` when `loup = 0 > uplo`), on exact values -/
def precOk (relEps absEps : Rat) (uplo loup : Ext) : Bool :=
  match uplo, loup with
  | .fin u, .fin l =>
    decide (l - u ≤ absEps) ||
      (if l = 0 then decide (0 ≤ u) else decide (u ≠ 0) && decide (l - u ≤ relEps * (if u < 0 then -u else u)))
  | _, _ => false

def statusOk (R : Run) (res : Result) : Bool :=
  if res.status = "SUCCESS" then precOk R.relEps R.absEps res.uplo res.loup && Ext.lt res.loup R.initLoup
  else if res.status = "INFEASIBLE" ∨ res.status = "NO_FEASIBLE_FOUND" then decide (res.loup = R.initLoup)
  else decide (res.status = "UNBOUNDED_OBJ" ∨ res.status = "TIME_OUT" ∨ res.status = "UNREACHED_PREC")

/-- a feasible point refutes the lower bound when its objective value is below `uplo` -/
def lowerOkAt (P : Problem) (uplo : Ext) (p : List Rat) : Bool :=
  !feasQ P p || (match evalQ P.obj p with | some v => Ext.le uplo (.fin v) | none => true)

def lowerOk (P : Problem) (uplo : Ext) (pts : List (List Rat)) : Bool := pts.all (lowerOkAt P uplo)

/-- a feasible point at which the objective is defined (with a value below the initial loup, when one was given)
    refutes the verdict INFEASIBLE -/
def refutesInfeasible (P : Problem) (R : Run) (p : List Rat) : Bool :=
  feasQ P p && (match evalQ P.obj p with | some v => Ext.lt (.fin v) R.initLoup | none => false)

def infeasOk (P : Problem) (R : Run) (res : Result) (pts : List (List Rat)) : Bool :=
  !(res.status == "INFEASIBLE") || pts.all fun p => !refutesInfeasible P R p

/-! ### the loup point -/

/-- a degenerate box is a rational point -/
def pointOf : Box → Option (List Rat)
  | [] => some []
  | .mk (.fin a) (.fin b) :: bs => if a = b then (pointOf bs).map (a :: ·) else none
  | _ :: _ => none

/-- exact check of a point witness: feasible for the relaxed problem, inside the box, `f(p) ≤ loup` -/
def witExact (P : Problem) (loup : Ext) (p : List Rat) : Bool :=
  feasQ P p && (match evalQ P.obj p with | some v => Ext.le (.fin v) loup | none => false)

/-- the witness is certainly wrong: outside the box, a constraint violated, or `f(p) > loup` (all exact) -/
def witRefuted (P : Problem) (loup : Ext) (p : List Rat) : Bool :=
  infeasQ P p || (match evalQ P.obj p with | some v => !Ext.le (.fin v) loup | none => false)

def itvVal (f : Fn) (b : Box) : Option Itv :=
  match Eval.root Alg.itv b (Eval.buildCalls Alg.itv f.1) f.2 with
  | some m => (match m.d with | [z] => some z | _ => none)
  | none => none

/-- the enclosure `z` of the values proves `v spec 0` (equalities: `|v| ≤ epsH`) -/
def specProved (epsH : Rat) (spec : String) (z : Itv) : Bool :=
  if spec = "eq" then Itv.subset z (.mk (.fin (-epsH)) (.fin epsH)) && !z.isEmpty
  else Cover.signProved spec z

/-- interval check of a witness (the fall-back for a point at which the exact evaluation is undefined, e.g. an
    irrational square root): the box lies in the initial box, every constraint is proved on it and `f ≤ loup` on it -/
def witItv (P : Problem) (loup : Ext) (b : Box) : Bool :=
  !Box.isEmpty b && Box.subset b P.box &&
  (P.ctrs.all fun c => match itvVal c.1 b with | some z => specProved P.epsH c.2 z | none => false) &&
  (match itvVal P.obj b with | some (.mk _ hi) => Ext.le hi loup | _ => false)

/-- rigor mode: the loup "point" is a thin box that is claimed to CONTAIN an exactly feasible point (existence test
    of `LoupFinderCertify`: property C09).  Decidable part: the box lies in the initial box and `f ≤ loup` on it. -/
def witRigor (P : Problem) (loup : Ext) (b : Box) : Bool :=
  !Box.isEmpty b && Box.subset b P.box &&
  (match itvVal P.obj b with | some (.mk _ hi) => Ext.le hi loup | _ => false)

/-- rigor mode, what can be refuted: the box leaves the initial box, some constraint is violated on the whole box
    (its enclosure misses the admissible values), or the enclosure of `f` exceeds `loup` -/
def specRefuted (epsH : Rat) (rigor : Bool) (spec : String) (z : Itv) : Bool :=
  match z with
  | .empty => false
  | .mk lo hi =>
    if spec = "leq" then Ext.lt (.fin 0) lo
    else if spec = "lt" then Ext.le (.fin 0) lo
    else if spec = "geq" then Ext.lt hi (.fin 0)
    else if spec = "gt" then Ext.le hi (.fin 0)
    else if spec = "eq" then (if rigor then Ext.lt (.fin 0) lo || Ext.lt hi (.fin 0) else Ext.lt (.fin epsH) lo || Ext.lt hi (.fin (-epsH)))
    else false

def witBoxRefuted (P : Problem) (rigor : Bool) (loup : Ext) (b : Box) : Bool :=
  Box.isEmpty b || !Box.subset b P.box ||
  (P.ctrs.any fun c => match itvVal c.1 b with | some z => specRefuted P.epsH rigor c.2 z | none => false) ||
  (match itvVal P.obj b with | some (.mk _ hi) => !Ext.le hi loup | _ => false)

/-- every operator of the DAG is one of the interval model (no elementary function) and evaluation is strict
    (no `chi`, whose unselected branch may be undefined, no applied function): then an EMPTY interval evaluation at a
    point means that the expression is undefined there -/
def strictDag (dag : Dag) : Bool :=
  dag.all fun n =>
    match n.k with
    | .un op _ => (Alg.itv.un op).isSome || op == "trans"
    | .bin op _ _ => op == "add" || op == "sub" || op == "mul" || op == "div" || op == "max" || op == "min"
    | .chi _ _ _ => false
    | .apply _ _ => false
    | _ => true

/-- the point lies outside the definition domain of the objective or of a constraint (diagnosis) -/
def witUndefined (P : Problem) (lp : Box) : Bool :=
  ((P.obj :: P.ctrs.map (·.1)).any fun f => f.1.isEmpty && strictDag f.2 &&
    (Eval.root Alg.itv lp (Eval.buildCalls Alg.itv f.1) f.2).isNone)

inductive Wit where
  | exact | interval | rigorBox | undecided | refuted | none
deriving Repr, DecidableEq

def witnessPoint (P : Problem) (loup : Ext) (lp : Box) (p : List Rat) : Wit :=
  if witExact P loup p then .exact
  else if witRefuted P loup p then .refuted
  else if witUndefined P lp then .refuted
  else if witItv P loup lp then .interval
  else .undecided

def witnessBox (P : Problem) (R : Run) (loup : Ext) (lp : Box) : Wit :=
  if !R.rigor then .refuted      -- without rigor the loup point is a point
  else if witBoxRefuted P true loup lp then .refuted
  else if witRigor P loup lp then .rigorBox
  else .undecided

/-- verdict on the loup point.  A witness is due as soon as `loup` is below the initial loup. -/
def witness (P : Problem) (R : Run) (res : Result) : Wit :=
  if !Ext.lt res.loup R.initLoup then .none else
  match pointOf res.lp with
  | some p => witnessPoint P res.loup res.lp p
  | none => witnessBox P R res.loup res.lp

/-! ### lower-bound certificates -/

inductive Slack where
  | lo (k : Nat)     -- x_k - lo_k
  | hi (k : Nat)     -- hi_k - x_k
  | ctr (j : Nat)    -- -g_j for `g_j ≤ 0` / `< 0`,  g_j for `≥ 0` / `> 0`
  | eqP (j : Nat)    -- epsH - h_j
  | eqM (j : Nat)    -- epsH + h_j
deriving Repr

structure Cert where
  c : Rat
  sos : List (Rat × Fn)
  lin : List (Rat × Slack)
deriving Repr

/-- the polynomial denoted by a DAG (`none` unless it is a scalar rational function with denominator 1) -/
def polyOf (B : Nat) (f : Fn) (n : Nat) : Option Poly :=
  match Equiv.nf B f.1 f.2 n with
  | some m => (match m.d with | [F] => if F.den = Poly.one then some F.num else none | _ => none)
  | none => none

def slackPoly (B : Nat) (P : Problem) (n : Nat) : Slack → Option Poly
  | .lo k => (match P.box[k]? with | some (.mk (.fin l) _) => some (Poly.sub (Poly.var k) (Poly.const l)) | _ => none)
  | .hi k => (match P.box[k]? with | some (.mk _ (.fin h)) => some (Poly.sub (Poly.const h) (Poly.var k)) | _ => none)
  | .ctr j => (match P.ctrs[j]? with
      | some c => if c.2 = "leq" ∨ c.2 = "lt" then (polyOf B c.1 n).map Poly.neg
                  else if c.2 = "geq" ∨ c.2 = "gt" then polyOf B c.1 n else none
      | none => none)
  | .eqP j => (match P.ctrs[j]? with
      | some c => if c.2 = "eq" then (polyOf B c.1 n).map fun h => Poly.sub (Poly.const P.epsH) h else none
      | none => none)
  | .eqM j => (match P.ctrs[j]? with
      | some c => if c.2 = "eq" then (polyOf B c.1 n).map fun h => Poly.add (Poly.const P.epsH) h else none
      | none => none)

/-- Σ w q² -/
def sosPoly (B : Nat) (n : Nat) : List (Rat × Fn) → Option Poly
  | [] => some []
  | (w, q) :: rest =>
    if w < 0 then none else
    match polyOf B q n, sosPoly B n rest with
    | some qp, some r => some (Poly.add (Poly.mul (Poly.const w) (Poly.mul qp qp)) r)
    | _, _ => none

/-- Σ λ s -/
def linPoly (B : Nat) (P : Problem) (n : Nat) : List (Rat × Slack) → Option Poly
  | [] => some []
  | (l, s) :: rest =>
    if l < 0 then none else
    match slackPoly B P n s, linPoly B P n rest with
    | some sp, some r => some (Poly.add (Poly.mul (Poly.const l) sp) r)
    | _, _ => none

def Cert.poly (B : Nat) (P : Problem) (C : Cert) : Option Poly :=
  match sosPoly B P.box.length C.sos, linPoly B P P.box.length C.lin with
  | some s, some l => some (Poly.add (Poly.const C.c) (Poly.add s l))
  | _, _ => none

/-- the objective is, as a rational function, `c + Σ w q² + Σ λ s` -/
def Cert.okB (B : Nat) (P : Problem) (C : Cert) : Bool :=
  match C.poly B P, Equiv.nf B P.obj.1 P.obj.2 P.box.length with
  | some t, some m => (match m.d with | [F] => RF.eqv B F ⟨t, Poly.one⟩ == some true | _ => false)
  | _, _ => false

def Cert.ok := Cert.okB Equiv.bound

/-! ### the whole verdict -/

/-- the problem the loup point is a witness of: in rigor mode (`LoupFinderCertify`) the ORIGINAL problem — equalities
    hold exactly, not within `eps_h` (a point returned in rigor mode must satisfy them exactly; a thin box must contain an
    exactly feasible point) -/
def witProblem (P : Problem) (R : Run) : Problem := if R.rigor then { P with epsH := 0 } else P

/-- everything that must hold for ANY problem (no oracle needed) -/
def resultOk (P : Problem) (R : Run) (res : Result) (pts : List (List Rat)) : Bool :=
  boundsOk R res && statusOk R res && lowerOk P res.uplo pts && infeasOk P R res pts &&
  (match witness (witProblem P R) R res with | .refuted => false | .undecided => false | _ => true)

/-- with a certificate: the universal lower bound -/
def certLowerOk (P : Problem) (C : Cert) (uplo : Ext) : Bool := C.ok P && Ext.le uplo (.fin C.c)

/-! ### interrupted, saved, reloaded and resumed searches -/

structure Saved where
  uplo : Ext
  loup : Ext
  lp : Box
deriving Repr

/-- `loup` never goes up along the chain of interruptions, and a loup that was not improved keeps its point -/
def carriedOk : List Saved → Result → Bool
  | [], _ => true
  | [s], res => Ext.le res.loup s.loup && (!(res.loup == s.loup) || res.lp == s.lp)
  | s :: t :: rest, res =>
    Ext.le t.loup s.loup && (!(t.loup == s.loup) || t.lp == s.lp) && carriedOk (t :: rest) res

def resumeOk (P : Problem) (R : Run) (saved : List Saved) (res : Result) (pts : List (List Rat)) : Bool :=
  resultOk P R res pts && carriedOk saved res

end Ibex.Optim
