/- C08 / C11 / C12 workloads: exact derivatives (dual numbers) and exact point equivalence. -/
import IbexModel
import Driver.Proto
import Driver.OpsExpr
import Driver.OpsBox
namespace Ibex.Driver
open Ibex Ibex.Proto
open Ibex.Eval (buildCalls)

/-- exact value and Jacobian (rows = output components in row-major order) at a rational point -/
def dualEval (funs : List Dag) (main : Dag) (p : List Rat) : Option (Mat Dual) :=
  Deriv.dualEval funs main p      -- IbexModel/Deriv.lean; correctness: IbexProofs/DualCorrect.lean

def rowsIn (g : List (List Rat)) (z : Mat Itv) : Bool := Deriv.rowsIn g z

/-- exact set-valued evaluation at a rational point (thick constants allowed) -/
def setEval (funs : List Dag) (main : Dag) (p : List Rat) : Option (Mat Itv) :=
  Eval.root Alg.itvX (p.map Itv.point) (buildCalls Alg.itvX funs) main

/-- every exact value lies in the corresponding (thin) set value -/
def ratsIn (vs : List Rat) (z : Mat Itv) : Bool :=
  vs.length == z.d.length && (List.zip vs z.d).all fun q => ratIn q.1 q.2

/-- exact interval product-sum  Σ_j H[i][j]·(x_j − x0_j)  with rational bounds -/
def hansenRow (h : List Itv) (dx : List Rat) : Itv := Deriv.hansenRow h dx

def opsSym (op : String) (ins outs : List String) : Option String :=
  match op, ins, outs with
  | "gradpt", [dag, pt], [z] => do
    let (funs, main) ← parseProgram dag
    let p ← parsePoint pt
    match dualEval funs main p with
    | none => pure "ok undefined-or-kink"
    | some v =>
      if z == "E" then pure "FAIL empty-derivative-but-differentiable-at-point" else do
      let z ← parseMatItv z
      pure (if rowsIn (v.d.map (·.g)) z then "ok derivative-enclosed" else "FAIL derivative-outside-enclosure")
  | "jacrows", [dag, pt, sel], [z] => do
    let (funs, main) ← parseProgram dag
    let p ← parsePoint pt; let sel ← parseNatList sel
    match dualEval funs main p with
    | none => pure "ok undefined-or-kink"
    | some v =>
      if z == "E" then pure "FAIL empty-derivative-but-differentiable-at-point" else do
      let z ← parseMatItv z
      let rows ← sel.mapM fun i => (v.d[i]?).map (·.g)
      pure (if rowsIn rows z then "ok rows-enclosed" else "FAIL derivative-outside-enclosure")
  | "jaccol", [dag, pt, vv], [z] => do
    let (funs, main) ← parseProgram dag
    let p ← parsePoint pt; let vv ← vv.toNat?
    match dualEval funs main p with
    | none => pure "ok undefined-or-kink"
    | some v =>
      if z == "E" then pure "FAIL empty-derivative-but-differentiable-at-point" else do
      let z ← parseMatItv z
      let col ← v.d.mapM fun d => d.g[vv]?
      pure (if Deriv.colIn col z then "ok column-enclosed"
            else "FAIL derivative-outside-enclosure")
  | "jaccolrows", [dag, pt, vv, sel], [z] => do
    let (funs, main) ← parseProgram dag
    let p ← parsePoint pt; let vv ← vv.toNat?; let sel ← parseNatList sel
    match dualEval funs main p with
    | none => pure "ok undefined-or-kink"
    | some v =>
      if z == "E" then pure "FAIL empty-derivative-but-differentiable-at-point" else do
      let z ← parseMatItv z
      let col ← sel.mapM fun i => (v.d[i]?).bind fun d => d.g[vv]?
      pure (if Deriv.colIn col z then "ok column-enclosed"
            else "FAIL derivative-outside-enclosure")
  | "hansenrows", [dag, x0, x, sel], [h] => do
    let (funs, main) ← parseProgram dag
    let p0 ← parsePoint x0; let p ← parsePoint x; let sel ← parseNatList sel
    match Eval.root Alg.rat p0 (buildCalls Alg.rat funs) main, Eval.root Alg.rat p (buildCalls Alg.rat funs) main with
    | some v0, some v =>
      if h == "E" then pure "FAIL empty-hansen-matrix" else do
      let H ← parseMatItv h
      let dx := List.zipWith (· - ·) p p0
      let vs ← sel.mapM fun i => v.d[i]?
      let v0s ← sel.mapM fun i => v0.d[i]?
      if H.r != sel.length then pure "FAIL hansen-matrix-has-the-wrong-number-of-rows" else
      let ok := Deriv.hansenOk H ⟨sel.length, 1, vs⟩ ⟨sel.length, 1, v0s⟩ dx
      pure (if ok then (if dx.all (· == 0) then "ok same-point" else "ok slope-enclosed")
            else if !(Deriv.definedOn funs main (Deriv.hullPts p0 p)) then "ok pole-between-the-points-no-claim"
            else "FAIL f(x)-f(x0)-outside-H(x-x0)")
    | _, _ => pure "ok undefined-or-unsupported"
  | "hansenpt", [dag, x0, x], [h] => do
    let (funs, main) ← parseProgram dag
    let p0 ← parsePoint x0; let p ← parsePoint x
    match Eval.root Alg.rat p0 (buildCalls Alg.rat funs) main, Eval.root Alg.rat p (buildCalls Alg.rat funs) main with
    | some v0, some v =>
      if h == "E" then pure "FAIL empty-hansen-matrix" else do
      let H ← parseMatItv h
      let dx := List.zipWith (· - ·) p p0
      let ok := Deriv.hansenOk H v v0 dx
      -- (a slope matrix only exists where the function is defined on the segments from x0 to x: no pole in their box)
      pure (if ok then (if dx.all (· == 0) then "ok same-point" else "ok slope-enclosed")
            else if !(Deriv.definedOn funs main (Deriv.hullPts p0 p)) then "ok pole-between-the-points-no-claim"
            else "FAIL f(x)-f(x0)-outside-H(x-x0)")
    | _, _ => pure "ok undefined-or-unsupported"
  | "diffpt", [dag, ddag, pt], _ => do
    let (funs, main) ← parseProgram dag
    let (dfuns, dmain) ← parseProgram ddag
    let p ← parsePoint pt
    match dualEval funs main p with
    | none => pure "ok undefined-or-kink"
    | some v =>
      let exact := (v.d.map (·.g)).flatten
      match Eval.root Alg.rat p (buildCalls Alg.rat dfuns) dmain with
      | some dv => pure (if Deriv.diffEq v dv then "ok derivative-equal" else s!"FAIL derivative-differs exact={exact} got={dv.d}")
      | none =>
        -- thick constants (constant folding): the set value must contain the exact derivative
        match setEval dfuns dmain p with
        | none => pure "FAIL derivative-expression-undefined-where-f-is-differentiable"
        | some dz => pure (if ratsIn exact dz then "ok derivative-in-set-value" else "FAIL derivative-outside-set-value")
  | "equivpt", [_, d1, d2, pt], _ => do
    let (f1, m1) ← parseProgram d1
    let (f2, m2) ← parseProgram d2
    let p ← parsePoint pt
    match m1.back?, m2.back? with
    | some n1, some n2 =>
      if n1.r != n2.r || n1.c != n2.c then pure "FAIL dimensions-differ" else
      match Eval.root Alg.rat p (buildCalls Alg.rat f1) m1 with
      | none => pure "ok undefined-or-unsupported"
      | some v1 =>
        match Eval.root Alg.rat p (buildCalls Alg.rat f2) m2 with
        | some v2 => pure (if v1.d == v2.d then "ok same-value" else "FAIL value-differs")
        | none =>
          match setEval f2 m2 p with
          | none => pure "FAIL transformed-undefined-where-original-defined"
          | some z2 => pure (if ratsIn v1.d z2 then "ok value-in-set-value" else "FAIL value-outside-set-value")
    | _, _ => none
  | "equivcomp", [d1, d2, i, pt], _ => do
    let (f1, m1) ← parseProgram d1
    let (f2, m2) ← parseProgram d2
    let i ← i.toNat?; let p ← parsePoint pt
    match Eval.root Alg.rat p (buildCalls Alg.rat f1) m1 with
    | none => pure "ok undefined-or-unsupported"
    | some v1 =>
      match Eval.root Alg.rat p (buildCalls Alg.rat f2) m2 with
      | some v2 => pure (if v2.d.length == 1 && v1.d[i]? == v2.d[0]? then "ok same-component" else "FAIL component-differs")
      | none =>
        match setEval f2 m2 p, v1.d[i]? with
        | some z2, some q => pure (if ratsIn [q] z2 then "ok component-in-set-value" else "FAIL component-outside-set-value")
        | _, _ => pure "FAIL component-undefined-where-original-defined"
  | "diffunsupported", _, _ => pure "ok diffunsupported"
  | "resourcelimit", _, _ => pure "ok resource-limit-of-the-symbolic-layer (no claim)"
  | "harnesserror", _, _ => pure "FAIL exception-thrown-by-the-library"
  | "gradt", [_, _, _, o], [z] =>
    -- expressions with elementary functions: `o` = rigorous enclosures (MPFR forward differentiation, trusted oracle) of
    -- the partial derivatives at a point of the box; each must belong to the gradient computed over the box
    if o == "U" then pure "ok no-oracle-at-point" else do
    let o ← parseBox o
    if z == "E" then pure "FAIL empty-gradient-but-differentiable-at-point" else do
    let z ← parseBox z
    if o.length != z.length then pure "FAIL gradient-of-another-dimension" else
    let pairs := List.zip o z
    pure (if pairs.any (fun q => (Itv.inter q.1 q.2).isEmpty) then "FAIL derivative-outside-gradient"
          else if pairs.all (fun q => Itv.subset q.1 q.2) then "ok derivative-enclosed elementary" else "ok derivative-at-the-bound-undecided")
  | "difft", [_, _, o], [d] =>
    if o == "U" || d == "U" then pure "ok no-oracle-at-point" else do
    let o ← parseBox o; let d ← parseBox d
    if o.length != d.length then pure "FAIL derivative-of-another-dimension" else
    pure (if (List.zip o d).any (fun q => (Itv.inter q.1 q.2).isEmpty) then "FAIL symbolic-derivative-differs-from-the-derivative"
          else "ok symbolic-derivative-agrees elementary")
  | _, _, _ => none

end Ibex.Driver
