/- C07 / optimizer half of C18: verdicts on the results of the real global optimizer. -/
import IbexModel
import Driver.Proto
import Driver.OpsBox
import Driver.OpsExpr
namespace Ibex.Driver
open Ibex Ibex.Proto Ibex.Optim

def parseFns (s : String) : Option (List Fn) :=
  if s == "-" then some [] else (s.splitOn "|").mapM parseProgram

def parsePoints (s : String) : Option (List (List Rat)) :=
  if s == "-" then some [] else (s.splitOn ",").mapM parsePoint

def parseSlack (s : String) : Option Slack :=
  let k := (s.drop 1).toString.toNat?
  if s.startsWith "L" then k.map Slack.lo
  else if s.startsWith "U" then k.map Slack.hi
  else if s.startsWith "C" then k.map Slack.ctr
  else if s.startsWith "P" then k.map Slack.eqP
  else if s.startsWith "M" then k.map Slack.eqM
  else none

def parseCert (s : String) : Option (Option Cert) :=
  if s == "-" then some none else
  match s.splitOn "#" with
  | [c, sos, lin] => do
    let c ← parseRatDbl c
    let sos ← (if sos == "-" then some [] else (sos.splitOn "&").mapM fun it =>
      match it.splitOn "^" with
      | [w, d] => do pure ((← parseRatDbl w), (← parseProgram d))
      | _ => none)
    let lin ← (if lin == "-" then some [] else (lin.splitOn "&").mapM fun it =>
      match it.splitOn "^" with
      | [w, d] => do pure ((← parseRatDbl w), (← parseSlack d))
      | _ => none)
    pure (some ⟨c, sos, lin⟩)
  | _ => none

structure OptCase where
  P : Problem
  R : Run
  planted : Option (List Rat)
  pts : List (List Rat)
  cert : Option Cert
  pmin : Bool

def parseCase (ins : List String) : Option OptCase :=
  match ins with
  | [_, _, obj, ctrs, specs, box, epsH, _, rel, abs, l0, rigor, planted, samples, cert, pmin] => do
    let obj ← parseProgram obj
    let cs ← parseFns ctrs
    let ss := if specs == "-" then [] else specs.splitOn "|"
    if cs.length != ss.length then none else
    let box ← parseBox box
    let epsH ← parseRatDbl epsH; let rel ← parseRatDbl rel; let abs ← parseRatDbl abs
    let l0 ← parseExt l0
    let planted ← parsePoints planted
    let samples ← parsePoints samples
    let cert ← parseCert cert
    pure ⟨⟨obj, List.zip cs ss, box, epsH⟩, ⟨rel, abs, l0, rigor == "1"⟩, planted.head?, planted ++ samples, cert, pmin == "1"⟩
  | _ => none

def parseResult (outs : List String) : Option Result :=
  match outs with
  | [st, uplo, loup, lp, _] => do pure ⟨st, (← parseExt uplo), (← parseExt loup), (← parseBox lp)⟩
  | _ => none

/-- why is the loup point rejected?  (diagnosis only) -/
def witnessWhy (P : Problem) (R : Run) (res : Result) : String :=
  match pointOf res.lp with
  | some p =>
    if !inBoxQ p P.box then "loup-point-outside-the-initial-box"
    else if infeasQ P p then
      let j := (List.range P.ctrs.length).find? fun j => match P.ctrs[j]? with
        | some c => (match evalQ c.1 p with | some v => !specSat P.epsH c.2 v | none => false)
        | none => false
      s!"loup-point-violates-constraint-{j.getD 0}"
    else if witUndefined P res.lp then "loup-point-outside-the-definition-domain-of-the-constraints"
    else "objective-at-loup-point-exceeds-loup"
  | none =>
    if !R.rigor then "loup-point-is-not-a-point"
    else if !Box.subset res.lp P.box || Box.isEmpty res.lp then "rigor-loup-box-not-inside-the-initial-box"
    else "rigor-loup-box-refuted"

/-- the checks common to `optrun` and `optresume`; returns the verdict -/
def verdict (c0 : OptCase) (res : Result) : String :=
  let P := c0.P; let R := c0.R
  -- a planted point at which some expression has no exact value (irrational square root, strict evaluation of an
  -- unselected `chi` branch...) cannot serve as oracle: it is kept as an ordinary sample point
  let plantedUndecided := match c0.planted with | some p => !feasQ P p && !infeasQ P p | none => false
  let c : OptCase := if plantedUndecided then { c0 with planted := none, pmin := false } else c0
  -- the oracle itself first: a wrong oracle must be noticed
  let oracleErr : Option String :=
    (match c.planted with
      | some p => if !feasQ P p then some "planted-point-not-feasible" else none
      | none => none) <|>
    (match c.cert with
      | some C =>
        if !C.ok P then some "certificate-rejected"
        else (match c.planted with
          | some p => if evalQ P.obj p != some C.c then some "certificate-not-tight-at-the-planted-point" else none
          | none => none)
      | none => none)
  match oracleErr with
  | some e => "FAIL oracle-" ++ e
  | none =>
  if !Ext.le res.uplo res.loup then "FAIL uplo-above-loup"
  else if !Ext.le res.loup R.initLoup then "FAIL loup-above-initial-loup"
  else if !lowerOk P res.uplo c.pts then
    let k := (List.range c.pts.length).find? fun k => match c.pts[k]? with | some p => !lowerOkAt P res.uplo p | none => false
    s!"FAIL uplo-above-the-objective-at-a-feasible-point point={k.getD 0}"
  else if (match c.cert with | some C => !Ext.le res.uplo (.fin C.c) | none => false) then "FAIL uplo-above-the-certified-global-minimum"
  else if !statusOk R res then
    (if res.status == "SUCCESS" then (if !Ext.lt res.loup R.initLoup then "FAIL status-SUCCESS-without-feasible-point" else "FAIL status-SUCCESS-but-precision-not-met")
     else if res.status == "INFEASIBLE" || res.status == "NO_FEASIBLE_FOUND" then s!"FAIL status-{res.status}-although-a-loup-below-the-initial-bound-is-reported"
     else "FAIL unknown-status")
  else if !infeasOk P R res c.pts then "FAIL status-INFEASIBLE-but-a-feasible-point-exists"
  else
    let w := witness (witProblem P R) R res
    match w with
    | .refuted => "FAIL " ++ (if R.rigor && witness P R res != .refuted then "rigor-" else "") ++ witnessWhy (witProblem P R) R res
    | _ =>
      -- oracle cross-check: an exactly feasible loup point below the known minimum contradicts the oracle
      let contradiction : Bool :=
        match w, pointOf res.lp, c.planted with
        | .exact, some p, some q =>
          (match evalQ P.obj p, evalQ P.obj q with
           | some fp, some fq => (c.pmin || c.cert.isSome) && decide (fp < fq)
           | _, _ => false)
        | _, _, _ => false
      if contradiction then "FAIL oracle-loup-point-feasible-with-objective-below-the-known-minimum" else
      let wt := match w with | .exact => "exact" | .interval => "interval" | .rigorBox => "rigorbox" | .undecided => "witness-undecided" | .none => "nowitness" | .refuted => "?"
      let lb := if c.cert.isSome then "certified" else if c.planted.isSome then "planted" else if plantedUndecided then "planted-undecided" else "sampled"
      s!"ok {res.status}-{wt}-{lb}"

def parseSaved (s : String) : Option (List Saved) :=
  (s.splitOn ",").mapM fun it =>
    match it.splitOn "~" with
    | [u, l, b] => do pure ⟨(← parseExt u), (← parseExt l), (← parseBox b)⟩
    | _ => none

def parseOEv (s : String) : Option OptCover.Ev :=
  match s.splitOn "~" with
  | ["T", b] => (parseBox b).map OptCover.Ev.top
  | ["O", b] => (parseBox b).map OptCover.Ev.pop
  | ["P", b] => (parseBox b).map OptCover.Ev.push
  | ["B", l, r] => do pure (OptCover.Ev.bis (← parseBox l) (← parseBox r))
  | ["C", i, o] => do pure (OptCover.Ev.ctc (← parseBox i) (← parseBox o))
  | _ => none

def opsOptim (op : String) (ins outs : List String) : Option String :=
  match op with
  | "optrun" | "optdefault" | "optresumeint" => do
    let c ← parseCase ins
    let res ← parseResult outs
    pure (verdict c res)
  | "optresume" =>
    match ins.reverse with
    | states :: _ :: rest => do
      let c ← parseCase rest.reverse
      let res ← parseResult outs
      let saved ← parseSaved states
      let v := verdict c res
      if !v.startsWith "ok" then pure v
      else if !carriedOk saved res then
        (match saved.getLast? with
         | some s => if !Ext.le res.loup s.loup then pure "FAIL resumed-loup-above-the-loup-at-the-interruption"
                     else if res.loup == s.loup && !(res.lp == s.lp) then pure "FAIL inherited-loup-point-not-carried-over"
                     else pure "FAIL loup-not-monotone-along-the-chain"
         | none => pure "FAIL no-saved-state")
      else pure (v ++ s!"-resumed{saved.length}")
    | _ => none
  | "optcover" =>
    match ins, outs with
    | [_, _, box, l0, evs], [st, uplo, _] => do
      let box ← parseBox box
      let l0 ← parseExt l0
      let uplo ← parseExt uplo
      let evs ← (if evs == "-" then some [] else (evs.splitOn ",").mapM parseOEv)
      -- threshold: the final uplo; for the verdict INFEASIBLE, the initial loup (no feasible point below it)
      let U := if st == "INFEASIBLE" then l0 else uplo
      let g := box.length
      let root := OptCover.extRoot box
      match OptCover.check g U root evs with
      | .ok _ => pure s!"ok cover-accepted-{st}"
      | .error e =>
        let k := (List.range (evs.length + 1)).find? fun k =>
          match (evs.take k).foldlM (OptCover.step g U) ⟨[], [root]⟩ with
          | .error _ => true
          | .ok _ => false
        pure ("FAIL cover-" ++ e.replace " " "-" ++ s!" at-event={k}")
    | _, _ => none
  | "optresumefresh" =>
    match outs with
    | [r] => pure (if r == "ok" then "ok fresh-data-saved-and-reloaded" else "FAIL fresh-CovOptimData-save-reload-" ++ r)
    | _ => none
  | "opterror" => pure ("FAIL library-aborted-or-threw " ++ " ".intercalate outs)
  | _ => none

end Ibex.Driver
