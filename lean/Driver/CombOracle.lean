/-
  C19 failing-input search: for synthetic leaves (finite unions of boxes) the logical set of a
  combinator tree is a finite union of cells of the grid of all coordinates that occur; point
  membership is decidable with exact rational arithmetic.  The oracle enumerates one representative
  per cell of the input box and decides the property itself on the implementation's output:
  every point of the input box that is in the set must remain in the output box.
  It does not look at the model evaluator at all (independent of `IbexModel/Comb.lean` semantics
  of flags, fix-point iteration, bisection ...).
-/
import IbexModel
import IbexModel.Comb
namespace Ibex.Comb.Oracle
open Ibex Ibex.Comb

abbrev RPt := List Rat

structure Leaves where
  ctc : Nat → List Box
  sepU : Nat → List Box
  sepV : Nat → List Box
  pdcU : Nat → List Box
  pdcV : Nat → List Box

def inItv (v : Rat) : Itv → Bool
  | .empty => false
  | .mk lo hi => Ext.le lo (.fin v) && Ext.le (.fin v) hi

def inBox (p : RPt) (b : Box) : Bool :=
  p.length == b.length && (List.zipWith inItv p b).all id

def isInt (q : Rat) : Bool := q.den == 1

/-! ### coordinates occurring in a tree, per dimension -/

structure Coords where
  cs : List (List Rat)
  ints : List Bool
deriving Inhabited

def Coords.empty (n : Nat) : Coords := { cs := List.replicate n [], ints := List.replicate n false }

def Coords.append (a b : Coords) : Coords :=
  { cs := List.zipWith (· ++ ·) a.cs b.cs, ints := List.zipWith (· || ·) a.ints b.ints }

def finBounds : Itv → List Rat
  | .mk lo hi => (match lo with | .fin a => [a] | _ => []) ++ (match hi with | .fin b => [b] | _ => [])
  | .empty => []

def boxCoords (n : Nat) (b : Box) : Coords :=
  if b.length == n then { cs := b.map finBounds, ints := List.replicate n false } else Coords.empty n

def boxesCoords (n : Nat) (l : List Box) : Coords :=
  l.foldl (fun acc b => acc.append (boxCoords n b)) (Coords.empty n)

partial def coordsP (L : Leaves) (n : Nat) : Pdc → Coords
  | .leaf i => (boxesCoords n (L.pdcU i)).append (boxesCoords n (L.pdcV i))
  | .and l => l.foldl (fun acc p => acc.append (coordsP L n p)) (Coords.empty n)
  | .or l => l.foldl (fun acc p => acc.append (coordsP L n p)) (Coords.empty n)
  | .not p => coordsP L n p

partial def coordsC (L : Leaves) (n : Nat) : Ctc → Coords
  | .leaf i => boxesCoords n (L.ctc i)
  | .compo l => l.foldl (fun acc c => acc.append (coordsC L n c)) (Coords.empty n)
  | .union l => l.foldl (fun acc c => acc.append (coordsC L n c)) (Coords.empty n)
  | .qinter l _ => l.foldl (fun acc c => acc.append (coordsC L n c)) (Coords.empty n)
  | .fix c _ => coordsC L n c
  | .integer m => { cs := List.replicate n [], ints := (List.range n).map fun i => m.getD i false }
  | .id => Coords.empty n
  | .empty => Coords.empty n
  | .exist c m _ _ _ => let i := coordsC L m.length c; { cs := projT m i.cs, ints := projT m i.ints }
  | .forAll c m _ _ _ => let i := coordsC L m.length c; { cs := projT m i.cs, ints := projT m i.ints }
  | .ofPdc p => coordsP L n p

partial def coordsS (L : Leaves) (n : Nat) : Sep → Coords
  | .leaf i => (boxesCoords n (L.sepU i)).append (boxesCoords n (L.sepV i))
  | .pair a b => (coordsC L n a).append (coordsC L n b)
  | .inter l => l.foldl (fun acc c => acc.append (coordsS L n c)) (Coords.empty n)
  | .union l => l.foldl (fun acc c => acc.append (coordsS L n c)) (Coords.empty n)
  | .qinter l _ => l.foldl (fun acc c => acc.append (coordsS L n c)) (Coords.empty n)
  | .not s => coordsS L n s

/-! ### representatives of the 1-D cells -/

def sortDedup (l : List Rat) : List Rat :=
  let a := l.toArray.qsort (· < ·)
  a.toList.foldr (fun x acc => match acc with | y :: _ => if x == y then acc else x :: acc | [] => [x]) []

/-- a non-integer point strictly inside (a,b) -/
def nonIntIn (a b : Rat) : Rat := Id.run do
  let mut L := (b - a) / 2
  for _ in [0:80] do
    if !isInt (a + L) then return a + L
    L := L / 2
  return a + L / 3

/-- an integer strictly inside (a,b), if any -/
def intIn (a b : Rat) : Option Rat :=
  let k : Rat := ((a.floor + 1 : Int) : Rat)
  if k < b then some k else none

def gapReps (int : Bool) (a b : Rat) : List Rat :=
  if int then [nonIntIn a b] ++ (match intIn a b with | some k => [k] | none => [])
  else [(a + b) / 2]

/-- representatives of all cells of the line cut at the coordinates `cs` (points, open gaps,
    the two unbounded ends) -/
def lineReps (int : Bool) (cs : List Rat) : List Rat :=
  match sortDedup cs with
  | [] => gapReps int (-2) 2
  | c0 :: rest =>
    let rec go (prev : Rat) : List Rat → List Rat
      | [] => gapReps int prev (prev + 2)
      | c :: cs => gapReps int prev c ++ [c] ++ go c cs
    gapReps int (c0 - 2) c0 ++ [c0] ++ go c0 rest

def product : List (List Rat) → List RPt
  | [] => [[]]
  | l :: ls => let r := product ls; l.flatMap fun v => r.map (v :: ·)

/-! ### membership of a rational point in the logical set of a tree -/

mutual
partial def pdcLo (L : Leaves) : Pdc → RPt → Bool
  | .leaf i, p => !(L.pdcV i).any (inBox p)
  | .and l, p => l.all (pdcLo L · p)
  | .or l, p => l.any (pdcLo L · p)
  | .not q, p => !pdcHi L q p
partial def pdcHi (L : Leaves) : Pdc → RPt → Bool
  | .leaf i, p => (L.pdcU i).any (inBox p)
  | .and l, p => l.all (pdcHi L · p)
  | .or l, p => l.any (pdcHi L · p)
  | .not q, p => !pdcLo L q p
end

/-- representatives of the cells of the parameter box `yinit` for the sub-tree `c` -/
def yReps (coords : Coords) (m : List Bool) (yinit : Box) : List RPt :=
  let ycs := projF m coords.cs
  let yin := projF m coords.ints
  let per := (List.range yinit.length).map fun j =>
    let I := yinit.getD j .empty
    let cs := (ycs.getD j []) ++ finBounds I
    (lineReps (yin.getD j false) cs).filter (inItv · I)
  product per

partial def memC (L : Leaves) : Ctc → RPt → Bool
  | .leaf i, p => (L.ctc i).any (inBox p)
  | .compo l, p => l.all (memC L · p)
  | .union l, p => l.any (memC L · p)
  | .fix c _, p => memC L c p
  | .qinter l q, p => decide (q ≤ (l.filter (memC L · p)).length)
  | .integer m, p => (List.zipWith (fun b v => !b || isInt v) m p).all id
  | .id, _ => true
  | .empty, _ => false
  | .exist c m yinit _ _, p =>
    (yReps (coordsC L m.length c) m yinit).any fun q => memC L c (merge m p q)
  | .forAll c m yinit _ _, p =>
    (yReps (coordsC L m.length c) m yinit).all fun q => memC L c (merge m p q)
  | .ofPdc t, p => !pdcLo L t p

mutual
partial def sepLo (L : Leaves) : Sep → RPt → Bool
  | .leaf i, p => !(L.sepV i).any (inBox p)
  | .pair cin _, p => !memC L cin p
  | .inter l, p => l.all (sepLo L · p)
  | .union l, p => l.any (sepLo L · p)
  | .not s, p => !sepHi L s p
  | .qinter l q, p => decide (l.length - q ≤ (l.filter (sepLo L · p)).length)
partial def sepHi (L : Leaves) : Sep → RPt → Bool
  | .leaf i, p => (L.sepU i).any (inBox p)
  | .pair _ cout, p => memC L cout p
  | .inter l, p => l.all (sepHi L · p)
  | .union l, p => l.any (sepHi L · p)
  | .not s, p => !sepLo L s p
  | .qinter l q, p => decide (l.length - q ≤ (l.filter (sepHi L · p)).length)
end

/-! ### the checks -/

/-- representatives of all cells of the input box `x` for the coordinates `co` (+ those of the
    implementation's outputs) -/
def boxReps (co : Coords) (x : Box) (outs : List Box) : List RPt :=
  let n := x.length
  let per := (List.range n).map fun j =>
    let I := x.getD j .empty
    let extra := outs.flatMap fun o => finBounds (o.getD j .empty)
    let cs := (co.cs.getD j []) ++ finBounds I ++ extra
    (lineReps (co.ints.getD j false) cs).filter (inItv · I)
  product per

/-- number of cells `boxReps` would enumerate -/
def cellCount (co : Coords) (x : Box) (outs : List Box) : Nat :=
  ((List.range x.length).map fun j =>
    let I := x.getD j .empty
    let extra := outs.flatMap fun o => finBounds (o.getD j .empty)
    2 * (sortDedup ((co.cs.getD j []) ++ finBounds I ++ extra)).length + 3).foldl (· * ·) 1

def subBox (o x : Box) : Bool := Box.isEmpty o || (o.length == x.length && Box.subset o x)

/-- `none` = the property holds on this input; `some msg` = violation with a witness point -/
def checkCtc (L : Leaves) (t : Ctc) (x out : Box) : Option String :=
  if !subBox out x then some "not-a-subbox" else
  if Box.isEmpty x then none else
  let reps := boxReps (coordsC L x.length t) x [out]
  match reps.find? (fun p => !inBox p out && memC L t p) with
  | some p => some ("lost-point " ++ ",".intercalate (p.map fun (q : Rat) => toString q))
  | none => none

def checkSep (L : Leaves) (t : Sep) (x xin xout : Box) : Option String :=
  if !subBox xin x || !subBox xout x then some "not-a-subbox" else
  if Box.isEmpty x then none else
  let reps := boxReps (coordsS L x.length t) x [xin, xout]
  match reps.find? (fun p => !inBox p xin && !sepLo L t p) with
  | some p => some ("removed-from-inner-but-not-in-set " ++ ",".intercalate (p.map fun (q : Rat) => toString q))
  | none =>
    match reps.find? (fun p => !inBox p xout && sepHi L t p) with
    | some p => some ("removed-from-outer-but-in-set " ++ ",".intercalate (p.map fun (q : Rat) => toString q))
    | none => none

end Ibex.Comb.Oracle
