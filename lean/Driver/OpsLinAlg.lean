/- C15 workloads: interval linear algebra (harness/h_lin.cpp). -/
import IbexModel
import Driver.Proto
import Driver.OpsBox
import Driver.OpsExpr
namespace Ibex.Driver.LA
open Ibex Ibex.Proto Ibex.LinAlg

def rowsOf (m : Mat α) : List (List α) := (List.range m.r).map m.row

/-- real matrix token `r.c.hex/hex/...` (finite doubles only) -/
def parseMatQ (s : String) : Option (Mat Rat) :=
  match s.splitOn "." with
  | [r, c, d] => do
    let r ← r.toNat?; let c ← c.toNat?
    let d ← (d.splitOn "/").mapM parseRatDbl
    if d.length == r * c then some ⟨r, c, d⟩ else none
  | _ => none

def splitInsts (s : String) : List String := if s == "-" then [] else s.splitOn "|"

/-- instances that parse (non-finite ones are dropped) -/
def parseMatInsts (s : String) : List (Mat Rat) := (splitInsts s).filterMap parseMatQ

/-- linear-system instances `A_k@x_k` -/
def parseSysInsts (s : String) : List (Mat Rat × List Rat) :=
  (splitInsts s).filterMap fun t =>
    match t.splitOn "@" with
    | [a, x] => do let a ← parseMatQ a; let x ← parseMatQ x; pure (a, x.d)
    | _ => none

def parsePerm (s : String) : Option (List Nat) := (s.splitOn ".").mapM (·.toNat?)

def sameDim (a : Mat α) (b : Mat β) : Bool := a.r == b.r && a.c == b.c

/-- the valid planted solutions of `([A],[b],[x])`: `A_k ∈ [A]`, `x_k ∈ [x]` (when a box is given), `A_k x_k ∈ [b]` -/
def validSys (A : Mat Itv) (b : List Itv) (x : Option (List Itv)) (insts : List (Mat Rat × List Rat)) : List (QMat × QVec) :=
  insts.filterMap fun (a, xk) =>
    let ar := rowsOf a
    if sameDim a A && xk.length == A.c && LinAlg.matIn ar (rowsOf A) && LinAlg.vecIn (LinAlg.mulVecQ ar xk) b
        && (match x with | some X => LinAlg.vecIn xk X | none => true)
    then some (ar, xk) else none

def validMats (A : Mat Itv) (insts : List (Mat Rat)) : List QMat :=
  insts.filterMap fun a => if sameDim a A && LinAlg.matIn (rowsOf a) (rowsOf A) then some (rowsOf a) else none

def showQ (q : Rat) : String := toString q
def showQVec (v : List Rat) : String := ",".intercalate (v.map showQ)

/-- membership of a rational vector in an implementation box (an empty box contains nothing) -/
def inBox (x : List Rat) (b : Box) : Bool := !Box.isEmpty b && LinAlg.vecIn x b

def excOf (s : String) : Option String := if s.startsWith "exc:" then some (s.drop 4).toString else none

def flatIn (q : QMat) (z : Mat Itv) : Bool := LinAlg.matIn q (rowsOf z)

def opsLinAlg (op : String) (ins outs : List String) : Option String :=
  match op, ins, outs with
  -- ------------------------------------------------------------------ Gauss–Seidel
  | "gs", [a, b, x, _ratio, insts], [x'] => do
    let A ← parseMatItv a; let b ← parseMatItv b; let X ← parseBox x
    if (excOf x').isSome then pure s!"FAIL undocumented-exception {x'}" else
    let X' ← parseBox x'
    if !(A.r == b.d.length && A.c == X.length && b.c == 1) then none else
    let valid := validSys A b.d (some X) (parseSysInsts insts)
    match valid.find? (fun (_, xk) => !inBox xk X') with
    | some (_, xk) => pure s!"FAIL planted-solution-lost x*={showQVec xk}"
    | none =>
      let (M, conv) := LinAlg.gsIter 40 (rowsOf A) b.d X
      let shape := if Box.isEmpty X' then "emptied" else if X' == X then "unchanged" else "contracted"
      if Box.subset M X' then pure s!"ok all-kept-{shape} planted={valid.length}"
      else if conv then pure s!"FAIL tighter-than-the-exact-gauss-seidel-fixpoint model={showBox M}"
      else pure s!"ok planted-kept-{shape}(model-not-stationary) planted={valid.length}"
  | "igs", [a, b, x, _md, _mu, insts], out => do
    let A ← parseMatItv a; let b ← parseMatItv b; let X ← parseBox x
    match out with
    | [x', _ret] =>
      let X' ← parseBox x'
      if !(A.r == b.d.length && A.c == X.length && A.r == A.c) then none else
      let valid := validSys A b.d (some X) (parseSysInsts insts)
      match valid.find? (fun (_, xk) => !inBox xk X') with
      | some (_, xk) => pure s!"FAIL planted-solution-lost x*={showQVec xk}"
      | none =>
        if LinAlg.inflOk 400 (rowsOf A) b.d X X' then pure s!"ok all-kept planted={valid.length}"
        else pure (if valid.isEmpty then "ok no-valid-instance" else s!"ok planted-kept(no-model-iterate-inside) planted={valid.length}")
    | [e] => pure s!"FAIL undocumented-exception {e}"
    | _ => none
  -- ------------------------------------------------------------------ preconditioning
  | "precond", [a, b, c, insts], out => do
    let A ← parseMatItv a; let bv ← parseMatItv b
    if !(A.r == A.c && bv.d.length == A.r) then none else
    match out with
    | [e, a2, b2] =>
      if e != "exc:SingularMatrixException" then pure s!"FAIL undocumented-exception {e}"
      else pure (if a2 == a && b2 == b then "ok exc-singular-unchanged" else "FAIL modified-although-exception")
    | [a', b'] =>
      let A' ← parseMatItv a'; let B' ← parseMatItv b'
      if !(sameDim A A' && B'.d.length == A.r) then pure "FAIL result-dimensions" else
      let valid := validSys A bv.d none (parseSysInsts insts)
      match valid.find? (fun (_, xk) => !LinAlg.sigmaMem (rowsOf A') B'.d xk) with
      | some (_, xk) => pure s!"FAIL planted-solution-not-in-preconditioned-system x*={showQVec xk}"
      | none =>
        let viaC : Bool := match (if c == "-" then none else parseMatQ c) with
          | some C => LinAlg.precondOk A.c (rowsOf C) (rowsOf A) bv.d (rowsOf A') B'.d
          | none => false
        pure (if viaC then s!"ok all-kept(C) planted={valid.length}" else s!"ok planted-kept planted={valid.length}")
    | _ => none
  | "precondA", [a, c], out => do
    let A ← parseMatItv a
    match out with
    | [e, a2] =>
      if e != "exc:SingularMatrixException" then pure s!"FAIL undocumented-exception {e}"
      else pure (if a2 == a then "ok exc-singular-unchanged" else "FAIL modified-although-exception")
    | [a'] =>
      let A' ← parseMatItv a'
      match (if c == "-" then none else parseMatQ c) with
      | some C => pure (if LinAlg.matSubset (LinAlg.mulCI A.c (rowsOf C) (rowsOf A)) (rowsOf A') then "ok all-kept(C)" else "FAIL not-enclosing-C*A")
      | none => pure "ok unchecked-no-C"
    | _ => none
  -- ------------------------------------------------------------------ Hansen–Bliek
  | "hb", [a, b, insts], [x'] => do
    let A ← parseMatItv a; let b ← parseMatItv b
    match excOf x' with
    | some e => pure (if e == "SingularMatrixException" || e == "NotInversePositiveMatrixException" then s!"ok exc-{e}" else s!"FAIL undocumented-exception {e}")
    | none =>
      let X' ← parseBox x'
      let valid := validSys A b.d none (parseSysInsts insts)
      match valid.find? (fun (_, xk) => !inBox xk X') with
      | some (ak, xk) => pure s!"FAIL planted-solution-outside x*={showQVec xk} A={ak}"
      | none => pure (if valid.isEmpty then "ok no-valid-instance" else s!"ok planted-enclosed planted={valid.length}")
  -- ------------------------------------------------------------------ inverse enclosures
  | kind@("ninv"), [a, insts], [z] | kind@("rinv"), [a, insts], [z] => do
    let A ← parseMatItv a
    match excOf z with
    | some e =>
      if A.r != A.c then pure (if e == "NotSquareMatrixException" then "ok exc-not-square" else s!"FAIL wrong-exception {e}")
      else pure (if e == "SingularMatrixException" then "ok exc-singular" else s!"FAIL undocumented-exception {e}")
    | none =>
      if A.r != A.c then pure "FAIL no-exception-on-rectangular-matrix" else
      let Z ← parseMatItv z
      if !sameDim Z A then pure "FAIL result-dimensions" else
      let n := A.r
      let valid := validMats A (parseMatInsts insts)
      let bad := valid.findSome? fun Ak =>
        match LinAlg.inverseQ n Ak with
        | none => some s!"FAIL singular-instance-but-enclosure-returned({kind}) A={Ak}"
        | some B =>
          if !LinAlg.isInverse n Ak B then some "bad-op internal-inverse"
          else if flatIn B Z then none else some s!"FAIL inverse-of-instance-outside({kind}) A={Ak}"
      match bad with
      | some r => pure r
      | none => pure s!"ok inverses-enclosed n={n} instances={valid.length}"
  -- ------------------------------------------------------------------ determinant
  | "det", [a, insts], [z] => do
    let A ← parseMatItv a
    match excOf z with
    | some e =>
      if A.r != A.c then pure (if e == "NotSquareMatrixException" then "ok exc-not-square" else s!"FAIL wrong-exception {e}")
      else pure (if e == "SingularMatrixException" then "ok exc-singular" else s!"FAIL undocumented-exception {e}")
    | none =>
      if A.r != A.c then pure "FAIL no-exception-on-rectangular-matrix" else
      let D ← parseItv z
      let n := A.r
      let valid := validMats A (parseMatInsts insts)
      match valid.find? (fun Ak => !LinAlg.ratIn (LinAlg.detQ n Ak) D) with
      | some Ak => pure s!"FAIL determinant-of-instance-outside det={showQ (LinAlg.detQ n Ak)} A={Ak}"
      | none =>
        if LinAlg.thickCount (rowsOf A) ≤ 9 then
          match LinAlg.matVertices (rowsOf A) with
          | some vs =>
            pure (if LinAlg.detVerticesIn n vs D then s!"ok all-instances(vertices={vs.length})"
                  else s!"FAIL determinant-of-vertex-outside")
          | none => pure s!"ok sampled instances={valid.length}"
        else pure s!"ok sampled instances={valid.length}"
  -- ------------------------------------------------------------------ interval LU
  | kind@("ilu"), [a, insts], out | kind@("ilu2"), [a, insts], out => do
    let A ← parseMatItv a
    match out with
    | [e] => pure (if e == "exc:SingularMatrixException" then "ok exc-singular" else s!"FAIL undocumented-exception {e}")
    | lu :: ps =>
      let LU ← parseMatItv lu
      let (pr, pc) ← (match kind, ps with
        | "ilu", [p] => do let p ← parsePerm p; pure (p, List.range A.c)
        | "ilu2", [p, q] => do let p ← parsePerm p; let q ← parsePerm q; pure (p, q)
        | _, _ => none)
      if !sameDim LU A then pure "FAIL result-dimensions" else
      if !(LinAlg.isPerm A.r pr && LinAlg.isPerm A.c pc) then pure "FAIL not-a-permutation" else
      let valid := validMats A (parseMatInsts insts)
      let bad := valid.findSome? fun Ak =>
        match LinAlg.luReplay A.r A.c pr pc (rowsOf LU) Ak with
        | .error i => some s!"FAIL pivot-of-instance-outside step={i} A={Ak}"
        | .ok M =>
          if !LinAlg.luFactorOk A.r A.c pr pc M Ak then some "bad-op internal-lu-replay"
          else if flatIn M LU then none else some s!"FAIL LU-of-instance-outside A={Ak}"
      match bad with
      | some r => pure r
      | none => pure s!"ok LU-encloses instances={valid.length}"
    | _ => none
  | "frank", [a, insts], [z] => do
    let A ← parseMatItv a; let z ← parseBool z
    if !z then pure "ok no-claim" else
    let valid := validMats A (parseMatInsts insts)
    match valid.findSome? (fun Ak => (LinAlg.deficiencyWitness A.r A.c Ak).map fun w => (Ak, w)) with
    | some (Ak, w) => pure s!"FAIL rank-deficient-instance witness={showQVec w} A={Ak}"
    | none =>
      let sampled := s!"ok sampled-full-rank instances={valid.length}"
      if A.r != A.c then
        -- rectangular: a square sub-matrix (all rows / all columns) regular for every instance
        let k := if A.r < A.c then A.r else A.c
        let cands : List (List Nat × List Nat) :=
          if A.r < A.c then (LinAlg.choose k (List.range A.c)).map fun cs => (List.range A.r, cs)
          else (LinAlg.choose k (List.range A.r)).map fun rs => (rs, List.range A.c)
        let ok := cands.any fun (rs, cs) =>
          let S := LinAlg.subI rs cs (rowsOf A)
          (LinAlg.thickCount S ≤ 9 && (match LinAlg.matVertices S with
            | some vs => LinAlg.detVerticesSameSign k vs
            | none => false)) ||
          (match LinAlg.midQ S with
            | some Mid => match LinAlg.inverseQ k Mid with
              | some C => LinAlg.betaOk k C S
              | none => false
            | none => false)
        pure (if ok then "ok all-instances-full-rank(minor)" else sampled)
      else
      let viaBeta : Bool := match LinAlg.midQ (rowsOf A) with
        | some Mid => match LinAlg.inverseQ A.r Mid with
          | some C => LinAlg.betaOk A.r C (rowsOf A)
          | none => false
        | none => false
      if LinAlg.thickCount (rowsOf A) ≤ 9 then
        match LinAlg.matVertices (rowsOf A) with
        | some vs => pure (if LinAlg.detVerticesSameSign A.r vs then s!"ok all-instances-regular(vertices={vs.length})"
                           else "FAIL vertex-determinants-vanish-or-change-sign")
        | none => pure (if viaBeta then "ok all-instances-regular(beta)" else sampled)
      else pure (if viaBeta then "ok all-instances-regular(beta)" else sampled)
  | "rlu", [a], [z] => do
    let A ← parseMatQ a
    match excOf z with
    | some e => pure (if e == "SingularMatrixException" then "ok exc-singular" else s!"FAIL undocumented-exception {e}")
    | none => let p ← parsePerm z; pure (if LinAlg.isPerm A.r p then "ok permutation" else "FAIL not-a-permutation")
  -- ------------------------------------------------------------------ certificates
  | "dd", [a], [z] => do
    let A ← parseMatItv a; let z ← parseBool z
    let ex := LinAlg.ddOk (rowsOf A)
    pure (if z then (if ex then "ok certified-dominant" else "FAIL not-strictly-diagonally-dominant")
          else (if ex then "ok conservative-false" else "ok no-claim"))
  | kind@("pds"), [a, insts], [z] | kind@("pdr"), [a, insts], [z] => do
    let A ← parseMatItv a
    match excOf z with
    | some e =>
      pure (if kind == "pdr" && A.r != A.c && e == "NotSquareMatrixException" then "ok exc-not-square" else s!"FAIL undocumented-exception {e}")
    | none =>
      let z ← parseBool z
      if kind == "pdr" && A.r != A.c then pure "FAIL no-exception-on-rectangular-matrix" else
      let n := A.r
      let valid := (validMats A (parseMatInsts insts)).filter (LinAlg.isSymmQ n)
      if !z then pure (if valid.all (LinAlg.sylvesterQ n) && !valid.isEmpty then "ok conservative-false" else "ok no-claim") else
      match valid.find? (fun Ak => !LinAlg.sylvesterQ n Ak) with
      | some Ak =>
        match LinAlg.notPDWitness n Ak with
        | some v => pure s!"FAIL instance-not-positive-definite v={showQVec v} vAv={showQ (LinAlg.quadQ Ak v)} A={Ak}"
        | none => pure "bad-op internal-no-witness"
      | none =>
        pure (if LinAlg.pdCertFind n (rowsOf A) then s!"ok all-instances-positive-definite(cert) instances={valid.length}"
              else s!"ok sampled-positive-definite instances={valid.length}")
  | _, _, _ => none

end Ibex.Driver.LA
