/- C18 workloads (first half): COV file format.
   covsave <kind> <tag> <hex bytes written by save()> <dump of the object built> => ok <dump of the object reloaded> | error <msg> | crash <sig>
   covload <kind> <tag> <hex bytes of a file>                                    => ok <dump of the object loaded>   | error <msg> | crash <sig>
   kind = cov|list|iu|ibu|man|sol|opt (class of the object saved / of the constructor used to load).
   Further ops of C18 (interrupted search / resume) can be added to `opsCov`. -/
import IbexModel
import Driver.Proto
namespace Ibex.Driver
open Ibex Ibex.Cov

namespace CovShow

def hexDigit (n : Nat) : Char := if n < 10 then Char.ofNat (48 + n) else Char.ofNat (87 + n)

def hexN : Nat → Nat → List Char
  | 0, _ => []
  | k + 1, x => hexN k (x / 16) ++ [hexDigit (x % 16)]

def hex64 (x : UInt64) : String := String.ofList (hexN 16 x.toNat)
def hexByte (b : UInt8) : String := String.ofList (hexN 2 b.toNat)

def nibble (c : Char) : Option Nat :=
  if '0' ≤ c ∧ c ≤ '9' then some (c.toNat - 48)
  else if 'a' ≤ c ∧ c ≤ 'f' then some (c.toNat - 87)
  else none

def parseHexBytes : List Char → Option Bytes
  | [] => some []
  | [_] => none
  | a :: b :: t => do
    let x ← nibble a
    let y ← nibble b
    let r ← parseHexBytes t
    pure (UInt8.ofNat (16 * x + y) :: r)

def parseBytes (s : String) : Option Bytes :=
  if s == "-" then some [] else parseHexBytes s.toList

def parseKind : String → Option Kind
  | "cov" => some .cov | "list" => some .list | "iu" => some .iu | "ibu" => some .ibu
  | "man" => some .man | "sol" => some .sol | "opt" => some .opt | _ => none

def join (sep : String) (l : List String) (empty : String := "-") : String :=
  if l.isEmpty then empty else sep.intercalate l

def showItv (x : RawItv) : String := let y := normItv x; hex64 y.1 ++ ":" ++ hex64 y.2
def showBox (b : RawBox) : String := join "," (b.map showItv) "_"
def showNats (l : List Nat) : String := join "," (l.map toString)
def showName (s : Bytes) : String := if s.isEmpty then "~" else String.join (s.map hexByte)

def range (n : Nat) : List Nat := List.range n

/-- statuses of all boxes, then for each listed status letter the indices having it -/
def showStatus (size : Nat) (st : Nat → Char) (letters : List Char) : String :=
  let idx := range size
  let s := String.ofList (idx.map st)
  let lists := letters.map (fun c => showNats (idx.filter (fun i => st i == c)))
  (if size == 0 then "-" else s) ++ ";" ++ ";".intercalate lists

def sortNat (l : List Nat) : List Nat := l.mergeSort (· ≤ ·)
def showVarset (vs : List Nat) : String := join "." ((sortNat vs).map toString)

/-- the content of a loaded object of class `k`, as exposed by the API (tokens) -/
def dump (k : Kind) (f : CovFile) : List String :=
  let n := f.n
  let size := f.size
  let t0 := ["n=" ++ toString n]
  let t1 := if k.wList then ["sz=" ++ toString size, "bx=" ++ join "|" (f.boxes.map showBox)] else []
  let t2 := if k.wIU then ["iu=" ++ showStatus size f.iuStatus ['I', 'U']] else []
  let t3 := if k.wIBU then
      let bt := match f.ibu with | some l => l.btype | none => (if k == Kind.ibu then 0 else 1)
      ["ibt=" ++ toString bt, "ibu=" ++ showStatus size f.ibuStatus ['B', 'U']] else []
  let t4 := if k.wMan then
      let (m, q, bt) := match f.man with | some l => (l.m, l.nbIneq, l.btype) | none => (0, 0, 0)
      let sols := match f.man with
        | some l => if l.m > 0 then l.sols.map (fun s => toString s.idx ++ "/" ++
              (if l.m < n then showVarset s.varset else "-") ++ "/" ++ showBox s.unicity) else []
        | none => []
      let bnds := match f.man with
        | some l => l.bnds.map (fun b => toString b.idx ++ "/" ++ (if 0 < l.m ∧ l.m < n then showVarset b.varset else "-"))
        | none => []
      ["m=" ++ toString m, "q=" ++ toString q, "mbt=" ++ toString bt,
       "man=" ++ showStatus size f.manStatus ['S', 'B', 'U'],
       "sol=" ++ join "|" sols, "bnd=" ++ join "|" bnds] else []
  let t5 := if k.wSol then
      match f.sol with
      | some l => ["nm=" ++ join "," (l.names.map showName), "st=" ++ toString l.status, "t=" ++ hex64 l.time,
                   "c=" ++ toString l.nbCells, "slv=" ++ showStatus size f.solStatus ['P', 'U']]
      | none => ["nm=-", "st=0", "t=" ++ hex64 dMinusOne, "c=0", "slv=" ++ showStatus size f.solStatus ['P', 'U']]
    else []
  let t6 := if k.wOpt then
      match f.opt with
      | some l =>
        let nbVar := if l.ext ≠ 0 then n - 1 else n
        -- `loup_point = loup_found==1 ? cov[0].subvector(0,nb_var-1) : empty(nb_var)`; assigning a vector whose first
        -- component is empty sets every component to the empty interval
        let cand : RawBox := ((f.boxes.headD []).map normItv).take nbVar
        let lp : RawBox := if l.loupFound == 1 && !(isEmptyItv (cand.headD (0, 0))) then cand
                           else List.replicate nbVar (dNaN, dNaN)
        ["nm=" ++ join "," (l.names.map showName), "st=" ++ toString l.status,
         "ext=" ++ (if l.ext ≠ 0 then "1" else "0"), "uplo=" ++ hex64 l.uplo, "ueps=" ++ hex64 l.uploEps,
         "loup=" ++ hex64 l.loup, "lp=" ++ join "," (lp.map showItv), "t=" ++ hex64 l.time, "c=" ++ toString l.nbCells]
      | none =>
        ["nm=-", "st=0", "ext=0", "uplo=" ++ hex64 dNInf, "ueps=" ++ hex64 dPInf, "loup=" ++ hex64 dPInf,
         "lp=" ++ join "," ((List.replicate n (dNaN, dNaN)).map showItv), "t=" ++ hex64 dMinusOne, "c=0"]
    else []
  t0 ++ t1 ++ t2 ++ t3 ++ t4 ++ t5 ++ t6

end CovShow
open CovShow

def covSave (k : Kind) (bytes : Bytes) (built : List String) (outs : List String) : String :=
  match decode k bytes with
  | .error e => "FAIL model-rejects-saved-file " ++ e.name
  | .ok (f, rest) =>
    if !rest.isEmpty then "FAIL saved-file-has-trailing-bytes " ++ toString rest.length
    else if !WF k f then "FAIL content-of-saved-file-not-WF"
    else if encode f != bytes then "FAIL reencode-differs"
    else
      let d := dump k f
      if d != built then "FAIL file-content-differs-from-object file=" ++ " ".intercalate d
      else match outs with
        | "ok" :: loaded =>
          if loaded == built then "ok " ++ (if f.size == 0 then "empty" else "nonempty")
          else "FAIL reloaded-object-differs"
        | "error" :: _ => "FAIL reload-rejected-own-file"
        | "crash" :: _ => "FAIL reload-crashed-on-own-file"
        | _ => "bad-op"

def covLoad (k : Kind) (bytes : Bytes) (outs : List String) : String :=
  -- the reader ran out of memory (256 MB limit in the harness) or produced more than 20000 boxes: a resource
  -- limit, not a decision about the file (dimension 0 and 10^9 boxes is a valid file of 28 bytes);
  -- the model is not run on it
  if outs == ["error", "resource_bad_alloc"] || outs == ["error", "resource_big_list"] then "ok resource-limit" else
  match decode k bytes, outs with
  | .error e, "error" :: _ => "ok reject-" ++ e.name
  | .error e, "ok" :: _ => "FAIL impl-accepts-file-rejected-by-format model=" ++ e.name
  | .error e, "crash" :: _ => "FAIL impl-crashes model=reject-" ++ e.name
  | .ok (f, rest), "ok" :: loaded =>
    let d := dump k f
    if loaded == d then (if rest.isEmpty then "ok accept" else "ok accept-trailing")
    else "FAIL loaded-content-differs model=" ++ " ".intercalate d
  | .ok _, "error" :: _ => "FAIL impl-rejects-file-accepted-by-format"
  | .ok _, "crash" :: _ => "FAIL impl-crashes model=accept"
  | _, _ => "bad-op"

def opsCov (op : String) (ins outs : List String) : Option String :=
  match op, ins with
  | "covsave", k :: _tag :: hex :: built => do
    let k ← parseKind k
    let bytes ← parseBytes hex
    pure (covSave k bytes built outs)
  | "covload", [k, _tag, hex] => do
    let k ← parseKind k
    let bytes ← parseBytes hex
    pure (covLoad k bytes outs)
  | _, _ => none

end Ibex.Driver
