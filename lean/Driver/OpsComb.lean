/-
  C19 workloads: combinator trees over synthetic leaves.

    comb <n> <ctc-tree> <leaf defs...> @ <x1> <x2> ... => <out1> <out2> ...
    sep  <n> <sep-tree> <leaf defs...> @ <x1> ...      => <in1> <out1> ... pre=<0|1>
    pdc  <n> <pdc-tree> <leaf defs...> @ <x1> ...      => <Y|N|M|E> ...
    qint <n> <q> <box>|<box>|...                       => <box>
    cst  <n> <tree over constraint leaves> <constraint defs...> @ <x> <points> => <out>

  Verdict: equal to the model evaluator (whose soundness is proved for all trees / inputs) -> ok;
  otherwise the exact cell oracle decides the property itself on the implementation's output:
  a lost point of the set / a result that is not a sub-box -> FAIL, else `ok differs-sound`.
-/
import IbexModel
import IbexModel.Comb
import Driver.Proto
import Driver.OpsItv
import Driver.OpsBox
import Driver.CombOracle
namespace Ibex.Driver.CombOps
open Ibex Ibex.Proto Ibex.Comb

/-! ### generic syntax tree  name[param](arg,...) -/

inductive Node where
  | mk (name : String) (param : String) (args : List Node)
deriving Inhabited

mutual
partial def parseNode (s : List Char) : Option (Node × List Char) :=
  let (nm, r) := s.span fun c => c.isAlphanum
  if nm.isEmpty then none else
  let (param, r) : String × List Char :=
    match r with
    | '[' :: r' => let (p, r'') := r'.span (· != ']'); (String.ofList p, r''.drop 1)
    | _ => ("", r)
  match r with
  | '(' :: r' =>
    match parseArgs r' [] with
    | some (args, r'') => some (.mk (String.ofList nm) param args, r'')
    | none => none
  | _ => some (.mk (String.ofList nm) param [], r)
partial def parseArgs (s : List Char) (acc : List Node) : Option (List Node × List Char) :=
  match parseNode s with
  | none => none
  | some (n, r) =>
    match r with
    | ',' :: r' => parseArgs r' (n :: acc)
    | ')' :: r' => some ((n :: acc).reverse, r')
    | _ => none
end

def parseTree (s : String) : Option Node :=
  match parseNode s.toList with
  | some (n, []) => some n
  | _ => none

def leafId (pre : Char) (nm : String) : Option Nat :=
  match nm.toList with
  | c :: ds => if c == pre && !ds.isEmpty && ds.all Char.isDigit then (String.ofList ds).toNat? else none
  | [] => none

def parseMask (s : String) : Option (List Bool) :=
  s.toList.mapM fun c => if c == '1' then some true else if c == '0' then some false else none

partial def toPdc : Node → Option Pdc
  | .mk nm _ args =>
    match leafId 'P' nm with
    | some i => if args.isEmpty then some (.leaf i) else none
    | none =>
      match nm, args with
      | "and", l => (l.mapM toPdc).map .and
      | "or", l => (l.mapM toPdc).map .or
      | "not", [p] => (toPdc p).map .not
      | _, _ => none

def parseBoxN (n : Nat) (s : String) : Option Box :=
  if s == "E" then some (List.replicate n Itv.empty) else
  match (s.splitOn ";").mapM parseItv with
  | some b => if b.length == n then some b else none
  | none => none

partial def toCtc : Node → Option Ctc
  | .mk nm param args =>
    match leafId 'L' nm with
    | some i => if args.isEmpty then some (.leaf i) else none
    | none =>
      match nm, args with
      | "compo", l => (l.mapM toCtc).map .compo
      | "union", l => (l.mapM toCtc).map .union
      | "fix", [c] => do let r ← parseExt param; let c ← toCtc c; pure (.fix c r)
      | "qinter", l => do let q ← param.toNat?; let l ← l.mapM toCtc; pure (.qinter l q)
      | "int", [] => (parseMask param).map .integer
      | "id", [] => some .id
      | "empty", [] => some .empty
      | "cpdc", [p] => (toPdc p).map .ofPdc
      | "exist", [c] => quant true param c
      | "forall", [c] => quant false param c
      | _, _ => none
where quant (ex : Bool) (param : String) (c : Node) : Option Ctc :=
  match param.splitOn "/" with
  | [m, y, p, r] => do
    let m ← parseMask m
    let nparam := (m.filter (!·)).length
    let y ← parseBoxN nparam y
    let p ← parseExt p
    let r ← parseRatDbl r
    let c ← toCtc c
    pure (if ex then .exist c m y p r else .forAll c m y p r)
  | _ => none

partial def toSep : Node → Option Sep
  | .mk nm param args =>
    match leafId 'S' nm with
    | some i => if args.isEmpty then some (.leaf i) else none
    | none =>
      match nm, args with
      | "pair", [a, b] => do let a ← toCtc a; let b ← toCtc b; pure (.pair a b)
      | "inter", l => (l.mapM toSep).map .inter
      | "union", l => (l.mapM toSep).map .union
      | "not", [s] => (toSep s).map .not
      | "qinter", l => do let q ← param.toNat?; let l ← l.mapM toSep; pure (.qinter l q)
      | _, _ => none

/-! ### leaf definitions -/

def parseBoxList (s : String) : Option (List Box) :=
  if s == "-" then some [] else (s.splitOn "|").mapM fun t => (t.splitOn ";").mapM parseItv

structure LeafTab where
  ctc : List (Nat × LeafCfg) := []
  sep : List (Nat × List Box × List Box) := []
  pdc : List (Nat × List Box × List Box) := []

def parseLeafDef (tab : LeafTab) (tok : String) : Option LeafTab :=
  match tok.splitOn "=" with
  | [nm, a, b] =>
    match leafId 'L' nm, leafId 'S' nm, leafId 'P' nm with
    | some i, _, _ => do
      let fl ← parseMask a
      let bs ← parseBoxList b
      match fl with
      | [f, ia] => pure { tab with ctc := (i, { boxes := bs, setFix := f, setInact := ia }) :: tab.ctc }
      | _ => none
    | _, some i, _ => do
      let u ← parseBoxList a; let v ← parseBoxList b
      pure { tab with sep := (i, u, v) :: tab.sep }
    | _, _, some i => do
      let u ← parseBoxList a; let v ← parseBoxList b
      pure { tab with pdc := (i, u, v) :: tab.pdc }
    | _, _, _ => none
  | _ => none

def LeafTab.syn (t : LeafTab) : SynLeaves :=
  { ctc := fun i => (t.ctc.lookup i).getD { boxes := [] }
    sep := fun i => (t.sep.lookup i).getD ([], [])
    pdc := fun i => (t.pdc.lookup i).getD ([], []) }

def LeafTab.env (t : LeafTab) : Env := t.syn.env

def LeafTab.leaves (t : LeafTab) : Oracle.Leaves :=
  { ctc := fun i => match t.ctc.lookup i with | some L => L.boxes | none => []
    sepU := fun i => match t.sep.lookup i with | some (u, _) => u | none => []
    sepV := fun i => match t.sep.lookup i with | some (_, v) => v | none => []
    pdcU := fun i => match t.pdc.lookup i with | some (u, _) => u | none => []
    pdcV := fun i => match t.pdc.lookup i with | some (_, v) => v | none => [] }

def splitAt (l : List String) : List String × List String :=
  let (a, b) := l.span (· != "@")
  (a, b.drop 1)

def fuel : Nat := 20000

/-- outputs equal to the model are additionally submitted to the cell oracle when the grid has at most
    this number of cells (outputs different from the model always are) -/
def oracleCap : Nat := 4000

/-- summary tag of a list of per-call results -/
structure Acc where
  fail : Option String := none
  differs : Bool := false
  contracted : Bool := false
  nonempty : Bool := false

def Acc.verdict (a : Acc) : String :=
  match a.fail with
  | some m => "FAIL " ++ m
  | none =>
    if a.differs then "ok differs-sound"
    else if a.contracted then "ok eq-contracted"
    else if a.nonempty then "ok eq-unchanged"
    else "ok eq-empty"

def showB (b : Box) : String := showBox b

def combLine (always : Bool) (ins outs : List String) : Option String := do
  let (hd, xs) := splitAt ins
  match hd with
  | n :: tree :: defs =>
    let n ← n.toNat?
    let t ← (parseTree tree).bind toCtc
    let tab ← defs.foldlM parseLeafDef ({} : LeafTab)
    if xs.length != outs.length then none else
    let env := tab.env
    let f := Ctc.eval env fuel t
    let mut acc : Acc := {}
    for (xs, os) in xs.zip outs do
      let x ← parseBoxN n xs
      if os == "EXC" then
        if acc.fail.isNone then acc := { acc with fail := some ("exception-escaped x=" ++ xs) }
      else
        let o ← parseBoxN n os
        let m := f x (allImp x)
        if m.fl.gaveUp then
          if acc.fail.isNone then acc := { acc with fail := some ("model-gave-up x=" ++ xs) }
        else if showB m.box == showB o &&
            !((always || Oracle.cellCount (Oracle.coordsC tab.leaves n t) x [o] ≤ oracleCap) && (Oracle.checkCtc tab.leaves t x o).isSome) then
          acc := { acc with contracted := acc.contracted || (!Box.isEmpty o && showB o != showB x),
                            nonempty := acc.nonempty || !Box.isEmpty o }
        else
          match Oracle.checkCtc tab.leaves t x o with
          | some msg => if acc.fail.isNone then acc := { acc with fail := some (msg ++ " x=" ++ xs ++ " impl=" ++ os ++ " model=" ++ showB m.box) }
          | none => acc := { acc with differs := true }
    pure acc.verdict
  | _ => none

def sepLine (always : Bool) (ins outs : List String) : Option String := do
  let (hd, xs) := splitAt ins
  match hd with
  | n :: tree :: defs =>
    let n ← n.toNat?
    let t ← (parseTree tree).bind toSep
    let tab ← defs.foldlM parseLeafDef ({} : LeafTab)
    if outs.length != 2 * xs.length + 1 then none else
    let pre := outs.getLast!
    let env := tab.env
    let f := Sep.eval env fuel t
    let mut acc : Acc := {}
    if pre != "pre=1" then acc := { acc with fail := some "sub-separator-called-with-x_in!=x_out" }
    let mut os := outs
    for xs in xs do
      let x ← parseBoxN n xs
      match os with
      | si :: so :: rest =>
        os := rest
        let i ← parseBoxN n si
        let o ← parseBoxN n so
        let m := f x
        if m.gaveUp then
          if acc.fail.isNone then acc := { acc with fail := some ("model-gave-up x=" ++ xs) }
        else if showB m.xin == showB i && showB m.xout == showB o &&
            !((always || Oracle.cellCount (Oracle.coordsS tab.leaves n t) x [i, o] ≤ oracleCap) && (Oracle.checkSep tab.leaves t x i o).isSome) then
          acc := { acc with contracted := acc.contracted || ((!Box.isEmpty i && showB i != showB x) || (!Box.isEmpty o && showB o != showB x)),
                            nonempty := acc.nonempty || !Box.isEmpty o || !Box.isEmpty i }
        else
          match Oracle.checkSep tab.leaves t x i o with
          | some msg => if acc.fail.isNone then acc := { acc with fail := some (msg ++ " x=" ++ xs ++ " impl=" ++ si ++ " " ++ so ++ " model=" ++ showB m.xin ++ " " ++ showB m.xout) }
          | none => acc := { acc with differs := true }
      | _ => none
    pure acc.verdict
  | _ => none

def parseBI (s : String) : Option BoolItv :=
  match s with
  | "Y" => some .yes | "N" => some .no | "M" => some .maybe | "E" => some .emptyB | _ => none

def showBI : BoolItv → String
  | .yes => "Y" | .no => "N" | .maybe => "M" | .emptyB => "E"

def pdcLine (ins outs : List String) : Option String := do
  let (hd, xs) := splitAt ins
  match hd with
  | n :: tree :: defs =>
    let n ← n.toNat?
    let t ← (parseTree tree).bind toPdc
    let tab ← defs.foldlM parseLeafDef ({} : LeafTab)
    if xs.length != outs.length then none else
    let f := Pdc.eval tab.env.pdc t
    let L := tab.leaves
    let mut fail : Option String := none
    let mut weaker := false
    let mut decided := false
    for (xs, os) in xs.zip outs do
      let x ← parseBoxN n xs
      let o ← parseBI os
      let spec := f x
      if o == spec then
        if o != .maybe then decided := true
      else
        -- decide the claim itself
        let reps := Oracle.boxReps (Oracle.coordsP L n t) x []
        let bad : Option String :=
          match o with
          | .maybe => none
          | .yes => (reps.find? fun p => !Oracle.pdcLo L t p).map fun _ => "YES-but-some-point-outside"
          | .no => (reps.find? fun p => Oracle.pdcHi L t p).map fun _ => "NO-but-some-point-inside"
          | .emptyB => if Box.isEmpty x then none else some "EMPTY_BOOL-on-a-non-empty-box"
        match bad with
        | some m => if fail.isNone then fail := some (m ++ " x=" ++ xs ++ " impl=" ++ os ++ " logical=" ++ showBI spec)
        | none => weaker := true
    pure (match fail with
      | some m => "FAIL " ++ m
      | none => if weaker then "ok differs-sound" else if decided then "ok eq-decided" else "ok eq-maybe")
  | _ => none

def qintLine (ins outs : List String) : Option String :=
  match ins, outs with
  | [n, q, bs], [o] => do
    let n ← n.toNat?; let q ← q.toNat?
    let bs ← if bs == "-" then some [] else (bs.splitOn "|").mapM (parseBoxN n)
    let o ← parseBoxN n o
    let all : Box := List.replicate n Itv.all
    let m := qinterSpec all bs q
    if showB m == showB o then pure (if Box.isEmpty m then "ok eq-empty" else "ok eq")
    else if Oracle.subBox m o then pure "ok wider"
    else pure ("FAIL lost-points-of-the-q-intersection expected-hull=" ++ showB m)
  | _, _ => none

/-! ### constraint-based leaves: the contract is checked on sampled points, membership decided exactly -/

structure Mono where
  coef : Rat
  exps : List Nat

structure Cstr where
  op : String
  poly : List Mono

def parsePoly (s : String) : Option (List Mono) :=
  (s.splitOn "+").mapM fun t =>
    match t.splitOn "*" with
    | [c, es] => do
      let c ← parseRatDbl c
      let es ← (es.splitOn ".").mapM String.toNat?
      pure { coef := c, exps := es }
    | _ => none

def evalPoly (p : List Mono) (pt : List Rat) : Rat :=
  p.foldl (fun acc m => acc + m.coef * (List.zipWith (fun (v : Rat) (e : Nat) => v ^ e) pt m.exps).foldl (· * ·) 1) 0

def Cstr.holds (c : Cstr) (pt : List Rat) : Bool :=
  let v := evalPoly c.poly pt
  match c.op with
  | "le" => decide (v ≤ 0) | "lt" => decide (v < 0) | "ge" => decide (v ≥ 0) | "gt" => decide (v > 0)
  | _ => decide (v = 0)

structure CTab where
  leaves : LeafTab := {}
  cs : List (Nat × Cstr) := []

def parseCDef (tab : CTab) (tok : String) : Option CTab :=
  match tok.splitOn "=" with
  | [nm, a, b] =>
    match leafId 'C' nm with
    | some i => do let p ← parsePoly b; pure { tab with cs := (i, { op := a, poly := p }) :: tab.cs }
    | none => do let l ← parseLeafDef tab.leaves tok; pure { tab with leaves := l }
  | _ => none

def idAfter (pre : String) (nm : String) : Option Nat :=
  if nm.startsWith pre then (nm.drop pre.length).toNat? else none

partial def memK (tab : CTab) : Node → List Rat → Option Bool
  | .mk nm param args, pt =>
    match leafId 'C' nm with
    | some i => (tab.cs.lookup i).map (·.holds pt)
    | none =>
    match leafId 'L' nm with
    | some k => (tab.leaves.ctc.lookup k).map fun L => L.boxes.any (Oracle.inBox pt)
    | none =>
      match nm, args with
      | "notin", [] =>
        match param.splitOn "/" with
        | [i, y] => do
          let i ← i.toNat?; let y ← parseItv y; let c ← tab.cs.lookup i
          pure (!Oracle.inItv (evalPoly c.poly pt) y)
        | _ => none
      | "notinv", [] =>   -- vector-valued function (f_i, f_j) not in the box y
        match param.splitOn "/" with
        | [ids, y] =>
          match ids.splitOn "." with
          | [i, j] => do
            let i ← i.toNat?; let j ← j.toNat?; let y ← parseBoxN 2 y
            let ci ← tab.cs.lookup i; let cj ← tab.cs.lookup j
            pure (!Oracle.inBox [evalPoly ci.poly pt, evalPoly cj.poly pt] y)
          | _ => none
        | _ => none
      | "inv", [sub] => do   -- inverse image of the set of a contractor tree over the real line
        let i ← param.toNat?; let c ← tab.cs.lookup i
        memK tab sub [evalPoly c.poly pt]
      | "id", [] => some true
      | "empty", [] => some false
      | "compo", l => (l.mapM (memK tab · pt)).map (·.all id)
      | "union", l => (l.mapM (memK tab · pt)).map (·.any id)
      | "fix", [c] => memK tab c pt
      | "qinter", l => do let q ← param.toNat?; let bs ← l.mapM (memK tab · pt); pure (decide (q ≤ (bs.filter id).length))
      | _, _ => none

/-- (in the inner set, in the outer set) of a separator tree over constraint leaves -/
partial def sepK (tab : CTab) : Node → List Rat → Option (Bool × Bool)
  | .mk nm param args, pt =>
    match idAfter "SF" nm with
    | some i => do
      let c ← tab.cs.lookup i
      let v := evalPoly c.poly pt
      pure (match c.op with
        | "le" | "lt" => (decide (v < 0), decide (v ≤ 0))
        | "ge" | "gt" => (decide (v > 0), decide (v ≥ 0))
        | _ => (false, decide (v = 0)))
    | none =>
      match nm, args with
      | "bndc", [] => do   -- SepBoundaryCtc(f = 0, membership predicate) for the set f <= 0
        let i ← param.toNat?; let c ← tab.cs.lookup i
        let v := evalPoly c.poly pt
        pure (decide (v < 0), decide (v ≤ 0))
      | "sinv", [.mk l _ _] => do
        let i ← param.toNat?; let c ← tab.cs.lookup i; let k ← leafId 'S' l
        let (u, v) ← tab.leaves.sep.lookup k
        let w := [evalPoly c.poly pt]
        pure (!v.any (Oracle.inBox w), u.any (Oracle.inBox w))
      | "inter", l => (l.mapM (sepK tab · pt)).map fun rs => (rs.all (·.1), rs.all (·.2))
      | "union", l => (l.mapM (sepK tab · pt)).map fun rs => (rs.any (·.1), rs.any (·.2))
      | "not", [c] => (sepK tab c pt).map fun r => (!r.2, !r.1)
      | "qinter", l => do
        let q ← param.toNat?; let rs ← l.mapM (sepK tab · pt)
        pure (decide (l.length - q ≤ (rs.filter (·.1)).length), decide (l.length - q ≤ (rs.filter (·.2)).length))
      | _, _ => none

def parsePts (s : String) : Option (List (List Rat)) :=
  if s == "-" then some [] else (s.splitOn "|").mapM fun t => (t.splitOn ";").mapM parseRatDbl

def showPt (p : List Rat) : String := ",".intercalate (p.map fun (q : Rat) => toString q)

def cstLine (ins outs : List String) : Option String := do
  let (hd, rest) := splitAt ins
  match hd, rest, outs with
  | n :: tree :: defs, [xs, pts], [os] =>
    let n ← n.toNat?
    let t ← parseTree tree
    let tab ← defs.foldlM parseCDef ({} : CTab)
    let x ← parseBoxN n xs
    let pts ← parsePts pts
    if os == "EXC" then pure ("FAIL exception-escaped x=" ++ xs) else
    let o ← parseBoxN n os
    if !Oracle.subBox o x then pure "FAIL not-a-subbox" else
    -- an exists node at the root: the sampled points are full points (x,y)
    let (mask, ybox, sub) ← (match t with
      | .mk "exist" param [c] =>
        match param.splitOn "/" with
        | [m, y, _, _] => do
          let m ← parseMask m
          let y ← parseBoxN (m.filter (!·)).length y
          pure (some m, y, c)
        | _ => none
      | _ => some (none, [], t))
    let mut members := 0
    for full in pts do
      let (px, py) := match mask with
        | some m => (projT m full, projF m full)
        | none => (full, [])
      if Oracle.inBox px x && (mask.isNone || Oracle.inBox py ybox) then
        let b ← memK tab sub full
        if b then
          members := members + 1
          if !Oracle.inBox px o then
            return ("FAIL lost-point " ++ showPt full ++ " x=" ++ xs ++ " impl=" ++ os)
    pure (if pts.isEmpty then "ok nothing-outside" else if members > 0 then "ok sampled-members-kept" else "ok sampled-outside")
  | _, _, _ => none

def csepLine (ins outs : List String) : Option String := do
  let (hd, rest) := splitAt ins
  match hd, rest, outs with
  | n :: tree :: defs, [xs, pts], [si, so, pre] =>
    let n ← n.toNat?
    let t ← parseTree tree
    let tab ← defs.foldlM parseCDef ({} : CTab)
    let x ← parseBoxN n xs
    let pts ← parsePts pts
    let i ← parseBoxN n si
    let o ← parseBoxN n so
    if pre != "pre=1" then pure "FAIL sub-separator-called-with-x_in!=x_out" else
    if !Oracle.subBox i x || !Oracle.subBox o x then pure "FAIL not-a-subbox" else
    for p in pts do
      if Oracle.inBox p x then
        let (lo, hi) ← sepK tab t p
        if !Oracle.inBox p i && !lo then
          return ("FAIL removed-from-inner-but-not-in-set " ++ showPt p ++ " x=" ++ xs ++ " impl=" ++ si ++ " " ++ so)
        if !Oracle.inBox p o && hi then
          return ("FAIL removed-from-outer-but-in-set " ++ showPt p ++ " x=" ++ xs ++ " impl=" ++ si ++ " " ++ so)
    pure (if pts.isEmpty then "ok nothing-removed" else "ok sampled-removed")
  | _, _, _ => none

def opsComb (op : String) (ins outs : List String) : Option String :=
  match op with
  | "comb" => combLine false ins outs
  | "sep" => sepLine false ins outs
  | "combo" => combLine true ins outs   -- the oracle is applied to every output, also when equal to the model
  | "sepo" => sepLine true ins outs
  | "pdc" => pdcLine ins outs
  | "qint" => qintLine ins outs
  | "cst" => cstLine ins outs
  | "csep" => csepLine ins outs
  | _ => none

end Ibex.Driver.CombOps

/-- entry point chained in `Driver/Main.lean` -/
def Ibex.Driver.opsComb (op : String) (ins outs : List String) : Option String :=
  Ibex.Driver.CombOps.opsComb op ins outs
