/- C03 workloads: backward operators. -/
import IbexModel
import Driver.Proto
import Driver.OpsExpr
namespace Ibex.Driver
open Ibex Ibex.Proto Ibex.Bwd

def verdictB (b : Bool) (tag : String) (why : String) : String := if b then "ok " ++ tag else "FAIL " ++ why

/-- tag describing how much the implementation contracted (coverage statistics) -/
def tag2 (x1 x2 x1' x2' : Itv) (flag : Bool) : String :=
  if !flag then "infeasible" else if x1' == x1 && x2' == x2 then "nocontract" else "contract"

def opsBwd (op : String) (ins outs : List String) : Option String :=
  match op, ins, outs with
  | "bwd2", [o, y, x1, x2], [x1', x2', fl] => do
    let y ← parseItv y; let x1 ← parseItv x1; let x2 ← parseItv x2
    let fl ← parseBool fl
    match parseItv x1', parseItv x2' with
    | some a, some b =>
      let chk? : Option Bool := match o with
        | "add" => some (addOk y x1 x2 a b fl)
        | "sub" => some (subOk y x1 x2 a b fl)
        | "mul" => some (mulOk y x1 x2 a b fl)
        | "div" => some (divOk y x1 x2 a b fl)
        | "max" => some (maxOk y x1 x2 a b fl)
        | "min" => some (minOk y x1 x2 a b fl)
        | _ => none
      let chk ← chk?
      pure (verdictB chk (tag2 x1 x2 a b fl) "projection-lost-or-not-contracting")
    | _, _ => pure "FAIL impl-bound-not-a-number"
  | "bwd1", [o, y, x], [x', fl] => do
    let y ← parseItv y; let x ← parseItv x; let fl ← parseBool fl
    match parseItv x' with
    | some a =>
      let chk? : Option Bool := match o with
        | "sqrt" => some (sqrtOk y x a fl)
        | "abs" => some (absOk y x a fl)
        | "sign" => some (signOk y x a fl)
        | "floor" => some (floorOk y x a fl)
        | "ceil" => some (ceilOk y x a fl)
        | _ => none
      let chk ← chk?
      pure (verdictB chk (tag2 x x a a fl) "projection-lost-or-not-contracting")
    | none => pure "FAIL impl-bound-not-a-number"
  | "bwdpow", [n, y, x], [x', fl] => do
    let n ← n.toInt?; let y ← parseItv y; let x ← parseItv x; let fl ← parseBool fl
    match parseItv x' with
    | some a =>
      if n ≥ 1 then pure (verdictB (powOk n.toNat y x a fl) (tag2 x x a a fl) "projection-lost-or-not-contracting")
      else pure (verdictB (Itv.subset a x) "sub-only" "not-contracting")
    | none => pure "FAIL impl-bound-not-a-number"
  | "bwdsub", [_, _, x], [x', _] => do
    let x ← parseItv x
    match parseItv x' with
    | some a => pure (verdictB (Itv.subset a x) (if a == x then "nocontract" else "contract") "not-contracting")
    | none => pure "FAIL impl-bound-not-a-number"
  | "bwdsub2", [_, _, x1, x2], [x1', x2', _] => do
    let x1 ← parseItv x1; let x2 ← parseItv x2
    match parseItv x1', parseItv x2' with
    | some a, some b => pure (verdictB (Itv.subset a x1 && Itv.subset b x2) (if a == x1 && b == x2 then "nocontract" else "contract") "not-contracting")
    | _, _ => pure "FAIL impl-bound-not-a-number"
  | "bwdpt", [_, y, fv, v], [x'] => do
    let y ← parseItv y; let fv ← parseItv fv; let v ← parseExt v
    match parseItv x' with
    | some a => pure (verdictB (sampleOk y fv v a) (if Itv.subset fv y then "consistent-kept" else "inconsistent") "consistent-point-removed")
    | none => pure "FAIL impl-bound-not-a-number"
  | "bwdsub3", [_, _, x1, x2, x3], [x1', x2', x3', _] => do
    let x1 ← parseItv x1; let x2 ← parseItv x2; let x3 ← parseItv x3
    match parseItv x1', parseItv x2', parseItv x3' with
    | some a, some b, some c => pure (verdictB (Itv.subset a x1 && Itv.subset b x2 && Itv.subset c x3) (if a == x1 && b == x2 && c == x3 then "nocontract" else "contract") "not-contracting")
    | _, _, _ => pure "FAIL impl-bound-not-a-number"
  | "bwdpt3", [_, y, fv, v1, v2, v3], [x1', x2', x3'] => do
    let y ← parseItv y; let fv ← parseItv fv; let v1 ← parseExt v1; let v2 ← parseExt v2; let v3 ← parseExt v3
    match parseItv x1', parseItv x2', parseItv x3' with
    | some a, some b, some c =>
      pure (verdictB (sampleOk y fv v1 a && sampleOk y fv v2 b && sampleOk y fv v3 c) (if Itv.subset fv y then "consistent-kept" else "inconsistent") "consistent-point-removed")
    | _, _, _ => pure "FAIL impl-bound-not-a-number"
  | "bwdpt2", [_, y, fv, v1, v2], [x1', x2'] => do
    let y ← parseItv y; let fv ← parseItv fv; let v1 ← parseExt v1; let v2 ← parseExt v2
    match parseItv x1', parseItv x2' with
    | some a, some b =>
      pure (verdictB (sampleOk y fv v1 a && sampleOk y fv v2 b) (if Itv.subset fv y then "consistent-kept" else "inconsistent") "consistent-point-removed")
    | _, _ => pure "FAIL impl-bound-not-a-number"
  | "bwdv", [o, y, x1, x2, p1, p2], [x1', x2', fl] => do
    let y ← parseMatItv y; let x1 ← parseMatItv x1; let x2 ← parseMatItv x2
    let p1 ← parseMatItv p1; let p2 ← parseMatItv p2; let fl ← parseBool fl
    -- planted (degenerate) arguments as exact rationals
    let q1 ← p1.mapM? ratOfItv; let q2 ← p2.mapM? ratOfItv
    let opn := match o with | "vadd" | "madd" => "add" | "vsub" => "sub" | _ => "mul"
    let img ← Eval.binVal Alg.rat opn q1 q2
    -- `dot` results are 1x1; shapes are those of the model
    let consistent := matIn img y && matIn q1 x1 && matIn q2 x2
    let outs : Option (Mat Itv × Mat Itv) :=
      if x1' == "E" || x2' == "E" then none else do pure ((← parseMatItv x1'), (← parseMatItv x2'))
    match outs with
    | none => pure (if consistent then "FAIL consistent-tuple-removed" else "ok inconsistent-emptied")
    | some (a, b) =>
      let contracting := Eval.matSubset a x1 && Eval.matSubset b x2
      if !contracting then pure "FAIL not-contracting"
      else if consistent then
        pure (if matIn q1 a && matIn q2 b && fl then "ok consistent-kept" else "FAIL consistent-tuple-removed")
      else pure "ok inconsistent"
  | _, _, _ => none

end Ibex.Driver
