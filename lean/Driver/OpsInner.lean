/- C14 workloads: inner operators, inner projections of functions, is_inner, loup points. -/
import IbexModel
import Driver.Proto
import Driver.OpsBox
import Driver.OpsExpr
namespace Ibex.Driver.IN
open Ibex Ibex.Proto Ibex.Inner

/-- interval token whose bounds may be NaN (printed by `rawtok`): `none` = a NaN bound -/
def parseRawItv (s : String) : Option (Option Itv) :=
  if s == "E" then some (some .empty) else
  match s.splitOn ":" with
  | [l, h] =>
    match parseDbl l, parseDbl h with
    | some (.val a), some (.val b) => some (some (.mk a b))
    | some _, some _ => some none
    | _, _ => none
  | _ => none

def isEmptyI (x : Itv) : Bool := x.isEmpty

/-- coverage tag of a forward inner answer -/
def fwdTag (exact Z : Itv) : String :=
  if Z.isEmpty then (if exact.isEmpty then "empty" else "empty-conservative")
  else if Z == exact then "exact" else "inside"

def parseSpec (s : String) : Option Spec :=
  if s.startsWith "in:" then (parseMatItv (s.drop 3).toString).map Spec.inM
  else match s with
    | "leq" => some .leq
    | "lt" => some .lt
    | "geq" => some .geq
    | "gt" => some .gt
    | "eq" => some .eq
    | _ => none

def parsePoints (s : String) : Option (List (List Rat)) :=
  if s == "-" then some [] else (s.splitOn "|").mapM parsePoint

def showPt (p : List Rat) : String := ";".intercalate (p.map fun q => (Ext.fin q).toHex)


/-- corners (at most 16) and centre of a bounded box, as extra sample points -/
def boxSamples (b : List Itv) : List (List Rat) :=
  let fin? : Itv → Option (Rat × Rat) := fun
    | .mk (.fin a) (.fin c) => some (a, c)
    | _ => none
  match b.mapM fin? with
  | none => []
  | some bs =>
    let corners := if bs.length ≤ 4 then
        bs.foldr (fun (ac : Rat × Rat) (acc : List (List Rat)) =>
          (acc.map (ac.1 :: ·)) ++ (if ac.1 == ac.2 then [] else acc.map (ac.2 :: ·))) [[]]
      else []
    let mid := bs.map fun ac => (ac.1 + ac.2) / 2
    -- points with one coordinate equal to 0 (poles of divisions, kinks)
    let zeros := (List.range bs.length).filterMap fun i =>
      match bs[i]? with
      | some ac => if ac.1 ≤ 0 && 0 ≤ ac.2 then some (mid.set i 0) else none
      | none => none
    mid :: (zeros ++ corners)

/-- the function is defined at the point (point-interval evaluation succeeds) -/
def pointDefined (funs : List Dag) (dag : Dag) (p : List Rat) : Bool :=
  (Eval.root Alg.itv (p.map Itv.point) (Eval.buildCalls Alg.itv funs) dag).isSome

def inBox (p : List Rat) (b : List Itv) : Bool :=
  p.length == b.length && (List.zip p b).all fun q => memQ q.1 q.2

/-- first sample point (of the box `b`) violating the requirement -/
def refute (funs : List Dag) (dag : Dag) (s : Spec) (b : List Itv) (pts : List (List Rat)) : Option (List Rat) :=
  ((pts ++ boxSamples b).filter (inBox · b)).find? fun p => pointVerdict funs dag s p == some false

/-- select one component of the value of a vector-valued DAG: the spec applies to component `i` only -/
def specAt (specs : List Spec) (Z : Mat Itv) : Bool :=
  Z.d.length == specs.length && (List.zip specs Z.d).all fun q => itvSat q.1 q.2

def certDepth : Nat := 7

/-- common acceptance of an inner backward projection: flag, sub-intervals, seed -/
def bwdCommon (inflate fl : Bool) (subOk seedOk nonEmpty : Bool) : Option String :=
  if !fl then (if inflate then some "FAIL flag-false-in-inflating-mode" else none)
  else if !subOk then some "FAIL result-not-inside-input"
  else if inflate && !seedOk then some "FAIL seed-not-inside-result"
  else if !nonEmpty then some "ok vacuous-empty-result-with-flag-true"
  else none

def opsInner (op : String) (ins outs : List String) : Option String :=
  match op, ins, outs with
  | "ifwd2", [o, x, y], [z] => do
    let x ← parseItv x; let y ← parseItv y
    match ← parseRawItv z with
    | none => pure "FAIL result-bound-not-a-number"
    | some z =>
      let ok ← innerFwdOk o x y z
      pure (if ok then "ok " ++ fwdTag (exactHull o x y) z
            else "FAIL result-not-inside-exact-range exact-hull=" ++ showItv (exactHull o x y))
  | "ifwd1", [o, x], [z] => do
    let x ← parseItv x
    match ← parseRawItv z with
    | none => pure "FAIL result-bound-not-a-number"
    | some z =>
      let ok ← innerFwd1Ok o x z
      let ex := if o == "isqr" then Itv.sqrG Inner.X x else Itv.neg x
      pure (if ok then "ok " ++ fwdTag ex z else "FAIL result-not-inside-exact-range exact-hull=" ++ showItv ex)
  | "ifwdo", [_, _, lowB, ls, upB, us], [z] => do
    let lowB ← parseExt lowB; let upB ← parseExt upB; let ls ← parseBool ls; let us ← parseBool us
    match ← parseRawItv z with
    | none => pure "FAIL result-bound-not-a-number"
    | some z =>
      pure (if oracleFwdOk lowB ls upB us z then
              (if z.isEmpty then (if Ext.le lowB upB then "ok empty-conservative" else "ok empty")
               else if z == Itv.mk lowB upB then "ok exact" else "ok inside")
            else "FAIL result-not-inside-range oracle-bounds=" ++ lowB.toHex ++ ":" ++ upB.toHex)
  | "ibwd2", [o, z, x, y, xin, yin], [fl, x', y'] => do
    let z ← parseItv z; let x ← parseItv x; let y ← parseItv y
    let xin ← parseItv xin; let yin ← parseItv yin; let fl ← parseBool fl
    match ← parseRawItv x', ← parseRawItv y' with
    | some a, some b =>
      let inflate := !xin.isEmpty
      match bwdCommon inflate fl (Itv.subset a x && Itv.subset b y) (Itv.subset xin a && Itv.subset yin b)
          (!a.isEmpty && !b.isEmpty) with
      | some msg => pure msg
      | none =>
        if !fl then pure "ok none-found"
        else
          if !(["add", "sub", "mul", "div", "max", "min"].contains o) then none else
          if ibwd2Accept o z x y xin yin a b then
            pure ("ok inner" ++ (if inflate then "-inflated" else "") ++ (if a == x && b == y then "-whole" else ""))
          else if o == "div" && Itv.containsExt b (.fin 0) then
            pure ("FAIL pole-in-result" ++ (if a == Itv.point 0 then "-zero-numerator" else ""))
          else pure ("FAIL image-overshoots exact-range=" ++
            (match range2 o a b with | some R => showItv R | none => "?"))
    | _, _ => pure "FAIL result-bound-not-a-number"
  | "ibwd1", [o, n, y, x, xin], [fl, x'] => do
    let n ← n.toInt?; let y ← parseItv y; let x ← parseItv x; let xin ← parseItv xin; let fl ← parseBool fl
    match ← parseRawItv x' with
    | some a =>
      let inflate := !xin.isEmpty
      match bwdCommon inflate fl (Itv.subset a x) (Itv.subset xin a) (!a.isEmpty) with
      | some msg => pure msg
      | none =>
        if !fl then pure "ok none-found"
        else
          let _ ← into1 o n a y
          pure (if ibwd1Accept o n y x xin a then "ok inner" ++ (if inflate then "-inflated" else "") ++ (if a == x then "-whole" else "")
                else "FAIL image-overshoots-or-undefined")
    | none => pure "FAIL result-bound-not-a-number"
  | "ibwdo", [_, y, x, xin, encl], [fl, x'] => do
    let y ← parseItv y; let x ← parseItv x; let xin ← parseItv xin; let fl ← parseBool fl
    match ← parseRawItv x' with
    | some a =>
      let inflate := !xin.isEmpty
      match bwdCommon inflate fl (Itv.subset a x) (Itv.subset xin a) (!a.isEmpty) with
      | some msg => pure msg
      | none =>
        if !fl then pure "ok none-found"
        else if encl == "U" then pure "FAIL function-undefined-on-result"
        else do
          let e ← parseItv encl
          pure (if ibwdoAccept y x xin e a then "ok inner" ++ (if inflate then "-inflated" else "") ++ (if a == x then "-whole" else "")
                else "FAIL image-overshoots oracle-range=" ++ showItv e)
    | none => pure "FAIL result-bound-not-a-number"
  | "ibwdf", [dag, spec, box, seed, pts], [res] => do
    let (funs, main) ← parseProgram dag
    let spec ← parseSpec spec
    let box ← parseBox box; let seed ← parseBox seed; let pts ← parsePoints pts; let res ← parseBox res
    let inflate := !Box.isEmpty seed
    if inflate && (refute funs main spec seed []).isSome then
      -- the harness validates a seed with ibex's own evaluation, which ignores points where f is undefined
      pure "ok seed-violates-the-precondition"
    else if inflate && certify funs main spec certDepth seed != 0 then
      -- the documented precondition (every point of the seed is mapped into the image) is not PROVED for this seed:
      -- the answer of the library cannot be judged
      pure "ok seed-precondition-not-certified"
    else if Box.isEmpty res then
      pure (if inflate then "FAIL seed-not-inside-result (empty result in inflating mode)"
            else if res.length > 1 && !(res.all Itv.isEmpty) then "ok empty-component" else "ok empty")
    else if !Box.subset res box then pure "FAIL result-not-inside-box"
    else if inflate && !Box.subset seed res then pure "FAIL seed-not-inside-result"
    else
      match refute funs main spec res pts with
      | some p => pure ("FAIL point-of-result-maps-outside-image-or-undefined " ++ showPt p)
      | none =>
        if ibwdfAccept funs main spec box seed res 0 then pure ("ok certified" ++ (if inflate then "-inflated" else ""))
        else if ibwdfAccept funs main spec box seed res certDepth then
          pure ("ok certified-subdiv" ++ (if inflate then "-inflated" else ""))
        else pure s!"ok undecided {certify funs main spec certDepth res}"
  | "isinner", [dags, specs, box, pts], [fl, bits] => do
    let progs ← (dags.splitOn "|").mapM parseProgram
    let specs ← (specs.splitOn "|").mapM parseSpec
    let box ← parseBox box; let pts ← parsePoints pts; let fl ← parseBool fl
    let bits := bits.toList.map (· == '1')
    if bits.length != specs.length || progs.length != specs.length then pure "FAIL active-set-size"
    else if fl != bits.all (!·) then pure "FAIL is_inner-differs-from-empty-active-set"
    else if Box.isEmpty box then pure "ok empty-box"
    else
      -- the constraints claimed inactive (= satisfied on the whole box)
      let claimed := ((List.zip (List.zip progs specs) bits).filter (!·.2)).map (·.1)
      if claimed.isEmpty then pure "ok nothing-claimed"
      else
        let samples := (pts ++ boxSamples box).filter (inBox · box)
        -- refutation: a sample point at which a claimed constraint is violated / undefined
        let verdicts := claimed.flatMap fun c => samples.map fun p => (p, pointVerdict c.1.1 c.1.2 c.2 p, pointDefined c.1.1 c.1.2 p)
        match verdicts.find? (fun v => v.2.1 == some false && v.2.2) with
        | some v => pure ("FAIL claimed-inactive-constraint-violated-at " ++ showPt v.1)
        | none =>
        match verdicts.find? (fun v => v.2.1 == some false) with
        | some v => pure ("FAIL constraint-undefined-at-a-point-of-the-claimed-box " ++ showPt v.1)
        | none =>
          let ctrs := List.zip progs specs
          if inactiveAccept ctrs bits box 0 then pure (if fl then "ok inner-certified" else "ok inactive-certified")
          else if inactiveAccept ctrs bits box certDepth then
            pure (if fl then "ok inner-certified-subdiv" else "ok inactive-certified-subdiv")
          else
            let k := (claimed.map fun c => certify c.1.1 c.1.2 c.2 certDepth box).foldl (· + ·) 0
            pure s!"ok undecided {k}"
  | "loup", [_, goal, dags, specs, _, _], res =>
    match res with
    | ["notfound"] => pure "ok notfound"
    | [pt, loup] => do
      let (gfuns, gmain) ← parseProgram goal
      let ptb ← parseBox pt; let loup ← parseExt loup
      let p ← ptb.mapM fun (i : Itv) => match i with
        | .mk (.fin a) (.fin b) => if a == b then some a else none
        | _ => none
      let pb := p.map Itv.point
      -- goal value ≤ loup: exact, else by the enclosure at the point
      let gOk : Option Bool := match evalQ gfuns gmain p with
        | some ⟨1, 1, [g]⟩ => some (Ext.le (.fin g) loup)
        | some _ => some false
        | none =>
          match Eval.root Alg.itv pb (Eval.buildCalls Alg.itv gfuns) gmain with
          | some ⟨1, 1, [.mk gl gu]⟩ => if Ext.le gu loup then some true else if Ext.lt loup gl then some false else none
          | _ => some false
      if gOk == some false then pure "FAIL goal-value-above-reported-loup-or-undefined" else
      let tagG := if gOk == some true then "" else "-goal-undecided"
      if dags == "-" then pure ("ok loup-unconstrained" ++ tagG)
      else do
        let progs ← (dags.splitOn "|").mapM parseProgram
        let specs ← (specs.splitOn "|").mapM parseSpec
        if progs.length != specs.length then none else
        let vs := (List.zip progs specs).map fun c => (pointVerdict c.1.1 c.1.2 c.2 p, pointDefined c.1.1 c.1.2 p)
        if vs.any (fun v => v.1 == some false && v.2) then pure "FAIL loup-point-infeasible"
        else if vs.any (fun v => v.1 == some false) then pure "FAIL constraint-undefined-at-loup-point"
        else if vs.all (fun v => v.1 == some true) then
          pure ((if loupOk (progs.map (·.1)) (List.zip (progs.map (·.2)) specs) gfuns gmain p loup then "ok loup-feasible-exact" else "ok loup-feasible-by-enclosure") ++ tagG)
        else pure "ok undecided-point"
    | _ => none
  | "ibwdft", [_, y, box, seed, encl], [res] => do
    let y ← parseItv y; let box ← parseBox box; let seed ← parseBox seed; let res ← parseBox res
    let inflate := !Box.isEmpty seed
    if Box.isEmpty res then
      pure (if inflate then "FAIL seed-not-inside-result (empty result in inflating mode)" else "ok empty")
    else if !Box.subset res box then pure "FAIL result-not-inside-box"
    else if inflate && !Box.subset seed res then pure "FAIL seed-not-inside-result"
    else if encl == "-" then pure "ok empty"
    else
      let toks := encl.splitOn "|"
      if toks.any (· == "U") then pure "FAIL function-undefined-at-a-point-of-the-result"
      else do
        let es ← toks.mapM parseItv
        pure (if es.any (fun e => Itv.isDisjoint e y) then "FAIL point-of-result-maps-outside-image"
              else if es.all (fun e => Itv.subset e y) then "ok sampled-inside" ++ (if inflate then "-inflated" else "")
              else "ok sampled-border")
  | "skipfun", _, _ => pure "ok skipped"
  | "skipsys", _, _ => pure "ok skipped"
  | "skiploup", _, _ => pure "ok skipped"
  | "harnesserror", _, _ => pure "FAIL exception-thrown-by-the-library"
  | _, _, _ => none

end Ibex.Driver.IN
