/- C04 workloads: contractors. -/
import IbexModel
import Driver.Proto
import Driver.OpsBox
import Driver.OpsExpr
namespace Ibex.Driver
open Ibex Ibex.Proto
open Ibex.Eval (buildCalls)

/-- does the exact value `v` satisfy the constraint spec? -/
def specSat (spec : String) (v : Mat Rat) : Option Bool :=
  if spec.startsWith "in:" then
    (parseMatItv (spec.drop 3).toString).map fun z => matIn v z
  else match spec with
    | "leq" => some (v.d.all (· ≤ 0))
    | "lt" => some (v.d.all (· < 0))
    | "geq" => some (v.d.all (· ≥ 0))
    | "gt" => some (v.d.all (· > 0))
    | "eq" => some (v.d.all (· = 0))
    | _ => none

def opsCtc (op : String) (ins outs : List String) : Option String :=
  match op, ins, outs with
  | "ctcsub", [inb], [outb] => do
    let i ← parseBox inb; let o ← parseBox outb
    pure (if Box.subset o i then (if showBox o == showBox i then "ok nocontract" else if Box.isEmpty o then "ok emptied" else "ok contract")
          else "FAIL output-not-in-input")
  | "ctckeep", [_, inb, pt, _], [outb] => do   -- (4th token: the libm-based hyperbolic functions of the constraints, for the attribution of the C01 finding)
    -- constraints with elementary functions: the point is feasible by construction (MPFR oracle of the harness)
    let i ← parseBox inb; let p ← parsePoint pt; let o ← parseBox outb
    if !(Box.subset o i) then pure "FAIL not-contracting" else
    let wasIn := i.length == p.length && (List.zip p i).all fun q => ratIn q.1 q.2
    if !wasIn then pure "ok point-not-in-the-input-box" else
    let inside := !Box.isEmpty o && o.length == p.length && (List.zip p o).all fun q => ratIn q.1 q.2
    pure (if inside then "ok feasible-kept elementary" else "FAIL feasible-point-removed")
  | "ctcpt", [dags, specs, pt], [outb] => do
    let ds ← (dags.splitOn "|").mapM parseProgram
    let ss := specs.splitOn "|"
    if ds.length != ss.length then none else
    let p ← parsePoint pt
    let o ← parseBox outb
    -- decide feasibility exactly
    let sats := (List.zip ds ss).map fun (x : (List Dag × Dag) × String) =>
      match Eval.root Alg.rat p (buildCalls Alg.rat x.1.1) x.1.2 with
      | none => none
      | some v => specSat x.2 v
    if sats.any (· == none) then pure "ok undefined-or-unsupported"
    else if sats.all (· == some true) then
      let inside := !Box.isEmpty o && o.length == p.length && (List.zip p o).all fun q => ratIn q.1 q.2
      pure (if inside then "ok feasible-kept" else "FAIL feasible-point-removed")
    else pure "ok infeasible"
  | "hc4", [dag, rhs, inb], [outb] => do
    let (_, main) ← parseProgram dag
    let rhs ← parseItv rhs; let i ← parseBox inb; let o ← parseBox outb
    pure (if HC4.reviseOk main rhs i o then
            (match HC4.revise main rhs i with
             | .unsupported => "ok unsupported"
             | .empty => "ok model-empty"
             | .box m => if showBox m == showBox o then "ok same-as-model" else "ok wider-than-model")
          else "FAIL model-box-not-inside-result " ++ (match HC4.revise main rhs i with | .box m => showBox m | _ => "?"))

  | _, _, _ => none

end Ibex.Driver
