/- C20 workloads: rows recorded from the linearizers, exact point rules and slope certificates. -/
import IbexModel
import Driver.Proto
import Driver.OpsBox
import Driver.OpsExpr
namespace Ibex.Driver
open Ibex Ibex.Proto Ibex.Lin
open Ibex.Eval (buildCalls)

inductive RowsParse where
  | ok (rows : List Row)
  | nonFinite
  | bad

/-- `lo#hi#a1;a2;…` -/
def parseRow (s : String) : RowsParse :=
  match s.splitOn "#" with
  | [lo, hi, as] =>
    match parseExt lo, parseExt hi, (as.splitOn ";").mapM parseExt with
    | some lo, some hi, some es =>
      match es.mapM finOf with
      | some a => .ok [⟨lo, hi, a⟩]
      | none => .nonFinite
    | _, _, _ => if (as.splitOn ";").any (fun t => t == "7ff8000000000000") || lo == "7ff8000000000000" || hi == "7ff8000000000000" then .nonFinite else .bad
  | _ => .bad

def parseRows (s : String) : RowsParse :=
  if s == "-" then .ok [] else
  (s.splitOn "|").foldl (fun acc t =>
    match acc, parseRow t with
    | .ok l, .ok r => .ok (l ++ r)
    | .bad, _ => .bad
    | _, .bad => .bad
    | _, _ => .nonFinite) (.ok [])

def parseCmp (s : String) : Option Cmp :=
  match s with
  | "lt" => some .lt | "leq" => some .leq | "eq" => some .eq | "geq" => some .geq | "gt" => some .gt
  | _ => none

def parseOps (s : String) : Option (List Cmp) := (s.splitOn ",").mapM parseCmp

def matRows (m : Mat Itv) : List (List Itv) := (List.range m.r).map fun i => m.row i

/-- `point#act#gc#G` -/
def parseExpansion (s : String) : Option Expansion :=
  match s.splitOn "#" with
  | [c, act, gc, g] => do
    let c ← parsePoint c
    let act ← (if act == "-" then some [] else parseNatList act)
    let gc ← (if gc == "E" then some [] else (parseMatItv gc).map (·.d))
    let G ← (if g == "E" then some none else (parseMatItv g).map fun m => some (matRows m))
    pure ⟨c, act, gc, G⟩
  | _ => none

def parseExpansions (s : String) : Option (List Expansion) :=
  if s == "-" then some [] else (s.splitOn "|").mapM parseExpansion

def parseEvalbox (s : String) : Option (Option (List Itv)) :=
  if s == "E" then some none else (parseMatItv s).map fun m => some m.d

def inBox (p : List Rat) (b : Box) : Bool := p.length == b.length && (List.zip p b).all fun q => ratIn q.1 q.2

def firstIdx {α : Type} (l : List α) (p : α → Bool) : Option Nat := (l.zipIdx.find? fun q => p q.1).map (·.2)

def opsLin (op : String) (ins outs : List String) : Option String :=
  match op, ins, outs with
  | "linpt", [mode, dag, ops, fixed, box, rows, ret, pt], _ => do
    let (funs, main) ← parseProgram dag
    let ops ← parseOps ops
    let box ← parseBox box
    let ret ← ret.toInt?
    let p ← parsePoint pt
    match parseRows rows, parseRows fixed with
    | .ok rows, .ok fixed =>
      if !(rows.all fun r => r.a.length == p.length) then pure "FAIL row-of-wrong-dimension" else
      if !inBox p box then pure "ok outside-box" else
      match Eval.root Alg.rat p (buildCalls Alg.rat funs) main with
      | none => pure "ok undefined-or-unsupported"
      | some v =>
        if v.d.length != ops.length then none else
        let ops := if mode == "RESTRICT" then ops.map Cmp.weak else ops
        let feasible := (List.zip ops v.d).all (fun q => q.1.holds q.2) && fixed.all (·.sat p)
        if mode == "RELAX" then
          if feasible then
            if ret == -1 then pure "FAIL infeasibility-reported-but-feasible-point-in-box"
            else match firstIdx rows (fun r => !r.sat p) with
              | some k => pure s!"FAIL feasible-point-violates-row {k}"
              | none => pure (if rows.isEmpty then "ok feasible-no-rows" else "ok feasible-satisfies-rows")
          else pure (if ret == -1 then "ok infeasible-unsat" else if rowsSat rows p then "ok infeasible-kept" else "ok infeasible-cut")
        else if mode == "RESTRICT" then
          if ret == -1 then pure "ok restrict-none"
          else if rowsSat rows p then pure (if feasible then "ok rows-imply-feasible" else "FAIL point-satisfies-all-rows-but-infeasible")
          else pure (if feasible then "ok feasible-excluded" else "ok infeasible-excluded")
        else none
    | .nonFinite, _ => pure "FAIL non-finite-coefficient-in-row"
    | _, _ => none
  | "lincert", [mode, ops, box, fixed, rows, ret, evalbox, exps], _ => do
    let ops ← parseOps ops
    let box ← parseBox box
    let ret ← ret.toInt?
    let evalbox ← parseEvalbox evalbox
    let Es ← parseExpansions exps
    match parseRows rows, parseRows fixed with
    | .ok rows, .ok fixed =>
      let n := box.length
      if !(rows.all fun r => r.a.length == n) then pure "FAIL row-of-wrong-dimension" else
      let fixedS := sidesOf fixed
      match evalbox with
      | none => pure "ok undefined-on-box"
      | some ev =>
        if mode == "RELAX" then
          if relaxCert box ops Es fixedS rows ret then
            if ret == -1 then pure "ok unsat-certified"
            else if ret != (rows.length : Int) then pure "FAIL returned-count-differs-from-number-of-rows"
            else pure (if rows.isEmpty then "ok no-rows" else "ok rows-certified")
          else if ret == -1 then pure "FAIL infeasibility-not-justified-by-any-expansion"
          else pure s!"FAIL row-not-justified-by-any-expansion {(firstIdx (sidesOf rows) (fun r => !relaxRowCert box ops Es fixedS r)).getD 0}"
        else if mode == "RESTRICT" then
          if ret == -1 then pure "ok restrict-none"
          else if ret != (rows.length : Int) then pure "FAIL returned-count-differs-from-number-of-rows"
          else if restrictCert box ops Es fixedS rows ev then pure (if rows.isEmpty then "ok restriction-certified-no-rows" else "ok restriction-certified")
          else
            let sides := sidesOf rows
            match firstIdx ops.zipIdx (fun q => !covered box Es sides ev q.2 q.1) with
            | some i => pure s!"FAIL constraint-not-covered-by-rows {i}"
            | none => pure "FAIL fixed-row-missing"
        else none
    | .nonFinite, _ => pure "FAIL non-finite-coefficient-in-row"
    | _, _ => none
  | "lindualcert", [ops, box, rows, ret, evalbox, exp], _ => do
    let ops ← parseOps ops
    let box ← parseBox box
    let ret ← ret.toInt?
    let evalbox ← parseEvalbox evalbox
    let E ← (if exp == "-" then some none else (parseExpansion exp).map some)
    match parseRows rows with
    | .ok rows =>
      let n := box.length; let m := ops.length
      if !(rows.all fun r => r.a.length == n + m * n) then pure "FAIL row-of-wrong-dimension" else
      if ret == -1 then pure "ok restrict-none"
      else if ret != (rows.length : Int) then pure "FAIL returned-count-differs-from-number-of-rows"
      else
        let drows := (sidesOf rows).map (toDRow n m)
        let ev := evalbox.getD []
        if dualCert n box ops E drows ev then pure (if rows.isEmpty then "ok duality-certified-no-rows" else "ok duality-certified")
        else
          let bad := firstIdx ops.zipIdx fun q => !dualCovered n box E drows ev q.2 q.1
          pure s!"FAIL constraint-not-proved-by-duality-rows {bad.getD 0}"
    | .nonFinite => pure "FAIL non-finite-coefficient-in-row"
    | .bad => none
  | "linfixed", [expected], [rows, ret] => do
    let ret ← ret.toInt?
    match parseRows expected, parseRows rows with
    | .ok e, .ok r =>
      pure (if decide (e = r) && ret == (e.length : Int) then "ok fixed-rows-identical" else "FAIL fixed-rows-differ")
    | _, _ => none
  | "linabort", _, _ => pure "FAIL ibex_error-raised-by-the-linearizer"
  | _, _, _ => none

end Ibex.Driver
