/- C11 / C12 workloads, symbolic form: equivalence of expression DAGs as rational functions
   (verified checker `Ibex.Equiv.check*`, sound for every real point). -/
import IbexModel
import Driver.Proto
import Driver.OpsExpr
namespace Ibex.Driver
open Ibex Ibex.Proto

/-- wording of the answer when the checker claims nothing -/
def nothingClaimed (f1 : List Dag) (m1 : Dag) (f2 : List Dag) (m2 : Dag) : String :=
  if (m1 :: f1 ++ m2 :: f2).all Equiv.inFragment then "ok undefined-or-too-large" else "ok unsupported"

def opsEquiv (op : String) (ins _outs : List String) : Option String :=
  match op, ins with
  | "equivnf", [_, d1, d2, nv] => do
    let (f1, m1) ← parseProgram d1
    let (f2, m2) ← parseProgram d2
    let nv ← nv.toNat?
    match m1.back?, m2.back? with
    | some n1, some n2 =>
      if n1.r != n2.r || n1.c != n2.c then pure "FAIL dimensions-differ" else
      match Equiv.check f1 m1 f2 m2 nv with
      | none => pure (nothingClaimed f1 m1 f2 m2)
      | some true => pure "ok identical-normal-form"
      | some false => pure "FAIL normal-forms-differ"
    | _, _ => none
  | "equivcompnf", [d1, d2, i, nv] => do
    let (f1, m1) ← parseProgram d1
    let (f2, m2) ← parseProgram d2
    let i ← i.toNat?; let nv ← nv.toNat?
    match Equiv.checkComp f1 m1 f2 m2 i nv with
    | none => pure (nothingClaimed f1 m1 f2 m2)
    | some true => pure "ok identical-normal-form"
    | some false => pure "FAIL normal-forms-differ"
  | "diffnf", [d, dd, nv] => do
    let (f1, m1) ← parseProgram d
    let (f2, m2) ← parseProgram dd
    let nv ← nv.toNat?
    match Equiv.checkDiff f1 m1 f2 m2 nv with
    | none => pure (nothingClaimed f1 m1 f2 m2)
    | some true => pure "ok identical-normal-form"
    | some false => pure "FAIL normal-forms-differ"
  | _, _ => none

end Ibex.Driver
