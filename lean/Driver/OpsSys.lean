/- C13 workloads: derived systems (normalized, extended, copies, merged, factory). -/
import IbexModel
import Driver.Proto
import Driver.OpsExpr
namespace Ibex.Driver.SysOps
open Ibex Ibex.Proto Ibex.Sys Ibex.Driver

def parseCmp : String → Option Cmp
  | "lt" => some .lt | "leq" => some .leq | "eq" => some .eq | "geq" => some .geq | "gt" => some .gt
  | _ => none

def parseArgs (s : String) : Option (List Arg) :=
  if s == "-" then some [] else
  (s.splitOn ",").mapM fun t =>
    match t.splitOn "." with
    | [n, r, c] => do pure ⟨n, ← r.toNat?, ← c.toNat?⟩
    | _ => none

def parseProg (s : String) : Option Prog := (parseProgram s).map fun p => ⟨p.1, p.2⟩

def parseCtr (s : String) : Option Ctr :=
  match s.splitOn "#" with
  | [op, d] => do pure ⟨← parseProg d, ← parseCmp op⟩
  | _ => none

def parseCtrs (s : String) : Option (List Ctr) :=
  if s == "-" then some [] else (s.splitOn "|").mapM parseCtr

def parseFctrs (s : String) : Option (Option (Prog × List Cmp)) :=
  if s == "-" then some none else
  match s.splitOn "#" with
  | [ops, d] => do pure (some (← parseProg d, ← (ops.splitOn ".").mapM parseCmp))
  | _ => none

def parseBoxL (s : String) : Option (List Itv) :=
  if s == "-" then some [] else (s.splitOn ";").mapM parseItv

def parseSys (a b g c f : String) : Option System := do
  let goal ← (if g == "-" then some none else (parseProg g).map some)
  pure ⟨← parseArgs a, ← parseBoxL b, goal, ← parseCtrs c, ← parseFctrs f⟩

inductive Kind where
  | fac | copy (m : CopyMode) | norm (eps : Rat) | ext (eps : Rat) | merge

def parseKind (s : String) : Option Kind :=
  match s.splitOn ":" with
  | ["fac", _] => some .fac
  | ["copy"] => some (.copy .copy)
  | ["eqonly"] => some (.copy .eqOnly)
  | ["ineqonly"] => some (.copy .ineqOnly)
  | ["norm", e, _] => (parseRatDbl e).map .norm
  | ["ext", e, _] => (parseRatDbl e).map .ext
  | ["merge"] => some .merge
  | _ => none

/-- what the model predicts for the derived system -/
structure Expect where
  args : List Arg
  box : List Itv          -- expected box (extended system: without the domain of the goal variable)
  boxExtra : Nat          -- trailing components that are not compared (1 for an extended system)
  goal : Option Prog
  ctrs : List Ctr
  hyps : Bool             -- the decidable hypotheses of the theorems hold on the dumped system(s)

def progsOf (s : System) : List Prog := s.ctrs.map (·.f) ++ (match s.goal with | some g => [g] | none => [])

def expect (k : Kind) (A : System) (A2 : Option System) : Option Expect :=
  let n := A.nvar
  let within := (progsOf A).all fun f => varsWithin n f.main
  match k with
  | .fac => some ⟨A.args, A.box, 0, A.goal, A.ctrs, within⟩
  | .copy m => some ⟨A.args, A.box, 0, if m == .copy then A.goal else none, copyCtrs m A.ctrs, within⟩
  | .norm eps => some ⟨A.args, A.box, 0, A.goal, normalize eps A.ctrs, within && decide (0 ≤ eps)⟩
  | .ext eps =>
    match A.goal with
    | none => some ⟨A.args, A.box, 0, none, normalize eps A.ctrs, within && decide (0 ≤ eps)⟩
    | some g => some ⟨A.args ++ [⟨"__goal__", 1, 1⟩], A.box, 1, some (varProg n), extend n g eps A.ctrs,
                      within && decide (0 ≤ eps)⟩
  | .merge => do
    let A2 ← A2
    let bs ← mergeBlocks A.args A2.args
    let args := mergeArgs A.args A2.args
    let nm := nvarOf args
    let goal ← (match A.goal, A2.goal with
      | some _, some _ => none
      | some g, none => some (some g)
      | none, some g => some (some (g.rename (blockMap bs)))
      | none, none => some none)
    pure ⟨args, mergeBox A.args A2.args A.box A2.box, 0, goal, mergeCtrs bs A.ctrs A2.ctrs,
          within && decide (n ≤ nm) && blocksOK nm 0 bs && (progsOf A2).all fun f => varsAreBlocks bs f.main⟩

/-- a product that the library cannot evaluate (`CompiledFunction::visit(ExprMul)`): a non-scalar
    left operand with a scalar on the right, or a column vector times a row vector (outer product) -/
def badMul (d : Dag) : Bool :=
  d.any fun n => match n.k with
    | .bin "mul" a b =>
      (match d[a]?, d[b]? with
       | some l, some r =>
         !(l.r == 1 && l.c == 1) && ((r.r == 1 && r.c == 1) || (l.c == 1 && l.r > 1 && r.r == 1 && r.c > 1))
       | _, _ => false)
    | _ => false

def rootSize (d : Dag) : Nat := match d.back? with | some n => n.r * n.c | none => 0

def showOB : Option Bool → String
  | some true => "yes" | some false => "NO" | none => "undecided"

/-- index of the first pair of constraints that the checker decides different -/
def firstDiff (nv : Nat) : List Ctr → List Ctr → Nat → Option Nat
  | a :: as, b :: bs, i =>
    if a.op ≠ b.op || progCheckT [] nv a.f b.f == some false then some i else firstDiff nv as bs (i + 1)
  | _, _, _ => none

/-- `some false` (a diagnosis, not covered by a theorem) is reported only inside the purely rational
    fragment (empty table of atoms): two different normal forms over atoms may still denote the same
    sets (a constant folded with outward rounding against its exact value).  `some true` is the
    answer of the verified checker with the table `tbl`. -/
def decide2 (pure withAtoms : Option Bool) : Option Bool :=
  match pure with
  | some false => some false
  | _ => match withAtoms with
    | some true => some true
    | _ => none

def relCheck (e : Expect) (B : System) : String :=
  let nv := B.nvar
  if B.args != e.args then "FAIL args-differ (names, dimensions or order of the variables)" else
  if B.box.length != nv || B.box.length != e.box.length + e.boxExtra then "FAIL box-size" else
  if B.box.take e.box.length != e.box then "FAIL box-differs (domains not preserved)" else
  if !e.hyps then "FAIL theorem-hypotheses (a variable node outside the arguments)" else
  if (progsOf B ++ (match B.fctrs with | some (f, _) => [f] | none => [])).any (fun f => (f.main :: f.funs).any badMul) then
    "FAIL product-not-evaluable-by-the-library (scalar on the right of a vector/matrix, or outer product: undefined behaviour)" else
  if B.goal.isSome != e.goal.isSome then "FAIL goal-presence" else
  if B.ctrs.length != e.ctrs.length then s!"FAIL constraint-count {B.ctrs.length} expected {e.ctrs.length}" else
  -- thick interval constants (thick right-hand sides, constants folded with outward rounding) are atoms
  let tbl := tableOf (progsOf B ++ e.ctrs.map (·.f) ++ (match e.goal with | some g => [g] | none => []) ++
                      (match B.fctrs with | some (f, _) => [f] | none => []))
  let g : Option Bool := match B.goal, e.goal with
    | some b, some m => decide2 (progCheckT [] nv b m) (progCheckT tbl nv b m)
    | _, _ => some true
  let c := decide2 (ctrsCheckT [] nv B.ctrs e.ctrs) (ctrsCheckT tbl nv B.ctrs e.ctrs)
  let opsExp := B.ctrs.flatMap fun c => List.replicate (rootSize c.f.main) c.op
  match B.ctrs, B.fctrs with
  | [], some _ => "FAIL f_ctrs-without-constraint"
  | _ :: _, none => "FAIL f_ctrs-missing"
  | _, fo =>
    let f : Option Bool := match fo with
      | none => some true
      | some (fp, ops) =>
        if [Cmp.lt, .leq, .eq, .geq, .gt].any (fun o => ops.count o != opsExp.count o) then some false
        else decide2 (flatCheckT [] nv B.ctrs fp ops) (flatCheckT tbl nv B.ctrs fp ops)
    if g == some false then "FAIL goal-differs (decided by normal forms)"
    else if c == some false then s!"FAIL constraint-differs index {firstDiff nv B.ctrs e.ctrs 0}"
    else if f == some false then "FAIL f_ctrs/ops-disagree-with-ctrs"
    else if g == some true && c == some true && f == some true then (if tbl.isEmpty then "ok decided" else "ok decided-with-thick-constants")
    else s!"ok partly-decided goal={showOB g} ctrs={showOB c} fctrs={showOB f}"

def tvShow (t : TV) : String := s!"({t.1},{t.2})"

/-- exact point comparison of the derived system `B` with the statement of the property applied to `A` -/
def ptCheck (k : Kind) (A : System) (A2 : Option System) (B : System) (p : List Rat) : Option String := do
  if p.length != B.nvar then pure "FAIL point-size" else
  let n := A.nvar
  -- prediction from the original system(s): satisfaction and goal value
  let (pred, predEps0, goalExp) ← (match k with
    | .fac => some (satAllQ A.ctrs p, none, A.goal.map fun g => evalQ g p)
    | .copy m => some (satAllQ (copyCtrs m A.ctrs) p, none, if m == .copy then A.goal.map fun g => evalQ g p else none)
    | .norm eps => some (specNormQ eps A.ctrs p, specNormQ 0 A.ctrs p, A.goal.map fun g => evalQ g p)
    | .ext eps =>
      match A.goal with
      | none => some (specNormQ eps A.ctrs p, specNormQ 0 A.ctrs p, none)
      | some g =>
        let x := p.take n
        let y := (p.drop n).headD 0
        let gv := evalQ g x
        let geq : Option TV := gv.map fun v => match v.d with
          | [I] => (I == Itv.point y, Itv.containsExt I (.fin y))
          | _ => (false, false)
        some (allQ [specNormQ eps A.ctrs x, geq], allQ [specNormQ 0 A.ctrs x, geq], some (some (Mat.scalar (Itv.point y))))
    | .merge => do
      let A2 ← A2
      let bs ← mergeBlocks A.args A2.args
      let p1 := p.take n
      let p2 := env₂ bs p
      let goal := match A.goal, A2.goal with
        | some g, _ => some (evalQ g p1)
        | none, some g => some (evalQ g p2)
        | none, none => none
      some (allQ [satAllQ A.ctrs p1, satAllQ A2.ctrs p2], none, goal))
  match pred with
  | none => pure "ok undefined-at-point"
  | some pr =>
    match satAllQ B.ctrs p with
    | none => pure "FAIL derived-undefined-where-original-defined"
    | some ac =>
      if !pr.consistent ac then pure s!"FAIL satisfaction-differs predicted={tvShow pr} derived={tvShow ac}" else
      let fOK : Option String := match B.ctrs, B.fctrs with
        | [], none => none
        | _, none => some "FAIL f_ctrs-missing"
        | _, some (f, ops) =>
          match satFQ f ops p with
          | none => some "FAIL f_ctrs-undefined-or-ops-count"
          | some af => if af.consistent ac && af.consistent pr then none else some s!"FAIL f_ctrs-satisfaction-differs ctrs={tvShow ac} f_ctrs={tvShow af}"
      match fOK with
      | some msg => pure msg
      | none =>
        -- goal value
        let gOK : Bool := match goalExp, B.goal with
          | none, none => true
          | some (some ve), some gb =>
            (match evalQ gb p with
             | some vb => vb.r == ve.r && vb.c == ve.c && vb.d.length == ve.d.length &&
                          (List.zip vb.d ve.d).all fun q => !(Itv.inter q.1 q.2).isEmpty
             | none => false)
          | some none, some _ => true      -- the original goal is undefined at the point
          | _, _ => false
        if !gOK then pure "FAIL goal-value-differs" else
        -- extended system: the domain of the goal variable contains the goal value at points of the box
        let domOK : Bool := match k, A.goal with
          | .ext _, some g =>
            let x := p.take n
            let inBox := x.length == A.box.length && (List.zip x A.box).all fun q => ratIn q.1 q.2
            (match inBox, evalQ g x, B.box.getLast? with
             | true, some v, some Y => v.d.all fun I => Itv.subset I Y
             | _, _, _ => true)
          | _, _ => true
        if !domOK then pure "FAIL goal-value-outside-the-domain-of-the-goal-variable" else
        let exact := pr.exact && ac.exact
        let byEps : Bool := match predEps0 with
          | some p0 => pr.2 && !p0.2
          | none => false
        pure (if pr.2 then (if byEps then "ok feasible-within-eps" else if exact then "ok feasible" else "ok feasible-set-valued")
              else (if exact then "ok infeasible" else "ok infeasible-set-valued"))

end Ibex.Driver.SysOps

namespace Ibex.Driver
open Ibex Ibex.Proto Ibex.Sys Ibex.Driver.SysOps

def opsSys (op : String) (ins outs : List String) : Option String :=
  match op, ins, outs with
  | "sysrel", [k, a, b, g, c, f], [a', b', g', c', f'] => do
    let k ← parseKind k
    let A ← parseSys a b g c f; let B ← parseSys a' b' g' c' f'
    match expect k A none with
    | some e => pure (relCheck e B)
    | none => pure "FAIL model-undefined"
  | "sysrel", [k, a, b, g, c, f, a2, b2, g2, c2, f2], [a', b', g', c', f'] => do
    let k ← parseKind k
    let A ← parseSys a b g c f; let A2 ← parseSys a2 b2 g2 c2 f2; let B ← parseSys a' b' g' c' f'
    match expect k A (some A2) with
    | some e => pure (relCheck e B)
    | none => pure "FAIL model-undefined (merge of incompatible systems accepted by the library)"
  | "syspt", [k, a, b, g, c, f, pt], [a', b', g', c', f'] => do
    let k ← parseKind k
    let A ← parseSys a b g c f; let B ← parseSys a' b' g' c' f'
    ptCheck k A none B (← parsePoint pt)
  | "syspt", [k, a, b, g, c, f, a2, b2, g2, c2, f2, pt], [a', b', g', c', f'] => do
    let k ← parseKind k
    let A ← parseSys a b g c f; let A2 ← parseSys a2 b2 g2 c2 f2; let B ← parseSys a' b' g' c' f'
    ptCheck k A (some A2) B (← parsePoint pt)
  | "extbox", [gv, box, ext0], [ext1, box2] => do
    let gv ← gv.toNat?
    let box ← parseBoxL box; let ext0 ← parseBoxL ext0; let ext1 ← parseBoxL ext1; let box2 ← parseBoxL box2
    if ext0.length != box.length + 1 || gv > box.length then pure "FAIL ext-box-size" else
    pure (if ext1 != writeExt gv box ext0 then "FAIL write_ext_box-differs-from-model"
          else if box2 != box then "FAIL read_ext_box-does-not-return-the-box"
          else if readExt gv ext1 != box then "FAIL model-roundtrip" else "ok roundtrip")
  | "syserror", _, _ => pure "FAIL exception-thrown-by-the-library"
  | _, _, _ => none

end Ibex.Driver
