/- C10 workloads: Minibex text / serialisation.  Every comparison of expressions goes through the
   cascade `Minibex.cmpExpr` / `Minibex.cmpFlat` (verified levels `tree` and `nf`, exact points). -/
import IbexModel
import IbexModel.Minibex
import IbexGen.Tokens
import Driver.Proto
import Driver.OpsExpr
namespace Ibex.Driver
open Ibex Ibex.Proto Ibex.Minibex

def parsePts (s : String) : Option (List (List Rat)) :=
  if s == "-" then some [] else (s.splitOn "|").mapM parsePoint

def parseProg (s : String) : Option Prog := parseProgram s

/-- `op^prog|op^prog|…` -/
def parseCtrs (s : String) : Option (List (String × Prog)) :=
  if s == "-" then some [] else
  (s.splitOn "|").mapM fun c =>
    match c.splitOn "^" with
    | [op, p] => (parseProg p).map fun q => (op, q)
    | _ => none

/-- number of flattened variables declared by a `name@r.c,…` token -/
def dimOfVar (v : String) : Option Nat :=
  match v.splitOn "@" with
  | [_, d] =>
    match d.splitOn "." with
    | [r, c] => do pure ((← r.toNat?) * (← c.toNat?))
    | _ => none
  | _ => none

def nvarOf (vars : String) : Option Nat :=
  if vars == "-" then some 0 else
  ((vars.splitOn ",").mapM dimOfVar).map fun (l : List Nat) => l.foldl (· + ·) 0

/-- diagnosis only: the same DAG with every constant erased -/
def eraseConsts (d : Dag) : Dag :=
  d.map fun n => match n.k with | .const _ => { n with k := .const [] } | _ => n

/-- wording of an undecided comparison -/
def undecidedWhy (a b : Prog) : String :=
  if Dag.sameTree (eraseConsts a.2) (eraseConsts b.2) then
    "FAIL constants-differ:same-structure-but-different-constants-and-nothing-can-be-evaluated"
  else "FAIL undecided:structure-differs-and-nothing-can-be-evaluated"

/-- an undecided comparison is a failure (the tie is broken) EXCEPT when thick constants are involved: the last-resort
    comparison represents them by their midpoints, which a legitimate folding of the constant part moves (DESIGN §6.3) -/
def thickAware (as bs : List Prog) (v : Verdict) : Verdict :=
  match v with
  | .ok .undecided => if as.any hasThick || bs.any hasThick then .ok .thick else v
  | _ => v

def verdictStr : Verdict → String
  | .ok .undecided => "FAIL undecided:structure-differs-and-nothing-can-be-evaluated"
  | .ok l => "ok " ++ l.tag
  | .fail w => "FAIL " ++ w

/-- combine the verdicts of the parts of a model (first failure wins, else the weakest level) -/
def combine (vs : List (String × Verdict)) : String :=
  match vs.find? (fun v => match v.2 with | .fail _ => true | _ => false) with
  | some (what, .fail w) => s!"FAIL {what}:{w}"
  | _ =>
    let lv := vs.foldl (fun acc v => match v.2 with | .ok l => Level.weakest acc l | _ => acc) Level.tree
    if vs.isEmpty then "ok same-declarations"
    else if lv == Level.undecided then "FAIL undecided:structure-differs-and-nothing-can-be-evaluated"
    else "ok " ++ lv.tag

/-- equal boxes; when the expected box is marked `~` (a bound written with a decimal literal that is
    not a binary64 number) the actual box must lie inside its outward rounding -/
def boxAgrees (expected actual : String) : Bool :=
  if expected.startsWith "~" then
    match parseItvList ((expected.drop 1).toString), parseItvList actual with
    | some e, some a => e.length == a.length && (List.zip a e).all fun q => Itv.subset q.1 q.2
    | _, _ => false
  else expected == actual

structure SysDump where
  vars : String
  box : String
  goal : String
  ctrs : String
  fctrs : String
  ops : String

def SysDump.ofList : List String → Option SysDump
  | [v, b, g, c, f, o] => some ⟨v, b, g, c, f, o⟩
  | _ => none

def dimsProd (p : Prog) : Nat := match rootDims p with | some d => d.1 * d.2 | none => 0

/-- comparison of the declarations, then of the goal, then of the constraints
    (`strict`: one by one; `flat`: through the flattened vector functions and their comparison operators) -/
def cmpSys (strict : Bool) (a b : SysDump) (pts : List (List Rat)) : Option String := do
  if a.vars != b.vars then return s!"FAIL variables-differ {a.vars} / {b.vars}"
  if !(boxAgrees a.box b.box) then return "FAIL domains-differ"
  let nv ← nvarOf a.vars
  let goalV : List (String × Verdict) ←
    (if a.goal == "-" && b.goal == "-" then pure []
     else if a.goal == "-" || b.goal == "-" then pure [("goal", Verdict.fail "present-on-one-side-only")]
     else do let ga ← parseProg a.goal; let gb ← parseProg b.goal
             pure [("goal", thickAware [ga] [gb] (cmpExpr ga gb nv pts))])
  if strict then
    let ca ← parseCtrs a.ctrs
    let cb ← parseCtrs b.ctrs
    if ca.length != cb.length then return s!"FAIL number-of-constraints-differs {ca.length} / {cb.length}"
    let cv := (List.zip ca cb).zipIdx.map fun (p : ((String × Prog) × (String × Prog)) × Nat) =>
      (s!"constraint{p.2}",
        if p.1.1.1 != p.1.2.1 then Verdict.fail s!"comparison-differs-{p.1.1.1}-{p.1.2.1}"
        else thickAware [p.1.1.2] [p.1.2.2] (cmpExpr p.1.1.2 p.1.2.2 nv pts))
    return combine (goalV ++ cv)
  else
    if a.ops != b.ops then return s!"FAIL comparison-operators-differ {a.ops} / {b.ops}"
    if a.fctrs == "-" && b.fctrs == "-" then return combine goalV
    if a.fctrs == "-" || b.fctrs == "-" then return "FAIL constraints-present-on-one-side-only"
    let fa ← parseProg a.fctrs
    let fb ← parseProg b.fctrs
    return combine (goalV ++ [("constraints", thickAware [fa] [fb] (cmpFlat [fa] [fb] nv pts))])

def isRejection' (o : String) : Bool := o == "syntaxerror"

def opsMinibex (op : String) (ins outs : List String) : Option String :=
  match op, ins, outs with
  | "mbxskip", _, _ => pure "ok skipped"
  | "mbxstop", _, _ => pure "FAIL workload-stopped-after-too-many-timeouts"
  | "mbxself", _, _ => pure "FAIL generator-and-reference-reader-disagree"
  | "mbxload", [_], [o] =>
    pure (if o == "parsed" then "ok loaded" else if o == "syntaxerror" then "ok not-loaded-syntax-error"
          else if o == "timeout" || o == "exception:bad_alloc" then "ok resource-limit"
          else s!"FAIL load-{o}")
  | "mbxfun", [_, v1, p1, pts], o :: rest =>
    if o != "parsed" then pure s!"FAIL reparse-{o}" else
    match rest with
    | [v2, p2] => do
      if v1 != v2 then pure s!"FAIL arguments-differ {v1} / {v2}" else
      let nv ← nvarOf v1
      let pts ← parsePts pts
      let a ← parseProg p1
      let b ← parseProg p2
      pure (match thickAware [a] [b] (cmpExpr a b nv pts) with
        | .ok .undecided => undecidedWhy a b
        | v => verdictStr v)
    | _ => none
  | "mbxsys", mode :: _ :: rest, o :: orest => do
    if o != "parsed" then pure s!"FAIL parse-{o}" else
    match rest with
    | [v, b, g, c, f, os, pts] => do
      let a ← SysDump.ofList [v, b, g, c, f, os]
      let b ← SysDump.ofList orest
      cmpSys (mode == "strict") a b (← parsePts pts)
    | _ => none
  | "mbxcons", [_, nv, ctrs, fctrs, ops, pts], _ => do
    let nv ← nv.toNat?
    let cs ← parseCtrs ctrs
    let f ← parseProg fctrs
    let pts ← parsePts pts
    let expected := ",".intercalate (cs.flatMap fun c => List.replicate (dimsProd c.2) c.1)
    if expected != ops then pure s!"FAIL ops-of-f_ctrs-differ-from-constraints {expected} / {ops}" else
    pure (match cmpFlat (cs.map (·.2)) [f] nv pts with
      | .ok .undecided => "FAIL undecided:f_ctrs-and-constraints-cannot-be-compared"
      | .ok l => "ok consistent-" ++ l.tag
      | .fail w => "FAIL f_ctrs-differs-from-constraints:" ++ w)
  | "mbxmut", _ :: "reject" :: _, o :: _ =>
    pure (if o == "syntaxerror" then "ok rejected"
          else if o == "exception:bad_alloc" then "ok resource-limit"
          else if o == "dimexception" then "ok rejected-by-DimException"
          else if o == "parsed" then "FAIL text-rejected-by-the-reference-grammar-accepted"
          else s!"FAIL malformed-text-{o}")
  | "mbxouter", _, o :: _ =>
    pure (if o == "syntaxerror" || o == "dimexception" then "ok outer-product-rejected"
          else s!"FAIL text-with-outer-product-{o}")
  | "mbxmut", _ :: "unsupported" :: _, o :: _ =>
    pure (if o == "exception:bad_alloc" then "ok resource-limit" else
          if o == "syntaxerror" || o == "parsed" || o == "dimexception" then s!"ok outside-reference-fragment-{o}"
          else s!"FAIL text-{o}")
  | "mbxmut", _ :: "accept" :: rest, o :: orest => do
    if o == "exception:bad_alloc" then pure "ok resource-limit" else
    if o == "syntaxerror" then pure "FAIL text-accepted-by-the-reference-grammar-rejected" else
    if o != "parsed" then pure s!"FAIL text-{o}" else
    match rest with
    | [v, b, g, c, f, os, pts] => do
      let a ← SysDump.ofList [v, b, g, c, f, os]
      let b ← SysDump.ofList orest
      let r ← cmpSys true a b (← parsePts pts)
      pure (if r.startsWith "ok " then "ok accepted-" ++ (r.drop 3).toString else r)
    | _ => none
  | "hexitv", [lo, hi, mid, deg], [text] => do
    let lo ← parseHexNat lo; let hi ← parseHexNat hi; let mid ← parseHexNat mid
    let m := String.ofList (printItv Gen.Tokens.printerSignBit lo hi mid (deg == "1"))
    pure (if m == text then "ok printed-as-model" else s!"FAIL printed-text-differs-from-model {m}")
  | "hexread", [text], o :: rest => do
    if o != "parsed" then pure s!"FAIL reparse-{o}" else
    let res := rest.headD ""
    let rd := HexReader.ofString Gen.Tokens.hexReader
    let cs := text.toList
    let bounds : Option (Nat × Nat) :=
      match cs with
      | '[' :: tl =>
        let body := tl.takeWhile (· != ']')
        let l := body.takeWhile (· != ',')
        let h := (body.dropWhile (· != ',')).drop 1
        do pure ((← readDbl rd l), (← readDbl rd h))
      | _ => (readDbl rd cs).map fun b => (b, b)
    match bounds with
    | none => pure "FAIL model-cannot-read-the-printed-constant"
    | some (l, h) =>
      let canon (b : Nat) : Nat := b   -- (raw bit patterns: the sign of zero is part of the round trip)
      let expected : String :=
        if notNaN l && notNaN h then
          match bitsToDbl l, bitsToDbl h with
          | .val a, .val b =>
            if Ext.le a b && a != .pinf && b != .ninf then hexOfNat16 (canon l) ++ ":" ++ hexOfNat16 (canon h) else "E"
          | _, _ => "E"
        else "E"
      pure (if res == expected then "ok read-as-model" else s!"FAIL read-differs-from-model {expected}")
  | _, _, _ => none

end Ibex.Driver
