/- Box-level workloads for C16. -/
import IbexModel
import Driver.Proto
import Driver.OpsItv
namespace Ibex.Driver
open Ibex Ibex.Proto

def parseBox (s : String) : Option Box :=
  if s == "E" then some [Itv.empty] else (s.splitOn ";").mapM parseItv

def showBox (b : Box) : String :=
  if Box.isEmpty b then "E" else ";".intercalate (b.map showItv)

/-- canonical, order-insensitive rendering of a list of boxes -/
def showBoxes (l : List Box) : String :=
  let ss := (l.map showBox).toArray.qsort (· < ·) |>.toList
  if ss.isEmpty then "-" else "|".intercalate ss

def parseBoxes (s : String) : Option (List Box) :=
  if s == "-" then some [] else (s.splitOn "|").mapM parseBox

def box2Eq (f : Box → Box → String) (ins outs : List String) : Option String :=
  match ins, outs with
  | [x, y], [z] => do
    let x ← parseBox x; let y ← parseBox y
    pure (eqVerdict (f x y) z)
  | _, _ => none

def opsBox (op : String) (ins outs : List String) : Option String :=
  match op with
  | "vinter" => box2Eq (fun x y => showBox (Box.inter x y)) ins outs
  | "vhull" => box2Eq (fun x y => showBox (Box.hull x y)) ins outs
  | "vis_subset" => box2Eq (fun x y => showBool (Box.subset x y)) ins outs
  | "vis_strict_subset" => box2Eq (fun x y => showBool (Box.strictSubset x y)) ins outs
  | "vis_interior_subset" => box2Eq (fun x y => showBool (Box.interiorSubset x y)) ins outs
  | "vis_strict_interior_subset" => box2Eq (fun x y => showBool (Box.strictInteriorSubset x y)) ins outs
  | "vis_relative_interior_subset" => box2Eq (fun x y => showBool (Box.relInteriorSubset x y)) ins outs
  | "vintersects" => box2Eq (fun x y => showBool (Box.intersects x y)) ins outs
  | "voverlaps" => box2Eq (fun x y => showBool (Box.overlaps x y)) ins outs
  | "vis_disjoint" => box2Eq (fun x y => showBool (Box.isDisjoint x y)) ins outs
  | "vdiff" =>
    match ins, outs with
    | [x, y], [z] => do
      let x ← parseBox x; let y ← parseBox y; let z ← parseBoxes z
      pure (eqVerdict (showBoxes (Box.diff x y)) (showBoxes (z.filter (!Box.isEmpty ·))))
    | _, _ => none
  | "vdiffnc" =>
    -- IntervalVector::diff with compactness = false (flat pieces are kept): judged on the grid of the bounds of x and y and the
    -- midpoints between them (exact rational points): a point of x outside y must lie in a returned box, every returned box
    -- lies in x and does not overlap y
    match ins, outs with
    | [x, y], [z] => do
      let x ← parseBox x; let y ← parseBox y; let z ← parseBoxes z
      let z := z.filter (!Box.isEmpty ·)
      if Box.isEmpty x then pure (if z.isEmpty then "ok empty" else "FAIL pieces-of-an-empty-box") else
      if Box.isEmpty y || y.length != x.length then pure (if z == [x] then "ok nothing-removed" else "FAIL difference-with-the-empty-box-is-not-x") else
      if z.any (fun b => !Box.subset b x) then pure "FAIL piece-not-inside-x" else
      if z.any (fun b => Box.overlaps b y) then pure "FAIL piece-overlaps-y" else
      let fin : Ext → Option Rat := fun e => match e with | .fin q => some q | _ => none
      let cands : List (List Rat) := (List.zip x y).map fun (xi, yi) =>
        let bs : List Rat := (match xi with | .mk a b => [fin a, fin b].filterMap id | _ => []) ++ (match yi with | .mk a b => [fin a, fin b].filterMap id | _ => [])
        let bs := bs ++ (match bs with | [] => [0] | _ => [])
        let sorted := bs.mergeSort (· ≤ ·)
        let mids := (List.zip sorted (sorted.drop 1)).map fun (a, b) => (a + b) / 2
        let ext := (match sorted.head?, sorted.getLast? with | some a, some b => [a - 1, b + 1] | _, _ => [])
        (sorted ++ mids ++ ext).filter fun q => Itv.containsExt xi (.fin q)
      let pts : List (List Rat) := cands.foldr (fun c acc => c.flatMap fun q => acc.map fun p => q :: p) [[]]
      let inBox := fun (p : List Rat) (b : Box) => b.length == p.length && (List.zip p b).all fun (q, i) => Itv.containsExt i (.fin q)
      let lost := pts.find? fun p => !(inBox p y) && !(z.any (inBox p))
      pure (match lost with
            | some p => s!"FAIL point-of-x-outside-y-in-no-piece {p}"
            | none => s!"ok non-compact-difference-covers-the-grid pts={pts.length}")
    | _, _ => none
  | "vcompl" =>
    match ins, outs with
    | [y], [z] => do
      let y ← parseBox y; let z ← parseBoxes z
      pure (eqVerdict (showBoxes (Box.complementary y)) (showBoxes (z.filter (!Box.isEmpty ·))))
    | _, _ => none
  | "bisect" =>   -- bisect <x> <ratio> => <left> <right>
    match ins, outs with
    | [x, _], [l, r] => do
      let x ← parseItv x; let l ← parseItv l; let r ← parseItv r
      pure (if Box.bisectOk x l r then "ok" else "FAIL halves-not-a-strict-cover")
    | _, _ => none
  | "vbisect" =>  -- vbisect <box> <i> <ratio> => <left> <right>
    match ins, outs with
    | [x, i, _], [l, r] => do
      let x ← parseBox x; let i ← i.toNat?; let l ← parseBox l; let r ← parseBox r
      pure (if Box.boxBisectOk x i l r then "ok" else "FAIL halves-not-a-strict-cover")
    | _, _ => none
  | "is_bisectable" =>
    match ins, outs with
    | [x], [z] => do
      let x ← parseItv x
      pure (eqVerdict (showBool (Box.bisectable x)) z)
    | _, _ => none
  | "bsc" =>  -- bsc <class> <box> <prec;prec;...> => <var|none>
    match ins, outs with
    | [_, x, p], [z] => do
      let x ← parseBox x
      let p ← (p.splitOn ";").mapM parseExt
      let c ← (if z == "none" then some none else z.toNat?.map some)
      pure (if Box.bscOk x p c then (if c.isSome then "ok var" else "ok none") else "FAIL inadmissible-bisector-answer")
    | _, _ => none
  | "cart_prod" =>
    match ins, outs with
    | [x, y], [z] => do
      let x ← parseBox x; let y ← parseBox y
      pure (eqVerdict (showBox (if Box.isEmpty x || Box.isEmpty y then [Itv.empty] else x ++ y)) z)
    | _, _ => none
  | _ => none

end Ibex.Driver
